import Juniper.Proofs.ParDoInv
/-! Inductive invariants of the `parallel.Do` / `DoContext` LTS, part 2: simple state facts (after the
return every worker is done; `Do` never sees a context; errgroup error implies a cancelled context). -/
set_option linter.unusedSimpArgs false
set_option linter.unusedVariables false

namespace Juniper.Proofs.ParDo
open Juniper.Gen Juniper.Model.ParDo

def notDone : Pc → Bool
  | .done => false
  | _ => true
def isRetErr : Pc → Bool
  | .retErr _ => true
  | _ => false
def isCheck : Pc → Bool
  | .check _ => true
  | _ => false
def isCall : Pc → Bool
  | .call _ => true
  | _ => false
def isDone : Pc → Bool
  | .done => true
  | _ => false

/-- number of workers whose program counter satisfies `p` (kept opaque to `simp`) -/
def cnt (p : Pc → Bool) (ws : List Pc) : Nat := ws.countP p

theorem cnt_set {p : Pc → Bool} {ws : List Pc} {w : Nat} {a b : Pc} (hw : ws[w]? = some b) :
    cnt p (ws.set w a) = cnt p ws - (if p b then 1 else 0) + (if p a then 1 else 0) := countP_set_sub hw

theorem cnt_ge (p : Pc → Bool) {ws : List Pc} {w : Nat} {b : Pc} (hw : ws[w]? = some b) :
    (if p b then 1 else 0) ≤ cnt p ws := countP_ge_of p hw

@[simp] theorem cnt_nil (p : Pc → Bool) : cnt p [] = 0 := rfl
@[simp] theorem cnt_singleton (p : Pc → Bool) (a : Pc) : cnt p [a] = if p a then 1 else 0 := by
  simp [cnt, List.countP_cons]
@[simp] theorem cnt_replicate (p : Pc → Bool) (a : Pc) (n : Nat) : cnt p (List.replicate n a) = if p a then n else 0 := by
  simp [cnt, List.countP_replicate]

theorem cnt_le_length (p : Pc → Bool) (ws : List Pc) : cnt p ws ≤ ws.length := List.countP_le_length

theorem allDone_iff (ws : List Pc) : allDone ws = true ↔ cnt notDone ws = 0 := by
  simp only [allDone, List.all_eq_true, cnt, List.countP_eq_zero]
  constructor
  · intro h a ha; have := h a ha; cases a <;> simp_all [notDone]
  · intro h a ha; have := h a ha; cases a <;> simp_all [notDone]

/-- simple state facts -/
structure Inv2 (cfg : Cfg) (s : St) : Prop where
  D : s.ret ≠ none → cnt notDone s.ws = 0
  M : cfg.code.ctxMode = false → s.dCause = none ∧ s.callerCancelled = false ∧ s.egErr = none ∧
        cnt isRetErr s.ws = 0 ∧ cnt isCheck s.ws = 0 ∧ noFailure s
  S : s.seq = true → s.egErr = none ∧ (s.callerCancelled = false → s.dCause = none) ∧ s.skipped = [] ∧ cnt isCheck s.ws = 0
  G : s.seq = false → s.egErr ≠ none → s.dCause ≠ none
  R : s.ret = some none → s.egErr = none
  E4 : (s.dCause = some .lib → s.egErr ≠ none) ∧ (s.dCause = some .caller → s.callerCancelled = true)

theorem inv2_init (cfg : Cfg) : Inv2 cfg (init cfg) := by
  unfold init
  split <;> refine ⟨?_, ?_, ?_, ?_, ?_, ?_⟩ <;> simp [noFailure]
  all_goals (try split) <;> simp [isRetErr, isCheck]

syntax "pardo_cases " ident " => " tacticSeq : tactic
macro_rules
  | `(tactic| pardo_cases $h:ident => $t:tacticSeq) =>
    `(tactic| (
      (simp only [step] at $h:ident)
      (repeat' split at $h:ident)
      all_goals (try (simp at $h:ident; done))
      all_goals (simp only [Option.some.injEq] at $h:ident; subst $h:ident)
      all_goals ($t)))

syntax "inv2_worker " ident ident : tactic
macro_rules
  | `(tactic| inv2_worker $hi:ident $hs:ident) =>
    `(tactic| (
         have hw := ‹_[_]? = some _›
         have hD := cnt_ge notDone hw
         have hR := cnt_ge isRetErr hw
         have hC := cnt_ge isCheck hw
         have ⟨iD, iM, iS, iG, iR, iE⟩ := $hi
         refine ⟨?_, ?_, ?_, ?_, ?_, ?_⟩ <;>
           simp [Option.isSome_iff_ne_none, Res.isErr, cnt_set hw, notDone, isRetErr, isCheck, noFailure, ($hs).workerCancelled, ($hs).workerFailed, ($hs).seqStops, ($hs).seqLoop, ($hs).seqInit, ($hs).seqPost, effN_eq $hs] at * <;> grind))

theorem inv2_step {cfg : Cfg} (hs : cfg.code.Sound) {s s' : St} {l : Label} (hi : Inv2 cfg s)
    (h : step cfg s l = some s') : Inv2 cfg s' := by
  cases l with
  | fetch w => pardo_cases h => inv2_worker hi hs
  | check w => pardo_cases h => inv2_worker hi hs
  | begin w => pardo_cases h => inv2_worker hi hs
  | fEnd w r => pardo_cases h => inv2_worker hi hs
  | egDone w => pardo_cases h => inv2_worker hi hs
  | callerCancel =>
    pardo_cases h =>
      (have ⟨iD, iM, iS, iG, iR, iE⟩ := hi
       refine ⟨?_, ?_, ?_, ?_, ?_, ?_⟩ <;>
         simp [Option.isSome_iff_ne_none, noFailure] at * <;> grind)
  | ret =>
    pardo_cases h =>
      (have ⟨iD, iM, iS, iG, iR, iE⟩ := hi
       have hall := allDone_iff s.ws
       refine ⟨?_, ?_, ?_, ?_, ?_, ?_⟩ <;>
         simp [Option.isSome_iff_ne_none, noFailure, notDone, isRetErr, isCheck, *] at * <;> grind)

theorem inv2 {cfg : Cfg} (hs : cfg.code.Sound) {s : St} (h : Reach cfg s) : Inv2 cfg s := by
  induction h with
  | init => exact inv2_init cfg
  | step _ hstep ih => exact inv2_step hs ih hstep

end Juniper.Proofs.ParDo
