import Juniper.Proofs.StreamMergeResults
/-! Helper lemmas for C12 (stream.Merge LTS), part 6: progress — once every input has ended the normal
end is delivered, once an input failed its error is delivered, to a consumer that is waiting in `Next`. -/
set_option linter.unusedSectionVars false
set_option linter.unusedSimpArgs false
set_option linter.unusedVariables false
namespace Juniper.Proofs.StreamMerge
open Juniper.Model.StreamMerge
variable {V : Type}

/-- the goroutine won the CAS (and is still running its statements, or has left through them) -/
def isWinner (g : G V) : Prop := (∃ e r, g.pc = .won e r) ∨ g.why = some .wonCas
/-- the goroutine won the CAS and has executed `sender.Close(err)` -/
def hasClosedErr (g : G V) : Prop := (∃ e, g.pc = .won e []) ∨ g.why = some .wonCas

structure InvL (k : Nat) (s : St V) : Prop where
  w5 : s.closeOnce = true → ∃ g, g ∈ s.gs ∧ isWinner g
  r6 : ∀ g, g ∈ s.gs → hasClosedErr g → 0 < s.senderCloses
  l : s.closeOnce = false → 0 < k → sumBy (mayNilInd k) s.gs = 0 → 0 < s.senderCloses

theorem invL_init (k : Nat) : InvL k (init V k) := by
  refine ⟨by simp [init], ?_, ?_⟩
  · intro g hg h
    simp [init] at hg
    rw [hg.2] at h
    simp [hasClosedErr] at h
  · intro _ hk h
    simp [init, sumBy_replicate, mayNilInd, marked] at h
    omega

theorem trans_isWinner {g g' : G V} (t : Trans g g') (hl : LocalOK g) (h : isWinner g) : isWinner g' := by
  by_cases hw : g.why = none
  · have he : ∃ e r, g.pc = .won e r := by
      rcases h with h | h
      · exact h
      · rw [hw] at h; cases h
    obtain ⟨e, r, hp⟩ := he
    cases t with
    | winStep e' y rest hp' => left; exact ⟨e', rest, rfl⟩
    | winDone e' hp' => right; rfl
    | item v hp' => rw [hp] at hp'; cases hp'
    | ended hp' => rw [hp] at hp'; cases hp'
    | err e' hp' => rw [hp] at hp'; cases hp'
    | casWin e' hp' => rw [hp] at hp'; cases hp'
    | casLose e' hp' => rw [hp] at hp'; cases hp'
    | sendOk v hp' => rw [hp] at hp'; cases hp'
    | sendFail v hp' => rw [hp] at hp'; cases hp'
    | mark d rest hp' => rw [hp] at hp'; cases hp'
    | check d rest hp' => rw [hp] at hp'; cases hp'
    | closeIn rest hp' => rw [hp] at hp'; cases hp'
    | wgDone rest hp' => rw [hp] at hp'; cases hp'
    | fin hp' => rw [hp] at hp'; cases hp'
  · obtain ⟨h1, _, _, h4⟩ := trans_after_loop t hl hw
    have hnl : inLoop g.pc = false := by
      cases hh : inLoop g.pc
      · rfl
      · exact absurd (hl.why.mpr hh) hw
    rcases h with ⟨e, r, hp⟩ | h
    · simp [hp, inLoop] at hnl
    · right; rw [h1]; exact h

theorem trans_hasClosedErr {g g' : G V} (t : Trans g g') (hl : LocalOK g) (h : hasClosedErr g') :
    hasClosedErr g ∨ ∃ e, g.pc = .won e [.closeErr] := by
  by_cases hw : g.why = none
  · cases t with
    | winStep e' y rest hp' =>
      rcases h with ⟨e, hp⟩ | h
      · simp at hp
        obtain ⟨rfl, rfl⟩ := hp
        have hs := hl.shape
        rw [hp'] at hs
        simp only [Shape] at hs
        rcases hs with hs | hs | hs <;> simp at hs
        subst hs
        right; exact ⟨e', hp'⟩
      · simp at h; rw [hw] at h; cases h
    | winDone e' hp' => left; left; exact ⟨e', hp'⟩
    | item v hp' => rcases h with ⟨e, hp⟩ | h <;> simp_all
    | ended hp' => rcases h with ⟨e, hp⟩ | h <;> simp_all
    | err e' hp' => rcases h with ⟨e, hp⟩ | h <;> simp_all
    | casWin e' hp' => rcases h with ⟨e, hp⟩ | h <;> simp_all
    | casLose e' hp' => rcases h with ⟨e, hp⟩ | h <;> simp_all
    | sendOk v hp' => rcases h with ⟨e, hp⟩ | h <;> simp_all [again]
    | sendFail v hp' => rcases h with ⟨e, hp⟩ | h <;> simp_all
    | mark d rest hp' => rcases h with ⟨e, hp⟩ | h <;> simp_all
    | check d rest hp' => rcases h with ⟨e, hp⟩ | h <;> simp_all
    | closeIn rest hp' => rcases h with ⟨e, hp⟩ | h <;> simp_all
    | wgDone rest hp' => rcases h with ⟨e, hp⟩ | h <;> simp_all
    | fin hp' => rcases h with ⟨e, hp⟩ | h <;> simp_all
  · obtain ⟨h1, _, _, h4⟩ := trans_after_loop t hl hw
    rcases h with ⟨e, hp⟩ | h
    · simp [hp, inLoop] at h4
    · left; right; rw [← h1]; exact h

theorem invL_gor {k : Nat} {s s' : St V} (ha : InvA k s) (hi : InvL k s) {i : Nat} {g g' : G V}
    (hg : s.gs[i]? = some g) (t : Trans g g') (hgs : s'.gs = s.gs.set i g')
    (hsc : s.senderCloses ≤ s'.senderCloses)
    (hco : s'.closeOnce = s.closeOnce ∨ (s'.closeOnce = true ∧ ∃ e r, g'.pc = .won e r))
    (hce : (∃ e, g.pc = .won e [.closeErr]) → 0 < s'.senderCloses)
    (hl : s'.closeOnce = false → sumBy (mayNilInd k) (s.gs.set i g') = 0 →
          sumBy (mayNilInd k) s.gs = 0 ∨ 0 < s'.senderCloses) : InvL k s' := by
  have hgm : g ∈ s.gs := List.mem_of_getElem? hg
  have hloc := ha.loc g hgm
  have hk : 0 < k := by
    have := (List.getElem?_eq_some_iff.mp hg).1
    rw [ha.len] at this; omega
  obtain ⟨hmem, hget⟩ := set_facts (g' := g') hg
  have hin : g' ∈ s.gs.set i g' := List.mem_set ((List.getElem?_eq_some_iff.mp hg).1) _
  refine ⟨?_, ?_, ?_⟩
  · intro hc
    rw [hgs]
    rcases hco with h1 | ⟨_, e, r, hp⟩
    · rw [h1] at hc
      obtain ⟨a, haa, hw⟩ := hi.w5 hc
      obtain ⟨j, hj, hja⟩ := List.getElem_of_mem haa
      by_cases hji : j = i
      · subst hji
        have : s.gs[j]? = some a := by rw [List.getElem?_eq_getElem hj, hja]
        rw [hg] at this; cases this
        exact ⟨g', hin, trans_isWinner t hloc hw⟩
      · refine ⟨a, ?_, hw⟩
        apply List.mem_of_getElem? (i := j)
        have hne : ¬ i = j := fun h => hji h.symm
        simp [List.getElem?_set, hne, List.getElem?_eq_getElem hj, hja]
    · exact ⟨g', hin, .inl ⟨e, r, hp⟩⟩
  · intro a haa hw
    rw [hgs] at haa
    rcases hmem a haa with haa | rfl
    · have := hi.r6 a haa hw; omega
    · rcases trans_hasClosedErr t hloc hw with h | h
      · have := hi.r6 g hgm h; omega
      · exact hce h
  · intro hc _ hz
    rw [hgs] at hz
    rcases hl hc hz with h | h
    · rcases hco with h1 | ⟨h1, _⟩
      · have := hi.l (by rw [← h1]; exact hc) hk h; omega
      · rw [h1] at hc; cases hc
    · exact h

theorem invL_step {k : Nat} {s s' : St V} {l : Label V} (ha : InvA k s) (hc : InvC k s) (hi : InvL k s)
    (h : step s l = some s') : InvL k s' := by
  have neutral : ∀ {i : Nat} {g g' : G V}, s.gs[i]? = some g → mayNilInd k g' = mayNilInd k g →
      sumBy (mayNilInd k) (s.gs.set i g') = 0 → sumBy (mayNilInd k) s.gs = 0 ∨ 0 < s'.senderCloses := by
    intro i g g' hg he hz
    left; rw [← sum_same (mayNilInd k) hg he]; exact hz
  cases l with
  | inItem i v =>
    obtain ⟨g, hg, hp, rfl⟩ := step_inItem h
    exact invL_gor ha hi hg (.item g v hp) rfl (Nat.le_refl _) (.inl rfl) (fun ⟨e, he⟩ => by rw [hp] at he; cases he)
      (fun _ => neutral hg (by simp [mayNilInd, hp, marked, pendingD]))
  | inEnd i =>
    obtain ⟨g, hg, hp, rfl⟩ := step_inEnd h
    exact invL_gor ha hi hg (.ended g hp) rfl (Nat.le_refl _) (.inl rfl) (fun ⟨e, he⟩ => by rw [hp] at he; cases he)
      (fun _ => neutral hg (by simp [mayNilInd, hp, marked, pendingD]))
  | inErr i e =>
    obtain ⟨g, hg, hp, rfl⟩ := step_inErr h
    exact invL_gor ha hi hg (.err g (.inj e) hp) rfl (Nat.le_refl _) (.inl rfl) (fun ⟨e, he⟩ => by rw [hp] at he; cases he)
      (fun _ => neutral hg (by simp [mayNilInd, hp, marked, pendingD]))
  | inCtx i =>
    obtain ⟨g, hg, hp, _, rfl⟩ := step_inCtx h
    exact invL_gor ha hi hg (.err g .ctx hp) rfl (Nat.le_refl _) (.inl rfl) (fun ⟨e, he⟩ => by rw [hp] at he; cases he)
      (fun _ => neutral hg (by simp [mayNilInd, hp, marked, pendingD]))
  | cas i =>
    obtain ⟨g, e, hg, hp, hcc⟩ := step_cas h
    rcases hcc with ⟨hco, rfl⟩ | ⟨hco, rfl⟩
    · exact invL_gor ha hi hg (.casWin g e hp) rfl (Nat.le_refl _) (.inr ⟨rfl, e, _, rfl⟩)
        (fun ⟨e, he⟩ => by rw [hp] at he; cases he) (fun hcf => by cases hcf)
    · exact invL_gor ha hi hg (.casLose g e hp) rfl (Nat.le_refl _) (.inl rfl) (fun ⟨e, he⟩ => by rw [hp] at he; cases he)
        (fun _ => neutral hg (by simp [mayNilInd, hp, marked, pendingD]))
  | win i =>
    obtain ⟨g, e, hg, hcc⟩ := step_win h
    rcases hcc with ⟨rest, hp, rfl⟩ | ⟨rest, hp, rfl⟩ | ⟨hp, rfl⟩
    · have hs := (ha.loc g (List.mem_of_getElem? hg)).shape
      rw [hp] at hs; simp only [Shape] at hs
      rcases hs with hs | hs | hs <;> simp at hs
      subst hs
      exact invL_gor ha hi hg (.winStep g e _ _ hp) rfl (Nat.le_refl _) (.inl rfl) (fun ⟨e, he⟩ => by rw [hp] at he; cases he)
        (fun _ => neutral hg (by simp [mayNilInd, hp, marked, pendingD]))
    · exact invL_gor ha hi hg (.winStep g e _ rest hp) rfl (Nat.le_succ _) (.inl rfl) (fun _ => Nat.succ_pos _)
        (fun _ _ => .inr (Nat.succ_pos _))
    · exact invL_gor ha hi hg (.winDone g e hp) rfl (Nat.le_refl _) (.inl rfl) (fun ⟨e, he⟩ => by rw [hp] at he; cases he)
        (fun _ => neutral hg (by simp [mayNilInd, hp, marked, pendingD]))
  | sendOk i =>
    obtain ⟨g, v, live, hg, hp, _, rfl⟩ := step_sendOk h
    exact invL_gor ha hi hg (.sendOk g v hp) rfl (Nat.le_refl _) (.inl rfl) (fun ⟨e, he⟩ => by rw [hp] at he; cases he)
      (fun _ => neutral hg (by simp [mayNilInd, hp, marked, pendingD, again]))
  | sendFail i =>
    obtain ⟨g, v, hg, hp, _, rfl⟩ := step_sendFail h
    exact invL_gor ha hi hg (.sendFail g v hp) rfl (Nat.le_refl _) (.inl rfl) (fun ⟨e, he⟩ => by rw [hp] at he; cases he)
      (fun _ => neutral hg (by simp [mayNilInd, hp, marked, pendingD]))
  | exitStep i =>
    obtain ⟨g, hg, hcc⟩ := step_exitStep h
    have hgm := List.mem_of_getElem? hg
    have hshape := (ha.loc g hgm).shape
    rcases hcc with ⟨rest, hp, rfl⟩ | ⟨d, rest, hp, _, _, rfl⟩ | ⟨d, rest, hp, hnf, rfl⟩ | ⟨rest, hp, rfl⟩ |
      ⟨rest, hp, rfl⟩ | ⟨hp, rfl⟩
    · -- markDone: cannot make the last candidate disappear
      refine invL_gor ha hi hg (.mark g (s.nDone + 1) rest hp) rfl (Nat.le_refl _) (.inl rfl)
        (fun ⟨e, he⟩ => by rw [hp] at he; cases he) ?_
      intro _ hz
      exfalso
      rw [hp] at hshape; simp only [Shape, E0] at hshape
      rcases hshape with hs | ⟨d', hs⟩ | hs | hs | hs <;> simp at hs
      subst hs
      have hin : ({ g with pc := .exiting [.checkLast (s.nDone + 1), .closeInput, .wgDone] } : G V) ∈
          s.gs.set i { g with pc := .exiting [.checkLast (s.nDone + 1), .closeInput, .wgDone] } :=
        List.mem_set ((List.getElem?_eq_some_iff.mp hg).1) _
      have hg0 := sumBy_zero (mayNilInd k) _ hz _ hin
      have hne : s.nDone + 1 ≠ k := by
        intro he
        simp [mayNilInd, marked, pendingD, he] at hg0
      -- everybody is marked afterwards, so nDone + 1 = k
      have hall : ∀ a, a ∈ s.gs.set i ({ g with pc := .exiting [.checkLast (s.nDone + 1), .closeInput, .wgDone] } : G V) →
          markedInd a = 1 := by
        intro a haa
        have := sumBy_zero (mayNilInd k) _ hz a haa
        unfold mayNilInd at this
        split at this
        · cases this
        · rename_i hh
          unfold markedInd
          cases hm : marked a.pc
          · exact absurd (.inl hm) hh
          · rfl
      have hsum : sumBy markedInd (s.gs.set i ({ g with pc := .exiting [.checkLast (s.nDone + 1), .closeInput, .wgDone] } : G V))
          = k := by
        have : ∀ (l : List (G V)), (∀ a, a ∈ l → markedInd a = 1) → sumBy markedInd l = l.length := by
          intro l hl
          induction l with
          | nil => rfl
          | cons a l ih =>
            have h1 := hl a (by simp)
            have h2 := ih (fun x hx => hl x (by simp [hx]))
            simp [sumBy] at h2 ⊢; omega
        rw [this _ hall]; simp [ha.len]
      have hm := sumBy_set markedInd s.gs i
        ({ g with pc := .exiting [.checkLast (s.nDone + 1), .closeInput, .wgDone] } : G V) g hg
      have e1 : markedInd ({ g with pc := .exiting [.checkLast (s.nDone + 1), .closeInput, .wgDone] } : G V) = 1 := by
        simp [markedInd, marked]
      have e2 : markedInd g = 0 := by simp [markedInd, hp, marked]
      rw [e1, e2, hsum, ← hc.c1] at hm
      omega
    · exact invL_gor ha hi hg (.check g d rest hp) rfl (Nat.le_succ _) (.inl rfl) (fun _ => Nat.succ_pos _)
        (fun _ _ => .inr (Nat.succ_pos _))
    · refine invL_gor ha hi hg (.check g d rest hp) rfl (Nat.le_refl _) (.inl rfl)
        (fun ⟨e, he⟩ => by rw [hp] at he; cases he) ?_
      intro hcf hz
      rw [hp] at hshape; simp only [Shape, E0] at hshape
      rcases hshape with hs | ⟨d', hs⟩ | hs | hs | hs <;> simp at hs
      obtain ⟨_, rfl⟩ := hs
      have hdk : d ≠ k := by
        intro he
        exact hnf ⟨by rw [he, ha.hk], hcf⟩
      exact neutral hg (by simp [mayNilInd, hp, marked, pendingD, hdk]) hz
    · rw [hp] at hshape; simp only [Shape, E0] at hshape
      rcases hshape with hs | ⟨d', hs⟩ | hs | hs | hs <;> simp at hs
      subst hs
      exact invL_gor ha hi hg (.closeIn g _ hp) rfl (Nat.le_refl _) (.inl rfl) (fun ⟨e, he⟩ => by rw [hp] at he; cases he)
        (fun _ => neutral hg (by simp [mayNilInd, hp, marked, pendingD]))
    · rw [hp] at hshape; simp only [Shape, E0] at hshape
      rcases hshape with hs | ⟨d', hs⟩ | hs | hs | hs <;> simp at hs
      subst hs
      exact invL_gor ha hi hg (.wgDone g _ hp) rfl (Nat.le_refl _) (.inl rfl) (fun ⟨e, he⟩ => by rw [hp] at he; cases he)
        (fun _ => neutral hg (by simp [mayNilInd, hp, marked, pendingD]))
    · exact invL_gor ha hi hg (.fin g hp) rfl (Nat.le_refl _) (.inl rfl) (fun ⟨e, he⟩ => by rw [hp] at he; cases he)
        (fun _ => neutral hg (by simp [mayNilInd, hp, marked, pendingD]))
  | cCall live => obtain ⟨_, rfl⟩ := step_cCall h; exact ⟨hi.w5, hi.r6, hi.l⟩
  | cEnd => obtain ⟨_, _, _, rfl⟩ := step_cEnd h; exact ⟨hi.w5, hi.r6, hi.l⟩
  | cCtx => obtain ⟨_, rfl⟩ := step_cCtx h; exact ⟨hi.w5, hi.r6, hi.l⟩
  | cExpire => obtain ⟨_, rfl⟩ := step_cExpire h; exact ⟨hi.w5, hi.r6, hi.l⟩
  | cClose => obtain ⟨_, rfl⟩ := step_cClose h; exact ⟨hi.w5, hi.r6, hi.l⟩
  | cCloseStep =>
    rcases step_cCloseStep h with ⟨_, _, rfl⟩ | ⟨_, _, rfl⟩ | ⟨_, _, _, rfl⟩ <;> exact ⟨hi.w5, hi.r6, hi.l⟩
  | ctxEnds => obtain ⟨_, _, rfl⟩ := step_ctxEnds h; exact ⟨hi.w5, hi.r6, hi.l⟩

theorem reach_invL {k : Nat} {s : St V} (h : Reach (init V k) s) : InvL k s := by
  induction h with
  | refl => exact invL_init k
  | step l hr hs ih => exact invL_step (reach_invA hr) (reach_invC hr) ih hs


/-! ### enabledness of single goroutine steps -/

theorem enabled_of_isSome {s : St V} {l : Label V} (h : (step s l).isSome = true) : ∃ s', step s l = some s' :=
  Option.isSome_iff_exists.mp h

theorem cas_enabled {s : St V} {i : Nat} {g : G V} {e : Err} (hik : i < s.k) (hg : s.gs[i]? = some g)
    (hp : g.pc = .gotErr e) : ∃ l, l ∈ internalLabels s ∧ ∃ s', step s l = some s' := by
  refine ⟨.cas i, mem_internal_of_lt hik .cas (by simp), enabled_of_isSome ?_⟩
  cases hco : s.closeOnce <;> simp [step, hg, hp, hco, casGuards_eq]

theorem win_enabled {s : St V} {i : Nat} {g : G V} {e : Err} {r : List WinStep} (hik : i < s.k)
    (hg : s.gs[i]? = some g) (hloc : LocalOK g) (hp : g.pc = .won e r) :
    ∃ l, l ∈ internalLabels s ∧ ∃ s', step s l = some s' := by
  refine ⟨.win i, mem_internal_of_lt hik .win (by simp), enabled_of_isSome ?_⟩
  have hs := hloc.shape
  rw [hp] at hs
  simp only [Shape] at hs
  rcases hs with rfl | rfl | rfl <;> simp [step, hg, hp, errReturns_eq]

theorem exit_enabled {s : St V} {i : Nat} {g : G V} {r : List ExitStep} (hik : i < s.k)
    (hg : s.gs[i]? = some g) (hloc : LocalOK g) (hp : g.pc = .exiting r) :
    ∃ l, l ∈ internalLabels s ∧ ∃ s', step s l = some s' := by
  refine ⟨.exitStep i, mem_internal_of_lt hik .exitStep (by simp), enabled_of_isSome ?_⟩
  have hs := hloc.shape
  rw [hp] at hs
  simp only [Shape, E0] at hs
  rcases hs with rfl | ⟨d, rfl⟩ | rfl | rfl | rfl
  · simp [step, hg, hp]
  · simp only [step, hg, hp]
    split <;> split <;> simp
  · simp [step, hg, hp]
  · simp [step, hg, hp]
  · simp [step, hg, hp]

/-! ### once an input failed, a waiting `Next` is never stuck -/

theorem error_never_stuck {k : Nat} {s : St V} (ha : InvA k s) (hc : InvC k s) (hf : InvF k s) (hl : InvL k s)
    (herr : s.errLog ≠ []) {live : Bool} (hcp : s.cpc = .inNext live) :
    ∃ l, l ∈ internalLabels s ∧ ∃ s', step s l = some s' := by
  have hlen : s.gs.length = s.k := by rw [ha.len, ha.hk]
  have hcEnd : Label.cEnd ∈ internalLabels s := by simp [internalLabels]
  have closed : 0 < s.senderCloses → ∃ l, l ∈ internalLabels s ∧ ∃ s', step s l = some s' := by
    intro hpos
    obtain ⟨s', hs', _⟩ := cEnd_enabled hcp hpos
    exact ⟨.cEnd, hcEnd, s', hs'⟩
  have winner : ∀ a, a ∈ s.gs → isWinner a → ∃ l, l ∈ internalLabels s ∧ ∃ s', step s l = some s' := by
    intro a haa hw
    obtain ⟨j, hj, hja⟩ := List.getElem_of_mem haa
    have hga : s.gs[j]? = some a := by rw [List.getElem?_eq_getElem hj, hja]
    rcases hw with ⟨e, r, hp⟩ | hw
    · exact win_enabled (by rw [← hlen]; exact hj) hga (ha.loc a haa) hp
    · exact closed (hl.r6 a haa (.inr hw))
  cases hel : s.errLog with
  | nil => exact absurd hel herr
  | cons p rest =>
    obtain ⟨g, hg, hlog⟩ := hf.r5 p (by rw [hel]; simp)
    have hgm := List.mem_of_getElem? hg
    have hik : p.1 < s.k := by rw [← hlen]; exact (List.getElem?_eq_some_iff.mp hg).1
    rcases hlog with hlog | hlog | hlog
    · cases hp : g.pc with
      | gotErr e => exact cas_enabled hik hg hp
      | won e r => exact winner g hgm (.inl ⟨e, r, hp⟩)
      | next => simp [hp, isErrPc] at hlog
      | send v => simp [hp, isErrPc] at hlog
      | exiting r => simp [hp, isErrPc] at hlog
      | finished => simp [hp, isErrPc] at hlog
    · have hco : s.closeOnce = true := by
        cases hcc : s.closeOnce
        · exact absurd hlog ((hc.w1 hcc).1 g hgm).2.2
        · rfl
      obtain ⟨a, haa, hw⟩ := hl.w5 hco
      exact winner a haa hw
    · exact winner g hgm (.inr hlog)

/-! ### once every input has ended, the normal end is delivered -/

/-- every input's `Next` has returned `End` -/
def AllEnded (s : St V) : Prop := ∀ g, g ∈ s.gs → g.why = some .ended

def nu2 (s : St V) : Nat := sumBy (fun g => rank g.pc) s.gs

theorem allEnded_facts {k : Nat} {s : St V} (ha : InvA k s) (hc : InvC k s) (hl : InvL k s) (hall : AllEnded s) :
    s.closeOnce = false ∧ s.senderErr = none ∧ ∀ g, g ∈ s.gs → inLoop g.pc = false := by
  have hnl : ∀ g, g ∈ s.gs → inLoop g.pc = false := by
    intro g hg
    cases hh : inLoop g.pc
    · rfl
    · have := (ha.loc g hg).why.mpr hh; rw [hall g hg] at this; cases this
  have hco : s.closeOnce = false := by
    cases hcc : s.closeOnce
    · rfl
    · obtain ⟨a, haa, hw⟩ := hl.w5 hcc
      rcases hw with ⟨e, r, hp⟩ | hw
      · have := hnl a haa; simp [hp, inLoop] at this
      · rw [hall a haa] at hw; cases hw
  exact ⟨hco, (hc.w1 hco).2.2, hnl⟩

theorem end_progress {k : Nat} {s : St V} (ho : ctxOrigin = .plainCancel) (ha : InvA k s) (hc : InvC k s)
    (hl : InvL k s) (hall : AllEnded s) (hcp : s.cpc = .inNext true) :
    (∃ l, l ∈ internalLabels s ∧ ∃ s', step s l = some s') ∧
    (∀ l s', l ≠ .cExpire → step s l = some s' → AllEnded s' ∧
      ((s'.cpc = .inNext true ∧ s'.results = s.results ∧ nu2 s' < nu2 s) ∨ s'.results = s.results ++ [.endd])) := by
  obtain ⟨hco, hse, hnl⟩ := allEnded_facts ha hc hl hall
  have hlen : s.gs.length = s.k := by rw [ha.len, ha.hk]
  constructor
  · by_cases hfin : ∀ g, g ∈ s.gs → g.pc = .finished
    · have hpos : 0 < s.senderCloses := by
        rcases Nat.eq_zero_or_pos k with hk | hk
        · have := (hc.z hk).1; omega
        · apply hl.l hco hk
          apply sumBy_eq_zero
          intro g hg
          simp [mayNilInd, hfin g hg, marked, pendingD]
      obtain ⟨s', hs', _⟩ := cEnd_enabled hcp hpos
      exact ⟨.cEnd, by simp [internalLabels], s', hs'⟩
    · have : ∃ g, g ∈ s.gs ∧ g.pc ≠ .finished :=
        Classical.byContradiction fun hcon => hfin fun g hg =>
          Classical.byContradiction fun hne => hcon ⟨g, hg, hne⟩
      obtain ⟨g, hg, hne⟩ := this
      obtain ⟨j, hj, hjg⟩ := List.getElem_of_mem hg
      have hgj : s.gs[j]? = some g := by rw [List.getElem?_eq_getElem hj, hjg]
      have hn := hnl g hg
      cases hp : g.pc with
      | exiting r => exact exit_enabled (by rw [← hlen]; exact hj) hgj (ha.loc g hg) hp
      | finished => exact absurd hp hne
      | next => simp [hp, inLoop] at hn
      | gotErr e => simp [hp, inLoop] at hn
      | won e r => simp [hp, inLoop] at hn
      | send v => simp [hp, inLoop] at hn
  · intro l s' hne hs
    have gor : ∀ {i : Nat} {g g' : G V}, s.gs[i]? = some g → Trans g g' → s'.gs = s.gs.set i g' → s'.cpc = s.cpc →
        s'.results = s.results → (∀ v, g.pc = .send v → g' ≠ again g) →
        AllEnded s' ∧ ((s'.cpc = .inNext true ∧ s'.results = s.results ∧ nu2 s' < nu2 s) ∨ s'.results = s.results ++ [.endd]) := by
      intro i g g' hg t hgs hcpc hres hne
      have hgm := List.mem_of_getElem? hg
      have hst := trans_after_loop t (ha.loc g hgm) (by rw [hall g hgm]; simp)
      refine ⟨?_, .inl ⟨by rw [hcpc, hcp], hres, ?_⟩⟩
      · intro a haa
        rw [hgs] at haa
        rcases List.mem_or_eq_of_mem_set haa with haa | rfl
        · exact hall a haa
        · rw [hst.1]; exact hall g hgm
      · have hr := trans_rank t hne
        have hsum := sumBy_set (fun g => rank g.pc) s.gs i g' g hg
        have hsum' : sumBy (fun g => rank g.pc) (s.gs.set i g') + rank g.pc = sumBy (fun g => rank g.pc) s.gs + rank g'.pc := hsum
        unfold nu2; rw [hgs]; omega
    have notLoop : ∀ {i : Nat} {g : G V}, s.gs[i]? = some g → inLoop g.pc = true → False := by
      intro i g hg hh
      have := hnl g (List.mem_of_getElem? hg); rw [hh] at this; cases this
    cases l with
    | inItem i v => obtain ⟨g, hg, hp, rfl⟩ := step_inItem hs; exact (notLoop hg (by simp [hp, inLoop])).elim
    | inEnd i => obtain ⟨g, hg, hp, rfl⟩ := step_inEnd hs; exact (notLoop hg (by simp [hp, inLoop])).elim
    | inErr i e => obtain ⟨g, hg, hp, rfl⟩ := step_inErr hs; exact (notLoop hg (by simp [hp, inLoop])).elim
    | inCtx i => obtain ⟨g, hg, hp, _, rfl⟩ := step_inCtx hs; exact (notLoop hg (by simp [hp, inLoop])).elim
    | ctxEnds => exact (no_ctxEnds (ha.org.trans ho) hs).elim
    | cas i => obtain ⟨g, e, hg, hp, _⟩ := step_cas hs; exact (notLoop hg (by simp [hp, inLoop])).elim
    | win i =>
      obtain ⟨g, e, hg, hcc⟩ := step_win hs
      rcases hcc with ⟨rest, hp, _⟩ | ⟨rest, hp, _⟩ | ⟨hp, _⟩ <;> exact (notLoop hg (by simp [hp, inLoop])).elim
    | sendOk i => obtain ⟨g, v, live, hg, hp, _, rfl⟩ := step_sendOk hs; exact (notLoop hg (by simp [hp, inLoop])).elim
    | sendFail i => obtain ⟨g, v, hg, hp, _, rfl⟩ := step_sendFail hs; exact (notLoop hg (by simp [hp, inLoop])).elim
    | exitStep i =>
      obtain ⟨g, hg, hcc⟩ := step_exitStep hs
      rcases hcc with ⟨rest, hp, rfl⟩ | ⟨d, rest, hp, _, _, rfl⟩ | ⟨d, rest, hp, _, rfl⟩ | ⟨rest, hp, rfl⟩ |
        ⟨rest, hp, rfl⟩ | ⟨hp, rfl⟩
      · exact gor hg (.mark g (s.nDone + 1) rest hp) rfl rfl rfl (fun w hw => by rw [hp] at hw; cases hw)
      · exact gor hg (.check g d rest hp) rfl rfl rfl (fun w hw => by rw [hp] at hw; cases hw)
      · exact gor hg (.check g d rest hp) rfl rfl rfl (fun w hw => by rw [hp] at hw; cases hw)
      · exact gor hg (.closeIn g rest hp) rfl rfl rfl (fun w hw => by rw [hp] at hw; cases hw)
      · exact gor hg (.wgDone g rest hp) rfl rfl rfl (fun w hw => by rw [hp] at hw; cases hw)
      · exact gor hg (.fin g hp) rfl rfl rfl (fun w hw => by rw [hp] at hw; cases hw)
    | cCall live => obtain ⟨hp, _⟩ := step_cCall hs; rw [hcp] at hp; cases hp
    | cEnd =>
      obtain ⟨_, _, _, rfl⟩ := step_cEnd hs
      exact ⟨hall, .inr (by simp [hse])⟩
    | cCtx => obtain ⟨hp, _⟩ := step_cCtx hs; rw [hcp] at hp; cases hp
    | cExpire => exact absurd rfl hne
    | cClose => obtain ⟨hp, _⟩ := step_cClose hs; rw [hcp] at hp; cases hp
    | cCloseStep =>
      rcases step_cCloseStep hs with ⟨_, hp, _⟩ | ⟨_, hp, _⟩ | ⟨_, hp, _, _⟩ <;> (rw [hcp] at hp; cases hp)

theorem internal_ne_cExpire {s : St V} {l : Label V} (h : l ∈ internalLabels s) : l ≠ .cExpire := by
  intro hh
  subst hh
  simp [internalLabels] at h

/-- Hence some run of steps that need no further input delivers the normal end to the waiting `Next`. -/
theorem end_delivered {k : Nat} (ho : ctxOrigin = .plainCancel) :
    ∀ (n : Nat) (s : St V), InvA k s → InvC k s → InvL k s → AllEnded s →
    s.cpc = .inNext true → nu2 s ≤ n →
    ∃ ls s', run s ls = some s' ∧ InternalRun s ls ∧ s'.results = s.results ++ [.endd] := by
  intro n
  induction n with
  | zero =>
    intro s ha hc hl hall hcp hn
    obtain ⟨⟨l, hli, s1, hs1⟩, hdec⟩ := end_progress ho ha hc hl hall hcp
    obtain ⟨_, hd⟩ := hdec l s1 (internal_ne_cExpire hli) hs1
    rcases hd with ⟨_, _, hlt⟩ | hd
    · omega
    · exact ⟨[l], s1, by simp [run, hs1], ⟨hli, fun _ _ => trivial⟩, hd⟩
  | succ n ih =>
    intro s ha hc hl hall hcp hn
    obtain ⟨⟨l, hli, s1, hs1⟩, hdec⟩ := end_progress ho ha hc hl hall hcp
    obtain ⟨hall1, hd⟩ := hdec l s1 (internal_ne_cExpire hli) hs1
    rcases hd with ⟨hcp1, hres1, hlt⟩ | hd
    · obtain ⟨ls, s', hrun, hint, hr⟩ := ih s1 (invA_step ha hs1) (invC_step ha hc hs1) (invL_step ha hc hl hs1)
        hall1 hcp1 (by omega)
      refine ⟨l :: ls, s', by simp [run, hs1, hrun], ⟨hli, ?_⟩, by rw [hr, hres1]⟩
      intro s2 hs2
      rw [hs1] at hs2; cases hs2
      exact hint
    · exact ⟨[l], s1, by simp [run, hs1], ⟨hli, fun _ _ => trivial⟩, hd⟩

end Juniper.Proofs.StreamMerge
