import Juniper.Proofs.StreamClose
import Juniper.Proofs.StreamPeek
/-!
# Close discipline of the multi-stream combinators over *pipelines* (C09: Join's later arguments,
Flatten's inner streams, and stages stacked on top of them)

`Proofs/StreamClose.lean` proves "closed exactly once" for `Join` / `Flatten` whose arguments / inner
streams are raw logged sources. Here the arguments / inner streams are states of **any machine `mi` that
forwards to a logged source** (`Forwards src mi proj`: every wrapper, every `SPipe` pipeline, `Runs`
under its protocol, `Flatten`'s outer side …), and the `Join` / `Flatten` machine may itself sit under
any forwarding stages (`forwards_final`): what is closed exactly once is the *source behind* every
argument / every inner stream obtained.
-/
namespace Juniper.Proofs.StreamDen
open Juniper.Model.Stream Juniper.Gen.Comb
universe u v w x y
variable {σ : Type u} {σ' : Type w} {τ : Type y} {α β : Type v} {γ : Type x}

/-- a wrapper that forwards: whatever the consumer did and then `Close`, the inner machine has made some
run of its own and was then closed once -/
theorem forwards_final {m : SM σ α} {m' : SM σ' γ} {proj : σ' → σ} (h : Forwards m m' proj) (t : σ') (cs : List Bool) :
    ∃ ds, proj (m'.close (afterS m' cs t)) = m.close (afterS m ds (proj t)) := by
  obtain ⟨ds, hds⟩ := h.afterS cs t
  exact ⟨ds, by rw [h.close, hds]⟩

section behind
variable {mi : SM σ α} {proj : σ → Src β}

/-- one step of a forwarding machine keeps the source behind it open and unmisused -/
theorem open0_forwards_step (h : Forwards src mi proj) {s : σ} (hs : Open0 (proj s)) (c : Bool) :
    Open0 (proj (mi.step s c).2) := by
  rcases h.step s c with e | e
  · rw [e]; exact hs
  · rw [e]; exact open0_step hs c

/-- its `Close` closes the source behind it exactly once -/
theorem closed1_forwards_close (h : Forwards src mi proj) {s : σ} (hs : Open0 (proj s)) :
    Closed1 (proj (mi.close s)) := by
  rw [h.close]; exact open0_close hs

/-! ## Join -/

/-- ghost invariant of `Join` over forwarding arguments: the arguments that ended have their source
closed exactly once, the remaining ones have it open; no argument is lost (`n` of them altogether) -/
def JoinInvF (proj : σ → Src β) (n : Nat) (st : JoinSt σ) : Prop :=
  (∀ x ∈ st.finished, Closed1 (proj x)) ∧ (∀ x ∈ st.remaining, Open0 (proj x)) ∧
    st.finished.length + st.remaining.length = n

theorem joinF_inv_step (h : Forwards src mi proj) {n : Nat} {st : JoinSt σ} (hi : JoinInvF proj n st) (c : Bool) :
    JoinInvF proj n ((join mi).step st c).2 := by
  obtain ⟨rem, fin⟩ := st
  obtain ⟨h1, h2, h3⟩ := hi
  cases rem with
  | nil => simpa [join] using ⟨h1, h2, h3⟩
  | cons x r =>
    have hx := h2 x (by simp)
    have hx' := open0_forwards_step h hx c
    rcases hy : mi.step x c with ⟨res, u⟩
    rw [hy] at hx'
    simp only at hx'
    have hr : ∀ y ∈ r, Open0 (proj y) := fun y hy' => h2 y (by simp [hy'])
    have keep : ∀ y ∈ u :: r, Open0 (proj y) := by
      intro y hy'
      simp only [List.mem_cons] at hy'
      rcases hy' with rfl | hy'
      · exact hx'
      · exact hr y hy'
    have hlen : fin.length + (u :: r).length = n := by simpa using h3
    cases res with
    | item a => simp only [join_step_cons, hy, joinOn_item]; exact ⟨h1, keep, hlen⟩
    | skip => simp only [join_step_cons, hy]; exact ⟨h1, keep, hlen⟩
    | err e => simp only [join_step_cons, hy, joinOn_err]; exact ⟨h1, keep, hlen⟩
    | end_ =>
      simp only [join_step_cons, hy, joinOn_end, stJoinClosesEnded_fact, stJoinAdvances_fact, if_true]
      refine ⟨fun y hy' => ?_, hr, ?_⟩
      · simp only [List.mem_append, List.mem_singleton] at hy'
        rcases hy' with hy' | rfl
        · exact h1 y hy'
        · exact closed1_forwards_close h hx'
      · simp only [List.length_append, List.length_cons, List.length_nil] at h3 ⊢
        omega

theorem joinF_inv_afterS (h : Forwards src mi proj) {n : Nat} {st : JoinSt σ} (hi : JoinInvF proj n st) (cs : List Bool) :
    JoinInvF proj n (afterS (join mi) cs st) := by
  induction cs generalizing st with
  | nil => exact hi
  | cons c cs ih => exact ih (joinF_inv_step h hi c)

/-- `Join.Close` on a state satisfying the invariant: every argument's source closed exactly once, none lost -/
theorem joinF_close (h : Forwards src mi proj) {n : Nat} {st : JoinSt σ} (hi : JoinInvF proj n st) :
    (∀ x ∈ ((join mi).close st).finished ++ ((join mi).close st).remaining, Closed1 (proj x)) ∧
      (((join mi).close st).finished ++ ((join mi).close st).remaining).length = n := by
  obtain ⟨rem, fin⟩ := st
  obtain ⟨h1, h2, h3⟩ := hi
  have e : (join mi).close ⟨rem, fin⟩ = ⟨rem.map mi.close, fin⟩ := by
    simp only [join, joinCloseAll_eq, stJoinCloseForwards_fact.1, if_true]
  rw [e]
  refine ⟨fun x hx => ?_, by simpa using h3⟩
  simp only [List.mem_append, List.mem_map] at hx
  rcases hx with hx | ⟨y, hy, rfl⟩
  · exact h1 x hx
  · exact closed1_forwards_close h (h2 y hy)

/-- **Join over pipelines**: the arguments are states of any machine that forwards to a logged source
(all fresh). The consumer makes any run and closes: the source behind *every* argument — those that
ended on the way, the one being read, those never reached — has been closed exactly once and not
pulled afterwards; none of the `ss.length` arguments is lost. -/
theorem join_pipelines_closed_once (h : Forwards src mi proj) (ss : List σ) (hss : ∀ s ∈ ss, Open0 (proj s))
    (cs : List Bool) :
    let st' := (join mi).close (afterS (join mi) cs ⟨ss, []⟩)
    (∀ x ∈ st'.finished ++ st'.remaining, Closed1 (proj x)) ∧ (st'.finished ++ st'.remaining).length = ss.length := by
  have _tie := Skeleton.Tie.stJoin
  have base : JoinInvF proj ss.length (⟨ss, []⟩ : JoinSt σ) := ⟨fun x hx => by simp at hx, hss, by simp⟩
  exact joinF_close h (joinF_inv_afterS h base cs)

/-- … and the same when further forwarding stages (any pipeline `m'`) sit on top of the `Join` -/
theorem stages_over_join_closed_once {σ'' : Type w} {m' : SM σ'' γ} {q : σ'' → JoinSt σ}
    (h : Forwards src mi proj) (hq : Forwards (join mi) m' q) (t : σ'') (ss : List σ) (ht : q t = ⟨ss, []⟩)
    (hss : ∀ s ∈ ss, Open0 (proj s)) (cs : List Bool) :
    let st' := q (m'.close (afterS m' cs t))
    (∀ x ∈ st'.finished ++ st'.remaining, Closed1 (proj x)) ∧ (st'.finished ++ st'.remaining).length = ss.length := by
  obtain ⟨ds, hds⟩ := forwards_final hq t cs
  intro st'
  have : st' = (join mi).close (afterS (join mi) ds ⟨ss, []⟩) := by rw [← ht]; exact hds
  rw [this]
  exact join_pipelines_closed_once h ss hss ds

/-! ## Flatten -/

/-- ghost invariant of `Flatten` over forwarding inner streams; `P` = what is known of the outer state
(it only yields fresh inner streams) -/
def FlatInvF (proj : σ → Src β) (st : FlattenSt σ' σ) : Prop :=
  (∀ x ∈ st.finished, Closed1 (proj x)) ∧ (∀ x, st.curr = some x → Open0 (proj x))

theorem flattenF_inv_step {mo : SM σ' σ} (h : Forwards src mi proj) (P : σ' → Prop)
    (hP : ∀ s c, P s → P (mo.step s c).2)
    (hfresh : ∀ s c x s', P s → mo.step s c = (.item x, s') → Open0 (proj x))
    {st : FlattenSt σ' σ} (hi : FlatInvF proj st) (ho : P st.outer) (c : Bool) :
    FlatInvF proj ((flatten mo mi).step st c).2 ∧ P ((flatten mo mi).step st c).2.outer := by
  obtain ⟨so, curr, fin⟩ := st
  obtain ⟨h1, h2⟩ := hi
  simp only at ho
  cases curr with
  | none =>
    have hP' := hP so c ho
    rcases hy : mo.step so c with ⟨r, u⟩
    rw [hy] at hP'
    simp only at hP'
    cases r with
    | item x =>
      have := hfresh so c x u ho hy
      simp only [flatten, hy, flattenOuterOn_item]
      exact ⟨⟨h1, fun y hy' => by simp at hy'; subst hy'; exact this⟩, hP'⟩
    | skip => simp only [flatten, hy]; exact ⟨⟨h1, fun y hy' => by simp at hy'⟩, hP'⟩
    | end_ => simp only [flatten, hy, flattenOuterOn_end]; exact ⟨⟨h1, fun y hy' => by simp at hy'⟩, hP'⟩
    | err e => simp only [flatten, hy, flattenOuterOn_err]; exact ⟨⟨h1, fun y hy' => by simp at hy'⟩, hP'⟩
  | some x =>
    have hx := h2 x rfl
    have hx' := open0_forwards_step h hx c
    rcases hy : mi.step x c with ⟨r, u⟩
    rw [hy] at hx'
    simp only at hx'
    cases r with
    | item a =>
      simp only [flatten, hy, flattenInnerOn_item]
      exact ⟨⟨h1, fun y hy' => by simp at hy'; subst hy'; exact hx'⟩, ho⟩
    | skip => simp only [flatten, hy]; exact ⟨⟨h1, fun y hy' => by simp at hy'; subst hy'; exact hx'⟩, ho⟩
    | err e =>
      simp only [flatten, hy, flattenInnerOn_err]
      exact ⟨⟨h1, fun y hy' => by simp at hy'; subst hy'; exact hx'⟩, ho⟩
    | end_ =>
      simp only [flatten, hy, flattenInnerOn_end, stFlattenClosesEnded_fact, stFlattenClearsCurr_fact, if_true]
      refine ⟨⟨fun y hy' => ?_, fun y hy' => by simp at hy'⟩, ho⟩
      simp only [List.mem_append, List.mem_singleton] at hy'
      rcases hy' with hy' | rfl
      · exact h1 y hy'
      · exact closed1_forwards_close h hx'

theorem flattenF_inv_afterS {mo : SM σ' σ} (h : Forwards src mi proj) (P : σ' → Prop)
    (hP : ∀ s c, P s → P (mo.step s c).2)
    (hfresh : ∀ s c x s', P s → mo.step s c = (.item x, s') → Open0 (proj x))
    {st : FlattenSt σ' σ} (hi : FlatInvF proj st) (ho : P st.outer) (cs : List Bool) :
    FlatInvF proj (afterS (flatten mo mi) cs st) := by
  induction cs generalizing st with
  | nil => exact hi
  | cons c cs ih =>
    have := flattenF_inv_step h P hP hfresh hi ho c
    exact ih this.1 this.2

/-- **Flatten over pipelines**: the inner streams the outer stream hands out are states of any machine
that forwards to a logged source, fresh when handed out (`hfresh`, on the outer states reachable from
`so`: invariant `P`). The consumer makes any run and closes: the source behind every inner stream
obtained — those that ended, and the one being read when the consumer stopped — has been closed exactly
once and not pulled afterwards. -/
theorem flatten_pipelines_inner_closed_once {mo : SM σ' σ} (h : Forwards src mi proj) (P : σ' → Prop)
    (hP : ∀ s c, P s → P (mo.step s c).2)
    (hfresh : ∀ s c x s', P s → mo.step s c = (.item x, s') → Open0 (proj x))
    (so : σ') (hso : P so) (cs : List Bool) :
    let st' := (flatten mo mi).close (afterS (flatten mo mi) cs ⟨so, none, []⟩)
    ∀ x ∈ st'.finished ++ st'.curr.toList, Closed1 (proj x) := by
  have _tie := Skeleton.Tie.stFlatten
  have hinv : FlatInvF proj (afterS (flatten mo mi) cs ⟨so, none, []⟩) :=
    flattenF_inv_afterS h P hP hfresh ⟨fun x hx => by simp at hx, fun x hx => by simp at hx⟩ hso cs
  generalize afterS (flatten mo mi) cs ⟨so, none, []⟩ = st at hinv
  obtain ⟨s1, curr, fin⟩ := st
  obtain ⟨h1, h2⟩ := hinv
  intro st' x hx
  cases curr with
  | none =>
    have : st'.finished = fin ∧ st'.curr = none := by
      simp only [st', flatten]; split <;> exact ⟨rfl, rfl⟩
    rw [this.1, this.2] at hx
    simp at hx
    exact h1 x hx
  | some y =>
    have : st'.finished = fin ∧ st'.curr = some (mi.close y) := by
      simp only [st', flatten, flattenCloseCurr_eq, stFlattenCloseCurr_fact.1, if_true]; split <;> exact ⟨rfl, rfl⟩
    rw [this.1, this.2] at hx
    simp only [Option.toList, List.mem_append, List.mem_singleton] at hx
    rcases hx with hx | rfl
    · exact h1 x hx
    · exact closed1_forwards_close h (h2 y rfl)

end behind

/-! ## one run of `Flatten` over a scripted outer stream of scripted inner streams: outer *and* inner -/

/-- every inner source still to be handed out by the scripted outer source is fresh -/
def FreshScript (s : Src (Src β)) : Prop := ∀ x, Ev.item x ∈ s.script → Open0 x

theorem freshScript_step (s : Src (Src β)) (c : Bool) (h : FreshScript s) : FreshScript (srcStep s c).2 := by
  obtain ⟨sc, ca, p, cl, a⟩ := s
  cases c with
  | false => simpa [srcStep, FreshScript] using h
  | true =>
    cases sc with
    | nil => simpa [srcStep, FreshScript] using h
    | cons e r =>
      cases e with
      | item x => intro y hy; exact h y (by simp [srcStep] at hy ⊢; exact Or.inr hy)
      | transient n => intro y hy; exact h y (by simp [srcStep] at hy ⊢; exact hy)
      | fatal n => simpa [srcStep, FreshScript] using h

theorem freshScript_item (s : Src (Src β)) (c : Bool) (x : Src β) (s' : Src (Src β)) (h : FreshScript s)
    (hs : srcStep s c = (.item x, s')) : Open0 x := by
  obtain ⟨sc, ca, p, cl, a⟩ := s
  cases c with
  | false => simp [srcStep] at hs
  | true =>
    cases sc with
    | nil => simp [srcStep] at hs
    | cons e r =>
      cases e with
      | item y =>
        simp only [srcStep, Bool.not_true, Bool.false_eq_true, if_false] at hs
        have : y = x := by injection hs with h1 _; injection h1
        subst this
        exact h y (by simp)
      | transient n => simp [srcStep] at hs
      | fatal n => simp [srcStep] at hs

/-- **`Flatten(outer)` where `outer` is a scripted stream of fresh scripted streams — one statement
about one run**: any run under any contexts, with any faults in the outer script and in the inner
scripts, then `Close`: the outer stream has been closed exactly once and not pulled afterwards, **and**
every inner stream obtained (those that ended and the one abandoned mid-way) has been closed exactly
once and not pulled afterwards. -/
theorem flatten_scripted_closed_once (so : Src (Src β)) (h0 : so.closes = 0) (hfr : FreshScript so) (cs : List Bool) :
    let st' := (flatten src src).close (afterS (flatten src src) cs ⟨so, none, []⟩)
    st'.outer.closes = 1 ∧ st'.outer.after = so.after ∧ ∀ x ∈ st'.finished ++ st'.curr.toList, Closed1 x := by
  intro st'
  have ho := forwards_close_once (flatten_outer_forwards (src (α := Src β)) (src (α := β))) ⟨so, none, []⟩ h0 cs
  refine ⟨ho.1, ho.2, ?_⟩
  exact flatten_pipelines_inner_closed_once (mi := src (α := β)) (proj := id) (Forwards.refl src) FreshScript
    (fun s c hs => freshScript_step s c hs) (fun s c x s' hs hst => freshScript_item s c x s' hs hst) so hfr cs

/-! ## `WithPeek` driven through `Peek` and `Next` in any order -/

section peekclose
variable {α : Type}

theorem peekNext_moves {σ : Type} (m : SM σ α) (p : PeekSt σ α) (c : Bool) :
    (peekNext m p c).2.inner = p.inner ∨ (peekNext m p c).2.inner = (m.step p.inner c).2 := by
  obtain ⟨s, curr⟩ := p
  cases curr with
  | some a => left; simp [peekNext, stPeekNextHas]
  | none => right; simp [peekNext, stPeekNextHas]

/-- any interleaving of `Peek` and `Next` moves the source along one of its own runs -/
theorem speekRun_reach {σ : Type} (m : SM σ α) (ops : List SPeekOp) (p : PeekSt σ α) :
    ∃ ds, (speekRun m ops p).2.inner = afterS m ds p.inner := by
  induction ops generalizing p with
  | nil => exact ⟨[], rfl⟩
  | cons o ops ih =>
    simp only [speekRun]
    obtain ⟨ds, hds⟩ := ih (speekOp m o p).2
    have hmove : (speekOp m o p).2.inner = p.inner ∨ (speekOp m o p).2.inner = (m.step p.inner o.ctx).2 := by
      cases o with
      | next c => exact peekNext_moves m p c
      | peek c => exact peekPeek_moves m p c
    rcases hmove with h | h
    · exact ⟨ds, by rw [hds, h]⟩
    · exact ⟨o.ctx :: ds, by rw [hds, h]; rfl⟩

/-- **`WithPeek` used through `Peek` and `Next` in any order, any contexts, any fault script, then
`Close`**: the source has been closed exactly once and not pulled afterwards. -/
theorem peek_interleave_closes_once (s0 : Src α) (h0 : s0.closes = 0) (ops : List SPeekOp) :
    (peekClose src (speekRun src ops ⟨s0, none⟩).2).inner.closes = 1 ∧
    (peekClose src (speekRun src ops ⟨s0, none⟩).2).inner.after = s0.after := by
  obtain ⟨ds, hds⟩ := speekRun_reach src ops ⟨s0, none⟩
  have hl := src_afterS_log s0 h0 ds
  simp only [peekClose, stPeekCloseForwards_fact, if_true]
  rw [hds]
  exact ⟨by show (afterS src ds s0).closes + 1 = 1; rw [hl.1], hl.2⟩
end peekclose

/-! ## `Flatten`: no inner stream is lost from the ghost lists -/

section flatcount
universe u' v'
variable {τ : Type u'} {α : Type v'}

/-- every inner stream the scripted outer stream has handed out is in the ghost lists -/
def FlatCount (st : FlattenSt (Src τ) τ) : Prop := st.finished.length + st.curr.toList.length = st.outer.pulled

theorem src_pulled_step (s : Src τ) (c : Bool) :
    (srcStep s c).2.pulled = s.pulled + (match (srcStep s c).1 with | .item _ => 1 | _ => 0) := by
  obtain ⟨sc, ca, p, cl, a⟩ := s
  cases c with
  | false => simp [srcStep]
  | true =>
    cases sc with
    | nil => simp [srcStep]
    | cons e r => cases e <;> simp [srcStep]

theorem flatCount_step (mi : SM τ α) {st : FlattenSt (Src τ) τ} (h : FlatCount st) (c : Bool) :
    FlatCount ((flatten src mi).step st c).2 := by
  obtain ⟨so, curr, fin⟩ := st
  unfold FlatCount at h ⊢
  cases curr with
  | none =>
    have hp := src_pulled_step so c
    rcases hy : srcStep so c with ⟨r, u⟩
    have hstep : (src (α := τ)).step so c = (r, u) := hy
    rw [hy] at hp
    simp only at hp h
    cases r with
    | item x => simp only [flatten, hstep, flattenOuterOn_item]; simp at hp h ⊢; omega
    | skip => simp only [flatten, hstep]; simp at hp h ⊢; omega
    | end_ => simp only [flatten, hstep, flattenOuterOn_end]; simp at hp h ⊢; omega
    | err e => simp only [flatten, hstep, flattenOuterOn_err]; simp at hp h ⊢; omega
  | some x =>
    rcases hy : mi.step x c with ⟨r, x'⟩
    cases r with
    | item a => simp only [flatten, hy, flattenInnerOn_item]; simpa using h
    | skip => simp only [flatten, hy]; simpa using h
    | err e => simp only [flatten, hy, flattenInnerOn_err]; simpa using h
    | end_ =>
      simp only [flatten, hy, flattenInnerOn_end, stFlattenClosesEnded_fact, stFlattenClearsCurr_fact, if_true]
      simp at h ⊢; omega

theorem flatCount_afterS (mi : SM τ α) {st : FlattenSt (Src τ) τ} (h : FlatCount st) (cs : List Bool) :
    FlatCount (afterS (flatten src mi) cs st) := by
  induction cs generalizing st with
  | nil => exact h
  | cons c cs ih => exact ih (flatCount_step mi h c)

/-- … also after `Close`: none of the inner streams obtained is lost from the ghost lists the
closed-exactly-once statements range over -/
theorem flatten_none_lost (mi : SM τ α) (so : Src τ) (h0 : so.pulled = 0) (cs : List Bool) :
    let st' := (flatten src mi).close (afterS (flatten src mi) cs ⟨so, none, []⟩)
    (st'.finished ++ st'.curr.toList).length = st'.outer.pulled := by
  have h := flatCount_afterS mi (st := ⟨so, none, []⟩) (by simp [FlatCount, h0]) cs
  generalize afterS (flatten src mi) cs ⟨so, none, []⟩ = st at h
  obtain ⟨s1, curr, fin⟩ := st
  unfold FlatCount at h
  intro st'
  cases curr with
  | none =>
    have : st'.finished = fin ∧ st'.curr = none ∧ st'.outer.pulled = s1.pulled := by
      simp only [st', flatten]; split <;> exact ⟨rfl, rfl, rfl⟩
    rw [this.1, this.2.1, this.2.2]; simpa using h
  | some y =>
    have : st'.finished = fin ∧ st'.curr = some (mi.close y) ∧ st'.outer.pulled = s1.pulled := by
      simp only [st', flatten, flattenCloseCurr_eq, stFlattenCloseCurr_fact.1, if_true]; split <;> exact ⟨rfl, rfl, rfl⟩
    rw [this.1, this.2.1, this.2.2]; simpa using h
end flatcount

end Juniper.Proofs.StreamDen
