import Juniper.Proofs.TreeSlotsOpsSplit
/-!
# Slot-level lemmas (C03 "no retained garbage"): node-level histories

`Clean x`: the node represents *some* entries and children, with all other slots zero. Every enabled
step of `applyOp` keeps every node of the family clean.
-/
namespace Juniper.Proofs.TreeSlotsOps
open Juniper.Model.BTreeSlotsOps Juniper.Gen
variable {K V C : Type}

/-- every slot from index `n` on is zero -/
def TailCleared {α : Type} (a : Slots α) (n : Nat) : Prop := ∀ i, n ≤ i → i < a.length → a[i]? = some none

/-- what the retention clause says about one node: key and value slots from `n` on are zero; the node
is a leaf with all child slots zero, or its child slots from `n + 1` on are zero -/
def TailOK (x : SNode K V C) : Prop :=
  ∃ n : Nat, x.n = (n : Int) ∧ x.keys.length = keysCap ∧ x.vals.length = valuesCap ∧ x.kids.length = childrenCap ∧
    TailCleared x.keys n ∧ TailCleared x.vals n ∧ (TailCleared x.kids 0 ∨ TailCleared x.kids (n + 1))

def Clean (x : SNode K V C) : Prop := ∃ kvs kids, NodeRep x kvs kids

theorem Rep.tailCleared {α : Type} {a : Slots α} {cap l} (h : Rep a cap l) : TailCleared a l.length := by
  intro i h1 h2
  exact h.get_tail h1 (by rw [← h.length]; exact h2)

theorem NodeRep.tailOK {x : SNode K V C} {kvs kids} (h : NodeRep x kvs kids) : TailOK x := by
  obtain ⟨hn, hk, hv, hc, hs⟩ := h
  refine ⟨kvs.length, hn, hk.length, hv.length, hc.length, by simpa using hk.tailCleared, by simpa using hv.tailCleared, ?_⟩
  rcases hs with h | h
  · left; subst h; simpa using hc.tailCleared
  · right; rw [← h]; exact hc.tailCleared

theorem Clean.tailOK {x : SNode K V C} (h : Clean x) : TailOK x := by
  obtain ⟨_, _, h⟩ := h; exact h.tailOK

theorem NodeRep.isLeaf_iff {x : SNode K V C} {kvs kids} (h : NodeRep x kvs kids) : x.isLeaf = true ↔ kids = [] := by
  constructor
  · intro hl
    by_cases hk : kids = []
    · exact hk
    · rw [isLeaf_of_rep_cons h.hkids hk] at hl; simp at hl
  · intro hk; subst hk; exact isLeaf_of_rep_nil h.hkids

theorem clean_fresh : Clean (SNode.fresh : SNode K V C) :=
  ⟨[], [], by simp [SNode.fresh], by simpa [SNode.fresh] using rep_nil keysCap,
    by simpa [SNode.fresh] using rep_nil valuesCap, by simpa [SNode.fresh] using rep_nil childrenCap, Or.inl rfl⟩


/-! ## concrete nodes (for the non-vacuity examples of `Props/C03Slots.lean`) -/

/-- the node that holds exactly `kvs` and `kids` -/
def mkNode (kvs : List (K × V)) (kids : List C) : SNode K V C :=
  { n := kvs.length,
    keys := kvs.map (some ·.1) ++ List.replicate (keysCap - kvs.length) none,
    vals := kvs.map (some ·.2) ++ List.replicate (valuesCap - kvs.length) none,
    kids := kids.map some ++ List.replicate (childrenCap - kids.length) none,
    parent := none }

theorem mkNode_rep {kvs : List (K × V)} {kids : List C} (h1 : kvs.length ≤ keysCap)
    (h2 : kids = [] ∨ kids.length = kvs.length + 1) : NodeRep (mkNode kvs kids) kvs kids := by
  obtain ⟨cv, cc⟩ := caps
  refine ⟨rfl, ⟨by simp [mkNode], by simpa using h1⟩, ⟨by simp [mkNode], by simp; omega⟩, ⟨by simp [mkNode], ?_⟩, h2⟩
  rcases h2 with h | h
  · subst h; simp
  · omega

/-- the family invariant: every object that has not been unlinked is clean -/
def AllClean (fam : Fam K V C) : Prop := ∀ x, some x ∈ fam → Clean x

theorem AllClean.get {fam : Fam K V C} (h : AllClean fam) {i : Nat} {x} (hx : getNode fam i = some x) : Clean x := by
  unfold getNode at hx
  cases hi : fam[i]? with
  | none => simp [hi] at hx
  | some o =>
    simp [hi] at hx
    subst hx
    exact h x (List.mem_of_getElem? hi)

theorem AllClean.set {fam : Fam K V C} (h : AllClean fam) (i : Nat) {x} (hx : Clean x) : AllClean (fam.set i (some x)) := by
  intro y hy
  rcases List.mem_or_eq_of_mem_set hy with h1 | h1
  · exact h y h1
  · cases h1; exact hx

theorem AllClean.erase {fam : Fam K V C} (h : AllClean fam) (i : Nat) : AllClean (fam.set i none) := by
  intro y hy
  rcases List.mem_or_eq_of_mem_set hy with h1 | h1
  · exact h y h1
  · cases h1

theorem AllClean.snoc {fam : Fam K V C} (h : AllClean fam) {x} (hx : Clean x) : AllClean (fam ++ [some x]) := by
  intro y hy
  rcases List.mem_append.mp hy with h1 | h1
  · exact h y h1
  · simp at h1; subst h1; exact hx

/-- every zeroing / clearing / shifting statement of `btree.go` is present -/
abbrev ZeroingPresent : Prop :=
  TreeSlots.removeOneShifts = true ∧ TreeSlots.removeOneZeroesLast = true ∧
  TreeSlots.leafInsertBumpsN = true ∧
  TreeSlots.leafRemoveShiftsKeys = true ∧ TreeSlots.leafRemoveShiftsValues = true ∧ TreeSlots.leafRemoveDecN = true ∧
  TreeSlots.removeRightmostZeroesKey = true ∧ TreeSlots.removeRightmostZeroesValue = true ∧ TreeSlots.removeRightmostDecN = true ∧
  TreeSlots.overfillClearsKeys = true ∧ TreeSlots.overfillClearsValues = true ∧ TreeSlots.overfillClearsChildren = true ∧
  TreeSlots.amalgamKeyDec = true ∧ TreeSlots.amalgamValueDec = true ∧ TreeSlots.amalgamChildDec = true ∧
  TreeSlots.parentInsertBumpsN = true ∧
  TreeSlots.mergeRemovesSepKey = true ∧ TreeSlots.mergeRemovesSepValue = true ∧ TreeSlots.mergeRemovesRightChild = true ∧
  TreeSlots.mergeParentDecN = true ∧ TreeSlots.mergeZeroesRight = true ∧
  TreeSlots.rotateRightZeroesKey = true ∧ TreeSlots.rotateRightZeroesValue = true ∧ TreeSlots.rotateRightZeroesChild = true ∧
  TreeSlots.rotateRightDecLeft = true ∧ TreeSlots.rotateRightInsertsKey = true ∧ TreeSlots.rotateRightInsertsValue = true ∧
  TreeSlots.rotateRightInsertsChild = true ∧
  TreeSlots.rotateLeftShiftsKeys = true ∧ TreeSlots.rotateLeftShiftsValues = true ∧ TreeSlots.rotateLeftShiftsChildren = true ∧
  TreeSlots.rotateRightIncRight = true ∧ TreeSlots.rotateLeftDecRight = true ∧ TreeSlots.rotateLeftIncLeft = true

theorem kind_iff {xl xr : SNode K V C} {lkvs rkvs lkids rkids} (hl : NodeRep xl lkvs lkids) (hr : NodeRep xr rkvs rkids)
    (h : xl.isLeaf = xr.isLeaf) : lkids = [] ↔ rkids = [] := by
  rw [← hl.isLeaf_iff, ← hr.isLeaf_iff, h]

theorem inner_of_not_leaf {x : SNode K V C} {kvs kids} (hr : NodeRep x kvs kids) (h : ¬ x.isLeaf = true) :
    kids.length = kvs.length + 1 := by
  rcases hr.hshape with h1 | h1
  · exact absurd (hr.isLeaf_iff.mpr h1) h
  · exact h1

theorem step_leafInsert (f3 : TreeSlots.leafInsertBumpsN = true) {fam fam' : Fam K V C} (h : AllClean fam)
    (i idx : Nat) (k : K) (v : V) (hop : applyOp fam (.leafInsert i idx k v) = some fam') : AllClean fam' := by
  unfold applyOp at hop
  cases hx : getNode fam i with
  | none => simp [hx] at hop
  | some x =>
    obtain ⟨kvs, kids, hr⟩ := h.get hx
    by_cases hg : x.isLeaf = true ∧ (idx : Int) ≤ x.n ∧ x.n < keysCap
    · obtain ⟨g1, g2, g3⟩ := hg
      have hk := hr.isLeaf_iff.mp g1
      subst hk
      rw [hr.hn] at g2 g3
      obtain ⟨x', hx', hr'⟩ := leafInsert_rep hr (idx := idx) (by omega) (by omega) k v f3
      simp [hx, g1, hr.hn, g2, g3, hx'] at hop
      subst hop
      exact h.set i ⟨_, _, hr'⟩
    · simp [hx, hg] at hop

theorem step_setValue {fam fam' : Fam K V C} (h : AllClean fam)
    (i idx : Nat) (v : V) (hop : applyOp fam (.setValue i idx v) = some fam') : AllClean fam' := by
  unfold applyOp at hop
  cases hx : getNode fam i with
  | none => simp [hx] at hop
  | some x =>
    obtain ⟨kvs, kids, hr⟩ := h.get hx
    by_cases hg : (idx : Int) < x.n
    · have g := hg
      rw [hr.hn] at g
      obtain ⟨x', hx', hr'⟩ := setValue_rep hr (idx := idx) (by omega) v
      simp [hx, hg, hx'] at hop
      subst hop
      exact h.set i ⟨_, _, hr'⟩
    · simp [hx, hg] at hop

theorem step_replaceEntry {fam fam' : Fam K V C} (h : AllClean fam)
    (i idx : Nat) (k : K) (v : V) (hop : applyOp fam (.replaceEntry i idx k v) = some fam') : AllClean fam' := by
  unfold applyOp at hop
  cases hx : getNode fam i with
  | none => simp [hx] at hop
  | some x =>
    obtain ⟨kvs, kids, hr⟩ := h.get hx
    by_cases hg : (idx : Int) < x.n
    · have g := hg
      rw [hr.hn] at g
      obtain ⟨x', hx', hr'⟩ := replaceEntry_rep hr (idx := idx) (by omega) k v
      simp [hx, hg, hx'] at hop
      subst hop
      exact h.set i ⟨_, _, hr'⟩
    · simp [hx, hg] at hop

theorem step_leafRemove (f1 : TreeSlots.removeOneShifts = true) (f2 : TreeSlots.removeOneZeroesLast = true)
    (f4 : TreeSlots.leafRemoveShiftsKeys = true) (f5 : TreeSlots.leafRemoveShiftsValues = true)
    (f6 : TreeSlots.leafRemoveDecN = true) {fam fam' : Fam K V C} (h : AllClean fam)
    (i idx : Nat) (hop : applyOp fam (.leafRemove i idx) = some fam') : AllClean fam' := by
  unfold applyOp at hop
  cases hx : getNode fam i with
  | none => simp [hx] at hop
  | some x =>
    obtain ⟨kvs, kids, hr⟩ := h.get hx
    by_cases hg : x.isLeaf = true ∧ (idx : Int) < x.n
    · obtain ⟨g1, g2⟩ := hg
      have hk := hr.isLeaf_iff.mp g1
      subst hk
      rw [hr.hn] at g2
      obtain ⟨x', hx', hr'⟩ := leafRemove_rep hr (idx := idx) (by omega) f1 f2 f4 f5 f6
      simp [hx, g1, hr.hn, g2, hx'] at hop
      subst hop
      exact h.set i ⟨_, _, hr'⟩
    · simp [hx, hg] at hop

theorem step_removeRightmost (f7 : TreeSlots.removeRightmostZeroesKey = true) (f8 : TreeSlots.removeRightmostZeroesValue = true)
    (f9 : TreeSlots.removeRightmostDecN = true) {fam fam' : Fam K V C} (h : AllClean fam)
    (i : Nat) (hop : applyOp fam (.removeRightmost i) = some fam') : AllClean fam' := by
  unfold applyOp at hop
  cases hx : getNode fam i with
  | none => simp [hx] at hop
  | some x =>
    obtain ⟨kvs, kids, hr⟩ := h.get hx
    by_cases hg : x.isLeaf = true ∧ 0 < x.n
    · obtain ⟨g1, g2⟩ := hg
      have hk := hr.isLeaf_iff.mp g1
      subst hk
      rw [hr.hn] at g2
      have hne : kvs ≠ [] := List.ne_nil_of_length_pos (by omega)
      obtain ⟨x', hx', hr'⟩ := removeRightmostAt_rep hr hne f7 f8 f9
      simp [hx, g1, hr.hn, hx'] at hop
      obtain ⟨_, hop⟩ := hop
      subst hop
      exact h.set i ⟨_, _, hr'⟩
    · simp [hx, hg] at hop

theorem step_split (f10 : TreeSlots.overfillClearsKeys = true) (f11 : TreeSlots.overfillClearsValues = true)
    (f12 : TreeSlots.overfillClearsChildren = true) (f13 : TreeSlots.amalgamKeyDec = true)
    (f14 : TreeSlots.amalgamValueDec = true) (f15 : TreeSlots.amalgamChildDec = true)
    {fam fam' : Fam K V C} (h : AllClean fam)
    (i e : Nat) (k : K) (v : V) (afterK : Option C)
    (hop : applyOp fam (.split i e k v afterK) = some fam') : AllClean fam' := by
  unfold applyOp at hop
  cases hx : getNode fam i with
  | none => simp [hx] at hop
  | some x =>
    obtain ⟨kvs, kids, hr⟩ := h.get hx
    by_cases hg : x.n = keysCap ∧ e ≤ keysCap ∧ (x.isLeaf = true ∨ afterK.isSome = true)
    · obtain ⟨g1, g2, g3⟩ := hg
      have hfull : kvs.length = keysCap := by rw [hr.hn] at g1; omega
      by_cases hk : kids = []
      · subst hk
        obtain ⟨l', r', hs, hl', hr'⟩ := splitNode_leaf_rep hr hfull g2 k v afterK f10 f11 f12 f13 f14
        simp [hx, g1, g2, g3, hs] at hop
        subst hop
        exact (h.set i ⟨_, _, hl'⟩).snoc ⟨_, _, hr'⟩
      · have hnl : ¬ x.isLeaf = true := fun hl => hk (hr.isLeaf_iff.mp hl)
        have hint := inner_of_not_leaf hr hnl
        rcases g3 with g3 | g3
        · exact absurd g3 hnl
        · obtain ⟨r, rfl⟩ := Option.isSome_iff_exists.mp g3
          obtain ⟨l', r', hs, hl', hr'⟩ := splitNode_inner_rep hr hfull hint g2 k v r f10 f11 f12 f13 f14 f15
          simp [hx, g1, g2, hs] at hop
          subst hop
          exact (h.set i ⟨_, _, hl'⟩).snoc ⟨_, _, hr'⟩
    · simp [hx, hg] at hop

theorem step_newRoot {fam fam' : Fam K V C} (h : AllClean fam) (k : K) (v : V) (l r : C)
    (hop : applyOp fam (.newRoot k v l r) = some fam') : AllClean fam' := by
  unfold applyOp at hop
  obtain ⟨x', hx', hr'⟩ := newRootNode_rep (K := K) (V := V) k v l r
  simp [hx'] at hop
  subst hop
  exact h.snoc ⟨_, _, hr'⟩

theorem step_parentInsert (f16 : TreeSlots.parentInsertBumpsN = true) {fam fam' : Fam K V C} (h : AllClean fam)
    (i idx : Nat) (k : K) (v : V) (r : C) (hop : applyOp fam (.parentInsert i idx k v r) = some fam') : AllClean fam' := by
  unfold applyOp at hop
  cases hx : getNode fam i with
  | none => simp [hx] at hop
  | some x =>
    obtain ⟨kvs, kids, hr⟩ := h.get hx
    by_cases hg : x.isLeaf = false ∧ (idx : Int) ≤ x.n ∧ x.n < keysCap
    · obtain ⟨g1, g2, g3⟩ := hg
      have hint := inner_of_not_leaf hr (by simp [g1])
      rw [hr.hn] at g2 g3
      obtain ⟨x', hx', hr'⟩ := parentInsert_rep hr hint (idx := idx) (by omega) (by omega) k v r f16
      simp [hx, g1, hr.hn, g2, g3, hx'] at hop
      subst hop
      exact h.set i ⟨_, _, hr'⟩
    · simp [hx, hg] at hop

theorem step_setParent {fam fam' : Fam K V C} (h : AllClean fam) (i : Nat) (p : Option C)
    (hop : applyOp fam (.setParent i p) = some fam') : AllClean fam' := by
  unfold applyOp at hop
  cases hx : getNode fam i with
  | none => simp [hx] at hop
  | some x =>
    obtain ⟨kvs, kids, hr⟩ := h.get hx
    simp [hx] at hop
    subst hop
    exact h.set i ⟨kvs, kids, ⟨hr.hn, hr.hkeys, hr.hvals, hr.hkids, hr.hshape⟩⟩

theorem step_drop {fam fam' : Fam K V C} (h : AllClean fam) (i : Nat)
    (hop : applyOp fam (.drop i) = some fam') : AllClean fam' := by
  simp [applyOp] at hop
  subst hop
  exact h.erase i


theorem step_mergeTwo (f1 : TreeSlots.removeOneShifts = true) (f2 : TreeSlots.removeOneZeroesLast = true)
    (f17 : TreeSlots.mergeRemovesSepKey = true) (f18 : TreeSlots.mergeRemovesSepValue = true)
    (f19 : TreeSlots.mergeRemovesRightChild = true) (f20 : TreeSlots.mergeParentDecN = true)
    (f21 : TreeSlots.mergeZeroesRight = true)
    {fam fam' : Fam K V C} (h : AllClean fam) (p l r idx : Nat)
    (hop : applyOp fam (.mergeTwo p l r idx) = some fam') : AllClean fam' := by
  unfold applyOp at hop
  cases hp : getNode fam p with
  | none => simp [hp] at hop
  | some xp =>
  cases hl : getNode fam l with
  | none => simp [hp, hl] at hop
  | some xl =>
  cases hr : getNode fam r with
  | none => simp [hp, hl, hr] at hop
  | some xr =>
    obtain ⟨pkvs, pkids, rp⟩ := h.get hp
    obtain ⟨lkvs, lkids, rl⟩ := h.get hl
    obtain ⟨rkvs, rkids, rr⟩ := h.get hr
    by_cases hg : p ≠ l ∧ l ≠ r ∧ p ≠ r ∧ xp.isLeaf = false ∧ (idx : Int) < xp.n ∧ xl.isLeaf = xr.isLeaf ∧ xl.n + 1 + xr.n ≤ keysCap
    · obtain ⟨g1, g2, g3, g4, g5, g6, g7⟩ := hg
      have hint := inner_of_not_leaf rp (by simp [g4])
      have g5' := g5
      rw [rp.hn] at g5'
      have g7' := g7
      rw [rl.hn, rr.hn] at g7'
      obtain ⟨p', l', r', hm, rp', rl', _⟩ := mergeNodes_rep rp rl rr hint (kind_iff rl rr g6) (idx := idx) (by omega) (by omega)
        f1 f2 f17 f18 f19 f20 f21
      simp [hp, hl, hr, g1, g2, g3, g4, g5, g6, g7, hm] at hop
      subst hop
      exact ((h.set p ⟨_, _, rp'⟩).set l ⟨_, _, rl'⟩).erase r
    · simp [hp, hl, hr, hg] at hop

theorem step_rotateRight (f22 : TreeSlots.rotateRightZeroesKey = true) (f23 : TreeSlots.rotateRightZeroesValue = true)
    (f24 : TreeSlots.rotateRightZeroesChild = true) (f25 : TreeSlots.rotateRightDecLeft = true)
    (f26 : TreeSlots.rotateRightInsertsKey = true) (f27 : TreeSlots.rotateRightInsertsValue = true)
    (f28 : TreeSlots.rotateRightInsertsChild = true) (f32 : TreeSlots.rotateRightIncRight = true)
    {fam fam' : Fam K V C} (h : AllClean fam) (p l r idx : Nat)
    (hop : applyOp fam (.rotateRight p l r idx) = some fam') : AllClean fam' := by
  unfold applyOp at hop
  cases hp : getNode fam p with
  | none => simp [hp] at hop
  | some xp =>
  cases hl : getNode fam l with
  | none => simp [hp, hl] at hop
  | some xl =>
  cases hr : getNode fam r with
  | none => simp [hp, hl, hr] at hop
  | some xr =>
    obtain ⟨pkvs, pkids, rp⟩ := h.get hp
    obtain ⟨lkvs, lkids, rl⟩ := h.get hl
    obtain ⟨rkvs, rkids, rr⟩ := h.get hr
    by_cases hg : p ≠ l ∧ l ≠ r ∧ p ≠ r ∧ (idx : Int) < xp.n ∧ xl.isLeaf = xr.isLeaf ∧ 0 < xl.n ∧ xr.n < keysCap
    · obtain ⟨g1, g2, g3, g4, g5, g6, g7⟩ := hg
      have g4' := g4
      rw [rp.hn] at g4'
      have g6' := g6
      rw [rl.hn] at g6'
      have g7' := g7
      rw [rr.hn] at g7'
      have hne : lkvs ≠ [] := List.ne_nil_of_length_pos (by omega)
      obtain ⟨p', l', r', hm, rp', rl', rr'⟩ := rotateRightNodes_rep rp rl rr (kind_iff rl rr g5) (idx := idx) (by omega) hne (by omega)
        f22 f23 f24 f25 f26 f27 f28 f32
      simp [hp, hl, hr, g1, g2, g3, g4, g5, g6, g7, hm] at hop
      subst hop
      exact ((h.set p ⟨_, _, rp'⟩).set l ⟨_, _, rl'⟩).set r ⟨_, _, rr'⟩
    · simp [hp, hl, hr, hg] at hop

theorem step_rotateLeft (f1 : TreeSlots.removeOneShifts = true) (f2 : TreeSlots.removeOneZeroesLast = true)
    (f29 : TreeSlots.rotateLeftShiftsKeys = true) (f30 : TreeSlots.rotateLeftShiftsValues = true)
    (f31 : TreeSlots.rotateLeftShiftsChildren = true)
    (f33 : TreeSlots.rotateLeftDecRight = true) (f34 : TreeSlots.rotateLeftIncLeft = true)
    {fam fam' : Fam K V C} (h : AllClean fam) (p l r idx : Nat)
    (hop : applyOp fam (.rotateLeft p l r idx) = some fam') : AllClean fam' := by
  unfold applyOp at hop
  cases hp : getNode fam p with
  | none => simp [hp] at hop
  | some xp =>
  cases hl : getNode fam l with
  | none => simp [hp, hl] at hop
  | some xl =>
  cases hr : getNode fam r with
  | none => simp [hp, hl, hr] at hop
  | some xr =>
    obtain ⟨pkvs, pkids, rp⟩ := h.get hp
    obtain ⟨lkvs, lkids, rl⟩ := h.get hl
    obtain ⟨rkvs, rkids, rr⟩ := h.get hr
    by_cases hg : p ≠ l ∧ l ≠ r ∧ p ≠ r ∧ 0 < idx ∧ (idx : Int) ≤ xp.n ∧ xl.isLeaf = xr.isLeaf ∧ 0 < xr.n ∧ xl.n < keysCap
    · obtain ⟨g1, g2, g3, g4, g5, g6, g7, g8⟩ := hg
      have g5' := g5
      rw [rp.hn] at g5'
      have g7' := g7
      rw [rr.hn] at g7'
      have g8' := g8
      rw [rl.hn] at g8'
      have hne : rkvs ≠ [] := List.ne_nil_of_length_pos (by omega)
      obtain ⟨p', l', r', hm, rp', rl', rr'⟩ := rotateLeftNodes_rep rp rl rr (kind_iff rl rr g6) (idx := idx) g4 (by omega) hne (by omega)
        f1 f2 f29 f30 f31 f33 f34
      simp [hp, hl, hr, g1, g2, g3, g4, g5, g6, g7, g8, hm] at hop
      subst hop
      exact ((h.set p ⟨_, _, rp'⟩).set l ⟨_, _, rl'⟩).set r ⟨_, _, rr'⟩
    · simp [hp, hl, hr, hg] at hop

/-- every enabled node-level step keeps the family clean -/
theorem applyOp_clean (hf : ZeroingPresent) {fam fam' : Fam K V C} (h : AllClean fam) (op : NodeOp K V C)
    (hop : applyOp fam op = some fam') : AllClean fam' := by
  obtain ⟨f1, f2, f3, f4, f5, f6, f7, f8, f9, f10, f11, f12, f13, f14, f15, f16, f17, f18, f19, f20, f21, f22, f23, f24,
    f25, f26, f27, f28, f29, f30, f31, f32, f33, f34⟩ := hf
  cases op with
  | leafInsert i idx k v => exact step_leafInsert f3 h i idx k v hop
  | setValue i idx v => exact step_setValue h i idx v hop
  | leafRemove i idx => exact step_leafRemove f1 f2 f4 f5 f6 h i idx hop
  | removeRightmost i => exact step_removeRightmost f7 f8 f9 h i hop
  | replaceEntry i idx k v => exact step_replaceEntry h i idx k v hop
  | split i e k v afterK => exact step_split f10 f11 f12 f13 f14 f15 h i e k v afterK hop
  | newRoot k v l r => exact step_newRoot h k v l r hop
  | parentInsert i idx k v r => exact step_parentInsert f16 h i idx k v r hop
  | mergeTwo p l r idx => exact step_mergeTwo f1 f2 f17 f18 f19 f20 f21 h p l r idx hop
  | rotateRight p l r idx => exact step_rotateRight f22 f23 f24 f25 f26 f27 f28 f32 h p l r idx hop
  | rotateLeft p l r idx => exact step_rotateLeft f1 f2 f29 f30 f31 f33 f34 h p l r idx hop
  | setParent i p => exact step_setParent h i p hop
  | drop i => exact step_drop h i hop

theorem runOps_clean (hf : ZeroingPresent) : ∀ (ops : List (NodeOp K V C)) {fam fam' : Fam K V C},
    AllClean fam → runOps fam ops = some fam' → AllClean fam'
  | [], fam, fam', h, hr => by simp [runOps] at hr; subst hr; exact h
  | op :: ops, fam, fam', h, hr => by
    simp only [runOps] at hr
    cases ha : applyOp fam op with
    | none => simp [ha] at hr
    | some fam1 =>
      simp only [ha, Option.bind_some] at hr
      exact runOps_clean hf ops (applyOp_clean hf h op ha) hr

end Juniper.Proofs.TreeSlotsOps
