import Juniper.Proofs.TreeIter
import Juniper.Proofs.TreeRangeRev
/-!
# Backward iterators while the tree is modified between `Next` calls (C02)

Mirror image of the second half of `TreeIter.lean`: `rawNext_refines_bwd` says that
`backwardIterator.Next` on the *current* tree yields the last entry whose key is `≤` the remembered key
(with its current value) and parks on that entry's predecessor.
-/
namespace Juniper.Proofs.Tree
open Juniper.Model.BTree Juniper.Gen.Tree

variable {K V : Type} {α : Type} {cmp : K → K → Int}

/-- the cursor is parked on the head of `S` (descending list), no claim about generations -/
def ParkedB (t : Tree K V) (c : Cursor K) (S : List (K × V)) : Prop :=
  (S = [] ∧ c.pos = none) ∨
  (∃ p y up e, c.pos = some p ∧ At t.root p y up e ∧ p.k = e.1 ∧ S = e :: (befOf up y p.i).reverse)

theorem parkedB_of_bwd {t : Tree K V} {c : Cursor K} {S : List (K × V)} (h : Bwd t c S) : ParkedB t c S := by
  rcases h with h | ⟨_, h⟩
  · exact Or.inl h
  · exact Or.inr h

theorem cinv_of_bwd {t : Tree K V} {c : Cursor K} {S : List (K × V)} (h : Bwd t c S) (hle : c.gen ≤ t.gen) : CInv t c := by
  refine ⟨hle, fun hg p hp => ?_⟩
  rcases h with ⟨_, h⟩ | ⟨_, p', y, up, e, hp', ha, hk, _⟩
  · rw [h] at hp; cases hp
  · rw [hp'] at hp; cases hp; exact ⟨y, up, e, ha, hk⟩

/-- the entries with key `≤ k`, descending -/
def leS (cmp : K → K → Int) (k : K) (L : List (K × V)) : List (K × V) :=
  L.reverse.dropWhile fun x => seekLastLessOrEqualStep (cmp k x.1)

/-- one `backwardIterator.Next` on the current tree, whatever happened to the tree since the cursor was parked:
it re-finds the last entry `≤` the remembered key, yields it with its current value and parks on its predecessor -/
theorem rawNext_refines_bwd (hs : StrictWeak cmp) {t : Tree K V} (hi : Inv cmp t) {c : Cursor K} (hc : CInv t c) :
    match c.pos with
    | none => rawNext cmp t false c = (c, none)
    | some p =>
      match leS cmp p.k (toList t.root) with
      | [] => ∃ c', rawNext cmp t false c = (c', none) ∧ c'.pos = none ∧ CInv t c'
      | e :: S' => ∃ c' k', rawNext cmp t false c = (c', some (k', some e.2)) ∧ cmp k' e.1 = 0 ∧
          ParkedB t c' S' ∧ CInv t c' := by
  obtain ⟨h, hb, hone, hsort⟩ := inv_facts hi
  cases hp : c.pos with
  | none => simp [rawNext, hp]
  | some p =>
    simp only
    by_cases hl : lostAt cmp t c = true
    · -- lost: re-seek by key
      have hseek := seekBwd_spec hs hi seekLastLessOrEqualStep (by intro c h; simp [seekLastLessOrEqualStep, h])
        (by intro c h; simp [seekLastLessOrEqualStep]; omega) c p.k
      have hseek' : Bwd t (seekLastLessOrEqual cmp t c p.k) (leS cmp p.k (toList t.root)) := hseek
      have hgle : (seekLastLessOrEqual (V := V) cmp t c p.k).gen ≤ t.gen := by
        have := hc.genLe
        rcases seekWith_gen seekLastLessOrEqualStep false cmp t c p.k with h | h
        · unfold seekLastLessOrEqual; omega
        · unfold seekLastLessOrEqual; omega
      cases hS : leS cmp p.k (toList t.root) with
      | nil =>
        rw [hS] at hseek'
        refine ⟨seekLastLessOrEqual cmp t c p.k, ?_, ?_, cinv_of_bwd hseek' hgle⟩
        · have hpn : (seekLastLessOrEqual (V := V) cmp t c p.k).pos = none := by
            rcases hseek' with ⟨_, h⟩ | ⟨_, _, _, _, _, _, _, _, h⟩
            · exact h
            · cases h
          simp [rawNext, hp, hl, hpn]
        · rcases hseek' with ⟨_, h⟩ | ⟨_, _, _, _, _, _, _, _, h⟩
          · exact h
          · cases h
      | cons e S' =>
        rw [hS] at hseek'
        obtain ⟨c', hr', hf'⟩ := rawNext_bwd hi hseek'
        have hg1 : (seekLastLessOrEqual (V := V) cmp t c p.k).gen = t.gen := by
          rcases hseek' with ⟨h, _⟩ | ⟨hg, _⟩
          · cases h
          · exact hg
        -- the model's `rawNext` first re-seeks, then behaves like `rawNext` on the re-seeked cursor
        have hpos1 : ∃ p1, (seekLastLessOrEqual (V := V) cmp t c p.k).pos = some p1 := by
          rcases hseek' with ⟨h, _⟩ | ⟨_, p1, _, _, _, h, _⟩
          · cases h
          · exact ⟨p1, h⟩
        obtain ⟨p1, hp1⟩ := hpos1
        have hl1 := lostAt_of_gen_eq cmp t (seekLastLessOrEqual (V := V) cmp t c p.k) hg1
        have hsame : rawNext cmp t false c = rawNext cmp t false (seekLastLessOrEqual cmp t c p.k) := by
          simp only [rawNext, hp, hl, if_true, hp1, hl1, Bool.false_eq_true, if_false]
        have hcg : c'.gen ≤ t.gen := by
          rcases hf' with ⟨_, _⟩ | ⟨hg, _⟩
          · -- c' = cursorPrev of the re-seeked cursor keeps its generation
            have : c'.gen = (seekLastLessOrEqual (V := V) cmp t c p.k).gen := by
              have := congrArg (fun r => r.1.gen) hr'
              simp only [rawNext, hp1, hl1, Bool.false_eq_true, if_false, cursorPrev] at this
              exact this.symm
            omega
          · omega
        exact ⟨c', e.1, by rw [hsame, hr'], hs.refl _, parkedB_of_bwd hf', cinv_of_bwd hf' hcg⟩
    · -- not lost: the remembered position is still right
      have hl' : lostAt cmp t c = false := by simpa using hl
      obtain ⟨y, up, e, ha, hke⟩ := parked_of_not_lost hs hc hp hl'
      have hL := at_toList hb ha
      have haft : ∀ a ∈ aftOf up y p.i, cmp p.k a.1 < 0 := by
        intro a ha'
        rw [hL] at hsort
        have hsA : Sorted cmp (e :: aftOf up y p.i) := (List.pairwise_append.mp hsort).2.1
        have : cmp e.1 a.1 < 0 := (List.pairwise_cons.mp hsA).1 a ha'
        exact hs.lt_of_eq_of_lt hke this
      have hS : leS cmp p.k (toList t.root) = e :: (befOf up y p.i).reverse := by
        unfold leS
        rw [hL, List.reverse_append, List.reverse_cons, List.append_assoc,
          dropWhile_append_all (fun a ha' => by
            simp [seekLastLessOrEqualStep, haft a (List.mem_reverse.mp ha')])]
        simp [seekLastLessOrEqualStep, hke]
      rw [hS]
      obtain ⟨n1, n2⟩ := prev_step t rfl hb hone ha
      refine ⟨{ c with pos := prevCore t p }, p.k, ?_, hke, ?_, ⟨hc.genLe, fun hg p' hp' => ?_⟩⟩
      · simp [rawNext, hp, hl', cursorPrev, valueAt_of_at hi ha]
      · rcases eq_nil_or_snoc (befOf up y p.i) with hB | ⟨B', e', hB⟩
        · left; exact ⟨by rw [hB]; rfl, by simp [n1 hB]⟩
        · obtain ⟨p2, y2, up2, g1, g2, g3, g4, _⟩ := n2 B' e' hB
          right; exact ⟨p2, y2, up2, e', by simp [g1], g2, g3, by rw [hB, g4]; simp⟩
      · rcases eq_nil_or_snoc (befOf up y p.i) with hB | ⟨B', e', hB⟩
        · simp [n1 hB] at hp'
        · obtain ⟨p2, y2, up2, g1, g2, g3, _, _⟩ := n2 B' e' hB
          simp only [g1, Option.some.injEq] at hp'
          subst hp'
          exact ⟨y2, up2, e', g2, g3⟩

end Juniper.Proofs.Tree
