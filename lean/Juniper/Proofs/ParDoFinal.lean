import Juniper.Proofs.ParDoFail
import Juniper.Proofs.ParDoErr
/-! Last invariants of the `parallel.Do` / `DoContext` LTS and the lemmas that turn the invariants into
the statements of `Props/C13.lean`. -/
set_option linter.unusedSimpArgs false
set_option linter.unusedVariables false

namespace Juniper.Proofs.ParDo
open Juniper.Gen Juniper.Model.ParDo

/-- indices are skipped only under a cancelled context; in the parallel path the returned value is
errgroup's recorded error -/
structure Inv7 (cfg : Cfg) (s : St) : Prop where
  K : s.skipped ≠ [] → s.dCause ≠ none
  R2 : s.seq = false → ∀ r, s.ret = some r → r = s.egErr

theorem inv7_init (cfg : Cfg) : Inv7 cfg (init cfg) := by
  unfold init
  split <;> refine ⟨?_, ?_⟩ <;> simp

theorem inv7_step {cfg : Cfg} {s s' : St} {l : Label} (h2 : Inv2 cfg s) (hi : Inv7 cfg s)
    (h : step cfg s l = some s') : Inv7 cfg s' := by
  have ⟨k, r2⟩ := hi
  have ⟨iD, iM, iS, iG, iR, iE⟩ := h2
  cases l with
  | fetch w => pardo_cases h => exact ⟨k, r2⟩
  | check w => pardo_cases h => (refine ⟨?_, ?_⟩ <;> simp at * <;> grind)
  | begin w => pardo_cases h => exact ⟨k, r2⟩
  | fEnd w r => pardo_cases h => exact ⟨k, r2⟩
  | egDone w =>
    pardo_cases h =>
      (have hw := ‹_[_]? = some _›
       have hD := cnt_ge notDone hw
       refine ⟨?_, ?_⟩ <;> simp [notDone] at * <;> grind)
  | callerCancel => pardo_cases h => (refine ⟨?_, ?_⟩ <;> simp [Option.isSome_iff_ne_none] at * <;> grind)
  | ret => pardo_cases h => (refine ⟨?_, ?_⟩ <;> simp [Option.isSome_iff_ne_none] at * <;> grind)

theorem inv7 {cfg : Cfg} (hs : cfg.code.Sound) {s : St} (h : Reach cfg s) : Inv7 cfg s := by
  induction h with
  | init => exact inv7_init cfg
  | step hr hstep ih => exact inv7_step (inv2 hs hr) ih hstep


def isRetF : Pc → Bool
  | .retErr (.f _) => true
  | _ => false

/-- a failed call leaves its own trace: errgroup has recorded an error, or the worker in which the call
failed is still returning that error (errgroup's bookkeeping has not run yet), or (sequential path) the
call has returned an error of `f` -/
structure Inv8 (cfg : Cfg) (s : St) : Prop where
  C : hasFail s = true → s.egErr ≠ none ∨ 0 < cnt isRetF s.ws ∨ (∃ k, s.ret = some (some (.f k)))

theorem inv8_init (cfg : Cfg) : Inv8 cfg (init cfg) := by
  unfold init
  split <;> refine ⟨?_⟩ <;> simp [hasFail]

theorem inv8_step {cfg : Cfg} (hs : cfg.code.Sound) {s s' : St} {l : Label} (h2 : Inv2 cfg s) (hi : Inv8 cfg s)
    (h : step cfg s l = some s') : Inv8 cfg s' := by
  have ⟨c⟩ := hi
  have ⟨iD, iM, iS, iG, iR, iE⟩ := h2
  cases l with
  | fetch w | check w | begin w | fEnd w r | egDone w =>
    pardo_cases h =>
      (have hw := ‹_[_]? = some _›
       have hR := cnt_ge isRetF hw
       refine ⟨?_⟩ <;>
         simp [Option.isSome_iff_ne_none, Res.isErr, hasFail, cnt_set hw, isRetF, hs.workerCancelled,
           hs.workerFailed, hs.seqStops] at * <;> grind [cause_err_cases])
  | callerCancel => pardo_cases h => (refine ⟨?_⟩ <;> simp [hasFail] at * <;> grind)
  | ret => pardo_cases h => (refine ⟨?_⟩ <;> simp [hasFail, isRetF, *] at * <;> grind)

theorem inv8 {cfg : Cfg} (hs : cfg.code.Sound) {s : St} (h : Reach cfg s) : Inv8 cfg s := by
  induction h with
  | init => exact inv8_init cfg
  | step hr hstep ih => exact inv8_step hs (inv2 hs hr) ih hstep

theorem exists_retF_of_cnt {ws : List Pc} (h : 0 < cnt isRetF ws) : ∃ k, Pc.retErr (.f k) ∈ ws := by
  obtain ⟨pc, hm, hp⟩ := List.countP_pos_iff.1 h
  cases pc with
  | retErr e => cases e with
    | f k => exact ⟨k, hm⟩
    | _ => simp [isRetF] at hp
  | _ => simp [isRetF] at hp

theorem countP_le_cnt_notDone (p : Pc → Bool) (hp : p .done = false) (ws : List Pc) :
    ws.countP p ≤ cnt notDone ws := by
  unfold cnt
  apply List.countP_mono_left
  intro x _ hx
  cases x <;> simp_all [notDone]

theorem cnt_isDone_of_allDone {ws : List Pc} (h : cnt notDone ws = 0) : cnt isDone ws = ws.length := by
  have h1 := cnt_add_cnt_not isDone ws
  have h2 : cnt (fun x => !isDone x) ws = cnt notDone ws := by
    unfold cnt; congr 1; funext x; cases x <;> simp [isDone, notDone]
  omega

theorem nW_pos {cfg : Cfg} (hs : cfg.code.Sound) (hg : 1 ≤ cfg.gmp) (hn : 0 < cfg.n) : 0 < nW cfg := by
  unfold nW
  split
  · omega
  · rw [numWorkers_eq hs, effPar_eq hs, reqPar_eq hs]
    split <;> split <;> omega

/-- what holds in a reachable state that has returned without failure and without a skipped index -/
theorem all_once_of_clean {cfg : Cfg} (hs : cfg.code.Sound) (hg : 1 ≤ cfg.gmp) {s : St} (h : Reach cfg s)
    (hret : s.ret ≠ none) (hf : hasFail s = false) (hsk : s.skipped = []) :
    ∀ i, i < cfg.n → begunCount s i = 1 ∧ endedCount s i = 1 := by
  intro i hi
  have hD := (inv2 hs h).D hret
  have ⟨_, _, hx⟩ := (inv4 hs h).F2 ⟨hf, hsk⟩
  have hlen := (inv1 hs h).len
  have hpos := nW_pos hs hg (by omega : 0 < cfg.n)
  have hdone := cnt_isDone_of_allDone hD
  have hxn : (cfg.n : Int) ≤ s.x := hx (by omega)
  have hA := (inv1 hs h).A i
  have hB := (inv1 hs h).B i
  have hp : pendC s i = 0 := by
    have := countP_le_cnt_notDone (isPend i) (by simp [isPend]) s.ws
    unfold pendC; omega
  have hr : runC s i = 0 := by
    have := countP_le_cnt_notDone (isRun i) (by simp [isRun]) s.ws
    unfold runC; omega
  have hs0 : skippedCount s i = 0 := by simp [skippedCount, hsk]
  rw [if_pos ⟨by omega, hi⟩] at hA
  omega

end Juniper.Proofs.ParDo
