import Juniper.Proofs.HelpersBasic
/-! `xslices.Unique` / `UniqueInPlace` (C19). -/
namespace Juniper.Proofs.Helpers
open Juniper.Model.Helpers Juniper.Spec.Helpers Juniper.Gen.Helpers

variable {α : Type} [DecidableEq α]

theorem mem_firstOccs (s : List α) (x : α) : x ∈ firstOccs s ↔ x ∈ s := by
  induction s with
  | nil => simp [firstOccs]
  | cons y ys ih =>
    simp only [firstOccs, List.mem_cons, List.mem_filter, ih, decide_eq_true_eq]
    by_cases h : x = y <;> simp [h]

theorem nodup_firstOccs (s : List α) : (firstOccs s).Nodup := by
  induction s with
  | nil => simp [firstOccs]
  | cons y ys ih =>
    simp only [firstOccs, List.nodup_cons, List.mem_filter, decide_eq_true_eq]
    refine ⟨fun h => h.2 rfl, ?_⟩
    exact List.Pairwise.sublist List.filter_sublist ih

theorem sublist_firstOccs (s : List α) : (firstOccs s).Sublist s := by
  induction s with
  | nil => simp [firstOccs]
  | cons y ys ih =>
    simp only [firstOccs]
    exact List.Sublist.cons_cons y (List.Sublist.trans List.filter_sublist ih)

theorem uniqueInto_eq (into seen s : List α) :
    uniqueInto into seen s = into ++ (firstOccs s).filter (fun y => decide (y ∉ seen)) := by
  induction s generalizing into seen with
  | nil => simp [uniqueInto, firstOccs]
  | cons x xs ih =>
    simp only [uniqueInto, uniqAppends, uniqMarks, firstOccs]
    by_cases hx : x ∈ seen
    · simp only [hx, decide_true, Bool.not_true, Bool.false_eq_true, ↓reduceIte, ih]
      congr 1
      rw [List.filter_cons]
      simp only [hx, not_true_eq_false, decide_false, Bool.false_eq_true, ↓reduceIte, List.filter_filter]
      apply List.filter_congr
      intro y _
      by_cases hy : y ∈ seen
      · simp [hy]
      · have : y ≠ x := fun h => hy (h ▸ hx)
        simp [hy, this]
    · simp only [hx, decide_false, Bool.not_false, ↓reduceIte, ih]
      rw [List.filter_cons]
      simp only [hx, not_false_eq_true, decide_true, ↓reduceIte, List.filter_filter, List.append_assoc,
        List.cons_append, List.nil_append]
      congr 2
      apply List.filter_congr
      intro y _
      simp only [List.mem_cons, not_or, ne_eq]
      by_cases hy : y = x <;> simp [hy, hx]

theorem unique_eq_firstOccs (s : List α) : unique s = firstOccs s := by
  simp [unique, uniqueInto_eq]

/-- loop invariant of `uniqueInto(s[:0], s)`: the unread part of the shared array is intact and the
write index never overtakes the read index. -/
theorem uipLoop_spec (s : List α) (fuel : Nat) (arr seen : List α) (w i : Nat)
    (hlen : arr.length = s.length) (hdrop : arr.drop i = s.drop i) (hw : w ≤ i) (hi : i ≤ s.length)
    (hf : s.length - i ≤ fuel) :
    ∃ arr' w', uipLoop fuel arr seen w i = (arr', w') ∧ arr'.length = s.length ∧ w' ≤ s.length ∧
      arr'.take w' = arr.take w ++ (firstOccs (s.drop i)).filter (fun y => decide (y ∉ seen)) := by
  induction fuel generalizing arr seen w i with
  | zero =>
    have : i = s.length := by omega
    subst this
    refine ⟨arr, w, rfl, hlen, hw, ?_⟩
    simp [firstOccs]
  | succ fuel ih =>
    unfold uipLoop
    by_cases hil : i < s.length
    · have hai : arr[i]? = some s[i] := by
        have h1 : (arr.drop i)[0]? = (s.drop i)[0]? := by rw [hdrop]
        simpa [List.getElem?_drop, List.getElem?_eq_getElem hil] using h1
      have hsd : s.drop i = s[i] :: s.drop (i + 1) := List.drop_eq_getElem_cons hil
      have hdrop' : arr.drop (i + 1) = s.drop (i + 1) := by
        have := congrArg (List.drop 1) hdrop
        simpa [List.drop_drop, Nat.add_comm] using this
      simp only [hai, uniqAppends, uniqMarks]
      by_cases hx : s[i] ∈ seen
      · simp only [hx, decide_true, Bool.not_true, Bool.false_eq_true, ↓reduceIte]
        obtain ⟨arr', w', h1, h2, h3, h4⟩ := ih arr seen w (i + 1) hlen hdrop' (by omega) (by omega) (by omega)
        refine ⟨arr', w', h1, h2, h3, ?_⟩
        rw [h4, hsd, firstOccs, List.filter_cons]
        simp only [hx, not_true_eq_false, decide_false, Bool.false_eq_true, ↓reduceIte, List.filter_filter]
        congr 1
        apply List.filter_congr
        intro y _
        by_cases hy : y ∈ seen
        · simp [hy]
        · have : y ≠ s[i] := fun h => hy (h ▸ hx)
          simp [hy, this]
      · simp only [hx, decide_false, Bool.not_false, ↓reduceIte]
        have hlen1 : (arr.set w s[i]).length = s.length := by simp [hlen]
        have hdrop1 : (arr.set w s[i]).drop (i + 1) = s.drop (i + 1) := by
          rw [List.drop_set]; simp [show w < i + 1 by omega, hdrop']
        obtain ⟨arr', w', h1, h2, h3, h4⟩ :=
          ih (arr.set w s[i]) (s[i] :: seen) (w + 1) (i + 1) hlen1 hdrop1 (by omega) (by omega) (by omega)
        refine ⟨arr', w', h1, h2, h3, ?_⟩
        rw [h4, hsd, firstOccs, List.filter_cons]
        simp only [hx, not_false_eq_true, decide_true, ↓reduceIte, List.filter_filter]
        have ht : (arr.set w s[i]).take (w + 1) = arr.take w ++ [s[i]] := by
          have hwl : w < arr.length := by omega
          apply List.ext_getElem?
          intro p
          simp only [List.getElem?_take, List.getElem?_set, List.getElem?_append, List.length_take]
          have : min w arr.length = w := by omega
          rw [this]
          by_cases h1 : p < w
          · have : w ≠ p := by omega
            simp [h1, this, show p < w + 1 by omega]
          · by_cases h2 : p = w
            · subst h2; simp [hwl]
            · have : ¬ p < w + 1 := by omega
              simp [h1, this]
              omega
        rw [ht, List.append_assoc]
        simp only [List.singleton_append]
        congr 2
        apply List.filter_congr
        intro y _
        simp only [List.mem_cons, not_or, ne_eq]
        by_cases hy : y = s[i] <;> simp [hy, hx]
    · have hie : i = s.length := by omega
      have : arr[i]? = none := by simp [hlen, hie]
      simp only [this]
      refine ⟨arr, w, rfl, hlen, by omega, ?_⟩
      simp [hie, firstOccs]

theorem uniqueInPlace_eq (zero : α) (s : List α) :
    uniqueInPlace zero s =
      some (firstOccs s, firstOccs s ++ List.replicate (s.length - (firstOccs s).length) zero) := by
  obtain ⟨arr', w', h1, h2, h3, h4⟩ := uipLoop_spec s s.length s [] 0 0 rfl rfl (Nat.le_refl _) (Nat.zero_le _) (by omega)
  have h4' : arr'.take w' = firstOccs s := by
    have hf : ∀ l : List α, l.filter (fun _ => true) = l := fun l => List.filter_eq_self.mpr (fun _ _ => rfl)
    simpa [hf] using h4
  have hw : w' = (firstOccs s).length := by
    have := congrArg List.length h4'
    simp only [List.length_take] at this
    omega
  have hA : sliceOk 0 (uipIntoHi (s.length : Int) 0) (s.length : Int) = true := by
    simp [sliceOk_iff, uipIntoHi]
  have hB : (uipIntoHi (s.length : Int) 0).toNat = 0 := by simp [uipIntoHi]
  have hC : sliceOk (uipClearLo (s.length : Int) (w' : Int)) (uipClearHi (s.length : Int) (w' : Int)) (s.length : Int) = true := by
    simp [sliceOk_iff, uipClearLo, uipClearHi]; omega
  have hclear : clearAt zero arr' (uipClearLo (s.length : Int) (w' : Int)) (uipClearHi (s.length : Int) (w' : Int))
      = firstOccs s ++ List.replicate (s.length - w') zero := by
    unfold clearAt
    simp only [uipClearLo, uipClearHi]
    have e1 : ((s.length : Int) - (w' : Int)).toNat = s.length - w' := by omega
    simp only [Int.toNat_natCast, e1, h4']
    rw [← h2]; simp
  unfold uniqueInPlace
  simp only [hA, hB, h1, hC, hclear, Bool.not_true, Bool.false_eq_true, ↓reduceIte]
  congr 2
  · rw [List.take_append_of_le_length (by omega), hw, List.take_length]
  · rw [hw]

end Juniper.Proofs.Helpers
