import Juniper.Model.Stream
import Juniper.Spec.Seq
import Juniper.Proofs.Skeleton
import Juniper.Proofs.StreamGuards
/-!
# Denotation of stream machines under faults (framework for C07/C08)

`SDen soft m cost s L t`: from state `s`, whatever contexts the consumer passes, the machine `m` yields
the items of `L` in order (annotated with `cost` at delivery) and then terminates as `t` says —
`Term.end_ e`: the end, again and again; `Term.fail err`: the hard failure `err` itself. In between
it may answer `skip`, or fail *softly* (expired context, transient source failure); a soft failure
changes nothing about what is still to come: the derivation simply continues.
-/
namespace Juniper.Proofs.StreamDen
open Juniper.Model.Stream
universe u v w
variable {σ : Type u} {α : Type v}

inductive Term where
  | end_ (e : Nat)
  | fail (err : Err)
  deriving DecidableEq, Repr

/-- A step under an expired context either fails with the context error and leaves the state
untouched, or does exactly what it does under a live context (the answer was already buffered). -/
def CtxOk (m : SM σ α) (s : σ) : Prop :=
  m.step s false = (.err .ctx, s) ∨ m.step s false = m.step s true

/-- state after steps under the given contexts -/
def afterS (m : SM σ α) : List Bool → σ → σ
  | [], s => s
  | c :: cs, s => afterS m cs (m.step s c).2

/-- every further live step answers the end (and expired contexts cost nothing) -/
def SEnded (m : SM σ α) (s : σ) : Prop :=
  ∀ cs, CtxOk m (afterS m cs s) ∧ (m.step (afterS m cs s) true).1 = .end_

theorem SEnded.live {m : SM σ α} {s : σ} (h : SEnded m s) :
    ∃ s', m.step s true = (.end_, s') ∧ SEnded m s' := by
  have h1 := (h []).2
  simp only [afterS] at h1
  rcases hx : m.step s true with ⟨r, s'⟩
  rw [hx] at h1
  simp only at h1
  refine ⟨s', by rw [h1], fun cs => ?_⟩
  have := h (true :: cs)
  simpa [afterS, hx] using this

theorem SEnded.ctxOk {m : SM σ α} {s : σ} (h : SEnded m s) : CtxOk m s := (h []).1

theorem SEnded.any {m : SM σ α} {s : σ} (h : SEnded m s) (c : Bool) : SEnded m (m.step s c).2 := by
  intro cs
  have := h (c :: cs)
  simpa [afterS] using this

inductive SDen (soft : Err → Bool) (m : SM σ α) (cost : σ → Nat) : σ → List (α × Nat) → Term → Prop
  | skip {s s' : σ} {L : List (α × Nat)} {t : Term} :
      CtxOk m s → m.step s true = (.skip, s') → SDen soft m cost s' L t → SDen soft m cost s L t
  | soft {s s' : σ} {e : Err} {L : List (α × Nat)} {t : Term} :
      CtxOk m s → m.step s true = (.err e, s') → soft e = true → SDen soft m cost s' L t → SDen soft m cost s L t
  | item {s s' : σ} {a : α} {L : List (α × Nat)} {t : Term} :
      CtxOk m s → m.step s true = (.item a, s') → SDen soft m cost s' L t → SDen soft m cost s ((a, cost s') :: L) t
  | fail {s s' : σ} {e : Err} :
      CtxOk m s → m.step s true = (.err e, s') → soft e = false → SDen soft m cost s [] (.fail e)
  | done {s s' : σ} :
      CtxOk m s → m.step s true = (.end_, s') → SEnded m s' → (∀ cs, cost (afterS m cs s') = cost s') →
      SDen soft m cost s [] (.end_ (cost s'))

variable {soft : Err → Bool}

theorem SDen.ctxOk {m : SM σ α} {cost : σ → Nat} {s : σ} {L : List (α × Nat)} {t : Term}
    (h : SDen soft m cost s L t) : CtxOk m s := by
  cases h <;> assumption

/-- an expired-context step never changes the denotation -/
theorem SDen.dead {m : SM σ α} {cost : σ → Nat} {s : σ} {L : List (α × Nat)} {t : Term}
    (h : SDen soft m cost s L t) (hd : m.step s false = (.err .ctx, s)) : SDen soft m cost (m.step s false).2 L t := by
  rw [hd]; exact h

/-! ## consumer level -/

/-- answers of consecutive `Next(ctx)` calls; each call has its context and its fuel -/
def snextsF (m : SM σ α) : List (Bool × Nat) → σ → List (Option (SStep α))
  | [], _ => []
  | (c, f) :: cs, s => (drive m c f s).1 :: snextsF m cs (drive m c f s).2

/-- the same with one fuel for every call -/
def snexts (m : SM σ α) (fuel : Nat) (cs : List Bool) (s : σ) : List (Option (SStep α)) :=
  snextsF m (cs.map fun c => (c, fuel)) s

/-- erase the failed calls that cost nothing -/
def hard (soft : Err → Bool) : List (Option (SStep α)) → List (Option (SStep α))
  | [] => []
  | some (.err e) :: R => if soft e then hard soft R else some (.err e) :: hard soft R
  | r :: R => r :: hard soft R

theorem hard_cons_item (a : α) (R : List (Option (SStep α))) :
    hard soft (some (.item a) :: R) = some (.item a) :: hard soft R := rfl
theorem hard_cons_end (R : List (Option (SStep α))) : hard soft (some .end_ :: R) = some .end_ :: hard soft R := rfl
theorem hard_cons_soft (e : Err) (h : soft e = true) (R : List (Option (SStep α))) :
    hard soft (some (.err e) :: R) = hard soft R := by simp [hard, h]
theorem hard_cons_hard (e : Err) (h : soft e = false) (R : List (Option (SStep α))) :
    hard soft (some (.err e) :: R) = some (.err e) :: hard soft R := by simp [hard, h]

/-- `R` is what a consumer of `(l, t)` may see: the items in order, then the end forever / the
failure itself (after which nothing is specified). -/
def Conforms : List (Option (SStep α)) → List α → Term → Prop
  | [], _, _ => True
  | r :: R, a :: l, t => r = some (.item a) ∧ Conforms R l t
  | r :: R, [], .end_ e => r = some .end_ ∧ Conforms R [] (.end_ e)
  | r :: _, [], .fail err => r = some (.err err)

theorem drive_succ (m : SM σ α) (c : Bool) (f : Nat) (s : σ) :
    drive m c (f + 1) s = match m.step s c with
      | (.skip, s') => drive m c f s'
      | (r, s') => (some r, s') := by
  rw [drive]
  rcases m.step s c with ⟨r, s'⟩
  cases r <;> rfl

theorem sended_conforms (hctx : soft .ctx = true) {m : SM σ α} {s : σ} (h : SEnded m s) (e : Nat)
    (calls : List (Bool × Nat)) (hf : ∀ p ∈ calls, 1 ≤ p.2) : Conforms (hard soft (snextsF m calls s)) [] (.end_ e) := by
  induction calls generalizing s with
  | nil => simp [snextsF, hard, Conforms]
  | cons p calls ih =>
    obtain ⟨c, fuel⟩ := p
    have hfuel : 1 ≤ fuel := hf (c, fuel) (by simp)
    have hf' : ∀ p ∈ calls, 1 ≤ p.2 := fun p hp => hf p (by simp [hp])
    obtain ⟨g, rfl⟩ : ∃ g, fuel = g + 1 := ⟨fuel - 1, by omega⟩
    obtain ⟨s', hs, he'⟩ := h.live
    have liveCase : ∀ c, m.step s c = m.step s true →
        Conforms (hard soft (snextsF m ((c, g + 1) :: calls) s)) [] (.end_ e) := by
      intro c hk
      have hd : drive m c (g + 1) s = (some .end_, s') := by rw [drive_succ, hk, hs]
      simp only [snextsF, hd, hard_cons_end, Conforms]
      exact ⟨trivial, ih he' hf'⟩
    cases c with
    | true => exact liveCase true rfl
    | false =>
      rcases h.ctxOk with hk | hk
      · have hd : drive m false (g + 1) s = (some (.err .ctx), s) := by rw [drive_succ, hk]
        simp only [snextsF, hd]
        rw [hard_cons_soft _ hctx]
        exact ih h hf'
      · exact liveCase false hk

/-- What the consumer sees, with the failed calls that cost nothing erased, is the denoted sequence
(each call with its own context and any fuel above a bound). -/
theorem sden_conformsF (hctx : soft .ctx = true) {m : SM σ α} {cost : σ → Nat} {s : σ}
    {L : List (α × Nat)} {t : Term} (h : SDen soft m cost s L t) :
    ∃ F, ∀ calls : List (Bool × Nat), (∀ p ∈ calls, F ≤ p.2) →
      Conforms (hard soft (snextsF m calls s)) (L.map Prod.fst) t := by
  induction h with
  | @skip s s' L t hc hs _ ih =>
    obtain ⟨F, hF⟩ := ih
    refine ⟨F + 1, fun calls hf => ?_⟩
    induction calls with
    | nil => simp [snextsF, hard, Conforms]
    | cons p calls ihc =>
      obtain ⟨c, fuel⟩ := p
      have hfuel : F + 1 ≤ fuel := hf (c, fuel) (by simp)
      have hf' : ∀ p ∈ calls, F + 1 ≤ p.2 := fun p hp => hf p (by simp [hp])
      obtain ⟨g, rfl⟩ : ∃ g, fuel = g + 1 := ⟨fuel - 1, by omega⟩
      have liveCase : ∀ c, m.step s c = m.step s true →
          Conforms (hard soft (snextsF m ((c, g + 1) :: calls) s)) (L.map Prod.fst) t := by
        intro c hk
        have hd : drive m c (g + 1) s = drive m c g s' := by rw [drive_succ, hk, hs]
        have := hF ((c, g) :: calls) (by
          intro p hp
          simp only [List.mem_cons] at hp
          rcases hp with rfl | hp
          · simp only; omega
          · have := hf' p hp; omega)
        simpa only [snextsF, hd] using this
      cases c with
      | true => exact liveCase true rfl
      | false =>
        rcases hc with hk | hk
        · have hd : drive m false (g + 1) s = (some (.err .ctx), s) := by rw [drive_succ, hk]
          simp only [snextsF, hd]
          rw [hard_cons_soft _ hctx]
          exact ihc hf'
        · exact liveCase false hk
  | @soft s s' e L t hc hs he _ ih =>
    obtain ⟨F, hF⟩ := ih
    refine ⟨F + 1, fun calls hf => ?_⟩
    induction calls with
    | nil => simp [snextsF, hard, Conforms]
    | cons p calls ihc =>
      obtain ⟨c, fuel⟩ := p
      have hfuel : F + 1 ≤ fuel := hf (c, fuel) (by simp)
      have hf' : ∀ p ∈ calls, F + 1 ≤ p.2 := fun p hp => hf p (by simp [hp])
      obtain ⟨g, rfl⟩ : ∃ g, fuel = g + 1 := ⟨fuel - 1, by omega⟩
      have liveCase : ∀ c, m.step s c = m.step s true →
          Conforms (hard soft (snextsF m ((c, g + 1) :: calls) s)) (L.map Prod.fst) t := by
        intro c hk
        have hd : drive m c (g + 1) s = (some (.err e), s') := by rw [drive_succ, hk, hs]
        simp only [snextsF, hd]
        rw [hard_cons_soft _ he]
        exact hF calls (fun p hp => by have := hf' p hp; omega)
      cases c with
      | true => exact liveCase true rfl
      | false =>
        rcases hc with hk | hk
        · have hd : drive m false (g + 1) s = (some (.err .ctx), s) := by rw [drive_succ, hk]
          simp only [snextsF, hd]
          rw [hard_cons_soft _ hctx]
          exact ihc hf'
        · exact liveCase false hk
  | @item s s' a L t hc hs _ ih =>
    obtain ⟨F, hF⟩ := ih
    refine ⟨F + 1, fun calls hf => ?_⟩
    induction calls with
    | nil => simp [snextsF, hard, Conforms]
    | cons p calls ihc =>
      obtain ⟨c, fuel⟩ := p
      have hfuel : F + 1 ≤ fuel := hf (c, fuel) (by simp)
      have hf' : ∀ p ∈ calls, F + 1 ≤ p.2 := fun p hp => hf p (by simp [hp])
      obtain ⟨g, rfl⟩ : ∃ g, fuel = g + 1 := ⟨fuel - 1, by omega⟩
      have liveCase : ∀ c, m.step s c = m.step s true →
          Conforms (hard soft (snextsF m ((c, g + 1) :: calls) s)) (((a, cost s') :: L).map Prod.fst) t := by
        intro c hk
        have hd : drive m c (g + 1) s = (some (.item a), s') := by rw [drive_succ, hk, hs]
        simp only [snextsF, hd, hard_cons_item, List.map_cons, Conforms]
        exact ⟨trivial, hF calls (fun p hp => by have := hf' p hp; omega)⟩
      cases c with
      | true => exact liveCase true rfl
      | false =>
        rcases hc with hk | hk
        · have hd : drive m false (g + 1) s = (some (.err .ctx), s) := by rw [drive_succ, hk]
          simp only [snextsF, hd]
          rw [hard_cons_soft _ hctx]
          exact ihc hf'
        · exact liveCase false hk
  | @fail s s' e hc hs he =>
    refine ⟨1, fun calls hf => ?_⟩
    induction calls with
    | nil => simp [snextsF, hard, Conforms]
    | cons p calls ihc =>
      obtain ⟨c, fuel⟩ := p
      have hfuel : 1 ≤ fuel := hf (c, fuel) (by simp)
      have hf' : ∀ p ∈ calls, 1 ≤ p.2 := fun p hp => hf p (by simp [hp])
      obtain ⟨g, rfl⟩ : ∃ g, fuel = g + 1 := ⟨fuel - 1, by omega⟩
      have liveCase : ∀ c, m.step s c = m.step s true →
          Conforms (hard soft (snextsF m ((c, g + 1) :: calls) s)) [] (.fail e) := by
        intro c hk
        have hd : drive m c (g + 1) s = (some (.err e), s') := by rw [drive_succ, hk, hs]
        simp only [snextsF, hd]
        rw [hard_cons_hard _ he]
        simp [Conforms]
      cases c with
      | true => exact liveCase true rfl
      | false =>
        rcases hc with hk | hk
        · have hd : drive m false (g + 1) s = (some (.err .ctx), s) := by rw [drive_succ, hk]
          simp only [snextsF, hd]
          rw [hard_cons_soft _ hctx]
          exact ihc hf'
        · exact liveCase false hk
  | @done s s' hc hs he _ =>
    refine ⟨1, fun calls hf => ?_⟩
    induction calls with
    | nil => simp [snextsF, hard, Conforms]
    | cons p calls ihc =>
      obtain ⟨c, fuel⟩ := p
      have hfuel : 1 ≤ fuel := hf (c, fuel) (by simp)
      have hf' : ∀ p ∈ calls, 1 ≤ p.2 := fun p hp => hf p (by simp [hp])
      obtain ⟨g, rfl⟩ : ∃ g, fuel = g + 1 := ⟨fuel - 1, by omega⟩
      have liveCase : ∀ c, m.step s c = m.step s true →
          Conforms (hard soft (snextsF m ((c, g + 1) :: calls) s)) [] (.end_ (cost s')) := by
        intro c hk
        have hd : drive m c (g + 1) s = (some .end_, s') := by rw [drive_succ, hk, hs]
        simp only [snextsF, hd, hard_cons_end, List.map_nil, Conforms]
        exact ⟨trivial, sended_conforms hctx he _ calls hf'⟩
      cases c with
      | true => exact liveCase true rfl
      | false =>
        rcases hc with hk | hk
        · have hd : drive m false (g + 1) s = (some (.err .ctx), s) := by rw [drive_succ, hk]
          simp only [snextsF, hd]
          rw [hard_cons_soft _ hctx]
          exact ihc hf'
        · exact liveCase false hk

theorem sden_conforms (hctx : soft .ctx = true) {m : SM σ α} {cost : σ → Nat} {s : σ}
    {L : List (α × Nat)} {t : Term} (h : SDen soft m cost s L t) :
    ∃ F, ∀ fuel, F ≤ fuel → ∀ cs, Conforms (hard soft (snexts m fuel cs s)) (L.map Prod.fst) t := by
  obtain ⟨F, hF⟩ := sden_conformsF hctx h
  refine ⟨F, fun fuel hf cs => hF _ ?_⟩
  intro p hp
  simp only [List.mem_map] at hp
  obtain ⟨c, _, rfl⟩ := hp
  exact hf

end Juniper.Proofs.StreamDen
