import Juniper.Proofs.HelpersBasic
import Juniper.Model.HelpersSort
namespace Juniper.Proofs.Helpers
open Juniper.Model.Helpers Juniper.Spec.Helpers Juniper.Gen.Helpers
variable {α : Type}

/-- asymmetry of a strict weak order -/
theorem search_asymm {less : α → α → Bool} (hw : StrictWeak less) (a b : α)
    (h : less a b = true) : less b a = false := by
  cases hba : less b a with
  | false => rfl
  | true =>
    have := hw.trans a b a h hba
    rw [hw.irrefl a] at this
    exact absurd this (by decide)

/-- binary search invariant: `pred` is monotone on `[0, n)`, false below `i`, true on `[j, n)` -/
theorem sortSearch_spec (pred : Int → Bool) (n : Nat)
    (hmono : ∀ a b : Nat, a ≤ b → b < n → pred (a : Int) = true → pred (b : Int) = true) :
    ∀ (fuel i j : Nat), i ≤ j → j ≤ n → j - i ≤ fuel →
      (∀ p : Nat, p < i → pred (p : Int) = false) →
      (∀ p : Nat, j ≤ p → p < n → pred (p : Int) = true) →
      ∃ r : Nat, sortSearch pred fuel (i : Int) (j : Int) = (r : Int) ∧ i ≤ r ∧ r ≤ j ∧
        (∀ p : Nat, p < r → pred (p : Int) = false) ∧
        (∀ p : Nat, r ≤ p → p < n → pred (p : Int) = true) := by
  intro fuel
  induction fuel with
  | zero =>
    intro i j hij hjn hf hlo hhi
    have : i = j := by omega
    subst this
    exact ⟨i, by simp [sortSearch], Nat.le_refl _, Nat.le_refl _, hlo, hhi⟩
  | succ fuel ih =>
    intro i j hij hjn hf hlo hhi
    unfold sortSearch
    by_cases hlt : (i : Int) < (j : Int)
    · have hlt' : i < j := by omega
      simp only [hlt, if_true]
      have hh : ((i : Int) + (j : Int)) / 2 = (((i + j) / 2 : Nat) : Int) := by omega
      rw [hh]
      generalize hm : (i + j) / 2 = m
      have hm1 : i ≤ m := by omega
      have hm2 : m < j := by omega
      cases hp : pred (m : Int) with
      | false =>
        simp only [Bool.not_false, if_true]
        have hcast : (m : Int) + 1 = ((m + 1 : Nat) : Int) := by omega
        rw [hcast]
        have hlo' : ∀ p : Nat, p < m + 1 → pred (p : Int) = false := by
          intro p hpm
          cases hpp : pred (p : Int) with
          | false => rfl
          | true =>
            have := hmono p m (by omega) (by omega) hpp
            rw [hp] at this
            exact absurd this (by decide)
        obtain ⟨r, hr, h1, h2, h3, h4⟩ := ih (m + 1) j (by omega) hjn (by omega) hlo' hhi
        exact ⟨r, hr, by omega, h2, h3, h4⟩
      | true =>
        simp only [Bool.not_true]
        have hhi' : ∀ p : Nat, m ≤ p → p < n → pred (p : Int) = true := by
          intro p hmp hpn
          exact hmono m p hmp hpn hp
        obtain ⟨r, hr, h1, h2, h3, h4⟩ := ih i m hm1 (by omega) (by omega) hlo hhi'
        exact ⟨r, by simpa using hr, h1, by omega, h3, h4⟩
    · have : i = j := by omega
      subst this
      simp only [hlt, if_false]
      exact ⟨i, rfl, Nat.le_refl _, Nat.le_refl _, hlo, hhi⟩

theorem searchPredAt_eq (less : α → α → Bool) (hw : StrictWeak less) (x : List α) (item : α)
    (p : Nat) (hp : p < x.length) :
    searchPredAt less x item (p : Int) = !less x[p] item := by
  unfold searchPredAt
  rw [getI_of_lt x p hp]
  simp only [searchPred]
  cases h1 : less item x[p] with
  | false => simp
  | true => simp [search_asymm hw _ _ h1]

theorem search_lower_bound (less : α → α → Bool) (hw : StrictWeak less) (x : List α) (hs : SortedBy less x) (item : α) :
    ∃ r : Nat, search less x item = (r : Int) ∧ r ≤ x.length ∧
      (∀ a ∈ x.take r, less a item = true) ∧ (∀ a ∈ x.drop r, less a item = false) := by
  have hmono : ∀ a b : Nat, a ≤ b → b < x.length →
      searchPredAt less x item (a : Int) = true → searchPredAt less x item (b : Int) = true := by
    intro a b hab hb hpa
    rw [searchPredAt_eq less hw x item a (by omega)] at hpa
    rw [searchPredAt_eq less hw x item b hb]
    by_cases hEq : a = b
    · subst hEq; exact hpa
    · have hlt : a < b := by omega
      have hsorted : less x[b] x[a] = false := by
        have := List.pairwise_iff_getElem.mp hs a b (by omega) hb hlt
        exact this
      have ha' : less x[a] item = false := by simpa using hpa
      have := hw.negTrans _ _ _ hsorted ha'
      simp [this]
  obtain ⟨r, hr, _, h2, h3, h4⟩ :=
    sortSearch_spec (searchPredAt less x item) x.length hmono (x.length + 1) 0 x.length
      (by omega) (Nat.le_refl _) (by omega) (by intro p hp; omega) (by intro p h1 h2; omega)
  refine ⟨r, ?_, h2, ?_, ?_⟩
  · unfold search searchN
    simpa using hr
  · intro a ha
    obtain ⟨p, hp, rfl⟩ := List.mem_iff_getElem.mp ha
    simp only [List.length_take] at hp
    have hpr : p < r := by omega
    have hpx : p < x.length := by omega
    have := h3 p hpr
    rw [searchPredAt_eq less hw x item p hpx] at this
    simpa using this
  · intro a ha
    obtain ⟨p, hp, rfl⟩ := List.mem_iff_getElem.mp ha
    simp only [List.length_drop] at hp
    have := h4 (r + p) (by omega) (by omega)
    rw [searchPredAt_eq less hw x item (r + p) (by omega)] at this
    simpa using this

end Juniper.Proofs.Helpers
