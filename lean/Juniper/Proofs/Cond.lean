import Juniper.Model.Cond
/-!
# Helper lemmas for C16: inversion of `step` under the standard configuration, the reachability
invariant of the ContextCond LTS, and its consequences.
-/
namespace Juniper.Proofs.Cond
open Juniper.Model.Cond

/-- `p`, claimed only for a source for which the tie `k` holds (the dependency is part of the proof term) -/
theorem under {k p : Prop} (_tie : k) (h : p) : p := h

/-- What the statement-level facts take for granted: `c.m` is the standard library's `sync.RWMutex` (not a
local type with the same method names), `c.ch` a `chan struct{}`, `c.L` a `sync.Locker`; `Broadcast`, `Signal`
and `Wait` have pointer receivers (a value receiver would lock and replace a copy); `NewContextCond` stores the
caller's locker and one fresh channel and nothing else. -/
theorem condWiring_tie :
    Gen.Cond.condFields = [("m", "sync.RWMutex"), ("ch", "chan struct{}"), ("L", "sync.Locker")] ∧
    Gen.Cond.condImports = [("sync", "sync")] ∧ Gen.Cond.condLocalTypes = [] ∧
    Gen.Cond.condReceivers = [("Broadcast", "*ContextCond"), ("Signal", "*ContextCond"), ("Wait", "*ContextCond")] ∧
    Gen.Cond.newContextCondStmts = ["return &ContextCond{ L: l, ch: make(chan struct{}, 1), }"] := by decide

/-- Tie 1: the configuration regenerated from `xsync.go` is the one the proofs are about — select arms,
capacities, arm bodies, and the **ordered** statement lists of `Wait`, `Signal` and `Broadcast` (`sigOps`,
`bcOps`: lock operations included, compared as lists, not as sets). -/
theorem cfg_gen : Cfg.gen = Cfg.std := under condWiring_tie (by decide)

/-! ## basic facts about `setPc` / `chanAt` -/

@[simp] theorem setPc_lock (s : State) (i : Nat) (p : Pc) : (setPc s i p).lock = s.lock := rfl
@[simp] theorem setPc_chans (s : State) (i : Nat) (p : Pc) : (setPc s i p).chans = s.chans := rfl
@[simp] theorem setPc_cur (s : State) (i : Nat) (p : Pc) : (setPc s i p).cur = s.cur := rfl
@[simp] theorem setPc_ws_length (s : State) (i : Nat) (p : Pc) : (setPc s i p).ws.length = s.ws.length := by
  simp [setPc]

theorem setPc_get (s : State) (i j : Nat) (p : Pc) :
    (setPc s i p).ws[j]? = (s.ws[j]?).map (fun w => if i = j then { w with pc := p } else w) := by
  simp [setPc, List.getElem?_modify]

theorem setPc_frame (s : State) (i k : Nat) (p : Pc) (hk : k ≠ i) : (setPc s i p).ws[k]? = s.ws[k]? := by
  have hne : ¬ i = k := fun e => hk e.symm
  rw [setPc_get]; simp [hne]

theorem modify_frame {α : Type} (l : List α) (f : α → α) (i k : Nat) (hk : k ≠ i) : (l.modify i f)[k]? = l[k]? := by
  have hne : ¬ i = k := fun e => hk e.symm
  rw [List.getElem?_modify]; simp [hne]

theorem chanAt_congr {s t : State} (h : s.chans = t.chans) (c : Nat) : chanAt s c = chanAt t c := by
  simp [chanAt, h]

/-! ## inversion of `step Cfg.std` -/

theorem step_start {s s' : State} {i : Nat} (h : step Cfg.std s (.start i) = some s') :
    ∃ w, s.ws[i]? = some w ∧ w.pc = .idle ∧ s.lock = none ∧
      s' = { (setPc s i (.held (some s.cur))) with lock := some i } := by
  simp only [step] at h
  split at h
  · rename_i w hw hl
    split at h
    · rename_i hpc
      exact ⟨w, hw, hpc, hl, by simpa [Cfg.std] using h.symm⟩
    · cases h
  · cases h

theorem step_release {s s' : State} {i : Nat} (h : step Cfg.std s (.release i) = some s') :
    ∃ ch, pcOf s i = some (.held ch) ∧ s.lock = some i ∧
      s' = { (setPc s i (.unlocked ch)) with lock := none } := by
  simp only [step] at h
  split at h
  · rename_i ch hpc
    split at h
    · rename_i hl
      exact ⟨ch, hpc, hl, by simpa using h.symm⟩
    · cases h
  · cases h

/-- the state after waiter `i` took the `<-ch` arm on channel `ch` -/
def recvState (s : State) (i ch : Nat) : State :=
  setPc (if (chanAt s ch).closed then s
         else { s with chans := s.chans.set ch { chanAt s ch with buf := (chanAt s ch).buf - 1 } }) i (.woken false)

theorem step_arrive {s s' : State} {i : Nat} {c : Choice} (h : step Cfg.std s (.arrive i c) = some s') :
    ∃ w ch0, s.ws[i]? = some w ∧ w.pc = .unlocked ch0 ∧
      ((c = .recv ∧ ((chanAt s (ch0.getD s.cur)).closed = true ∨ 0 < (chanAt s (ch0.getD s.cur)).buf) ∧
          s' = recvState s i (ch0.getD s.cur))
       ∨ (c = .ctx ∧ w.cancelled = true ∧ s' = setPc s i .doneErr)
       ∨ (c = .park ∧ (chanAt s (ch0.getD s.cur)).closed = false ∧ (chanAt s (ch0.getD s.cur)).buf = 0 ∧
            w.cancelled = false ∧ s' = setPc s i (.parked (ch0.getD s.cur)))) := by
  simp only [step] at h
  split at h
  · rename_i w hw
    split at h
    · rename_i ch0 hpc
      refine ⟨w, ch0, hw, hpc, ?_⟩
      cases c
      · simp only [Cfg.std, Bool.true_and, afterWake] at h
        split at h
        · rename_i hr
          left
          refine ⟨rfl, ?_, ?_⟩
          · simpa using hr
          · simp only [recvState]
            cases hcl : (chanAt s (ch0.getD s.cur)).closed <;> simp [hcl] at h ⊢ <;> exact h.symm
        · cases h
      · simp only [Cfg.std, Bool.true_and, afterCtx] at h
        split at h
        · rename_i hc
          right; left
          exact ⟨rfl, hc, by simpa using h.symm⟩
        · cases h
      · simp only [Cfg.std, Bool.true_and] at h
        split at h
        · rename_i hp
          right; right
          simp only [Bool.and_eq_true, Bool.not_eq_true', Bool.or_eq_false_iff, decide_eq_false_iff_not, Nat.not_lt, Nat.le_zero_eq] at hp
          exact ⟨rfl, hp.1.1, hp.1.2, hp.2, by simpa using h.symm⟩
        · cases h
    · cases h
  · cases h

theorem step_signal_some {s s' : State} {i : Nat} (h : step Cfg.std s (.signal (some i)) = some s') :
    (chanAt s s.cur).closed = false ∧ pcOf s i = some (.parked s.cur) ∧ s' = setPc s i (.woken false) := by
  simp only [step, sendOn, Cfg.std, Bool.not_true, Bool.false_eq_true, if_false, Bool.true_and, afterWake, if_true] at h
  split at h
  · cases h
  · rename_i hcl
    split at h
    · rename_i hp
      exact ⟨by simpa using hcl, by simpa using hp, by simpa using h.symm⟩
    · cases h

theorem step_signal_none {s s' : State} (h : step Cfg.std s (.signal none) = some s') :
    (chanAt s s.cur).closed = false ∧ s.ws.any (isParkedOn s.cur) = false ∧
      ((chanAt s s.cur).buf < (chanAt s s.cur).cap ∧
          s' = { s with chans := s.chans.set s.cur { chanAt s s.cur with buf := (chanAt s s.cur).buf + 1 } }
       ∨ ¬ (chanAt s s.cur).buf < (chanAt s s.cur).cap ∧ s' = s) := by
  simp only [step, sendOn, Cfg.std, Bool.not_true, Bool.false_eq_true, if_false, Bool.true_and, if_true] at h
  split at h
  · cases h
  · rename_i hcl
    split at h
    · cases h
    · rename_i hp
      refine ⟨by simpa using hcl, by simpa using hp, ?_⟩
      split at h
      · rename_i hb
        left; exact ⟨hb, by simpa using h.symm⟩
      · rename_i hb
        right; exact ⟨hb, by simpa using h.symm⟩

/-- the state after `Broadcast` under the standard configuration -/
def bcState (s : State) : State :=
  { s with chans := s.chans.set s.cur { chanAt s s.cur with closed := true } ++ [{ cap := 1, buf := 0, closed := false }],
           ws := wakeAll Cfg.std s.cur s.ws,
           cur := s.chans.length }

theorem step_broadcast {s s' : State} (h : step Cfg.std s .broadcast = some s') :
    (chanAt s s.cur).closed = false ∧ s' = bcState s := by
  simp only [step, Cfg.std, bcRun, bcStep] at h
  split at h
  · rename_i s1 h1
    split at h1
    · cases h1
    · rename_i hcl
      cases h1
      simp only [Option.some.injEq] at h
      refine ⟨by simpa using hcl, ?_⟩
      simp [bcState, ← h, Cfg.std]
  · cases h

theorem step_cancel {s s' : State} {i : Nat} (h : step Cfg.std s (.cancel i) = some s') :
    ∃ w, s.ws[i]? = some w ∧ w.cancelled = false ∧
      s' = { s with ws := s.ws.modify i (fun w => { pc := cancelPc Cfg.std w.pc, cancelled := true }) } := by
  simp only [step] at h
  split at h
  · rename_i w hw
    split at h
    · cases h
    · rename_i hc
      exact ⟨w, hw, by simpa using hc, by simpa using h.symm⟩
  · cases h

theorem step_relock {s s' : State} {i : Nat} (h : step Cfg.std s (.relock i) = some s') :
    ∃ e, pcOf s i = some (.woken e) ∧ s.lock = none ∧
      s' = { (setPc s i (if e then .doneErr else .doneNil)) with lock := some i } := by
  simp only [step] at h
  split at h
  · rename_i e hpc hl
    exact ⟨e, hpc, hl, by simpa using h.symm⟩
  · cases h

theorem step_hunlock {s s' : State} (h : step Cfg.std s .hunlock = some s') :
    ∃ i, s.lock = some i ∧ (pcOf s i = some .doneNil ∨ pcOf s i = some .doneErr) ∧ s' = { s with lock := none } := by
  simp only [step] at h
  split at h
  · rename_i i hl
    split at h
    · rename_i hp; exact ⟨i, hl, Or.inl hp, by simpa using h.symm⟩
    · rename_i hp; exact ⟨i, hl, Or.inr hp, by simpa using h.symm⟩
    · cases h
  · cases h

/-! ## the reachability invariant -/

/-- no waiter is parked on channel `c` -/
@[reducible] def NoParked (s : State) (c : Nat) : Prop := ∀ (i : Nat) (w : Waiter), s.ws[i]? = some w → w.pc ≠ Pc.parked c

theorem any_parked_false_iff (s : State) (c : Nat) : s.ws.any (isParkedOn c) = false ↔ NoParked s c := by
  rw [List.any_eq_false]
  constructor
  · intro h i w hw hp
    have := h w (List.mem_of_getElem? hw)
    simp [isParkedOn, hp] at this
  · intro h w hw
    obtain ⟨i, hi⟩ := List.mem_iff_getElem?.mp hw
    have := h i w hi
    simp [isParkedOn, this]

def WInv (s : State) (i : Nat) (w : Waiter) : Prop :=
  match w.pc with
  | .idle => s.lock ≠ some i
  | .held ch => s.lock = some i ∧ ∃ c, ch = some c ∧ c < s.chans.length
  | .unlocked ch => s.lock ≠ some i ∧ ∃ c, ch = some c ∧ c < s.chans.length
  | .parked c => s.lock ≠ some i ∧ c = s.cur ∧ w.cancelled = false
  | .woken e => s.lock ≠ some i ∧ e = false
  | .doneNil => True
  | .doneErr => s.lock ≠ some i ∧ w.cancelled = true

structure Inv (s : State) : Prop where
  cur_lt : s.cur < s.chans.length
  cur_open : (chanAt s s.cur).closed = false
  old_closed : ∀ c, c < s.chans.length → c ≠ s.cur → (chanAt s c).closed = true
  cur_cap : (chanAt s s.cur).cap = 1
  buf_le : (chanAt s s.cur).buf ≤ 1
  buf_parked : 0 < (chanAt s s.cur).buf → NoParked s s.cur
  lock_lt : ∀ j, s.lock = some j → j < s.ws.length
  wait : ∀ i w, s.ws[i]? = some w → WInv s i w

theorem inv_init (k : Nat) : Inv (init Cfg.std k) := by
  refine ⟨by simp [init], by simp [init, chanAt], ?_, by simp [init, chanAt, Cfg.std], by simp [init, chanAt], ?_, by simp [init], ?_⟩
  · intro c hc hne; simp [init] at hc hne; omega
  · intro _ i w hw
    simp only [init, List.getElem?_replicate] at hw
    split at hw
    · cases hw; simp
    · cases hw
  · intro i w hw
    simp only [init, List.getElem?_replicate] at hw
    split at hw
    · cases hw; simp [WInv, init]
    · cases hw

/-- waiter `j` of `setPc s i p` -/
theorem setPc_get_some {s : State} {i j : Nat} {p : Pc} {w' : Waiter} (h : (setPc s i p).ws[j]? = some w') :
    ∃ w0, s.ws[j]? = some w0 ∧ w' = (if i = j then { w0 with pc := p } else w0) := by
  rw [setPc_get] at h
  cases hs : s.ws[j]? with
  | none => simp [hs] at h
  | some w0 => exact ⟨w0, rfl, by simpa [hs] using h.symm⟩

theorem inv_start {s s' : State} {i : Nat} (hi : Inv s) (h : step Cfg.std s (.start i) = some s') : Inv s' := by
  obtain ⟨w, hw, hpc, hl, rfl⟩ := step_start h
  refine ⟨hi.cur_lt, hi.cur_open, hi.old_closed, hi.cur_cap, hi.buf_le, ?_, ?_, ?_⟩
  · intro hb j w' hw'
    obtain ⟨w0, hs, rfl⟩ := setPc_get_some hw'
    have := hi.buf_parked hb j w0 hs
    split <;> simp_all
  · intro j hj
    have : i = j := by simpa using hj
    subst this
    simpa using (List.getElem?_eq_some_iff.mp hw).1
  · intro j w' hw'
    obtain ⟨w0, hs, rfl⟩ := setPc_get_some hw'
    have h0 := hi.wait j w0 hs
    by_cases hij : i = j
    · subst hij
      simp [WInv, hi.cur_lt]
    · simp only [hij, if_false]
      have hne : (some i : Option Nat) ≠ some j := by simp [hij]
      unfold WInv at h0 ⊢
      split at h0 <;> simp_all

theorem pcOf_some {s : State} {i : Nat} {p : Pc} : pcOf s i = some p ↔ ∃ w, s.ws[i]? = some w ∧ w.pc = p := by
  simp [pcOf]

theorem winv_congr {s t : State} {i : Nat} {w : Waiter} (hl : s.lock = t.lock)
    (hc : s.chans.length = t.chans.length) (hcur : s.cur = t.cur) (h : WInv s i w) : WInv t i w := by
  unfold WInv at h ⊢
  rw [← hl, ← hc, ← hcur]
  exact h

theorem chanAt_set_same (s : State) (c : Nat) (x : Chan) (hc : c < s.chans.length) :
    chanAt { s with chans := s.chans.set c x } c = x := by
  simp [chanAt, hc]

theorem chanAt_set_other (s : State) (c c' : Nat) (x : Chan) (hne : c ≠ c') :
    chanAt { s with chans := s.chans.set c x } c' = chanAt s c' := by
  simp [chanAt, hne]

theorem noParked_setPc {s : State} {i c : Nat} {p : Pc} (hp : p ≠ .parked c) (h : NoParked s c) :
    NoParked (setPc s i p) c := by
  intro j w' hw'
  obtain ⟨w0, hs, rfl⟩ := setPc_get_some hw'
  have := h j w0 hs
  split <;> simp_all

theorem inv_release {s s' : State} {i : Nat} (hi : Inv s) (h : step Cfg.std s (.release i) = some s') : Inv s' := by
  obtain ⟨ch, hpc, hl, rfl⟩ := step_release h
  obtain ⟨w, hw, hwpc⟩ := pcOf_some.mp hpc
  refine ⟨hi.cur_lt, hi.cur_open, hi.old_closed, hi.cur_cap, hi.buf_le, ?_, ?_, ?_⟩
  · intro hb
    exact noParked_setPc (by simp) (hi.buf_parked hb)
  · intro j hj; simp at hj
  · intro j w' hw'
    obtain ⟨w0, hs, rfl⟩ := setPc_get_some hw'
    have h0 := hi.wait j w0 hs
    by_cases hij : i = j
    · subst hij
      have : w0 = w := by simpa [hw] using hs.symm
      subst this
      unfold WInv at h0
      simp only [hwpc] at h0
      simp [WInv, h0.2]
    · simp only [hij, if_false]
      have hne : s.lock ≠ some j := by simp [hl, hij]
      unfold WInv at h0 ⊢
      split at h0 <;> simp_all

@[simp] theorem chanAt_setPc (s : State) (i : Nat) (p : Pc) (c : Nat) : chanAt (setPc s i p) c = chanAt s c := rfl

/-- changing the pc of one waiter (lock and channels untouched) -/
theorem inv_setPc {s : State} {i : Nat} {w : Waiter} {p : Pc} (hi : Inv s) (hw : s.ws[i]? = some w)
    (hp : WInv s i { w with pc := p }) (hnp : p = .parked s.cur → (chanAt s s.cur).buf = 0) :
    Inv (setPc s i p) := by
  refine ⟨hi.cur_lt, hi.cur_open, hi.old_closed, hi.cur_cap, hi.buf_le, ?_, by simpa using hi.lock_lt, ?_⟩
  · intro hb
    have hb' : 0 < (chanAt s s.cur).buf := hb
    exact noParked_setPc (fun h => by have := hnp h; omega) (hi.buf_parked hb')
  · intro j w' hw'
    obtain ⟨w0, hs, rfl⟩ := setPc_get_some hw'
    by_cases hij : i = j
    · subst hij
      have : w0 = w := by simpa [hw] using hs.symm
      subst this
      simp only [if_true]
      exact winv_congr rfl rfl rfl hp
    · simp only [hij, if_false]
      exact winv_congr rfl rfl rfl (hi.wait j w0 hs)

/-- replacing the current channel's record by another open one-slot record -/
theorem inv_setChan {s : State} {x : Chan} (hi : Inv s) (hcl : x.closed = false) (hcap : x.cap = 1)
    (hbuf : x.buf ≤ 1) (hnp : 0 < x.buf → NoParked s s.cur) :
    Inv { s with chans := s.chans.set s.cur x } := by
  have hsame := chanAt_set_same s s.cur x hi.cur_lt
  refine ⟨by simpa using hi.cur_lt, by simpa [hsame] using hcl, ?_, by simpa [hsame] using hcap,
    by simpa [hsame] using hbuf, ?_, hi.lock_lt, ?_⟩
  · intro c hc hne
    have hc' : c < s.chans.length := by simpa using hc
    have hne' : s.cur ≠ c := fun h => hne h.symm
    show (chanAt { s with chans := _ } c).closed = true
    rw [chanAt_set_other s s.cur c _ hne']
    exact hi.old_closed c hc' hne
  · intro hb
    have : 0 < x.buf := by simpa [hsame] using hb
    exact hnp this
  · intro j w' hw'
    exact winv_congr (s := s) rfl (by simp) rfl (hi.wait j w' hw')

theorem inv_arrive {s s' : State} {i : Nat} {c : Choice} (hi : Inv s) (h : step Cfg.std s (.arrive i c) = some s') : Inv s' := by
  obtain ⟨w, ch0, hw, hwpc, hcase⟩ := step_arrive h
  have h0 := hi.wait i w hw
  unfold WInv at h0
  simp only [hwpc] at h0
  obtain ⟨hlk, ch, rfl, hch⟩ := h0
  simp only [Option.getD_some] at hcase
  rcases hcase with ⟨_, hready, rfl⟩ | ⟨_, hcan, rfl⟩ | ⟨_, hopen, hbuf, hcan, rfl⟩
  · -- recv
    unfold recvState
    cases hcl : (chanAt s ch).closed
    · -- open: it is the current channel and holds a token
      have hcur : ch = s.cur := by
        by_cases hne : ch = s.cur
        · exact hne
        · have := hi.old_closed ch hch hne
          simp [hcl] at this
      subst hcur
      have hb : 0 < (chanAt s s.cur).buf := by simpa [hcl] using hready
      simp only [Bool.false_eq_true, if_false]
      have hle := hi.buf_le
      have hi2 := inv_setChan (x := { chanAt s s.cur with buf := (chanAt s s.cur).buf - 1 }) hi hcl hi.cur_cap
        (by simp; omega) (by intro h; simp at h; omega)
      exact inv_setPc hi2 hw (by simp [WInv, hlk]) (by simp)
    · simp only [if_true]
      exact inv_setPc hi hw (by simp [WInv, hlk]) (by simp)
  · exact inv_setPc hi hw (by simp [WInv, hlk, hcan]) (by simp)
  · have hcur : ch = s.cur := by
      by_cases hne : ch = s.cur
      · exact hne
      · have := hi.old_closed ch hch hne
        simp [hopen] at this
    subst hcur
    exact inv_setPc hi hw (by simp [WInv, hlk, hcan]) (fun _ => hbuf)

theorem inv_signal {s s' : State} {to : Option Nat} (hi : Inv s) (h : step Cfg.std s (.signal to) = some s') : Inv s' := by
  cases to with
  | some i =>
    obtain ⟨_, hpc, rfl⟩ := step_signal_some h
    obtain ⟨w, hw, hwpc⟩ := pcOf_some.mp hpc
    have h0 := hi.wait i w hw
    unfold WInv at h0
    simp only [hwpc] at h0
    exact inv_setPc hi hw (by simp [WInv, h0.1]) (by simp)
  | none =>
    obtain ⟨hcl, hnp, hcase⟩ := step_signal_none h
    rcases hcase with ⟨hlt, rfl⟩ | ⟨_, rfl⟩
    · have hcap := hi.cur_cap
      exact inv_setChan hi hcl hcap (by simp; omega) (fun _ => (any_parked_false_iff s s.cur).mp hnp)
    · exact hi

theorem inv_relock {s s' : State} {i : Nat} (hi : Inv s) (h : step Cfg.std s (.relock i) = some s') : Inv s' := by
  obtain ⟨e, hpc, hl, rfl⟩ := step_relock h
  obtain ⟨w, hw, hwpc⟩ := pcOf_some.mp hpc
  have h0 := hi.wait i w hw
  unfold WInv at h0
  simp only [hwpc] at h0
  obtain ⟨_, rfl⟩ := h0
  simp only [Bool.false_eq_true, if_false]
  refine ⟨hi.cur_lt, hi.cur_open, hi.old_closed, hi.cur_cap, hi.buf_le, ?_, ?_, ?_⟩
  · intro hb
    exact noParked_setPc (by simp) (hi.buf_parked hb)
  · intro j hj
    have : i = j := by simpa using hj
    subst this
    simpa using (List.getElem?_eq_some_iff.mp hw).1
  · intro j w' hw'
    obtain ⟨w0, hs, rfl⟩ := setPc_get_some hw'
    have h0 := hi.wait j w0 hs
    by_cases hij : i = j
    · subst hij
      simp [WInv]
    · simp only [hij, if_false]
      have hne : (some i : Option Nat) ≠ some j := by simp [hij]
      unfold WInv at h0 ⊢
      split at h0 <;> simp_all

theorem inv_hunlock {s s' : State} (hi : Inv s) (h : step Cfg.std s .hunlock = some s') : Inv s' := by
  obtain ⟨i, hl, hpc, rfl⟩ := step_hunlock h
  refine ⟨hi.cur_lt, hi.cur_open, hi.old_closed, hi.cur_cap, hi.buf_le, hi.buf_parked, by intro j hj; simp at hj, ?_⟩
  intro j w' hw'
  have h0 := hi.wait j w' hw'
  unfold WInv at h0 ⊢
  split at h0
  · simp
  · rename_i ch hch
    -- a waiter at `held` holds the lock, so it is `i`, which has returned: contradiction
    have : j = i := by simpa [hl] using h0.1.symm
    subst this
    rcases hpc with hp | hp <;> obtain ⟨w2, hw2, hp2⟩ := pcOf_some.mp hp <;>
      (have : w2 = w' := by simpa [hw'] using hw2.symm) <;> subst this <;> simp [hch] at hp2
  all_goals simp_all

theorem inv_cancel {s s' : State} {i : Nat} (hi : Inv s) (h : step Cfg.std s (.cancel i) = some s') : Inv s' := by
  obtain ⟨w, hw, hcan, rfl⟩ := step_cancel h
  refine ⟨hi.cur_lt, hi.cur_open, hi.old_closed, hi.cur_cap, hi.buf_le, ?_, by simpa using hi.lock_lt, ?_⟩
  · intro hb j w' hw'
    have hw'' : (s.ws.modify i (fun w => { pc := cancelPc Cfg.std w.pc, cancelled := true }))[j]? = some w' := hw'
    rw [List.getElem?_modify] at hw''
    cases hs : s.ws[j]? with
    | none => simp [hs] at hw''
    | some w0 =>
      have := hi.buf_parked hb j w0 hs
      simp only [hs, Option.map_eq_map, Option.map_some, Option.some.injEq] at hw''
      subst hw''
      split
      · cases hp : w0.pc <;> simp_all [cancelPc, Cfg.std, afterCtx]
      · exact this
  · intro j w' hw'
    have hw'' : (s.ws.modify i (fun w => { pc := cancelPc Cfg.std w.pc, cancelled := true }))[j]? = some w' := hw'
    rw [List.getElem?_modify] at hw''
    cases hs : s.ws[j]? with
    | none => simp [hs] at hw''
    | some w0 =>
      have h0 := hi.wait j w0 hs
      simp only [hs, Option.map_eq_map, Option.map_some, Option.some.injEq] at hw''
      subst hw''
      by_cases hij : i = j
      · simp only [hij, if_true]
        have h1 : WInv s j w0 := h0
        unfold WInv at h0 ⊢
        cases hp : w0.pc <;> simp_all [cancelPc, Cfg.std, afterCtx]
      · simp only [hij, if_false]
        exact h0

theorem wakeAll_get (c : Nat) (ws : List Waiter) (j : Nat) :
    (wakeAll Cfg.std c ws)[j]? = (ws[j]?).map (fun w => if w.pc = .parked c then { w with pc := .woken false } else w) := by
  simp [wakeAll, isParkedOn, afterWake, Cfg.std]

theorem chanAt_bc_lt (s : State) (c : Nat) (hc : c < s.chans.length) :
    chanAt (bcState s) c = if c = s.cur then { chanAt s s.cur with closed := true } else chanAt s c := by
  simp only [chanAt, bcState]
  rw [List.getElem?_append_left (by simpa using hc)]
  by_cases h : c = s.cur
  · subst h; simp [hc]
  · have : s.cur ≠ c := fun e => h e.symm
    simp [this, h]

theorem chanAt_bc_new (s : State) : chanAt (bcState s) s.chans.length = { cap := 1, buf := 0, closed := false } := by
  simp [chanAt, bcState]

theorem inv_broadcast {s s' : State} (hi : Inv s) (h : step Cfg.std s .broadcast = some s') : Inv s' := by
  obtain ⟨hcl, rfl⟩ := step_broadcast h
  have hcur' : (bcState s).cur = s.chans.length := rfl
  have hlen' : (bcState s).chans.length = s.chans.length + 1 := by simp [bcState]
  refine ⟨by rw [hcur', hlen']; omega, by rw [hcur', chanAt_bc_new], ?_, by rw [hcur', chanAt_bc_new],
    by rw [hcur', chanAt_bc_new]; simp, ?_, ?_, ?_⟩
  · intro c hc hne
    rw [hcur'] at hne
    rw [hlen'] at hc
    have hc' : c < s.chans.length := by omega
    rw [chanAt_bc_lt s c hc']
    by_cases hcc : c = s.cur
    · simp [hcc]
    · simp only [hcc, if_false]
      exact hi.old_closed c hc' hcc
  · intro hb
    rw [hcur', chanAt_bc_new] at hb
    simp at hb
  · intro j hj
    have : (bcState s).ws.length = s.ws.length := by simp [bcState, wakeAll]
    rw [this]
    exact hi.lock_lt j hj
  · intro j w' hw'
    have hw'' : (wakeAll Cfg.std s.cur s.ws)[j]? = some w' := hw'
    rw [wakeAll_get] at hw''
    cases hs : s.ws[j]? with
    | none => simp [hs] at hw''
    | some w0 =>
      have h0 := hi.wait j w0 hs
      simp only [hs, Option.map_some, Option.some.injEq] at hw''
      subst hw''
      have hlk : (bcState s).lock = s.lock := rfl
      unfold WInv at h0 ⊢
      rw [hlk, hlen', hcur']
      cases hp : w0.pc with
      | parked c =>
        simp only [hp] at h0
        obtain ⟨h1, rfl, _⟩ := h0
        simp [h1]
      | held ch =>
        simp only [hp] at h0
        obtain ⟨h1, c, rfl, hc⟩ := h0
        simp [hp, h1]; omega
      | unlocked ch =>
        simp only [hp] at h0
        obtain ⟨h1, c, rfl, hc⟩ := h0
        simp [hp, h1]; omega
      | idle => simp_all
      | woken e => simp_all
      | doneNil => simp_all
      | doneErr => simp_all

/-- The invariant holds in every reachable state. -/
theorem inv_step {s s' : State} {l : Label} (hi : Inv s) (h : step Cfg.std s l = some s') : Inv s' := by
  cases l with
  | start i => exact inv_start hi h
  | release i => exact inv_release hi h
  | arrive i c => exact inv_arrive hi h
  | signal to => exact inv_signal hi h
  | broadcast => exact inv_broadcast hi h
  | cancel i => exact inv_cancel hi h
  | relock i => exact inv_relock hi h
  | hunlock => exact inv_hunlock hi h

theorem inv_reach {s : State} (h : Reach Cfg.std s) : Inv s := by
  induction h with
  | init k => exact inv_init k
  | step l _ hs ih => exact inv_step ih hs

/-! ## how one waiter moves -/

/-- How the pc of waiter `i` can change in one step `s → s'` (standard configuration). -/
inductive PcTrans (s s' : State) (i : Nat) : Pc → Pc → Prop where
  | same (p : Pc) : PcTrans s s' i p p
  | start : s'.lock = some i → PcTrans s s' i .idle (.held (some s.cur))
  | release (ch : Option Nat) : PcTrans s s' i (.held ch) (.unlocked ch)
  | recv (ch : Option Nat) :
      ((chanAt s (ch.getD s.cur)).closed = true ∨ 0 < (chanAt s (ch.getD s.cur)).buf) →
      PcTrans s s' i (.unlocked ch) (.woken false)
  | ctx (ch : Option Nat) : s'.chans = s.chans → s'.cur = s.cur → (∀ j, j ≠ i → s'.ws[j]? = s.ws[j]?) →
      PcTrans s s' i (.unlocked ch) .doneErr
  | park (ch : Option Nat) : (chanAt s (ch.getD s.cur)).closed = false → (chanAt s (ch.getD s.cur)).buf = 0 →
      PcTrans s s' i (.unlocked ch) (.parked (ch.getD s.cur))
  | wake (c : Nat) : PcTrans s s' i (.parked c) (.woken false)
  | expire (c : Nat) : s'.chans = s.chans → s'.cur = s.cur → (∀ j, j ≠ i → s'.ws[j]? = s.ws[j]?) →
      PcTrans s s' i (.parked c) .doneErr
  | relockNil : s'.lock = some i → PcTrans s s' i (.woken false) .doneNil
  | relockErr : s'.chans = s.chans → s'.cur = s.cur → (∀ j, j ≠ i → s'.ws[j]? = s.ws[j]?) →
      PcTrans s s' i (.woken true) .doneErr

theorem step_trans {s s' : State} {l : Label} {i : Nat} {w : Waiter}
    (h : step Cfg.std s l = some s') (hw : s.ws[i]? = some w) :
    ∃ w', s'.ws[i]? = some w' ∧ PcTrans s s' i w.pc w'.pc := by
  -- the effect of `setPc t j p` on waiter `i`, when `t.ws = s.ws`
  have viaSet : ∀ (t : State) (j : Nat) (p : Pc), t.ws = s.ws → s'.ws = (setPc t j p).ws →
      (j = i → PcTrans s s' i w.pc p) → ∃ w' : Waiter, s'.ws[i]? = some w' ∧ PcTrans s s' i w.pc w'.pc := by
    intro t j p hws ht' hp
    rw [ht', setPc_get, hws, hw]
    by_cases hji : j = i
    · exact ⟨{ w with pc := p }, by simp [hji], hp hji⟩
    · exact ⟨w, by simp [hji], PcTrans.same _⟩
  cases l with
  | start j =>
    obtain ⟨w0, hw0, hpc, _, rfl⟩ := step_start h
    refine viaSet s j _ rfl rfl (fun hji => ?_)
    subst hji
    have : w0 = w := by simpa [hw] using hw0.symm
    subst this
    rw [hpc]; exact .start rfl
  | release j =>
    obtain ⟨ch, hpc, _, rfl⟩ := step_release h
    refine viaSet s j _ rfl rfl (fun hji => ?_)
    subst hji
    obtain ⟨w0, hw0, hp⟩ := pcOf_some.mp hpc
    have : w0 = w := by simpa [hw] using hw0.symm
    subst this
    rw [hp]; exact .release ch
  | arrive j c =>
    obtain ⟨w0, ch0, hw0, hpc, hcase⟩ := step_arrive h
    rcases hcase with ⟨_, hready, rfl⟩ | ⟨_, _, rfl⟩ | ⟨_, hopen, hbuf, _, rfl⟩
    · refine viaSet (if (chanAt s (ch0.getD s.cur)).closed then s else { s with chans := s.chans.set (ch0.getD s.cur) { chanAt s (ch0.getD s.cur) with buf := (chanAt s (ch0.getD s.cur)).buf - 1 } }) j _
        (by split <;> rfl) rfl (fun hji => ?_)
      subst hji
      have : w0 = w := by simpa [hw] using hw0.symm
      subst this
      rw [hpc]; exact .recv ch0 hready
    · refine viaSet s j _ rfl rfl (fun hji => ?_)
      subst hji
      have : w0 = w := by simpa [hw] using hw0.symm
      subst this
      rw [hpc]; exact .ctx ch0 rfl rfl (fun k hk => setPc_frame _ _ _ _ hk)
    · refine viaSet s j _ rfl rfl (fun hji => ?_)
      subst hji
      have : w0 = w := by simpa [hw] using hw0.symm
      subst this
      rw [hpc]; exact .park ch0 hopen hbuf
  | signal to =>
    cases to with
    | some j =>
      obtain ⟨_, hpc, rfl⟩ := step_signal_some h
      refine viaSet s j _ rfl rfl (fun hji => ?_)
      subst hji
      obtain ⟨w0, hw0, hp⟩ := pcOf_some.mp hpc
      have : w0 = w := by simpa [hw] using hw0.symm
      subst this
      rw [hp]; exact .wake _
    | none =>
      obtain ⟨_, _, hcase⟩ := step_signal_none h
      rcases hcase with ⟨_, rfl⟩ | ⟨_, rfl⟩ <;> exact ⟨w, hw, .same _⟩
  | broadcast =>
    obtain ⟨_, rfl⟩ := step_broadcast h
    have : (bcState s).ws[i]? = _ := wakeAll_get s.cur s.ws i
    rw [hw] at this
    refine ⟨_, this, ?_⟩
    simp only
    split
    · rename_i hp; rw [hp]; exact .wake _
    · exact .same _
  | cancel j =>
    obtain ⟨w0, hw0, _, rfl⟩ := step_cancel h
    have : (s.ws.modify j (fun w => { pc := cancelPc Cfg.std w.pc, cancelled := true }))[i]? = _ := List.getElem?_modify _ j s.ws i
    rw [hw] at this
    refine ⟨_, this, ?_⟩
    by_cases hji : j = i
    · simp only [hji, if_true]
      cases hp : w.pc <;> simp only [cancelPc, Cfg.std, afterCtx, if_true, Bool.false_eq_true, if_false]
      all_goals first | exact .same _ | exact .expire _ rfl rfl (fun k hk => modify_frame _ _ _ _ (hji ▸ hk))
    · simp only [hji, if_false]; exact .same _
  | relock j =>
    obtain ⟨e, hpc, _, rfl⟩ := step_relock h
    refine viaSet s j _ rfl rfl (fun hji => ?_)
    subst hji
    obtain ⟨w0, hw0, hp⟩ := pcOf_some.mp hpc
    have : w0 = w := by simpa [hw] using hw0.symm
    subst this
    rw [hp]
    cases e
    · exact .relockNil rfl
    · exact .relockErr rfl rfl (fun k hk => setPc_frame _ _ _ _ hk)
  | hunlock =>
    obtain ⟨_, _, _, rfl⟩ := step_hunlock h
    exact ⟨w, hw, .same _⟩

/-! ## Broadcast -/

/-- channels are never removed and never re-opened -/
theorem step_chan_mono {s s' : State} {l : Label} {c : Nat} (h : step Cfg.std s l = some s')
    (hc : c < s.chans.length) :
    c < s'.chans.length ∧ ((chanAt s c).closed = true → (chanAt s' c).closed = true) := by
  have setCase : ∀ (d : Nat) (x : Chan), x.closed = (chanAt s d).closed →
      c < (s.chans.set d x).length ∧ ((chanAt s c).closed = true → (chanAt { s with chans := s.chans.set d x } c).closed = true) := by
    intro d x hx
    refine ⟨by simpa using hc, fun hcl => ?_⟩
    by_cases hdc : d = c
    · subst hdc
      rw [chanAt_set_same s d x hc, hx]; exact hcl
    · rw [chanAt_set_other s d c x hdc]; exact hcl
  cases l with
  | start j => obtain ⟨_, _, _, _, rfl⟩ := step_start h; exact ⟨hc, id⟩
  | release j => obtain ⟨_, _, _, rfl⟩ := step_release h; exact ⟨hc, id⟩
  | arrive j ch =>
    obtain ⟨w0, ch0, _, _, hcase⟩ := step_arrive h
    rcases hcase with ⟨_, _, rfl⟩ | ⟨_, _, rfl⟩ | ⟨_, _, _, _, rfl⟩
    · unfold recvState
      split
      · exact ⟨hc, id⟩
      · exact setCase _ _ rfl
    · exact ⟨hc, id⟩
    · exact ⟨hc, id⟩
  | signal to =>
    cases to with
    | some j => obtain ⟨_, _, rfl⟩ := step_signal_some h; exact ⟨hc, id⟩
    | none =>
      obtain ⟨_, _, hcase⟩ := step_signal_none h
      rcases hcase with ⟨_, rfl⟩ | ⟨_, rfl⟩
      · exact setCase _ _ rfl
      · exact ⟨hc, id⟩
  | broadcast =>
    obtain ⟨_, rfl⟩ := step_broadcast h
    refine ⟨by simp [bcState]; omega, fun hcl => ?_⟩
    rw [chanAt_bc_lt s c hc]
    split
    · rfl
    · exact hcl
  | cancel j => obtain ⟨_, _, _, rfl⟩ := step_cancel h; exact ⟨hc, id⟩
  | relock j => obtain ⟨_, _, _, rfl⟩ := step_relock h; exact ⟨hc, id⟩
  | hunlock => obtain ⟨_, _, _, rfl⟩ := step_hunlock h; exact ⟨hc, id⟩

/-- Waiter `i` can no longer go to sleep in this `Wait` call: it has been woken or has returned,
or it is still on its way to the `select` with a snapshot that is a closed channel. -/
def Doomed (s : State) (i : Nat) : Prop :=
  ∃ w, s.ws[i]? = some w ∧
    (w.pc = .woken false ∨ w.pc = .doneNil ∨ w.pc = .doneErr ∨
      ∃ ch, w.pc = .unlocked (some ch) ∧ ch < s.chans.length ∧ (chanAt s ch).closed = true)

theorem doomed_step {s s' : State} {l : Label} {i : Nat} (hd : Doomed s i) (h : step Cfg.std s l = some s') :
    Doomed s' i := by
  obtain ⟨w, hw, hcase⟩ := hd
  obtain ⟨w', hw', ht⟩ := step_trans h hw
  refine ⟨w', hw', ?_⟩
  rcases hcase with hp | hp | hp | ⟨ch, hp, hlt, hcl⟩
  · rw [hp] at ht
    generalize w'.pc = p' at ht
    cases ht <;> simp
  · rw [hp] at ht
    generalize w'.pc = p' at ht
    cases ht; simp
  · rw [hp] at ht
    generalize w'.pc = p' at ht
    cases ht; simp
  · rw [hp] at ht
    generalize hq : w'.pc = p' at ht
    have hm := step_chan_mono (c := ch) h hlt
    cases ht with
    | same => right; right; right; exact ⟨ch, rfl, hm.1, hm.2 hcl⟩
    | recv => simp
    | ctx => simp
    | park _ hopen _ => simp [hcl] at hopen

theorem doomed_run {s s' : State} {ls : List Label} {i : Nat} (hd : Doomed s i) (h : run Cfg.std s ls = some s') :
    Doomed s' i := by
  induction ls generalizing s with
  | nil => simp [run] at h; subst h; exact hd
  | cons l ls ih =>
    simp only [run] at h
    split at h
    · rename_i s1 h1; exact ih (doomed_step hd h1) h
    · cases h

/-- Right after a `Broadcast` every waiter that had released the lock is doomed to wake. -/
theorem broadcast_dooms {s s' : State} {i : Nat} {w : Waiter} (hi : Inv s) (h : step Cfg.std s .broadcast = some s')
    (hw : s.ws[i]? = some w) (hent : (∃ ch, w.pc = .unlocked ch) ∨ (∃ c, w.pc = .parked c)) : Doomed s' i := by
  obtain ⟨hcl, rfl⟩ := step_broadcast h
  have h0 := hi.wait i w hw
  have hget : (bcState s).ws[i]? = _ := wakeAll_get s.cur s.ws i
  rw [hw] at hget
  refine ⟨_, hget, ?_⟩
  rcases hent with ⟨ch, hp⟩ | ⟨c, hp⟩
  · unfold WInv at h0
    simp only [hp] at h0
    obtain ⟨_, c, rfl, hc⟩ := h0
    right; right; right
    refine ⟨c, by simp [hp], by simp [bcState]; omega, ?_⟩
    rw [chanAt_bc_lt s c hc]
    split
    · rfl
    · rename_i hne; exact hi.old_closed c hc hne
  · unfold WInv at h0
    simp only [hp] at h0
    obtain ⟨_, rfl, _⟩ := h0
    left; simp [hp]

/-! ## Signal: counting wake-ups -/

theorem countP_modify {α : Type} (q : α → Bool) (f : α → α) : ∀ (l : List α) (i : Nat) (a : α), l[i]? = some a →
    (l.modify i f).countP q + (if q a then 1 else 0) = l.countP q + (if q (f a) then 1 else 0)
  | [], i, a, h => by simp at h
  | x :: xs, 0, a, h => by
    simp at h; subst h
    simp [List.countP_cons]; omega
  | x :: xs, i + 1, a, h => by
    simp at h
    have := countP_modify q f xs i a h
    simp [List.countP_cons]; omega

def isUnparked (w : Waiter) : Bool := match w.pc with | .unlocked _ => true | _ => false
def isParked (w : Waiter) : Bool := match w.pc with | .parked _ => true | _ => false
def isWoken (w : Waiter) : Bool := match w.pc with | .woken _ => true | .doneNil => true | _ => false

def nUnparked (s : State) : Nat := s.ws.countP isUnparked
def nParked (s : State) : Nat := s.ws.countP isParked
def nWoken (s : State) : Nat := s.ws.countP isWoken

def progressOnly : Label → Bool
  | .signal _ => true
  | .arrive _ _ => true
  | .relock _ => true
  | .hunlock => true
  | _ => false

def isSignal : Label → Bool
  | .signal _ => true
  | _ => false

def nSignals (ls : List Label) : Nat := ls.countP isSignal

theorem countP_setPc (q : Waiter → Bool) {s : State} {i : Nat} {w : Waiter} (p : Pc) (hw : s.ws[i]? = some w) :
    (setPc s i p).ws.countP q + (if q w then 1 else 0) = s.ws.countP q + (if q { w with pc := p } then 1 else 0) :=
  countP_modify q _ s.ws i w hw

/-- the three counters after `setPc` -/
theorem counts_setPc {s : State} {i : Nat} {w : Waiter} (p : Pc) (hw : s.ws[i]? = some w) :
    nUnparked (setPc s i p) + (if isUnparked w then 1 else 0) = nUnparked s + (if isUnparked { w with pc := p } then 1 else 0) ∧
    nParked (setPc s i p) + (if isParked w then 1 else 0) = nParked s + (if isParked { w with pc := p } then 1 else 0) ∧
    nWoken (setPc s i p) + (if isWoken w then 1 else 0) = nWoken s + (if isWoken { w with pc := p } then 1 else 0) :=
  ⟨countP_setPc _ p hw, countP_setPc _ p hw, countP_setPc _ p hw⟩

/-- what holds along a run of Signals and waiter progress that started in `s0`, after `j` Signals -/
structure RunInv (s0 t : State) (j : Nat) : Prop where
  inv : Inv t
  conserve : nUnparked t + nParked t + nWoken t = nUnparked s0 + nParked s0 + nWoken s0
  unp_le : nUnparked t ≤ nUnparked s0
  woken_ge : nWoken s0 ≤ nWoken t
  nocancel : ∀ (i : Nat) (w : Waiter), t.ws[i]? = some w → (isUnparked w || isParked w) = true → w.cancelled = false
  pot : nWoken s0 + min (nUnparked s0 + nParked s0) j ≤ nWoken t + (chanAt t t.cur).buf

theorem nParked_zero_of_noParked {t : State} (hi : Inv t) (h : NoParked t t.cur) : nParked t = 0 := by
  unfold nParked
  rw [List.countP_eq_zero]
  intro w hw hp
  obtain ⟨i, hi'⟩ := List.mem_iff_getElem?.mp hw
  have h0 := hi.wait i w hi'
  have h1 := h i w hi'
  unfold isParked at hp
  split at hp
  · rename_i c hc
    unfold WInv at h0
    simp only [hc] at h0
    exact h1 (by rw [hc, h0.2.1])
  · cases hp

/-- effect of `setPc` on `RunInv` bookkeeping, for a waiter whose `cancelled` flag is false or whose new pc is not waiting -/
theorem nocancel_setPc {t : State} {i : Nat} {w : Waiter} {p : Pc}
    (hn : ∀ (i : Nat) (w : Waiter), t.ws[i]? = some w → (isUnparked w || isParked w) = true → w.cancelled = false)
    (hw : t.ws[i]? = some w)
    (hp : (isUnparked { w with pc := p } || isParked { w with pc := p }) = true → w.cancelled = false) :
    ∀ (j : Nat) (w' : Waiter), (setPc t i p).ws[j]? = some w' → (isUnparked w' || isParked w') = true → w'.cancelled = false := by
  intro j w' hw' hq
  obtain ⟨w0, hs, rfl⟩ := setPc_get_some hw'
  by_cases hij : i = j
  · subst hij
    have : w0 = w := by simpa [hw] using hs.symm
    subst this
    simp only [if_true] at hq ⊢
    exact hp hq
  · simp only [hij, if_false] at hq ⊢
    exact hn j w0 hs hq

theorem runinv_step {s0 t t' : State} {j : Nat} {l : Label} (hR : RunInv s0 t j) (h : step Cfg.std t l = some t')
    (hl : progressOnly l = true) (hyp : nUnparked s0 ≤ 1 ∨ j + (if isSignal l then 1 else 0) ≤ 1) :
    RunInv s0 t' (j + (if isSignal l then 1 else 0)) := by
  have hI' := inv_step hR.inv h
  have hle := hR.inv.buf_le
  cases l with
  | start i => simp [progressOnly] at hl
  | release i => simp [progressOnly] at hl
  | broadcast => simp [progressOnly] at hl
  | cancel i => simp [progressOnly] at hl
  | hunlock =>
    obtain ⟨_, _, _, rfl⟩ := step_hunlock h
    simpa [isSignal] using (⟨hI', hR.conserve, hR.unp_le, hR.woken_ge, hR.nocancel, hR.pot⟩ : RunInv s0 _ j)
  | relock i =>
    obtain ⟨e, hpc, _, rfl⟩ := step_relock h
    obtain ⟨w, hw, hwpc⟩ := pcOf_some.mp hpc
    have h0 := hR.inv.wait i w hw
    unfold WInv at h0
    simp only [hwpc] at h0
    obtain ⟨_, rfl⟩ := h0
    obtain ⟨c1, c2, c3⟩ := counts_setPc (s := t) (Pc.doneNil) hw
    simp only [isUnparked, isParked, isWoken, hwpc, Bool.false_eq_true, if_false, if_true] at c1 c2 c3
    simp only [isSignal, Bool.false_eq_true, if_false, Nat.add_zero]
    refine ⟨hI', ?_, ?_, ?_, ?_, ?_⟩
    · show nUnparked (setPc t i _) + nParked (setPc t i _) + nWoken (setPc t i _) = _
      have := hR.conserve; omega
    · show nUnparked (setPc t i _) ≤ _
      have := hR.unp_le; omega
    · show _ ≤ nWoken (setPc t i _)
      have := hR.woken_ge; omega
    · exact nocancel_setPc hR.nocancel hw (by simp [isUnparked, isParked])
    · show _ ≤ nWoken (setPc t i _) + (chanAt t t.cur).buf
      have := hR.pot; omega
  | arrive i c =>
    obtain ⟨w, ch0, hw, hwpc, hcase⟩ := step_arrive h
    have h0 := hR.inv.wait i w hw
    unfold WInv at h0
    simp only [hwpc] at h0
    obtain ⟨_, ch, rfl, hch⟩ := h0
    simp only [Option.getD_some] at hcase
    have hnc : w.cancelled = false := hR.nocancel i w hw (by simp [isUnparked, hwpc])
    simp only [isSignal, Bool.false_eq_true, if_false, Nat.add_zero]
    rcases hcase with ⟨_, hready, rfl⟩ | ⟨_, hcan, rfl⟩ | ⟨_, hopen, hbuf, _, rfl⟩
    · -- recv
      obtain ⟨c1, c2, c3⟩ := counts_setPc (s := t) (Pc.woken false) hw
      simp only [isUnparked, isParked, isWoken, hwpc, Bool.false_eq_true, if_false, if_true] at c1 c2 c3
      have hws : (recvState t i ch).ws = (setPc t i (.woken false)).ws := by unfold recvState; split <;> rfl
      have e1 : nUnparked (recvState t i ch) = nUnparked (setPc t i (.woken false)) := by unfold nUnparked; rw [hws]
      have e2 : nParked (recvState t i ch) = nParked (setPc t i (.woken false)) := by unfold nParked; rw [hws]
      have e3 : nWoken (recvState t i ch) = nWoken (setPc t i (.woken false)) := by unfold nWoken; rw [hws]
      have hbufs : (chanAt (recvState t i ch) (recvState t i ch).cur).buf + 1 ≥ (chanAt t t.cur).buf := by
        unfold recvState
        cases hcl : (chanAt t ch).closed
        · have hcur : ch = t.cur := by
            by_cases hne : ch = t.cur
            · exact hne
            · have := hR.inv.old_closed ch hch hne
              simp [hcl] at this
          subst hcur
          simp only [Bool.false_eq_true, if_false, chanAt_setPc, setPc_cur]
          rw [chanAt_set_same t t.cur _ hR.inv.cur_lt]
          simp; omega
        · simp
      refine ⟨hI', ?_, ?_, ?_, ?_, ?_⟩
      · rw [e1, e2, e3]; have := hR.conserve; omega
      · rw [e1]; have := hR.unp_le; omega
      · rw [e3]; have := hR.woken_ge; omega
      · intro j w' hw' hq
        rw [hws] at hw'
        exact nocancel_setPc hR.nocancel hw (by simp [isUnparked, isParked]) j w' hw' hq
      · rw [e3]; have := hR.pot; omega
    · simp [hnc] at hcan
    · -- park
      obtain ⟨c1, c2, c3⟩ := counts_setPc (s := t) (Pc.parked ch) hw
      simp only [isUnparked, isParked, isWoken, hwpc, Bool.false_eq_true, if_false, if_true] at c1 c2 c3
      refine ⟨hI', ?_, ?_, ?_, ?_, ?_⟩
      · show nUnparked (setPc t i _) + nParked (setPc t i _) + nWoken (setPc t i _) = _
        have := hR.conserve; omega
      · show nUnparked (setPc t i _) ≤ _
        have := hR.unp_le; omega
      · show _ ≤ nWoken (setPc t i _)
        have := hR.woken_ge; omega
      · exact nocancel_setPc hR.nocancel hw (fun _ => hnc)
      · show _ ≤ nWoken (setPc t i _) + (chanAt t t.cur).buf
        have := hR.pot; omega
  | signal to =>
    simp only [isSignal, if_true] at hyp ⊢
    cases to with
    | some i =>
      obtain ⟨_, hpc, rfl⟩ := step_signal_some h
      obtain ⟨w, hw, hwpc⟩ := pcOf_some.mp hpc
      obtain ⟨c1, c2, c3⟩ := counts_setPc (s := t) (Pc.woken false) hw
      simp only [isUnparked, isParked, isWoken, hwpc, Bool.false_eq_true, if_false, if_true] at c1 c2 c3
      refine ⟨hI', ?_, ?_, ?_, ?_, ?_⟩
      · show nUnparked (setPc t i _) + nParked (setPc t i _) + nWoken (setPc t i _) = _
        have := hR.conserve; omega
      · show nUnparked (setPc t i _) ≤ _
        have := hR.unp_le; omega
      · show _ ≤ nWoken (setPc t i _)
        have := hR.woken_ge; omega
      · exact nocancel_setPc hR.nocancel hw (by simp [isUnparked, isParked])
      · show _ ≤ nWoken (setPc t i _) + (chanAt t t.cur).buf
        have := hR.pot; omega
    | none =>
      obtain ⟨hcl, hnp, hcase⟩ := step_signal_none h
      rcases hcase with ⟨hlt, rfl⟩ | ⟨hge, rfl⟩
      · refine ⟨hI', hR.conserve, hR.unp_le, hR.woken_ge, hR.nocancel, ?_⟩
        show _ ≤ nWoken t + (chanAt { t with chans := _ } t.cur).buf
        rw [chanAt_set_same t t.cur _ hR.inv.cur_lt]
        have := hR.pot
        simp; omega
      · -- the Signal is dropped: the buffer is full and nobody is parked
        have hcap := hR.inv.cur_cap
        have hP : nParked t' = 0 := nParked_zero_of_noParked hR.inv ((any_parked_false_iff t' t'.cur).mp hnp)
        have hc := hR.conserve
        have hu := hR.unp_le
        have hwg := hR.woken_ge
        have hp := hR.pot
        refine ⟨hI', hR.conserve, hR.unp_le, hR.woken_ge, hR.nocancel, ?_⟩
        rcases hyp with h1 | h1 <;> omega

theorem runinv_run {s0 : State} {ls : List Label} : ∀ {t s' : State} {j : Nat}, RunInv s0 t j → run Cfg.std t ls = some s' →
    (∀ l ∈ ls, progressOnly l = true) → (nUnparked s0 ≤ 1 ∨ j + nSignals ls ≤ 1) → RunInv s0 s' (j + nSignals ls) := by
  induction ls with
  | nil =>
    intro t s' j hR h _ _
    simp only [run, Option.some.injEq] at h
    subst h
    simpa [nSignals] using hR
  | cons l ls ih =>
    intro t s' j hR h hl hyp
    simp only [run] at h
    split at h
    · rename_i t1 h1
      have hns : nSignals (l :: ls) = (if isSignal l then 1 else 0) + nSignals ls := by
        simp only [nSignals, List.countP_cons]; omega
      rw [hns] at hyp ⊢
      have hR1 := runinv_step hR h1 (hl l (by simp)) (by rcases hyp with h | h; exact .inl h; right; omega)
      have := ih hR1 h (fun l' hl' => hl l' (by simp [hl'])) (by rcases hyp with h | h; exact .inl h; right; omega)
      rw [Nat.add_assoc] at this
      exact this
    · cases h

theorem runinv_init {s : State} (hi : Inv s)
    (hnc : ∀ (i : Nat) (w : Waiter), s.ws[i]? = some w → (isUnparked w || isParked w) = true → w.cancelled = false) :
    RunInv s s 0 :=
  ⟨hi, rfl, Nat.le_refl _, Nat.le_refl _, hnc, by simp⟩

/-- the counting conclusion once every waiter has reached the `select` -/
theorem runinv_final {s0 s' : State} {m : Nat} (hR : RunInv s0 s' m) (hu : nUnparked s' = 0) :
    min (nUnparked s0 + nParked s0) m ≤ nWoken s' - nWoken s0 := by
  have hc := hR.conserve
  have hp := hR.pot
  have hle := hR.inv.buf_le
  by_cases hb : (chanAt s' s'.cur).buf = 0
  · omega
  · have hP : nParked s' = 0 := nParked_zero_of_noParked hR.inv (hR.inv.buf_parked (by omega))
    omega

/-- A token remembered for a waiter that has released the lock but is not yet parked can be taken by a waiter
that enters `Wait` only after the `Signal`; the earlier waiter then parks. Under the property text ("m Signal
calls wake at least min(k, m) *of them*") this is a lost wake-up with k = 1, m = 1: second refutation of the
clause, `Props.C16.signal_wakes_min_late_entrant_false` (open known finding, D13 family). -/
theorem late_entrant_takes_token :
    ∃ s, run Cfg.std (init Cfg.std 2)
        [.start 0, .release 0, .signal none, .start 1, .release 1, .arrive 1 .recv, .relock 1, .arrive 0 .park] = some s ∧
      pcOf s 0 = some (.parked 0) ∧ pcOf s 1 = some .doneNil :=
  ⟨_, rfl, by decide, by decide⟩

theorem reach_run {cfg : Cfg} {ls : List Label} : ∀ {s s' : State}, Reach cfg s → run cfg s ls = some s' → Reach cfg s' := by
  induction ls with
  | nil => intro s s' hr h; simp only [run, Option.some.injEq] at h; subst h; exact hr
  | cons l ls ih =>
    intro s s' hr h
    simp only [run] at h
    split at h
    · rename_i s1 h1; exact ih (.step l hr h1) h
    · cases h

end Juniper.Proofs.Cond
