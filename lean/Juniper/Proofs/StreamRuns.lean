import Juniper.Proofs.StreamComb
/-!
# `stream.Runs` (C07, C08): the two-port machine driven by the documented protocol yields the runs,
faults included
-/
namespace Juniper.Proofs.StreamDen
open Juniper.Model.Stream Juniper.Spec Juniper.Gen.Comb
universe u v w x
variable {σ : Type u} {σ' : Type w} {α β : Type v} {γ : Type x}

/-! ## Runs (stream): outer port + inner ports over a shared peekable, driven by the documented protocol -/

open Juniper.Model.Iter (takeReached)

/-- What the protocol machine yields on annotated items when the stream terminates as `t`. A failure
drops the run being collected. -/
def runsGoS (same : α → α → Bool) (take : Option Nat) :
    Option (List α) → α → List (α × Nat) → Term → List (List α × Nat)
  | some acc, _, [], .end_ e => [(acc, e)]
  | some _, _, [], .fail _ => []
  | none, _, [], _ => []
  | mode, prev, (b, c) :: L, t =>
    if same prev b then
      match mode with
      | some acc =>
        if takeReached take (acc ++ [b]).length then (acc ++ [b], c) :: runsGoS same take none b L t
        else runsGoS same take (some (acc ++ [b])) b L t
      | none => runsGoS same take none b L t
    else
      (match mode with | some acc => [(acc, c)] | none => []) ++
        (if takeReached take 0 then ([], c) :: runsGoS same take none b L t
         else if takeReached take 1 then ([b], c) :: runsGoS same take none b L t
         else runsGoS same take (some [b]) b L t)

def runsNewS (same : α → α → Bool) (take : Option Nat) (b : α) (c : Nat) (L : List (α × Nat)) (t : Term) :
    List (List α × Nat) :=
  if takeReached take 0 then ([], c) :: runsGoS same take none b L t
  else if takeReached take 1 then ([b], c) :: runsGoS same take none b L t
  else runsGoS same take (some [b]) b L t

def runsStartS (same : α → α → Bool) (take : Option Nat) : List (α × Nat) → Term → List (List α × Nat)
  | [], _ => []
  | (b, c) :: L, t => runsNewS same take b c L t

theorem runsGoS_cons_same (same : α → α → Bool) (take : Option Nat) (acc : List α) (prev b : α) (c : Nat)
    (L : List (α × Nat)) (t : Term) (hb : same prev b = true) :
    runsGoS same take (some acc) prev ((b, c) :: L) t =
      if takeReached take (acc ++ [b]).length then (acc ++ [b], c) :: runsGoS same take none b L t
      else runsGoS same take (some (acc ++ [b])) b L t := by
  simp [runsGoS, hb]

theorem runsGoS_cons_diff (same : α → α → Bool) (take : Option Nat) (acc : List α) (prev b : α) (c : Nat)
    (L : List (α × Nat)) (t : Term) (hb : same prev b = false) :
    runsGoS same take (some acc) prev ((b, c) :: L) t = (acc, c) :: runsNewS same take b c L t := by
  simp [runsGoS, hb, runsNewS]

theorem runsGoS_none_same (same : α → α → Bool) (take : Option Nat) (prev b : α) (c : Nat)
    (L : List (α × Nat)) (t : Term) (hb : same prev b = true) :
    runsGoS same take none prev ((b, c) :: L) t = runsGoS same take none b L t := by
  simp [runsGoS, hb]

theorem runsGoS_none_diff (same : α → α → Bool) (take : Option Nat) (prev b : α) (c : Nat)
    (L : List (α × Nat)) (t : Term) (hb : same prev b = false) :
    runsGoS same take none prev ((b, c) :: L) t = runsNewS same take b c L t := by
  simp [runsGoS, hb, runsNewS]

section steps
variable (same : α → α → Bool) (take : Option Nat) (cl : Bool) (m : SM σ α)

abbrev RC (s : σ) (pkc : Option α) (gen g : Nat) (prev : α) (acc : List α) : RunsProtoSt σ α :=
  ⟨⟨⟨s, pkc⟩, gen, some (g, prev, false)⟩, some (g, acc, acc.length)⟩
abbrev RD (s : σ) (pkc : Option α) (gen g : Nat) (prev : α) (det : Bool) : RunsProtoSt σ α :=
  ⟨⟨⟨s, pkc⟩, gen, some (g, prev, det)⟩, none⟩
abbrev RS (s : σ) (pkc : Option α) (gen : Nat) : RunsProtoSt σ α := ⟨⟨⟨s, pkc⟩, gen, none⟩, none⟩

theorem c_reached {s : σ} {pkc : Option α} {gen g : Nat} {prev : α} {acc : List α} (c : Bool)
    (h : takeReached take acc.length = true) :
    (runsProto same take cl m).step (RC s pkc gen g prev acc) c = (.item acc, RD s pkc gen g prev false) := by
  simp [runsProto, h]

/-- the answer of a collecting state to what its pull returned -/
def cPullF (gen g : Nat) (prev : α) (acc : List α) (r : SStep α) (s' : σ) : SStep (List α) × RunsProtoSt σ α :=
  match r with
  | .skip => (.skip, RC s' none gen g prev acc)
  | .err e => (.err e, RC s' none gen g prev acc)
  | .end_ => (.item acc, RD s' none gen g prev (cl && stRunsInnerCloseDetaches))
  | .item b =>
    if same prev b then (.skip, RC s' none gen g b (acc ++ [b]))
    else (.item acc, RD s' (some b) gen g prev (cl && stRunsInnerCloseDetaches))

theorem c_pull {s s' : σ} {gen g : Nat} {prev : α} {acc : List α} (c : Bool) (r : SStep α)
    (h : takeReached take acc.length = false) (hs : m.step s c = (r, s')) :
    (runsProto same take cl m).step (RC s none gen g prev acc) c = cPullF same cl gen g prev acc r s' := by
  unfold cPullF
  cases r with
  | skip => simp [runsProto, h, runsInner, peekPeek, stPeekPulls, hs]
  | err e => simp [runsProto, h, runsInner, peekPeek, stPeekPulls, hs]
  | end_ => cases cl <;> simp [runsProto, h, runsInner, peekPeek, stPeekPulls, hs, runsInnerClose]
  | item b =>
    by_cases hb : same prev b = true
    · simp [runsProto, h, runsInner, peekPeek, stPeekPulls, stPeekSetsHas, hs, hb, peekNext, stPeekNextHas,
        stPeekNextClearsHas, stRunsInnerTracksPrev]
    · cases cl <;> simp [runsProto, h, runsInner, peekPeek, stPeekPulls, stPeekSetsHas, hs, hb, runsInnerClose]

theorem c_buf_same {s : σ} {gen g : Nat} {prev b : α} {acc : List α} (c : Bool) (h : takeReached take acc.length = false)
    (hb : same prev b = true) :
    (runsProto same take cl m).step (RC s (some b) gen g prev acc) c = (.skip, RC s none gen g b (acc ++ [b])) := by
  simp [runsProto, h, runsInner, peekPeek, stPeekPulls, hb, peekNext, stPeekNextHas,
    stPeekNextClearsHas, stRunsInnerTracksPrev]

theorem d_det {s : σ} {pkc : Option α} {gen g : Nat} {prev : α} (c : Bool) :
    (runsProto same take cl m).step (RD s pkc gen g prev true) c = (.skip, RS s pkc gen) := by
  simp [runsProto, runsOuter, runsInner, runsInnerClose, stRunsClearsCurr]

def dPullF (gen g : Nat) (prev : α) (r : SStep α) (s' : σ) : SStep (List α) × RunsProtoSt σ α :=
  match r with
  | .skip => (.skip, RD s' none gen g prev false)
  | .err e => (.err e, RD s' none gen g prev false)
  | .end_ => (.skip, RS s' none gen)
  | .item b => if same prev b then (.skip, RD s' none gen g b false) else (.skip, RS s' (some b) gen)

theorem d_pull {s s' : σ} {gen g : Nat} {prev : α} (c : Bool) (r : SStep α) (hs : m.step s c = (r, s')) :
    (runsProto same take cl m).step (RD s none gen g prev false) c = dPullF same gen g prev r s' := by
  unfold dPullF
  cases r with
  | skip => simp [runsProto, runsOuter, runsInner, peekPeek, stPeekPulls, hs]
  | err e => simp [runsProto, runsOuter, runsInner, peekPeek, stPeekPulls, hs]
  | end_ => simp [runsProto, runsOuter, runsInner, peekPeek, stPeekPulls, hs, runsInnerClose, stRunsClearsCurr, stRunsClosesCurr]
  | item b =>
    by_cases hb : same prev b = true
    · simp [runsProto, runsOuter, runsInner, peekPeek, stPeekPulls, stPeekSetsHas, hs, hb, peekNext, stPeekNextHas,
        stPeekNextClearsHas, stRunsInnerTracksPrev]
    · simp [runsProto, runsOuter, runsInner, peekPeek, stPeekPulls, stPeekSetsHas, hs, hb, runsInnerClose, stRunsClearsCurr, stRunsClosesCurr]

theorem d_buf {s : σ} {gen g : Nat} {prev b : α} (c : Bool) :
    (runsProto same take cl m).step (RD s (some b) gen g prev false) c =
      if same prev b then (.skip, RD s none gen g b false) else (.skip, RS s (some b) gen) := by
  by_cases hb : same prev b = true
  · simp [runsProto, runsOuter, runsInner, peekPeek, stPeekPulls, hb, peekNext, stPeekNextHas,
      stPeekNextClearsHas, stRunsInnerTracksPrev]
  · simp [runsProto, runsOuter, runsInner, peekPeek, stPeekPulls, hb, runsInnerClose, stRunsClearsCurr, stRunsClosesCurr]

def sPullF (gen : Nat) (r : SStep α) (s' : σ) : SStep (List α) × RunsProtoSt σ α :=
  match r with
  | .skip => (.skip, RS s' none gen)
  | .err e => (.err e, RS s' none gen)
  | .end_ => (.end_, RS s' none gen)
  | .item b => (.skip, RC s' (some b) (gen + 1) (gen + 1) b [])

theorem s_pull {s s' : σ} {gen : Nat} (c : Bool) (r : SStep α) (hs : m.step s c = (r, s')) :
    (runsProto same take cl m).step (RS s none gen) c = sPullF gen r s' := by
  unfold sPullF
  cases r <;> simp [runsProto, runsOuter, peekPeek, stPeekPulls, stPeekSetsHas, hs]

theorem s_buf {s : σ} {gen : Nat} {b : α} (c : Bool) :
    (runsProto same take cl m).step (RS s (some b) gen) c = (.skip, RC s (some b) (gen + 1) (gen + 1) b []) := by
  simp [runsProto, runsOuter, peekPeek, stPeekPulls]

end steps


theorem ctxOk_of_pull {m : SM σ α} {m' : SM σ' γ} {s : σ} {X : σ'} (F : SStep α → σ → SStep γ × σ')
    (hF : ∀ c r s', m.step s c = (r, s') → m'.step X c = F r s') (hX : F (.err .ctx) s = (.err .ctx, X))
    (h : CtxOk m s) : CtxOk m' X := by
  rcases h with h | h
  · left; rw [hF false _ _ h, hX]
  · right
    rcases hy : m.step s true with ⟨r, s'⟩
    rw [hF true r s' hy, hF false r s' (by rw [h, hy])]

theorem ctxOk_of_const {m' : SM σ' γ} {X : σ'} {R : SStep γ × σ'} (h : ∀ c, m'.step X c = R) : CtxOk m' X :=
  Or.inr (by rw [h, h])

section main
variable {soft : Err → Bool} (same : α → α → Bool) (hrefl : ∀ a, same a a = true) (take : Option Nat) (cl : Bool)
  {m : SM σ α} {cost : σ → Nat}

abbrev rcost (cost : σ → Nat) : RunsProtoSt σ α → Nat := fun st => cost st.rs.pk.inner

theorem rc_ctxOk {s : σ} {gen g : Nat} {prev : α} {acc : List α} (h : CtxOk m s) :
    CtxOk (runsProto same take cl m) (RC s none gen g prev acc) := by
  by_cases hr : takeReached take acc.length = true
  · exact ctxOk_of_const (fun c => c_reached same take cl m c hr)
  · have hr' : takeReached take acc.length = false := by simpa using hr
    exact ctxOk_of_pull (cPullF same cl gen g prev acc) (fun c r s' hs => c_pull same take cl m c r hr' hs) rfl h

theorem rd_ctxOk {s : σ} {gen g : Nat} {prev : α} (h : CtxOk m s) :
    CtxOk (runsProto same take cl m) (RD s none gen g prev false) :=
  ctxOk_of_pull (dPullF same gen g prev) (fun c r s' hs => d_pull same take cl m c r hs) rfl h

theorem rs_ctxOk {s : σ} {gen : Nat} (h : CtxOk m s) : CtxOk (runsProto same take cl m) (RS s none gen) :=
  ctxOk_of_pull (sPullF gen) (fun c r s' hs => s_pull same take cl m c r hs) rfl h

/-- the detach flag the protocol leaves on a fully read inner stream -/
abbrev clFlag (cl : Bool) : Bool := cl && stRunsInnerCloseDetaches

include hrefl in
theorem runs_buffered {s' : σ} {b : α} {L : List (α × Nat)} {t : Term}
    (ihc : ∀ gen g prev acc, takeReached take acc.length = false →
      SDen soft (runsProto same take cl m) (rcost cost) (RC s' none gen g prev acc) (runsGoS same take (some acc) prev L t) t)
    (ihd : ∀ gen g prev, SDen soft (runsProto same take cl m) (rcost cost) (RD s' none gen g prev false)
      (runsGoS same take none prev L t) t)
    (gen g : Nat) :
    SDen soft (runsProto same take cl m) (rcost cost) (RC s' (some b) gen g b []) (runsNewS same take b (cost s') L t) t := by
  unfold runsNewS
  have dbuf : ∀ c, (runsProto same take cl m).step (RD s' (some b) gen g b false) c = (.skip, RD s' none gen g b false) := by
    intro c; rw [d_buf, if_pos (hrefl b)]
  by_cases h0 : takeReached take 0 = true
  · rw [if_pos h0]
    have h1 := fun c => c_reached same take cl m (s := s') (pkc := some b) (gen := gen) (g := g) (prev := b) (acc := []) c h0
    refine .item (cost := rcost cost) (ctxOk_of_const h1) (h1 true) ?_
    exact .skip (ctxOk_of_const dbuf) (dbuf true) (ihd gen g b)
  · have h0' : takeReached take ([] : List α).length = false := by simpa using h0
    rw [if_neg h0]
    have hb := fun c => c_buf_same same take cl m (s := s') (gen := gen) (g := g) (acc := []) c h0' (hrefl b)
    refine .skip (ctxOk_of_const hb) (hb true) ?_
    by_cases h1 : takeReached take 1 = true
    · rw [if_pos h1]
      have hr := fun c => c_reached same take cl m (s := s') (pkc := none) (gen := gen) (g := g) (prev := b)
        (acc := [] ++ [b]) c (by simpa using h1)
      exact .item (cost := rcost cost) (ctxOk_of_const hr) (hr true) (ihd gen g b)
    · rw [if_neg h1]
      exact ihc gen g b ([] ++ [b]) (by simpa using h1)

/-- after the source has ended, a fresh-looking protocol state has ended too -/
theorem runs_sended {s' : σ} (he : SEnded m s') (hc : ∀ cs, cost (afterS m cs s') = cost s') (gen : Nat) :
    SEnded (runsProto same take cl m) (RS s' none gen) ∧
      ∀ cs, rcost cost (afterS (runsProto same take cl m) cs (RS s' none gen)) = cost s' :=
  sended_wrapper (m := m) (m' := runsProto same take cl m) (cost := cost) (fun st => st.rs.pk.inner)
    (fun st => st.cur = none ∧ st.rs.live = none ∧ st.rs.pk.curr = none) (by
      intro u hq het
      obtain ⟨u', hx, _⟩ := het.live
      obtain ⟨⟨⟨ui, uc⟩, ug, ul⟩, ucur⟩ := u
      simp only at hq hx
      obtain ⟨rfl, rfl, rfl⟩ := hq
      have live : ∀ c, m.step ui c = (.end_, u') →
          ((runsProto same take cl m).step (RS ui none ug) c).1 = .end_ ∧
          (((runsProto same take cl m).step (RS ui none ug) c).2.cur = none ∧
            ((runsProto same take cl m).step (RS ui none ug) c).2.rs.live = none ∧
            ((runsProto same take cl m).step (RS ui none ug) c).2.rs.pk.curr = none) ∧
          ((runsProto same take cl m).step (RS ui none ug) c).2.rs.pk.inner = u' := by
        intro c hc
        rw [s_pull same take cl m c _ hc]
        exact ⟨rfl, ⟨rfl, rfl, rfl⟩, rfl⟩
      refine ⟨rs_ctxOk same take cl het.ctxOk, (live true hx).1, fun c => ?_⟩
      cases c with
      | true => exact ⟨(live true hx).2.1, Or.inl (by rw [(live true hx).2.2, hx])⟩
      | false =>
        rcases het.ctxOk with hk | hk
        · have := s_pull same take cl m (gen := ug) false _ hk
          simp only [sPullF] at this
          simp only [RS] at this ⊢
          rw [this]
          exact ⟨⟨rfl, rfl, rfl⟩, Or.inr rfl⟩
        · have hf : m.step ui false = (.end_, u') := by rw [hk, hx]
          exact ⟨(live false hf).2.1, Or.inl (by rw [(live false hf).2.2, hf])⟩) (t := RS s' none gen) ⟨rfl, rfl, rfl⟩ he hc


include hrefl in
/-- the first item `b` of the next run sits in the peek buffer, no inner stream is live -/
theorem runs_after_buf {s' : σ} {b : α} {L : List (α × Nat)} {t : Term}
    (ihc : ∀ gen g prev acc, takeReached take acc.length = false →
      SDen soft (runsProto same take cl m) (rcost cost) (RC s' none gen g prev acc) (runsGoS same take (some acc) prev L t) t)
    (ihd : ∀ gen g prev, SDen soft (runsProto same take cl m) (rcost cost) (RD s' none gen g prev false)
      (runsGoS same take none prev L t) t)
    (gen : Nat) :
    SDen soft (runsProto same take cl m) (rcost cost) (RS s' (some b) gen) (runsNewS same take b (cost s') L t) t :=
  .skip (ctxOk_of_const (fun c => s_buf same take cl m c)) (s_buf same take cl m true)
    (runs_buffered same hrefl take cl ihc ihd (gen + 1) (gen + 1))

include hrefl in
/-- … the same, the previous inner stream (which saw that `b` differs) not yet dropped -/
theorem runs_after_diff {s' : σ} {b prev : α} (hb : same prev b = false) {L : List (α × Nat)} {t : Term}
    (ihc : ∀ gen g prev acc, takeReached take acc.length = false →
      SDen soft (runsProto same take cl m) (rcost cost) (RC s' none gen g prev acc) (runsGoS same take (some acc) prev L t) t)
    (ihd : ∀ gen g prev, SDen soft (runsProto same take cl m) (rcost cost) (RD s' none gen g prev false)
      (runsGoS same take none prev L t) t)
    (gen g : Nat) (flag : Bool) :
    SDen soft (runsProto same take cl m) (rcost cost) (RD s' (some b) gen g prev flag) (runsNewS same take b (cost s') L t) t := by
  have hstep : ∀ c, (runsProto same take cl m).step (RD s' (some b) gen g prev flag) c = (.skip, RS s' (some b) gen) := by
    intro c
    cases flag with
    | true => exact d_det same take cl m c
    | false => rw [d_buf, if_neg (by simp [hb])]
  exact .skip (ctxOk_of_const hstep) (hstep true) (runs_after_buf same hrefl take cl ihc ihd gen)

/-- the source has ended and the last inner stream is still attached -/
theorem runs_end_rd {s' : σ} (he : SEnded m s') (hc : ∀ cs, cost (afterS m cs s') = cost s') (gen g : Nat) (prev : α)
    (flag : Bool) :
    SDen soft (runsProto same take cl m) (rcost cost) (RD s' none gen g prev flag) [] (.end_ (cost s')) := by
  cases flag with
  | true =>
    have hw := runs_sended same take cl (cost := cost) he hc gen
    exact .skip (ctxOk_of_const (fun c => d_det same take cl m c)) (d_det same take cl m true)
      (sden_of_ended (soft := soft) (cost := rcost cost) hw.1 hw.2)
  | false =>
    obtain ⟨s'', hs2, he2⟩ := he.live
    have hc1 : cost s'' = cost s' := by have := hc [true]; simpa [afterS, hs2] using this
    have hc2 : ∀ cs, cost (afterS m cs s'') = cost s'' := by
      intro cs; have := hc (true :: cs); simp only [afterS, hs2] at this; rw [this, hc1]
    have hw := runs_sended same take cl (cost := cost) he2 hc2 gen
    have hd := sden_of_ended (soft := soft) (cost := rcost cost) hw.1 hw.2
    have hstep := d_pull same take cl m (gen := gen) (g := g) (prev := prev) true _ hs2
    simp only [dPullF] at hstep
    have : rcost cost (RS (α := α) s'' none gen) = cost s' := hc1
    rw [this] at hd
    exact .skip (rd_ctxOk same take cl he.ctxOk) hstep hd

include hrefl in
/-- **`stream.Runs` under the documented protocol** (collecting / skipping / fresh), faults included. -/
theorem runs_sden {s : σ} {L : List (α × Nat)} {t : Term} (h : SDen soft m cost s L t) :
    (∀ gen g prev acc, takeReached take acc.length = false →
      SDen soft (runsProto same take cl m) (rcost cost) (RC s none gen g prev acc) (runsGoS same take (some acc) prev L t) t) ∧
    (∀ gen g prev, SDen soft (runsProto same take cl m) (rcost cost) (RD s none gen g prev false)
      (runsGoS same take none prev L t) t) ∧
    (∀ gen, SDen soft (runsProto same take cl m) (rcost cost) (RS s none gen) (runsStartS same take L t) t) := by
  have _tie := Skeleton.Tie.stRuns
  induction h with
  | @skip s s' L t hc hs _ ih =>
    obtain ⟨ihc, ihd, ihs⟩ := ih
    refine ⟨fun gen g prev acc hr => ?_, fun gen g prev => ?_, fun gen => ?_⟩
    · exact .skip (rc_ctxOk same take cl hc) (by rw [c_pull same take cl m true _ hr hs]; rfl) (ihc gen g prev acc hr)
    · exact .skip (rd_ctxOk same take cl hc) (by rw [d_pull same take cl m true _ hs]; rfl) (ihd gen g prev)
    · exact .skip (rs_ctxOk same take cl hc) (by rw [s_pull same take cl m true _ hs]; rfl) (ihs gen)
  | @soft s s' e L t hc hs he _ ih =>
    obtain ⟨ihc, ihd, ihs⟩ := ih
    refine ⟨fun gen g prev acc hr => ?_, fun gen g prev => ?_, fun gen => ?_⟩
    · exact .soft (e := e) (rc_ctxOk same take cl hc) (by rw [c_pull same take cl m true _ hr hs]; rfl) he (ihc gen g prev acc hr)
    · exact .soft (e := e) (rd_ctxOk same take cl hc) (by rw [d_pull same take cl m true _ hs]; rfl) he (ihd gen g prev)
    · exact .soft (e := e) (rs_ctxOk same take cl hc) (by rw [s_pull same take cl m true _ hs]; rfl) he (ihs gen)
  | @item s s' b L t hc hs _ ih =>
    obtain ⟨ihc, ihd, _⟩ := ih
    refine ⟨fun gen g prev acc hr => ?_, fun gen g prev => ?_, fun gen => ?_⟩
    · by_cases hb : same prev b = true
      · rw [runsGoS_cons_same same take acc prev b _ L t hb]
        refine .skip (s' := RC s' none gen g b (acc ++ [b])) (rc_ctxOk same take cl hc)
          (by rw [c_pull same take cl m true _ hr hs]; simp [cPullF, hb]) ?_
        by_cases hr' : takeReached take (acc ++ [b]).length = true
        · rw [if_pos hr']
          have hstep := fun c => c_reached same take cl m (s := s') (pkc := none) (gen := gen) (g := g) (prev := b)
            (acc := acc ++ [b]) c hr'
          exact .item (cost := rcost cost) (ctxOk_of_const hstep) (hstep true) (ihd gen g b)
        · rw [if_neg hr']
          exact ihc gen g b (acc ++ [b]) (by simpa using hr')
      · have hb' : same prev b = false := by simpa using hb
        rw [runsGoS_cons_diff same take acc prev b _ L t hb']
        refine .item (cost := rcost cost) (a := acc) (s' := RD s' (some b) gen g prev (clFlag cl))
          (rc_ctxOk same take cl hc) (by rw [c_pull same take cl m true _ hr hs]; simp [cPullF, hb']) ?_
        exact runs_after_diff same hrefl take cl hb' ihc ihd gen g _
    · by_cases hb : same prev b = true
      · rw [runsGoS_none_same same take prev b _ L t hb]
        exact .skip (s' := RD s' none gen g b false) (rd_ctxOk same take cl hc)
          (by rw [d_pull same take cl m true _ hs]; simp [dPullF, hb]) (ihd gen g b)
      · have hb' : same prev b = false := by simpa using hb
        rw [runsGoS_none_diff same take prev b _ L t hb']
        exact .skip (s' := RS s' (some b) gen) (rd_ctxOk same take cl hc)
          (by rw [d_pull same take cl m true _ hs]; simp [dPullF, hb']) (runs_after_buf same hrefl take cl ihc ihd gen)
    · have : runsStartS same take ((b, cost s') :: L) t = runsNewS same take b (cost s') L t := rfl
      rw [this]
      exact .skip (s' := RC s' (some b) (gen + 1) (gen + 1) b []) (rs_ctxOk same take cl hc)
        (by rw [s_pull same take cl m true _ hs]; rfl) (runs_buffered same hrefl take cl ihc ihd (gen + 1) (gen + 1))
  | @fail s s' e hc hs he =>
    refine ⟨fun gen g prev acc hr => ?_, fun gen g prev => ?_, fun gen => ?_⟩
    · exact .fail (e := e) (s' := RC s' none gen g prev acc) (rc_ctxOk same take cl hc)
        (by rw [c_pull same take cl m true _ hr hs]; rfl) he
    · exact .fail (e := e) (s' := RD s' none gen g prev false) (rd_ctxOk same take cl hc)
        (by rw [d_pull same take cl m true _ hs]; rfl) he
    · exact .fail (e := e) (s' := RS s' none gen) (rs_ctxOk same take cl hc)
        (by rw [s_pull same take cl m true _ hs]; rfl) he
  | @done s s' hc hs he hk =>
    refine ⟨fun gen g prev acc hr => ?_, fun gen g prev => ?_, fun gen => ?_⟩
    · have : runsGoS same take (some acc) prev [] (.end_ (cost s')) = [(acc, cost s')] := rfl
      rw [this]
      exact .item (cost := rcost cost) (a := acc) (s' := RD s' none gen g prev (clFlag cl)) (rc_ctxOk same take cl hc)
        (by rw [c_pull same take cl m true _ hr hs]; rfl) (runs_end_rd same take cl he hk gen g prev _)
    · have : runsGoS same take none prev [] (.end_ (cost s')) = [] := rfl
      rw [this]
      have hw := runs_sended same take cl (cost := cost) he hk gen
      exact .skip (s' := RS s' none gen) (rd_ctxOk same take cl hc) (by rw [d_pull same take cl m true _ hs]; rfl)
        (sden_of_ended (soft := soft) (cost := rcost cost) hw.1 hw.2)
    · have hw := runs_sended same take cl (cost := cost) he hk gen
      exact .done (cost := rcost cost) (s' := RS s' none gen) (rs_ctxOk same take cl hc)
        (by rw [s_pull same take cl m true _ hs]; rfl) hw.1 hw.2

end main


/-! with `take = none` on a stream that ends, the protocol machine yields exactly the documented runs -/

theorem runsGoS_all_fst (same : α → α → Bool) (acc : List α) (prev : α) (L : List (α × Nat)) (e : Nat) :
    (runsGoS same none (some acc) prev L (.end_ e)).map Prod.fst = Seq.runsGo same acc prev (L.map Prod.fst) := by
  induction L generalizing acc prev with
  | nil => rfl
  | cons p L ih =>
    obtain ⟨b, c⟩ := p
    by_cases hb : same prev b = true
    · rw [runsGoS_cons_same same none acc prev b c L _ hb]
      simp only [takeReached, Bool.false_eq_true, if_false, List.map_cons, Seq.runsGo, hb, if_true]
      exact ih _ _
    · have hb' : same prev b = false := by simpa using hb
      rw [runsGoS_cons_diff same none acc prev b c L _ hb']
      simp only [runsNewS, takeReached, Bool.false_eq_true, if_false, List.map_cons, Seq.runsGo, hb']
      rw [ih]

theorem runsStartS_all_fst (same : α → α → Bool) (L : List (α × Nat)) (e : Nat) :
    (runsStartS same none L (.end_ e)).map Prod.fst = Seq.runs same (L.map Prod.fst) := by
  cases L with
  | nil => rfl
  | cons p L =>
    obtain ⟨b, c⟩ := p
    simp only [runsStartS, runsNewS, takeReached, Bool.false_eq_true, if_false, List.map_cons, Seq.runs]
    exact runsGoS_all_fst same [b] b L e

end Juniper.Proofs.StreamDen
