import Juniper.Model.XSlices
import Juniper.Spec.Seq
import Juniper.Proofs.HelpersWrappers
import Juniper.Proofs.HelpersLoops
/-! # xslices counterparts (C07 cross-version agreement): the Go loops compute the Spec functions -/
namespace Juniper.Proofs.XS
open Juniper.Model Juniper.Spec Juniper.Gen.Comb
variable {α β : Type}

theorem slice_nat (s : List α) (lo hi : Nat) (h1 : lo ≤ hi) (h2 : hi ≤ s.length) :
    XSlices.slice s (lo : Int) (hi : Int) = some ((s.take hi).drop lo) := by
  unfold XSlices.slice
  have : (0 : Int) ≤ lo ∧ (lo : Int) ≤ hi ∧ (hi : Int) ≤ s.length := by omega
  simp [this]

theorem take_succ_drop (s : List α) (start i : Nat) (hs : start ≤ i) (hi : i < s.length) :
    (s.take (i + 1)).drop start = (s.take i).drop start ++ [s[i]] := by
  rw [List.take_add_one, List.drop_append_of_le_length (by simp; omega)]
  simp [List.getElem?_eq_getElem hi]

/-- the loop of `xslices.Runs` from index `k`: `cur = s[start:k]` is the run being extended -/
theorem runsLoop_spec (same : α → α → Bool) (s : List α) (fuel k start : Nat) (runs : List (List α))
    (hk1 : 1 ≤ k) (hk : k ≤ s.length) (hst : start < k) (hfuel : s.length - k ≤ fuel) :
    ∃ (runs' : List (List α)) (start' : Nat), XSlices.runsLoop same s fuel (k : Int) (start : Int) (k : Int) runs =
        some (runs', (start' : Int), (s.length : Int)) ∧ start' < s.length ∧
      runs' ++ [(s.take s.length).drop start'] =
        runs ++ Seq.runsGo same ((s.take k).drop start) (s[k - 1]'(by omega)) (s.drop k) := by
  induction fuel generalizing k start runs with
  | zero =>
    have hkl : k = s.length := by omega
    subst hkl
    refine ⟨runs, start, by simp [XSlices.runsLoop], hst, ?_⟩
    simp [Seq.runsGo]
  | succ fuel ih =>
    by_cases hkl : k = s.length
    · subst hkl
      refine ⟨runs, start, ?_, hst, by simp [Seq.runsGo]⟩
      simp [XSlices.runsLoop, xsRunsLoops]
    · have hlt : k < s.length := by omega
      have hloop : xsRunsLoops (k : Int) (s.length : Int) = true := by simp [xsRunsLoops] <;> omega
      have hl : (xsRunsCmpLeft (k : Int)).toNat = k - 1 := by simp [xsRunsCmpLeft] <;> omega
      have hr : (xsRunsCmpRight (k : Int)).toNat = k := by simp [xsRunsCmpRight]
      have ga : s[k - 1]? = some (s[k - 1]'(by omega)) := List.getElem?_eq_getElem (by omega)
      have gb : s[k]? = some s[k] := List.getElem?_eq_getElem hlt
      have hdrop : s.drop k = s[k] :: s.drop (k + 1) := List.drop_eq_getElem_cons hlt
      have hlast : (s[k + 1 - 1]'(by omega)) = s[k] := by simp
      rw [hdrop]
      by_cases hb : same (s[k - 1]'(by omega)) s[k] = true
      · obtain ⟨runs', start', h1, h2, h3⟩ := ih (k + 1) start runs (by omega) (by omega) (by omega) (by omega)
        refine ⟨runs', start', ?_, h2, ?_⟩
        · rw [XSlices.runsLoop, if_pos hloop, hl, hr, ga, gb]
          simp only [hb, if_true]
          have e1 : ((k : Int) + 1) = ((k + 1 : Nat) : Int) := by omega
          have e2 : xsRunsExtend (k : Int) = ((k + 1 : Nat) : Int) := by simp [xsRunsExtend] <;> omega
          rw [e1, e2]
          exact h1
        · rw [h3, take_succ_drop s start k (by omega) hlt]
          simp only [Seq.runsGo, hb, if_true, hlast]
      · have hb' : same (s[k - 1]'(by omega)) s[k] = false := by simpa using hb
        obtain ⟨runs', start', h1, h2, h3⟩ :=
          ih (k + 1) k (runs ++ [(s.take k).drop start]) (by omega) (by omega) (by omega) (by omega)
        refine ⟨runs', start', ?_, h2, ?_⟩
        · rw [XSlices.runsLoop, if_pos hloop, hl, hr, ga, gb]
          simp only [hb', Bool.false_eq_true, if_false]
          rw [slice_nat s start k (by omega) (by omega)]
          simp only
          have e1 : ((k : Int) + 1) = ((k + 1 : Nat) : Int) := by omega
          have e2 : xsRunsNewEnd (k : Int) = ((k + 1 : Nat) : Int) := by simp [xsRunsNewEnd] <;> omega
          have e3 : xsRunsNewStart (k : Int) = (k : Int) := by simp [xsRunsNewStart]
          rw [e1, e2, e3]
          exact h1
        · rw [h3]
          have : (s.take (k + 1)).drop k = [s[k]] := by
            rw [List.take_add_one, List.drop_append_of_le_length (by simp; omega)]
            simp [List.getElem?_eq_getElem hlt, List.drop_eq_nil_of_le]
          simp only [Seq.runsGo, hb', Bool.false_eq_true, if_false, List.append_assoc, List.singleton_append, this, hlast]

/-- **`xslices.Runs(s, same)` is `Seq.runs same s`** (no panic), for every `same`. -/
theorem runs_eq (same : α → α → Bool) (s : List α) : XSlices.runs same s = some (Seq.runs same s) := by
  cases s with
  | nil => simp [XSlices.runs, XSlices.runsLoop, xsRunsNonEmpty, xsRunsEnd0, xsRunsFinal, Seq.runs]
  | cons a l =>
    obtain ⟨runs', start', h1, h2, h3⟩ :=
      runsLoop_spec same (a :: l) (a :: l).length 1 0 [] (by omega) (by simp) (by omega) (by omega)
    have he0 : (if xsRunsNonEmpty ((a :: l).length : Int) = true then xsRunsEnd1 else xsRunsEnd0) = ((1 : Nat) : Int) := by
      simp [xsRunsNonEmpty, xsRunsEnd1] <;> omega
    have hi0 : xsRunsI0 = ((1 : Nat) : Int) := by simp [xsRunsI0]
    have hs0 : xsRunsStart0 = ((0 : Nat) : Int) := by simp [xsRunsStart0]
    simp only [XSlices.runs, he0, hi0, hs0, h1]
    have hfin : xsRunsFinal (((a :: l).length : Nat) : Int) = true := by simp [xsRunsFinal] <;> omega
    rw [if_pos hfin, slice_nat (a :: l) start' (a :: l).length (by omega) (by omega)]
    simp only [Option.some.injEq]
    rw [h3]
    simp [Seq.runs]


theorem chunkTD_nil (n f : Nat) : Seq.chunkTD n f ([] : List α) = [] := by cases f <;> rfl

/-- the accumulating and the take/drop formulation of `chunk` agree -/
theorem chunkGo_eq_TD (n : Nat) (hn : 1 ≤ n) (l pend : List α) (fuel : Nat) (hp : pend.length < n)
    (hf : (pend ++ l).length ≤ fuel * n) : Seq.chunkGo n pend l = Seq.chunkTD n fuel (pend ++ l) := by
  induction l generalizing pend fuel with
  | nil =>
    simp only [Seq.chunkGo, List.append_nil]
    cases pend with
    | nil => simp [chunkTD_nil]
    | cons p ps =>
      have hfuel : 1 ≤ fuel := by
        cases fuel with
        | zero => simp at hf
        | succ f => omega
      obtain ⟨f, rfl⟩ : ∃ f, fuel = f + 1 := ⟨fuel - 1, by omega⟩
      simp only [List.length_cons, Nat.zero_lt_succ, if_true, Seq.chunkTD]
      rw [List.take_of_length_le (by simp at hp ⊢; omega), List.drop_of_length_le (by simp at hp ⊢; omega), chunkTD_nil]
  | cons a l ih =>
    simp only [Seq.chunkGo]
    by_cases hfull : (pend ++ [a]).length = n
    · rw [if_pos hfull]
      have hfuel : 1 ≤ fuel := by
        cases fuel with
        | zero => simp at hf
        | succ f => omega
      obtain ⟨f, rfl⟩ : ∃ f, fuel = f + 1 := ⟨fuel - 1, by omega⟩
      have hsplit : pend ++ a :: l = (pend ++ [a]) ++ l := by simp
      have hne : ∃ x xs, pend ++ a :: l = x :: xs := by cases pend <;> simp
      obtain ⟨x, xs, hx⟩ := hne
      rw [hx, Seq.chunkTD, ← hx, hsplit, List.take_left' hfull, List.drop_left' hfull]
      congr 1
      have hf2 : l.length ≤ f * n := by
        have h3 : (pend ++ a :: l).length = n + l.length := by
          rw [hsplit, List.length_append, hfull]
        rw [h3, Nat.succ_mul] at hf
        omega
      have := ih [] f (by simp; omega) (by simpa using hf2)
      simpa using this
    · rw [if_neg hfull]
      have := ih (pend ++ [a]) fuel (by simp at hfull hp ⊢; omega) (by simpa using hf)
      simpa using this

/-- the index loop of `xslices.Chunk`: `k` chunks remain from index `i·n` -/
theorem chunkLoop_eq_TD (s : List α) (n : Nat) (hn : 1 ≤ n) (k i : Nat)
    (h1 : s.length - i * n ≤ k * n) (h2 : k * n < s.length - i * n + n) :
    XSlices.chunkLoop s (n : Int) k (i : Int) = some (Seq.chunkTD n k (s.drop (i * n))) := by
  induction k generalizing i with
  | zero => simp [XSlices.chunkLoop, Seq.chunkTD]
  | succ k ih =>
    rw [Nat.succ_mul] at h1 h2
    have hr : i * n < s.length := by omega
    have hne : ∃ x xs, s.drop (i * n) = x :: xs := by
      cases hd : s.drop (i * n) with
      | nil => simp [List.drop_eq_nil_iff] at hd; omega
      | cons x xs => exact ⟨x, xs, rfl⟩
    obtain ⟨x, xs, hx⟩ := hne
    have hstart : xsChunkStart (i : Int) (n : Int) = ((i * n : Nat) : Int) := by simp [xsChunkStart, Int.natCast_mul]
    have hend : xsChunkEnd ((i * n : Nat) : Int) (n : Int) = (((i + 1) * n : Nat) : Int) := by
      simp only [xsChunkEnd]; rw [Nat.succ_mul]; omega
    have hnext := ih (i + 1) (by rw [Nat.succ_mul]; omega) (by rw [Nat.succ_mul]; omega)
    have e1 : ((i : Int) + 1) = ((i + 1 : Nat) : Int) := by omega
    rw [XSlices.chunkLoop, hstart, hend, e1, hnext]
    have hdd : s.drop ((i + 1) * n) = (s.drop (i * n)).drop n := by
      rw [List.drop_drop, Nat.succ_mul]
    have hL : (s.drop (i * n)).length = s.length - i * n := by simp
    by_cases hcl : (i + 1) * n ≥ s.length
    · have hc : xsChunkFull (s.length : Int) ((i * n : Nat) : Int) (n : Int) = false := by
        simp only [xsChunkFull, gt_iff_lt, decide_eq_false_iff_not]
        rw [Nat.succ_mul] at hcl
        omega
      simp only [hc, Bool.false_eq_true, if_false, xsChunkEndLast]
      rw [slice_nat s (i * n) s.length (by omega) (Nat.le_refl _)]
      simp only
      rw [hx, Seq.chunkTD, ← hx, hdd]
      rw [Nat.succ_mul] at hcl
      rw [List.take_length, List.take_of_length_le (by rw [hL]; omega)]
    · have hc : xsChunkFull (s.length : Int) ((i * n : Nat) : Int) (n : Int) = true := by
        simp only [xsChunkFull, gt_iff_lt, decide_eq_true_eq]
        rw [Nat.succ_mul] at hcl
        omega
      simp only [hc, if_true]
      rw [slice_nat s (i * n) ((i + 1) * n) (by rw [Nat.succ_mul]; omega) (by omega)]
      simp only
      rw [hx, Seq.chunkTD, ← hx, hdd, List.drop_take]
      have : (i + 1) * n - i * n = n := by rw [Nat.succ_mul]; omega
      rw [this]

/-- **`xslices.Chunk(s, n)`, `n ≥ 1`, is `Seq.chunk n s`** (no panic). -/
theorem chunk_eq (s : List α) (n : Nat) (hn : 1 ≤ n) : XSlices.chunk s (n : Int) = some (Seq.chunk n s) := by
  have hp : xsChunkPanics (n : Int) = false := by simp [xsChunkPanics]; omega
  have hcnt : xsChunkMake (if xsChunkNonEmpty (s.length : Int) then xsChunkCount (s.length : Int) (n : Int) else xsChunkCount0)
      = (((s.length + n - 1) / n : Nat) : Int) := by
    simp only [xsChunkMake, xsChunkNonEmpty, xsChunkCount, xsChunkCount0, gt_iff_lt, decide_eq_true_eq]
    by_cases h0 : s.length = 0
    · have : (s.length + n - 1) / n = 0 := by rw [h0]; exact Nat.div_eq_of_lt (by omega)
      rw [this, h0]; simp
    · have hpos : (0 : Int) < (s.length : Int) := by omega
      rw [if_pos hpos]
      have e : ((s.length : Int) - 1) = ((s.length - 1 : Nat) : Int) := by omega
      rw [e, ← Int.ofNat_tdiv]
      have : (s.length + n - 1) / n = (s.length - 1) / n + 1 := by
        have : s.length + n - 1 = (s.length - 1) + n := by omega
        rw [this, Nat.add_div_right _ (by omega)]
      rw [this]; simp
  let k := (s.length + n - 1) / n
  have hk : (s.length + n - 1) / n = k := rfl
  have hdm := Nat.div_add_mod (s.length + n - 1) n
  have hml := Nat.mod_lt (s.length + n - 1) (y := n) (by omega)
  rw [hk, Nat.mul_comm] at hdm
  have h1 : s.length - 0 * n ≤ k * n := by simp; omega
  have h2 : k * n < s.length - 0 * n + n := by simp; omega
  have hloop := chunkLoop_eq_TD s n hn k 0 h1 h2
  simp only [XSlices.chunk, hp, Bool.false_eq_true, if_false, hcnt, hk]
  have hnn : ¬ ((k : Nat) : Int) < 0 := Int.not_lt.mpr (Int.natCast_nonneg k)
  simp only [hnn, if_false, Int.toNat_natCast]
  have e0 : ((0 : Nat) : Int) = 0 := rfl
  rw [← e0, hloop]
  simp only [Nat.zero_mul, List.drop_zero, Option.some.injEq]
  rw [Seq.chunk, chunkGo_eq_TD n hn s [] k (by simp; omega) (by simp; omega)]
  simp


theorem compactGo_congr (eq : α → α → Bool) (h : Seq.Equiv eq) (a b : α) (hab : eq a b = true) (l : List α) :
    Seq.compactGo eq (some a) l = Seq.compactGo eq (some b) l := by
  induction l with
  | nil => rfl
  | cons x l ih =>
    have hx : eq a x = eq b x := by
      cases hax : eq a x with
      | true =>
        have := h.trans b a x (h.symm a b hab) hax
        rw [this]
      | false =>
        cases hbx : eq b x with
        | false => rfl
        | true => have := h.trans a b x hab hbx; rw [this] at hax; cases hax
    simp only [Seq.compactGo, hx]
    split
    · exact ih
    · rfl

/-! ## the wrappers / own loops shared with C19: `XSlices.*` are the C19 models on a slice with `cap = len` -/

open Juniper.Model.Stdlib (Sl) in
theorem items_ofList (l : List α) : (Sl.ofList l).items = l := by
  simp [Sl.ofList, Sl.items]

/-- `xslices.CompactFunc` = `slices.CompactFunc(slices.Clone(s), eq)` keeps an item iff it is the first
one or is not `eq` to its *predecessor* -/
theorem compactFunc_items (zero : α) (eq : α → α → Bool) (l : List α) :
    XSlices.compactFunc zero eq l = Stdlib.compactBy eq l := by
  show (Stdlib.Sl.shrinkTo zero (Stdlib.clone (Stdlib.Sl.ofList l)) _).items = _
  rw [Helpers.items_shrinkTo, Helpers.items_clone, items_ofList]

theorem stdCompactGo_eq (eq : α → α → Bool) (h : Seq.Equiv eq) (p : α) (l : List α) :
    Stdlib.compactGo eq p l = Seq.compactGo eq (some p) l := by
  induction l generalizing p with
  | nil => rfl
  | cons y l ih =>
    simp only [Stdlib.compactGo, Seq.compactGo]
    by_cases hyp : eq y p = true
    · have hpy := h.symm y p hyp
      simp only [hyp, hpy, if_true]
      rw [ih y, compactGo_congr eq h y p hyp]
    · have hpy : eq p y = false := by
        cases hx : eq p y with
        | false => rfl
        | true => exact absurd (h.symm p y hx) hyp
      simp only [hyp, hpy, Bool.false_eq_true, if_false]
      rw [ih y]

/-- `slices.CompactFunc` (compares neighbours) and the iterator's `CompactFunc` (compares with the
last item kept) agree when `eq` is an equivalence. -/
theorem compactFunc_eq (zero : α) (eq : α → α → Bool) (h : Seq.Equiv eq) (l : List α) :
    XSlices.compactFunc zero eq l = Seq.compact eq l := by
  rw [compactFunc_items]
  cases l with
  | nil => rfl
  | cons a l => simp only [Stdlib.compactBy, Seq.compact, Seq.compactGo]; rw [stdCompactGo_eq eq h]

/-- `xslices.Compact` = `xslices.CompactFunc` with `==` -/
theorem compact_items [DecidableEq α] (zero : α) (l : List α) :
    XSlices.compact zero l = XSlices.compactFunc zero (fun a b => decide (a = b)) l := rfl

/-- `xslices.Filter` = `slices.DeleteFunc(slices.Clone(s), !keep)` -/
theorem filter_eq (zero : α) (keep : α → Bool) (l : List α) : XSlices.filter zero keep l = l.filter keep := by
  show (Stdlib.Sl.shrinkTo zero (Stdlib.clone (Stdlib.Sl.ofList l)) _).items = _
  rw [Helpers.items_shrinkTo, Helpers.items_clone, items_ofList]
  simp

theorem join_eq (zero : α) (ls : List (List α)) : XSlices.join zero ls = some ls.flatten := by
  simp [XSlices.join, Helpers.join_eq]

theorem map_eq (zero : β) (f : α → β) (l : List α) : XSlices.map zero f l = some (l.map f) := Helpers.map_eq zero f l

theorem reduce_eq (zero : β) (f : β → α → β) (init : β) (l : List α) : XSlices.reduce zero f init l = l.foldl f init :=
  Helpers.reduce_eq zero l init f

theorem repeat_eq (zero a : α) (n : Int) :
    XSlices.repeat_ zero a n =
      if n < 0 then none else if n > Stdlib.allocLimit then none else some (List.replicate n.toNat a) :=
  Helpers.repeatN_eq zero a n

theorem equal_eq [DecidableEq α] (a b : List α) : XSlices.equal a b = decide (a = b) := by
  simp [XSlices.equal, Helpers.equal, Gen.Helpers.equalW, Stdlib.equal, items_ofList]

end Juniper.Proofs.XS
