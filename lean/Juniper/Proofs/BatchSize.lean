import Juniper.Proofs.BatchBase
/-!
C11 helper lemmas, fifth invariant (`Batch` only: `full` is the generated `len(batch) >= batchSize`):
no batch ever exceeds `batchSize`, and a batch flushed because it was full has exactly `batchSize` items.
-/
namespace Juniper.Proofs.Batch
open Juniper.Model.Batch

theorem batchFull_nat (len n : Nat) : Gen.Batch.batchFull (len : Int) (n : Int) = decide (n ≤ len) := by
  simp only [Gen.Batch.batchFull, ge_iff_le, Int.ofNat_le]

/-- `cfg` is a `Batch` configuration with `batchSize = n ≥ 1`. -/
def SizeCfg (cfg : Cfg) (n : Nat) : Prop :=
  1 ≤ n ∧ ∀ b r, cfg.fullOK b r = true → r = decide (n ≤ b.length)

theorem sizeCfg_ofBatch (mw n : Nat) (hn : 1 ≤ n) : SizeCfg (Cfg.ofBatch mw n) n := by
  refine ⟨hn, ?_⟩
  intro b r h
  simp only [Cfg.ofBatch, batchFull_nat, beq_iff_eq] at h
  exact h

structure Inv5 (n : Nat) (cfg : Cfg) (s : State) : Prop where
  s1 : s.batch.length ≤ n
  s2 : s.bpc = .sel → s.batch.length < n
  s3 : ∀ d ∈ s.delivered, d.items.length ≤ n
  s4 : ∀ d ∈ s.delivered, d.reason = .full → d.items.length = n
  s5 : s.bpc = .flush .full → s.batch.length = n

theorem inv5_init {cfg : Cfg} {n : Nat} (hn : SizeCfg cfg n) : Inv5 n cfg init := by
  obtain ⟨h1, _⟩ := hn
  constructor <;> simp [init] <;> omega

theorem inv5_srcRet {cfg : Cfg} {s s' : State} (ev : _) {n : Nat} (hn : SizeCfg cfg n) (hi : Inv5 n cfg s)
    (h : step good cfg s (.srcRet ev) = some s') : Inv5 n cfg s' := by
  obtain ⟨s1, s2, s3, s4, s5⟩ := hi
  obtain ⟨hn1, hn2⟩ := hn
  unfold_step at h <;> (repeat' split at h) <;> cases h <;> close_inv

theorem inv5_srcCancelErr {cfg : Cfg} {s s' : State} (w : _) {n : Nat} (hn : SizeCfg cfg n) (hi : Inv5 n cfg s)
    (h : step good cfg s (.srcCancelErr w) = some s') : Inv5 n cfg s' := by
  obtain ⟨s1, s2, s3, s4, s5⟩ := hi
  obtain ⟨hn1, hn2⟩ := hn
  unfold_step at h <;> (repeat' split at h) <;> cases h <;> close_inv

theorem inv5_nextCall {cfg : Cfg} {s s' : State} (live : _) {n : Nat} (hn : SizeCfg cfg n) (hi : Inv5 n cfg s)
    (h : step good cfg s (.nextCall live) = some s') : Inv5 n cfg s' := by
  obtain ⟨s1, s2, s3, s4, s5⟩ := hi
  obtain ⟨hn1, hn2⟩ := hn
  unfold_step at h <;> (repeat' split at h) <;> cases h <;> close_inv

theorem inv5_ctxExpire {cfg : Cfg} {s s' : State} {n : Nat} (hn : SizeCfg cfg n) (hi : Inv5 n cfg s)
    (h : step good cfg s (.ctxExpire) = some s') : Inv5 n cfg s' := by
  obtain ⟨s1, s2, s3, s4, s5⟩ := hi
  obtain ⟨hn1, hn2⟩ := hn
  unfold_step at h <;> (repeat' split at h) <;> cases h <;> close_inv

theorem inv5_tick {cfg : Cfg} {s s' : State} (d : _) {n : Nat} (hn : SizeCfg cfg n) (hi : Inv5 n cfg s)
    (h : step good cfg s (.tick d) = some s') : Inv5 n cfg s' := by
  obtain ⟨s1, s2, s3, s4, s5⟩ := hi
  obtain ⟨hn1, hn2⟩ := hn
  unfold_step at h <;> (repeat' split at h) <;> cases h <;> close_inv

theorem inv5_close {cfg : Cfg} {s s' : State} {n : Nat} (hn : SizeCfg cfg n) (hi : Inv5 n cfg s)
    (h : step good cfg s (.close) = some s') : Inv5 n cfg s' := by
  obtain ⟨s1, s2, s3, s4, s5⟩ := hi
  obtain ⟨hn1, hn2⟩ := hn
  unfold_step at h <;> (repeat' split at h) <;> cases h <;> close_inv

theorem inv5_bgEnds {cfg : Cfg} {s s' : State} {n : Nat} (hn : SizeCfg cfg n) (hi : Inv5 n cfg s)
    (h : step good cfg s (.bgEnds) = some s') : Inv5 n cfg s' := by
  obtain ⟨s1, s2, s3, s4, s5⟩ := hi
  obtain ⟨hn1, hn2⟩ := hn
  unfold_step at h <;> (repeat' split at h) <;> cases h <;> close_inv

theorem inv5_prodCancelled {cfg : Cfg} {s s' : State} {n : Nat} (hn : SizeCfg cfg n) (hi : Inv5 n cfg s)
    (h : step good cfg s (.prodCancelled) = some s') : Inv5 n cfg s' := by
  obtain ⟨s1, s2, s3, s4, s5⟩ := hi
  obtain ⟨hn1, hn2⟩ := hn
  unfold_step at h <;> (repeat' split at h) <;> cases h <;> close_inv

theorem inv5_prodSend {cfg : Cfg} {s s' : State} {n : Nat} (hn : SizeCfg cfg n) (hi : Inv5 n cfg s)
    (h : step good cfg s (.prodSend) = some s') : Inv5 n cfg s' := by
  obtain ⟨s1, s2, s3, s4, s5⟩ := hi
  obtain ⟨hn1, hn2⟩ := hn
  unfold_step at h <;> (repeat' split at h) <;> cases h <;> close_inv

theorem inv5_prodSendCancel {cfg : Cfg} {s s' : State} {n : Nat} (hn : SizeCfg cfg n) (hi : Inv5 n cfg s)
    (h : step good cfg s (.prodSendCancel) = some s') : Inv5 n cfg s' := by
  obtain ⟨s1, s2, s3, s4, s5⟩ := hi
  obtain ⟨hn1, hn2⟩ := hn
  unfold_step at h <;> (repeat' split at h) <;> cases h <;> close_inv

theorem inv5_prodCloseC {cfg : Cfg} {s s' : State} {n : Nat} (hn : SizeCfg cfg n) (hi : Inv5 n cfg s)
    (h : step good cfg s (.prodCloseC) = some s') : Inv5 n cfg s' := by
  obtain ⟨s1, s2, s3, s4, s5⟩ := hi
  obtain ⟨hn1, hn2⟩ := hn
  unfold_step at h <;> (repeat' split at h) <;> cases h <;> close_inv

theorem inv5_prodCloseSrc {cfg : Cfg} {s s' : State} {n : Nat} (hn : SizeCfg cfg n) (hi : Inv5 n cfg s)
    (h : step good cfg s (.prodCloseSrc) = some s') : Inv5 n cfg s' := by
  obtain ⟨s1, s2, s3, s4, s5⟩ := hi
  obtain ⟨hn1, hn2⟩ := hn
  unfold_step at h <;> (repeat' split at h) <;> cases h <;> close_inv

theorem inv5_fullRet {cfg : Cfg} {s s' : State} (b : _) {n : Nat} (hn : SizeCfg cfg n) (hi : Inv5 n cfg s)
    (h : step good cfg s (.fullRet b) = some s') : Inv5 n cfg s' := by
  obtain ⟨s1, s2, s3, s4, s5⟩ := hi
  obtain ⟨hn1, hn2⟩ := hn
  unfold_step at h
  split at h
  · rename_i hg
    have hb := hn2 _ _ hg.2
    have hb' : (b = true ↔ n ≤ s.batch.length) := by rw [hb]; simp
    clear hb hn2
    obtain ⟨hg1, -⟩ := hg
    (repeat' split at h) <;> cases h <;> (constructor <;> (try simp_all) <;> (try omega) <;> grind)
  · cases h

theorem inv5_recvCClosed {cfg : Cfg} {s s' : State} {n : Nat} (hn : SizeCfg cfg n) (hi : Inv5 n cfg s)
    (h : step good cfg s (.recvCClosed) = some s') : Inv5 n cfg s' := by
  obtain ⟨s1, s2, s3, s4, s5⟩ := hi
  obtain ⟨hn1, hn2⟩ := hn
  unfold_step at h <;> (repeat' split at h) <;> cases h <;> close_inv

theorem inv5_recvTimer {cfg : Cfg} {s s' : State} {n : Nat} (hn : SizeCfg cfg n) (hi : Inv5 n cfg s)
    (h : step good cfg s (.recvTimer) = some s') : Inv5 n cfg s' := by
  obtain ⟨s1, s2, s3, s4, s5⟩ := hi
  obtain ⟨hn1, hn2⟩ := hn
  unfold_step at h <;> (repeat' split at h) <;> cases h <;> close_inv

theorem inv5_flushAbort {cfg : Cfg} {s s' : State} {n : Nat} (hn : SizeCfg cfg n) (hi : Inv5 n cfg s)
    (h : step good cfg s (.flushAbort) = some s') : Inv5 n cfg s' := by
  obtain ⟨s1, s2, s3, s4, s5⟩ := hi
  obtain ⟨hn1, hn2⟩ := hn
  unfold_step at h <;> (repeat' split at h) <;> cases h <;> close_inv

theorem inv5_batchExit {cfg : Cfg} {s s' : State} {n : Nat} (hn : SizeCfg cfg n) (hi : Inv5 n cfg s)
    (h : step good cfg s (.batchExit) = some s') : Inv5 n cfg s' := by
  obtain ⟨s1, s2, s3, s4, s5⟩ := hi
  obtain ⟨hn1, hn2⟩ := hn
  unfold_step at h <;> (repeat' split at h) <;> cases h <;> close_inv

theorem inv5_announce {cfg : Cfg} {s s' : State} {n : Nat} (hn : SizeCfg cfg n) (hi : Inv5 n cfg s)
    (h : step good cfg s (.announce) = some s') : Inv5 n cfg s' := by
  obtain ⟨s1, s2, s3, s4, s5⟩ := hi
  obtain ⟨hn1, hn2⟩ := hn
  unfold_step at h <;> (repeat' split at h) <;> cases h <;> close_inv

theorem inv5_deliver {cfg : Cfg} {s s' : State} {n : Nat} (hn : SizeCfg cfg n) (hi : Inv5 n cfg s)
    (h : step good cfg s (.deliver) = some s') : Inv5 n cfg s' := by
  obtain ⟨s1, s2, s3, s4, s5⟩ := hi
  obtain ⟨hn1, hn2⟩ := hn
  unfold_step at h <;> (repeat' split at h) <;> cases h <;> close_inv

theorem inv5_consClosed {cfg : Cfg} {s s' : State} {n : Nat} (hn : SizeCfg cfg n) (hi : Inv5 n cfg s)
    (h : step good cfg s (.consClosed) = some s') : Inv5 n cfg s' := by
  obtain ⟨s1, s2, s3, s4, s5⟩ := hi
  obtain ⟨hn1, hn2⟩ := hn
  unfold_step at h <;> (repeat' split at h) <;> cases h <;> close_inv

theorem inv5_consCtx {cfg : Cfg} {s s' : State} {n : Nat} (hn : SizeCfg cfg n) (hi : Inv5 n cfg s)
    (h : step good cfg s (.consCtx) = some s') : Inv5 n cfg s' := by
  obtain ⟨s1, s2, s3, s4, s5⟩ := hi
  obtain ⟨hn1, hn2⟩ := hn
  unfold_step at h <;> (repeat' split at h) <;> cases h <;> close_inv

theorem inv5_timerExpire {cfg : Cfg} {s s' : State} {n : Nat} (hn : SizeCfg cfg n) (hi : Inv5 n cfg s)
    (h : step good cfg s (.timerExpire) = some s') : Inv5 n cfg s' := by
  obtain ⟨s1, s2, s3, s4, s5⟩ := hi
  obtain ⟨hn1, hn2⟩ := hn
  unfold_step at h <;> (repeat' split at h) <;> cases h <;> close_inv

theorem inv5_closeReturn {cfg : Cfg} {s s' : State} {n : Nat} (hn : SizeCfg cfg n) (hi : Inv5 n cfg s)
    (h : step good cfg s (.closeReturn) = some s') : Inv5 n cfg s' := by
  obtain ⟨s1, s2, s3, s4, s5⟩ := hi
  obtain ⟨hn1, hn2⟩ := hn
  unfold_step at h <;> (repeat' split at h) <;> cases h <;> close_inv

theorem inv5_step {cfg : Cfg} {s s' : State} {l : Label} {n : Nat} (hn : SizeCfg cfg n) (hi : Inv5 n cfg s)
    (h : step good cfg s l = some s') : Inv5 n cfg s' := by
  cases l with
  | srcRet ev => exact inv5_srcRet ev hn hi h
  | srcCancelErr w => exact inv5_srcCancelErr w hn hi h
  | nextCall live => exact inv5_nextCall live hn hi h
  | ctxExpire => exact inv5_ctxExpire hn hi h
  | tick d => exact inv5_tick d hn hi h
  | close => exact inv5_close hn hi h
  | bgEnds => exact inv5_bgEnds hn hi h
  | prodCancelled => exact inv5_prodCancelled hn hi h
  | prodSend => exact inv5_prodSend hn hi h
  | prodSendCancel => exact inv5_prodSendCancel hn hi h
  | prodCloseC => exact inv5_prodCloseC hn hi h
  | prodCloseSrc => exact inv5_prodCloseSrc hn hi h
  | fullRet b => exact inv5_fullRet b hn hi h
  | recvCClosed => exact inv5_recvCClosed hn hi h
  | recvTimer => exact inv5_recvTimer hn hi h
  | flushAbort => exact inv5_flushAbort hn hi h
  | batchExit => exact inv5_batchExit hn hi h
  | announce => exact inv5_announce hn hi h
  | deliver => exact inv5_deliver hn hi h
  | consClosed => exact inv5_consClosed hn hi h
  | consCtx => exact inv5_consCtx hn hi h
  | timerExpire => exact inv5_timerExpire hn hi h
  | closeReturn => exact inv5_closeReturn hn hi h

theorem inv5_reach {cfg : Cfg} {n : Nat} (hn : SizeCfg cfg n) {s : State} (h : Reach good cfg s) : Inv5 n cfg s := by
  induction h with
  | init => exact inv5_init hn
  | step l hr hs ih => exact inv5_step hn ih hs

end Juniper.Proofs.Batch
