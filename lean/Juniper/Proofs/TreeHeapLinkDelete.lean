import Juniper.Proofs.TreeHeapLinkDelSim
/-!
# Linking the two B-tree models (C03): `Delete` on related states, histories

`delete_sim`: on related states the heap model's `Delete` does not crash and the results are related
again. `refines_runMuts`: hence every `Put` / `Delete` history from the empty tree runs without a crash
on the heap model and ends in a state related to the functional tree.
-/
namespace Juniper.Proofs.TreeHeapLink
open Juniper Juniper.Model.BTree Juniper.Model.BTreeSlotsOps Juniper.Proofs.Tree Juniper.Proofs.TreeSlotsOps

variable {K V : Type}

theorem descend_congr (cmp : K → K → Int) (k : K) {h h' : Heap K V} (hg : ∀ j, h'.get j = h.get j) :
    ∀ (fuel c : Nat), Heap.descend cmp k h' fuel c = Heap.descend cmp k h fuel c
  | 0, c => by simp [Heap.descend]
  | fuel + 1, c => by
    rw [Heap.descend, Heap.descend]
    simp only [bind, pure, hg]
    cases h.get c with
    | none => rfl
    | some x =>
      simp only [Option.bind_some]
      cases Heap.searchNode cmp k x with
      | none => rfl
      | some r =>
        simp only [Option.bind_some]
        split
        · rfl
        · split
          · rfl
          · cases x.kids[r.1]? with
            | none => rfl
            | some c' =>
              cases c' with
              | none => rfl
              | some c'' => simp only [Option.bind_some]; exact descend_congr cmp k hg fuel c''

/-- `size--; gen++` -/
def bumpDel (h : Heap K V) : Heap K V :=
  { h with size := bumpIf Gen.Tree.deleteDecSize h.size (-1), gen := bumpIf Gen.Tree.deleteBumpsGen h.gen 1 }

theorem delete_unfold (cmp : K → K → Int) (h : Heap K V) (k : K) {curr idx : Nat} {found : Bool} {xs : SNode K V Nat}
    (hd : Heap.descend cmp k h (h.nodes.length + 1) h.root = some (curr, idx, found)) (hx : h.get curr = some xs) :
    h.delete cmp k =
      if found then delAt (h.nodes.length + 1) (h.nodes.length + 1) (bumpDel h) curr idx xs else some h := by
  unfold Heap.delete
  simp only [bind, pure, hd, Option.bind_some]
  cases found with
  | false => simp [Gen.Tree.deleteMissReturnsFirst]  -- `if curr.leaf() { return }` comes first
  | true =>
    have hx' : (bumpDel h).get curr = some xs := hx
    simp only [bumpDel] at hx'
    simp only [Bool.not_true, Bool.false_eq_true, if_false, hx', Option.bind_some, if_true]
    rfl

theorem finish_root_false {id : Nat} {kvs : List (K × V)} {kids : List (Node K V)} {j : Nat} {x' : Node K V} {u : Bool}
    (h : finish id id kvs kids j = .done x' u) : u = false := by
  unfold finish at h
  split at h
  · cases h
  · cases h; rfl
  · have hrc : Gen.Tree.mergeRootCheck (id : Int) (id : Int) = true := by simp [Gen.Tree.mergeRootCheck]
    simp only [hrc, if_true] at h
    split at h
    · split at h
      · split at h
        · cases h; rfl
        · cases h
      · cases h; rfl
    · cases h; rfl

theorem del_root_false (cmp : K → K → Int) (k : K) {id : Nat} {kvs : List (K × V)} {kids : List (Node K V)}
    {x' : Node K V} {u : Bool} (h : del cmp k id (.mk id kvs kids) = .done x' u) : u = false := by
  unfold del at h
  split at h
  · split at h
    · cases h
      simp [Gen.Tree.deleteMerges]
    · split at h
      · cases h
      · split at h
        · cases h
        · split at h
          · cases h; rfl
          · exact finish_root_false h
  · split at h
    · cases h
    · split at h
      · cases h
      · split at h
        · cases h
        · cases h
        · split at h
          · cases h; rfl
          · exact finish_root_false h

/-- `Delete` on related states: the heap model does not crash and the results are related again -/
theorem delete_sim (cmp : K → K → Int) {h : Heap K V} {t : Tree K V} (hrel : Rel h t) (hb : BalTree t) (k : K) :
    ∃ h' t', delete cmp t k = some t' ∧ h.delete cmp k = some h' ∧ Rel h' t' := by
  obtain ⟨ht, hbal, hmax, hroot⟩ := hb
  have hcnt := hrel.cnt_le
  have hfuel := hrel.height_le hbal
  obtain ⟨tp, hdel, _⟩ := bal_delete cmp t k ⟨ht, hbal, hmax, hroot⟩ hrel.ids.1
  have hidsOK := idsOK_delete cmp t tp k hrel.ids hdel
  suffices hsuff : ∃ h', h.delete cmp k = some h' ∧ Rel h' tp by
    obtain ⟨h', h1, h2⟩ := hsuff
    exact ⟨h', tp, hdel, h1, h2⟩
  have hpre : DelPre t.root.id ht true t.root := by
    refine ⟨hbal, hmax, ?_, fun _ => ⟨rfl, hroot⟩, (by intro e; cases e)⟩
    intro c hc
    have := root_kids_noid hcnt c hc
    intro hm
    have := mem_ids_iff_cnt.mp hm
    omega
  have hsim := del_sim cmp k t.root.id t.root ht true (bumpDel h) none hpre hrel.root hcnt hrel.sub (fun _ => rfl)
  have hdc : ∀ fuel c, Heap.descend cmp k (bumpDel h) fuel c = Heap.descend cmp k h fuel c :=
    descend_congr cmp k (fun _ => rfl)
  unfold delete at hdel
  cases hres : del cmp k t.root.id t.root with
  | crash => rw [hres] at hsim; exact hsim.elim
  | absent =>
    rw [hres] at hsim hdel
    simp only [Gen.Tree.deleteMissReturnsFirst, if_true, Option.some.injEq] at hdel
    subst hdel
    simp only [DelSim] at hsim
    obtain ⟨curr, idx, hdesc⟩ := hsim
    have hd := hdesc (h.nodes.length + 1) (by show ht + 1 ≤ h.nodes.length + 1; omega)
    rw [hdc, ← hrel.root] at hd
    -- the node the descent ends at exists (it was read by the descent)
    have hx : ∃ xs, h.get curr = some xs := by
      cases hg : h.get curr with
      | some xs => exact ⟨xs, rfl⟩
      | none =>
        exfalso
        exact absurd hd (by
          intro hd'
          -- `descend` returns only nodes it has read
          have : ∀ fuel c, Heap.descend cmp k h fuel c = some (curr, idx, false) → (h.get curr).isSome := by
            intro fuel
            induction fuel with
            | zero => intro c hc; simp [Heap.descend] at hc
            | succ f ih =>
              intro c hc
              rw [Heap.descend] at hc
              simp only [bind, pure] at hc
              obtain ⟨x, hxc, hc⟩ := Option.bind_eq_some_iff.mp hc
              obtain ⟨r, hr, hc⟩ := Option.bind_eq_some_iff.mp hc
              split at hc
              · simp at hc
              · split at hc
                · simp only [Option.some.injEq, Prod.mk.injEq] at hc
                  rw [← hc.1, hxc]; rfl
                · obtain ⟨c1, _, hc⟩ := Option.bind_eq_some_iff.mp hc
                  obtain ⟨c2, _, hc⟩ := Option.bind_eq_some_iff.mp hc
                  exact ih c2 hc
          have := this _ _ hd'
          rw [hg] at this
          cases this)
    obtain ⟨xs, hx⟩ := hx
    exact ⟨h, by rw [delete_unfold cmp h k hd hx]; simp, hrel⟩
  | done r u =>
    rw [hres] at hsim hdel
    simp only [Option.some.injEq] at hdel
    subst hdel
    have hu : u = false := by
      obtain ⟨⟨id, kvs, kids⟩, size, gen, nextId⟩ := t
      exact del_root_false cmp k hres
    subst hu
    simp only [DelSim, AfterSim, Bool.false_eq_true, if_false] at hsim
    obtain ⟨curr, idx, xs, h2, lf, n, hdesc, hxs, hdl, h3, hsub3, hfr3, hl3, hs3, hg3, hr3, hid3, htl⟩ := hsim
    have hd := hdesc (h.nodes.length + 1) (by show ht + 1 ≤ h.nodes.length + 1; omega)
    rw [hdc, ← hrel.root] at hd
    refine ⟨h3, ?_, ?_⟩
    · rw [delete_unfold cmp h k hd hxs, if_pos rfl, hdl _ _ (by omega)]
      exact htl _ (by omega)
    · refine ⟨?_, ?_, ?_, ?_, hsub3, hidsOK⟩
      · rw [hr3]
        have : t.root.id = (bumpDel h).root := hrel.root.symm
        rw [if_pos this]
      · show t.nextId = h3.nodes.length
        rw [hl3]; exact hrel.next
      · show h3.size = _
        rw [hs3]
        show bumpIf Gen.Tree.deleteDecSize h.size (-1) = _
        rw [hrel.size]
        simp only [bumpIf]
        split <;> rfl
      · show h3.gen = _
        rw [hg3]
        show bumpIf Gen.Tree.deleteBumpsGen h.gen 1 = _
        rw [hrel.gen]
        simp only [bumpIf, bump]
        split <;> simp

/-! ## histories -/

/-- the same history for the heap model -/
def toHeapMut : Juniper.Proofs.Tree.Mut K V → Heap.Mut K V
  | .put k v => .put k v
  | .del k => .del k

/-- every `Put` / `Delete` history keeps the two models in step (and the heap model never crashes) -/
theorem refines_runMuts (cmp : K → K → Int) : ∀ (ms : List (Juniper.Proofs.Tree.Mut K V)) (h : Heap K V) (t : Tree K V),
    Rel h t → BalTree t →
    ∃ h' t', runMuts cmp t ms = some t' ∧ Heap.runMuts cmp h (ms.map toHeapMut) = some h' ∧ Rel h' t' ∧ BalTree t'
  | [], h, t, hr, hb => ⟨h, t, rfl, rfl, hr, hb⟩
  | .put k v :: ms, h, t, hr, hb => by
    obtain ⟨h1, t1, hp, hhp, hr1⟩ := put_sim cmp hr hb k v
    obtain ⟨t1', hp', hb1⟩ := bal_put cmp t k v hb
    rw [hp] at hp'; cases hp'
    obtain ⟨h', t', h1', h2', h3', h4'⟩ := refines_runMuts cmp ms h1 t1 hr1 hb1
    refine ⟨h', t', ?_, ?_, h3', h4'⟩
    · simp only [runMuts, applyMut, hp]; exact h1'
    · simp only [List.map_cons, toHeapMut, Heap.runMuts, hhp, Option.bind_some]; exact h2'
  | .del k :: ms, h, t, hr, hb => by
    obtain ⟨h1, t1, hp, hhp, hr1⟩ := delete_sim cmp hr hb k
    obtain ⟨t1', hp', hb1⟩ := bal_delete cmp t k hb hr.ids.1
    rw [hp] at hp'; cases hp'
    obtain ⟨h', t', h1', h2', h3', h4'⟩ := refines_runMuts cmp ms h1 t1 hr1 hb1
    refine ⟨h', t', ?_, ?_, h3', h4'⟩
    · simp only [runMuts, applyMut, hp]; exact h1'
    · simp only [List.map_cons, toHeapMut, Heap.runMuts, hhp, Option.bind_some]; exact h2'

/-- the inverse renaming of histories -/
theorem toHeapMut_surj (ms : List (Heap.Mut K V)) : ∃ ms' : List (Juniper.Proofs.Tree.Mut K V), ms'.map toHeapMut = ms := by
  induction ms with
  | nil => exact ⟨[], rfl⟩
  | cons m ms ih =>
    obtain ⟨ms', h⟩ := ih
    cases m with
    | put k v => exact ⟨.put k v :: ms', by simp [toHeapMut, h]⟩
    | del k => exact ⟨.del k :: ms', by simp [toHeapMut, h]⟩

end Juniper.Proofs.TreeHeapLink
