import Juniper.Model.ParWrap
import Juniper.Proofs.ParDoFinal
/-! Invariants of the wrapper LTS of `parallel.Map` / `MapContext` (`Model/ParWrap.lean`): every reachable
wrapper state projects to a reachable state of the callee's LTS, the calls of the user's `f` are the
callee's calls of the callback (same order, same context state) on the positional element, `out` holds at
position `i` what the call for index `i` returned, no index expression leaves its slice, and the wrapper
returns `out` / `nil, err` as its `return` statements say. -/
set_option linter.unusedSimpArgs false
set_option linter.unusedVariables false

namespace Juniper.Proofs.ParWrap
open Juniper.Gen Juniper.Model.ParDo Juniper.Model.ParWrap Juniper.Proofs.ParDo

/-- `wrapper_sound hw` proves `w.Sound false` from `hw : w = mapWrapper` resp. `w.Sound true` from
`hw : w = mapContextWrapper` by evaluating the regenerated definitions, the wrapper's control skeleton
(`skeleton`) among them. As for `pardo_sound` there is no closed lemma in `Proofs/`: the property theorems run it. -/
syntax "wrapper_sound " term : tactic
macro_rules
  | `(tactic| wrapper_sound $hw:term) =>
    `(tactic| (rw [$hw:term]; constructor <;> pardo_tie_field))

variable {α : Type}

theorem sound_code {w : Wrapper} {ctx : Bool} (h : w.Sound ctx) : w.code = if ctx then dcCode else doCode := by
  have := h.callee
  cases ctx <;> simp [Wrapper.code, calleeCode, this] <;> decide

theorem sound_ctxMode {w : Wrapper} {ctx : Bool} (h : w.Sound ctx) : w.code.ctxMode = ctx := by
  rw [sound_code h]; cases ctx <;> rfl

theorem sound_codes {w : Wrapper} {ctx : Bool} (h : w.Sound ctx) : w.code = doCode ∨ w.code = dcCode := by
  rw [sound_code h]; cases ctx <;> simp

theorem cfg_n {wc : WCfg α} {ctx : Bool} (h : wc.w.Sound ctx) : wc.cfg.n = wc.inp.length := by
  simp [WCfg.cfg, h.n]

/-- a wrapper step is a step of the callee (or leaves the callee's state alone) -/
theorem wstep_core {wc : WCfg α} {s s' : WSt α} {l : Label} (h : wstep wc s l = some s') :
    s'.core = s.core ∨ step wc.cfg s.core l = some s'.core := by
  unfold wstep at h
  split at h
  · simp at h
  · cases l with
    | callerCancel =>
      simp only at h
      split at h
      · simp at h
      · split at h
        · cases hc : step wc.cfg s.core .callerCancel with
          | none => simp [hc] at h
          | some c => simp [hc] at h; subst h; exact Or.inr rfl
        · simp at h; subst h; exact Or.inl rfl
    | «begin» w =>
      simp only at h
      split at h
      · next c i hc hw =>
        split at h
        · simp at h; subst h; exact Or.inr hc
        · simp at h; subst h; exact Or.inl rfl
      · simp at h
    | fEnd w r =>
      simp only at h
      split at h
      · next c i hc hw =>
        split at h
        · split at h <;> (simp at h; subst h; exact Or.inr hc)
        · simp at h; subst h; exact Or.inr hc
      · simp at h
    | ret =>
      simp only at h
      split at h
      · next c hc => simp at h; subst h; exact Or.inr hc
      · simp at h
    | fetch w | check w | egDone w =>
      simp only at h
      cases hc : step wc.cfg s.core _ with
      | none => simp [hc] at h
      | some c => simp [hc] at h; subst h; exact Or.inr rfl

theorem core_reach {wc : WCfg α} {s : WSt α} (h : WReach wc s) : Reach wc.cfg s.core := by
  induction h with
  | init => exact Reach.init
  | step _ hst ih =>
    rcases wstep_core hst with h | h
    · rw [h]; exact ih
    · exact Reach.step ih h

/-! ### what a step of the callee does to the fields the wrapper looks at -/

theorem init_fields (cfg : Cfg) :
    (init cfg).ended = [] ∧ (init cfg).begun = [] ∧ (init cfg).ret = none ∧ (init cfg).callerCancelled = false := by
  unfold init; split <;> simp

syntax "core_fields " ident : tactic
macro_rules
  | `(tactic| core_fields $h:ident) =>
    `(tactic| (
      (simp only [step] at $h:ident)
      (repeat' split at $h:ident)
      all_goals (try (simp at $h:ident; done))
      all_goals (simp only [Option.some.injEq] at $h:ident; subst $h:ident)
      all_goals simp_all))

theorem step_quiet {cfg : Cfg} {s c : St} {l : Label} (h : step cfg s l = some c)
    (hl : (∃ w, l = .fetch w) ∨ (∃ w, l = .check w) ∨ (∃ w, l = .egDone w)) :
    c.ended = s.ended ∧ c.begun = s.begun ∧ c.ret = s.ret ∧ c.callerCancelled = s.callerCancelled := by
  rcases hl with ⟨w, rfl⟩ | ⟨w, rfl⟩ | ⟨w, rfl⟩ <;> core_fields h

theorem step_begin_fields {cfg : Cfg} {s c : St} {w i : Nat} (h : step cfg s (.begin w) = some c)
    (hw : s.ws[w]? = some (.call i)) :
    c.ended = s.ended ∧ c.begun = s.begun ++ [⟨i, cfg.code.ctxMode && ctxCancelled s⟩] ∧ c.ret = s.ret ∧
      c.callerCancelled = s.callerCancelled := by
  core_fields h

theorem step_fEnd_fields {cfg : Cfg} {s c : St} {w i : Nat} {r : Res} (h : step cfg s (.fEnd w r) = some c)
    (hw : s.ws[w]? = some (.inF i)) :
    c.ended = s.ended ++ [(i, r)] ∧ c.begun = s.begun ∧ c.ret = s.ret ∧ c.callerCancelled = s.callerCancelled := by
  core_fields h

theorem step_ret_fields {cfg : Cfg} {s c : St} (h : step cfg s .ret = some c) :
    c.ended = s.ended ∧ c.begun = s.begun ∧ s.ret = none ∧ (∃ r, c.ret = some r) ∧ c.callerCancelled = s.callerCancelled := by
  core_fields h

theorem step_cancel_fields {cfg : Cfg} {s c : St} (h : step cfg s .callerCancel = some c) :
    c.ended = s.ended ∧ c.begun = s.begun ∧ c.ret = s.ret ∧ c.callerCancelled = true := by
  core_fields h

/-! ### the wrapper invariant -/

/-- the wrapper's `return` statements: `out` (and a nil error) unless the callee failed, then `nil` and
that error -/
def expRet (ctx : Bool) (out : List (Option Nat)) (r : Option Err) : WRet :=
  if ctx && r.isSome then ⟨none, r⟩ else ⟨some out, none⟩

theorem retOf_eq {w : Wrapper} {ctx : Bool} (hws : w.Sound ctx) (out : List (Option Nat)) (r : Option Err) :
    retOf w out r = expRet ctx out r := by
  unfold retOf expRet
  rw [hws.failed, hws.retOk]
  cases ctx with
  | false => simp
  | true =>
    rw [hws.retErr rfl]
    cases r <;> simp

structure WInv (wc : WCfg α) (ctx : Bool) (s : WSt α) : Prop where
  /-- no index expression of the callback has left its slice -/
  P0 : s.panic = false
  O1 : s.out.length = wc.inp.length
  /-- `out[i]` is what the call for index `i` returned -/
  O2 : ∀ i v, (i, Res.ok v) ∈ s.core.ended → s.out[i]? = some (some v)
  /-- the calls of the user's `f` are the callee's calls of the callback: same order, same index, same
  state of the context at entry -/
  C1 : s.calls.map (fun c => (⟨c.idx, c.cancelled⟩ : Begun)) = s.core.begun
  /-- … on the positional element -/
  C2 : ∀ c ∈ s.calls, wc.inp[c.idx]? = some c.arg
  /-- the wrapper returns when the callee does, what its `return` statements say -/
  R : s.wret = s.core.ret.map (expRet ctx s.out)
  CC : ctx = true → s.callerCancelled = s.core.callerCancelled

theorem winv_init {wc : WCfg α} {ctx : Bool} (hws : wc.w.Sound ctx) : WInv wc ctx (winit wc) := by
  have ⟨h1, h2, h3, h4⟩ := init_fields wc.cfg
  refine ⟨rfl, ?_, ?_, ?_, ?_, ?_, ?_⟩ <;> simp [winit, hws.alloc, h1, h2, h3, h4]

theorem getAt_natCast {β} (l : List β) (i : Nat) : getAt l (i : Int) = l[i]? := by
  simp [getAt]; intro h; omega

theorem winv_step {wc : WCfg α} {ctx : Bool} (hws : wc.w.Sound ctx) {s s' : WSt α} {l : Label}
    (h1 : Inv1 wc.cfg s.core) (h2 : Inv2 wc.cfg s.core) (hi : WInv wc ctx s) (h : wstep wc s l = some s') :
    WInv wc ctx s' := by
  have ⟨p0, o1, o2, c1, c2, r, cc⟩ := hi
  have hmode : wc.w.code.ctxMode = ctx := sound_ctxMode hws
  have hn : wc.cfg.n = wc.inp.length := cfg_n hws
  unfold wstep at h
  simp only [p0, Bool.false_eq_true, ↓reduceIte] at h
  cases l with
  | callerCancel =>
    simp only [hws.passesCallerCtx, hmode] at h
    split at h
    · simp at h
    · cases ctx with
      | false => simp_all
      | true =>
        simp only [↓reduceIte] at h
        cases hc : step wc.cfg s.core .callerCancel with
        | none => simp [hc] at h
        | some c =>
          simp [hc] at h; subst h
          have ⟨e1, e2, e3, e4⟩ := step_cancel_fields hc
          exact ⟨rfl, o1, by simpa [e1] using o2, by simpa [e2] using c1, c2, by simpa [e3] using r, fun _ => by simp [e4]⟩
  | «begin» w =>
    simp only at h
    split at h
    · next c i hc hw =>
      have hlt : i < wc.inp.length := hn ▸ pending_call_lt h1 hw
      have ⟨e1, e2, e3, e4⟩ := step_begin_fields hc hw
      rw [hws.readIdx, getAt_natCast] at h
      have hget : wc.inp[i]? = some wc.inp[i] := List.getElem?_eq_getElem hlt
      rw [hget] at h
      simp only [Option.some.injEq] at h; subst h
      refine ⟨rfl, o1, by simpa [e1] using o2, ?_, ?_, by simpa [e3] using r, fun hctx => by simpa [e4] using cc hctx⟩
      · have hcx : (wc.w.code.ctxMode && userCtxCancelled wc s) = (wc.cfg.code.ctxMode && ctxCancelled s.core) := by
          cases ctx with
          | false => simp [WCfg.cfg, hmode]
          | true => simp [WCfg.cfg, userCtxCancelled, hws.ctxSrc rfl]
        simp [e2, c1, hcx]
      · intro c' hc'
        simp at hc'
        rcases hc' with hc' | rfl
        · exact c2 c' hc'
        · exact hget
    · simp at h
  | fEnd w r' =>
    simp only at h
    split at h
    · next c i hc hw =>
      have ⟨hlt, hnot⟩ := running_call_fresh h1 hw
      rw [hn] at hlt
      have ⟨e1, e2, e3, e4⟩ := step_fEnd_fields hc hw
      have hret : s.core.ret = none := by
        cases hr : s.core.ret with
        | none => rfl
        | some x =>
          have hD := h2.D (by simp [hr])
          have := cnt_ge notDone hw
          simp [notDone] at this; omega
      cases r' with
      | ok v =>
        simp only [hws.writeIdx] at h
        have hno : ¬ ((i : Int) < 0 ∨ s.out.length ≤ (i : Int).toNat) := by simp [o1]; omega
        simp only [hno, ↓reduceIte, Option.some.injEq] at h; subst h
        refine ⟨rfl, by simp [o1], ?_, by simpa [e2] using c1, c2, by simp [e3, hret, r], fun hctx => by simpa [e4] using cc hctx⟩
        intro j v' hm
        rw [e1] at hm
        simp at hm
        rcases hm with hm | ⟨rfl, rfl⟩
        · have hji : i ≠ j := by intro hji; subst hji; exact hnot _ hm
          simp [List.getElem?_set_ne hji, o2 j v' hm]
        · simp [o1, hlt]
      | err k =>
        simp only [Option.some.injEq] at h; subst h
        refine ⟨rfl, o1, ?_, by simpa [e2] using c1, c2, by simp [e3, hret, r], fun hctx => by simpa [e4] using cc hctx⟩
        intro j v' hm
        rw [e1] at hm
        simp at hm
        exact o2 j v' hm
    · simp at h
  | ret =>
    simp only at h
    split at h
    · next c hc =>
      simp only [Option.some.injEq] at h; subst h
      have ⟨e1, e2, e3, ⟨r', e4⟩, e5⟩ := step_ret_fields hc
      exact ⟨rfl, o1, by simpa [e1] using o2, by simpa [e2] using c1, c2, by simp [e4, retOf_eq hws],
        fun hctx => by simpa [e5] using cc hctx⟩
    · simp at h
  | fetch w | check w | egDone w =>
    all_goals
      simp only at h
      obtain ⟨c, hc, rfl⟩ := Option.map_eq_some_iff.1 h
      have ⟨e1, e2, e3, e4⟩ := step_quiet hc (by simp)
      exact ⟨rfl, o1, by simpa [e1] using o2, by simpa [e2] using c1, c2, by simpa [e3] using r,
        fun hctx => by simpa [e4] using cc hctx⟩

/-- a call of the user's `f` that begins is logged with the state of the context handed to it -/
theorem wstep_begin_calls {wc : WCfg α} {ctx : Bool} (hws : wc.w.Sound ctx) {s s' : WSt α} {w : Nat}
    (h1 : Inv1 wc.cfg s.core) (hi : WInv wc ctx s) (h : wstep wc s (.begin w) = some s') :
    ∃ i a, s'.calls = s.calls ++ [⟨i, a, wc.w.code.ctxMode && userCtxCancelled wc s⟩] := by
  have hn : wc.cfg.n = wc.inp.length := cfg_n hws
  unfold wstep at h
  simp only [hi.P0, Bool.false_eq_true, ↓reduceIte] at h
  split at h
  · next c i hc hw =>
    have hlt : i < wc.inp.length := hn ▸ pending_call_lt h1 hw
    rw [hws.readIdx, getAt_natCast, List.getElem?_eq_getElem hlt] at h
    simp only [Option.some.injEq] at h; subst h
    exact ⟨i, _, rfl⟩
  · simp at h

theorem winv {wc : WCfg α} {ctx : Bool} (hws : wc.w.Sound ctx) (hs : wc.cfg.code.Sound) {s : WSt α}
    (h : WReach wc s) : WInv wc ctx s := by
  induction h with
  | init => exact winv_init hws
  | step hr hst ih => exact winv_step hws (inv1 hs (core_reach hr)) (inv2 hs (core_reach hr)) ih hst

/-- `wrapper_sound_ex hw` turns `hw : w = mapWrapper ∨ w = mapContextWrapper` into `∃ ctx, w.Sound ctx`
(`ctx = false` for `Map`, `true` for `MapContext`), evaluating the regenerated wrapper facts. -/
syntax "wrapper_sound_ex " term : tactic
macro_rules
  | `(tactic| wrapper_sound_ex $hw:term) =>
    `(tactic| (
      have hww := $hw
      rcases hww with hww | hww
      · exact ⟨false, by wrapper_sound hww⟩
      · exact ⟨true, by wrapper_sound hww⟩))

/-! ### consequences used by the property theorems -/

theorem callCount_eq {wc : WCfg α} {ctx : Bool} {s : WSt α} (hi : WInv wc ctx s) (i : Nat) :
    callCount s i = begunCount s.core i := by
  unfold callCount begunCount
  rw [← hi.C1, List.countP_map]
  rfl

/-- a state of the callee that has returned `nil` is clean: no call failed, no index was skipped -/
theorem clean_of_ret_nil {cfg : Cfg} (hs : cfg.code.Sound) {s : St} (h : Reach cfg s) (hret : s.ret = some none) :
    hasFail s = false ∧ s.skipped = [] := by
  have h2 := inv2 hs h
  have h4 := inv4 hs h
  have hne : s.ret ≠ none := by simp [hret]
  have hD := h2.D hne
  have heg := h2.R hret
  have hre : cnt isRetErr s.ws = 0 := by
    have := countP_le_cnt_notDone isRetErr (by simp [isRetErr]) s.ws
    unfold cnt at *; omega
  by_cases hcl : hasFail s = true ∨ s.skipped ≠ []
  · rcases h4.F1 hcl with h' | h' | ⟨e, h'⟩
    · exact absurd heg h'
    · omega
    · rw [hret] at h'; simp at h'
  · constructor
    · cases hf : hasFail s <;> simp_all
    · cases hk : s.skipped <;> simp_all

/-- `Do` (no context) never returns an error -/
theorem ret_nil_of_noctx {cfg : Cfg} (hs : cfg.code.Sound) (hm : cfg.code.ctxMode = false) {s : St}
    (h : Reach cfg s) {r : Option Err} (hr : s.ret = some r) : r = none := by
  cases r with
  | none => rfl
  | some e =>
    have hM := (inv2 hs h).M hm
    rcases (inv3 hs h).E3 e hr with ⟨k, i, _, hmem⟩ | ⟨_, hc⟩
    · have := hM.2.2.2.2.2 _ hmem; simp [Res.isErr] at this
    · rw [hM.2.1] at hc; simp at hc

/-- what the wrapper has returned, in terms of what the callee returned -/
theorem wret_cases {wc : WCfg α} {ctx : Bool} (hws : wc.w.Sound ctx) (hs : wc.cfg.code.Sound) {s : WSt α}
    (h : WReach wc s) :
    (s.wret = none ↔ s.core.ret = none) ∧
    (∀ o, s.wret = some ⟨o, none⟩ → o = some s.out ∧ s.core.ret = some none) ∧
    (∀ o e, s.wret = some ⟨o, some e⟩ → o = none ∧ ctx = true ∧ s.core.ret = some (some e)) := by
  have hi := winv hws hs h
  have hR := hi.R
  have hnc := fun (hm : ctx = false) r hr =>
    ret_nil_of_noctx hs (by rw [← hm]; exact sound_ctxMode hws) (core_reach h) (r := r) hr
  cases hr : s.core.ret with
  | none => simp [hR, hr]
  | some r =>
    cases r with
    | none => simp [hR, hr, expRet]
    | some e =>
      cases ctx with
      | false => have := hnc rfl _ hr; simp at this
      | true => simp [hR, hr, expRet]

end Juniper.Proofs.ParWrap
