import Juniper.Proofs.ParMapBasic
/-! Counting infrastructure for the MapStream / MapIterator invariants: number of workers in a class of
program counters, occurrences of an index in a list of `(index, value)` pairs — kept behind opaque
definitions so that `simp` does not rewrite the counts into quantified statements. -/
set_option linter.unusedSimpArgs false
set_option linter.unusedVariables false

namespace Juniper.Proofs.ParMap
open Juniper.Gen Juniper.Facts Juniper.Model.ParMap

/-- number of elements satisfying `p` (opaque to `simp`) -/
def cnt {α} (p : α → Bool) (l : List α) : Nat := l.countP p

theorem countP_set_eq {α} (p : α → Bool) (l : List α) (w : Nat) (a b : α) (h : l[w]? = some b) :
    (l.set w a).countP p + (if p b then 1 else 0) = l.countP p + (if p a then 1 else 0) := by
  induction l generalizing w with
  | nil => simp at h
  | cons x xs ih =>
    cases w with
    | zero =>
      simp at h; subst h
      simp [List.countP_cons]; omega
    | succ w =>
      simp at h
      have := ih w h
      simp [List.countP_cons]; omega

theorem cnt_ge {α} (p : α → Bool) {l : List α} {w : Nat} {b : α} (h : l[w]? = some b) :
    (if p b then 1 else 0) ≤ cnt p l := by
  unfold cnt
  split
  · apply List.countP_pos_iff.2
    exact ⟨b, List.mem_of_getElem? h, by assumption⟩
  · omega

theorem cnt_set {α} {p : α → Bool} {l : List α} {w : Nat} {a b : α} (h : l[w]? = some b) :
    cnt p (l.set w a) = cnt p l - (if p b then 1 else 0) + (if p a then 1 else 0) := by
  have h1 := countP_set_eq p l w a b h
  have h2 := cnt_ge p h
  unfold cnt at *
  omega

@[simp] theorem cnt_nil {α} (p : α → Bool) : cnt p [] = 0 := rfl
@[simp] theorem cnt_replicate {α} (p : α → Bool) (a : α) (n : Nat) :
    cnt p (List.replicate n a) = if p a then n else 0 := by
  simp [cnt, List.countP_replicate]
@[simp] theorem cnt_snoc {α} (p : α → Bool) (l : List α) (a : α) :
    cnt p (l ++ [a]) = cnt p l + if p a then 1 else 0 := by
  simp [cnt, List.countP_append, List.countP_cons]
@[simp] theorem cnt_cons {α} (p : α → Bool) (l : List α) (a : α) :
    cnt p (a :: l) = cnt p l + if p a then 1 else 0 := by
  simp [cnt, List.countP_cons]

theorem cnt_le_length {α} (p : α → Bool) (l : List α) : cnt p l ≤ l.length := List.countP_le_length

theorem cnt_add_cnt_not {α} (p : α → Bool) (l : List α) : cnt p l + cnt (fun x => !p x) l = l.length := by
  unfold cnt
  induction l with
  | nil => simp
  | cons x xs ih => simp only [List.countP_cons, List.length_cons]; cases h : p x <;> simp <;> omega

theorem cnt_add_one_le {α} {p : α → Bool} {l : List α} {w : Nat} {b : α} (hw : l[w]? = some b)
    (hb : p b = false) : cnt p l + 1 ≤ l.length := by
  have h1 := cnt_add_cnt_not p l
  have h2 := cnt_ge (fun x => !p x) hw
  simp [hb] at h2
  omega

theorem cnt_eq_zero {α} {p : α → Bool} {l : List α} (h : cnt p l = 0) : ∀ x ∈ l, p x = false := by
  intro x hx
  unfold cnt at h
  have := List.countP_eq_zero.1 h x hx
  simpa using this

theorem cnt_pos {α} {p : α → Bool} {l : List α} (h : 0 < cnt p l) : ∃ x ∈ l, p x = true := by
  unfold cnt at h
  exact List.countP_pos_iff.1 h

theorem cnt_mono {α} {p q : α → Bool} (h : ∀ x, p x = true → q x = true) (l : List α) : cnt p l ≤ cnt q l := by
  unfold cnt
  exact List.countP_mono_left (fun x _ hx => h x hx)

theorem cnt_eq_length {α} {p : α → Bool} {l : List α} (h : ∀ x ∈ l, p x = true) : cnt p l = l.length := by
  unfold cnt
  exact List.countP_eq_length.2 h

theorem exists_index_of_cnt_pos {α} {p : α → Bool} {l : List α} (h : 0 < cnt p l) :
    ∃ (w : Nat) (x : α), l[w]? = some x ∧ p x = true := by
  obtain ⟨x, hx, hp⟩ := cnt_pos h
  obtain ⟨w, hw⟩ := List.getElem?_of_mem hx
  exact ⟨w, x, hw, hp⟩

end Juniper.Proofs.ParMap
