import Juniper.Proofs.StreamMergeLocal
/-! Helper lemmas for C12 (stream.Merge LTS), part 3: the consumer's `Close`, the WaitGroup count, and
the termination measure after `Close` was requested. -/
set_option linter.unusedSectionVars false
set_option linter.unusedSimpArgs false
set_option linter.unusedVariables false
namespace Juniper.Proofs.StreamMerge
open Juniper.Model.StreamMerge
variable {V : Type}

/-- `Σ f` over a list. -/
def sumBy {α : Type} (f : α → Nat) (l : List α) : Nat := (l.map f).sum

theorem sumBy_set {α : Type} (f : α → Nat) : ∀ (l : List α) (i : Nat) (x y : α), l[i]? = some y →
    sumBy f (l.set i x) + f y = sumBy f l + f x
  | [], i, x, y, h => by simp at h
  | a :: l, 0, x, y, h => by
    simp at h; subst h
    simp [sumBy]; omega
  | a :: l, i + 1, x, y, h => by
    simp at h
    have := sumBy_set f l i x y h
    simp [sumBy] at this ⊢; omega

theorem sumBy_replicate {α : Type} (f : α → Nat) (n : Nat) (a : α) : sumBy f (List.replicate n a) = n * f a := by
  simp [sumBy]

theorem sumBy_pos {α : Type} (f : α → Nat) : ∀ (l : List α), 0 < sumBy f l → ∃ x, x ∈ l ∧ 0 < f x
  | [], h => by simp [sumBy] at h
  | a :: l, h => by
    by_cases ha : 0 < f a
    · exact ⟨a, by simp, ha⟩
    · have : 0 < sumBy f l := by simp [sumBy] at h ⊢; omega
      obtain ⟨x, hx, hfx⟩ := sumBy_pos f l this
      exact ⟨x, by simp [hx], hfx⟩

theorem sumBy_zero {α : Type} (f : α → Nat) (l : List α) (h : sumBy f l = 0) : ∀ x, x ∈ l → f x = 0 := by
  intro x hx
  rcases Nat.eq_zero_or_pos (f x) with h0 | h0
  · exact h0
  · exfalso
    induction l with
    | nil => cases hx
    | cons a l ih =>
      simp [sumBy] at h
      simp at hx
      rcases hx with rfl | hx
      · omega
      · exact ih (by simp [sumBy]; exact h.2) hx

/-- The goroutine has called `wg.Done()`. -/
def pastWg : GPc V → Bool
  | .exiting [] => true
  | .finished => true
  | _ => false

def wgInd (g : G V) : Nat := if pastWg g.pc then 0 else 1

/-- Third group: the consumer's `Close` and the WaitGroup. -/
structure InvD (s : St V) : Prop where
  shape : ∀ rest, s.cpc = .closing rest →
    (rest = [.closeInner, .cancel, .wait]) ∨ (rest = [.cancel, .wait] ∧ s.streamDone = true) ∨
    (rest = [.wait] ∧ s.streamDone = true ∧ s.cancelled = true) ∨
    (rest = [] ∧ s.streamDone = true ∧ s.cancelled = true ∧ s.wg = 0)
  wg : s.wg = sumBy wgInd s.gs

theorem invD_init (k : Nat) : InvD (init V k) := by
  refine ⟨by simp [init], ?_⟩
  simp [init, wgInit_eq, sumBy_replicate, wgInd, pastWg]

/-- a local transition other than `wg.Done()` keeps the WaitGroup indicator -/
theorem trans_wgInd {g g' : G V} (t : Trans g g') (h : LocalOK g) :
    wgInd g' = wgInd g ∨ (g.pc = .exiting [.wgDone] ∧ g'.pc = .exiting [] ∧ wgInd g = 1 ∧ wgInd g' = 0) := by
  have hs := h.shape
  cases t with
  | item v hp => left; simp [wgInd, hp, pastWg]
  | ended hp => left; simp [wgInd, hp, pastWg, E0]
  | err e hp => left; simp [wgInd, hp, pastWg]
  | casWin e hp => left; simp [wgInd, hp, pastWg]
  | casLose e hp => left; simp [wgInd, hp, pastWg, E0]
  | winStep e x rest hp => left; simp [wgInd, hp, pastWg]
  | winDone e hp => left; simp [wgInd, hp, pastWg, E0]
  | sendOk v hp => left; simp [wgInd, hp, pastWg, again]
  | sendFail v hp => left; simp [wgInd, hp, pastWg, E0]
  | mark d rest hp => left; simp [wgInd, hp, pastWg]
  | check d rest hp =>
    rw [hp] at hs; simp only [Shape, E0] at hs
    rcases hs with hs | ⟨d', hs⟩ | hs | hs | hs <;> simp at hs
    obtain ⟨_, rfl⟩ := hs
    left; simp [wgInd, hp, pastWg]
  | closeIn rest hp =>
    rw [hp] at hs; simp only [Shape, E0] at hs
    rcases hs with hs | ⟨d', hs⟩ | hs | hs | hs <;> simp at hs
    subst hs
    left; simp [wgInd, hp, pastWg]
  | wgDone rest hp =>
    rw [hp] at hs; simp only [Shape, E0] at hs
    rcases hs with hs | ⟨d', hs⟩ | hs | hs | hs <;> simp at hs
    subst hs
    right; simp [wgInd, hp, pastWg]
  | fin hp => left; simp [wgInd, hp, pastWg]


/-- A goroutine step that is not `wg.Done()`: `wg`, `cpc` (unless it is the hand-off to a consumer
inside `Next`), `streamDone` unchanged, `cancelled` only set. -/
theorem invD_goroutine {k : Nat} {s s' : St V} (ha : InvA k s) (hi : InvD s) {i : Nat} {g g' : G V}
    (hg : s.gs[i]? = some g) (t : Trans g g') (hgs : s'.gs = s.gs.set i g')
    (hwg : s'.wg = s.wg - (wgInd g - wgInd g'))
    (hcpc : s'.cpc = s.cpc ∨ ∃ live, s.cpc = .inNext live ∧ s'.cpc = .idle)
    (hsd : s'.streamDone = s.streamDone) (hc : s.cancelled = true → s'.cancelled = true) : InvD s' := by
  have hloc := ha.loc g (List.mem_of_getElem? hg)
  have hsum := sumBy_set wgInd s.gs i g' g hg
  have hwgi := trans_wgInd t hloc
  have hwg' : s'.wg = sumBy wgInd s'.gs := by
    rw [hgs, hwg, hi.wg]
    rcases hwgi with h | ⟨_, _, h1, h2⟩
    · rw [h] at hsum ⊢; omega
    · rw [h1, h2] at hsum ⊢; omega
  refine ⟨?_, hwg'⟩
  intro rest hr
  rcases hcpc with hcpc | ⟨live, h1, h2⟩
  · rw [hcpc] at hr
    rcases hi.shape rest hr with h | ⟨h, h1⟩ | ⟨h, h1, h2⟩ | ⟨h, h1, h2, h3⟩
    · exact .inl h
    · exact .inr (.inl ⟨h, by rw [hsd]; exact h1⟩)
    · exact .inr (.inr (.inl ⟨h, by rw [hsd]; exact h1, hc h2⟩))
    · refine .inr (.inr (.inr ⟨h, by rw [hsd]; exact h1, hc h2, ?_⟩))
      rw [hwg, h3]; omega
  · rw [h2] at hr; cases hr

theorem wgInd_same {g g' : G V} (t : Trans g g') (h : LocalOK g) (hne : ¬ ∃ rest, g.pc = .exiting (.wgDone :: rest)) :
    wgInd g - wgInd g' = 0 := by
  rcases trans_wgInd t h with h | ⟨h, _⟩
  · omega
  · exact absurd ⟨[], h⟩ hne

theorem invD_step {k : Nat} {s s' : St V} {l : Label V} (ha : InvA k s) (hi : InvD s)
    (h : step s l = some s') : InvD s' := by
  cases l with
  | inItem i v =>
    obtain ⟨g, hg, hp, rfl⟩ := step_inItem h
    have t : Trans g _ := .item g v hp
    exact invD_goroutine ha hi hg t rfl (by simp [wgInd_same t (ha.loc g (List.mem_of_getElem? hg)) (by simp [hp])]) (.inl rfl) rfl id
  | inEnd i =>
    obtain ⟨g, hg, hp, rfl⟩ := step_inEnd h
    have t : Trans g _ := .ended g hp
    exact invD_goroutine ha hi hg t rfl (by simp [wgInd_same t (ha.loc g (List.mem_of_getElem? hg)) (by simp [hp])]) (.inl rfl) rfl id
  | inErr i e =>
    obtain ⟨g, hg, hp, rfl⟩ := step_inErr h
    have t : Trans g _ := .err g (.inj e) hp
    exact invD_goroutine ha hi hg t rfl (by simp [wgInd_same t (ha.loc g (List.mem_of_getElem? hg)) (by simp [hp])]) (.inl rfl) rfl id
  | inCtx i =>
    obtain ⟨g, hg, hp, _, rfl⟩ := step_inCtx h
    have t : Trans g _ := .err g .ctx hp
    exact invD_goroutine ha hi hg t rfl (by simp [wgInd_same t (ha.loc g (List.mem_of_getElem? hg)) (by simp [hp])]) (.inl rfl) rfl id
  | cas i =>
    obtain ⟨g, e, hg, hp, hc⟩ := step_cas h
    rcases hc with ⟨_, rfl⟩ | ⟨_, rfl⟩
    · have t : Trans g _ := .casWin g e hp
      exact invD_goroutine ha hi hg t rfl (by simp [wgInd_same t (ha.loc g (List.mem_of_getElem? hg)) (by simp [hp])]) (.inl rfl) rfl id
    · have t : Trans g _ := .casLose g e hp
      exact invD_goroutine ha hi hg t rfl (by simp [wgInd_same t (ha.loc g (List.mem_of_getElem? hg)) (by simp [hp])]) (.inl rfl) rfl id
  | win i =>
    obtain ⟨g, e, hg, hc⟩ := step_win h
    rcases hc with ⟨rest, hp, rfl⟩ | ⟨rest, hp, rfl⟩ | ⟨hp, rfl⟩
    · have t : Trans g _ := .winStep g e _ rest hp
      exact invD_goroutine ha hi hg t rfl (by simp [wgInd_same t (ha.loc g (List.mem_of_getElem? hg)) (by simp [hp])]) (.inl rfl) rfl (fun _ => rfl)
    · have t : Trans g _ := .winStep g e _ rest hp
      exact invD_goroutine ha hi hg t rfl (by simp [wgInd_same t (ha.loc g (List.mem_of_getElem? hg)) (by simp [hp])]) (.inl rfl) rfl id
    · have t : Trans g _ := .winDone g e hp
      exact invD_goroutine ha hi hg t rfl (by simp [wgInd_same t (ha.loc g (List.mem_of_getElem? hg)) (by simp [hp])]) (.inl rfl) rfl id
  | sendOk i =>
    obtain ⟨g, v, live, hg, hp, hc, rfl⟩ := step_sendOk h
    have t : Trans g _ := .sendOk g v hp
    exact invD_goroutine ha hi hg t rfl (by simp [wgInd_same t (ha.loc g (List.mem_of_getElem? hg)) (by simp [hp])]) (.inr ⟨live, hc, rfl⟩) rfl id
  | sendFail i =>
    obtain ⟨g, v, hg, hp, _, rfl⟩ := step_sendFail h
    have t : Trans g _ := .sendFail g v hp
    exact invD_goroutine ha hi hg t rfl (by simp [wgInd_same t (ha.loc g (List.mem_of_getElem? hg)) (by simp [hp])]) (.inl rfl) rfl id
  | exitStep i =>
    obtain ⟨g, hg, hc⟩ := step_exitStep h
    have hloc := ha.loc g (List.mem_of_getElem? hg)
    rcases hc with ⟨rest, hp, rfl⟩ | ⟨d, rest, hp, _, _, rfl⟩ | ⟨d, rest, hp, _, rfl⟩ | ⟨rest, hp, rfl⟩ |
      ⟨rest, hp, rfl⟩ | ⟨hp, rfl⟩
    · have t : Trans g _ := .mark g (s.nDone + 1) rest hp
      exact invD_goroutine ha hi hg t rfl (by simp [wgInd_same t hloc (by simp [hp])]) (.inl rfl) rfl id
    · have t : Trans g _ := .check g d rest hp
      exact invD_goroutine ha hi hg t rfl (by simp [wgInd_same t hloc (by simp [hp])]) (.inl rfl) rfl id
    · have t : Trans g _ := .check g d rest hp
      exact invD_goroutine ha hi hg t rfl (by simp [wgInd_same t hloc (by simp [hp])]) (.inl rfl) rfl id
    · have t : Trans g _ := .closeIn g rest hp
      exact invD_goroutine ha hi hg t rfl (by simp [wgInd_same t hloc (by simp [hp])]) (.inl rfl) rfl id
    · have t : Trans g _ := .wgDone g rest hp
      refine invD_goroutine ha hi hg t rfl ?_ (.inl rfl) rfl id
      rcases trans_wgInd t hloc with h | ⟨_, _, h1, h2⟩
      · have hs := hloc.shape
        rw [hp] at hs; simp only [Shape, E0] at hs
        rcases hs with hs | ⟨d', hs⟩ | hs | hs | hs <;> simp at hs
        subst hs
        simp [wgInd, hp, pastWg]
      · simp [h1, h2]
    · have t : Trans g _ := .fin g hp
      exact invD_goroutine ha hi hg t rfl (by simp [wgInd_same t hloc (by simp [hp])]) (.inl rfl) rfl id
  | cCall live =>
    obtain ⟨hp, rfl⟩ := step_cCall h
    exact ⟨by simp, hi.wg⟩
  | cEnd =>
    obtain ⟨_, hp, _, rfl⟩ := step_cEnd h
    exact ⟨by simp, hi.wg⟩
  | cCtx =>
    obtain ⟨hp, rfl⟩ := step_cCtx h
    exact ⟨by simp, hi.wg⟩
  | cExpire =>
    obtain ⟨hp, rfl⟩ := step_cExpire h
    exact ⟨by simp, hi.wg⟩
  | cClose =>
    obtain ⟨hp, rfl⟩ := step_cClose h
    exact ⟨by simp, hi.wg⟩
  | cCloseStep =>
    rcases step_cCloseStep h with ⟨rest, hp, rfl⟩ | ⟨rest, hp, rfl⟩ | ⟨rest, hp, hw, rfl⟩
    · refine ⟨?_, hi.wg⟩
      intro r hr
      simp at hr; subst hr
      rcases hi.shape _ hp with h | ⟨h, _⟩ | ⟨h, _⟩ | ⟨h, _⟩ <;> simp at h
      subst h
      exact .inr (.inl ⟨rfl, rfl⟩)
    · refine ⟨?_, hi.wg⟩
      intro r hr
      simp at hr; subst hr
      rcases hi.shape _ hp with h | ⟨h, h1⟩ | ⟨h, _⟩ | ⟨h, _⟩ <;> simp at h
      subst h
      exact .inr (.inr (.inl ⟨rfl, h1, rfl⟩))
    · refine ⟨?_, hi.wg⟩
      intro r hr
      simp at hr; subst hr
      rcases hi.shape _ hp with h | ⟨h, h1⟩ | ⟨h, h1, h2⟩ | ⟨h, _⟩ <;> simp at h
      subst h
      exact .inr (.inr (.inr ⟨rfl, h1, h2, hw⟩))
  | ctxEnds =>
    obtain ⟨_, _, rfl⟩ := step_ctxEnds h
    refine ⟨?_, hi.wg⟩
    intro r hr
    rcases hi.shape r hr with h | ⟨h, h1⟩ | ⟨h, h1, _⟩ | ⟨h, h1, _, h3⟩
    · exact .inl h
    · exact .inr (.inl ⟨h, h1⟩)
    · exact .inr (.inr (.inl ⟨h, h1, rfl⟩))
    · exact .inr (.inr (.inr ⟨h, h1, rfl, h3⟩))

theorem reach_invD {k : Nat} {s : St V} (h : Reach (init V k) s) : InvD s := by
  induction h with
  | refl => exact invD_init k
  | step l hr hs ih => exact invD_step (reach_invA hr) ih hs


/-! ### inputs closed exactly once by the time `Close` returns -/

theorem pastWg_closed (pc : GPc V) (h : pastWg pc = true) : closedStage pc = true := by
  unfold pastWg at h
  split at h <;> simp_all [closedStage]

theorem closed_once_when_close_returned {k : Nat} {s : St V} (ha : InvA k s) (hd : InvD s)
    (hc : s.cpc = .closing []) : ∀ g, g ∈ s.gs → g.closes = 1 ∧ pastWg g.pc = true := by
  rcases hd.shape [] hc with h | ⟨h, _⟩ | ⟨h, _⟩ | ⟨_, _, _, hw⟩ <;> try (simp at h)
  intro g hg
  have h0 : sumBy wgInd s.gs = 0 := by rw [← hd.wg]; exact hw
  have := sumBy_zero wgInd s.gs h0 g hg
  have hp : pastWg g.pc = true := by
    unfold wgInd at this
    split at this
    · assumption
    · cases this
  refine ⟨?_, hp⟩
  have := (ha.loc g hg).closes
  rw [pastWg_closed _ hp] at this
  simpa using this

/-! ### after `Close` was requested every step decreases a measure -/

def wE : ExitStep → Nat
  | .markDone => 2
  | _ => 1

def rank : GPc V → Nat
  | .next => 10
  | .gotErr _ => 9
  | .won _ rest => rest.length + 6
  | .send _ => 6
  | .exiting rest => (rest.map wE).sum + 1
  | .finished => 0

def cRank : CPc → Nat
  | .closing rest => rest.length
  | _ => 0

/-- Termination measure: remaining work of every goroutine plus the remaining statements of `Close`. -/
def nu (s : St V) : Nat := sumBy (fun g => rank g.pc) s.gs + cRank s.cpc

theorem trans_rank {g g' : G V} (t : Trans g g') (hn : ∀ v, g.pc = .send v → g' ≠ again g) :
    rank g'.pc < rank g.pc := by
  cases t with
  | item v hp => simp [hp, rank]
  | ended hp => simp [hp, rank, E0, wE]
  | err e hp => simp [hp, rank]
  | casWin e hp => simp [hp, rank]
  | casLose e hp => simp [hp, rank, E0, wE]
  | winStep e x rest hp => simp [hp, rank]
  | winDone e hp => simp [hp, rank, E0, wE]
  | sendOk v hp => exact absurd rfl (hn v hp)
  | sendFail v hp => simp [hp, rank, E0, wE]
  | mark d rest hp => simp [hp, rank, wE]
  | check d rest hp => simp [hp, rank, wE]
  | closeIn rest hp => simp [hp, rank, wE]
  | wgDone rest hp => simp [hp, rank, wE]
  | fin hp => simp [hp, rank]

/-- Classification of a step by who moves (`ho`: the context ends only through `cancel()`, so the
environment label `ctxEnds` is dead). -/
theorem step_class {s s' : St V} {l : Label V} (ho : s.origin = .plainCancel) (h : step s l = some s') :
    (∃ i g g', s.gs[i]? = some g ∧ Trans g g' ∧ s'.gs = s.gs.set i g' ∧ s'.cpc = s.cpc ∧
        ∀ v, g.pc = .send v → g' ≠ again g) ∨
    (∃ live, s.cpc = .inNext live) ∨ s.cpc = .idle ∨
    (∃ x rest, s.cpc = .closing (x :: rest) ∧ s'.cpc = .closing rest ∧ s'.gs = s.gs) := by
  cases l with
  | inItem i v => obtain ⟨g, hg, hp, rfl⟩ := step_inItem h
                  exact .inl ⟨i, g, _, hg, .item g v hp, rfl, rfl, fun w hw => by rw [hp] at hw; cases hw⟩
  | inEnd i => obtain ⟨g, hg, hp, rfl⟩ := step_inEnd h
               exact .inl ⟨i, g, _, hg, .ended g hp, rfl, rfl, fun w hw => by rw [hp] at hw; cases hw⟩
  | inErr i e => obtain ⟨g, hg, hp, rfl⟩ := step_inErr h
                 exact .inl ⟨i, g, _, hg, .err g _ hp, rfl, rfl, fun w hw => by rw [hp] at hw; cases hw⟩
  | inCtx i => obtain ⟨g, hg, hp, _, rfl⟩ := step_inCtx h
               exact .inl ⟨i, g, _, hg, .err g _ hp, rfl, rfl, fun w hw => by rw [hp] at hw; cases hw⟩
  | ctxEnds => exact (no_ctxEnds ho h).elim
  | cas i =>
    obtain ⟨g, e, hg, hp, hc⟩ := step_cas h
    rcases hc with ⟨_, rfl⟩ | ⟨_, rfl⟩
    · exact .inl ⟨i, g, _, hg, .casWin g e hp, rfl, rfl, fun w hw => by rw [hp] at hw; cases hw⟩
    · exact .inl ⟨i, g, _, hg, .casLose g e hp, rfl, rfl, fun w hw => by rw [hp] at hw; cases hw⟩
  | win i =>
    obtain ⟨g, e, hg, hc⟩ := step_win h
    rcases hc with ⟨rest, hp, rfl⟩ | ⟨rest, hp, rfl⟩ | ⟨hp, rfl⟩
    · exact .inl ⟨i, g, _, hg, .winStep g e _ rest hp, rfl, rfl, fun w hw => by rw [hp] at hw; cases hw⟩
    · exact .inl ⟨i, g, _, hg, .winStep g e _ rest hp, rfl, rfl, fun w hw => by rw [hp] at hw; cases hw⟩
    · exact .inl ⟨i, g, _, hg, .winDone g e hp, rfl, rfl, fun w hw => by rw [hp] at hw; cases hw⟩
  | sendOk i =>
    obtain ⟨g, v, live, hg, hp, hc, rfl⟩ := step_sendOk h
    exact .inr (.inl ⟨live, hc⟩)
  | sendFail i =>
    obtain ⟨g, v, hg, hp, _, rfl⟩ := step_sendFail h
    refine .inl ⟨i, g, _, hg, .sendFail g v hp, rfl, rfl, fun w hw hh => ?_⟩
    have := congrArg G.pc hh
    simp [again] at this
  | exitStep i =>
    obtain ⟨g, hg, hc⟩ := step_exitStep h
    rcases hc with ⟨rest, hp, rfl⟩ | ⟨d, rest, hp, _, _, rfl⟩ | ⟨d, rest, hp, _, rfl⟩ | ⟨rest, hp, rfl⟩ |
      ⟨rest, hp, rfl⟩ | ⟨hp, rfl⟩
    · exact .inl ⟨i, g, _, hg, .mark g (s.nDone + 1) rest hp, rfl, rfl, fun w hw => by rw [hp] at hw; cases hw⟩
    · exact .inl ⟨i, g, _, hg, .check g d rest hp, rfl, rfl, fun w hw => by rw [hp] at hw; cases hw⟩
    · exact .inl ⟨i, g, _, hg, .check g d rest hp, rfl, rfl, fun w hw => by rw [hp] at hw; cases hw⟩
    · exact .inl ⟨i, g, _, hg, .closeIn g rest hp, rfl, rfl, fun w hw => by rw [hp] at hw; cases hw⟩
    · exact .inl ⟨i, g, _, hg, .wgDone g rest hp, rfl, rfl, fun w hw => by rw [hp] at hw; cases hw⟩
    · exact .inl ⟨i, g, _, hg, .fin g hp, rfl, rfl, fun w hw => by rw [hp] at hw; cases hw⟩
  | cCall live => obtain ⟨hp, rfl⟩ := step_cCall h; exact .inr (.inr (.inl hp))
  | cEnd => obtain ⟨live, hp, _, rfl⟩ := step_cEnd h; exact .inr (.inl ⟨live, hp⟩)
  | cCtx => obtain ⟨hp, rfl⟩ := step_cCtx h; exact .inr (.inl ⟨false, hp⟩)
  | cExpire => obtain ⟨hp, rfl⟩ := step_cExpire h; exact .inr (.inl ⟨true, hp⟩)
  | cClose => obtain ⟨hp, rfl⟩ := step_cClose h; exact .inr (.inr (.inl hp))
  | cCloseStep =>
    rcases step_cCloseStep h with ⟨rest, hp, rfl⟩ | ⟨rest, hp, rfl⟩ | ⟨rest, hp, _, rfl⟩
    · exact .inr (.inr (.inr ⟨_, rest, hp, rfl, rfl⟩))
    · exact .inr (.inr (.inr ⟨_, rest, hp, rfl, rfl⟩))
    · exact .inr (.inr (.inr ⟨_, rest, hp, rfl, rfl⟩))

/-- Once `Close` of the merged stream has been called, every step whatsoever (of a goroutine, of
`Close`, even an input returning something) strictly decreases `nu`, and `Close` stays in progress. -/
theorem after_close_decreases {s s' : St V} {l : Label V} {rest : List CloseStep}
    (ho : s.origin = .plainCancel) (hc : s.cpc = .closing rest) (h : step s l = some s') :
    nu s' < nu s ∧ ∃ rest', s'.cpc = .closing rest' := by
  rcases step_class ho h with ⟨i, g, g', hg, t, hgs, hcpc, hne⟩ | ⟨live, hl⟩ | hl | ⟨x, r, hx, hx', hgs⟩
  · have hr := trans_rank t hne
    have hsum := sumBy_set (fun g => rank g.pc) s.gs i g' g hg
    refine ⟨?_, rest, by rw [hcpc, hc]⟩
    unfold nu
    rw [hgs, hcpc]
    have hsum' : sumBy (fun g => rank g.pc) (s.gs.set i g') + rank g.pc = sumBy (fun g => rank g.pc) s.gs + rank g'.pc := hsum
    omega
  · rw [hc] at hl; cases hl
  · rw [hc] at hl; cases hl
  · refine ⟨?_, r, hx'⟩
    unfold nu
    rw [hgs, hx', hx]
    simp [cRank]


theorem mem_internal_of_lt {s : St V} {i : Nat} (hi : i < s.k) (f : Nat → Label V)
    (hf : f i ∈ [Label.inCtx i, .cas i, .win i, .sendOk i, .sendFail i, .exitStep i]) :
    f i ∈ internalLabels s := by
  unfold internalLabels
  apply List.mem_append_right
  exact List.mem_flatMap.mpr ⟨i, List.mem_range.mpr hi, hf⟩

/-- A goroutine that has not yet called `wg.Done()` can take a step that needs no further input,
once the shared context is cancelled. -/
theorem goroutine_can_move {s : St V} {i : Nat} {g : G V} (hik : i < s.k) (hg : s.gs[i]? = some g)
    (hloc : LocalOK g) (hnp : pastWg g.pc = false) (hcan : s.cancelled = true) :
    ∃ l, l ∈ internalLabels s ∧ ∃ s', step s l = some s' := by
  have hs := hloc.shape
  have ex : ∀ l, (step s l).isSome = true → ∃ s', step s l = some s' := fun l h =>
    Option.isSome_iff_exists.mp h
  cases hp : g.pc with
  | next =>
    exact ⟨.inCtx i, mem_internal_of_lt hik .inCtx (by simp), ex _ (by simp [step, hg, hp, hcan, nextUsesCtx_eq])⟩
  | gotErr e =>
    refine ⟨.cas i, mem_internal_of_lt hik .cas (by simp), ex _ ?_⟩
    cases hco : s.closeOnce <;> simp [step, hg, hp, hco, casGuards_eq]
  | won e r =>
    refine ⟨.win i, mem_internal_of_lt hik .win (by simp), ex _ ?_⟩
    rw [hp] at hs
    simp only [Shape] at hs
    rcases hs with rfl | rfl | rfl <;> simp [step, hg, hp, errReturns_eq]
  | send v =>
    exact ⟨.sendFail i, mem_internal_of_lt hik .sendFail (by simp), ex _
      (by simp [step, hg, hp, hcan, sendUsesCtx_eq, sendArmCtx_eq, sendErrReturns_eq])⟩
  | exiting r =>
    refine ⟨.exitStep i, mem_internal_of_lt hik .exitStep (by simp), ex _ ?_⟩
    rw [hp] at hs
    simp only [Shape, E0] at hs
    rcases hs with rfl | ⟨d, rfl⟩ | rfl | rfl | rfl
    · simp [step, hg, hp]
    · simp only [step, hg, hp]
      split <;> split <;> simp
    · simp [step, hg, hp]
    · simp [step, hg, hp]
    · rw [hp] at hnp; simp [pastWg] at hnp
  | finished => rw [hp] at hnp; simp [pastWg] at hnp

/-- After `Close` was requested: as long as `Close` has not returned or a goroutine has not
finished, some step that needs no further input (`internalLabels`: goroutine steps, steps of
`Close`, an input honouring the cancelled context) is enabled. -/
theorem after_close_enabled {k : Nat} {s : St V} {rest : List CloseStep} (ha : InvA k s) (hd : InvD s)
    (hc : s.cpc = .closing rest) (hnf : rest ≠ [] ∨ ∃ g, g ∈ s.gs ∧ g.pc ≠ .finished) :
    ∃ l, l ∈ internalLabels s ∧ ∃ s', step s l = some s' := by
  have hclose : Label.cCloseStep ∈ internalLabels s := by simp [internalLabels]
  have hlen : s.gs.length = s.k := by rw [ha.len, ha.hk]
  rcases hd.shape rest hc with rfl | ⟨rfl, _⟩ | ⟨rfl, _, hcan⟩ | ⟨rfl, _, hcan, hw⟩
  · exact ⟨.cCloseStep, hclose, Option.isSome_iff_exists.mp (by simp [step, hc])⟩
  · exact ⟨.cCloseStep, hclose, Option.isSome_iff_exists.mp (by simp [step, hc])⟩
  · by_cases hw : s.wg = 0
    · exact ⟨.cCloseStep, hclose, Option.isSome_iff_exists.mp (by simp [step, hc, hw])⟩
    · have hpos : 0 < sumBy wgInd s.gs := by rw [← hd.wg]; omega
      obtain ⟨g, hg, hgi⟩ := sumBy_pos wgInd s.gs hpos
      obtain ⟨i, hi, hgi'⟩ := List.getElem_of_mem hg
      have hg' : s.gs[i]? = some g := by rw [List.getElem?_eq_getElem hi, hgi']
      have hnp : pastWg g.pc = false := by
        unfold wgInd at hgi
        split at hgi
        · cases hgi
        · simpa using ‹¬ pastWg g.pc = true›
      exact goroutine_can_move (by rw [← hlen]; exact hi) hg' (ha.loc g hg) hnp hcan
  · rcases hnf with hnf | ⟨g, hg, hgf⟩
    · exact absurd rfl hnf
    · have h0 : sumBy wgInd s.gs = 0 := by rw [← hd.wg]; exact hw
      have hz := sumBy_zero wgInd s.gs h0 g hg
      obtain ⟨i, hi, hgi'⟩ := List.getElem_of_mem hg
      have hg' : s.gs[i]? = some g := by rw [List.getElem?_eq_getElem hi, hgi']
      have hik : i < s.k := by rw [← hlen]; exact hi
      have hp : g.pc = .exiting [] := by
        cases hpc : g.pc with
        | exiting r =>
          cases r with
          | nil => rfl
          | cons x r => simp [wgInd, pastWg, hpc] at hz
        | finished => exact absurd hpc hgf
        | next => simp [wgInd, pastWg, hpc] at hz
        | gotErr e => simp [wgInd, pastWg, hpc] at hz
        | won e r => simp [wgInd, pastWg, hpc] at hz
        | send v => simp [wgInd, pastWg, hpc] at hz
      exact ⟨.exitStep i, mem_internal_of_lt hik .exitStep (by simp), Option.isSome_iff_exists.mp (by simp [step, hg', hp])⟩

/-- Labels of the list are taken from `internalLabels` of the states they are applied to. -/
def InternalRun : St V → List (Label V) → Prop
  | _, [] => True
  | s, l :: ls => l ∈ internalLabels s ∧ ∀ s', step s l = some s' → InternalRun s' ls

/-- Hence: from any state in which `Close` was requested, some run of steps needing no further
input ends with `Close` returned and every goroutine finished. -/
theorem after_close_finishes {k : Nat} (ho : ctxOrigin = .plainCancel) :
    ∀ (n : Nat) (s : St V) (rest : List CloseStep), InvA k s → InvD s →
    s.cpc = .closing rest → nu s ≤ n →
    ∃ ls s', run s ls = some s' ∧ InternalRun s ls ∧ s'.cpc = .closing [] ∧ ∀ g, g ∈ s'.gs → g.pc = .finished := by
  intro n
  induction n with
  | zero =>
    intro s rest ha hd hc hn
    by_cases hfin : rest = [] ∧ ∀ g, g ∈ s.gs → g.pc = .finished
    · exact ⟨[], s, rfl, trivial, by rw [hc, hfin.1], hfin.2⟩
    · exfalso
      have hnf : rest ≠ [] ∨ ∃ g, g ∈ s.gs ∧ g.pc ≠ .finished := by
        by_cases hr : rest = []
        · right
          have : ¬ ∀ g, g ∈ s.gs → g.pc = .finished := fun hh => hfin ⟨hr, hh⟩
          exact Classical.byContradiction fun hcon => this fun g hg =>
            Classical.byContradiction fun hne => hcon ⟨g, hg, hne⟩
        · exact .inl hr
      obtain ⟨l, _, s1, hs1⟩ := after_close_enabled ha hd hc hnf
      have := (after_close_decreases (ha.org.trans ho) hc hs1).1
      omega
  | succ n ih =>
    intro s rest ha hd hc hn
    by_cases hfin : rest = [] ∧ ∀ g, g ∈ s.gs → g.pc = .finished
    · exact ⟨[], s, rfl, trivial, by rw [hc, hfin.1], hfin.2⟩
    · have hnf : rest ≠ [] ∨ ∃ g, g ∈ s.gs ∧ g.pc ≠ .finished := by
        by_cases hr : rest = []
        · right
          have : ¬ ∀ g, g ∈ s.gs → g.pc = .finished := fun hh => hfin ⟨hr, hh⟩
          exact Classical.byContradiction fun hcon => this fun g hg =>
            Classical.byContradiction fun hne => hcon ⟨g, hg, hne⟩
        · exact .inl hr
      obtain ⟨l, hl, s1, hs1⟩ := after_close_enabled ha hd hc hnf
      obtain ⟨hlt, rest1, hc1⟩ := after_close_decreases (ha.org.trans ho) hc hs1
      obtain ⟨ls, s', hrun, hint, hdone⟩ := ih s1 rest1 (invA_step ha hs1) (invD_step ha hd hs1) hc1 (by omega)
      refine ⟨l :: ls, s', by simp [run, hs1, hrun], ⟨hl, ?_⟩, hdone⟩
      intro s2 hs2
      rw [hs1] at hs2; cases hs2
      exact hint

theorem reach_of_run {s0 s : St V} : ∀ (ls : List (Label V)) {s1 : St V}, Reach s0 s1 → run s1 ls = some s →
    Reach s0 s
  | [], _, h, hr => by simp [run] at hr; exact hr ▸ h
  | l :: ls, s1, h, hr => by
    simp only [run] at hr
    split at hr
    · rename_i s2 hs; exact reach_of_run ls (.step l h hs) hr
    · cases hr

end Juniper.Proofs.StreamMerge
