import Juniper.Proofs.HeapInv
import Juniper.Proofs.HeapPerm
/-!
# The heap operations: shape lemmas (what each operation computes, all presence facts discharged),
then order and permutation for heapify / push / pop / removeAt / updateAt.
-/
set_option linter.unusedSimpArgs false
set_option linter.unusedVariables false
namespace Juniper.Proofs.Heap
open Juniper.Gen.Heap Juniper.Model.Heap Juniper.Spec.Heap

variable {α : Type}

/-! ## heapify -/

theorem heapifyLoop_succ (less : α → α → Bool) (f : Nat) (a : List α) (i : Int) :
    heapifyLoop less (f + 1) a i =
      if 0 ≤ i then
        ((heapifyLoop less f (percolateDown less a i.toNat).1 (i - 1)).1,
          (percolateDown less a i.toNat).2 ++ (heapifyLoop less f (percolateDown less a i.toNat).1 (i - 1)).2)
      else (a, []) := by
  simp only [heapifyLoop, newGuard_eq, newSiftsDown, newDecrements, if_true, decide_eq_true_eq]

theorem heapifyLoop_heapFrom {less : α → α → Bool} (sw : StrictWeak less) (f k : Nat) (a : List α)
    (hk : k ≤ f) (h : HeapFrom less a k) : HeapFrom less (heapifyLoop less f a ((k : Int) - 1)).1 0 := by
  induction f generalizing k a with
  | zero =>
    have : k = 0 := by omega
    subst this; exact h
  | succ f ih =>
    rw [heapifyLoop_succ]
    cases k with
    | zero => simpa using h
    | succ k =>
      have e1 : (0 : Int) ≤ ((k + 1 : Nat) : Int) - 1 := by omega
      have e2 : (((k + 1 : Nat) : Int) - 1).toNat = k := by omega
      have e3 : ((k + 1 : Nat) : Int) - 1 - 1 = (k : Int) - 1 := by omega
      simp only [e1, if_true, e2, e3]
      apply ih k _ (by omega)
      apply percolateDown_heapFrom sw a k k (Nat.le_refl _)
      constructor
      · intro j x y hj hlo hne hx hy
        exact h j x y hj (by omega) hx hy
      · intro j x y hi hlo; omega

theorem heapifyLoop_perm (less : α → α → Bool) (f : Nat) (a : List α) (i : Int) :
    (heapifyLoop less f a i).1.Perm a := by
  induction f generalizing a i with
  | zero => exact List.Perm.refl _
  | succ f ih =>
    rw [heapifyLoop_succ]
    split
    · exact (ih _ _).trans (percolateDown_perm _ _ _)
    · exact List.Perm.refl _

theorem new_a (less : α → α → Bool) (init : List α) :
    (new less init).1.a = (heapifyLoop less init.length init (((init.length / 2 : Nat) : Int) - 1)).1 := by
  simp only [new, newStart_eq]

theorem new_gen (less : α → α → Bool) (init : List α) : (new less init).1.gen = 0 := rfl

theorem new_heapInv {less : α → α → Bool} (sw : StrictWeak less) (init : List α) :
    HeapInv less (new less init).1.a := by
  rw [new_a, heapInv_iff_heapFrom]
  apply heapifyLoop_heapFrom sw _ _ _ (Nat.div_le_self _ _)
  intro j x y hj hlo hx hy
  rw [List.getElem?_eq_none (by omega)] at hx; cases hx

theorem new_perm (less : α → α → Bool) (init : List α) : (new less init).1.a.Perm init := by
  rw [new_a]; exact heapifyLoop_perm _ _ _ _

/-! ## push -/

theorem push_a (less : α → α → Bool) (h : Heap α) (x : α) :
    (push less h x).1.a = (percolateUp less (h.a ++ [x]) h.a.length).1 := by
  simp [push, pushAppends, pushSiftsUp]

theorem push_gen (less : α → α → Bool) (h : Heap α) (x : α) :
    (push less h x).1.gen = bump pushBumpsGen h.gen := rfl

theorem push_notes (less : α → α → Bool) (h : Heap α) (x : α) :
    (push less h x).2 = notifyAt (h.a ++ [x]) h.a.length ++ (percolateUp less (h.a ++ [x]) h.a.length).2 := by
  simp [push, pushAppends, pushSiftsUp, pushNotifies]

theorem push_heapInv {less : α → α → Bool} (sw : StrictWeak less) (h : Heap α) (x : α)
    (hh : HeapInv less h.a) : HeapInv less (push less h x).1.a := by
  rw [push_a]
  apply percolateUp_heapInv sw _ _ (by simp)
  constructor
  · intro j u v hj hne hu hv
    have hjl : j < h.a.length := by
      rcases Nat.lt_or_ge j (h.a ++ [x]).length with hlt | hge
      · simp at hlt; omega
      · rw [List.getElem?_eq_none hge] at hu; cases hu
    rw [List.getElem?_append_left hjl] at hu
    rw [List.getElem?_append_left (by omega)] at hv
    exact hh j u v hj hu hv
  · intro j u v hi hj hpj hu hv
    rw [List.getElem?_eq_none (by simp; omega)] at hu; cases hu

theorem push_perm (less : α → α → Bool) (h : Heap α) (x : α) : (push less h x).1.a.Perm (x :: h.a) := by
  rw [push_a]
  exact (percolateUp_perm _ _ _).trans (List.perm_append_singleton x h.a)

/-! ## pop -/

/-- the array after `a[i] = a[len-1]; a = a[:len-1]` -/
def moveLast (a : List α) (i : Nat) (last : α) : List α := (a.set i last).dropLast

theorem pop_none_iff (less : α → α → Bool) (h : Heap α) : pop less h = none ↔ h.a = [] := by
  unfold pop
  cases ha : h.a with
  | nil => simp [popIdx]
  | cons x t =>
    have : (x :: t).getLast? = some ((x :: t).getLast (by simp)) := List.getLast?_eq_some_getLast (by simp)
    simp [popIdx, this]

theorem pop_shape {less : α → α → Bool} {h h' : Heap α} {it : α} {notes : List (Note α)}
    (hp : pop less h = some (h', it, notes)) :
    ∃ last, h.a[0]? = some it ∧ h.a.getLast? = some last ∧
      h'.a = (percolateDown less (moveLast h.a 0 last) 0).1 ∧ h'.gen = bump popBumpsGen h.gen ∧
      notes = (if 0 < (moveLast h.a 0 last).length then notifyAt (moveLast h.a 0 last) 0 else []) ++
        (percolateDown less (moveLast h.a 0 last) 0).2 := by
  unfold pop at hp
  split at hp
  · rename_i it' last hit hlast
    simp only [popMovesLast, popTruncates, popNotifies, popSiftsDown, if_true, popNotifyGuard, Bool.and_true,
      Option.some.injEq, Prod.mk.injEq] at hp
    obtain ⟨rfl, rfl, rfl⟩ := hp
    refine ⟨last, by simpa [popIdx] using hit, hlast, rfl, rfl, ?_⟩
    simp [moveLast]
  · cases hp

theorem heapInv_moveLast {less : α → α → Bool} {a : List α} {i : Nat} {last : α}
    (h : HeapInv less a) (hl : a.getLast? = some last) (hi : i + 1 < a.length) :
    moveLast a i last = (a.dropLast).set i last ∧ HeapInv less a.dropLast := by
  obtain ⟨d, rfl⟩ := List.getLast?_eq_some_iff.mp hl
  simp at hi
  constructor
  · simp [moveLast, List.set_append_left _ _ hi]
  · simp only [List.dropLast_concat]
    intro j x y hj hx hy
    have hjl : j < d.length := by
      rcases Nat.lt_or_ge j d.length with hlt | hge
      · exact hlt
      · rw [List.getElem?_eq_none hge] at hx; cases hx
    exact h j x y hj (by rw [List.getElem?_append_left hjl]; exact hx)
      (by rw [List.getElem?_append_left (by omega)]; exact hy)

/-- replacing the element at `i` of a heap and sifting up, then down, restores the heap
(the common core of `RemoveAt` and `UpdateAt`) -/
theorem replace_heapInv {less : α → α → Bool} (sw : StrictWeak less) {a : List α} {i : Nat} (x : α)
    (hi : i < a.length) (h : HeapInv less a) :
    HeapInv less (percolateDown less (percolateUp less (a.set i x) i).1 i).1 := by
  have hget : ∀ j, (a.set i x)[j]? = if i = j then some x else a[j]? := by
    intro j; rw [List.getElem?_set]; simp [hi]
  have grand := fun j u v => (downInv_of_heapInv sw i h).2 j u v
  rw [heapInv_iff_heapFrom]
  by_cases hA : 0 < i ∧ ∃ y, a[(i - 1) / 2]? = some y ∧ less x y = true
  · -- the new element rises
    obtain ⟨h0, y, hy, hl⟩ := hA
    have asym := sw.asymm hl
    apply percolateDown_heapFrom sw _ 0 i (Nat.zero_le _)
    apply downInv_of_heapInv sw
    apply percolateUp_heapInv sw _ _ (by simp [hi])
    constructor
    · intro j u v hj hne hu hv
      rw [hget] at hu hv
      simp only [Ne.symm hne, if_false] at hu
      by_cases hp : i = (j - 1) / 2
      · simp only [hp, if_true] at hv; cases hv
        have := grand j u y h0 (Nat.zero_le _) hj hp.symm hu hy
        exact sw.neg_trans this asym
      · simp only [hp, if_false] at hv
        exact h j u v hj hu hv
    · intro j u v _ hj hpj hu hv
      rw [hget] at hu hv
      have e1 : ¬ i = j := by omega
      have e2 : ¬ i = (i - 1) / 2 := by omega
      simp only [e1, e2, if_false] at hu hv
      exact grand j u v h0 (Nat.zero_le _) hj hpj hu hv
  · -- the new element stays or sinks: percolateUp changes nothing
    have hB : ∀ y, 0 < i → a[(i - 1) / 2]? = some y → less x y = false := by
      intro y h0 hy
      cases hl : less x y with
      | false => rfl
      | true => exact absurd ⟨h0, y, hy, hl⟩ hA
    have hup : percolateUp less (a.set i x) i = (a.set i x, []) := by
      apply upLoop_noop _ _ _ (by simp [hi])
      intro j u v hj hji hu hv
      rw [hget] at hu hv
      have e2 : ¬ i = (j - 1) / 2 := by omega
      simp only [e2, if_false] at hv
      by_cases hij : i = j
      · subst hij; simp only [if_true] at hu; cases hu
        exact hB v hj hv
      · simp only [hij, if_false] at hu
        exact h j u v hj hu hv
    rw [hup]
    apply percolateDown_heapFrom sw _ 0 i (Nat.zero_le _)
    constructor
    · intro j u v hj _ hne hu hv
      rw [hget] at hu hv
      simp only [Ne.symm hne, if_false] at hv
      by_cases hij : i = j
      · subst hij; simp only [if_true] at hu; cases hu
        exact hB v hj hv
      · simp only [hij, if_false] at hu
        exact h j u v hj hu hv
    · intro j u v h0 _ hj hpj hu hv
      rw [hget] at hu hv
      have e1 : ¬ i = j := by omega
      have e2 : ¬ i = (i - 1) / 2 := by omega
      simp only [e1, e2, if_false] at hu hv
      exact grand j u v h0 (Nat.zero_le _) hj hpj hu hv

theorem pop_heapInv {less : α → α → Bool} (sw : StrictWeak less) {h h' : Heap α} {it : α}
    {notes : List (Note α)} (hh : HeapInv less h.a) (hp : pop less h = some (h', it, notes)) :
    HeapInv less h'.a := by
  obtain ⟨last, hit, hlast, ha, _, _⟩ := pop_shape hp
  rw [ha, heapInv_iff_heapFrom]
  apply percolateDown_heapFrom sw _ 0 0 (Nat.le_refl _)
  by_cases h1 : 1 < h.a.length
  · obtain ⟨e, hd⟩ := heapInv_moveLast (i := 0) hh hlast (by omega)
    rw [e]
    constructor
    · intro j u v hj _ hne hu hv
      rw [List.getElem?_set] at hu hv
      have e1 : ¬ 0 = j := by omega
      have e2 : ¬ 0 = (j - 1) / 2 := by omega
      simp only [e1, e2, if_false] at hu hv
      exact hd j u v hj hu hv
    · intro j u v h0; omega
  · have : (moveLast h.a 0 last) = [] := by
      apply List.eq_nil_of_length_eq_zero
      simp [moveLast]; omega
    rw [this]
    constructor
    · intro j u v _ _ _ hu; simp at hu
    · intro j u v h0; omega

theorem pop_perm {less : α → α → Bool} {h h' : Heap α} {it : α} {notes : List (Note α)}
    (hp : pop less h = some (h', it, notes)) : (it :: h'.a).Perm h.a := by
  obtain ⟨last, hit, hlast, ha, _, _⟩ := pop_shape hp
  rw [ha]
  exact ((percolateDown_perm _ _ _).cons it).trans (moveLast_perm hit hlast)

/-! ## removeAt / updateAt -/

theorem removeAt_shape {less : α → α → Bool} {h h' : Heap α} {i : Nat} {notes : List (Note α)}
    (hp : removeAt less h i = some (h', notes)) :
    ∃ last, i < h.a.length ∧ h.a.getLast? = some last ∧ h'.gen = bump removeAtBumpsGen h.gen ∧
      ((i < (moveLast h.a i last).length ∧
        h'.a = (percolateDown less (percolateUp less (moveLast h.a i last) i).1 i).1 ∧
        notes = notifyAt (moveLast h.a i last) i ++ (percolateUp less (moveLast h.a i last) i).2 ++
          (percolateDown less (percolateUp less (moveLast h.a i last) i).1 i).2) ∨
       (¬ i < (moveLast h.a i last).length ∧ h'.a = moveLast h.a i last ∧ notes = [])) := by
  unfold removeAt at hp
  split at hp
  · rename_i hi
    split at hp
    · cases hp
    · rename_i last hlast
      simp only [removeAtMovesLast, removeAtTruncates, removeAtNotifies, removeAtSiftsUp, removeAtSiftsDown,
        if_true, removeAtGuard, decide_eq_true_eq] at hp
      refine ⟨last, hi, hlast, ?_⟩
      split at hp
      · rename_i hlt
        simp only [Option.some.injEq, Prod.mk.injEq] at hp
        obtain ⟨rfl, rfl⟩ := hp
        exact ⟨rfl, Or.inl ⟨by simpa [moveLast] using hlt, rfl, rfl⟩⟩
      · rename_i hlt
        simp only [Option.some.injEq, Prod.mk.injEq] at hp
        obtain ⟨rfl, rfl⟩ := hp
        exact ⟨rfl, Or.inr ⟨by simpa [moveLast] using hlt, rfl, rfl⟩⟩
  · cases hp

theorem removeAt_none_iff (less : α → α → Bool) (h : Heap α) (i : Nat) :
    removeAt less h i = none ↔ ¬ i < h.a.length := by
  unfold removeAt
  by_cases hi : i < h.a.length
  · have hne : h.a ≠ [] := by intro e; rw [e] at hi; simp at hi
    have : h.a.getLast? = some (h.a.getLast hne) := List.getLast?_eq_some_getLast hne
    constructor
    · intro hc
      simp only [hi, if_true, this, removeAtMovesLast, removeAtTruncates, removeAtNotifies, removeAtSiftsUp,
        removeAtSiftsDown] at hc
      split at hc <;> simp at hc
    · intro hc; exact absurd hi hc
  · simp [hi]

theorem removeAt_heapInv {less : α → α → Bool} (sw : StrictWeak less) {h h' : Heap α} {i : Nat}
    {notes : List (Note α)} (hh : HeapInv less h.a) (hp : removeAt less h i = some (h', notes)) :
    HeapInv less h'.a := by
  obtain ⟨last, hi, hlast, _, hcase⟩ := removeAt_shape hp
  rcases hcase with ⟨hlt, ha, _⟩ | ⟨hge, ha, _⟩
  · simp [moveLast] at hlt
    obtain ⟨e, hd⟩ := heapInv_moveLast (i := i) hh hlast (by omega)
    rw [ha, e]
    exact replace_heapInv sw last (by simp; omega) hd
  · simp [moveLast] at hge
    have hi' : i = h.a.length - 1 := by omega
    rw [ha]
    obtain ⟨d, hd⟩ := List.getLast?_eq_some_iff.mp hlast
    have : moveLast h.a i last = d := by
      rw [hi', hd]; simp [moveLast]
    rw [this]
    intro j x y hj hx hy
    have hjl : j < d.length := by
      rcases Nat.lt_or_ge j d.length with hlt | hge
      · exact hlt
      · rw [List.getElem?_eq_none hge] at hx; cases hx
    rw [hd] at hh
    exact hh j x y hj (by rw [List.getElem?_append_left hjl]; exact hx)
      (by rw [List.getElem?_append_left (by omega)]; exact hy)

theorem removeAt_perm {less : α → α → Bool} {h h' : Heap α} {i : Nat} {notes : List (Note α)}
    (hp : removeAt less h i = some (h', notes)) :
    ∃ x, h.a[i]? = some x ∧ (x :: h'.a).Perm h.a := by
  obtain ⟨last, hi, hlast, _, hcase⟩ := removeAt_shape hp
  refine ⟨h.a[i], by simp [hi], ?_⟩
  have hx : h.a[i]? = some h.a[i] := by simp [hi]
  rcases hcase with ⟨_, ha, _⟩ | ⟨_, ha, _⟩
  · rw [ha]
    exact (((percolateDown_perm _ _ _).trans (percolateUp_perm _ _ _)).cons _).trans (moveLast_perm hx hlast)
  · rw [ha]; exact moveLast_perm hx hlast

theorem updateAt_shape {less : α → α → Bool} {h h' : Heap α} {i : Nat} {x : α} {notes : List (Note α)}
    (hp : updateAt less h i x = some (h', notes)) :
    i < h.a.length ∧ h'.gen = bump updateAtBumpsGen h.gen ∧
      h'.a = (percolateDown less (percolateUp less (h.a.set i x) i).1 i).1 ∧
      notes = notifyAt (h.a.set i x) i ++ (percolateUp less (h.a.set i x) i).2 ++
        (percolateDown less (percolateUp less (h.a.set i x) i).1 i).2 := by
  unfold updateAt at hp
  split at hp
  · rename_i hi
    simp only [updateAtSets, updateAtNotifies, updateAtSiftsUp, updateAtSiftsDown, if_true,
      Option.some.injEq, Prod.mk.injEq] at hp
    obtain ⟨rfl, rfl⟩ := hp
    exact ⟨hi, rfl, rfl, rfl⟩
  · cases hp

theorem updateAt_none_iff (less : α → α → Bool) (h : Heap α) (i : Nat) (x : α) :
    updateAt less h i x = none ↔ ¬ i < h.a.length := by
  unfold updateAt
  by_cases hi : i < h.a.length <;> simp [hi]

theorem updateAt_heapInv {less : α → α → Bool} (sw : StrictWeak less) {h h' : Heap α} {i : Nat} {x : α}
    {notes : List (Note α)} (hh : HeapInv less h.a) (hp : updateAt less h i x = some (h', notes)) :
    HeapInv less h'.a := by
  obtain ⟨hi, _, ha, _⟩ := updateAt_shape hp
  rw [ha]; exact replace_heapInv sw x hi hh

theorem updateAt_perm {less : α → α → Bool} {h h' : Heap α} {i : Nat} {x : α} {notes : List (Note α)}
    (hp : updateAt less h i x = some (h', notes)) :
    ∃ y, h.a[i]? = some y ∧ (y :: h'.a).Perm (x :: h.a) := by
  obtain ⟨hi, _, ha, _⟩ := updateAt_shape hp
  refine ⟨h.a[i], by simp [hi], ?_⟩
  rw [ha]
  exact (((percolateDown_perm _ _ _).trans (percolateUp_perm _ _ _)).cons _).trans
    (set_perm_cons (by simp [hi]))

/-! ## the root is a minimum -/

theorem heapInv_root_min {less : α → α → Bool} (sw : StrictWeak less) {a : List α} (h : HeapInv less a)
    {r : α} (hr : a[0]? = some r) : ∀ (j : Nat) (y : α), a[j]? = some y → less y r = false := by
  intro j
  induction j using Nat.strongRecOn with
  | _ j ih =>
    intro y hy
    by_cases hj : j = 0
    · subst hj; rw [hr] at hy; cases hy; exact sw.irrefl _
    · have hjl : j < a.length := by
        rcases Nat.lt_or_ge j a.length with hlt | hge
        · exact hlt
        · rw [List.getElem?_eq_none hge] at hy; cases hy
      obtain ⟨w, hw⟩ : ∃ w, a[(j - 1) / 2]? = some w := ⟨a[(j - 1) / 2]'(by omega), by simp⟩
      exact sw.neg_trans (h j y w (by omega) hy hw) (ih _ (by omega) w hw)

theorem isMin_root {less : α → α → Bool} (sw : StrictWeak less) {a : List α} (h : HeapInv less a)
    {r : α} (hr : a[0]? = some r) : IsMin less r a := by
  constructor
  · exact List.mem_of_getElem? hr
  · intro y hy
    obtain ⟨j, hj⟩ := List.getElem?_of_mem hy
    exact heapInv_root_min sw h hr j y hj

/-! ## `xheap.Heap`: each wrapper method is the inner method, given the generated fact that its body
is exactly the forwarding statement (the hypotheses are discharged by `decide` inside the property
theorems of `Props/C05`, `Props/C15Heap`) -/

theorem xpush_eq (hx : xPushForwards = true) (less : α → α → Bool) (h : Heap α) (x : α) :
    X.push less h x = (push less h x).1 := by simp [X.push, hx]

theorem xpop_eq (hx : xPopForwards = true) (less : α → α → Bool) (h : Heap α) :
    X.pop less h = (pop less h).map (fun r => (r.1, r.2.1)) := by simp [X.pop, hx]

theorem xpeek_eq (hx : xPeekForwards = true) (h : Heap α) : X.peek h = peek h := by simp [X.peek, hx]

theorem xlen_eq (hx : xLenForwards = true) (h : Heap α) : X.len h = len h := by simp [X.len, hx]

theorem xgrow_eq (hx : xGrowForwards = true) (h : Heap α) : X.grow h = grow h := by simp [X.grow, hx]

theorem xshrink_eq (hx : xShrinkForwards = true) (h : Heap α) : X.shrink h = shrink h := by
  simp [X.shrink, hx]

theorem xiterNext_eq (hx : xIterateForwards = true) (h : Heap α) (it : Iter) :
    X.iterNext h it = iterNext h it := by simp [X.iterNext, hx]

/-- what a successful / panicking `xheap.Heap.Pop` is in terms of the inner `Pop` -/
theorem xpop_some (hx : xPopForwards = true) {less : α → α → Bool} {h h' : Heap α} {x : α}
    (hp : X.pop less h = some (h', x)) : ∃ notes, pop less h = some (h', x, notes) := by
  rw [xpop_eq hx] at hp
  cases hq : pop less h with
  | none => rw [hq] at hp; cases hp
  | some r =>
    obtain ⟨h1, x1, n1⟩ := r
    rw [hq] at hp; simp at hp
    obtain ⟨rfl, rfl⟩ := hp
    exact ⟨n1, rfl⟩

theorem xpop_none (hx : xPopForwards = true) (less : α → α → Bool) (h : Heap α) :
    X.pop less h = none ↔ pop less h = none := by
  rw [xpop_eq hx]; cases pop less h <;> simp

/-! ## a concrete strict weak order for the non-vacuity examples -/

def ltN : Nat → Nat → Bool := fun a b => decide (a < b)

theorem ltN_sw : StrictWeak ltN :=
  ⟨by intro a; simp [ltN], by intro a b c; simp [ltN]; omega, by intro a b c; simp [ltN]; omega⟩

end Juniper.Proofs.Heap
