import Juniper.Proofs.DequeArith
/-!
# Representation relation of the deque model (helpers for C04, C15)

`Rep d l`: the ring state `d` represents the sequence `l`. It is stated cell by cell — ring
position `k` (0 = front) lives in raw slot `ridx front cap k` and holds `l[k]?`, so every position
behind the live window holds `none` — which makes every single-slot update a one-line case split.
-/
namespace Juniper.Proofs.Deque
open Juniper.Gen.Deque Juniper.Model.Deque

variable {α : Type}

/-! ## raw slot access -/

theorem slot_natCast (a : List (Option α)) (k : Nat) : slot a (k : Int) = a[k]? := by
  unfold slot
  have : ¬ ((k : Int) < 0) := by omega
  simp [this]

theorem slot_of_nonneg (a : List (Option α)) {i : Int} (h : 0 ≤ i) : slot a i = a[i.toNat]? := by
  unfold slot
  have : ¬ (i < 0) := by omega
  simp [this]

theorem setSlot_eq (a : List (Option α)) {p : Int} (v : Option α) (h0 : 0 ≤ p)
    (h1 : p < (a.length : Int)) : setSlot a p v = some (a.set p.toNat v) := by
  unfold setSlot
  have h2 : ¬ (p < 0) := by omega
  have h3 : p.toNat < a.length := by omega
  simp [h2, h3]

theorem slot_set (a : List (Option α)) {p q : Int} (v : Option α) (h0 : 0 ≤ p)
    (h1 : p < (a.length : Int)) (hq : 0 ≤ q) :
    slot (a.set p.toNat v) q = if q = p then some v else slot a q := by
  rw [slot_of_nonneg _ hq, slot_of_nonneg _ hq, List.getElem?_set]
  have h3 : p.toNat < a.length := by omega
  by_cases h : q = p
  · subst h; simp [h3]
  · have : p.toNat ≠ q.toNat := by omega
    simp [h, this]

/-! ## the representation relation -/

/-- Ring state `d` represents the sequence `l`. -/
structure Rep (d : Deque α) (l : List α) : Prop where
  nil_a : d.isNil = true → d.a = [] ∧ d.back = 0
  front_nonneg : 0 ≤ d.front
  front_lt : d.front < cap d ∨ (d.front = 0 ∧ cap d = 0)
  len_le : (l.length : Int) ≤ cap d
  front_empty : l = [] → d.front = 0
  back_empty : l = [] → d.isNil = false → d.back = -1
  back_nonempty : l ≠ [] → d.back = ridx d.front (cap d) ((l.length : Int) - 1)
  cells : ∀ k : Nat, (k : Int) < cap d → slot d.a (ridx d.front (cap d) k) = some l[k]?

theorem cap_nonneg (d : Deque α) : 0 ≤ cap d := by unfold cap; omega

theorem rep_zero : Rep (zero : Deque α) [] := by
  refine ⟨?_, ?_, ?_, ?_, ?_, ?_, ?_, ?_⟩ <;> simp [zero, cap]
  intro k hk; omega

theorem Rep.notNil_of_ne {d : Deque α} {l : List α} (h : Rep d l) (hl : l ≠ []) :
    d.isNil = false := by
  cases hn : d.isNil with
  | false => rfl
  | true =>
    have h1 := (h.nil_a hn).1
    have h2 := h.len_le
    have : l.length ≠ 0 := fun h0 => hl (List.eq_nil_of_length_eq_zero h0)
    simp only [cap, h1, List.length_nil] at h2; omega

theorem Rep.length_pos {l : List α} (hl : l ≠ []) : 0 < l.length :=
  List.length_pos_iff.mpr hl

/-- Bounds of `back` for a non-empty deque. -/
theorem Rep.back_bounds {d : Deque α} {l : List α} (h : Rep d l) (hl : l ≠ []) :
    0 ≤ d.back ∧ d.back < cap d := by
  have hb := h.back_nonempty hl
  have hp := Rep.length_pos hl
  have h1 := h.len_le; have h2 := h.front_nonneg; have h3 := h.front_lt
  have := ridx_cases d.front (cap d) ((l.length : Int) - 1)
  omega

/-- `Deque.Len` computes the length of the represented sequence. -/
theorem Rep.len_eq {d : Deque α} {l : List α} (h : Rep d l) : len d = l.length := by
  unfold len lenEmpty lenContig lenContigVal lenWrapVal
  by_cases hl : l = []
  · subst hl
    cases hn : d.isNil with
    | true => simp
    | false => simp [h.back_empty rfl hn]
  · have hn := h.notNil_of_ne hl
    have hb := h.back_nonempty hl
    have hp := Rep.length_pos hl
    have h1 := h.len_le; have h2 := h.front_nonneg; have h3 := h.front_lt
    have hc := ridx_cases d.front (cap d) ((l.length : Int) - 1)
    have hne : ¬ (d.back = -1) := by omega
    simp only [hn, hne, Bool.false_or, decide_false, Bool.false_eq_true, if_false]
    by_cases hfb : d.front ≤ d.back
    · simp only [hfb, decide_true, if_true]; omega
    · simp only [hfb, decide_false, Bool.false_eq_true, if_false]; omega

/-- The cell clause with natural-number indices. -/
theorem Rep.cells_nat {d : Deque α} {l : List α} (h : Rep d l) (k : Nat) (hk : k < d.a.length) :
    d.a[if d.front.toNat + k < d.a.length then d.front.toNat + k
        else d.front.toNat + k - d.a.length]? = some l[k]? := by
  have h0 := h.front_nonneg
  have hc := h.cells k (by unfold cap; omega)
  have hr := ridx_cases d.front (cap d) k
  unfold cap at hr hc
  rw [slot_of_nonneg _ (by omega)] at hc
  rw [← hc]
  congr 1
  split <;> omega

/-- The live window (what `resize` copies) is the represented sequence. -/
theorem Rep.window_eq {d : Deque α} {l : List α} (h : Rep d l) : window d = l.map some := by
  unfold window resizeCopies resizeContig
  by_cases hl : l = []
  · subst hl
    cases hn : d.isNil with
    | true => simp
    | false => simp [h.back_empty rfl hn]
  · have hn := h.notNil_of_ne hl
    have hb := h.back_nonempty hl
    have hp := Rep.length_pos hl
    have h1 := h.len_le; have h2 := h.front_nonneg; have h3 := h.front_lt
    have hc := ridx_cases d.front (cap d) ((l.length : Int) - 1)
    have hne : ¬ (d.back = -1) := by omega
    unfold cap at h1 h3 hc hb
    simp only [hn, hne, Bool.false_or, decide_false, Bool.not_false, if_true]
    apply List.ext_getElem?
    intro i
    rw [List.getElem?_map]
    by_cases hi : i < l.length
    · have hci := h.cells_nat i (by omega)
      rw [List.getElem?_eq_getElem hi] at hci ⊢
      by_cases hfb : d.front ≤ d.back
      · simp only [hfb, decide_true, if_true]
        rw [List.getElem?_take, List.getElem?_drop]
        have e1 : i < (d.back + 1 - d.front).toNat := by omega
        have e2 : d.front.toNat + i < d.a.length := by omega
        simp only [e1, if_true]
        simpa [e2] using hci
      · simp only [hfb, decide_false, Bool.false_eq_true, if_false]
        rw [List.getElem?_append, List.length_drop, List.getElem?_drop, List.getElem?_take]
        by_cases e2 : d.front.toNat + i < d.a.length
        · have e3 : i < d.a.length - d.front.toNat := by omega
          simpa [e2, e3] using hci
        · have e3 : ¬ i < d.a.length - d.front.toNat := by omega
          have e4 : i - (d.a.length - d.front.toNat) < (d.back + 1).toNat := by omega
          have e5 : i - (d.a.length - d.front.toNat) = d.front.toNat + i - d.a.length := by omega
          rw [if_neg e3, if_pos e4, e5]
          simpa [e2] using hci
    · rw [List.getElem?_eq_none (Nat.le_of_not_lt hi)]
      by_cases hfb : d.front ≤ d.back
      · simp only [hfb, decide_true, if_true]
        rw [List.getElem?_take]
        have e1 : ¬ i < (d.back + 1 - d.front).toNat := by omega
        simp [e1]
      · simp only [hfb, decide_false, Bool.false_eq_true, if_false]
        apply List.getElem?_eq_none
        simp only [List.length_append, List.length_drop, List.length_take]
        omega

/-! ## `resize`, `Grow`, `Shrink`, `maybeExpand` -/

theorem getElem?_map_some_append_replicate (l : List α) (m k : Nat) (hk : k < l.length + m) :
    (l.map some ++ List.replicate m (none : Option α))[k]? = some l[k]? := by
  rw [List.getElem?_append, List.length_map]
  by_cases h : k < l.length
  · simp [h]
  · have : k - l.length < m := by omega
    simp [h, this]

/-- A freshly unwrapped buffer (what `resize` builds) represents the same sequence. -/
theorem rep_fresh (l : List α) (m : Nat) (g : Int) :
    Rep { a := l.map some ++ List.replicate m none, isNil := false, front := 0,
          back := (l.length : Int) - 1, gen := g } l := by
  have hlen : (l.map some ++ List.replicate m (none : Option α)).length = l.length + m := by simp
  refine ⟨?_, ?_, ?_, ?_, ?_, ?_, ?_, ?_⟩
  · simp
  · simp
  · simp only [cap, hlen, true_and]; omega
  · simp only [cap, hlen]; omega
  · simp
  · intro hl _; subst hl; simp
  · intro hl
    have hp := Rep.length_pos hl
    simp only [cap, hlen]
    have := ridx_cases 0 ((l.length + m : Nat) : Int) ((l.length : Int) - 1)
    omega
  · intro k hk
    simp only [cap, hlen] at hk ⊢
    have hr := ridx_cases 0 ((l.length + m : Nat) : Int) (k : Int)
    have : ridx 0 ((l.length + m : Nat) : Int) (k : Int) = (k : Int) := by omega
    rw [this, slot_natCast]
    exact getElem?_map_some_append_replicate l m k (by omega)

/-- `resize(n)` with room for the contents: same sequence, capacity `n`, unwrapped. -/
theorem Rep.resize {d : Deque α} {l : List α} (h : Rep d l) {n : Int} (hn : (l.length : Int) ≤ n) :
    ∃ d', resize d n = .ok d' () ∧ Rep d' l ∧ cap d' = n ∧ d'.gen = bump resizeBumpsGen d.gen := by
  have hn0 : ¬ n < 0 := by omega
  have htake : (window d).take n.toNat = l.map some := by
    rw [h.window_eq]; apply List.take_of_length_le; simp; omega
  unfold Juniper.Model.Deque.resize
  simp only [hn0, if_false, htake, h.len_eq, resizeFront, resizeBack, List.length_map]
  refine ⟨_, rfl, rep_fresh l _ _, ?_, rfl⟩
  simp only [cap, List.length_append, List.length_map, List.length_replicate]
  omega

theorem le_bump (b : Bool) (g : Int) : g ≤ bump b g := by unfold bump; split <;> omega
theorem lt_bump {b : Bool} (hb : b = true) (g : Int) : g < bump b g := by
  subst hb; simp only [bump, if_true]; omega

/-- `Grow(n)`: contents unchanged; either nothing happens or the buffer is reallocated. -/
theorem Rep.grow {d : Deque α} {l : List α} (h : Rep d l) (n : Int) :
    ∃ d', grow d n = .ok d' () ∧ Rep d' l ∧ n ≤ cap d' - l.length ∧
      (d' = d ∨ d'.gen = bump resizeBumpsGen d.gen) := by
  unfold Juniper.Model.Deque.grow growExtra growCond growArg
  have h1 := h.len_le
  simp only [h.len_eq]
  by_cases hc : cap d - (l.length : Int) < n
  · simp only [hc, decide_true, if_true]
    obtain ⟨d', he, hr, hcap, hg⟩ := h.resize (n := cap d + n) (by omega)
    exact ⟨d', he, hr, by omega, Or.inr hg⟩
  · simp only [hc, decide_false, Bool.false_eq_true, if_false]
    exact ⟨d, rfl, h, by omega, Or.inl rfl⟩

/-- `Shrink(n)`, `n ≥ 0`: contents unchanged; at most `n` spare slots afterwards. -/
theorem Rep.shrink {d : Deque α} {l : List α} (h : Rep d l) {n : Int} (hn : 0 ≤ n) :
    ∃ d', shrink d n = .ok d' () ∧ Rep d' l ∧ cap d' - l.length ≤ n ∧
      (d' = d ∨ d'.gen = bump resizeBumpsGen d.gen) := by
  unfold Juniper.Model.Deque.shrink shrinkPanic shrinkCond shrinkArg
  have h1 := h.len_le
  have hn' : ¬ n < 0 := by omega
  simp only [h.len_eq, hn', decide_false, Bool.false_eq_true, if_false]
  by_cases hc : cap d - (l.length : Int) > n
  · simp only [hc, decide_true, if_true]
    obtain ⟨d', he, hr, hcap, hg⟩ := h.resize (n := (l.length : Int) + n) (by omega)
    exact ⟨d', he, hr, by omega, Or.inr hg⟩
  · simp only [hc, decide_false, Bool.false_eq_true, if_false]
    exact ⟨d, rfl, h, by omega, Or.inl rfl⟩

/-- `Shrink` with a negative argument panics and leaves the deque alone. -/
theorem shrink_neg (d : Deque α) {n : Int} (hn : n < 0) : shrink d n = .panic d := by
  unfold Juniper.Model.Deque.shrink shrinkPanic
  simp [hn]

/-- `maybeExpand`: afterwards there is room for one more element. -/
theorem Rep.maybeExpand {d : Deque α} {l : List α} (h : Rep d l) :
    ∃ d', maybeExpand d = .ok d' () ∧ Rep d' l ∧ (l.length : Int) < cap d' ∧
      (d' = d ∨ d'.gen = bump resizeBumpsGen d.gen) := by
  unfold Juniper.Model.Deque.maybeExpand expandCond expandArg
  have h1 := h.len_le
  have h0 := cap_nonneg d
  simp only [h.len_eq]
  by_cases hc : (l.length : Int) = cap d
  · simp only [hc, decide_true, if_true]
    have hm : minSize = 16 := rfl
    obtain ⟨d', he, hr, hcap, hg⟩ := h.resize (n := max minSize (cap d * 2)) (by omega)
    exact ⟨d', he, hr, by omega, Or.inr hg⟩
  · simp only [hc, decide_false, Bool.false_eq_true, if_false]
    exact ⟨d, rfl, h, by omega, Or.inl rfl⟩

end Juniper.Proofs.Deque
