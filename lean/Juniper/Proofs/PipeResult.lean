import Juniper.Proofs.PipeNoLoss
import Juniper.Proofs.PipeLive
/-!
What the calls *return* versus what happens to the ghost logs (audit C10 F2). The result of a call is
read off the regenerated arm bodies (`Gen.Pipe.sendBodies`, `trySendBodies1/2`, `nextBodies`,
`nextDrainBodies`, `nextEndStmts`) by `Model.Pipe.completions`; the lemmas here say, arm by arm, which
result goes with which change of `acked` / `ackedBC` / `delivered`. The facts about the bodies are
hypotheses (`SendBodies`, `TryBodies`, `NextBodies`) that the property theorems of `Props/C10.lean`
discharge by `decide`: a changed `return` statement breaks those theorems.
-/
set_option linter.unusedSimpArgs false
set_option linter.unusedVariables false
namespace Juniper.Proofs.Pipe
open Juniper.Facts Juniper.Gen.Pipe Juniper.Model.Pipe

/-- The arm bodies of `PipeSender.Send`. -/
structure SendBodies : Prop where
  ctx : sendBodies.lookup (.recv chCtx) = some ["return ctx.Err()"]
  stream : sendBodies.lookup (.recv chStreamDone) = some ["return ErrClosedPipe"]
  sender : sendBodies.lookup (.recv chSenderDone) = some ["return *s.senderErr"]
  data : sendBodies.lookup (.send chData) = some ["return nil"]
  only : sendArms.all (fun a => a == .recv chCtx || a == .recv chStreamDone || a == .recv chSenderDone ||
    a == .send chData) = true

/-- The arm bodies of the two selects of `PipeSender.TrySend`. -/
structure TryBodies : Prop where
  ctx : trySendBodies1.lookup (.recv chCtx) = some ["return false, ctx.Err()"]
  stream : trySendBodies1.lookup (.recv chStreamDone) = some ["return false, ErrClosedPipe"]
  sender : trySendBodies1.lookup (.recv chSenderDone) = some ["return false, *s.senderErr"]
  dflt1 : trySendBodies1.lookup .dflt = some []
  only1 : trySendArms1.all (fun a => a == .recv chCtx || a == .recv chStreamDone || a == .recv chSenderDone ||
    a == .dflt) = true
  data : trySendBodies2.lookup (.send chData) = some ["return true, nil"]
  dflt2 : trySendBodies2.lookup .dflt = some ["return false, nil"]
  only2 : trySendArms2.all (fun a => a == .send chData || a == .dflt) = true

/-- The arm bodies of `pipeStream.Next`, of its drain, and the report. -/
structure NextBodies : Prop where
  ctx : nextBodies.lookup (.recv chCtx) = some ["return zero, ctx.Err()"]
  data : nextBodies.lookup (.recv chData) = some ["bind item:=", "return item, nil"]
  only : nextArms.all (fun a => a == .recv chCtx || a == .recv chData || a == .recv chSenderDone) = true
  drains : nextDrains = true
  drainData : nextDrainBodies.lookup (.recv chData) = some ["bind item:=", "return item, nil"]
  drainDflt : nextDrainBodies.lookup .dflt = some []
  drainOnly : nextDrainArms.all (fun a => a == .recv chData || a == .dflt) = true
  endStmts : nextEndStmts = ["err := *s.senderErr", "if err != nil {", "return zero, err", "}", "return zero, End"]

/-- What `Next` reports: the error the sender was closed with, the normal end if that was `nil`. -/
def endRes (st : State) : Res := if st.senderErr then .err else .fin

theorem endResult_eq (hN : NextBodies) (st : State) : endResult st = endRes st := by
  simp [endResult, endRes, hN.endStmts]

theorem contains_of_getElem? {st : State} {i : Nat} {sd : Sender} (h : st.senders[i]? = some sd) :
    sd ∈ st.senders := List.mem_of_getElem? h

/-! ### Send -/

/-- A step of the `select` of `Send`: the data arm returns `nil` and commits the message; every other
arm returns its error and changes nothing but the call's pc. -/
theorem send_arm_result {st st' : State} {i : Nat} {sd : Sender} {m : Msg} {p : Bool} {a : Arm}
    (hB : SendBodies) (hsd : st.senders[i]? = some sd) (hpc : sd.pc = .send m p)
    (hs : step st (.sender i a) = some st') :
    (a = .send chData ∧ completions st (.sender i a) = [(.sender i, .nil)] ∧
      st' = { commit (st.setSender i { sd with pc := .idle }) m with buf := st.buf ++ [m] }) ∨
    (st' = st.setSender i { sd with pc := .idle } ∧
      ((a = .recv chCtx ∧ sd.ctx = true ∧ completions st (.sender i a) = [(.sender i, .ctx)]) ∨
       (a = .recv chStreamDone ∧ st.streamDone = true ∧ completions st (.sender i a) = [(.sender i, .closed)]) ∨
       (a = .recv chSenderDone ∧ st.senderDone = true ∧
          completions st (.sender i a) = [(.sender i, if st.senderErr then .err else .nil)]))) := by
  obtain ⟨sd0, m0, hsd0, hm0, htab, hcase⟩ := step_sender hs
  rw [hsd] at hsd0; cases hsd0
  have hm : m0 = m := by rw [hpc] at hm0; simpa [SPc.msg?] using hm0.symm
  subst hm
  have hafter : ∀ a, sd.pc.after a = .idle := fun a => by rw [hpc]; exact after_send_pc _ p a
  have hmem : a ∈ sendArms := by rw [hpc] at htab; simpa [tableOf] using htab
  have hone := List.all_eq_true.mp hB.only a hmem
  simp only [Bool.or_eq_true, beq_iff_eq] at hone
  have hcomp : completions st (.sender i a) = [(.sender i, bodyResult st (sendBodies.lookup a) none)] := by
    simp [completions, hsd, hpc, bodiesOf, after_send_pc]
  rcases hcase with ⟨rfl, hready⟩ | ⟨ch, rfl, hr, rfl⟩
  · right
    refine ⟨by rw [hafter], ?_⟩
    rcases hready with ⟨ch, rfl, hr⟩ | ⟨rfl, _⟩
    · rcases hone with ((h | h) | h) | h
      · cases h
        refine Or.inl ⟨rfl, ?_, by rw [hcomp, hB.ctx]; rfl⟩
        simpa [sReady, chCtx, chStreamDone, chSenderDone] using hr
      · cases h
        refine Or.inr (Or.inl ⟨rfl, ?_, by rw [hcomp, hB.stream]; rfl⟩)
        simpa [sReady, chCtx, chStreamDone, chSenderDone] using hr
      · cases h
        refine Or.inr (Or.inr ⟨rfl, ?_, by rw [hcomp, hB.sender]; rfl⟩)
        simpa [sReady, chCtx, chStreamDone, chSenderDone] using hr
      · cases h
    · rcases hone with ((h | h) | h) | h <;> cases h
  · left
    rcases hone with ((h | h) | h) | h
    · cases h
    · cases h
    · cases h
    · cases h
      exact ⟨rfl, by rw [hcomp, hB.data]; rfl, by rw [hafter]⟩

/-! ### TrySend -/

theorem after_try1 (hB : TryBodies) (m : Msg) (a : Arm) (ha : a ∈ trySendArms1) :
    (SPc.try1 m).after a = if a = .dflt then .try2 m else .idle := by
  have hone := List.all_eq_true.mp hB.only1 a ha
  simp only [Bool.or_eq_true, beq_iff_eq] at hone
  rcases hone with ((h | h) | h) | h <;> subst h
  · simp [SPc.after, bodiesOf, hB.ctx]
  · simp [SPc.after, bodiesOf, hB.stream]
  · simp [SPc.after, bodiesOf, hB.sender]
  · simp [SPc.after, bodiesOf, hB.dflt1, SPc.fallThrough]

/-- A step of the first `select` of `TrySend`: `default` does **not** return — the call moves on to the
second `select`, nothing else changes —, every other arm returns its error (or `false` after a
`Close(nil)`) and changes nothing but the call's pc. No arm touches the logs. -/
theorem try1_arm_result {st st' : State} {i : Nat} {sd : Sender} {m : Msg} {a : Arm}
    (hB : TryBodies) (hsd : st.senders[i]? = some sd) (hpc : sd.pc = .try1 m)
    (hs : step st (.sender i a) = some st') :
    (a = .dflt ∧ completions st (.sender i a) = [] ∧ st' = st.setSender i { sd with pc := .try2 m }) ∨
    (st' = st.setSender i { sd with pc := .idle } ∧
      ((a = .recv chCtx ∧ sd.ctx = true ∧ completions st (.sender i a) = [(.sender i, .ctx)]) ∨
       (a = .recv chStreamDone ∧ st.streamDone = true ∧ completions st (.sender i a) = [(.sender i, .closed)]) ∨
       (a = .recv chSenderDone ∧ st.senderDone = true ∧
          completions st (.sender i a) = [(.sender i, if st.senderErr then .err else .fls)]))) := by
  obtain ⟨sd0, m0, hsd0, hm0, htab, hcase⟩ := step_sender hs
  rw [hsd] at hsd0; cases hsd0
  have hmem : a ∈ trySendArms1 := by rw [hpc] at htab; simpa [tableOf] using htab
  have hafter := after_try1 hB m a hmem
  have hone := List.all_eq_true.mp hB.only1 a hmem
  simp only [Bool.or_eq_true, beq_iff_eq] at hone
  rcases hcase with ⟨rfl, hready⟩ | ⟨ch, rfl, hr, rfl⟩
  · rcases hone with ((h | h) | h) | h <;> subst h
    · right
      refine ⟨by rw [hpc, hafter]; simp, Or.inl ⟨rfl, ?_, ?_⟩⟩
      · rcases hready with ⟨ch, _, hr⟩ | ⟨h, _⟩
        · simpa [sReady, chCtx, chStreamDone, chSenderDone] using hr
        · cases h
      · simp [completions, hsd, hpc, hafter, bodiesOf, hB.ctx, bodyResult]
    · right
      refine ⟨by rw [hpc, hafter]; simp, Or.inr (Or.inl ⟨rfl, ?_, ?_⟩)⟩
      · rcases hready with ⟨ch, _, hr⟩ | ⟨h, _⟩
        · simpa [sReady, chCtx, chStreamDone, chSenderDone] using hr
        · cases h
      · simp [completions, hsd, hpc, hafter, bodiesOf, hB.stream, bodyResult]
    · right
      refine ⟨by rw [hpc, hafter]; simp, Or.inr (Or.inr ⟨rfl, ?_, ?_⟩)⟩
      · rcases hready with ⟨ch, _, hr⟩ | ⟨h, _⟩
        · simpa [sReady, chCtx, chStreamDone, chSenderDone] using hr
        · cases h
      · simp [completions, hsd, hpc, hafter, bodiesOf, hB.sender, bodyResult]
    · left
      refine ⟨rfl, ?_, by rw [hpc, hafter]; simp⟩
      simp [completions, hsd, hpc, hafter]
  · rcases hone with ((h | h) | h) | h <;> cases h

theorem after_try2 (hB : TryBodies) (m : Msg) (a : Arm) (ha : a ∈ trySendArms2) :
    (SPc.try2 m).after a = .idle := by
  have hone := List.all_eq_true.mp hB.only2 a ha
  simp only [Bool.or_eq_true, beq_iff_eq] at hone
  rcases hone with h | h <;> subst h
  · simp [SPc.after, bodiesOf, hB.data]
  · simp [SPc.after, bodiesOf, hB.dflt2]

/-- A step of the second `select` of `TrySend`: the data arm returns `true` and commits the message,
`default` returns `false` and changes nothing but the call's pc. -/
theorem try2_arm_result {st st' : State} {i : Nat} {sd : Sender} {m : Msg} {a : Arm}
    (hB : TryBodies) (hsd : st.senders[i]? = some sd) (hpc : sd.pc = .try2 m)
    (hs : step st (.sender i a) = some st') :
    (a = .send chData ∧ completions st (.sender i a) = [(.sender i, .tru)] ∧
      st' = { commit (st.setSender i { sd with pc := .idle }) m with buf := st.buf ++ [m] }) ∨
    (a = .dflt ∧ completions st (.sender i a) = [(.sender i, .fls)] ∧
      st' = st.setSender i { sd with pc := .idle }) := by
  obtain ⟨sd0, m0, hsd0, hm0, htab, hcase⟩ := step_sender hs
  rw [hsd] at hsd0; cases hsd0
  have hm : m0 = m := by rw [hpc] at hm0; simpa [SPc.msg?] using hm0.symm
  subst hm
  have hmem : a ∈ trySendArms2 := by rw [hpc] at htab; simpa [tableOf] using htab
  have hafter := after_try2 hB m0 a hmem
  have hone := List.all_eq_true.mp hB.only2 a hmem
  simp only [Bool.or_eq_true, beq_iff_eq] at hone
  rcases hcase with ⟨rfl, hready⟩ | ⟨ch, rfl, hr, rfl⟩
  · rcases hone with h | h <;> subst h
    · rcases hready with ⟨ch, h, _⟩ | ⟨h, _⟩ <;> cases h
    · right
      refine ⟨rfl, ?_, by rw [hpc, hafter]⟩
      simp [completions, hsd, hpc, hafter, bodiesOf, hB.dflt2, bodyResult]
  · rcases hone with h | h
    · cases h
      left
      refine ⟨rfl, ?_, by rw [hpc, hafter]⟩
      simp [completions, hsd, hpc, hafter, bodiesOf, hB.data, bodyResult]
    · cases h

/-! ### Rendez-vous -/

/-- The rendez-vous: the sender's call returns success (`Send`: `nil`, `TrySend`: `true`), `Next` returns
the value, and the message is committed and delivered in the same step. -/
theorem handoff_result {st st' : State} {i : Nat} {sd : Sender}
    (hS : SendBodies) (hT : TryBodies) (hN : NextBodies) (hT1 : noSendArm trySendArms1 = true)
    (hsd : st.senders[i]? = some sd) (hs : step st (.handoff i) = some st') :
    ∃ m, sd.pc.msg? = some m ∧
      (((∃ p, sd.pc = .send m p) ∧ completions st (.handoff i) = [(.sender i, .nil), (.recv, .val m.val)]) ∨
       (sd.pc = .try2 m ∧ completions st (.handoff i) = [(.sender i, .tru), (.recv, .val m.val)])) ∧
      st' = { commit (st.setSender i { sd with pc := .idle }) m with
              rpc := .idle, delivered := st.delivered ++ [m] } := by
  obtain ⟨sd0, m, hsd0, hm, hc, rfl⟩ := step_handoff hs
  rw [hsd] at hsd0; cases hsd0
  obtain ⟨_, htab, hacc⟩ := canHandoff_facts hc
  have hrbody : (rbodiesOf st.rpc).lookup (.recv chData) = some ["bind item:=", "return item, nil"] := by
    simp only [accepts] at hacc
    cases hr : st.rpc with
    | idle => simp [hr, rtableOf] at hacc
    | next p => simp [rbodiesOf, hN.data]
    | drain => simp [rbodiesOf, hN.drainData]
  refine ⟨m, hm, ?_, ?_⟩
  · cases hpc : sd.pc with
    | idle => simp [hpc, SPc.msg?] at hm
    | try1 m' =>
      exfalso
      rw [hpc] at htab
      simp only [tableOf] at htab
      have := List.all_eq_true.mp hT1 (.send chData) (by simpa using htab)
      simp at this
    | send m' p =>
      have : m' = m := by simpa [hpc, SPc.msg?] using hm
      subst this
      left
      refine ⟨⟨p, rfl⟩, ?_⟩
      simp [completions, hsd, hpc, after_send_pc, bodiesOf, hS.data, hrbody, bodyResult, SPc.msg?]
    | try2 m' =>
      have : m' = m := by simpa [hpc, SPc.msg?] using hm
      subst this
      right
      refine ⟨rfl, ?_⟩
      have hmem : Arm.send chData ∈ trySendArms2 := by rw [hpc] at htab; simpa [tableOf] using htab
      simp [completions, hsd, hpc, after_try2 hT m' _ hmem, bodiesOf, hT.data, hrbody, bodyResult, SPc.msg?]
  · have : sd.pc.after (.send chData) = .idle := by
      cases hpc : sd.pc with
      | idle => simp [hpc, SPc.msg?] at hm
      | try1 m' =>
        exfalso
        rw [hpc] at htab
        simp only [tableOf] at htab
        have := List.all_eq_true.mp hT1 (.send chData) (by simpa using htab)
        simp at this
      | send m' p => exact after_send_pc _ _ _
      | try2 m' =>
        have hmem : Arm.send chData ∈ trySendArms2 := by rw [hpc] at htab; simpa [tableOf] using htab
        exact after_try2 hT m' _ hmem
    rw [this]

/-! ### Next -/

/-- A step of the receiver's selects: the data arm (of the main `select` or of the drain) returns the
head of the buffer and appends it to `delivered`; the context arm returns the context's error; the
`senderDone` arm of the main `select` does not return (it enters the drain); the drain's `default` does
not return a value: it falls through to the report, which is the close error or `End`. Only the data
arm touches `delivered`. -/
theorem recv_result {st st' : State} {a : Arm} (hN : NextBodies) (hs : step st (.recv a) = some st') :
    (∃ m rest, a = .recv chData ∧ st.buf = m :: rest ∧ completions st (.recv a) = [(.recv, .val m.val)] ∧
      st' = { st with buf := rest, delivered := st.delivered ++ [m], rpc := .idle }) ∨
    (a = .recv chSenderDone ∧ st.rpc.isNext = true ∧ st.senderDone = true ∧ completions st (.recv a) = [] ∧
      st' = { st with rpc := .drain }) ∨
    (a = .recv chCtx ∧ st.rpc.isNext = true ∧ st.rctx = true ∧ completions st (.recv a) = [(.recv, .ctx)] ∧
      st' = { st with rpc := .idle }) ∨
    (a = .dflt ∧ st.rpc = .drain ∧ completions st (.recv a) = [(.recv, endRes st)] ∧
      reportsEnd st (.recv a) = true ∧ st' = reportEnd st) := by
  obtain ⟨htab, hcase⟩ := step_recv hs
  have hmemDrain : ∀ x, x ∈ nextDrainArms → x = .recv chData ∨ x = .dflt := by
    intro x hx
    have := List.all_eq_true.mp hN.drainOnly x hx
    simpa using this
  have hmemNext : ∀ x, x ∈ nextArms → x = .recv chCtx ∨ x = .recv chData ∨ x = .recv chSenderDone := by
    intro x hx
    have := List.all_eq_true.mp hN.only x hx
    simpa [or_assoc] using this
  rcases hcase with ⟨m, rest, rfl, hbuf, rfl⟩ | ⟨rfl, hsd, hn, _, rfl⟩ | ⟨rfl, _, hnot, rfl⟩ | ⟨ch, rfl, h1, h2, rfl⟩ |
      ⟨rfl, hrpc, _, rfl⟩
  · refine Or.inl ⟨m, rest, rfl, hbuf, ?_, rfl⟩
    cases hr : st.rpc with
    | idle => simp [hr, rtableOf] at htab
    | next p => simp [completions, hr, rbodiesOf, hN.data, bodyResult, hbuf, chData, chSenderDone]
    | drain => simp [completions, hr, rbodiesOf, hN.drainData, bodyResult, hbuf, chData, chSenderDone]
  · refine Or.inr (Or.inl ⟨rfl, hn, hsd, ?_, rfl⟩)
    simp [completions, hn, hN.drains]
  · exfalso
    have hnn : st.rpc.isNext = false := by simpa [hN.drains] using hnot
    cases hr : st.rpc with
    | idle => simp [hr, rtableOf] at htab
    | next p => simp [hr, RPc.isNext] at hnn
    | drain =>
      rw [hr] at htab
      have := hmemDrain _ (by simpa [rtableOf] using htab)
      rcases this with h | h
      · simp [chData, chSenderDone] at h
      · cases h
  · cases hr : st.rpc with
    | idle => simp [hr, rtableOf] at htab
    | drain =>
      exfalso
      rw [hr] at htab
      have := hmemDrain _ (by simpa [rtableOf] using htab)
      rcases this with h | h
      · cases h; exact h1 rfl
      · cases h
    | next p =>
      rw [hr] at htab
      have := hmemNext _ (by simpa [rtableOf] using htab)
      rcases this with h | h | h
      · cases h
        refine Or.inr (Or.inr (Or.inl ⟨rfl, by simp [hr, RPc.isNext], ?_, ?_, rfl⟩))
        · have hready : rReady st (.recv chCtx) = true := by
            cases hrr : rReady st (.recv chCtx) with
            | true => rfl
            | false => simp [step, hr, rtableOf, htab, hrr] at hs
          simpa [rReady, chCtx, chData, chSenderDone] using hready
        · simp [completions, hr, rbodiesOf, hN.ctx, bodyResult, chCtx, chSenderDone]
      · cases h; exact absurd rfl h1
      · cases h; exact absurd rfl h2
  · refine Or.inr (Or.inr (Or.inr ⟨rfl, hrpc, ?_, rfl, rfl⟩))
    simp [completions, hrpc, rbodiesOf, hN.drainDflt, endResult_eq hN]

/-! ### Every label: results versus logs -/

theorem completions_sender_only {st : State} {i : Nat} {a : Arm} :
    ∀ c ∈ completions st (.sender i a), c.1 = .sender i := by
  intro c hc
  simp only [completions] at hc
  split at hc
  · simp at hc
  · split at hc
    · simp at hc; subst hc; rfl
    · simp at hc

theorem completions_recv_only {st : State} {a : Arm} : ∀ c ∈ completions st (.recv a), c.1 = .recv := by
  intro c hc
  simp only [completions] at hc
  split at hc
  · split at hc
    · split at hc
      · simp at hc
      · simp at hc; subst hc; rfl
    · simp at hc; subst hc; rfl
  · split at hc <;> (simp at hc; subst hc; rfl)
  · simp at hc

/-- The bodies of all three functions. -/
structure Bodies : Prop where
  send : SendBodies
  try_ : TryBodies
  next : NextBodies
  noSend1 : noSendArm trySendArms1 = true

/-- **Sender results versus the commit logs**, for every label: either the step commits the message `m` of
the call in flight of some sender `i` (`acked` grows by `m`, `ackedBC` too unless the sender is already
closed) and that call returns success in this very step (`Send`: `nil`, `TrySend`: `true`); or the step
leaves both logs alone, and then no call returns `true`, and a `Send` returns `nil` only from the
`senderDone` arm after a `Close(nil)`. -/
theorem step_commit_results {st st' : State} {l : Label} (hB : Bodies) (hs : step st l = some st') :
    (∃ i sd m, st.senders[i]? = some sd ∧ sd.pc.msg? = some m ∧ st'.acked = st.acked ++ [m] ∧
      st'.ackedBC = (if st.senderDone then st.ackedBC else st.ackedBC ++ [m]) ∧
      (l = .handoff i ∨ ∃ a, l = .sender i a) ∧
      ((.sender i, .nil) ∈ completions st l ∨ (.sender i, .tru) ∈ completions st l)) ∨
    (st'.acked = st.acked ∧ st'.ackedBC = st.ackedBC ∧
      ∀ i r, (Who.sender i, r) ∈ completions st l → r ≠ .tru ∧ (r = .nil → st.senderDone = true)) := by
  have envCase : ∀ {s : State}, completions st l = [] → s.acked = st.acked → s.ackedBC = st.ackedBC →
      (s.acked = st.acked ∧ s.ackedBC = st.ackedBC ∧
        ∀ i r, (Who.sender i, r) ∈ completions st l → r ≠ .tru ∧ (r = .nil → st.senderDone = true)) := by
    intro s h1 h2 h3
    exact ⟨h2, h3, by intro i r h; rw [h1] at h; simp at h⟩
  cases l with
  | startSend i v c =>
    obtain ⟨sd, _, _, rfl⟩ := step_startCall (by simpa [step] using hs)
    exact Or.inr (envCase rfl rfl rfl)
  | startTry i v c =>
    obtain ⟨sd, _, _, rfl⟩ := step_startCall (by simpa [step] using hs)
    exact Or.inr (envCase rfl rfl rfl)
  | startNext c =>
    simp only [step] at hs; split at hs
    · simp at hs; subst hs; exact Or.inr (envCase rfl rfl rfl)
    · simp at hs
  | cancelSender i => obtain ⟨sd, _, rfl⟩ := step_cancelSender hs; exact Or.inr (envCase rfl rfl rfl)
  | cancelNext =>
    simp only [step] at hs; split at hs
    · simp at hs
    · simp at hs; subst hs; exact Or.inr (envCase rfl rfl rfl)
  | closeSender e =>
    simp only [step] at hs; split at hs
    · simp at hs
    · simp at hs; subst hs; exact Or.inr (envCase rfl rfl rfl)
  | closeRecv =>
    simp only [step] at hs; split at hs
    · simp at hs; subst hs; exact Or.inr (envCase rfl rfl rfl)
    · simp at hs
  | park i => obtain ⟨sd, m, _, _, _, rfl⟩ := step_park hs; exact Or.inr (envCase rfl rfl rfl)
  | parkRecv => obtain ⟨_, _, rfl⟩ := step_parkRecv hs; exact Or.inr (envCase rfl rfl rfl)
  | recv a =>
    right
    have hlogs : st'.acked = st.acked ∧ st'.ackedBC = st.ackedBC := by
      obtain ⟨_, hcase⟩ := step_recv hs
      rcases hcase with ⟨m, rest, _, _, rfl⟩ | ⟨_, _, _, _, rfl⟩ | ⟨_, _, _, rfl⟩ | ⟨ch, _, _, _, rfl⟩ | ⟨_, _, _, rfl⟩ <;>
        exact ⟨rfl, rfl⟩
    refine ⟨hlogs.1, hlogs.2, ?_⟩
    intro i r h
    have := completions_recv_only _ h
    cases this
  | handoff i =>
    left
    obtain ⟨sd, m0, hsd, hm0, _, _⟩ := step_handoff hs
    obtain ⟨m, hm, hres, rfl⟩ := handoff_result hB.send hB.try_ hB.next hB.noSend1 hsd hs
    refine ⟨i, sd, m, hsd, hm, by simp [commit, State.setSender], by cases hdn : st.senderDone <;> simp [commit, State.setSender, hdn], Or.inl rfl, ?_⟩
    rcases hres with ⟨_, h⟩ | ⟨_, h⟩
    · left; rw [h]; simp
    · right; rw [h]; simp
  | sender i a =>
    obtain ⟨sd, m, hsd, hm, _, _⟩ := step_sender hs
    have notI : ∀ {j r}, (Who.sender j, r) ∈ completions st (.sender i a) → j = i := by
      intro j r h
      have := completions_sender_only _ h
      simpa using this
    cases hpc : sd.pc with
    | idle => simp [hpc, SPc.msg?] at hm
    | send m' p =>
      have : m' = m := by simpa [hpc, SPc.msg?] using hm
      subst this
      rcases send_arm_result hB.send hsd hpc hs with ⟨rfl, hc, rfl⟩ | ⟨rfl, hc⟩
      · left
        exact ⟨i, sd, m', hsd, hm, by simp [commit, State.setSender], by cases hdn : st.senderDone <;> simp [commit, State.setSender, hdn],
          Or.inr ⟨_, rfl⟩, Or.inl (by rw [hc]; simp)⟩
      · right
        refine ⟨rfl, rfl, ?_⟩
        intro j r h
        rcases hc with ⟨_, _, hc⟩ | ⟨_, _, hc⟩ | ⟨_, hdone, hc⟩ <;> rw [hc] at h <;> simp at h <;> obtain ⟨_, rfl⟩ := h
        · simp
        · simp
        · constructor
          · split <;> simp
          · intro _; exact hdone
    | try1 m' =>
      right
      rcases try1_arm_result hB.try_ hsd hpc hs with ⟨_, hc, rfl⟩ | ⟨rfl, hc⟩
      · exact envCase hc rfl rfl
      · refine ⟨rfl, rfl, ?_⟩
        intro j r h
        rcases hc with ⟨_, _, hc⟩ | ⟨_, _, hc⟩ | ⟨_, hdone, hc⟩ <;> rw [hc] at h <;> simp at h <;> obtain ⟨_, rfl⟩ := h
        · simp
        · simp
        · constructor
          · split <;> simp
          · split <;> simp
    | try2 m' =>
      have : m' = m := by simpa [hpc, SPc.msg?] using hm
      subst this
      rcases try2_arm_result hB.try_ hsd hpc hs with ⟨rfl, hc, rfl⟩ | ⟨rfl, hc, rfl⟩
      · left
        exact ⟨i, sd, m', hsd, hm, by simp [commit, State.setSender], by cases hdn : st.senderDone <;> simp [commit, State.setSender, hdn],
          Or.inr ⟨_, rfl⟩, Or.inr (by rw [hc]; simp)⟩
      · right
        refine ⟨rfl, rfl, ?_⟩
        intro j r h
        rw [hc] at h
        simp at h
        obtain ⟨_, rfl⟩ := h
        simp

/-- **Receiver results versus `delivered`**, for every label: either the step appends one message `m` to
`delivered` (it is a data arm of `Next` or a rendez-vous) and `Next` returns exactly `m`'s value in this
very step; or `delivered` is untouched, and then `Next` returns no value: if it returns at all it returns
its context's error or — in a step that reports — the close error / `End` (`endRes`). -/
theorem step_delivery_results {st st' : State} {l : Label} (hB : Bodies) (hs : step st l = some st') :
    (∃ m, st'.delivered = st.delivered ++ [m] ∧ deliversValue l = true ∧
      ∀ r, (Who.recv, r) ∈ completions st l ↔ r = .val m.val) ∨
    (st'.delivered = st.delivered ∧
      ∀ r, (Who.recv, r) ∈ completions st l → r = .ctx ∨ (r = endRes st ∧ reportsEnd st l = true)) := by
  have envCase : ∀ {s : State}, completions st l = [] → s.delivered = st.delivered →
      (s.delivered = st.delivered ∧
        ∀ r, (Who.recv, r) ∈ completions st l → r = .ctx ∨ (r = endRes st ∧ reportsEnd st l = true)) := by
    intro s h1 h2
    exact ⟨h2, by intro r h; rw [h1] at h; simp at h⟩
  cases l with
  | startSend i v c =>
    obtain ⟨sd, _, _, rfl⟩ := step_startCall (by simpa [step] using hs)
    exact Or.inr (envCase rfl rfl)
  | startTry i v c =>
    obtain ⟨sd, _, _, rfl⟩ := step_startCall (by simpa [step] using hs)
    exact Or.inr (envCase rfl rfl)
  | startNext c =>
    simp only [step] at hs; split at hs
    · simp at hs; subst hs; exact Or.inr (envCase rfl rfl)
    · simp at hs
  | cancelSender i => obtain ⟨sd, _, rfl⟩ := step_cancelSender hs; exact Or.inr (envCase rfl rfl)
  | cancelNext =>
    simp only [step] at hs; split at hs
    · simp at hs
    · simp at hs; subst hs; exact Or.inr (envCase rfl rfl)
  | closeSender e =>
    simp only [step] at hs; split at hs
    · simp at hs
    · simp at hs; subst hs; exact Or.inr (envCase rfl rfl)
  | closeRecv =>
    simp only [step] at hs; split at hs
    · simp at hs; subst hs; exact Or.inr (envCase rfl rfl)
    · simp at hs
  | park i => obtain ⟨sd, m, _, _, _, rfl⟩ := step_park hs; exact Or.inr (envCase rfl rfl)
  | parkRecv => obtain ⟨_, _, rfl⟩ := step_parkRecv hs; exact Or.inr (envCase rfl rfl)
  | sender i a =>
    right
    have hd : st'.delivered = st.delivered := by
      obtain ⟨sd, m, _, _, _, hcase⟩ := step_sender hs
      rcases hcase with ⟨rfl, _⟩ | ⟨ch, rfl, _, rfl⟩ <;> rfl
    refine ⟨hd, ?_⟩
    intro r h
    have := completions_sender_only _ h
    cases this
  | handoff i =>
    left
    obtain ⟨sd, m0, hsd, _, _, _⟩ := step_handoff hs
    obtain ⟨m, _, hres, rfl⟩ := handoff_result hB.send hB.try_ hB.next hB.noSend1 hsd hs
    refine ⟨m, rfl, rfl, ?_⟩
    intro r
    rcases hres with ⟨_, h⟩ | ⟨_, h⟩ <;> rw [h] <;> simp
  | recv a =>
    rcases recv_result hB.next hs with ⟨m, rest, rfl, _, hc, rfl⟩ | ⟨rfl, _, _, hc, rfl⟩ | ⟨rfl, _, _, hc, rfl⟩ |
        ⟨rfl, _, hc, hrep, rfl⟩
    · left
      refine ⟨m, rfl, by simp [deliversValue], ?_⟩
      intro r; rw [hc]; simp
    · exact Or.inr (envCase hc rfl)
    · right
      refine ⟨rfl, ?_⟩
      intro r h; rw [hc] at h; simp at h; exact Or.inl h
    · right
      refine ⟨rfl, ?_⟩
      intro r h; rw [hc] at h; simp at h; exact Or.inr ⟨h, hrep⟩

/-! ### Along a run -/

/-- A message whose call returned success before the sender's `Close` was committed before it. -/
theorem okReturns_committed {st st' : State} {l : Label} (hB : Bodies) (hs : step st l = some st')
    (hopen : st.senderDone = false) : ∀ m ∈ okReturns st l, m ∈ st'.ackedBC := by
  intro m hm
  have key : ∀ i, (l = .handoff i ∨ ∃ a, l = .sender i a) →
      ∀ sd mm, st.senders[i]? = some sd → sd.pc.msg? = some mm →
      ((completions st l).contains (.sender i, .nil) || (completions st l).contains (.sender i, .tru)) = true →
      mm ∈ st'.ackedBC := by
    intro i hl sd mm hsd hmm hok
    rcases step_commit_results hB hs with ⟨j, sdj, mj, hsdj, hmj, _, hbc, hlj, _⟩ | ⟨_, _, hno⟩
    · have hij : j = i := by
        rcases hl with rfl | ⟨a, rfl⟩ <;> rcases hlj with h | ⟨b, h⟩ <;> cases h <;> rfl
      subst hij
      rw [hsd] at hsdj; cases hsdj
      rw [hmm] at hmj; cases hmj
      rw [hbc]; simp [hopen]
    · exfalso
      simp only [Bool.or_eq_true, List.contains_iff_mem] at hok
      rcases hok with h | h
      · have := (hno i .nil h).2 rfl
        rw [hopen] at this; cases this
      · exact (hno i .tru h).1 rfl
  cases l with
  | sender i a =>
    simp only [okReturns] at hm
    split at hm
    · simp at hm
    · rename_i sd hsd
      split at hm
      · simp at hm
      · rename_i mm hmm
        split at hm
        · rename_i hok
          simp at hm; subst hm
          exact key i (Or.inr ⟨a, rfl⟩) sd _ hsd hmm hok
        · simp at hm
  | handoff i =>
    simp only [okReturns] at hm
    split at hm
    · simp at hm
    · rename_i sd hsd
      split at hm
      · simp at hm
      · rename_i mm hmm
        split at hm
        · rename_i hok
          simp at hm; subst hm
          exact key i (Or.inl rfl) sd _ hsd hmm hok
        · simp at hm
  | _ => simp [okReturns] at hm

/-- `ackedBC` only grows. -/
theorem ackedBC_mono_step {st st' : State} {l : Label} (hB : Bodies) (hs : step st l = some st') :
    ∀ m ∈ st.ackedBC, m ∈ st'.ackedBC := by
  intro m hm
  rcases step_commit_results hB hs with ⟨_, _, mj, _, _, _, hbc, _⟩ | ⟨_, hbc, _⟩
  · rw [hbc]; split
    · exact hm
    · simp [hm]
  · rw [hbc]; exact hm

theorem ackedBC_mono_run {ls : List Label} (hB : Bodies) : ∀ {st st' : State}, run st ls = some st' →
    ∀ m ∈ st.ackedBC, m ∈ st'.ackedBC := by
  induction ls with
  | nil => intro st st' h m hm; simp [run] at h; subst h; exact hm
  | cons l ls ih =>
    intro st st' h m hm
    simp only [run] at h
    split at h
    · simp at h
    · next s1 hs1 => exact ih h m (ackedBC_mono_step hB hs1 m hm)

/-- Everything that returned success before the `Close` along a run is in `ackedBC` at its end. -/
theorem okBeforeClose_sub_ackedBC {ls : List Label} (hB : Bodies) : ∀ {st st' : State}, run st ls = some st' →
    ∀ m ∈ okBeforeClose st ls, m ∈ st'.ackedBC := by
  induction ls with
  | nil => intro st st' _ m hm; simp [okBeforeClose] at hm
  | cons l ls ih =>
    intro st st' h m hm
    simp only [run] at h
    split at h
    · simp at h
    · next s1 hs1 =>
      simp only [okBeforeClose, hs1, List.mem_append] at hm
      rcases hm with hm | hm
      · cases hd : st.senderDone with
        | true => simp [hd] at hm
        | false =>
          simp [hd] at hm
          exact ackedBC_mono_run hB h m (okReturns_committed hB hs1 hd m hm)
      · exact ih h m hm

theorem run_append {ls1 ls2 : List Label} : ∀ {st : State},
    run st (ls1 ++ ls2) = (run st ls1).bind (fun s => run s ls2) := by
  induction ls1 with
  | nil => intro st; simp [run]
  | cons l ls ih =>
    intro st
    simp only [List.cons_append, run]
    split
    · simp
    · exact ih

/-- In a settled state (sender closed, channel empty, no call of a sender in flight) whatever `Next`
returns is its context's error or the report. -/
theorem settled_results {st st' : State} {l : Label} (hB : Bodies) (h : Settled st)
    (hs : step st l = some st') :
    ∀ r, (Who.recv, r) ∈ completions st l → r = .ctx ∨ r = endRes st := by
  intro r hr
  rcases step_delivery_results hB hs with ⟨m, _, hdel, _⟩ | ⟨_, hres⟩
  · rw [settled_no_delivery h hdel] at hs; cases hs
  · rcases hres r hr with h1 | ⟨h1, _⟩
    · exact Or.inl h1
    · exact Or.inr h1

theorem settled_run_results {ls : List Label} (hB : Bodies) : ∀ {st st' : State}, Settled st →
    (∀ l ∈ ls, startsSend l = false) → run st ls = some st' →
    ∀ r, (Who.recv, r) ∈ runCompletions st ls → r = .ctx ∨ r = endRes st := by
  induction ls with
  | nil => intro st st' _ _ _ r hr; simp [runCompletions] at hr
  | cons l ls ih =>
    intro st st' h hl hrun r hr
    simp only [run] at hrun
    split at hrun
    · simp at hrun
    · next s1 hs1 =>
      simp only [runCompletions, hs1, List.mem_append] at hr
      rcases hr with hr | hr
      · exact settled_results hB h hs1 r hr
      · obtain ⟨h1, he1⟩ := settled_step h (hl l (by simp)) hs1
        have := ih h1 (fun x hx => hl x (by simp [hx])) hrun r hr
        simpa [endRes, he1] using this

end Juniper.Proofs.Pipe
