import Juniper.Model.XTime
/-! Helper lemmas for C20, `SleepContext` part: what the generated guards say, and the invariant of
the two-arm LTS. -/
namespace Juniper.Proofs.XTimeSleep
open Juniper.Facts Juniper.Gen.XTime Juniper.Model.XTime

/-- The composed decision in closed form (this is where the regenerated guards are consumed). -/
theorem sleepDecision_eq (d : Int) (deadline : Option Int) (now : Int) :
    sleepDecision d deadline now =
      if d ≤ 0 then some .nil
      else match deadline with
        | some dl => if dl - now < d then some .tooSoon else none
        | none => none := by
  unfold sleepDecision sleepNonPositive sleepChecksDeadline sleepTooSoon sleepRemaining timeUntil
    sleepNonPositiveRet sleepTooSoonRet
  cases deadline <;> simp

/-- The arms of the `select`, with what they return. -/
theorem arms :
    sleepSelect = [.recv "ctx.Done()", .recv "t.C"] ∧ armRet 0 = some .ctxErr ∧ armRet 1 = some .nil ∧
      ∀ k, 2 ≤ k → armRet k = none := by
  refine ⟨by decide, by decide, by decide, ?_⟩
  intro k hk
  match k, hk with
  | k + 2, _ => simp [armRet]

/-- A step of the waiting call: which arm fired and what came back. -/
theorem arm_step {s s' : SState} {k : Nat} {due : Int} (hp : s.phase = .waiting due)
    (h : sstep s (.arm k) = some s') :
    (k = 0 ∧ s.ctxDone = true ∧ s' = { s with phase := .returned .ctxErr s.now }) ∨
    (k = 1 ∧ due ≤ s.now ∧ s' = { s with phase := .returned .nil s.now }) := by
  obtain ⟨hsel, h0, h1, h2⟩ := arms
  match k with
  | 0 =>
    simp [sstep, hp, hsel, h0, armReady] at h
    exact Or.inl ⟨rfl, h.1, h.2.symm⟩
  | 1 =>
    simp [sstep, hp, hsel, h1, armReady] at h
    exact Or.inr ⟨rfl, h.1, h.2.symm⟩
  | k + 2 =>
    simp [sstep, hp, hsel, h2] at h

/-- Invariant of a call started from an idle state. -/
def SInv (s : SState) : Prop :=
  match s.phase with
  | .idle => True
  | .waiting due => 0 < s.d ∧ due = s.start + s.d ∧
      ∀ dl, s.deadline = some dl → ¬ (dl - s.start < s.d)
  | .returned r t =>
      (r = .nil → (s.d ≤ 0 ∧ t = s.start) ∨ (0 < s.d ∧ s.start + s.d ≤ t)) ∧
      (r = .tooSoon → 0 < s.d ∧ t = s.start ∧ ∃ dl, s.deadline = some dl ∧ dl - s.start < s.d) ∧
      (r = .ctxErr → 0 < s.d ∧ s.ctxDone = true ∧ ∀ dl, s.deadline = some dl → ¬ (dl - s.start < s.d)) ∧
      (∀ e, r ≠ .other e)

theorem sinv_step {s s' : SState} {l : SLabel} (hi : SInv s) (h : sstep s l = some s') : SInv s' := by
  cases l with
  | advance dt =>
    simp only [sstep] at h
    split at h
    · cases h; exact hi
    · cases h
  | cancel =>
    simp only [sstep] at h
    cases h
    unfold SInv at hi ⊢
    cases hp : s.phase <;> simp_all
  | expire =>
    simp only [sstep] at h
    cases hd : s.deadline with
    | none => simp [hd] at h
    | some dl =>
      simp only [hd] at h
      split at h
      · cases h
        unfold SInv at hi ⊢
        cases hp : s.phase <;> simp_all
      · cases h
  | enter =>
    simp only [sstep] at h
    cases hp : s.phase with
    | idle =>
      simp only [hp, sleepDecision_eq] at h
      by_cases hd : s.d ≤ 0
      · simp [hd] at h; subst h; simp [SInv, hd]
      · cases hdl : s.deadline with
        | none =>
          simp [hd, hdl] at h; subst h
          simp [SInv, sleepTimerDur]; omega
        | some dl =>
          by_cases hc : dl - s.now < s.d
          · simp [hd, hdl, hc] at h; subst h
            simp [SInv, hc]; omega
          · simp [hd, hdl, hc] at h; subst h
            simp [SInv, sleepTimerDur]; omega
    | waiting due => simp [hp] at h
    | returned r t => simp [hp] at h
  | arm k =>
    cases hp : s.phase with
    | idle => simp [sstep, hp] at h
    | returned r t => simp [sstep, hp] at h
    | waiting due =>
      unfold SInv at hi
      simp only [hp] at hi
      rcases arm_step hp h with ⟨_, hc, rfl⟩ | ⟨_, hdue, rfl⟩
      · simp [SInv, hi.1, hc]; intro dl hdl; have := hi.2.2 dl hdl; omega
      · simp [SInv, hi.1]; omega

theorem sinv_reach {s0 s : SState} (h0 : s0.phase = .idle) (hr : SReach s0 s) : SInv s := by
  induction hr with
  | refl => simp [SInv, h0]
  | step l _ hs ih => exact sinv_step ih hs

/-- `d`, the deadline never change. -/
theorem params_step {s s' : SState} {l : SLabel} (h : sstep s l = some s') :
    s'.d = s.d ∧ s'.deadline = s.deadline := by
  cases l <;> simp only [sstep] at h
  · split at h <;> cases h; exact ⟨rfl, rfl⟩
  · cases h; exact ⟨rfl, rfl⟩
  · split at h
    · split at h <;> cases h; exact ⟨rfl, rfl⟩
    · cases h
  · split at h
    · split at h <;> cases h <;> exact ⟨rfl, rfl⟩
    · cases h
  · split at h
    · split at h
      · split at h <;> cases h; exact ⟨rfl, rfl⟩
      · cases h
    · cases h

/-- run a list of labels (for reachability witnesses) -/
def runS (s : SState) : List SLabel → Option SState
  | [] => some s
  | l :: ls => (sstep s l).bind (fun s' => runS s' ls)

theorem sreach_of_runS : ∀ (ls : List SLabel) (s0 s s' : SState), SReach s0 s → runS s ls = some s' → SReach s0 s'
  | [], s0, s, s', hr, h => by simp [runS] at h; subst h; exact hr
  | l :: ls, s0, s, s', hr, h => by
    simp only [runS] at h
    cases hs : sstep s l with
    | none => simp [hs] at h
    | some s1 =>
      simp [hs] at h
      exact sreach_of_runS ls s0 s1 s' (.step l hr hs) h

/-! ### The summary the conformance driver uses

`driver xtime` judges an observed `SleepContext` call by membership in `sleepOutcomes`, not by running
the LTS. The two lemmas below tie that summary to the LTS the property theorems are about: it has the
closed form one expects, and every outcome it accepts is the result of a run of the LTS in which the
context ends exactly when the harness says it does. (Soundness of the driver's verdict "ok"; the
converse is not needed for trace inclusion.) -/

set_option linter.unusedSimpArgs false in
theorem sleepOutcomes_eq (d : Int) (dl ctxAt : Option Int) :
    sleepOutcomes d dl ctxAt =
      match sleepDecision d dl 0 with
      | some r => [(r, 0)]
      | none =>
        match ctxAt with
        | none => [(.nil, max d 0)]
        | some c =>
          (if max c 0 ≤ min (max d 0) (max c 0) then [(.ctxErr, min (max d 0) (max c 0))] else []) ++
          (if max d 0 ≤ min (max d 0) (max c 0) then [(.nil, min (max d 0) (max c 0))] else []) := by
  obtain ⟨hsel, h0, h1, _⟩ := arms
  have hc1 : sleepSelect.contains (.recv "t.C") = true := by decide
  have hc2 : sleepSelect.contains (.recv "ctx.Done()") = true := by decide
  have hl : sleepSelect.length = 2 := by decide
  unfold sleepOutcomes
  cases hdec : sleepDecision d dl 0 with
  | some r => rfl
  | none =>
    simp only [hc1, hc2, hl, if_true, sleepTimerDur]
    cases ctxAt with
    | none =>
      simp [List.range_succ, hsel, h0, h1]
    | some c =>
      simp [List.range_succ, hsel, h0, h1]
      simp only [List.filterMap_cons, List.filterMap_nil, List.getElem?_cons_zero, List.getElem?_cons_succ, h0, h1]
      by_cases ha : max c 0 ≤ min (max d 0) (max c 0) <;> by_cases hb : max d 0 ≤ min (max d 0) (max c 0) <;>
        simp [ha, hb]

/-- Every `(result, elapsed)` pair the driver accepts for a call made at instant 0 is reached by a run
of the LTS from the idle call: at once when the decision is immediate; otherwise after the clock ran
to the first instant an arm is ready, where a context error is only accepted at the very instant the
context ends (`max ctxAt 0`; the witness run cancels the context then). -/
theorem sleepOutcomes_reachable {d : Int} {dl ctxAt : Option Int} {r : Ret} {t : Int}
    (h : (r, t) ∈ sleepOutcomes d dl ctxAt) :
    ∃ s, SReach (sInit 0 d dl false) s ∧ s.phase = .returned r t ∧
      (r = .ctxErr → ∃ c, ctxAt = some c ∧ t = max c 0) := by
  obtain ⟨hsel, h0, h1, _⟩ := arms
  rw [sleepOutcomes_eq] at h
  cases hdec : sleepDecision d dl 0 with
  | some r0 =>
    simp only [hdec, List.mem_singleton, Prod.mk.injEq] at h
    obtain ⟨rfl, rfl⟩ := h
    refine ⟨_, sreach_of_runS [.enter] _ _ _ .refl (by simp [runS, sstep, sInit, hdec]; rfl), rfl, ?_⟩
    intro hr
    subst hr
    rw [sleepDecision_eq] at hdec
    split at hdec
    · cases hdec
    · split at hdec
      · split at hdec <;> cases hdec
      · cases hdec
  | none =>
    have hd : 0 < d := by
      rw [sleepDecision_eq] at hdec
      by_cases hd : d ≤ 0
      · simp [hd] at hdec
      · omega
    have hmax : max d 0 = d := by omega
    have hd0 : 0 ≤ d := by omega
    have hnil : ∃ s, SReach (sInit 0 d dl false) s ∧ s.phase = .returned .nil d :=
      ⟨_, sreach_of_runS [.enter, .advance d, .arm 1] _ _ _ .refl
        (by simp [runS, sstep, sInit, hdec, sleepTimerDur, hsel, h1, armReady, hd0]; rfl), rfl⟩
    simp only [hdec, hmax] at h
    cases ctxAt with
    | none =>
      simp only [List.mem_singleton, Prod.mk.injEq] at h
      obtain ⟨rfl, rfl⟩ := h
      obtain ⟨s, hs, hp⟩ := hnil
      exact ⟨s, hs, hp, by intro hr; cases hr⟩
    | some c =>
      simp only [List.mem_append] at h
      rcases h with h | h
      · split at h
        · rename_i hle
          simp only [List.mem_singleton, Prod.mk.injEq] at h
          obtain ⟨rfl, rfl⟩ := h
          have ht : min d (max c 0) = max c 0 := by omega
          have hc0 : 0 ≤ max c 0 := by omega
          rw [ht]
          refine ⟨_, sreach_of_runS [.enter, .advance (max c 0), .cancel, .arm 0] _ _ _ .refl
            (by simp [runS, sstep, sInit, hdec, sleepTimerDur, hsel, h0, armReady, hc0]; rfl), rfl, ?_⟩
          intro _; exact ⟨c, rfl, rfl⟩
        · cases h
      · split at h
        · rename_i hle
          simp only [List.mem_singleton, Prod.mk.injEq] at h
          obtain ⟨rfl, rfl⟩ := h
          have ht : min d (max c 0) = d := by omega
          rw [ht]
          obtain ⟨s, hs, hp⟩ := hnil
          exact ⟨s, hs, hp, by intro hr; cases hr⟩
        · cases h

end Juniper.Proofs.XTimeSleep
