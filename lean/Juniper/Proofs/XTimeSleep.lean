import Juniper.Model.XTime
/-! Helper lemmas for C20, `SleepContext` part: what the generated guards say, and the invariant of
the two-arm LTS. -/
namespace Juniper.Proofs.XTimeSleep
open Juniper.Facts Juniper.Gen.XTime Juniper.Model.XTime

/-- The composed decision in closed form (this is where the regenerated guards are consumed). -/
theorem sleepDecision_eq (d : Int) (deadline : Option Int) (now : Int) :
    sleepDecision d deadline now =
      if d ≤ 0 then some .nil
      else match deadline with
        | some dl => if dl - now < d then some .tooSoon else none
        | none => none := by
  unfold sleepDecision sleepNonPositive sleepChecksDeadline sleepTooSoon sleepRemaining timeUntil
    sleepNonPositiveRet sleepTooSoonRet
  cases deadline <;> simp

/-- The arms of the `select`, with what they return. -/
theorem arms :
    sleepSelect = [.recv "ctx.Done()", .recv "t.C"] ∧ armRet 0 = some .ctxErr ∧ armRet 1 = some .nil ∧
      ∀ k, 2 ≤ k → armRet k = none := by
  refine ⟨by decide, by decide, by decide, ?_⟩
  intro k hk
  match k, hk with
  | k + 2, _ => simp [armRet]

/-- A step of the waiting call: which arm fired and what came back. -/
theorem arm_step {s s' : SState} {k : Nat} {due : Int} (hp : s.phase = .waiting due)
    (h : sstep s (.arm k) = some s') :
    (k = 0 ∧ s.ctxDone = true ∧ s' = { s with phase := .returned .ctxErr s.now }) ∨
    (k = 1 ∧ due ≤ s.now ∧ s' = { s with phase := .returned .nil s.now }) := by
  obtain ⟨hsel, h0, h1, h2⟩ := arms
  match k with
  | 0 =>
    simp [sstep, hp, hsel, h0, armReady] at h
    exact Or.inl ⟨rfl, h.1, h.2.symm⟩
  | 1 =>
    simp [sstep, hp, hsel, h1, armReady] at h
    exact Or.inr ⟨rfl, h.1, h.2.symm⟩
  | k + 2 =>
    simp [sstep, hp, hsel, h2] at h

/-- Invariant of a call started from an idle state. -/
def SInv (s : SState) : Prop :=
  match s.phase with
  | .idle => True
  | .waiting due => 0 < s.d ∧ due = s.start + s.d ∧
      ∀ dl, s.deadline = some dl → ¬ (dl - s.start < s.d)
  | .returned r t =>
      (r = .nil → (s.d ≤ 0 ∧ t = s.start) ∨ (0 < s.d ∧ s.start + s.d ≤ t)) ∧
      (r = .tooSoon → 0 < s.d ∧ t = s.start ∧ ∃ dl, s.deadline = some dl ∧ dl - s.start < s.d) ∧
      (r = .ctxErr → 0 < s.d ∧ s.ctxDone = true ∧ ∀ dl, s.deadline = some dl → ¬ (dl - s.start < s.d)) ∧
      (∀ e, r ≠ .other e)

theorem sinv_step {s s' : SState} {l : SLabel} (hi : SInv s) (h : sstep s l = some s') : SInv s' := by
  cases l with
  | advance dt =>
    simp only [sstep] at h
    split at h
    · cases h; exact hi
    · cases h
  | cancel =>
    simp only [sstep] at h
    cases h
    unfold SInv at hi ⊢
    cases hp : s.phase <;> simp_all
  | expire =>
    simp only [sstep] at h
    cases hd : s.deadline with
    | none => simp [hd] at h
    | some dl =>
      simp only [hd] at h
      split at h
      · cases h
        unfold SInv at hi ⊢
        cases hp : s.phase <;> simp_all
      · cases h
  | enter =>
    simp only [sstep] at h
    cases hp : s.phase with
    | idle =>
      simp only [hp, sleepDecision_eq] at h
      by_cases hd : s.d ≤ 0
      · simp [hd] at h; subst h; simp [SInv, hd]
      · cases hdl : s.deadline with
        | none =>
          simp [hd, hdl] at h; subst h
          simp [SInv, sleepTimerDur]; omega
        | some dl =>
          by_cases hc : dl - s.now < s.d
          · simp [hd, hdl, hc] at h; subst h
            simp [SInv, hc]; omega
          · simp [hd, hdl, hc] at h; subst h
            simp [SInv, sleepTimerDur]; omega
    | waiting due => simp [hp] at h
    | returned r t => simp [hp] at h
  | arm k =>
    cases hp : s.phase with
    | idle => simp [sstep, hp] at h
    | returned r t => simp [sstep, hp] at h
    | waiting due =>
      unfold SInv at hi
      simp only [hp] at hi
      rcases arm_step hp h with ⟨_, hc, rfl⟩ | ⟨_, hdue, rfl⟩
      · simp [SInv, hi.1, hc]; intro dl hdl; have := hi.2.2 dl hdl; omega
      · simp [SInv, hi.1]; omega

theorem sinv_reach {s0 s : SState} (h0 : s0.phase = .idle) (hr : SReach s0 s) : SInv s := by
  induction hr with
  | refl => simp [SInv, h0]
  | step l _ hs ih => exact sinv_step ih hs

/-- `d`, the deadline never change. -/
theorem params_step {s s' : SState} {l : SLabel} (h : sstep s l = some s') :
    s'.d = s.d ∧ s'.deadline = s.deadline := by
  cases l <;> simp only [sstep] at h
  · split at h <;> cases h; exact ⟨rfl, rfl⟩
  · cases h; exact ⟨rfl, rfl⟩
  · split at h
    · split at h <;> cases h; exact ⟨rfl, rfl⟩
    · cases h
  · split at h
    · split at h <;> cases h <;> exact ⟨rfl, rfl⟩
    · cases h
  · split at h
    · split at h
      · split at h <;> cases h; exact ⟨rfl, rfl⟩
      · cases h
    · cases h

/-- run a list of labels (for reachability witnesses) -/
def runS (s : SState) : List SLabel → Option SState
  | [] => some s
  | l :: ls => (sstep s l).bind (fun s' => runS s' ls)

theorem sreach_of_runS : ∀ (ls : List SLabel) (s0 s s' : SState), SReach s0 s → runS s ls = some s' → SReach s0 s'
  | [], s0, s, s', hr, h => by simp [runS] at h; subst h; exact hr
  | l :: ls, s0, s, s', hr, h => by
    simp only [runS] at h
    cases hs : sstep s l with
    | none => simp [hs] at h
    | some s1 =>
      simp [hs] at h
      exact sreach_of_runS ls s0 s1 s' (.step l hr hs) h

end Juniper.Proofs.XTimeSleep
