import Juniper.Proofs.TreeHeapLinkRel
/-!
# Linking the two B-tree models (C03): the rotations and the merge on the store

Store-level description of `Heap.step` for `mergeTwo`, `rotateLeft`, `rotateRight`, then of the heap
functions `Heap.siblings`, `Heap.rotateLeft`, `Heap.rotateRight` (which look the parent up through the
parent pointer and re-parent the child that changes sides).
-/
namespace Juniper.Proofs.TreeHeapLink
open Juniper Juniper.Model.BTree Juniper.Model.BTreeSlotsOps Juniper.Proofs.Tree Juniper.Proofs.TreeSlotsOps

variable {K V : Type}

theorem getNode_set3 {fam : Fam K V Nat} {p l r : Nat} (hp : p < fam.length) (hl : l < fam.length) (hr : r < fam.length)
    (op ol or : Option (SNode K V Nat)) (j : Nat) :
    getNode (((fam.set p op).set l ol).set r or) j =
      if j = r then or else if j = l then ol else if j = p then op else getNode fam j := by
  rw [getNode_set (by simpa using hr), getNode_set (by simpa using hl), getNode_set hp]

theorem isLeaf_iff_of_kind {xl xr : SNode K V Nat} {lkvs rkvs : List (K × V)} {lkids rkids : List Nat}
    (rl : NodeRep xl lkvs lkids) (rr : NodeRep xr rkvs rkids) (hkind : lkids = [] ↔ rkids = []) :
    xl.isLeaf = xr.isLeaf := by
  by_cases h : lkids = []
  · rw [rl.isLeaf_iff.mpr h, rr.isLeaf_iff.mpr (hkind.mp h)]
  · have h' : rkids ≠ [] := fun e => h (hkind.mpr e)
    rw [isLeaf_of_rep_cons rl.hkids h, isLeaf_of_rep_cons rr.hkids h']

theorem step_mergeTwo {h : Heap K V} {p l r idx : Nat} {xp xl xr : SNode K V Nat}
    {pkvs lkvs rkvs : List (K × V)} {pkids lkids rkids : List Nat}
    (hp : h.get p = some xp) (hl : h.get l = some xl) (hr : h.get r = some xr)
    (rp : NodeRep xp pkvs pkids) (rl : NodeRep xl lkvs lkids) (rr : NodeRep xr rkvs rkids)
    (hpl : p ≠ l) (hlr : l ≠ r) (hpr : p ≠ r)
    (hpint : pkids.length = pkvs.length + 1) (hkind : lkids = [] ↔ rkids = [])
    (hidx : idx < pkvs.length) (hfit : lkvs.length + 1 + rkvs.length ≤ keysCap) (w : List Nat) :
    ∃ h' p' l', h.step (.mergeTwo p l r idx) w = some h' ∧ Same h h' ∧
      NodeRep p' (pkvs.take idx ++ pkvs.drop (idx + 1)) (pkids.take (idx + 1) ++ pkids.drop (idx + 2)) ∧
      NodeRep l' (lkvs ++ pkvs[idx] :: rkvs) (lkids ++ rkids) ∧
      p'.parent = xp.parent ∧ l'.parent = xl.parent ∧
      ∀ j, h'.get j = if j = r then none else if j = l then some l' else if j = p then some p' else h.get j := by
  obtain ⟨p', l', r', hm, rp', rl', _⟩ := mergeNodes_rep rp rl rr hpint hkind hidx hfit
    (by decide) (by decide) (by decide) (by decide) (by decide) (by decide) (by decide)
  have hp0 : getNode h.nodes p = some xp := hp
  have hl0 : getNode h.nodes l = some xl := hl
  have hr0 : getNode h.nodes r = some xr := hr
  have g4 : xp.isLeaf = false := by
    have hne : pkids ≠ [] := by intro h0; subst h0; simp at hpint
    exact isLeaf_of_rep_cons rp.hkids hne
  have g5 : (idx : Int) < xp.n := by rw [rp.hn]; omega
  have g6 := isLeaf_iff_of_kind rl rr hkind
  have g7 : xl.n + 1 + xr.n ≤ keysCap := by rw [rl.hn, rr.hn]; omega
  have ha : applyOp h.nodes (.mergeTwo p l r idx) =
      some (((h.nodes.set p (some p')).set l (some l')).set r none) := by
    simp [applyOp, hp0, hl0, hr0, hpl, hlr, hpr, g4, g5, g6, g7, hm]
  obtain ⟨q1, q2⟩ := mergeNodes_parent hm
  refine ⟨_, p', l', step_some ha, ⟨rfl, rfl, rfl, by simp⟩, rp', rl', q1, q2, ?_⟩
  intro j
  exact getNode_set3 (get_lt hp) (get_lt hl) (get_lt hr) _ _ _ j

theorem step_rotateRight {h : Heap K V} {p l r idx : Nat} {xp xl xr : SNode K V Nat}
    {pkvs lkvs rkvs : List (K × V)} {pkids lkids rkids : List Nat}
    (hp : h.get p = some xp) (hl : h.get l = some xl) (hr : h.get r = some xr)
    (rp : NodeRep xp pkvs pkids) (rl : NodeRep xl lkvs lkids) (rr : NodeRep xr rkvs rkids)
    (hpl : p ≠ l) (hlr : l ≠ r) (hpr : p ≠ r) (hkind : lkids = [] ↔ rkids = [])
    (hidx : idx < pkvs.length) (hlne : lkvs ≠ []) (hroom : rkvs.length < keysCap) (w : List Nat) :
    ∃ h' p' l' r', h.step (.rotateRight p l r idx) w = some h' ∧ Same h h' ∧
      NodeRep p' (pkvs.take idx ++ lkvs.getLast hlne :: pkvs.drop (idx + 1)) pkids ∧
      NodeRep l' lkvs.dropLast lkids.dropLast ∧
      NodeRep r' (pkvs[idx] :: rkvs) (lkids.getLast?.toList ++ rkids) ∧
      p'.parent = xp.parent ∧ l'.parent = xl.parent ∧ r'.parent = xr.parent ∧
      ∀ j, h'.get j = if j = r then some r' else if j = l then some l' else if j = p then some p' else h.get j := by
  obtain ⟨p', l', r', hm, rp', rl', rr'⟩ := rotateRightNodes_rep rp rl rr hkind hidx hlne hroom
    (by decide) (by decide) (by decide) (by decide) (by decide) (by decide) (by decide)
  have hp0 : getNode h.nodes p = some xp := hp
  have hl0 : getNode h.nodes l = some xl := hl
  have hr0 : getNode h.nodes r = some xr := hr
  have g4 : (idx : Int) < xp.n := by rw [rp.hn]; omega
  have g5 := isLeaf_iff_of_kind rl rr hkind
  have hpos : 0 < lkvs.length := List.length_pos_iff.mpr hlne
  have g6 : 0 < xl.n := by rw [rl.hn]; omega
  have g7 : xr.n < keysCap := by rw [rr.hn]; omega
  have ha : applyOp h.nodes (.rotateRight p l r idx) =
      some (((h.nodes.set p (some p')).set l (some l')).set r (some r')) := by
    simp [applyOp, hp0, hl0, hr0, hpl, hlr, hpr, g4, g5, g6, g7, hm]
  obtain ⟨q1, q2, q3⟩ := rotateRightNodes_parent hm
  refine ⟨_, p', l', r', step_some ha, ⟨rfl, rfl, rfl, by simp⟩, rp', rl', rr', q1, q2, q3, ?_⟩
  intro j
  exact getNode_set3 (get_lt hp) (get_lt hl) (get_lt hr) _ _ _ j

theorem step_rotateLeft {h : Heap K V} {p l r idx : Nat} {xp xl xr : SNode K V Nat}
    {pkvs lkvs rkvs : List (K × V)} {pkids lkids rkids : List Nat}
    (hp : h.get p = some xp) (hl : h.get l = some xl) (hr : h.get r = some xr)
    (rp : NodeRep xp pkvs pkids) (rl : NodeRep xl lkvs lkids) (rr : NodeRep xr rkvs rkids)
    (hpl : p ≠ l) (hlr : l ≠ r) (hpr : p ≠ r) (hkind : lkids = [] ↔ rkids = [])
    (hidx0 : 0 < idx) (hidx : idx ≤ pkvs.length) (hrne : rkvs ≠ []) (hroom : lkvs.length < keysCap) (w : List Nat) :
    ∃ h' p' l' r', h.step (.rotateLeft p l r idx) w = some h' ∧ Same h h' ∧
      NodeRep p' (pkvs.take (idx - 1) ++ rkvs.head hrne :: pkvs.drop idx) pkids ∧
      NodeRep l' (lkvs ++ [pkvs[idx - 1]]) (lkids ++ rkids.take 1) ∧
      NodeRep r' (rkvs.drop 1) (rkids.drop 1) ∧
      p'.parent = xp.parent ∧ l'.parent = xl.parent ∧ r'.parent = xr.parent ∧
      ∀ j, h'.get j = if j = r then some r' else if j = l then some l' else if j = p then some p' else h.get j := by
  obtain ⟨p', l', r', hm, rp', rl', rr'⟩ := rotateLeftNodes_rep rp rl rr hkind hidx0 hidx hrne hroom
    (by decide) (by decide) (by decide) (by decide) (by decide)
  have hp0 : getNode h.nodes p = some xp := hp
  have hl0 : getNode h.nodes l = some xl := hl
  have hr0 : getNode h.nodes r = some xr := hr
  have g5 : (idx : Int) ≤ xp.n := by rw [rp.hn]; omega
  have g6 := isLeaf_iff_of_kind rl rr hkind
  have hpos : 0 < rkvs.length := List.length_pos_iff.mpr hrne
  have g7 : 0 < xr.n := by rw [rr.hn]; omega
  have g8 : xl.n < keysCap := by rw [rl.hn]; omega
  have ha : applyOp h.nodes (.rotateLeft p l r idx) =
      some (((h.nodes.set p (some p')).set l (some l')).set r (some r')) := by
    simp [applyOp, hp0, hl0, hr0, hpl, hlr, hpr, hidx0, g5, g6, g7, g8, hm]
  obtain ⟨q1, q2, q3⟩ := rotateLeftNodes_parent hm
  refine ⟨_, p', l', r', step_some ha, ⟨rfl, rfl, rfl, by simp⟩, rp', rl', rr', q1, q2, q3, ?_⟩
  intro j
  exact getNode_set3 (get_lt hp) (get_lt hl) (get_lt hr) _ _ _ j

end Juniper.Proofs.TreeHeapLink
