import Juniper.Proofs.TreeHeapLinkRel
/-!
# Linking the two B-tree models (C03): the rotations and the merge on the store

Store-level description of `Heap.step` for `mergeTwo`, `rotateLeft`, `rotateRight`, then of the heap
functions `Heap.siblings`, `Heap.rotateLeft`, `Heap.rotateRight` (which look the parent up through the
parent pointer and re-parent the child that changes sides).
-/
namespace Juniper.Proofs.TreeHeapLink
open Juniper Juniper.Model.BTree Juniper.Model.BTreeSlotsOps Juniper.Proofs.Tree Juniper.Proofs.TreeSlotsOps

variable {K V : Type}

theorem getNode_set3 {fam : Fam K V Nat} {p l r : Nat} (hp : p < fam.length) (hl : l < fam.length) (hr : r < fam.length)
    (op ol or : Option (SNode K V Nat)) (j : Nat) :
    getNode (((fam.set p op).set l ol).set r or) j =
      if j = r then or else if j = l then ol else if j = p then op else getNode fam j := by
  rw [getNode_set (by simpa using hr), getNode_set (by simpa using hl), getNode_set hp]

theorem isLeaf_iff_of_kind {xl xr : SNode K V Nat} {lkvs rkvs : List (K × V)} {lkids rkids : List Nat}
    (rl : NodeRep xl lkvs lkids) (rr : NodeRep xr rkvs rkids) (hkind : lkids = [] ↔ rkids = []) :
    xl.isLeaf = xr.isLeaf := by
  by_cases h : lkids = []
  · rw [rl.isLeaf_iff.mpr h, rr.isLeaf_iff.mpr (hkind.mp h)]
  · have h' : rkids ≠ [] := fun e => h (hkind.mpr e)
    rw [isLeaf_of_rep_cons rl.hkids h, isLeaf_of_rep_cons rr.hkids h']

theorem step_mergeTwo {h : Heap K V} {p l r idx : Nat} {xp xl xr : SNode K V Nat}
    {pkvs lkvs rkvs : List (K × V)} {pkids lkids rkids : List Nat}
    (hp : h.get p = some xp) (hl : h.get l = some xl) (hr : h.get r = some xr)
    (rp : NodeRep xp pkvs pkids) (rl : NodeRep xl lkvs lkids) (rr : NodeRep xr rkvs rkids)
    (hpl : p ≠ l) (hlr : l ≠ r) (hpr : p ≠ r)
    (hpint : pkids.length = pkvs.length + 1) (hkind : lkids = [] ↔ rkids = [])
    (hidx : idx < pkvs.length) (hfit : lkvs.length + 1 + rkvs.length ≤ keysCap) (w : List Nat) :
    ∃ h' p' l', h.step (.mergeTwo p l r idx) w = some h' ∧ Same h h' ∧
      NodeRep p' (pkvs.take idx ++ pkvs.drop (idx + 1)) (pkids.take (idx + 1) ++ pkids.drop (idx + 2)) ∧
      NodeRep l' (lkvs ++ pkvs[idx] :: rkvs) (lkids ++ rkids) ∧
      p'.parent = xp.parent ∧ l'.parent = xl.parent ∧
      ∀ j, h'.get j = if j = r then none else if j = l then some l' else if j = p then some p' else h.get j := by
  obtain ⟨p', l', r', hm, rp', rl', _⟩ := mergeNodes_rep rp rl rr hpint hkind hidx hfit
    (by decide) (by decide) (by decide) (by decide) (by decide) (by decide) (by decide)
  have hp0 : getNode h.nodes p = some xp := hp
  have hl0 : getNode h.nodes l = some xl := hl
  have hr0 : getNode h.nodes r = some xr := hr
  have g4 : xp.isLeaf = false := by
    have hne : pkids ≠ [] := by intro h0; subst h0; simp at hpint
    exact isLeaf_of_rep_cons rp.hkids hne
  have g5 : (idx : Int) < xp.n := by rw [rp.hn]; omega
  have g6 := isLeaf_iff_of_kind rl rr hkind
  have g7 : xl.n + 1 + xr.n ≤ keysCap := by rw [rl.hn, rr.hn]; omega
  have ha : applyOp h.nodes (.mergeTwo p l r idx) =
      some (((h.nodes.set p (some p')).set l (some l')).set r none) := by
    simp [applyOp, hp0, hl0, hr0, hpl, hlr, hpr, g4, g5, g6, g7, hm]
  obtain ⟨q1, q2⟩ := mergeNodes_parent hm
  refine ⟨_, p', l', step_some ha, ⟨rfl, rfl, rfl, by simp⟩, rp', rl', q1, q2, ?_⟩
  intro j
  exact getNode_set3 (get_lt hp) (get_lt hl) (get_lt hr) _ _ _ j

theorem step_rotateRight {h : Heap K V} {p l r idx : Nat} {xp xl xr : SNode K V Nat}
    {pkvs lkvs rkvs : List (K × V)} {pkids lkids rkids : List Nat}
    (hp : h.get p = some xp) (hl : h.get l = some xl) (hr : h.get r = some xr)
    (rp : NodeRep xp pkvs pkids) (rl : NodeRep xl lkvs lkids) (rr : NodeRep xr rkvs rkids)
    (hpl : p ≠ l) (hlr : l ≠ r) (hpr : p ≠ r) (hkind : lkids = [] ↔ rkids = [])
    (hidx : idx < pkvs.length) (hlne : lkvs ≠ []) (hroom : rkvs.length < keysCap) (w : List Nat) :
    ∃ h' p' l' r', h.step (.rotateRight p l r idx) w = some h' ∧ Same h h' ∧
      NodeRep p' (pkvs.take idx ++ lkvs.getLast hlne :: pkvs.drop (idx + 1)) pkids ∧
      NodeRep l' lkvs.dropLast lkids.dropLast ∧
      NodeRep r' (pkvs[idx] :: rkvs) (lkids.getLast?.toList ++ rkids) ∧
      p'.parent = xp.parent ∧ l'.parent = xl.parent ∧ r'.parent = xr.parent ∧
      ∀ j, h'.get j = if j = r then some r' else if j = l then some l' else if j = p then some p' else h.get j := by
  obtain ⟨p', l', r', hm, rp', rl', rr'⟩ := rotateRightNodes_rep rp rl rr hkind hidx hlne hroom
    (by decide) (by decide) (by decide) (by decide) (by decide) (by decide) (by decide) (by decide)
  have hp0 : getNode h.nodes p = some xp := hp
  have hl0 : getNode h.nodes l = some xl := hl
  have hr0 : getNode h.nodes r = some xr := hr
  have g4 : (idx : Int) < xp.n := by rw [rp.hn]; omega
  have g5 := isLeaf_iff_of_kind rl rr hkind
  have hpos : 0 < lkvs.length := List.length_pos_iff.mpr hlne
  have g6 : 0 < xl.n := by rw [rl.hn]; omega
  have g7 : xr.n < keysCap := by rw [rr.hn]; omega
  have ha : applyOp h.nodes (.rotateRight p l r idx) =
      some (((h.nodes.set p (some p')).set l (some l')).set r (some r')) := by
    simp [applyOp, hp0, hl0, hr0, hpl, hlr, hpr, g4, g5, g6, g7, hm]
  obtain ⟨q1, q2, q3⟩ := rotateRightNodes_parent hm
  refine ⟨_, p', l', r', step_some ha, ⟨rfl, rfl, rfl, by simp⟩, rp', rl', rr', q1, q2, q3, ?_⟩
  intro j
  exact getNode_set3 (get_lt hp) (get_lt hl) (get_lt hr) _ _ _ j

theorem step_rotateLeft {h : Heap K V} {p l r idx : Nat} {xp xl xr : SNode K V Nat}
    {pkvs lkvs rkvs : List (K × V)} {pkids lkids rkids : List Nat}
    (hp : h.get p = some xp) (hl : h.get l = some xl) (hr : h.get r = some xr)
    (rp : NodeRep xp pkvs pkids) (rl : NodeRep xl lkvs lkids) (rr : NodeRep xr rkvs rkids)
    (hpl : p ≠ l) (hlr : l ≠ r) (hpr : p ≠ r) (hkind : lkids = [] ↔ rkids = [])
    (hidx0 : 0 < idx) (hidx : idx ≤ pkvs.length) (hrne : rkvs ≠ []) (hroom : lkvs.length < keysCap) (w : List Nat) :
    ∃ h' p' l' r', h.step (.rotateLeft p l r idx) w = some h' ∧ Same h h' ∧
      NodeRep p' (pkvs.take (idx - 1) ++ rkvs.head hrne :: pkvs.drop idx) pkids ∧
      NodeRep l' (lkvs ++ [pkvs[idx - 1]]) (lkids ++ rkids.take 1) ∧
      NodeRep r' (rkvs.drop 1) (rkids.drop 1) ∧
      p'.parent = xp.parent ∧ l'.parent = xl.parent ∧ r'.parent = xr.parent ∧
      ∀ j, h'.get j = if j = r then some r' else if j = l then some l' else if j = p then some p' else h.get j := by
  obtain ⟨p', l', r', hm, rp', rl', rr'⟩ := rotateLeftNodes_rep rp rl rr hkind hidx0 hidx hrne hroom
    (by decide) (by decide) (by decide) (by decide) (by decide) (by decide) (by decide)
  have hp0 : getNode h.nodes p = some xp := hp
  have hl0 : getNode h.nodes l = some xl := hl
  have hr0 : getNode h.nodes r = some xr := hr
  have g5 : (idx : Int) ≤ xp.n := by rw [rp.hn]; omega
  have g6 := isLeaf_iff_of_kind rl rr hkind
  have hpos : 0 < rkvs.length := List.length_pos_iff.mpr hrne
  have g7 : 0 < xr.n := by rw [rr.hn]; omega
  have g8 : xl.n < keysCap := by rw [rl.hn]; omega
  have ha : applyOp h.nodes (.rotateLeft p l r idx) =
      some (((h.nodes.set p (some p')).set l (some l')).set r (some r')) := by
    simp [applyOp, hp0, hl0, hr0, hpl, hlr, hpr, hidx0, g5, g6, g7, g8, hm]
  obtain ⟨q1, q2, q3⟩ := rotateLeftNodes_parent hm
  refine ⟨_, p', l', r', step_some ha, ⟨rfl, rfl, rfl, by simp⟩, rp', rl', rr', q1, q2, q3, ?_⟩
  intro j
  exact getNode_set3 (get_lt hp) (get_lt hl) (get_lt hr) _ _ _ j

/-! ## the heap functions around the rotations -/

/-- slot 0 of a represented child array -/
theorem rep_head {a : Slots Nat} {cap : Nat} {l : List Nat} (hr : Rep a cap l) (hcap : 0 < cap) : a[0]? = some l.head? := by
  cases l with
  | nil => simpa using hr.get_tail (i := 0) (by simp) hcap
  | cons c cs => exact hr.get_live (i := 0) (by simp)

/-- the slot behind the last entry of a represented child array (`left.children[left.n]`) -/
theorem rep_last {a : Slots Nat} {cap : Nat} {l : List Nat} {n : Nat} (hr : Rep a cap l)
    (hshape : l = [] ∨ l.length = n + 1) (hcap : n < cap) : a[n]? = some l.getLast? := by
  rcases hshape with rfl | hl
  · simpa using hr.get_tail (i := n) (by simp) hcap
  · have hne : l ≠ [] := by intro e; subst e; simp at hl
    have := hr.get_live (i := n) (by omega)
    rw [this, List.getLast?_eq_some_getLast hne, List.getLast_eq_getElem]
    simp [hl]

/-- `siblings`: the neighbours of child `j` of the parent -/
theorem siblings_spec {h : Heap K V} {xid id j : Nat} {sc sp : SNode K V Nat} {kvs : List (K × V)} {cids : List Nat}
    (hc : h.get xid = some sc) (hcp : sc.parent = some id) (hp : h.get id = some sp) (rp : NodeRep sp kvs cids)
    (hint : cids.length = kvs.length + 1) (hnd : cids.Nodup) (hj : cids[j]? = some xid) :
    Heap.siblings h xid = some (if 0 < j then cids[j - 1]? else none, if j < kvs.length then cids[j + 1]? else none) := by
  have hjl : j < cids.length := (List.getElem?_eq_some_iff.mp hj).1
  have hidx : indexOf sp.kids xid = some j := by
    have := indexOf_rep rp.hkids hnd hjl
    rwa [(List.getElem?_eq_some_iff.mp hj).2] at this
  unfold Heap.siblings
  simp only [bind, pure, hc, hcp, hp, hidx, Option.bind_some]
  by_cases h0 : 0 < j
  · have e1 : Gen.Tree.hasLeftSibling (j : Int) = true := by simp [Gen.Tree.hasLeftSibling]; omega
    have e2 : toIdx (Gen.Tree.leftSiblingIdx (j : Int)) = some (j - 1) :=
      toIdx_eq (by simp [Gen.Tree.leftSiblingIdx]; omega)
    have e3 := rp.hkids.get_live (i := j - 1) (by omega)
    have e4 : cids[j - 1]? = some cids[j - 1] := List.getElem?_eq_getElem (by omega)
    by_cases h1 : j < kvs.length
    · have f1 : Gen.Tree.hasRightSibling (j : Int) sp.n = true := by rw [rp.hn]; simp [Gen.Tree.hasRightSibling]; omega
      have f2 : toIdx (Gen.Tree.rightSiblingIdx (j : Int)) = some (j + 1) :=
        toIdx_eq (by simp [Gen.Tree.rightSiblingIdx])
      have f3 := rp.hkids.get_live (i := j + 1) (by omega)
      have f4 : cids[j + 1]? = some cids[j + 1] := List.getElem?_eq_getElem (by omega)
      simp [e1, e2, e3, e4, f1, f2, f3, f4, h0, h1]
    · have f1 : Gen.Tree.hasRightSibling (j : Int) sp.n = false := by rw [rp.hn]; simp [Gen.Tree.hasRightSibling]; omega
      simp [e1, e2, e3, e4, f1, h0, h1]
  · have e1 : Gen.Tree.hasLeftSibling (j : Int) = false := by simp [Gen.Tree.hasLeftSibling]; omega
    by_cases h1 : j < kvs.length
    · have f1 : Gen.Tree.hasRightSibling (j : Int) sp.n = true := by rw [rp.hn]; simp [Gen.Tree.hasRightSibling]; omega
      have f2 : toIdx (Gen.Tree.rightSiblingIdx (j : Int)) = some (j + 1) :=
        toIdx_eq (by simp [Gen.Tree.rightSiblingIdx])
      have f3 := rp.hkids.get_live (i := j + 1) (by omega)
      have f4 : cids[j + 1]? = some cids[j + 1] := List.getElem?_eq_getElem (by omega)
      simp [e1, f1, f2, f3, f4, h0, h1]
    · have f1 : Gen.Tree.hasRightSibling (j : Int) sp.n = false := by rw [rp.hn]; simp [Gen.Tree.hasRightSibling]; omega
      simp [e1, f1, h0, h1]

/-- `rotateLeft(left, right)` on the heap: the three objects change as `rotateLeftNodes` says and the first
child of the right node (if any) gets the left node as parent -/
theorem rotateLeft_spec {h : Heap K V} {pid lid rid idx : Nat} {xp xl xr : SNode K V Nat}
    {pkvs lkvs rkvs : List (K × V)} {pkids lkids rkids : List Nat}
    (hp : h.get pid = some xp) (hl : h.get lid = some xl) (hr : h.get rid = some xr)
    (rp : NodeRep xp pkvs pkids) (rl : NodeRep xl lkvs lkids) (rr : NodeRep xr rkvs rkids)
    (hrp : xr.parent = some pid) (hnd : pkids.Nodup) (hri : pkids[idx]? = some rid)
    (hpl : pid ≠ lid) (hlr : lid ≠ rid) (hpr : pid ≠ rid) (hkind : lkids = [] ↔ rkids = [])
    (hidx0 : 0 < idx) (hidx : idx ≤ pkvs.length) (hrne : rkvs ≠ []) (hroom : lkvs.length < keysCap)
    (hchild : ∀ c, rkids.head? = some c → (h.get c).isSome ∧ c ≠ pid ∧ c ≠ lid ∧ c ≠ rid) :
    ∃ h' p' l' r', Heap.rotateLeft h lid rid = some h' ∧ Same h h' ∧
      NodeRep p' (pkvs.take (idx - 1) ++ rkvs.head hrne :: pkvs.drop idx) pkids ∧
      NodeRep l' (lkvs ++ [pkvs[idx - 1]]) (lkids ++ rkids.take 1) ∧
      NodeRep r' (rkvs.drop 1) (rkids.drop 1) ∧
      p'.parent = xp.parent ∧ l'.parent = xl.parent ∧ r'.parent = xr.parent ∧
      ∀ j, h'.get j =
        if rkids.head? = some j then (h.get j).map (withParent (some lid))
        else if j = rid then some r' else if j = lid then some l' else if j = pid then some p' else h.get j := by
  have hil : idx < pkids.length := (List.getElem?_eq_some_iff.mp hri).1
  have hidxOf : indexOf xp.kids rid = some idx := by
    have := indexOf_rep rp.hkids hnd hil
    rwa [(List.getElem?_eq_some_iff.mp hri).2] at this
  have hc0 : xr.kids[0]? = some rkids.head? := rep_head rr.hkids (by have := caps_pos.2.2; omega)
  obtain ⟨h1, p', l', r', hstep, hsame, rp', rl', rr', q1, q2, q3, hg1⟩ :=
    step_rotateLeft hp hl hr rp rl rr hpl hlr hpr hkind hidx0 hidx hrne hroom [pid, rid, lid]
  cases hh : rkids.head? with
  | none =>
    refine ⟨h1.event ("rotl-" ++ Heap.level xl), p', l', r', ?_, hsame.trans (same_event _ _), rp', rl', rr', q1, q2, q3, ?_⟩
    · unfold Heap.rotateLeft
      simp only [bind, pure, hl, hr, hrp, hp, hidxOf, hc0, hh, hstep, Option.bind_some]
    · intro j
      simp only [event_get, hg1]
      simp
  | some c =>
    obtain ⟨hcp, hc1, hc2, hc3⟩ := hchild c hh
    have hpres : ∀ d ∈ [c], (h1.get d).isSome := by
      intro d hd
      simp only [List.mem_singleton] at hd
      subst hd
      rw [hg1]; simp [hc1, hc2, hc3, hcp]
    obtain ⟨h2, hsp, hsame2, hg2⟩ := setParents_spec (some lid) [c] h1 hpres
    refine ⟨h2.event ("rotl-" ++ Heap.level xl), p', l', r', ?_, (hsame.trans hsame2).trans (same_event _ _), rp', rl', rr', q1, q2, q3, ?_⟩
    · unfold Heap.rotateLeft
      simp only [bind, pure, hl, hr, hrp, hp, hidxOf, hc0, hh, hstep, Option.bind_some]
      have : h1.setParents [some c] (some lid) = some h2 := hsp
      rw [this]; rfl
    · intro j
      simp only [event_get]
      rw [hg2, hg1]
      by_cases hjc : j = c
      · subst hjc; simp [hc1, hc2, hc3]
      · have : ¬ c = j := fun e => hjc e.symm
        simp [hjc, this]

/-- `rotateRight(left, right)` on the heap -/
theorem rotateRight_spec {h : Heap K V} {pid lid rid idx : Nat} {xp xl xr : SNode K V Nat}
    {pkvs lkvs rkvs : List (K × V)} {pkids lkids rkids : List Nat}
    (hp : h.get pid = some xp) (hl : h.get lid = some xl) (hr : h.get rid = some xr)
    (rp : NodeRep xp pkvs pkids) (rl : NodeRep xl lkvs lkids) (rr : NodeRep xr rkvs rkids)
    (hlp : xl.parent = some pid) (hnd : pkids.Nodup) (hli : pkids[idx]? = some lid)
    (hpl : pid ≠ lid) (hlr : lid ≠ rid) (hpr : pid ≠ rid) (hkind : lkids = [] ↔ rkids = [])
    (hidx : idx < pkvs.length) (hlne : lkvs ≠ []) (hroom : rkvs.length < keysCap)
    (hchild : ∀ c, lkids.getLast? = some c → (h.get c).isSome ∧ c ≠ pid ∧ c ≠ lid ∧ c ≠ rid) :
    ∃ h' p' l' r', Heap.rotateRight h lid rid = some h' ∧ Same h h' ∧
      NodeRep p' (pkvs.take idx ++ lkvs.getLast hlne :: pkvs.drop (idx + 1)) pkids ∧
      NodeRep l' lkvs.dropLast lkids.dropLast ∧
      NodeRep r' (pkvs[idx] :: rkvs) (lkids.getLast?.toList ++ rkids) ∧
      p'.parent = xp.parent ∧ l'.parent = xl.parent ∧ r'.parent = xr.parent ∧
      ∀ j, h'.get j =
        if lkids.getLast? = some j then (h.get j).map (withParent (some rid))
        else if j = rid then some r' else if j = lid then some l' else if j = pid then some p' else h.get j := by
  have hil : idx < pkids.length := (List.getElem?_eq_some_iff.mp hli).1
  have hidxOf : indexOf xp.kids lid = some idx := by
    have := indexOf_rep rp.hkids hnd hil
    rwa [(List.getElem?_eq_some_iff.mp hli).2] at this
  have hci : toIdx (Gen.TreeSlots.rotateRightChildIdx xl.n) = some lkvs.length :=
    toIdx_eq (by simp [Gen.TreeSlots.rotateRightChildIdx, rl.hn])
  have hcl : xl.kids[lkvs.length]? = some lkids.getLast? := by
    refine rep_last rl.hkids rl.hshape ?_
    have := rl.hkeys.2
    have := caps.2
    simp only [List.length_map] at *
    omega
  obtain ⟨h1, p', l', r', hstep, hsame, rp', rl', rr', q1, q2, q3, hg1⟩ :=
    step_rotateRight hp hl hr rp rl rr hpl hlr hpr hkind hidx hlne hroom [pid, lid, rid]
  cases hh : lkids.getLast? with
  | none =>
    refine ⟨h1.event ("rotr-" ++ Heap.level xl), p', l', r', ?_, hsame.trans (same_event _ _), rp', rl', ?_, q1, q2, q3, ?_⟩
    · unfold Heap.rotateRight
      simp only [bind, pure, hl, hlp, hp, hidxOf, hci, hcl, hh, hstep, Option.bind_some]
    · rw [hh] at rr'; exact rr'
    · intro j
      simp only [event_get, hg1]
      simp
  | some c =>
    obtain ⟨hcp, hc1, hc2, hc3⟩ := hchild c hh
    have hpres : ∀ d ∈ [c], (h1.get d).isSome := by
      intro d hd
      simp only [List.mem_singleton] at hd
      subst hd
      rw [hg1]; simp [hc1, hc2, hc3, hcp]
    obtain ⟨h2, hsp, hsame2, hg2⟩ := setParents_spec (some rid) [c] h1 hpres
    refine ⟨h2.event ("rotr-" ++ Heap.level xl), p', l', r', ?_, (hsame.trans hsame2).trans (same_event _ _), rp', rl', ?_, q1, q2, q3, ?_⟩
    · unfold Heap.rotateRight
      simp only [bind, pure, hl, hlp, hp, hidxOf, hci, hcl, hh, hstep, Option.bind_some]
      have : h1.setParents [some c] (some rid) = some h2 := hsp
      rw [this]; rfl
    · rw [hh] at rr'; exact rr'
    · intro j
      simp only [event_get]
      rw [hg2, hg1]
      by_cases hjc : j = c
      · subst hjc; simp [hc1, hc2, hc3]
      · have : ¬ c = j := fun e => hjc e.symm
        simp [hjc, this]

end Juniper.Proofs.TreeHeapLink
