import Juniper.Proofs.TreeIterScript
set_option linter.unusedSimpArgs false
/-!
# The clauses of C02 on the resume-key iterator of the specification
-/
namespace Juniper.Proofs.Tree
open Juniper.Model.BTree Juniper.Gen.Tree

variable {K V : Type} {α : Type} {cmp : K → K → Int}

/-- the comparator read in the iterator's direction -/
def dcmp (cmp : K → K → Int) (fwd : Bool) : K → K → Int := fun a b => if fwd then cmp a b else cmp b a

/-- the map's entries in the iterator's direction -/
def dlist (L : List (K × V)) (fwd : Bool) : List (K × V) := if fwd then L else L.reverse

theorem dcmp_true (cmp : K → K → Int) : dcmp cmp true = cmp := by funext a b; simp [dcmp]
theorem dcmp_false (cmp : K → K → Int) : dcmp cmp false = fun a b => cmp b a := by funext a b; simp [dcmp]

theorem dcmp_strictWeak (hs : StrictWeak cmp) (fwd : Bool) : StrictWeak (dcmp cmp fwd) := by
  cases fwd with
  | true => rw [dcmp_true]; exact hs
  | false => rw [dcmp_false]; exact hs.flip

theorem dlist_sorted {L : List (K × V)} (h : Sorted cmp L) (fwd : Bool) : Sorted (dcmp cmp fwd) (dlist L fwd) := by
  cases fwd with
  | true => rw [dcmp_true]; simpa [dlist] using h
  | false => rw [dcmp_false]; simp only [dlist, Bool.false_eq_true, if_false, Sorted]; exact List.pairwise_reverse.mpr h

theorem mem_dlist {L : List (K × V)} {fwd : Bool} {x : K × V} : x ∈ dlist L fwd ↔ x ∈ L := by
  cases fwd <;> simp [dlist]

theorem ahead_eq (hs : StrictWeak cmp) (L : List (K × V)) (fwd : Bool) (k : K) :
    ahead cmp L fwd k = (dlist L fwd).dropWhile (fun x => decide (0 < dcmp cmp fwd k x.1)) := by
  cases fwd with
  | true => simp [ahead, geS, dlist, dcmp, seekFirstGreaterOrEqualStep]
  | false =>
    simp only [ahead, leS, dlist, dcmp, seekLastLessOrEqualStep, Bool.false_eq_true, if_false]
    congr 1; funext x
    have := hs.anti k x.1
    simp only [decide_eq_decide]; omega

/-- what `dropWhile (k above ·)` does on a sorted list -/
theorem dw_spec {c : K → K → Int} (hc : StrictWeak c) {D : List (K × V)} (hD : Sorted c D) (k : K) :
    ∃ B, D = B ++ D.dropWhile (fun x => decide (0 < c k x.1)) ∧ (∀ b ∈ B, 0 < c k b.1) ∧
      (∀ x ∈ D.dropWhile (fun x => decide (0 < c k x.1)), c k x.1 ≤ 0) := by
  induction D with
  | nil => exact ⟨[], rfl, by simp, by simp⟩
  | cons a D ih =>
    have hp := List.pairwise_cons.mp hD
    by_cases ha : 0 < c k a.1
    · obtain ⟨B, h1, h2, h3⟩ := ih hp.2
      refine ⟨a :: B, ?_, ?_, ?_⟩
      · simp only [List.dropWhile_cons, ha, decide_true, if_true, List.cons_append]; rw [← h1]
      · intro b hb
        simp only [List.mem_cons] at hb
        rcases hb with rfl | hb
        · exact ha
        · exact h2 b hb
      · simpa only [List.dropWhile_cons, ha, decide_true, if_true] using h3
    · refine ⟨[], by simp [List.dropWhile_cons, ha], by simp, ?_⟩
      simp only [List.dropWhile_cons, ha, decide_false, Bool.false_eq_true, if_false]
      intro x hx
      simp only [List.mem_cons] at hx
      rcases hx with rfl | hx
      · omega
      · have hax : c a.1 x.1 < 0 := hp.1 x hx
        rcases Int.lt_or_eq_of_le (Int.not_lt.mp ha) with h1 | h1
        · have := hc.lt_trans h1 hax; omega
        · have := hc.lt_of_eq_of_lt h1 hax; omega

theorem sraw_none_resume (cmp : K → K → Int) (L : List (K × V)) (fwd : Bool) : sraw cmp L fwd none = (none, none) := rfl

/-- `sraw` found nothing at or beyond the resume key -/
theorem sraw_none (hs : StrictWeak cmp) {L : List (K × V)} (hL : Sorted cmp L) {fwd : Bool} {k : K} {r : Option K}
    (h : sraw cmp L fwd (some k) = (r, none)) : r = none ∧ ∀ x ∈ L, 0 < dcmp cmp fwd k x.1 := by
  simp only [sraw, ahead_eq hs] at h
  obtain ⟨B, h1, h2, h3⟩ := dw_spec (dcmp_strictWeak hs fwd) (dlist_sorted hL fwd) k
  cases hS : (dlist L fwd).dropWhile (fun x => decide (0 < dcmp cmp fwd k x.1)) with
  | nil =>
    rw [hS] at h h1
    simp only [Prod.mk.injEq, and_true] at h
    refine ⟨h.symm, fun x hx => ?_⟩
    rw [List.append_nil] at h1
    exact h2 x (by rw [← h1]; exact mem_dlist.mpr hx)
  | cons e S' => rw [hS] at h; simp at h

/-- `sraw` yields the least entry at or beyond the resume key and resumes from its successor -/
theorem sraw_some (hs : StrictWeak cmp) {L : List (K × V)} (hL : Sorted cmp L) {fwd : Bool} {k : K} {r : Option K} {e : K × V}
    (h : sraw cmp L fwd (some k) = (r, some e)) :
    e ∈ L ∧ dcmp cmp fwd k e.1 ≤ 0 ∧
    (∀ x ∈ L, dcmp cmp fwd k x.1 ≤ 0 → x = e ∨ dcmp cmp fwd e.1 x.1 < 0) ∧
    (match r with
      | none => ∀ x ∈ L, ¬ dcmp cmp fwd e.1 x.1 < 0
      | some s => dcmp cmp fwd e.1 s < 0 ∧ (∃ x ∈ L, x.1 = s) ∧ ∀ x ∈ L, dcmp cmp fwd e.1 x.1 < 0 → dcmp cmp fwd s x.1 ≤ 0) := by
  have hd := dcmp_strictWeak hs fwd
  have hDs := dlist_sorted hL fwd
  simp only [sraw, ahead_eq hs] at h
  obtain ⟨B, h1, h2, h3⟩ := dw_spec hd hDs k
  cases hS : (dlist L fwd).dropWhile (fun x => decide (0 < dcmp cmp fwd k x.1)) with
  | nil => rw [hS] at h; simp at h
  | cons e' S' =>
    rw [hS] at h h1 h3
    simp only [Prod.mk.injEq, Option.some.injEq] at h
    obtain ⟨hr, rfl⟩ := h
    have hmem : ∀ x, x ∈ L ↔ x ∈ B ∨ x = e' ∨ x ∈ S' := by
      intro x; rw [← mem_dlist (fwd := fwd), h1]; simp
    rw [h1] at hDs
    have hp1 := List.pairwise_append.mp hDs
    have hp2 := List.pairwise_cons.mp hp1.2.1
    refine ⟨(hmem e').mpr (Or.inr (Or.inl rfl)), h3 e' List.mem_cons_self, ?_, ?_⟩
    · intro x hx hkx
      rcases (hmem x).mp hx with hb | rfl | hs'
      · have := h2 x hb; omega
      · left; rfl
      · right; exact hp2.1 x hs'
    · cases S' with
      | nil =>
        simp only [List.head?_nil, Option.map_none] at hr
        subst hr
        intro x hx hlt
        rcases (hmem x).mp hx with hb | rfl | hs'
        · have : dcmp cmp fwd x.1 e'.1 < 0 := hp1.2.2 x hb e' List.mem_cons_self
          have := (hd.anti x.1 e'.1).mp this; omega
        · have := hd.refl x.1; omega
        · cases hs'
      | cons s S'' =>
        simp only [List.head?_cons, Option.map_some] at hr
        subst hr
        have hp3 := List.pairwise_cons.mp hp2.2
        refine ⟨hp2.1 s List.mem_cons_self, ⟨s, (hmem s).mpr (Or.inr (Or.inr List.mem_cons_self)), rfl⟩, ?_⟩
        intro x hx hlt
        rcases (hmem x).mp hx with hb | rfl | hs'
        · have : dcmp cmp fwd x.1 e'.1 < 0 := hp1.2.2 x hb e' List.mem_cons_self
          have := (hd.anti x.1 e'.1).mp this; omega
        · have := hd.refl x.1; omega
        · simp only [List.mem_cons] at hs'
          rcases hs' with rfl | hs'
          · have := hd.refl x.1; omega
          · have := hp3.1 x hs'; omega


/-! ## the property's clauses, on the specification iterator -/

/-- the far-bound (`While`) predicate of an iterator -/
def keepFn (cmp : K → K → Int) (stop : Option (CmpOp × K)) (k : K) : Bool :=
  match stop with
  | none => true
  | some (op, key) => evalOp op (cmp k key)

/-- unfolding `snext` into the bare step and the far-bound test -/
theorem snext_cases (cmp : K → K → Int) (L : List (K × V)) (it : SIter K) :
    (it.stop ≠ none ∧ it.done = true ∧ snext cmp L it = (it, none)) ∨
    ((it.stop = none ∨ it.done = false) ∧
      ((∃ r, sraw cmp L it.fwd it.resume = (r, none) ∧ snext cmp L it = ({ it with resume := r }, none)) ∨
       (∃ r e, sraw cmp L it.fwd it.resume = (r, some e) ∧ keepFn cmp it.stop e.1 = true ∧
          snext cmp L it = ({ it with resume := r }, some e)) ∨
       (∃ r e, sraw cmp L it.fwd it.resume = (r, some e) ∧ keepFn cmp it.stop e.1 = false ∧ it.stop ≠ none ∧
          snext cmp L it = ({ it with resume := r, done := true }, none)))) := by
  unfold snext
  cases hst : it.stop with
  | none =>
    right
    refine ⟨Or.inl rfl, ?_⟩
    rcases hr : sraw cmp L it.fwd it.resume with ⟨r, o⟩
    cases o with
    | none => left; exact ⟨r, rfl, by simp⟩
    | some e => right; left; exact ⟨r, e, rfl, by simp [keepFn], by simp⟩
  | some s =>
    obtain ⟨op, key⟩ := s
    cases hd : it.done with
    | true => left; exact ⟨by simp, rfl, by simp⟩
    | false =>
      right
      refine ⟨Or.inr rfl, ?_⟩
      rcases hr : sraw cmp L it.fwd it.resume with ⟨r, o⟩
      cases o with
      | none => left; exact ⟨r, rfl, by simp⟩
      | some e =>
        cases hk : evalOp op (cmp e.1 key) with
        | true => right; left; exact ⟨r, e, rfl, by simp [keepFn, hk], by simp [hk]⟩
        | false => right; right; exact ⟨r, e, rfl, by simp [keepFn, hk], by simp, by simp [hk]⟩

/-- clause "every key it yields is present at that moment and paired with its current value", and
"inside its (far) bound" -/
theorem snext_yield_present (hs : StrictWeak cmp) {L : List (K × V)} (hL : Sorted cmp L) {it it' : SIter K} {e : K × V}
    (h : snext cmp L it = (it', some e)) : e ∈ L ∧ keepFn cmp it.stop e.1 = true := by
  rcases snext_cases cmp L it with ⟨_, _, h1⟩ | ⟨_, ⟨r, _, h1⟩ | ⟨r, e', h0, hk, h1⟩ | ⟨r, e', _, _, _, h1⟩⟩
  · rw [h1] at h; cases h
  · rw [h1] at h; cases h
  · rw [h1] at h
    simp only [Prod.mk.injEq, Option.some.injEq] at h
    obtain ⟨_, rfl⟩ := h
    cases hres : it.resume with
    | none => rw [hres, sraw_none_resume] at h0; cases h0
    | some k => rw [hres] at h0; exact ⟨(sraw_some hs hL h0).1, hk⟩
  · rw [h1] at h; cases h

/-- clause "once it reports exhaustion it keeps doing so" (on whatever the map has become) -/
theorem snext_exhaustion_sticky (hs : StrictWeak cmp) {L : List (K × V)} (hL : Sorted cmp L) {it it' : SIter K}
    (h : snext cmp L it = (it', none)) (L' : List (K × V)) : snext cmp L' it' = (it', none) := by
  have hnone : ∀ it0 : SIter K, it0.resume = none → snext cmp L' it0 = (it0, none) := by
    intro it0 hr
    obtain ⟨r0, f0, s0, d0⟩ := it0
    simp only at hr; subst hr
    unfold snext
    cases s0 with
    | none => simp [sraw]
    | some s => obtain ⟨op, key⟩ := s; cases d0 <;> simp [sraw]
  have hdone : ∀ it0 : SIter K, it0.stop ≠ none → it0.done = true → snext cmp L' it0 = (it0, none) := by
    intro it0 hst hd
    unfold snext
    cases hs0 : it0.stop with
    | none => exact absurd hs0 hst
    | some s => obtain ⟨op, key⟩ := s; simp [hd]
  rcases snext_cases cmp L it with ⟨h0, h2, h1⟩ | ⟨_, ⟨r, h0, h1⟩ | ⟨r, e', _, _, h1⟩ | ⟨r, e', _, _, hst, h1⟩⟩
  · rw [h1] at h; cases h; exact hdone it h0 h2
  · rw [h1] at h; cases h
    have : r = none := by
      cases hres : it.resume with
      | none => rw [hres, sraw_none_resume] at h0; cases h0; rfl
      | some k => rw [hres] at h0; exact (sraw_none hs hL h0).1
    exact hnone _ this
  · rw [h1] at h; cases h
  · rw [h1] at h; cases h; exact hdone _ hst rfl

/-- clause "its keys are strictly monotone in its direction": two consecutive `Next` calls that both yield,
on whatever the map was at the two moments -/
theorem snext_strict_monotone (hs : StrictWeak cmp) {L1 L2 : List (K × V)} (h1 : Sorted cmp L1) (h2 : Sorted cmp L2)
    {it it1 it2 : SIter K} {e1 e2 : K × V}
    (hn1 : snext cmp L1 it = (it1, some e1)) (hn2 : snext cmp L2 it1 = (it2, some e2)) :
    dcmp cmp it.fwd e1.1 e2.1 < 0 := by
  have hd := dcmp_strictWeak hs it.fwd
  -- first call
  rcases snext_cases cmp L1 it with ⟨_, _, g⟩ | ⟨_, ⟨r, _, g⟩ | ⟨r, e', g0, _, g⟩ | ⟨r, e', _, _, _, g⟩⟩
  · rw [g] at hn1; cases hn1
  · rw [g] at hn1; cases hn1
  · rw [g] at hn1
    simp only [Prod.mk.injEq, Option.some.injEq] at hn1
    obtain ⟨rfl, rfl⟩ := hn1
    cases hres : it.resume with
    | none => rw [hres, sraw_none_resume] at g0; cases g0
    | some k =>
      rw [hres] at g0
      have hsucc := (sraw_some hs h1 g0).2.2.2
      -- second call
      rcases snext_cases cmp L2 { it with resume := r } with ⟨_, _, g'⟩ | ⟨_, ⟨r', _, g'⟩ | ⟨r', e'', g0', _, g'⟩ | ⟨r', e'', _, _, _, g'⟩⟩
      · rw [g'] at hn2; cases hn2
      · rw [g'] at hn2; cases hn2
      · rw [g'] at hn2
        simp only [Prod.mk.injEq, Option.some.injEq] at hn2
        obtain ⟨_, rfl⟩ := hn2
        simp only at g0'
        cases r with
        | none => rw [sraw_none_resume] at g0'; cases g0'
        | some s =>
          simp only at hsucc
          have hle := (sraw_some hs h2 g0').2.1
          rcases Int.lt_or_eq_of_le hle with h | h
          · exact hd.lt_trans hsucc.1 h
          · exact hd.lt_of_lt_of_eq hsucc.1 h
      · rw [g'] at hn2; cases hn2
  · rw [g] at hn1; cases hn1

/-- the iterator has not moved past `x` yet -/
def Owes (cmp : K → K → Int) (it : SIter K) (x : K) : Prop :=
  (it.stop = none ∨ it.done = false) ∧ ∃ k, it.resume = some k ∧ dcmp cmp it.fwd k x ≤ 0

/-- clause "no key that stays in the collection … until the iterator has moved past it is skipped": while
`x` is in the map, inside the far bound and not yet passed, `Next` neither ends nor yields beyond `x` — it
yields `x` itself or something before `x`, still owing `x` -/
theorem snext_no_skip (hs : StrictWeak cmp) {L : List (K × V)} (hL : Sorted cmp L) {it : SIter K} {x : K × V}
    (hx : x ∈ L) (ho : Owes cmp it x.1) (hkx : keepFn cmp it.stop x.1 = true)
    (hmono : ∀ a b, dcmp cmp it.fwd a b < 0 → keepFn cmp it.stop b = true → keepFn cmp it.stop a = true) :
    (∃ it', snext cmp L it = (it', some x)) ∨
    (∃ it' e, snext cmp L it = (it', some e) ∧ dcmp cmp it.fwd e.1 x.1 < 0 ∧ Owes cmp it' x.1 ∧
      it'.fwd = it.fwd ∧ it'.stop = it.stop) := by
  obtain ⟨hnd, k, hres, hk⟩ := ho
  have hnotdone : ¬ (it.stop ≠ none ∧ it.done = true) := by
    rintro ⟨h1, h2⟩; rcases hnd with h | h
    · exact h1 h
    · rw [h2] at h; cases h
  rcases snext_cases cmp L it with ⟨g1, g2, _⟩ | ⟨_, ⟨r, g0, _⟩ | ⟨r, e, g0, gk, g⟩ | ⟨r, e, g0, gk, _, _⟩⟩
  · exact absurd ⟨g1, g2⟩ hnotdone
  · rw [hres] at g0
    have := (sraw_none hs hL g0).2 x hx; omega
  · rw [hres] at g0
    obtain ⟨_, _, hleast, hsucc⟩ := sraw_some hs hL g0
    rcases hleast x hx hk with rfl | hlt
    · left; exact ⟨_, g⟩
    · right
      refine ⟨_, e, g, hlt, ⟨hnd, ?_⟩, rfl, rfl⟩
      cases r with
      | none => exact absurd hlt (hsucc x hx)
      | some s => exact ⟨s, rfl, hsucc.2.2 x hx hlt⟩
  · rw [hres] at g0
    obtain ⟨_, _, hleast, _⟩ := sraw_some hs hL g0
    rcases hleast x hx hk with rfl | hlt
    · rw [hkx] at gk; cases gk
    · rw [hmono e.1 x.1 hlt hkx] at gk; cases gk

/-- clause "a key inserted during the iteration that lies beyond the next key the iterator yields … is
yielded too": if `x` is in the map when `Next` yields `y` and `x` lies beyond `y`, the iterator owes `x` from then on
(and `snext_no_skip` applies for as long as `x` stays) -/
theorem snext_owes_beyond (hs : StrictWeak cmp) {L : List (K × V)} (hL : Sorted cmp L) {it it' : SIter K} {x y : K × V}
    (hx : x ∈ L) (h : snext cmp L it = (it', some y)) (hb : dcmp cmp it.fwd y.1 x.1 < 0) :
    Owes cmp it' x.1 ∧ it'.fwd = it.fwd ∧ it'.stop = it.stop := by
  rcases snext_cases cmp L it with ⟨_, _, g⟩ | ⟨hnd, ⟨r, _, g⟩ | ⟨r, e, g0, _, g⟩ | ⟨r, e, _, _, _, g⟩⟩
  · rw [g] at h; cases h
  · rw [g] at h; cases h
  · rw [g] at h
    simp only [Prod.mk.injEq, Option.some.injEq] at h
    obtain ⟨rfl, rfl⟩ := h
    cases hres : it.resume with
    | none => rw [hres, sraw_none_resume] at g0; cases g0
    | some k =>
      rw [hres] at g0
      have hsucc := (sraw_some hs hL g0).2.2.2
      refine ⟨⟨hnd, ?_⟩, rfl, rfl⟩
      cases r with
      | none => exact absurd hb (hsucc x hx)
      | some s => exact ⟨s, rfl, hsucc.2.2 x hx hb⟩
  · rw [g] at h; cases h


/-! ## bounds -/

theorem keepFn_stopOf_fwd (cmp : K → K → Int) (lo hi : Bound K) (k : K) :
    keepFn cmp (stopOf true lo hi) k = belowHi cmp hi k := by
  unfold stopOf belowHi keepFn
  cases hi.kind with
  | none => rfl
  | some bk => cases bk <;> simp [evalOp]

theorem keepFn_stopOf_bwd (cmp : K → K → Int) (lo hi : Bound K) (k : K) :
    keepFn cmp (stopOf false lo hi) k = aboveLo cmp lo k := by
  unfold stopOf aboveLo keepFn
  cases lo.kind with
  | none => rfl
  | some bk => cases bk <;> simp [evalOp, ge_iff_le, gt_iff_lt]

/-- the far-bound predicate is closed towards the iterator's start -/
theorem keep_mono (hs : StrictWeak cmp) (fwd : Bool) (lo hi : Bound K) :
    ∀ a b, dcmp cmp fwd a b < 0 → keepFn cmp (stopOf fwd lo hi) b = true → keepFn cmp (stopOf fwd lo hi) a = true := by
  intro a b h hb
  cases fwd with
  | true =>
    rw [keepFn_stopOf_fwd] at hb ⊢
    simp only [dcmp, if_true] at h
    exact belowHi_mono hs hi h hb
  | false =>
    rw [keepFn_stopOf_bwd] at hb ⊢
    simp only [dcmp, Bool.false_eq_true, if_false] at h
    exact aboveLo_mono hs lo h hb

/-- the near-bound predicate of an iterator -/
def nearFn (cmp : K → K → Int) (fwd : Bool) (lo hi : Bound K) (k : K) : Bool :=
  if fwd then aboveLo cmp lo k else belowHi cmp hi k

theorem aboveLo_congr (hs : StrictWeak cmp) (lo : Bound K) {a b : K} (h : cmp a b = 0) :
    aboveLo cmp lo a = aboveLo cmp lo b := by
  have hba := hs.eq_symm h
  have h1 : cmp a lo.key < 0 ↔ cmp b lo.key < 0 :=
    ⟨fun x => hs.lt_of_eq_of_lt hba x, fun x => hs.lt_of_eq_of_lt h x⟩
  have h2 : 0 < cmp a lo.key ↔ 0 < cmp b lo.key :=
    ⟨fun x => hs.gt_of_eq_of_gt hba x, fun x => hs.gt_of_eq_of_gt h x⟩
  unfold aboveLo
  cases lo.kind with
  | none => rfl
  | some bk => cases bk <;> simp only [decide_eq_decide] <;> omega

theorem belowHi_congr (hs : StrictWeak cmp) (hi : Bound K) {a b : K} (h : cmp a b = 0) :
    belowHi cmp hi a = belowHi cmp hi b := by
  have hba := hs.eq_symm h
  have h1 : cmp a hi.key < 0 ↔ cmp b hi.key < 0 :=
    ⟨fun x => hs.lt_of_eq_of_lt hba x, fun x => hs.lt_of_eq_of_lt h x⟩
  have h2 : 0 < cmp a hi.key ↔ 0 < cmp b hi.key :=
    ⟨fun x => hs.gt_of_eq_of_gt hba x, fun x => hs.gt_of_eq_of_gt h x⟩
  unfold belowHi
  cases hi.kind with
  | none => rfl
  | some bk => cases bk <;> simp only [decide_eq_decide] <;> omega

/-- the near-bound predicate is closed in the iterator's direction -/
theorem near_mono (hs : StrictWeak cmp) (fwd : Bool) (lo hi : Bound K) :
    ∀ a b, dcmp cmp fwd a b ≤ 0 → nearFn cmp fwd lo hi a = true → nearFn cmp fwd lo hi b = true := by
  intro a b h ha
  cases fwd with
  | true =>
    simp only [nearFn, if_true] at ha ⊢
    simp only [dcmp, if_true] at h
    rcases Int.lt_or_eq_of_le h with h | h
    · exact aboveLo_mono hs lo h ha
    · rw [← aboveLo_congr hs lo h]; exact ha
  | false =>
    simp only [nearFn, Bool.false_eq_true, if_false] at ha ⊢
    simp only [dcmp, Bool.false_eq_true, if_false] at h
    rcases Int.lt_or_eq_of_le h with h | h
    · exact belowHi_mono hs hi h ha
    · rw [belowHi_congr hs hi h]; exact ha

/-- first element of a sorted list satisfying an upward-closed predicate -/
theorem head_dropWhile_le {c : K → K → Int} (hc : StrictWeak c) {q : K → Bool} (_hq : ∀ a b, c a b < 0 → q a = true → q b = true)
    {D : List (K × V)} (hD : Sorted c D) {x : K × V} (hx : x ∈ D) (hqx : q x.1 = true) :
    ∃ h, (D.dropWhile (fun y => !q y.1)).head? = some h ∧ q h.1 = true ∧ c h.1 x.1 ≤ 0 := by
  induction D with
  | nil => cases hx
  | cons a D ih =>
    have hp := List.pairwise_cons.mp hD
    by_cases ha : q a.1 = true
    · refine ⟨a, by simp [List.dropWhile_cons, ha], ha, ?_⟩
      simp only [List.mem_cons] at hx
      rcases hx with rfl | hx
      · have := hc.refl x.1; omega
      · have := hp.1 x hx; omega
    · have ha' : q a.1 = false := by simpa using ha
      have hxD : x ∈ D := by
        simp only [List.mem_cons] at hx
        rcases hx with rfl | hx
        · rw [hqx] at ha'; cases ha'
        · exact hx
      obtain ⟨h, h1, h2, h3⟩ := ih hp.2 hxD
      exact ⟨h, by simp [List.dropWhile_cons, ha', h1], h2, h3⟩

/-- a freshly created iterator owes every entry inside its near bound, and starts inside it -/
theorem smk_owes (hs : StrictWeak cmp) {L : List (K × V)} (hL : Sorted cmp L) (fwd : Bool) (lo hi : Bound K)
    {x : K × V} (hx : x ∈ L) (hn : nearFn cmp fwd lo hi x.1 = true) :
    Owes cmp (smk cmp L fwd lo hi) x.1 ∧
    ∀ k, (smk cmp L fwd lo hi).resume = some k → nearFn cmp fwd lo hi k = true := by
  have hd := dcmp_strictWeak hs fwd
  have hq : ∀ a b, dcmp cmp fwd a b < 0 → nearFn cmp fwd lo hi a = true → nearFn cmp fwd lo hi b = true :=
    fun a b h ha => near_mono hs fwd lo hi a b (by omega) ha
  obtain ⟨h, h1, h2, h3⟩ := head_dropWhile_le hd hq (dlist_sorted hL fwd) (mem_dlist.mpr hx) hn
  have hstart : startOf cmp L fwd lo hi = (dlist L fwd).dropWhile (fun y => !nearFn cmp fwd lo hi y.1) := by
    cases fwd <;> simp [startOf, dlist, nearFn]
  constructor
  · refine ⟨Or.inr rfl, h.1, ?_, h3⟩
    simp [smk, hstart, h1]
  · intro k hk
    simp only [smk, hstart, h1, Option.map_some, Option.some.injEq] at hk
    rw [← hk]; exact h2

/-- the first element `dropWhile (¬ q)` leaves satisfies `q` -/
theorem head_dropWhile_sat {β : Type} (q : β → Bool) (D : List β) {h : β}
    (hh : (D.dropWhile (fun y => !q y)).head? = some h) : q h = true := by
  induction D with
  | nil => simp at hh
  | cons a D ih =>
    by_cases ha : q a = true
    · simp only [List.dropWhile_cons, ha, Bool.not_true, Bool.false_eq_true, if_false, List.head?_cons,
        Option.some.injEq] at hh
      rw [← hh]; exact ha
    · have ha' : q a = false := by simpa using ha
      simp only [List.dropWhile_cons, ha', Bool.not_false, if_true] at hh
      exact ih hh

/-- **a fresh `Range` / `RangeReverse` iterator starts inside its near bound** — on any map, sorted or not, whether or
not any entry lies inside the bound (audit C02-F7: `smk_owes` gave this only for maps that contain an entry inside
the near bound) -/
theorem smk_near (cmp : K → K → Int) (L : List (K × V)) (fwd : Bool) (lo hi : Bound K) :
    ∀ k, (smk cmp L fwd lo hi).resume = some k → nearFn cmp fwd lo hi k = true := by
  intro k hk
  have hstart : startOf cmp L fwd lo hi = (dlist L fwd).dropWhile (fun y => !nearFn cmp fwd lo hi y.1) := by
    cases fwd <;> simp [startOf, dlist, nearFn]
  simp only [smk, hstart] at hk
  cases hh : ((dlist L fwd).dropWhile (fun y => !nearFn cmp fwd lo hi y.1)).head? with
  | none => rw [hh] at hk; cases hk
  | some h =>
    rw [hh] at hk
    simp only [Option.map_some, Option.some.injEq] at hk
    rw [← hk]
    exact head_dropWhile_sat (fun y : K × V => nearFn cmp fwd lo hi y.1) (dlist L fwd) hh

/-- "inside its bounds", near side: an iterator whose resume key is inside the near bound yields only keys inside
it and keeps its resume key inside -/
theorem snext_near (hs : StrictWeak cmp) {L : List (K × V)} (hL : Sorted cmp L) (lo hi : Bound K) {it it' : SIter K}
    {out : Option (K × V)} (hinv : ∀ k, it.resume = some k → nearFn cmp it.fwd lo hi k = true)
    (h : snext cmp L it = (it', out)) :
    (∀ e, out = some e → nearFn cmp it.fwd lo hi e.1 = true) ∧
    (it'.fwd = it.fwd ∧ ∀ k, it'.resume = some k → nearFn cmp it'.fwd lo hi k = true) := by
  have hd := dcmp_strictWeak hs it.fwd
  have key : ∀ r e, sraw cmp L it.fwd it.resume = (r, some e) →
      nearFn cmp it.fwd lo hi e.1 = true ∧ ∀ k, r = some k → nearFn cmp it.fwd lo hi k = true := by
    intro r e g0
    cases hres : it.resume with
    | none => rw [hres, sraw_none_resume] at g0; cases g0
    | some k0 =>
      rw [hres] at g0
      obtain ⟨_, hle, _, hsucc⟩ := sraw_some hs hL g0
      have hne := near_mono hs it.fwd lo hi k0 e.1 hle (hinv k0 hres)
      refine ⟨hne, fun k hk => ?_⟩
      subst hk
      simp only at hsucc
      exact near_mono hs it.fwd lo hi e.1 k (by have := hsucc.1; omega) hne
  have keyn : ∀ r, sraw cmp L it.fwd it.resume = (r, none) → r = none := by
    intro r g0
    cases hres : it.resume with
    | none => rw [hres, sraw_none_resume] at g0; cases g0; rfl
    | some k0 => rw [hres] at g0; exact (sraw_none hs hL g0).1
  rcases snext_cases cmp L it with ⟨_, _, g⟩ | ⟨_, ⟨r, g0, g⟩ | ⟨r, e, g0, _, g⟩ | ⟨r, e, g0, _, _, g⟩⟩
  · rw [g] at h; cases h
    exact ⟨fun e he => (by cases he), rfl, hinv⟩
  · rw [g] at h; cases h
    refine ⟨fun e he => (by cases he), rfl, fun k hk => ?_⟩
    simp only at hk; rw [keyn r g0] at hk; cases hk
  · rw [g] at h; cases h
    obtain ⟨k1, k2⟩ := key r e g0
    exact ⟨fun e' he => (by cases he; exact k1), rfl, fun k hk => k2 k hk⟩
  · rw [g] at h; cases h
    obtain ⟨k1, k2⟩ := key r e g0
    exact ⟨fun e' he => (by cases he), rfl, fun k hk => k2 k hk⟩

end Juniper.Proofs.Tree
