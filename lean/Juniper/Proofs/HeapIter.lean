import Juniper.Proofs.PQOps
import Juniper.Spec.Deque
/-!
# The heap iterator: generation-counter invariant (heap half of C15)

`Ev` is one step of a history seen by an iterator: a `Next` call or a call on the container.
`run` is total: it collects what **every** `Next` call of the history returns (also those after a
`panic` or after exhaustion), as observations `Spec.Deque.Obs` — the vocabulary shared with the deque
half, so that both halves are stated with the same `SnapshotOrPanic`.

The regenerated facts enter every lemma here as explicit hypotheses (`genFacts = true`,
`iterFacts = true`, `xFacts = true`, `pqIterateMapsInnerToKey = true`); the property theorems of
`Props/C15Heap` discharge them by `decide` inside their proofs.
-/
set_option linter.unusedSimpArgs false
set_option linter.unusedVariables false
set_option linter.unusedSectionVars false
namespace Juniper.Proofs.HeapIter
open Juniper.Gen.Heap Juniper.Model.Heap Juniper.Spec.Heap Juniper.Proofs.Heap
open Juniper.Spec.Deque (Obs SnapshotOrPanic)

variable {α : Type}

/-- every mutator bumps `gen` unconditionally (presence *and* position, regenerated from heap.go) -/
def genFacts : Bool := pushBumpsGen && popBumpsGen && removeAtBumpsGen && updateAtBumpsGen

/-- the iterator captures `gen` and the slice at its first `Next`, and panics on a mismatch -/
def iterFacts : Bool :=
  iterCapturesGen && iterCapturesSlice && iterPanics && decide (iterInitGen = -1)

/-- the bodies of `xheap.Heap.Push/Pop/Grow/Shrink/Iterate` are exactly the forwarding statements -/
def xFacts : Bool :=
  xPushForwards && xPopForwards && xGrowForwards && xShrinkForwards && xIterateForwards

theorem iterFresh_eq (g : Int) : iterFresh g = decide (g = -1) := by simp [iterFresh]
theorem iterModified_eq (g g' : Int) : iterModified g g' = !decide (g = g') := by simp [iterModified]

/-- one `Next` result as an observation -/
def toObs : IterOut α → Obs α
  | .panic => .panic
  | .done => .done
  | .item x => .item x

inductive Ev (α : Type) where
  | next
  | push (x : α)
  | pop
  | removeAt (i : Nat)
  | updateAt (i : Nat) (x : α)
  | grow
  | shrink

def Ev.isNext : Ev α → Bool
  | .next => true
  | _ => false

/-- the container after one call (a panicking call leaves it unchanged) -/
def applyEv (less : α → α → Bool) (h : Heap α) : Ev α → Heap α
  | .next => h
  | .push x => (push less h x).1
  | .pop => match pop less h with
    | some (h', _, _) => h'
    | none => h
  | .removeAt i => match removeAt less h i with
    | some (h', _) => h'
    | none => h
  | .updateAt i x => match updateAt less h i x with
    | some (h', _) => h'
    | none => h
  | .grow => Juniper.Model.Heap.grow h
  | .shrink => Juniper.Model.Heap.shrink h

/-- what **every** `Next` call of a history returns, in order -/
def run (less : α → α → Bool) : Heap α → Iter → List (Ev α) → List (Obs α)
  | _, _, [] => []
  | h, it, .next :: es => toObs (iterNext h it).2 :: run less h (iterNext h it).1 es
  | h, it, e :: es => run less (applyEv less h e) it es

/-- the contents at the iterator's first `Next` -/
def snapshot (less : α → α → Bool) : Heap α → List (Ev α) → List α
  | h, [] => h.a
  | h, .next :: _ => h.a
  | h, e :: es => snapshot less (applyEv less h e) es

theorem run_next (less : α → α → Bool) (h : Heap α) (it : Iter) (es : List (Ev α)) :
    run less h it (.next :: es) = toObs (iterNext h it).2 :: run less h (iterNext h it).1 es := by
  simp only [run]

theorem run_op (less : α → α → Bool) (h : Heap α) (it : Iter) {e : Ev α} (he : e.isNext = false)
    (es : List (Ev α)) : run less h it (e :: es) = run less (applyEv less h e) it es := by
  cases e <;> first | (cases he; done) | simp only [run]

theorem snapshot_op (less : α → α → Bool) (h : Heap α) {e : Ev α} (he : e.isNext = false)
    (es : List (Ev α)) : snapshot less h (e :: es) = snapshot less (applyEv less h e) es := by
  cases e <;> first | (cases he; done) | simp only [snapshot]

/-- one observation per `Next` call: nothing is dropped -/
theorem run_length (less : α → α → Bool) (evs : List (Ev α)) (h : Heap α) (it : Iter) :
    (run less h it evs).length = (evs.filter Ev.isNext).length := by
  induction evs generalizing h it with
  | nil => rfl
  | cons e es ih =>
    cases e <;> simp [run, Ev.isNext, ih, List.filter_cons]

theorem applyEv_gen (less : α → α → Bool) (h : Heap α) (e : Ev α) (hf : genFacts = true) :
    h.gen ≤ (applyEv less h e).gen ∧ ((applyEv less h e).gen = h.gen → (applyEv less h e).a = h.a) := by
  simp only [genFacts, Bool.and_eq_true] at hf
  obtain ⟨⟨⟨h1, h2⟩, h3⟩, h4⟩ := hf
  cases e with
  | next => simp [applyEv]
  | push x =>
    simp only [applyEv]
    rw [push_gen less h x, h1]
    simp only [bump, if_true]
    exact ⟨by omega, fun h => by omega⟩
  | pop =>
    simp only [applyEv]
    cases hp : pop less h with
    | none => simp
    | some r =>
      obtain ⟨h', x, n⟩ := r
      obtain ⟨_, _, _, _, hg, _⟩ := pop_shape hp
      simp only [hg, h2, bump, if_true]
      exact ⟨by omega, fun h => by omega⟩
  | removeAt i =>
    simp only [applyEv]
    cases hp : removeAt less h i with
    | none => simp
    | some r =>
      obtain ⟨h', n⟩ := r
      obtain ⟨_, _, _, hg, _⟩ := removeAt_shape hp
      simp only [hg, h3, bump, if_true]
      exact ⟨by omega, fun h => by omega⟩
  | updateAt i x =>
    simp only [applyEv]
    cases hp : updateAt less h i x with
    | none => simp
    | some r =>
      obtain ⟨h', n⟩ := r
      obtain ⟨_, hg, _, _⟩ := updateAt_shape hp
      simp only [hg, h4, bump, if_true]
      exact ⟨by omega, fun h => by omega⟩
  | grow =>
    simp only [applyEv, Juniper.Model.Heap.grow, bump]
    split <;> (refine ⟨by omega, ?_⟩; simp)
  | shrink =>
    simp only [applyEv, Juniper.Model.Heap.shrink, bump]
    split <;> (refine ⟨by omega, ?_⟩; simp)

/-- a call that adds, removes or replaces an element (and does not itself panic) -/
def Mutates (h : Heap α) : Ev α → Prop
  | .push _ => True
  | .pop => h.a ≠ []
  | .removeAt i => i < h.a.length
  | .updateAt i _ => i < h.a.length
  | _ => False

theorem Mutates.not_next {h : Heap α} {e : Ev α} (he : Mutates h e) : e.isNext = false := by
  cases e <;> first | rfl | cases he

/-- a mutating call strictly raises the generation -/
theorem applyEv_gen_mutates (less : α → α → Bool) (h : Heap α) (e : Ev α) (he : Mutates h e)
    (hf : genFacts = true) : (applyEv less h e).gen = h.gen + 1 := by
  simp only [genFacts, Bool.and_eq_true] at hf
  obtain ⟨⟨⟨h1, h2⟩, h3⟩, h4⟩ := hf
  cases e with
  | next => cases he
  | grow => cases he
  | shrink => cases he
  | push x => simp only [applyEv]; rw [push_gen less h x, h1]; rfl
  | pop =>
    simp only [applyEv]
    cases hp : pop less h with
    | none => exact absurd ((pop_none_iff less h).mp hp) he
    | some r =>
      obtain ⟨h', x, n⟩ := r; obtain ⟨_, _, _, _, hg, _⟩ := pop_shape hp
      simp only [hg, h2, bump, if_true]
  | removeAt i =>
    simp only [applyEv]
    cases hp : removeAt less h i with
    | none => exact absurd he ((removeAt_none_iff less h i).mp hp)
    | some r =>
      obtain ⟨h', n⟩ := r; obtain ⟨_, _, _, hg, _⟩ := removeAt_shape hp
      simp only [hg, h3, bump, if_true]
  | updateAt i x =>
    simp only [applyEv]
    cases hp : updateAt less h i x with
    | none => exact absurd he ((updateAt_none_iff less h i x).mp hp)
    | some r =>
      obtain ⟨h', n⟩ := r; obtain ⟨_, hg, _, _⟩ := updateAt_shape hp
      simp only [hg, h4, bump, if_true]

/-- what a started iterator returns -/
theorem iterNext_started {h : Heap α} {it : Iter} (hs : it.gen ≠ -1) (hf : iterFacts = true) :
    iterNext h it = if it.gen = h.gen then iterStep h it else (it, .panic) := by
  simp only [iterFacts, Bool.and_eq_true, decide_eq_true_eq] at hf
  obtain ⟨⟨⟨_, _⟩, h3⟩, _⟩ := hf
  simp only [iterNext, iterFresh_eq, iterModified_eq, h3, Bool.and_true, hs, decide_false, Bool.false_eq_true,
    if_false]
  by_cases hg : it.gen = h.gen <;> simp [hg]

theorem iterNext_fresh {h : Heap α} (hf : iterFacts = true) :
    iterNext h iterate = iterStep h { gen := h.gen, pos := 0, len := h.a.length } := by
  simp only [iterFacts, Bool.and_eq_true, decide_eq_true_eq] at hf
  obtain ⟨⟨⟨h1, h2⟩, _⟩, h4⟩ := hf
  simp [iterNext, iterate, iterFresh_eq, h4, h1, h2]

/-- the first `Next` of a fresh iterator = a `Next` of the iterator that has just captured -/
theorem run_fresh_first (less : α → α → Bool) (hif : iterFacts = true) (h : Heap α) (h0 : 0 ≤ h.gen)
    (es : List (Ev α)) :
    run less h iterate (.next :: es) =
      run less h { gen := h.gen, pos := 0, len := h.a.length } (.next :: es) := by
  simp only [run]
  rw [iterNext_fresh hif, iterNext_started (by simp; omega) hif]
  simp

/-! ## a stale iterator keeps panicking -/

theorem stale_run (less : α → α → Bool) (hgf : genFacts = true) (hif : iterFacts = true)
    (evs : List (Ev α)) (h : Heap α) (it : Iter) (hs : it.gen ≠ -1) (hg : it.gen < h.gen) :
    ∀ o ∈ run less h it evs, o = Obs.panic := by
  induction evs generalizing h with
  | nil => intro o ho; simp [run] at ho
  | cons e es ih =>
    by_cases hn : e.isNext = true
    · cases e <;> first | cases hn | skip
      rw [run_next, iterNext_started hs hif, if_neg (by omega)]
      intro o ho
      rcases List.mem_cons.mp ho with ho | ho
      · exact ho
      · exact ih h hg o ho
    · have hn' : e.isNext = false := by simpa using hn
      rw [run_op less h it hn']
      exact ih _ (by have := (applyEv_gen less h e hgf).1; omega)

theorem snapshotOrPanic_of_all_panic (s : List α) (obs : List (Obs α))
    (h : ∀ o ∈ obs, o = .panic) : SnapshotOrPanic s obs := by
  cases obs with
  | nil => trivial
  | cons o r =>
    have ho := h o (by simp)
    subst ho
    intro o' ho'; exact h o' (by simp [ho'])

/-! ## snapshot or panic, whole history -/

/-- A started iterator that has yielded `it.pos` elements of the snapshot `snap`, observed through
any further history. Invariant: the heap's generation is at least the iterator's, and while they are
equal the array is the snapshot. -/
theorem run_started (less : α → α → Bool) (snap : List α) (hgf : genFacts = true) (hif : iterFacts = true)
    (evs : List (Ev α)) (h : Heap α) (it : Iter) (hs : it.gen ≠ -1) (hl : it.len = snap.length)
    (hp : it.pos ≤ it.len) (hg : it.gen ≤ h.gen) (ha : h.gen = it.gen → h.a = snap) :
    SnapshotOrPanic (snap.drop it.pos) (run less h it evs) := by
  induction evs generalizing h it with
  | nil => trivial
  | cons e es ih =>
    by_cases hn : e.isNext = true
    · cases e <;> first | cases hn | skip
      rw [run_next, iterNext_started hs hif]
      by_cases hgen : it.gen = h.gen
      · rw [if_pos hgen]
        simp only [iterStep]
        have hsnap := ha hgen.symm
        by_cases hpos : it.pos < it.len
        · simp only [hpos, if_true]
          have hlt : it.pos < snap.length := by omega
          have hx : h.a[it.pos]? = some (snap[it.pos]'hlt) := by
            rw [hsnap]; simp [List.getElem?_eq_getElem hlt]
          have := ih h { it with pos := it.pos + 1 } hs hl (by simp; omega) hg ha
          simp only [toObs, hx]
          exact ⟨snap[it.pos], snap.drop (it.pos + 1), List.drop_eq_getElem_cons hlt, rfl, this⟩
        · simp only [hpos, if_false, toObs]
          have hnil : snap.drop it.pos = [] := List.drop_eq_nil_of_le (by omega)
          have := ih h it hs hl hp hg ha
          rw [hnil] at this ⊢
          exact ⟨rfl, this⟩
      · rw [if_neg hgen]
        simp only [toObs]
        exact stale_run less hgf hif es h it hs (by omega)
    · have hn' : e.isNext = false := by simpa using hn
      rw [run_op less h it hn']
      obtain ⟨g1, g2⟩ := applyEv_gen less h e hgf
      exact ih _ it hs hl hp (by omega) (fun e => by rw [g2 (by omega)]; exact ha (by omega))

theorem applyEv_gen_nonneg (less : α → α → Bool) (h : Heap α) (e : Ev α) (hf : genFacts = true)
    (h0 : 0 ≤ h.gen) : 0 ≤ (applyEv less h e).gen := by
  have := (applyEv_gen less h e hf).1; omega

/-- A fresh iterator, any history. -/
theorem run_fresh (less : α → α → Bool) (hgf : genFacts = true) (hif : iterFacts = true)
    (evs : List (Ev α)) (h : Heap α) (h0 : 0 ≤ h.gen) :
    SnapshotOrPanic (snapshot less h evs) (run less h iterate evs) := by
  induction evs generalizing h with
  | nil => trivial
  | cons e es ih =>
    by_cases hn : e.isNext = true
    · cases e <;> first | cases hn | skip
      -- the first Next: capture, then behave as a started iterator at position 0
      rw [run_fresh_first less hif h h0]
      have key := run_started less h.a hgf hif (.next :: es) h { gen := h.gen, pos := 0, len := h.a.length }
        (by simp; omega) rfl (by simp) (by simp) (fun _ => rfl)
      simpa [snapshot] using key
    · have hn' : e.isNext = false := by simpa using hn
      rw [run_op less h _ hn', snapshot_op less h hn']
      exact ih _ (applyEv_gen_nonneg less h e hgf h0)

/-! ## unchanged heap: `n` consecutive `Next` calls -/

/-- the iterator after `n` consecutive `Next` calls on `h` -/
def nextsIt (h : Heap α) : Nat → Iter → Iter
  | 0, it => it
  | n + 1, it => nextsIt h n (iterNext h it).1

theorem run_nexts_append (less : α → α → Bool) (h : Heap α) (n : Nat) (it : Iter) (rest : List (Ev α)) :
    run less h it (List.replicate n Ev.next ++ rest) =
      run less h it (List.replicate n Ev.next) ++ run less h (nextsIt h n it) rest := by
  induction n generalizing it with
  | zero => simp [run, nextsIt]
  | succ n ih =>
    simp only [List.replicate_succ, List.cons_append, run_next, nextsIt, ih]

/-- a started, valid iterator stays valid under `Next` on the unchanged heap -/
theorem nextsIt_started (hif : iterFacts = true) (h : Heap α) (n : Nat) (it : Iter) (hs : it.gen ≠ -1)
    (hg : it.gen = h.gen) : (nextsIt h n it).gen = h.gen := by
  induction n generalizing it with
  | zero => exact hg
  | succ n ih =>
    simp only [nextsIt]
    have : (iterNext h it).1.gen = it.gen := by
      rw [iterNext_started hs hif, if_pos hg]; simp only [iterStep]; split <;> rfl
    exact ih _ (by omega) (by omega)

theorem nextsIt_fresh (hif : iterFacts = true) (h : Heap α) (h0 : 0 ≤ h.gen) (n : Nat) :
    (nextsIt h (n + 1) iterate).gen = h.gen := by
  simp only [nextsIt]
  have hg : (iterNext h (iterate : Iter)).1.gen = h.gen := by
    rw [iterNext_fresh hif]; simp only [iterStep]; split <;> rfl
  exact nextsIt_started hif h n _ (by omega) hg

theorem run_nexts_started (less : α → α → Bool) (hif : iterFacts = true) (h : Heap α) (n : Nat)
    (it : Iter) (hs : it.gen ≠ -1) (hg : it.gen = h.gen) (hl : it.len = h.a.length)
    (hp : it.pos ≤ it.len) :
    run less h it (List.replicate n Ev.next) =
      ((h.a.drop it.pos).take n).map (fun x => Obs.item (some x)) ++
        List.replicate (n - (h.a.length - it.pos)) Obs.done := by
  induction n generalizing it with
  | zero => simp [run]
  | succ n ih =>
    simp only [List.replicate_succ, run_next]
    rw [iterNext_started hs hif, if_pos hg]
    simp only [iterStep]
    by_cases hpos : it.pos < it.len
    · simp only [hpos, if_true]
      have hlt : it.pos < h.a.length := by omega
      rw [ih { it with pos := it.pos + 1 } hs hg hl (by simp; omega)]
      simp only [toObs, List.getElem?_eq_getElem hlt]
      rw [List.drop_eq_getElem_cons hlt, List.take_succ_cons, List.map_cons, List.cons_append]
      have e1 : n + 1 - (h.a.length - it.pos) = n - (h.a.length - (it.pos + 1)) := by omega
      rw [e1]
    · simp only [hpos, if_false, toObs]
      rw [ih it hs hg hl hp]
      have hnil : h.a.drop it.pos = [] := List.drop_eq_nil_of_le (by omega)
      have e1 : h.a.length - it.pos = 0 := by omega
      simp [hnil, e1, List.replicate_succ]

/-- `n` consecutive `Next` calls of a fresh iterator on an unchanged heap: the first `n` elements in
array order, then "exhausted" for every further call. -/
theorem run_nexts_fresh (less : α → α → Bool) (hif : iterFacts = true) (h : Heap α) (h0 : 0 ≤ h.gen)
    (n : Nat) :
    run less h iterate (List.replicate n Ev.next) =
      (h.a.take n).map (fun x => Obs.item (some x)) ++ List.replicate (n - h.a.length) Obs.done := by
  cases n with
  | zero => simp [run]
  | succ n =>
    rw [List.replicate_succ, run_fresh_first less hif h h0, ← List.replicate_succ]
    have := run_nexts_started less hif h (n + 1) { gen := h.gen, pos := 0, len := h.a.length }
      (by simp; omega) rfl rfl (by simp)
    simpa using this

/-! ## observations mapped through a function (`iterator.Map`) -/

def mapObs {β : Type} (f : α → β) : Obs α → Obs β
  | .item v => .item (v.map f)
  | .done => .done
  | .panic => .panic

theorem snapshotOrPanic_map {β : Type} (f : α → β) (s : List α) (obs : List (Obs α))
    (h : SnapshotOrPanic s obs) : SnapshotOrPanic (s.map f) (obs.map (mapObs f)) := by
  induction obs generalizing s with
  | nil => trivial
  | cons o r ih =>
    cases o with
    | item v =>
      obtain ⟨x, s', rfl, rfl, hr⟩ := h
      exact ⟨f x, s'.map f, by simp, rfl, ih s' hr⟩
    | done =>
      obtain ⟨rfl, hr⟩ := h
      exact ⟨rfl, ih [] hr⟩
    | panic =>
      intro o ho
      obtain ⟨o', ho', rfl⟩ := List.mem_map.mp ho
      rw [h o' ho']; rfl

/-! ## `xheap.Heap`: histories of the wrapper's own methods -/

inductive XEv (α : Type) where
  | next
  | push (x : α)
  | pop
  | grow
  | shrink

def XEv.toEv : XEv α → Ev α
  | .next => .next
  | .push x => .push x
  | .pop => .pop
  | .grow => .grow
  | .shrink => .shrink

/-- the heap after one call of a wrapper method (a panicking `Pop` leaves it unchanged) -/
def applyX (less : α → α → Bool) (h : Heap α) : XEv α → Heap α
  | .next => h
  | .push x => X.push less h x
  | .pop => match X.pop less h with
    | some (h', _) => h'
    | none => h
  | .grow => X.grow h
  | .shrink => X.shrink h

/-- what every `Next` of the iterator from `xheap.Heap.Iterate` returns during a history of
`xheap.Heap` calls -/
def xrun (less : α → α → Bool) : Heap α → Iter → List (XEv α) → List (Obs α)
  | _, _, [] => []
  | h, it, .next :: es => toObs (X.iterNext h it).2 :: xrun less h (X.iterNext h it).1 es
  | h, it, e :: es => xrun less (applyX less h e) it es

/-- the contents at the iterator's first `Next` -/
def xsnapshot (less : α → α → Bool) : Heap α → List (XEv α) → List α
  | h, [] => h.a
  | h, .next :: _ => h.a
  | h, e :: es => xsnapshot less (applyX less h e) es

theorem applyX_eq (hx : xFacts = true) (less : α → α → Bool) (h : Heap α) (e : XEv α) :
    applyX less h e = applyEv less h e.toEv := by
  simp only [xFacts, Bool.and_eq_true] at hx
  obtain ⟨⟨⟨⟨h1, h2⟩, h3⟩, h4⟩, h5⟩ := hx
  cases e with
  | next => rfl
  | push x => simp only [applyX, XEv.toEv, applyEv, xpush_eq h1]
  | pop =>
    simp only [applyX, XEv.toEv, applyEv, xpop_eq h2]
    cases pop less h with
    | none => rfl
    | some r => rfl
  | grow => simp only [applyX, XEv.toEv, applyEv, xgrow_eq h3]
  | shrink => simp only [applyX, XEv.toEv, applyEv, xshrink_eq h4]

theorem xrun_eq (hx : xFacts = true) (less : α → α → Bool) (evs : List (XEv α)) (h : Heap α) (it : Iter) :
    xrun less h it evs = run less h it (evs.map XEv.toEv) := by
  have h5 : xIterateForwards = true := by
    simp only [xFacts, Bool.and_eq_true] at hx; exact hx.2
  induction evs generalizing h it with
  | nil => rfl
  | cons e es ih =>
    cases e with
    | next => simp only [xrun, List.map_cons, XEv.toEv, run, xiterNext_eq h5, ih]
    | push x => simp only [xrun, List.map_cons, XEv.toEv, run, ih, applyX_eq hx less h (.push x)]
    | pop => simp only [xrun, List.map_cons, XEv.toEv, run, ih, applyX_eq hx less h .pop]
    | grow => simp only [xrun, List.map_cons, XEv.toEv, run, ih, applyX_eq hx less h .grow]
    | shrink => simp only [xrun, List.map_cons, XEv.toEv, run, ih, applyX_eq hx less h .shrink]

theorem xsnapshot_eq (hx : xFacts = true) (less : α → α → Bool) (evs : List (XEv α)) (h : Heap α) :
    xsnapshot less h evs = snapshot less h (evs.map XEv.toEv) := by
  induction evs generalizing h with
  | nil => rfl
  | cons e es ih =>
    cases e with
    | next => rfl
    | push x => simp only [xsnapshot, List.map_cons, XEv.toEv, snapshot, ih, applyX_eq hx less h (.push x)]
    | pop => simp only [xsnapshot, List.map_cons, XEv.toEv, snapshot, ih, applyX_eq hx less h .pop]
    | grow => simp only [xsnapshot, List.map_cons, XEv.toEv, snapshot, ih, applyX_eq hx less h .grow]
    | shrink => simp only [xsnapshot, List.map_cons, XEv.toEv, snapshot, ih, applyX_eq hx less h .shrink]

/-! ## `PriorityQueue`: histories of queue calls, transported to heap histories -/

section PQ
open Juniper.Model.PQ Juniper.Proofs.PQ
variable {K P : Type} [DecidableEq K]

inductive PQEv (K P : Type) where
  | next
  | update (k : K) (p : P)
  | remove (k : K)
  | pop
  | grow

def PQEv.isNext : PQEv K P → Bool
  | .next => true
  | _ => false

/-- the queue after one call (a panicking call leaves it unchanged) -/
def pqApply (less : P → P → Bool) (q : PQ K P) : PQEv K P → PQ K P
  | .next => q
  | .update k p => (update less q k p).getD q
  | .remove k => (remove less q k).getD q
  | .pop => ((Juniper.Model.PQ.pop less q).map (·.1)).getD q
  | .grow => Juniper.Model.PQ.grow q

/-- what every `Next` of the iterator from `PriorityQueue.Iterate` returns during a history -/
def pqRun (less : P → P → Bool) : PQ K P → Iter → List (PQEv K P) → List (Obs K)
  | _, _, [] => []
  | q, it, .next :: es =>
    toObs (Juniper.Model.PQ.iterNext q it).2 :: pqRun less q (Juniper.Model.PQ.iterNext q it).1 es
  | q, it, e :: es => pqRun less (pqApply less q e) it es

/-- the keys held at the iterator's first `Next`, in array order -/
def pqSnapshot (less : P → P → Bool) : PQ K P → List (PQEv K P) → List K
  | q, [] => keysOf q.h.a
  | q, .next :: _ => keysOf q.h.a
  | q, e :: es => pqSnapshot less (pqApply less q e) es

theorem pqRun_next (less : P → P → Bool) (q : PQ K P) (it : Iter) (es : List (PQEv K P)) :
    pqRun less q it (.next :: es) =
      toObs (Juniper.Model.PQ.iterNext q it).2 :: pqRun less q (Juniper.Model.PQ.iterNext q it).1 es := by
  simp only [pqRun]

theorem pqRun_op (less : P → P → Bool) (q : PQ K P) (it : Iter) {e : PQEv K P} (he : e.isNext = false)
    (es : List (PQEv K P)) : pqRun less q it (e :: es) = pqRun less (pqApply less q e) it es := by
  cases e <;> first | (cases he; done) | simp only [pqRun]

theorem pqSnapshot_op (less : P → P → Bool) (q : PQ K P) {e : PQEv K P} (he : e.isNext = false)
    (es : List (PQEv K P)) : pqSnapshot less q (e :: es) = pqSnapshot less (pqApply less q e) es := by
  cases e <;> first | (cases he; done) | simp only [pqSnapshot]

theorem toObs_mapOut {α β : Type} (f : α → β) (o : IterOut α) : toObs (mapOut f o) = mapObs f (toObs o) := by
  cases o <;> rfl

/-- `PriorityQueue.Iterate`'s `Next` is the inner heap iterator's `Next` with the item mapped to
its key (needs the generated fact about the body of `Iterate`) -/
theorem pqIterNext_eq (hm : pqIterateMapsInnerToKey = true) (q : PQ K P) (it : Iter) :
    Juniper.Model.PQ.iterNext q it =
      ((iterNext q.h it).1, mapOut (·.1) (iterNext q.h it).2) := by
  simp [Juniper.Model.PQ.iterNext, hm]

/-- Whatever a queue call does to the inner heap is one heap call (or nothing): `Update` of an
existing key is `UpdateAt`, of a new key `Push`; `Remove` of a present key is `RemoveAt`, of an absent
key nothing; `Pop` is `Pop`; `Grow` is `Grow`. No invariant is needed for this. -/
theorem pqApply_heap (less : P → P → Bool) (q : PQ K P) (e : PQEv K P) :
    (pqApply less q e).h = q.h ∨
      ∃ ev : Ev (KP K P), ev.isNext = false ∧ (pqApply less q e).h = applyEv (lessKP less) q.h ev := by
  cases e with
  | next => exact Or.inl rfl
  | grow =>
    exact Or.inr ⟨.grow, rfl, rfl⟩
  | pop =>
    simp only [pqApply, pop_eq]
    cases hp : Juniper.Model.Heap.pop (lessKP less) q.h with
    | none => exact Or.inl rfl
    | some r =>
      obtain ⟨h', x, n⟩ := r
      exact Or.inr ⟨.pop, rfl, by simp [applyEv, hp]⟩
  | update k p =>
    simp only [pqApply, update_eq]
    cases hi : mGet q.m k with
    | none => exact Or.inr ⟨.push (k, p), rfl, by simp [applyEv]⟩
    | some idx =>
      by_cases hneg : idx < 0
      · simp [hneg]
      · simp only [hneg, if_false]
        cases hu : updateAt (lessKP less) q.h idx.toNat (k, p) with
        | none => exact Or.inl rfl
        | some r =>
          obtain ⟨h', n⟩ := r
          exact Or.inr ⟨.updateAt idx.toNat (k, p), rfl, by simp [applyEv, hu]⟩
  | remove k =>
    simp only [pqApply, remove_eq]
    cases hi : mGet q.m k with
    | none => exact Or.inl rfl
    | some idx =>
      by_cases hneg : idx < 0
      · simp [hneg]
      · simp only [hneg, if_false]
        cases hu : removeAt (lessKP less) q.h idx.toNat with
        | none => exact Or.inl rfl
        | some r =>
          obtain ⟨h', n⟩ := r
          exact Or.inr ⟨.removeAt idx.toNat, rfl, by simp [applyEv, hu]⟩

/-- **Transport.** Every queue history seen by a `PriorityQueue` iterator is a heap history seen by
the inner heap's iterator, with the observations and the snapshot mapped to keys. -/
theorem pqRun_transport (hm : pqIterateMapsInnerToKey = true) (less : P → P → Bool)
    (evs : List (PQEv K P)) (q : PQ K P) (it : Iter) :
    ∃ hevs : List (Ev (KP K P)),
      pqRun less q it evs = (run (lessKP less) q.h it hevs).map (mapObs (·.1)) ∧
      pqSnapshot less q evs = keysOf (snapshot (lessKP less) q.h hevs) := by
  induction evs generalizing q it with
  | nil => exact ⟨[], rfl, rfl⟩
  | cons e es ih =>
    by_cases hn : e.isNext = true
    · cases e <;> first | cases hn | skip
      obtain ⟨hevs, h1, _⟩ := ih q (iterNext q.h it).1
      refine ⟨.next :: hevs, ?_, rfl⟩
      rw [pqRun_next, run_next, pqIterNext_eq hm]
      simp only [List.map_cons, toObs_mapOut, h1]
    · have hn' : e.isNext = false := by simpa using hn
      rw [pqRun_op less q it hn', pqSnapshot_op less q hn']
      obtain ⟨hevs, h1, h2⟩ := ih (pqApply less q e) it
      rcases pqApply_heap less q e with hq | ⟨ev, hev, hq⟩
      · rw [hq] at h1 h2
        exact ⟨hevs, h1, h2⟩
      · rw [hq] at h1 h2
        exact ⟨ev :: hevs, by rw [run_op _ _ _ hev]; exact h1, by rw [snapshot_op _ _ hev]; exact h2⟩

theorem pqRun_nexts (hm : pqIterateMapsInnerToKey = true) (less : P → P → Bool) (n : Nat) (q : PQ K P)
    (it : Iter) :
    pqRun less q it (List.replicate n PQEv.next) =
      (run (lessKP less) q.h it (List.replicate n Ev.next)).map (mapObs (·.1)) := by
  induction n generalizing it with
  | zero => rfl
  | succ n ih =>
    simp only [List.replicate_succ, pqRun_next, run_next, pqIterNext_eq hm, List.map_cons, toObs_mapOut, ih]

/-- a successful `Update` (existing or new key), `Remove` of a present key or `Pop` is a mutating
call on the inner heap -/
theorem pq_mutation_is_heap_mutation (less : P → P → Bool) {q q' : PQ K P} (hq : IndexInv q)
    (hop : (∃ k p, update less q k p = some q') ∨ (∃ k p0, Holds q k p0 ∧ remove less q k = some q') ∨
      (∃ k, Juniper.Model.PQ.pop less q = some (q', k))) :
    ∃ e, Mutates q.h e ∧ q'.h = applyEv (lessKP less) q.h e := by
  rcases hop with ⟨k, p, hu⟩ | ⟨k, p0, hk, hu⟩ | ⟨k, hu⟩
  · by_cases hk : ∃ p0, Holds q k p0
    · obtain ⟨p0, hp0⟩ := hk
      obtain ⟨q'', he, _, _, i, y, notes, hi, hua⟩ := update_existing (less := less) hq p hp0
      rw [hu] at he; cases he
      have hil : i < q.h.a.length := by
        rcases Nat.lt_or_ge i q.h.a.length with h | h
        · exact h
        · rw [List.getElem?_eq_none h] at hi; cases hi
      exact ⟨.updateAt i (k, p), hil, by simp [applyEv, hua]⟩
    · obtain ⟨q'', he, _, _, hpush⟩ := update_new (less := less) hq p (fun p0 h => hk ⟨p0, h⟩)
      rw [hu] at he; cases he
      exact ⟨.push (k, p), trivial, by simp [applyEv, hpush]⟩
  · obtain ⟨q'', he, _, _, i, notes, hi, hua⟩ := remove_present (less := less) hq hk
    rw [hu] at he; cases he
    have hil : i < q.h.a.length := by
      rcases Nat.lt_or_ge i q.h.a.length with h | h
      · exact h
      · rw [List.getElem?_eq_none h] at hi; cases hi
    exact ⟨.removeAt i, hil, by simp [applyEv, hua]⟩
  · have hne : q.h.a ≠ [] := by
      intro e
      rw [pop_eq, (pop_none_iff _ _).mpr e] at hu; cases hu
    obtain ⟨q'', k', p0, notes, he, _, _, _, hua⟩ := pop_nonempty (less := less) hq hne
    rw [hu] at he; cases he
    exact ⟨.pop, hne, by simp [applyEv, hua]⟩

end PQ

end Juniper.Proofs.HeapIter
