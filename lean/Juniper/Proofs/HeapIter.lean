import Juniper.Proofs.PQOps
/-!
# The heap iterator: generation-counter invariant

`Ev` is one step of a history seen by an iterator: a `Next` call or a call on the container.
`run` collects what the `Next` calls return, up to and including the first `panic` / `done`.
-/
set_option linter.unusedSimpArgs false
set_option linter.unusedVariables false
namespace Juniper.Proofs.HeapIter
open Juniper.Gen.Heap Juniper.Model.Heap Juniper.Spec.Heap Juniper.Proofs.Heap

variable {α : Type}

/-- every mutator bumps `gen` unconditionally (presence *and* position, regenerated from heap.go) -/
def genFacts : Bool := pushBumpsGen && popBumpsGen && removeAtBumpsGen && updateAtBumpsGen

/-- the iterator captures `gen` and the slice at its first `Next`, and panics on a mismatch -/
def iterFacts : Bool :=
  iterCapturesGen && iterCapturesSlice && iterPanics && decide (iterInitGen = -1)

theorem iterFresh_eq (g : Int) : iterFresh g = decide (g = -1) := by simp [iterFresh]
theorem iterModified_eq (g g' : Int) : iterModified g g' = !decide (g = g') := by simp [iterModified]

inductive Ev (α : Type) where
  | next
  | push (x : α)
  | pop
  | removeAt (i : Nat)
  | updateAt (i : Nat) (x : α)
  | grow
  | shrink

/-- the container after one call (a panicking call leaves it unchanged) -/
def applyEv (less : α → α → Bool) (h : Heap α) : Ev α → Heap α
  | .next => h
  | .push x => (push less h x).1
  | .pop => match pop less h with
    | some (h', _, _) => h'
    | none => h
  | .removeAt i => match removeAt less h i with
    | some (h', _) => h'
    | none => h
  | .updateAt i x => match updateAt less h i x with
    | some (h', _) => h'
    | none => h
  | .grow => Juniper.Model.Heap.grow h
  | .shrink => Juniper.Model.Heap.shrink h

/-- results of the `Next` calls of a history, up to and including the first `panic` / `done` -/
def run (less : α → α → Bool) : Heap α → Iter → List (Ev α) → List (IterOut α)
  | _, _, [] => []
  | h, it, .next :: es =>
    match iterNext h it with
    | (it', .item x) => .item x :: run less h it' es
    | (_, o) => [o]
  | h, it, e :: es => run less (applyEv less h e) it es

/-- the contents at the iterator's first `Next` -/
def snapshot (less : α → α → Bool) : Heap α → List (Ev α) → List α
  | h, [] => h.a
  | h, .next :: _ => h.a
  | h, e :: es => snapshot less (applyEv less h e) es

theorem applyEv_gen (less : α → α → Bool) (h : Heap α) (e : Ev α) (hf : genFacts = true) :
    h.gen ≤ (applyEv less h e).gen ∧ ((applyEv less h e).gen = h.gen → (applyEv less h e).a = h.a) := by
  simp only [genFacts, Bool.and_eq_true] at hf
  obtain ⟨⟨⟨h1, h2⟩, h3⟩, h4⟩ := hf
  cases e with
  | next => simp [applyEv]
  | push x =>
    simp only [applyEv]
    rw [push_gen less h x h1]
    exact ⟨by omega, fun h => by omega⟩
  | pop =>
    simp only [applyEv]
    cases hp : pop less h with
    | none => simp
    | some r =>
      obtain ⟨h', x, n⟩ := r
      obtain ⟨_, _, _, _, hg, _⟩ := pop_shape hp h2
      simp only [hg]
      exact ⟨by omega, fun h => by omega⟩
  | removeAt i =>
    simp only [applyEv]
    cases hp : removeAt less h i with
    | none => simp
    | some r =>
      obtain ⟨h', n⟩ := r
      obtain ⟨_, _, _, hg, _⟩ := removeAt_shape hp h3
      simp only [hg]
      exact ⟨by omega, fun h => by omega⟩
  | updateAt i x =>
    simp only [applyEv]
    cases hp : updateAt less h i x with
    | none => simp
    | some r =>
      obtain ⟨h', n⟩ := r
      obtain ⟨_, hg, _, _⟩ := updateAt_shape hp
      simp only [hg, h4, bump, if_true]
      exact ⟨by omega, fun h => by omega⟩
  | grow =>
    simp only [applyEv, Juniper.Model.Heap.grow, bump]
    split <;> (refine ⟨by omega, ?_⟩; simp)
  | shrink =>
    simp only [applyEv, Juniper.Model.Heap.shrink, bump]
    split <;> (refine ⟨by omega, ?_⟩; simp)

/-- what a started iterator returns -/
theorem iterNext_started {h : Heap α} {it : Iter} (hs : it.gen ≠ -1) (hf : iterFacts = true) :
    iterNext h it = if it.gen = h.gen then iterStep h it else (it, .panic) := by
  simp only [iterFacts, Bool.and_eq_true, decide_eq_true_eq] at hf
  obtain ⟨⟨⟨_, _⟩, h3⟩, _⟩ := hf
  simp only [iterNext, iterFresh_eq, iterModified_eq, h3, Bool.and_true, hs, decide_false, Bool.false_eq_true,
    if_false]
  by_cases hg : it.gen = h.gen <;> simp [hg]

theorem iterNext_fresh {h : Heap α} (hf : iterFacts = true) :
    iterNext h iterate = iterStep h { gen := h.gen, pos := 0, len := h.a.length } := by
  simp only [iterFacts, Bool.and_eq_true, decide_eq_true_eq] at hf
  obtain ⟨⟨⟨h1, h2⟩, _⟩, h4⟩ := hf
  simp [iterNext, iterate, iterFresh_eq, h4, h1, h2]

/-- the possible endings of the `Next` results -/
inductive Tail (α : Type) : List (IterOut α) → Bool → Prop where
  | open_ : Tail α [] false            -- the history ended first
  | panic : Tail α [.panic] false
  | done : Tail α [.done] true         -- only allowed after the whole snapshot

theorem run_started (less : α → α → Bool) (snap : List α) (hgf : genFacts = true) (hif : iterFacts = true)
    (evs : List (Ev α)) (h : Heap α) (it : Iter) (hs : it.gen ≠ -1) (hl : it.len = snap.length)
    (hp : it.pos ≤ it.len) (hg : it.gen ≤ h.gen) (ha : h.gen = it.gen → h.a = snap) :
    ∃ k tl fin, it.pos ≤ k ∧ k ≤ snap.length ∧ Tail α tl fin ∧ (fin = true → k = snap.length) ∧
      run less h it evs = ((snap.drop it.pos).take (k - it.pos)).map (fun x => IterOut.item (some x)) ++ tl := by
  induction evs generalizing h it with
  | nil => exact ⟨it.pos, [], false, Nat.le_refl _, by omega, .open_, by simp, by simp [run]⟩
  | cons e es ih =>
    cases e with
    | next =>
      simp only [run]
      rw [iterNext_started hs hif]
      by_cases hgen : it.gen = h.gen
      · rw [if_pos hgen]
        simp only [iterStep]
        have hsnap := ha hgen.symm
        by_cases hpos : it.pos < it.len
        · simp only [hpos, if_true]
          have hx : h.a[it.pos]? = some (snap[it.pos]'(by omega)) := by
            rw [hsnap]; simp [List.getElem?_eq_getElem (by omega : it.pos < snap.length)]
          obtain ⟨k, tl, fin, hk1, hk2, ht, hfin, hrun⟩ :=
            ih h { it with pos := it.pos + 1 } hs hl (by simp; omega) hg ha
          have hk1' : it.pos + 1 ≤ k := hk1
          have hrun' : run less h { it with pos := it.pos + 1 } es =
              ((snap.drop (it.pos + 1)).take (k - (it.pos + 1))).map (fun x => IterOut.item (some x)) ++ tl := hrun
          refine ⟨k, tl, fin, by omega, hk2, ht, hfin, ?_⟩
          rw [hx, hrun']
          have : (snap.drop it.pos).take (k - it.pos) =
              snap[it.pos]'(by omega) :: (snap.drop (it.pos + 1)).take (k - (it.pos + 1)) := by
            have e1 : k - it.pos = (k - (it.pos + 1)) + 1 := by omega
            rw [e1, List.drop_eq_getElem_cons (by omega : it.pos < snap.length), List.take_succ_cons]
          rw [this]; simp
        · simp only [hpos, if_false]
          refine ⟨it.pos, [.done], true, Nat.le_refl _, by omega, .done, fun _ => by omega, by simp⟩
      · rw [if_neg hgen]
        exact ⟨it.pos, [.panic], false, Nat.le_refl _, by omega, .panic, by simp, by simp⟩
    | push x =>
      obtain ⟨g1, g2⟩ := applyEv_gen less h (.push x) hgf
      exact ih _ it hs hl hp (by omega) (fun e => by rw [g2 (by omega)]; exact ha (by omega))
    | pop =>
      obtain ⟨g1, g2⟩ := applyEv_gen less h .pop hgf
      exact ih _ it hs hl hp (by omega) (fun e => by rw [g2 (by omega)]; exact ha (by omega))
    | removeAt i =>
      obtain ⟨g1, g2⟩ := applyEv_gen less h (.removeAt i) hgf
      exact ih _ it hs hl hp (by omega) (fun e => by rw [g2 (by omega)]; exact ha (by omega))
    | updateAt i x =>
      obtain ⟨g1, g2⟩ := applyEv_gen less h (.updateAt i x) hgf
      exact ih _ it hs hl hp (by omega) (fun e => by rw [g2 (by omega)]; exact ha (by omega))
    | grow =>
      obtain ⟨g1, g2⟩ := applyEv_gen less h .grow hgf
      exact ih _ it hs hl hp (by omega) (fun e => by rw [g2 (by omega)]; exact ha (by omega))
    | shrink =>
      obtain ⟨g1, g2⟩ := applyEv_gen less h .shrink hgf
      exact ih _ it hs hl hp (by omega) (fun e => by rw [g2 (by omega)]; exact ha (by omega))

theorem applyEv_gen_nonneg (less : α → α → Bool) (h : Heap α) (e : Ev α) (hf : genFacts = true)
    (h0 : 0 ≤ h.gen) : 0 ≤ (applyEv less h e).gen := by
  have := (applyEv_gen less h e hf).1; omega

theorem run_fresh (less : α → α → Bool) (hgf : genFacts = true) (hif : iterFacts = true)
    (evs : List (Ev α)) (h : Heap α) (h0 : 0 ≤ h.gen) :
    ∃ k tl fin, k ≤ (snapshot less h evs).length ∧ Tail α tl fin ∧
      (fin = true → k = (snapshot less h evs).length) ∧
      run less h iterate evs = ((snapshot less h evs).take k).map (fun x => IterOut.item (some x)) ++ tl := by
  induction evs generalizing h with
  | nil => exact ⟨0, [], false, Nat.zero_le _, .open_, by simp, by simp [run]⟩
  | cons e es ih =>
    cases e with
    | next =>
      -- the first Next: capture, then behave as a started iterator at position 0
      have key := run_started less h.a hgf hif (.next :: es) h { gen := h.gen, pos := 0, len := h.a.length }
        (by simp; omega) rfl (by simp) (by simp) (fun _ => rfl)
      obtain ⟨k, tl, fin, _, hk2, ht, hfin, hrun⟩ := key
      refine ⟨k, tl, fin, by simpa [snapshot] using hk2, ht, by simpa [snapshot] using hfin, ?_⟩
      simp only [snapshot]
      have e1 : run less h iterate (.next :: es) =
          run less h { gen := h.gen, pos := 0, len := h.a.length } (.next :: es) := by
        simp only [run]
        rw [iterNext_fresh hif, iterNext_started (by simp; omega) hif]
        simp
      rw [e1, hrun]; simp
    | push x => simpa [run, snapshot] using ih _ (applyEv_gen_nonneg less h (.push x) hgf h0)
    | pop => simpa [run, snapshot] using ih _ (applyEv_gen_nonneg less h .pop hgf h0)
    | removeAt i => simpa [run, snapshot] using ih _ (applyEv_gen_nonneg less h (.removeAt i) hgf h0)
    | updateAt i x => simpa [run, snapshot] using ih _ (applyEv_gen_nonneg less h (.updateAt i x) hgf h0)
    | grow => simpa [run, snapshot] using ih _ (applyEv_gen_nonneg less h .grow hgf h0)
    | shrink => simpa [run, snapshot] using ih _ (applyEv_gen_nonneg less h .shrink hgf h0)

end Juniper.Proofs.HeapIter
