import Juniper.Proofs.TreeHeapLinkFix
/-!
# Linking the two B-tree models (C03): `mergeTwo` at tree level

`mergeFrom_step`: the first half of one round of `Heap.mergeFrom` (choose the pair, re-parent the
children of the right node, `mergeTwo`) produces what `mergeAt` computes and unlinks the right node;
the second half (`mergeTail`: root collapse / cascade) is kept symbolic.
-/
namespace Juniper.Proofs.TreeHeapLink
open Juniper Juniper.Model.BTree Juniper.Model.BTreeSlotsOps Juniper.Proofs.Tree Juniper.Proofs.TreeSlotsOps

variable {K V : Type}

/-- the epilogue of `mergeTwo` (with the cascade of `merge`): root collapse, or steal / merge one level up -/
def mergeTail (fuel : Nat) (h : Heap K V) (pid lid : Nat) : Option (Heap K V) := do
  let p' ← h.get pid
  if Gen.Tree.mergeRootCheck pid h.root then
    if Gen.Tree.mergeRootEmpty p'.n then
      let h ← (if Gen.Tree.mergeCollapseClearsParent then h.step (.setParent lid none) [lid] else some h)
      if Gen.Tree.mergeCollapseSetsRoot then
        let h ← h.step (.drop pid) []
        pure (Heap.event { h with root := lid } "collapse")
      else pure h
    else pure h
  else if Gen.Tree.mergeCascades p'.n false then
    let hs ← Heap.steal h pid
    if Gen.Tree.mergeCascades p'.n hs.2 then Heap.mergeFrom fuel hs.1 pid else pure hs.1
  else pure h

theorem take_drop_two {α : Type} (A D : List α) (x y : α) {a : Nat} (ha : A.length = a) :
    (A ++ x :: y :: D).take (a + 1) ++ (A ++ x :: y :: D).drop (a + 2) = A ++ x :: D := by
  subst ha
  have h1 : (A ++ x :: y :: D) = (A ++ [x]) ++ (y :: D) := by simp
  have h2 : (A ++ x :: y :: D) = (A ++ [x, y]) ++ D := by simp
  conv => lhs; arg 1; rw [h1]
  conv => lhs; arg 2; rw [h2]
  rw [List.take_left' (by simp), List.drop_left' (by simp)]
  simp

theorem ids_merge {kids : List (Node K V)} {a : Nat} {L R L' : Node K V} (hL : kids[a]? = some L)
    (hR : kids[a + 1]? = some R) (h1 : L'.id = L.id) :
    (kids.take a ++ L' :: kids.drop (a + 2)).map Node.id =
      (kids.map Node.id).take (a + 1) ++ (kids.map Node.id).drop (a + 2) := by
  have ha : a + 1 < kids.length := (List.getElem?_eq_some_iff.mp hR).1
  have hlen : ((kids.take a).map Node.id).length = a := by simp; omega
  conv => rhs; rw [two_kids hL hR]
  simp only [List.map_append, List.map_cons]
  rw [take_drop_two _ _ _ _ hlen, h1]

theorem mergeFrom_step {h : Heap K V} {p : Option Nat} {id li ri a xid : Nat} {kvs lkvs rkvs : List (K × V)}
    {kids lkids rkids : List (Node K V)} {left right : Option Nat} {ln : Int}
    (hsub : Sub h.get p (.mk id kvs kids)) (hcnt : ∀ j, cnt j (Node.mk id kvs kids) ≤ 1)
    (hlen : kids.length = kvs.length + 1) (ha : a < kvs.length)
    (hL : kids[a]? = some (.mk li lkvs lkids)) (hR : kids[a + 1]? = some (.mk ri rkvs rkids))
    (hkind : lkids = [] ↔ rkids = []) (hfit : lkvs.length + 1 + rkvs.length ≤ keysCap)
    (hsib : Heap.siblings h xid = some (left, right)) (hnl : Heap.nOf h left = some ln)
    (hch : (if Gen.Tree.mergeIntoLeft left.isSome ln then left.map (·, xid) else right.map (xid, ·)) = some (li, ri)) :
    ∃ h1, (∀ fuel, Heap.mergeFrom (fuel + 1) h xid = mergeTail fuel h1 id li) ∧ Same h h1 ∧
      Sub h1.get p (.mk id (kvs.take a ++ kvs.drop (a + 1))
        (kids.take a ++ .mk li (lkvs ++ kvs[a] :: rkvs) (lkids ++ rkids) :: kids.drop (a + 2))) ∧
      h1.get ri = none ∧ ∀ j, cnt j (Node.mk id kvs kids) = 0 → h1.get j = h.get j := by
  obtain ⟨sp, hp, hpp, rp, hkids⟩ := sub_mk.mp hsub
  have hLm := List.mem_of_getElem? hL
  have hRm := List.mem_of_getElem? hR
  obtain ⟨xl, hl, hlp, rl, hlk⟩ := sub_mk.mp (hkids _ hLm)
  obtain ⟨xr, hr, hrp, rr, hrk⟩ := sub_mk.mp (hkids _ hRm)
  obtain ⟨hF, hZ, n1, n2, n3⟩ := pair_facts hcnt hL hR
  have hck := cntK_le_one hcnt
  have hnd := kids_ids_nodup hck
  have hli : (kids.map Node.id)[a]? = some li := by simp [hL, Node.id]
  have hkind' : lkids.map Node.id = [] ↔ rkids.map Node.id = [] := by simp [hkind]
  have hal : a < (kids.map Node.id).length := by simp; omega
  have hidxOf : indexOf sp.kids li = some a := by
    have := indexOf_rep rp.hkids hnd hal
    rwa [(List.getElem?_eq_some_iff.mp hli).2] at this
  -- the children of the right node get the left node as parent
  have hrkpres : ∀ c ∈ rkids.map Node.id, (h.get c).isSome ∧ c ≠ id ∧ c ≠ li ∧ c ≠ ri := by
    intro c hc
    obtain ⟨d, hd, rfl⟩ := List.mem_map.mp hc
    obtain ⟨s0, h0, _⟩ := (hrk d hd).root
    have hpos := cntK_pos_of_mem hd
    refine ⟨by simp [h0], ?_, ?_, ?_⟩ <;> (intro e; have := hZ d.id (by simp [e]); omega)
  have hrepar : ∃ ha', (if xr.isLeaf = true then some h else
        (toIdx xr.n).bind fun rn => h.setParents (xr.kids.take (rn + 1)) (some li)) = some ha' ∧ Same h ha' ∧
      ∀ j, ha'.get j = if j ∈ rkids.map Node.id then (h.get j).map (withParent (some li)) else h.get j := by
    by_cases hrl : rkids = []
    · subst hrl
      have : xr.isLeaf = true := rr.isLeaf_iff.mpr rfl
      exact ⟨h, by rw [if_pos this], Same.refl h, by simp⟩
    · have hne : rkids.map Node.id ≠ [] := by simpa using hrl
      have hlf : xr.isLeaf = false := isLeaf_of_rep_cons rr.hkids hne
      have hshape : (rkids.map Node.id).length = rkvs.length + 1 := by
        rcases rr.hshape with h0 | h0
        · exact absurd h0 hne
        · exact h0
      have htk : xr.kids.take (rkvs.length + 1) = (rkids.map Node.id).map some := by
        rw [← hshape]; exact rr.hkids.take
      obtain ⟨ha', hsp, hsame, hg⟩ := setParents_spec (some li) (rkids.map Node.id) h (fun c hc => (hrkpres c hc).1)
      refine ⟨ha', ?_, hsame, hg⟩
      rw [if_neg (by simp [hlf]), rr.hn, toIdx_natCast, Option.bind_some, htk]
      exact hsp
  obtain ⟨ha', hrepar', hsamea, hga⟩ := hrepar
  have hnotin : ∀ {j}, (j = id ∨ j = li ∨ j = ri) → j ∉ rkids.map Node.id := by
    intro j hj hm
    obtain ⟨_, c1, c2, c3⟩ := hrkpres j hm
    rcases hj with e | e | e
    · exact c1 e
    · exact c2 e
    · exact c3 e
  have hpa : ha'.get id = some sp := by rw [hga, if_neg (hnotin (Or.inl rfl))]; exact hp
  have hla : ha'.get li = some xl := by rw [hga, if_neg (hnotin (Or.inr (Or.inl rfl)))]; exact hl
  have hra : ha'.get ri = some xr := by rw [hga, if_neg (hnotin (Or.inr (Or.inr rfl)))]; exact hr
  obtain ⟨h1, p', l', hstep, hsame1, rp', rl', q1, q2, hg1⟩ :=
    step_mergeTwo hpa hla hra rp rl rr n1 n2 n3 (by simpa using hlen) hkind' ha hfit [li, id]
  have hgfull : ∀ j, h1.get j = if j = ri then none else if j = li then some l' else if j = id then some p'
      else if j ∈ rkids.map Node.id then (h.get j).map (withParent (some li)) else h.get j := by
    intro j; rw [hg1, hga]
  let S : Nat → Prop := fun j => j = id ∨ j = li ∨ j = ri ∨ j ∈ rkids.map Node.id
  have hfr : ∀ j, ¬ S j → h1.get j = h.get j := by
    intro j hj
    simp only [S, not_or] at hj
    rw [hgfull, if_neg hj.2.2.1, if_neg hj.2.1, if_neg hj.1, if_neg hj.2.2.2]
  have hGF : ∀ j, cntK j (kids.take a ++ lkids ++ rkids ++ kids.drop (a + 2)) ≤ 1 := by
    intro j; simp only [cntK_append]; exact hF j
  have hGsub : ∀ d ∈ kids.take a ++ lkids ++ rkids ++ kids.drop (a + 2), ∃ q, Sub h.get q d := by
    intro d hd
    simp only [List.mem_append] at hd
    rcases hd with ((hd | hd) | hd) | hd
    · exact ⟨_, hkids d (List.mem_of_mem_take hd)⟩
    · exact ⟨_, hlk d hd⟩
    · exact ⟨_, hrk d hd⟩
    · exact ⟨_, hkids d (List.mem_of_mem_drop hd)⟩
  have hS : ∀ j, S j → cntK j (kids.take a ++ lkids ++ rkids ++ kids.drop (a + 2)) = 0 ∨
      ∃ d ∈ kids.take a ++ lkids ++ rkids ++ kids.drop (a + 2), d.id = j := by
    intro j hj
    rcases hj with e | e | e | e
    · left; simp only [cntK_append]; exact hZ j (Or.inl e)
    · left; simp only [cntK_append]; exact hZ j (Or.inr (Or.inl e))
    · left; simp only [cntK_append]; exact hZ j (Or.inr (Or.inr e))
    · right
      obtain ⟨d, hd, hde⟩ := List.mem_map.mp e
      exact ⟨d, by simp [hd], hde⟩
  have notS : ∀ j, (0 < cntK j (kids.take a) ∨ 0 < cntK j lkids ∨ 0 < cntK j (kids.drop (a + 2))) → ¬ S j := by
    intro j hpos hSj
    rcases hSj with e | e | e | e
    · have := hZ j (Or.inl e); omega
    · have := hZ j (Or.inr (Or.inl e)); omega
    · have := hZ j (Or.inr (Or.inr e)); omega
    · obtain ⟨d, hd, hde⟩ := List.mem_map.mp e
      have := cntK_pos_of_mem hd
      rw [hde] at this
      have := hF j; omega
  have keep : ∀ {d : Node K V} {q : Option Nat}, d ∈ kids.take a ++ lkids ++ rkids ++ kids.drop (a + 2) →
      Sub h.get q d → ¬ S d.id → Sub h1.get q d := by
    intro d q hd hs hn
    exact forest_sub hGF hGsub S hfr hS hd (hs.root_keep (hfr _ hn))
  refine ⟨h1.event ("merge-" ++ Heap.level xl), ?_, (hsamea.trans hsame1).trans (same_event _ _), ?_, ?_, ?_⟩
  · intro fuel
    unfold Heap.mergeFrom
    simp only [bind, pure, hsib, hnl, callArgs_merge, hch, Option.map_some, hl, hr, hlp, hp, hidxOf, Option.bind_some,
      hrepar', hstep]
    rfl
  · show Sub h1.get p _
    refine sub_mk.mpr ⟨p', ?_, q1.trans hpp, ?_, ?_⟩
    · rw [hgfull, if_neg n3, if_neg n1, if_pos rfl]
    · rw [ids_merge (L' := Node.mk li (lkvs ++ kvs[a] :: rkvs) (lkids ++ rkids)) hL hR rfl]; exact rp'
    · intro d hd
      simp only [List.mem_append, List.mem_cons] at hd
      rcases hd with hd | rfl | hd
      · exact keep (by simp [hd]) (hkids d (List.mem_of_mem_take hd)) (notS _ (Or.inl (cntK_pos_of_mem hd)))
      · refine sub_mk.mpr ⟨l', ?_, q2.trans hlp, by simpa using rl', ?_⟩
        · rw [hgfull, if_neg n2, if_pos rfl]
        · intro d hd
          rcases List.mem_append.mp hd with hd | hd
          · exact keep (by simp [hd]) (hlk d hd) (notS _ (Or.inr (Or.inl (cntK_pos_of_mem hd))))
          · refine forest_sub hGF hGsub S hfr hS (by simp [hd]) ?_
            have hm : d.id ∈ rkids.map Node.id := List.mem_map_of_mem hd
            obtain ⟨_, c1, c2, c3⟩ := hrkpres d.id hm
            rw [hgfull, if_neg c3, if_neg c2, if_neg c1, if_pos hm]
      · exact keep (by simp [hd]) (hkids d (List.mem_of_mem_drop hd)) (notS _ (Or.inr (Or.inr (cntK_pos_of_mem hd))))
  · show h1.get ri = none
    rw [hgfull, if_pos rfl]
  · intro j hj
    show h1.get j = h.get j
    refine hfr j (fun hSj => ?_)
    have hdec : cnt j (Node.mk id kvs kids) = (if id = j then 1 else 0) + cntK j (kids.take a) +
        ((if li = j then 1 else 0) + cntK j lkids) + ((if ri = j then 1 else 0) + cntK j rkids) +
        cntK j (kids.drop (a + 2)) := by
      rw [cnt_mk, cntK_of_drop (drop_two hL hR) j, cnt_mk, cnt_mk]; omega
    rcases hSj with e | e | e | e
    · subst e; simp at hdec; omega
    · subst e; simp at hdec; omega
    · subst e; simp at hdec; omega
    · obtain ⟨d, hd, hde⟩ := List.mem_map.mp e
      have := cntK_pos_of_mem hd
      rw [hde] at this
      omega

end Juniper.Proofs.TreeHeapLink
