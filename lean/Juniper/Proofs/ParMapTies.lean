import Lean.Elab.Tactic
import Juniper.Model.ParMap
import Juniper.Generated.SkeletonPar
/-!
# Ties of `parallel.MapIterator` / `parallel.MapStream` (C14, MapStream clauses of C08/C09)

Everything the proofs about the LTSs `Model.ParMap.Iter` / `Model.ParMap.Stream` assume about the Go source,
as two propositions, `IterTies` and `StreamTies`:

* `Code.Sound` of the regenerated `Iter.code` / `Stream.code` — guards, capacities, `select` tables,
  presence facts (`Juniper.Gen.Par`) **and** the three disciplines computed from `Juniper.Gen.ParSync`:
  `Iter.sectionsAtomic` (both critical sections of MapIterator lock the same mutex field, which is the
  cond's locker; wait in a loop; increment / decrement / `Signal` inside), `Stream.ctxPlain` (the context
  handed to the source, `f` and the selects is `errgroup.WithContext(context.WithCancel(ctx))`, cancelled
  by `Close` only), `closeCancels` / `closeWaits` (`Close` = `s.cancel(); s.eg.Wait()`);
* the control skeletons (`Juniper.Gen.SkeletonPar`: statement kinds of a body, identifiers and expressions
  normalised away) of the bodies whose statement order `Iter.step` / `Stream.step` hard-wire.

**No lemma of this library proves `IterTies` or `StreamTies`.** They are hypotheses of the lemmas in
`Proofs/ParMap*.lean` (through `iter_code_sound` / `stream_code_sound`, `Proofs/ParMapBasic.lean`), and every
property theorem of `Props/C14.lean` and `Props/C14Progress.lean` discharges them *inside its own proof*
with the term macros `iter_ties` / `stream_ties` (`decide` / `rfl` on the regenerated definitions). A change
of any of these facts therefore makes the **named property theorems** fail to compile — not a tie lemma
upstream that would merely stop the build before the property theorems are reached.
-/
namespace Juniper.Proofs.ParMap
open Juniper.Gen.SkeletonPar Juniper.Model.ParMap

/-- The control skeletons `Iter.step` hard-wires.
`MapIterator`: two clamps, `in`, the iterator value (with the heap comparison), the condition variable, the
dispatcher goroutine, `nDone`, the spawn loop, `return`.
Dispatcher: `i := 0`; forever: pull, `if !ok { break }`, Lock, `for full { Wait }`, `inFlight++`, Unlock,
send, `i++`; `close(in)`.
Worker: `for item := range in { u := f(…); ch <- … }`, then the last one closes `ch`.
`mapIterator.Next`: forever: `if ready { pop; i++; Lock; inFlight--; if … { Signal }; Unlock; return }`,
receive, `if !ok { var zero; return }`, push. -/
def IterSkeletons : Prop :=
  pskelMapIterator =
    ["if{assign}", "if{assign}", "define", "define{return}", "assign", "go{define;forever{..};call}",
     "define", "for{go{..}}", "return"]
  ∧ pskelMapIteratorDispatcher =
    ["define", "forever{define;if{break};mcall;for{mcall};assign;mcall;send;assign}", "call"]
  ∧ pskelMapIteratorWorker =
    ["range{define;send}", "if{call}"]
  ∧ pskelMapIteratorNext =
    ["forever{if{define;assign;mcall;assign;if{mcall};mcall;return};define;if{decl;return};mcall}"]

instance : Decidable IterSkeletons := by unfold IterSkeletons; infer_instance

/-- The control skeletons `Stream.step` hard-wires.
`MapStream`: two clamps, `in`, `ready`, the token loop, `WithCancel`, `errgroup.WithContext`, the dispatcher
`eg.Go(func …)`, `c`, `nDone`, the spawn loop of `eg.Go(func …)`, `return &mapStream{…}`.
Dispatcher: `defer s.Close()`, `defer close(in)`, `i := 0`; forever: pull, `if End { break } else if err
{ return }`, `select { ctx.Done: return; ready }`, `select { ctx.Done: return; in <- … }`, `i++`; `return nil`.
Worker: `defer func() { if last { close(c) } }()`; `for item := range in { u, err := f(…); if err != nil
{ return err }; select { c <- …; ctx.Done: return } }`; `return nil`.
`mapStream.Next`: `var zero`; forever: `if ready { pop; i++; release; return }`, `select { item, ok := <-s.c:
if !ok { err := Wait(); if err != nil { return }; return }; push  |  ctx.Done: return }`.
`mapStream.Close`: `s.cancel()`, `_ = s.eg.Wait()` and nothing else. -/
def StreamSkeletons : Prop :=
  pskelMapStream =
    ["if{assign}", "if{assign}", "define", "define", "for{send}", "define", "define",
     "mcall{defer;defer;define;forever{..};return}", "define", "define", "for{mcall{..}}", "return{return}"]
  ∧ pskelMapStreamDispatcher =
    ["defer", "defer", "define",
     "forever{define;if{break}else{if{return}};select{recv{return};recv{}};select{recv{return};send{}};assign}",
     "return"]
  ∧ pskelMapStreamWorker =
    ["defer{if{call}}", "range{define;if{return};select{recv{return};send{}}}", "return"]
  ∧ pskelMapStreamNext =
    ["decl",
     "forever{if{define;assign;send;return};select{recv{if{define;if{return};return};mcall};recv{return}}}"]
  ∧ pskelMapStreamClose =
    ["mcall", "assign"]

instance : Decidable StreamSkeletons := by unfold StreamSkeletons; infer_instance

/-- Everything the MapIterator proofs assume about the source as it is now. -/
structure IterTies : Prop where
  sound : Iter.code.Sound
  skeletons : IterSkeletons

/-- Everything the MapStream proofs assume about the source as it is now. -/
structure StreamTies : Prop where
  sound : Stream.code.Sound
  skeletons : StreamSkeletons

open Lean Elab Tactic in
/-- closes one tie (a field of `Code.Sound`, or the skeletons) by `decide` / `rfl`; otherwise fails naming it -/
elab "tie_field" : tactic => do
  try
    evalTactic (← `(tactic| first | decide | (intros; rfl)))
  catch _ =>
    let g ← getMainGoal
    let stmt := (← Lean.Meta.ppExpr (← g.getType)).pretty 100000
    throwError "tie broken: {stmt} -- a fact regenerated from the Go source (Juniper.Gen.Par / ParSync / SkeletonPar) is not what the model and its proofs assume"

/-- Proof of `IterTies` from the regenerated definitions, to be used **inside** a property theorem
(`iter_code_sound iter_ties`): each field of `Iter.Code.Sound` by `decide` (Boolean facts, among them
`Iter.sectionsAtomic`) or `rfl` (guard functions), the skeletons by `decide`. -/
macro "iter_ties" : term =>
  `((⟨by constructor <;> tie_field, by tie_field⟩ : Juniper.Proofs.ParMap.IterTies))

/-- Proof of `StreamTies` from the regenerated definitions, to be used **inside** a property theorem
(`stream_code_sound stream_ties`). -/
macro "stream_ties" : term =>
  `((⟨by constructor <;> tie_field, by tie_field⟩ : Juniper.Proofs.ParMap.StreamTies))

end Juniper.Proofs.ParMap
