import Juniper.Proofs.XListOps
/-! `Rep` (the property's clauses, stated on what the accessors return) is equivalent to the pointwise
invariant `Inv`; one well-formed step and whole histories preserve it. -/
set_option linter.unusedSimpArgs false
set_option linter.unusedVariables false
namespace Juniper.Proofs.XList
open Juniper.Spec.XList Juniper.Model.XList Juniper.Gen.XList

theorem frontOf_eq (h : Heap) : frontOf h = h.front := by
  simp [frontOf, evalH, evalP, frontReturns]
theorem backOf_eq (h : Heap) : backOf h = h.back := by
  simp [backOf, evalH, evalP, backReturns]
theorem lenOf_eq (h : Heap) : lenOf h = h.size := by
  simp [lenOf, lenReturnsSize]
theorem nextOf_eq (h : Heap) (x : Nat) : nextOf h x = (h.nodes.get x).bind (·.next) := by
  simp [nextOf, nextReturns, Node.getF]
theorem prevOf_eq (h : Heap) (x : Nat) : prevOf h x = (h.nodes.get x).bind (·.prev) := by
  simp [prevOf, prevReturns, Node.getF]

theorem nextOf_live {h : Heap} {x : Nat} (hx : (h.nodes.get x).isSome) :
    nextOf h x = (h.nodes.recOf x).next := by
  rw [nextOf_eq, Store.get_of_isSome hx]; rfl
theorem prevOf_live {h : Heap} {x : Nat} (hx : (h.nodes.get x).isSome) :
    prevOf h x = (h.nodes.recOf x).prev := by
  rw [prevOf_eq, Store.get_of_isSome hx]; rfl
theorem valueOf_isSome (h : Heap) (x : Nat) : (valueOf h x).isSome = (h.nodes.get x).isSome := by
  simp [valueOf]

theorem visits_iff {step : Nat → Option Nat} {l : List Nat} (hl : l.Nodup) (s : Option Nat) :
    Visits step s l ↔ s = l.head? ∧ ∀ x ∈ l, step x = nextIn l x := by
  induction l generalizing s with
  | nil => simp [Visits]
  | cons a t ih =>
    have hat : a ∉ t := (List.nodup_cons.1 hl).1
    have ht := (List.nodup_cons.1 hl).2
    simp only [Visits, ih ht, List.head?_cons, List.mem_cons, nextIn_cons]
    constructor
    · rintro ⟨rfl, h1, h2⟩
      refine ⟨rfl, ?_⟩
      intro x hx
      rcases hx with rfl | hx
      · simp [h1]
      · have : x ≠ a := fun e => hat (e ▸ hx)
        simp [this, h2 x hx]
    · rintro ⟨rfl, h2⟩
      refine ⟨rfl, by simpa using h2 a (Or.inl rfl), ?_⟩
      intro x hx
      have : x ≠ a := fun e => hat (e ▸ hx)
      simpa [this] using h2 x (Or.inr hx)

theorem rep_of_inv {l : List Nat} {h : Heap} (hI : Inv l h) : Rep l h := by
  obtain ⟨⟨hnd, hf, hb, hlv, hp, hn⟩, hs, hbd, hfr⟩ := hI
  have hndr : l.reverse.Nodup := by grind
  refine ⟨hnd, ?_, ?_, ?_, ?_, ?_, ?_, hbd, ?_⟩
  · rw [visits_iff hnd, frontOf_eq]
    exact ⟨hf, fun x hx => by rw [nextOf_live (hlv x hx), hn x hx]⟩
  · rw [visits_iff hndr, backOf_eq]
    refine ⟨by rw [hb, List.head?_reverse], fun x hx => ?_⟩
    have hx' : x ∈ l := by simpa using hx
    rw [prevOf_live (hlv x hx'), hp x hx', nextIn_reverse hnd]
  · intro x hx
    have hxl := mem_of_head? hx
    rw [prevOf_live (hlv x hxl), hp x hxl]; exact head_prevIn hnd hx
  · intro x hx
    have hxl := List.mem_of_getLast? hx
    rw [nextOf_live (hlv x hxl), hn x hxl]; exact (nextIn_eq_none_iff hnd hxl).2 hx
  · rw [lenOf_eq, hs]
  · intro x hx; rw [valueOf_isSome]; exact hlv x hx
  · intro x hx; simp [valueOf, hfr x hx]

theorem inv_of_rep {l : List Nat} {h : Heap} (hR : Rep l h) : Inv l h := by
  obtain ⟨hnd, hfw, hbw, h1, h2, hlen, hlv, hbd, hfr⟩ := hR
  have hndr : l.reverse.Nodup := by grind
  rw [visits_iff hnd, frontOf_eq] at hfw
  rw [visits_iff hndr, backOf_eq] at hbw
  have hlv' : ∀ x ∈ l, (h.nodes.get x).isSome := fun x hx => by rw [← valueOf_isSome]; exact hlv x hx
  refine ⟨⟨hnd, hfw.1, ?_, hlv', ?_, ?_⟩, ?_, hbd, ?_⟩
  · rw [hbw.1, List.head?_reverse]
  · intro x hx
    rw [← prevOf_live (hlv' x hx), hbw.2 x (by simpa using hx), nextIn_reverse hnd]
  · intro x hx
    rw [← nextOf_live (hlv' x hx), hfw.2 x hx]
  · rw [← lenOf_eq, hlen]
  · intro x hx
    have := hfr x hx
    simpa [valueOf] using this

theorem frame_mono {l l' : List Nat} {h h' : Heap} (hsub : ∀ x ∈ l, x ∈ l') (hF : Frame l h h') :
    Frame l' h h' :=
  ⟨fun x hx => hF.out x (fun hm => hx (hsub x hm)), hF.value⟩

/-- One well-formed operation: no panic, the result the ideal sequence prescribes, the invariant
for the new sequence, the next identity, and the frame. -/
theorem step_inv {l : List Nat} {h : Heap} (hI : Inv l h) (o : Op) (hwf : Op.wellFormed l o) :
    let r := apply h o
    r.panicked = false ∧ r.ret = (if Op.creates o then some h.nextId else none) ∧
      Inv (step l h.nextId o) r.h ∧ r.h.nextId = nextFresh h.nextId o ∧
      Frame (h.nextId :: l) h r.h := by
  have hsub : ∀ x ∈ l, x ∈ h.nextId :: l := fun x hx => List.mem_cons_of_mem _ hx
  cases o with
  | pushFront v =>
    obtain ⟨h1, h2, h3, h4, h5, h6⟩ := pushFront_spec hI v
    exact ⟨h1, h2, h3, h6, h4⟩
  | pushBack v =>
    obtain ⟨h1, h2, h3, h4, h5, h6⟩ := pushBack_spec hI v
    exact ⟨h1, h2, h3, h6, h4⟩
  | insertBefore v m =>
    obtain ⟨h1, h2, h3, h4, h5, h6⟩ := insertBefore_spec hI hwf v
    exact ⟨h1, h2, h3, h6, h4⟩
  | insertAfter v m =>
    obtain ⟨h1, h2, h3, h4, h5, h6⟩ := insertAfter_spec hI hwf v
    exact ⟨h1, h2, h3, h6, h4⟩
  | remove n =>
    obtain ⟨h1, h2, h3, h4, h5, h6, h7⟩ := remove_spec hI hwf
    exact ⟨h1, h2, h3, h7, frame_mono hsub h4⟩
  | moveBefore n m =>
    obtain ⟨h1, h2, h3, h4, h5⟩ := moveBefore_spec hI hwf.1 hwf.2
    exact ⟨h1, h2, h3, h5, frame_mono hsub h4⟩
  | moveAfter n m =>
    obtain ⟨h1, h2, h3, h4, h5⟩ := moveAfter_spec hI hwf.1 hwf.2
    exact ⟨h1, h2, h3, h5, frame_mono hsub h4⟩
  | moveToFront n =>
    obtain ⟨h1, h2, h3, h4, h5⟩ := moveToFront_spec hI hwf
    exact ⟨h1, h2, h3, h5, frame_mono hsub h4⟩
  | moveToBack n =>
    obtain ⟨h1, h2, h3, h4, h5⟩ := moveToBack_spec hI hwf
    exact ⟨h1, h2, h3, h5, frame_mono hsub h4⟩
  | clear =>
    obtain ⟨h1, h2, h3, h4, h5⟩ := clear_spec hI
    refine ⟨h1, h2, h3, h5, ⟨fun x _ => by rw [h4], fun x hx => ⟨by rw [h4]; exact hx, by rw [h4]⟩⟩⟩

/-- the nodes in `R` are out of the list, allocated, and have neither neighbour -/
def Unlinked (l : List Nat) (h : Heap) (R : List Nat) : Prop :=
  ∀ x ∈ R, x ∉ l ∧ (h.nodes.get x).isSome ∧ (h.nodes.recOf x).prev = none ∧ (h.nodes.recOf x).next = none

theorem step_mem {l : List Nat} (hl : l.Nodup) {fresh : Nat} (o : Op) (hwf : Op.wellFormed l o) :
    ∀ x ∈ step l fresh o, x = fresh ∨ x ∈ l := by
  intro x hx
  cases o with
  | pushFront v => simpa [step] using hx
  | pushBack v => simpa [step, or_comm] using hx
  | insertBefore v m => exact (mem_insBefore hwf x).1 hx
  | insertAfter v m => exact (mem_insAfter hwf x).1 hx
  | remove n => exact Or.inr ((mem_erase_nodup hl).1 hx).1
  | moveBefore n m => exact Or.inr ((move_len_before hl hwf.1 hwf.2).2 x hx)
  | moveAfter n m => exact Or.inr ((move_len_after hl hwf.1 hwf.2).2 x hx)
  | moveToFront n =>
    simp [step] at hx
    rcases hx with rfl | hx
    · exact Or.inr hwf
    · exact Or.inr ((mem_erase_nodup hl).1 hx).1
  | moveToBack n =>
    simp [step] at hx
    rcases hx with hx | rfl
    · exact Or.inr ((mem_erase_nodup hl).1 hx).1
    · exact Or.inr hwf
  | clear => simp [step] at hx

/-- Any well-formed history: no operation panics, the final heap represents the ideal result, values
are untouched, and every node that was removed before or during the history has neither neighbour. -/
theorem history_inv {l : List Nat} {h : Heap} {R : List Nat} (hI : Inv l h) (hU : Unlinked l h R)
    (os : List Op) (hwf : HistWF l h.nextId os) :
    let t := runP h os
    t.2 = false ∧ Inv (runSpec l h.nextId os) t.1 ∧
      (∀ x, (h.nodes.get x).isSome → (t.1.nodes.get x).isSome ∧
        (t.1.nodes.recOf x).value = (h.nodes.recOf x).value) ∧
      Unlinked (runSpec l h.nextId os) t.1 (removedIn os ++ R) := by
  induction os generalizing l h R with
  | nil => exact ⟨rfl, hI, fun x hx => ⟨hx, rfl⟩, by simpa [removedIn, runSpec, runP] using hU⟩
  | cons o os ih =>
    obtain ⟨hwo, hwos⟩ := hwf
    obtain ⟨h1, h2, h3, h4, h5⟩ := step_inv hI o hwo
    have hmem := step_mem hI.linked.nodup (fresh := h.nextId) o hwo
    -- the removed nodes stay unlinked across this step; a node removed by this step joins them
    have hU' : Unlinked (step l h.nextId o) (apply h o).h
        ((match o with | .remove n => [n] | _ => []) ++ R) := by
      intro x hx
      rcases List.mem_append.1 hx with hx | hx
      · cases o with
        | remove n =>
          simp at hx; subst hx
          obtain ⟨_, _, g3, g4, g5, g6, _⟩ := remove_spec hI hwo
          refine ⟨fun hm => ((mem_erase_nodup hI.linked.nodup).1 hm).2 rfl,
            (g4.value x (hI.linked.live x hwo)).1, g5, g6⟩
        | _ => simp at hx
      · obtain ⟨u1, u2, u3, u4⟩ := hU x hx
        have hxn : x ≠ h.nextId := fun e => by
          rw [e, hI.fresh _ (Nat.le_refl _)] at u2; simp at u2
        have hout : x ∉ h.nextId :: l := by simp [hxn, u1]
        have hg := h5.out x hout
        refine ⟨fun hm => ?_, by rw [hg]; exact u2, ?_, ?_⟩
        · rcases hmem x hm with e | hm
          · exact hxn e
          · exact u1 hm
        · simp only [Store.recOf, hg]; exact u3
        · simp only [Store.recOf, hg]; exact u4
    rw [← h4] at hwos
    obtain ⟨i1, i2, i3, i4⟩ := ih h3 hU' hwos
    simp only [runP, runSpec]
    rw [← h4]
    refine ⟨by simp [h1, i1], i2, ?_, ?_⟩
    · intro x hx
      obtain ⟨v1, v2⟩ := h5.value x hx
      obtain ⟨w1, w2⟩ := i3 x v1
      exact ⟨w1, w2.trans v2⟩
    · intro x hx
      apply i4 x
      cases o <;> simp_all [removedIn] <;> grind


end Juniper.Proofs.XList
