import Juniper.Proofs.IterGuards
import Juniper.Proofs.IterReduce
/-! # `iterator.Equal` (C07) -/
namespace Juniper.Proofs.IterDen
open Juniper.Model.Iter Juniper.Spec
universe u v
variable {σ : Type u} {α : Type v}

/-- the state yields exactly the list `l` -/
def DenL (m : IM σ α) (s : σ) (l : List α) : Prop :=
  ∃ (cost : σ → Nat) (L : List (α × Nat)) (e : Nat), Den m cost s L e ∧ L.map Prod.fst = l

/-- one `Next()` on a state that yields `l`: answers `l.head?` (for every sufficiently large fuel, always
reaching the same state), and that state yields `l.tail` -/
theorem drive_denL {m : IM σ α} {s : σ} {l : List α} (h : DenL m s l) :
    ∃ F s', (∀ fuel, F ≤ fuel → drive m fuel s = (some l.head?, s')) ∧ DenL m s' l.tail := by
  obtain ⟨cost, L, e, hd, rfl⟩ := h
  obtain ⟨F, hF⟩ := drive_den hd
  have h0 := hF F (Nat.le_refl _)
  cases L with
  | nil =>
    simp only at h0
    refine ⟨F, (drive m F s).2, fun fuel hf => ?_, ?_⟩
    · have e1 : drive m F s = (some none, (drive m F s).2) := by rw [← h0.1]
      rw [e1]; exact drive_mono e1 fuel hf
    · exact ⟨fun _ => 0, [], 0, den_of_ended (cost := fun _ => 0) h0.2.1 (fun _ => rfl), rfl⟩
  | cons p L' =>
    simp only at h0
    refine ⟨F, (drive m F s).2, fun fuel hf => ?_, ⟨cost, L', e, h0.2.1, rfl⟩⟩
    have e1 : drive m F s = (some (some p.1), (drive m F s).2) := by rw [← h0.1]
    rw [e1]; exact drive_mono e1 fuel hf

/-- pointwise relation between two lists of the same length -/
inductive All2 {β : Type u} {γ : Type v} (R : β → γ → Prop) : List β → List γ → Prop
  | nil : All2 R [] []
  | cons {a : β} {b : γ} {as : List β} {bs : List γ} : R a b → All2 R as bs → All2 R (a :: as) (b :: bs)

variable [DecidableEq α]

theorem opt_match (a r : Option α) :
    (¬ (a.isSome ≠ r.isSome) ∧ ¬ ((r.isSome && decide (a ≠ r)) = true)) ↔ a = r := by
  cases a <;> cases r <;> simp

theorem equalRound_cons (m : IM σ α) (fuel : Nat) (x : Option α) (s : σ) (r : List σ) (y : Option α) (s' : σ)
    (hd : drive m fuel s = (some y, s')) :
    equalRound m fuel x (s :: r) =
      if y = x then ((equalRound m fuel x r).1, s' :: (equalRound m fuel x r).2) else (some false, s' :: r) := by
  rw [equalRound, hd]
  simp only [ValueFacts.itEqualLenDiff_eq, ValueFacts.itEqualItemDiff_eq]
  by_cases hy : y = x
  · subst hy
    cases y <;> simp
  · rw [if_neg hy]
    cases y with
    | none => cases x <;> simp_all
    | some a =>
      cases x with
      | none => simp
      | some b =>
        have hab : ¬ b = a := fun h => hy (by rw [h])
        simp [hab]

/-- one round of `Equal` over states that yield the lists `ls` -/
theorem equalRound_spec {m : IM σ α} (x : Option α) (r : List σ) (ls : List (List α))
    (h : All2 (DenL m) r ls) :
    ∃ F r', (∀ fuel, F ≤ fuel →
        equalRound m fuel x r = (some (decide (∀ l ∈ ls, l.head? = x)), r')) ∧
      ((∀ l ∈ ls, l.head? = x) → All2 (DenL m) r' (ls.map List.tail)) := by
  induction h with
  | nil => exact ⟨0, [], fun _ _ => by simp [equalRound], fun _ => .nil⟩
  | @cons s l r ls hs _ ih =>
    obtain ⟨F1, s', hd, hs'⟩ := drive_denL hs
    obtain ⟨F2, r', hr, hr'⟩ := ih
    by_cases hx : l.head? = x
    · refine ⟨max F1 F2, s' :: r', fun fuel hf => ?_, fun hall => ?_⟩
      · rw [equalRound_cons m fuel x s r _ s' (hd fuel (by omega)), if_pos hx, hr fuel (by omega)]
        simp [hx]
      · exact .cons hs' (hr' (fun l' hl' => hall l' (by simp [hl'])))
    · refine ⟨F1, s' :: r, fun fuel hf => ?_, fun hall => absurd (hall l (by simp)) hx⟩
      rw [equalRound_cons m fuel x s r _ s' (hd fuel hf), if_neg hx]
      have hne : decide (∀ l' ∈ l :: ls, l'.head? = x) = false := by
        simp only [decide_eq_false_iff_not]
        intro hall
        exact hx (hall l (by simp))
      rw [hne]

theorem equal_succ (m : IM σ α) (fuel rounds : Nat) (s : σ) (r : List σ) :
    equal m fuel (rounds + 1) (s :: r) =
      match drive m fuel s with
      | (none, s') => (none, s' :: r)
      | (some x, s') =>
        match equalRound m fuel x r with
        | (none, r') => (none, s' :: r')
        | (some false, r') => (some false, s' :: r')
        | (some true, r') => if x.isNone then (some true, s' :: r') else equal m fuel rounds (s' :: r') := by
  rw [equal]
  simp only [equalLoopOk_true, Bool.not_true, Bool.false_eq_true, if_false, ValueFacts.itEqualDone_eq]
  rcases drive m fuel s with ⟨x, s'⟩
  cases x with
  | none => rfl
  | some x =>
    simp only
    rcases equalRound m fuel x r with ⟨b, r'⟩
    cases b with
    | none => rfl
    | some b => cases b <;> cases x <;> simp

/-- **`iterator.Equal(iters...)`** is `true` iff all iterators yield the same list. -/
theorem equal_den {m : IM σ α} (l0 : List α) (s0 : σ) (r : List σ) (ls : List (List α))
    (h0 : DenL m s0 l0) (h : All2 (DenL m) r ls) :
    ∃ F, ∀ fuel, F ≤ fuel → ∀ rounds, l0.length + 1 ≤ rounds →
      (equal m fuel rounds (s0 :: r)).1 = some (decide (∀ l ∈ ls, l = l0)) := by
  have _tie := Skeleton.Tie.itEqual
  induction l0 generalizing s0 r ls with
  | nil =>
    obtain ⟨F1, s', hd, _⟩ := drive_denL h0
    obtain ⟨F2, r', hr, _⟩ := equalRound_spec (none : Option α) r ls h
    refine ⟨max F1 F2, fun fuel hf rounds hr0 => ?_⟩
    obtain ⟨k, rfl⟩ : ∃ k, rounds = k + 1 := ⟨rounds - 1, by simp at hr0; omega⟩
    rw [equal_succ, hd fuel (by omega)]
    simp only [List.head?_nil, hr fuel (by omega)]
    have hiff : (∀ l ∈ ls, l.head? = none) ↔ (∀ l ∈ ls, l = []) := by
      constructor
      · intro hh l hl; have := hh l hl; cases l <;> simp_all
      · intro hh l hl; rw [hh l hl]; rfl
    by_cases hall : ∀ l ∈ ls, l.head? = none
    · have : decide (∀ l ∈ ls, l.head? = none) = true := decide_eq_true hall
      rw [this]
      simp [hiff.mp hall]
      exact hiff.mp hall
    · have : decide (∀ l ∈ ls, l.head? = none) = false := decide_eq_false hall
      rw [this]
      simp only
      have : ¬ ∀ l ∈ ls, l = [] := fun hh => hall (hiff.mpr hh)
      simp [this]
  | cons a l0 ih =>
    obtain ⟨F1, s', hd, hs'⟩ := drive_denL h0
    obtain ⟨F2, r', hr, hr'⟩ := equalRound_spec (some a) r ls h
    by_cases hall : ∀ l ∈ ls, l.head? = some a
    · obtain ⟨F3, hF3⟩ := ih s' r' (ls.map List.tail) hs' (hr' hall)
      refine ⟨max F1 (max F2 F3), fun fuel hf rounds hr0 => ?_⟩
      obtain ⟨k, rfl⟩ : ∃ k, rounds = k + 1 := ⟨rounds - 1, by simp at hr0; omega⟩
      rw [equal_succ, hd fuel (by omega)]
      simp only [List.head?_cons, hr fuel (by omega), decide_eq_true hall, Option.isNone_some, Bool.false_eq_true, if_false]
      rw [hF3 fuel (by omega) k (by simp at hr0 ⊢; omega)]
      congr 1
      have hiff : (∀ l ∈ ls.map List.tail, l = l0) ↔ (∀ l ∈ ls, l = a :: l0) := by
        constructor
        · intro hh l hl
          have h1 := hall l hl
          have h2 := hh l.tail (List.mem_map.mpr ⟨l, hl, rfl⟩)
          cases l with
          | nil => simp at h1
          | cons b l' => simp at h1 h2; rw [h1, h2]
        · intro hh l hl
          obtain ⟨l', hl', rfl⟩ := List.mem_map.mp hl
          rw [hh l' hl']; rfl
      by_cases hh : ∀ l ∈ ls, l = a :: l0
      · rw [decide_eq_true hh, decide_eq_true (hiff.mpr hh)]
      · rw [decide_eq_false hh, decide_eq_false (fun h' => hh (hiff.mp h'))]
    · refine ⟨max F1 F2, fun fuel hf rounds hr0 => ?_⟩
      obtain ⟨k, rfl⟩ : ∃ k, rounds = k + 1 := ⟨rounds - 1, by simp at hr0; omega⟩
      rw [equal_succ, hd fuel (by omega)]
      simp only [List.head?_cons, hr fuel (by omega), decide_eq_false hall]
      have : ¬ ∀ l ∈ ls, l = a :: l0 := by
        intro hh
        exact hall (fun l hl => by rw [hh l hl]; rfl)
      rw [decide_eq_false this]

end Juniper.Proofs.IterDen
