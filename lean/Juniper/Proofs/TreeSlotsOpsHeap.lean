import Juniper.Proofs.TreeSlotsOpsHistory
/-!
# Slot-level lemmas (C03 "no retained garbage"): the whole tree

`Heap.put` / `Heap.delete` (the pointer-level model that the correspondence harness compares with the
real code raw slot by raw slot) change the store only through `Heap.step`, i.e. through an enabled
`applyOp`; hence every `Put` / `Delete` history keeps every stored node clean (`runMuts_clean`).
-/
namespace Juniper.Proofs.TreeSlotsOps
open Juniper.Model.BTreeSlotsOps Juniper.Gen
variable {K V : Type}

theorem step_clean (hf : ZeroingPresent) {h h' : Heap K V} (hc : AllClean h.nodes) {op : NodeOp K V Nat} {w : List Nat}
    (hs : h.step op w = some h') : AllClean h'.nodes := by
  unfold Heap.step at hs
  obtain ⟨fam, hfam, rfl⟩ := Option.map_eq_some_iff.mp hs
  exact applyOp_clean hf hc op hfam

@[simp] theorem event_nodes (h : Heap K V) (e : String) : (h.event e).nodes = h.nodes := rfl

theorem setParents_clean (hf : ZeroingPresent) (p : Option Nat) : ∀ (cs : List (Option Nat)) {h h' : Heap K V},
    AllClean h.nodes → h.setParents cs p = some h' → AllClean h'.nodes
  | [], h, h', hc, hs => by
    simp [Heap.setParents] at hs; subst hs; exact hc
  | c :: cs, h, h', hc, hs => by
    simp only [Heap.setParents, List.foldlM_cons] at hs
    obtain ⟨h1, hh1, hs⟩ := Option.bind_eq_some_iff.mp hs
    obtain ⟨id, hid, hh1⟩ := Option.bind_eq_some_iff.mp hh1
    exact setParents_clean hf p cs (step_clean hf hc hh1) hs

theorem rotateLeft_clean (hf : ZeroingPresent) {h h' : Heap K V} (hc : AllClean h.nodes) {lid rid : Nat}
    (hs : h.rotateLeft lid rid = some h') : AllClean h'.nodes := by
  unfold Heap.rotateLeft at hs
  simp only [bind, pure] at hs
  obtain ⟨left, h1, hs⟩ := Option.bind_eq_some_iff.mp hs
  obtain ⟨right, h2, hs⟩ := Option.bind_eq_some_iff.mp hs
  obtain ⟨pid, h3, hs⟩ := Option.bind_eq_some_iff.mp hs
  obtain ⟨p, h4, hs⟩ := Option.bind_eq_some_iff.mp hs
  obtain ⟨idx, h5, hs⟩ := Option.bind_eq_some_iff.mp hs
  obtain ⟨child, h6, hs⟩ := Option.bind_eq_some_iff.mp hs
  obtain ⟨ha, h7, hs⟩ := Option.bind_eq_some_iff.mp hs
  have c1 := step_clean hf hc h7
  obtain ⟨hb, h8, hs⟩ := Option.bind_eq_some_iff.mp hs
  simp at hs; subst hs
  cases child with
  | none => simp at h8; subst h8; simpa using c1
  | some c => simpa using setParents_clean hf _ _ c1 h8

theorem rotateRight_clean (hf : ZeroingPresent) {h h' : Heap K V} (hc : AllClean h.nodes) {lid rid : Nat}
    (hs : h.rotateRight lid rid = some h') : AllClean h'.nodes := by
  unfold Heap.rotateRight at hs
  simp only [bind, pure] at hs
  obtain ⟨left, h1, hs⟩ := Option.bind_eq_some_iff.mp hs
  obtain ⟨pid, h3, hs⟩ := Option.bind_eq_some_iff.mp hs
  obtain ⟨p, h4, hs⟩ := Option.bind_eq_some_iff.mp hs
  obtain ⟨idx, h5, hs⟩ := Option.bind_eq_some_iff.mp hs
  obtain ⟨ci, h5', hs⟩ := Option.bind_eq_some_iff.mp hs
  obtain ⟨child, h6, hs⟩ := Option.bind_eq_some_iff.mp hs
  obtain ⟨ha, h7, hs⟩ := Option.bind_eq_some_iff.mp hs
  have c1 := step_clean hf hc h7
  obtain ⟨hb, h8, hs⟩ := Option.bind_eq_some_iff.mp hs
  simp at hs; subst hs
  cases child with
  | none => simp at h8; subst h8; simpa using c1
  | some c => simpa using setParents_clean hf _ _ c1 h8

/-! ## the calls of `steal` / `merge`, evaluated on the shipped source

`Heap.steal` / `Heap.mergeFrom` execute the call that the generated facts `Gen.Tree.stealRightCall`,
`stealLeftCall`, `mergeLeftCall`, `mergeRightCall` prescribe; on the shipped source these are
`rotateLeft(x, right)`, `rotateRight(left, x)`, `mergeTwo(left, x)`, `mergeTwo(x, right)`. The
simulation proofs of C03Link go through the three lemmas below. -/

theorem rotCall_stealRight (h : Heap K V) (xid r : Nat) (left : Option Nat) :
    Heap.rotCall h Tree.stealRightCall xid left (some r) = Heap.rotateLeft h xid r := by
  simp [Heap.rotCall, Heap.callArgs, Heap.argNode, Tree.stealRightCall]

theorem rotCall_stealLeft (h : Heap K V) (xid l : Nat) (right : Option Nat) :
    Heap.rotCall h Tree.stealLeftCall xid (some l) right = Heap.rotateRight h l xid := by
  simp [Heap.rotCall, Heap.callArgs, Heap.argNode, Tree.stealLeftCall]

theorem callArgs_merge (xid : Nat) (left right : Option Nat) (c : Bool) :
    Heap.callArgs (if c then Tree.mergeLeftCall else Tree.mergeRightCall) [.mergeTwo] xid left right =
      (if c then left.map (·, xid) else right.map (xid, ·)).map fun lr => (Tree.Callee.mergeTwo, lr.1, lr.2) := by
  cases c <;> cases left <;> cases right <;>
    simp [Heap.callArgs, Heap.argNode, Tree.mergeLeftCall, Tree.mergeRightCall]

/-- whichever rotation on whichever nodes the generated call facts prescribe -/
theorem rotCall_clean (hf : ZeroingPresent) {h h' : Heap K V} (hc : AllClean h.nodes)
    {call : Option (Tree.Callee × Tree.NodeArg × Tree.NodeArg)} {xid : Nat} {left right : Option Nat}
    (hs : Heap.rotCall h call xid left right = some h') : AllClean h'.nodes := by
  unfold Heap.rotCall at hs
  split at hs
  · exact rotateLeft_clean hf hc hs
  · exact rotateRight_clean hf hc hs
  · cases hs

theorem steal_clean (hf : ZeroingPresent) {h : Heap K V} (hc : AllClean h.nodes) {xid : Nat} {r : Heap K V × Bool}
    (hs : h.steal xid = some r) : AllClean r.1.nodes := by
  unfold Heap.steal at hs
  simp only [bind, pure] at hs
  obtain ⟨lr, h1, hs⟩ := Option.bind_eq_some_iff.mp hs
  obtain ⟨rn, h2, hs⟩ := Option.bind_eq_some_iff.mp hs
  split at hs
  · obtain ⟨ha, h4, hs⟩ := Option.bind_eq_some_iff.mp hs
    simp at hs; subst hs
    exact rotCall_clean hf hc h4
  · obtain ⟨ln, h3, hs⟩ := Option.bind_eq_some_iff.mp hs
    split at hs
    · obtain ⟨ha, h5, hs⟩ := Option.bind_eq_some_iff.mp hs
      simp at hs; subst hs
      exact rotCall_clean hf hc h5
    · simp at hs; subst hs
      exact hc

theorem mergeFrom_clean (hf : ZeroingPresent) : ∀ (fuel : Nat) {h h' : Heap K V} {xid : Nat},
    AllClean h.nodes → Heap.mergeFrom fuel h xid = some h' → AllClean h'.nodes
  | 0, h, h', xid, hc, hs => by simp [Heap.mergeFrom] at hs
  | fuel + 1, h, h', xid, hc, hs => by
    unfold Heap.mergeFrom at hs
    simp only [bind, pure] at hs
    obtain ⟨lr, h1, hs⟩ := Option.bind_eq_some_iff.mp hs
    obtain ⟨ln, h2, hs⟩ := Option.bind_eq_some_iff.mp hs
    obtain ⟨lrid, h3, hs⟩ := Option.bind_eq_some_iff.mp hs
    obtain ⟨l, h4, hs⟩ := Option.bind_eq_some_iff.mp hs
    obtain ⟨r, h5, hs⟩ := Option.bind_eq_some_iff.mp hs
    obtain ⟨pid, h6, hs⟩ := Option.bind_eq_some_iff.mp hs
    obtain ⟨p, h7, hs⟩ := Option.bind_eq_some_iff.mp hs
    obtain ⟨idx, h8, hs⟩ := Option.bind_eq_some_iff.mp hs
    obtain ⟨ha, h9, hs⟩ := Option.bind_eq_some_iff.mp hs
    have c1 : AllClean ha.nodes := by
      split at h9
      · simp at h9; subst h9; exact hc
      · obtain ⟨rn, h10, h9⟩ := Option.bind_eq_some_iff.mp h9
        exact setParents_clean hf _ _ hc h9
    obtain ⟨hb, h10, hs⟩ := Option.bind_eq_some_iff.mp hs
    have c2 := step_clean hf c1 h10
    obtain ⟨p', h11, hs⟩ := Option.bind_eq_some_iff.mp hs
    split at hs
    · split at hs
      · obtain ⟨hc1, h12, hs⟩ := Option.bind_eq_some_iff.mp hs
        have c3 : AllClean hc1.nodes := by
          split at h12
          · exact step_clean hf (by simpa using c2) h12
          · simp at h12; subst h12; simpa using c2
        split at hs
        · obtain ⟨hc2, h13, hs⟩ := Option.bind_eq_some_iff.mp hs
          simp at hs; subst hs
          simpa using step_clean hf c3 h13
        · simp at hs; subst hs; exact c3
      · simp at hs; subst hs; simpa using c2
    · split at hs
      · obtain ⟨st, h12, hs⟩ := Option.bind_eq_some_iff.mp hs
        have c3 := steal_clean hf (by simpa using c2) h12
        split at hs
        · exact mergeFrom_clean hf fuel c3 hs
        · simp at hs; subst hs; exact c3
      · simp at hs; subst hs; simpa using c2


theorem overfill_clean (hf : ZeroingPresent) (cmp : K → K → Int) : ∀ (fuel : Nat) {h h' : Heap K V} {xid : Nat} {k : K} {v : V}
    {afterK : Option Nat}, AllClean h.nodes → Heap.overfill cmp fuel h xid k v afterK = some h' → AllClean h'.nodes
  | 0, h, h', xid, k, v, afterK, hc, hs => by simp [Heap.overfill] at hs
  | fuel + 1, h, h', xid, k, v, afterK, hc, hs => by
    unfold Heap.overfill at hs
    simp only [bind, pure] at hs
    obtain ⟨x, h1, hs⟩ := Option.bind_eq_some_iff.mp hs
    obtain ⟨e, h2, hs⟩ := Option.bind_eq_some_iff.mp hs
    obtain ⟨sp, h3, hs⟩ := Option.bind_eq_some_iff.mp hs
    obtain ⟨ha, h4, hs⟩ := Option.bind_eq_some_iff.mp hs
    have c1 := step_clean hf hc h4
    obtain ⟨rn, h5, hs⟩ := Option.bind_eq_some_iff.mp hs
    obtain ⟨ln, h6, hs⟩ := Option.bind_eq_some_iff.mp hs
    obtain ⟨hb, h7, hs⟩ := Option.bind_eq_some_iff.mp hs
    have c2 : AllClean hb.nodes := by
      split at h7
      · simp at h7; subst h7; simpa using c1
      · obtain ⟨hb1, h8, h7⟩ := Option.bind_eq_some_iff.mp h7
        exact setParents_clean hf _ _ (setParents_clean hf _ _ (by simpa using c1) h8) h7
    obtain ⟨sk, h8, hs⟩ := Option.bind_eq_some_iff.mp hs
    obtain ⟨sv, h9, hs⟩ := Option.bind_eq_some_iff.mp hs
    split at hs
    · obtain ⟨hc1, h10, hs⟩ := Option.bind_eq_some_iff.mp hs
      obtain ⟨hc2, h11, hs⟩ := Option.bind_eq_some_iff.mp hs
      simp at hs; subst hs
      simpa using setParents_clean hf _ _ (step_clean hf c2 h10) h11
    · obtain ⟨left, h10, hs⟩ := Option.bind_eq_some_iff.mp hs
      obtain ⟨pid, h11, hs⟩ := Option.bind_eq_some_iff.mp hs
      obtain ⟨p, h12, hs⟩ := Option.bind_eq_some_iff.mp hs
      split at hs
      · obtain ⟨idx, h13, hs⟩ := Option.bind_eq_some_iff.mp hs
        obtain ⟨hc1, h14, hs⟩ := Option.bind_eq_some_iff.mp hs
        exact setParents_clean hf _ _ (step_clean hf c2 h14) hs
      · exact overfill_clean hf cmp fuel c2 hs

theorem put_clean (hf : ZeroingPresent) (cmp : K → K → Int) {h h' : Heap K V} (hc : AllClean h.nodes) {k : K} {v : V}
    (hs : h.put cmp k v = some h') : AllClean h'.nodes := by
  unfold Heap.put at hs
  simp only [bind, pure] at hs
  obtain ⟨d, h1, hs⟩ := Option.bind_eq_some_iff.mp hs
  obtain ⟨x, h2, hs⟩ := Option.bind_eq_some_iff.mp hs
  split at hs
  · exact step_clean hf hc hs
  · obtain ⟨ha, h3, hs⟩ := Option.bind_eq_some_iff.mp hs
    simp at hs; subst hs
    show AllClean ha.nodes
    split at h3
    · obtain ⟨n, h4, h3⟩ := Option.bind_eq_some_iff.mp h3
      obtain ⟨i, h5, h3⟩ := Option.bind_eq_some_iff.mp h3
      exact step_clean hf hc h3
    · exact overfill_clean hf cmp _ hc h3

theorem deleteLeaf_clean (hf : ZeroingPresent) {h : Heap K V} (hc : AllClean h.nodes) {curr idx : Nat}
    {r : Heap K V × Option Nat} (hs : h.deleteLeaf curr idx = some r) : AllClean r.1.nodes := by
  unfold Heap.deleteLeaf at hs
  simp only [bind, pure] at hs
  obtain ⟨ha, h1, hs⟩ := Option.bind_eq_some_iff.mp hs
  have c1 := step_clean hf hc h1
  obtain ⟨x', h2, hs⟩ := Option.bind_eq_some_iff.mp hs
  split at hs
  · simp at hs; subst hs; exact c1
  · obtain ⟨st, h3, hs⟩ := Option.bind_eq_some_iff.mp hs
    have c2 := steal_clean hf c1 h3
    split at hs <;> (simp at hs; subst hs; exact c2)

theorem deleteInner_clean (hf : ZeroingPresent) {h : Heap K V} (hc : AllClean h.nodes) {curr idx fuel : Nat}
    {x : SNode K V Nat} {r : Heap K V × Option Nat} (hs : h.deleteInner curr idx x fuel = some r) :
    AllClean r.1.nodes := by
  unfold Heap.deleteInner at hs
  simp only [bind, pure] at hs
  obtain ⟨c, h1, hs⟩ := Option.bind_eq_some_iff.mp hs
  obtain ⟨c', h2, hs⟩ := Option.bind_eq_some_iff.mp hs
  obtain ⟨lf, h3, hs⟩ := Option.bind_eq_some_iff.mp hs
  obtain ⟨lx, h4, hs⟩ := Option.bind_eq_some_iff.mp hs
  obtain ⟨rr, h5, hs⟩ := Option.bind_eq_some_iff.mp hs
  obtain ⟨ha, h6, hs⟩ := Option.bind_eq_some_iff.mp hs
  have c1 := step_clean hf hc h6
  obtain ⟨lx', h7, hs⟩ := Option.bind_eq_some_iff.mp hs
  obtain ⟨rk, h8, hs⟩ := Option.bind_eq_some_iff.mp hs
  obtain ⟨rv, h9, hs⟩ := Option.bind_eq_some_iff.mp hs
  obtain ⟨hb, h10, hs⟩ := Option.bind_eq_some_iff.mp hs
  have c2 := step_clean hf c1 h10
  split at hs
  · split at hs
    · simp at hs; subst hs; exact c2
    · obtain ⟨st, h11, hs⟩ := Option.bind_eq_some_iff.mp hs
      have c3 := steal_clean hf c2 h11
      split at hs <;> (simp at hs; subst hs; exact c3)
  · split at hs
    · simp at hs; subst hs; exact c2
    · simp at hs

theorem delete_clean (hf : ZeroingPresent) (cmp : K → K → Int) {h h' : Heap K V} (hc : AllClean h.nodes) {k : K}
    (hs : h.delete cmp k = some h') : AllClean h'.nodes := by
  unfold Heap.delete at hs
  simp only [bind, pure] at hs
  obtain ⟨d, h1, hs⟩ := Option.bind_eq_some_iff.mp hs
  split at hs
  · split at hs
    · simp at hs; subst hs; exact hc
    · cases hs
  · obtain ⟨x, h2, hs⟩ := Option.bind_eq_some_iff.mp hs
    obtain ⟨hl, h3, hs⟩ := Option.bind_eq_some_iff.mp hs
    have c1 : AllClean hl.1.nodes := by
      split at h3
      · exact deleteLeaf_clean hf (by simpa using hc) h3
      · exact deleteInner_clean hf (by simpa using hc) h3
    split at hs
    · simp at hs; subst hs; exact c1
    · split at hs
      · exact mergeFrom_clean hf _ c1 hs
      · simp at hs; subst hs; exact c1

theorem clean_empty : AllClean (Heap.empty : Heap K V).nodes := by
  intro x hx
  simp [Heap.empty] at hx
  subst hx
  exact clean_fresh

/-- every `Put` / `Delete` history of the heap model keeps every stored (= not unlinked) node clean -/
theorem runMuts_clean (hf : ZeroingPresent) (cmp : K → K → Int) : ∀ (ms : List (Heap.Mut K V)) {h h' : Heap K V},
    AllClean h.nodes → Heap.runMuts cmp h ms = some h' → AllClean h'.nodes
  | [], h, h', hc, hs => by simp [Heap.runMuts] at hs; subst hs; exact hc
  | .put k v :: ms, h, h', hc, hs => by
    simp only [Heap.runMuts] at hs
    obtain ⟨h1, hp, hs⟩ := Option.bind_eq_some_iff.mp hs
    exact runMuts_clean hf cmp ms (put_clean hf cmp hc hp) hs
  | .del k :: ms, h, h', hc, hs => by
    simp only [Heap.runMuts] at hs
    obtain ⟨h1, hp, hs⟩ := Option.bind_eq_some_iff.mp hs
    exact runMuts_clean hf cmp ms (delete_clean hf cmp hc hp) hs

end Juniper.Proofs.TreeSlotsOps
