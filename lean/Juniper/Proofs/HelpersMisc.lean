import Juniper.Proofs.HelpersBasic
import Juniper.Model.HelpersSort
import Juniper.Model.HelpersMisc
/-! `xslices.Shrink`, `xmath.Abs`, `xsort.LessCompare`, `xerrors.WithStack` (C19). -/
namespace Juniper.Proofs.Helpers
open Juniper.Model.Helpers Juniper.Spec.Helpers Juniper.Gen.Helpers

variable {α : Type}

/-! ## Shrink -/

seal Juniper.Facts.wrap64

open Juniper.Facts in
/-- `Shrink(s, n)`, `n ≥ 0`, in 64-bit arithmetic, for EVERY `int` `n` and every capacity an `int` can
hold: `cap(s)-len(s)` and — on the reallocating path — `len(s)+n` never leave the `int64` range. -/
theorem shrink_spec (zero : α) (s : List α) (cap n : Int) (hc : (s.length : Int) ≤ cap) (hn : 0 ≤ n)
    (hcap : cap ≤ 9223372036854775807) :
    ∃ c re, shrink zero s cap n = some (s, c, re) ∧ c ≤ s.length + n ∧ (s.length : Int) ≤ c ∧
      (cap ≤ s.length + n → c = cap ∧ re = false) ∧ (s.length + n < cap → c = s.length + n ∧ re = true) := by
  unfold shrink
  have eg : shrinkGuard cap (s.length : Int) n = decide (cap - (s.length : Int) > n) := by
    simp only [shrinkGuard]; rw [wrap64_of_range (by omega) (by omega)]
  simp only [eg, shrinkRetHi]
  by_cases hg : cap - (s.length : Int) > n
  · have em : shrinkMake (s.length : Int) n = (s.length : Int) + n := by
      simp only [shrinkMake]; rw [wrap64_of_range (by omega) (by omega)]
    have hm : ¬ ((s.length : Int) + n < 0) := by omega
    have hok : sliceOk 0 (s.length : Int) ((s.length : Int) + n) = true := by
      rw [sliceOk_iff]; omega
    simp only [hg, decide_true, ↓reduceIte, em, hm, hok, Bool.not_true, Bool.false_eq_true]
    have hng : ¬ (cap ≤ (s.length : Int) + n) := by omega
    refine ⟨(s.length : Int) + n, true, ?_, by omega, by omega, (by intro h; first | exact absurd h hng | exact h.elim), fun _ => ⟨rfl, rfl⟩⟩
    have e1 : ((s.length : Int) + n).toNat = s.length + n.toNat := by omega
    have e2 : ((s.length : Int)).toNat = s.length := by omega
    rw [e1, e2]
    congr 2
    rw [List.take_take, List.take_append_of_le_length (by omega)]
    simp
  · simp only [hg, decide_false, Bool.false_eq_true, ↓reduceIte]
    have hng : ¬ ((s.length : Int) + n < cap) := by omega
    exact ⟨cap, false, rfl, by omega, by omega, fun _ => ⟨rfl, rfl⟩, (by intro h; first | exact absurd h hng | exact h.elim)⟩

open Juniper.Facts in
/-- a negative `n` (every negative `int`, `MinInt64` included) makes `Shrink` panic: `make` with a
negative length, or `x2[:len(s)]` beyond the new slice's capacity -/
theorem shrink_negative_panics (zero : α) (s : List α) (cap n : Int) (hc : (s.length : Int) ≤ cap) (hn : n < 0)
    (hcap : cap ≤ 9223372036854775807) (hn' : -9223372036854775808 ≤ n) :
    shrink zero s cap n = none := by
  unfold shrink
  have eg : shrinkGuard cap (s.length : Int) n = true := by
    simp only [shrinkGuard]; rw [wrap64_of_range (by omega) (by omega)]; simp; omega
  have em : shrinkMake (s.length : Int) n = (s.length : Int) + n := by
    simp only [shrinkMake]; rw [wrap64_of_range (by omega) (by omega)]
  simp only [eg, em, shrinkRetHi, ↓reduceIte]
  by_cases hm : (s.length : Int) + n < 0
  · simp [hm]
  · have hok : sliceOk 0 (s.length : Int) ((s.length : Int) + n) = false := by
      cases h : sliceOk 0 (s.length : Int) ((s.length : Int) + n) with
      | false => rfl
      | true => rw [sliceOk_iff] at h; omega
    simp [hm, hok]

/-! ## Abs (fixed width two's complement; the generated function) -/

theorem abs_spec8 (x : BitVec 8) :
    (abs 8 x = none ↔ x = BitVec.intMin 8) ∧ (∀ y, abs 8 x = some y → y.toInt = (x.toInt.natAbs : Int)) := by
  unfold abs
  by_cases h1 : BitVec.slt x (BitVec.ofNat 8 0) = true
  · by_cases h2 : (-x == x) = true
    · simp only [h1, h2, if_true, true_iff, reduceCtorEq, false_imp_iff, implies_true, and_true]
      simp only [BitVec.slt, BitVec.toInt_eq_toNat_cond, beq_iff_eq, decide_eq_true_eq] at h1 h2
      bv_omega
    · simp only [h1, h2, if_true, if_false, reduceCtorEq, false_iff, Option.some.injEq, Bool.false_eq_true]
      simp only [BitVec.slt, BitVec.toInt_eq_toNat_cond, beq_iff_eq, decide_eq_true_eq] at h1 h2
      refine ⟨by bv_omega, ?_⟩
      intro y hy; subst hy
      simp only [BitVec.toInt_eq_toNat_cond]
      bv_omega
  · simp only [h1, if_false, reduceCtorEq, false_iff, Option.some.injEq, Bool.false_eq_true]
    simp only [BitVec.slt, BitVec.toInt_eq_toNat_cond, decide_eq_true_eq] at h1
    refine ⟨by bv_omega, ?_⟩
    intro y hy; subst hy
    simp only [BitVec.toInt_eq_toNat_cond]
    bv_omega

theorem abs_spec16 (x : BitVec 16) :
    (abs 16 x = none ↔ x = BitVec.intMin 16) ∧ (∀ y, abs 16 x = some y → y.toInt = (x.toInt.natAbs : Int)) := by
  unfold abs
  by_cases h1 : BitVec.slt x (BitVec.ofNat 16 0) = true
  · by_cases h2 : (-x == x) = true
    · simp only [h1, h2, if_true, true_iff, reduceCtorEq, false_imp_iff, implies_true, and_true]
      simp only [BitVec.slt, BitVec.toInt_eq_toNat_cond, beq_iff_eq, decide_eq_true_eq] at h1 h2
      bv_omega
    · simp only [h1, h2, if_true, if_false, reduceCtorEq, false_iff, Option.some.injEq, Bool.false_eq_true]
      simp only [BitVec.slt, BitVec.toInt_eq_toNat_cond, beq_iff_eq, decide_eq_true_eq] at h1 h2
      refine ⟨by bv_omega, ?_⟩
      intro y hy; subst hy
      simp only [BitVec.toInt_eq_toNat_cond]
      bv_omega
  · simp only [h1, if_false, reduceCtorEq, false_iff, Option.some.injEq, Bool.false_eq_true]
    simp only [BitVec.slt, BitVec.toInt_eq_toNat_cond, decide_eq_true_eq] at h1
    refine ⟨by bv_omega, ?_⟩
    intro y hy; subst hy
    simp only [BitVec.toInt_eq_toNat_cond]
    bv_omega

theorem abs_spec32 (x : BitVec 32) :
    (abs 32 x = none ↔ x = BitVec.intMin 32) ∧ (∀ y, abs 32 x = some y → y.toInt = (x.toInt.natAbs : Int)) := by
  unfold abs
  by_cases h1 : BitVec.slt x (BitVec.ofNat 32 0) = true
  · by_cases h2 : (-x == x) = true
    · simp only [h1, h2, if_true, true_iff, reduceCtorEq, false_imp_iff, implies_true, and_true]
      simp only [BitVec.slt, BitVec.toInt_eq_toNat_cond, beq_iff_eq, decide_eq_true_eq] at h1 h2
      bv_omega
    · simp only [h1, h2, if_true, if_false, reduceCtorEq, false_iff, Option.some.injEq, Bool.false_eq_true]
      simp only [BitVec.slt, BitVec.toInt_eq_toNat_cond, beq_iff_eq, decide_eq_true_eq] at h1 h2
      refine ⟨by bv_omega, ?_⟩
      intro y hy; subst hy
      simp only [BitVec.toInt_eq_toNat_cond]
      bv_omega
  · simp only [h1, if_false, reduceCtorEq, false_iff, Option.some.injEq, Bool.false_eq_true]
    simp only [BitVec.slt, BitVec.toInt_eq_toNat_cond, decide_eq_true_eq] at h1
    refine ⟨by bv_omega, ?_⟩
    intro y hy; subst hy
    simp only [BitVec.toInt_eq_toNat_cond]
    bv_omega

theorem abs_spec64 (x : BitVec 64) :
    (abs 64 x = none ↔ x = BitVec.intMin 64) ∧ (∀ y, abs 64 x = some y → y.toInt = (x.toInt.natAbs : Int)) := by
  unfold abs
  by_cases h1 : BitVec.slt x (BitVec.ofNat 64 0) = true
  · by_cases h2 : (-x == x) = true
    · simp only [h1, h2, if_true, true_iff, reduceCtorEq, false_imp_iff, implies_true, and_true]
      simp only [BitVec.slt, BitVec.toInt_eq_toNat_cond, beq_iff_eq, decide_eq_true_eq] at h1 h2
      bv_omega
    · simp only [h1, h2, if_true, if_false, reduceCtorEq, false_iff, Option.some.injEq, Bool.false_eq_true]
      simp only [BitVec.slt, BitVec.toInt_eq_toNat_cond, beq_iff_eq, decide_eq_true_eq] at h1 h2
      refine ⟨by bv_omega, ?_⟩
      intro y hy; subst hy
      simp only [BitVec.toInt_eq_toNat_cond]
      bv_omega
  · simp only [h1, if_false, reduceCtorEq, false_iff, Option.some.injEq, Bool.false_eq_true]
    simp only [BitVec.slt, BitVec.toInt_eq_toNat_cond, decide_eq_true_eq] at h1
    refine ⟨by bv_omega, ?_⟩
    intro y hy; subst hy
    simp only [BitVec.toInt_eq_toNat_cond]
    bv_omega

/-! ## LessCompare -/

theorem sw_asymm {less : α → α → Bool} (hw : StrictWeak less) {a b : α} (h : less a b = true) :
    less b a = false := by
  cases hba : less b a with
  | false => rfl
  | true => have := hw.trans a b a h hba; rw [hw.irrefl a] at this; cases this

theorem lessCompare_spec (less : α → α → Bool) (hw : StrictWeak less) (a b : α) :
    (lessCompareOf less a b < 0 ↔ less a b = true) ∧ (lessCompareOf less a b > 0 ↔ less b a = true) ∧
    (lessCompareOf less a b = 0 ↔ (less a b = false ∧ less b a = false)) ∧
    lessCompareOf less a b = - lessCompareOf less b a := by
  unfold lessCompareOf lessCompare
  cases hab : less a b <;> cases hba : less b a <;> simp
  exact absurd (sw_asymm hw hab) (by simp [hba])

/-! ## WithStack -/

/-- some error in the chain is a `withStack` -/
def hasStack (e : Err) : Bool := e.chain.any Err.isStack

theorem chain_ne_nil (e : Err) : e.chain ≠ [] := by cases e <;> simp [Err.chain]

theorem as_stack_isSome (e : Err) (h : wsHasAsMethod = false) :
    (e.as .stackTy).isSome = hasStack e := by
  unfold Err.as hasStack
  simp only [h, Bool.false_eq_true, ↓reduceIte]
  rw [Bool.eq_iff_iff]
  simp only [List.find?_isSome, List.any_eq_true, decide_eq_true_eq]
  constructor
  · rintro ⟨x, hx, hty⟩
    refine ⟨x, hx, ?_⟩
    cases x <;> simp_all [Err.ty, Err.isStack]
  · rintro ⟨x, hx, hst⟩
    refine ⟨x, hx, ?_⟩
    cases x <;> simp_all [Err.ty, Err.isStack]

theorem wsDetects_eq (e : Err) (hd : wsDetect = "as") (h : wsHasAsMethod = false) :
    wsDetects e = hasStack e := by
  unfold wsDetects
  simp only [hd, ↓reduceIte]
  exact as_stack_isSome e h

theorem hasStack_stack (e : Err) : hasStack (.stack e) = true := by
  simp [hasStack, Err.chain, Err.isStack]

theorem withStack_some (e : Err)
    (hd : wsDetect = "as") (h : wsHasAsMethod = false)
    (h1 : wsNilGuard false = false) (h2 : wsDetectedReturnsErr = true)
    (h3 : wsWrapsErr = true) :
    withStack (some e) = if hasStack e then some e else some (.stack e) := by
  simp only [withStack, wsDetects_eq e hd h, h1, h2, h3, Bool.false_and, Bool.and_true, Bool.false_eq_true, ↓reduceIte]

end Juniper.Proofs.Helpers
