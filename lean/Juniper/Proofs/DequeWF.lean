import Juniper.Proofs.DequeIter
/-!
# The representation invariant `WF` and what it means slot by slot (helpers for C04, C15)
-/
namespace Juniper.Proofs.Deque
open Juniper.Gen.Deque Juniper.Model.Deque
open Juniper.Spec.Deque (Op Out Obs SnapshotOrPanic)
variable {α : Type}

/-- Representation invariant: the ring state represents its own abstract contents. Spelled out
slot by slot in `WF.bounds`, `WF.dead_slots_none`, `WF.live_slots`. -/
def WF (d : Deque α) : Prop := Rep d (contents d)

theorem Rep.wf {d : Deque α} {l : List α} (h : Rep d l) : WF d := by
  unfold WF; rw [h.contents_eq]; exact h

theorem wf_iff (d : Deque α) : WF d ↔ ∃ l, Rep d l :=
  ⟨fun h => ⟨_, h⟩, fun ⟨_, h⟩ => h.wf⟩

theorem WF.len_eq {d : Deque α} (h : WF d) : len d = (contents d).length := Rep.len_eq h

/-- The field constraints of a well-formed state. -/
theorem WF.bounds {d : Deque α} (h : WF d) :
    (d.isNil = true → d.a = [] ∧ d.front = 0 ∧ d.back = 0) ∧
    (d.isNil = false →
      0 ≤ d.front ∧ (d.front < cap d ∨ (cap d = 0 ∧ d.front = 0)) ∧
      -1 ≤ d.back ∧ (d.back < cap d ∨ (cap d = 0 ∧ d.back = -1)) ∧ (d.back = -1 → d.front = 0)) ∧
    0 ≤ len d ∧ len d ≤ cap d := by
  have hlen := h.len_eq
  have hle := Rep.len_le h
  have hf0 := Rep.front_nonneg h
  have hfl := Rep.front_lt h
  refine ⟨?_, ?_, by omega, by omega⟩
  · intro hn
    obtain ⟨ha, hb⟩ := Rep.nil_a h hn
    have : contents d = [] := by
      apply List.eq_nil_of_length_eq_zero
      simp only [cap, ha, List.length_nil] at hle; omega
    exact ⟨ha, Rep.front_empty h this, hb⟩
  · intro hn
    by_cases hl : contents d = []
    · have hb := Rep.back_empty h hl hn
      have hf := Rep.front_empty h hl
      have := cap_nonneg d
      refine ⟨hf0, by omega, by omega, by omega, fun _ => hf⟩
    · have ⟨hb0, hb1⟩ := Rep.back_bounds h hl
      exact ⟨hf0, by omega, by omega, by omega, fun hb => by omega⟩

/-- Raw slot `j` lies outside the live window `[front .. back]` (taken around the ring). -/
def Dead (d : Deque α) (j : Int) : Prop :=
  len d = 0 ∨ (d.front ≤ d.back ∧ (j < d.front ∨ d.back < j)) ∨
    (d.back < d.front ∧ d.back < j ∧ j < d.front)

/-- Every slot outside the live window holds the zero value: nothing popped is retained. -/
theorem WF.dead_slots_none {d : Deque α} (h : WF d) (j : Nat) (hj : j < d.a.length)
    (hdead : Dead d j) : d.a[j]? = some none := by
  have hlen := h.len_eq
  have hle := Rep.len_le h
  have hc : 0 < cap d := by unfold cap; omega
  have hf0 := Rep.front_nonneg h
  have hf1 := Rep.front_lt_cap h hc
  obtain ⟨k, hk, hkj⟩ := ridx_surj hf0 hf1 j (by unfold cap; omega)
  have hcell := Rep.cells h k hk
  rw [hkj, slot_natCast] at hcell
  rw [hcell]
  have hrk := ridx_cases d.front (cap d) k
  suffices hge : (contents d).length ≤ k by rw [List.getElem?_eq_none hge]
  by_cases hl : contents d = []
  · simp [hl]
  · have hb := Rep.back_nonempty h hl
    have hp := Rep.length_pos hl
    have hrb := ridx_cases d.front (cap d) (((contents d).length : Int) - 1)
    unfold Dead at hdead
    omega

/-- Ring position `k` of the live window holds the `k`-th element. -/
theorem WF.live_slots {d : Deque α} (h : WF d) (k : Nat) (hk : k < (contents d).length) :
    slot d.a (ridx d.front (cap d) k) = some (some (contents d)[k]) := by
  have hle := Rep.len_le h
  rw [Rep.cells h k (by omega), List.getElem?_eq_getElem hk]

/-- Output of the ideal sequence is `panic` exactly when the guard says so. -/
theorem spec_step_panic_iff (l : List α) (o : Op α) :
    (Spec.Deque.step l o).2 = .panic ↔ Spec.Deque.panics l o = true := by
  constructor
  · intro h
    cases hp : Spec.Deque.panics l o with
    | true => rfl
    | false =>
      exfalso
      cases o <;> simp [Spec.Deque.step, hp] at h
  · intro hp; simp [Spec.Deque.step, hp]

/-- `n` `Next` calls from position `p` on an untouched deque. -/
theorem IterAt.nexts {d : Deque α} {l : List α} (h : Rep d l) :
    ∀ (n : Nat) (it : Iter) (p : Nat), IterAt d l it p →
      (nexts d it n).2 = ((l.drop p).take n).map (fun x => Obs.item (some x))
          ++ List.replicate (n - (l.length - p)) Obs.done ∧
      IterAt d l (nexts d it n).1 (min (p + n) l.length) := by
  intro n
  induction n with
  | zero =>
    intro it p hi
    have := hi.le
    simp only [Model.Deque.nexts, List.take_zero, List.map_nil, Nat.zero_sub, List.replicate_zero,
      List.append_nil, Nat.add_zero, true_and]
    rw [Nat.min_eq_left this]; exact hi
  | succ n ih =>
    intro it p hi
    simp only [Model.Deque.nexts]
    by_cases hp : p < l.length
    · obtain ⟨ho, hi'⟩ := hi.nextObs_item h hp
      obtain ⟨h1, h2⟩ := ih _ (p + 1) hi'
      rw [ho, h1]
      refine ⟨?_, ?_⟩
      · rw [List.drop_eq_getElem_cons hp, List.take_succ_cons, List.map_cons, List.cons_append]
        have : n + 1 - (l.length - p) = n - (l.length - (p + 1)) := by omega
        rw [this]
      · have : min (p + (n + 1)) l.length = min (p + 1 + n) l.length := by
          congr 1; omega
        rw [this]; exact h2
    · have hpe : p = l.length := by have := hi.le; omega
      subst hpe
      rw [hi.nextObs_done h]
      obtain ⟨h1, h2⟩ := ih it l.length hi
      simp only at h1 h2 ⊢
      rw [h1]
      refine ⟨?_, ?_⟩
      · simp only [List.drop_length, List.take_nil, List.map_nil, List.nil_append, Nat.sub_self,
          Nat.sub_zero]
        rfl
      · have e1 : min (l.length + n) l.length = l.length := by omega
        have e2 : min (l.length + (n + 1)) l.length = l.length := by omega
        rw [e1] at h2; rw [e2]; exact h2

/-! ## an iterator observed while the deque is only read (audit C15-F6) -/

/-- the calls that only read: `Front`, `Back`, `Item`, `Len`, draining another iterator -/
def readsOnly : Op α → Bool
  | .front | .back | .item _ | .len | .iterate => true
  | _ => false

/-- a call that leaves the deque as it is: a read, or a call that panics (empty `Pop*`, `Set` outside the range,
`Shrink` of a negative amount) -/
def Quiet (l : List α) (o : Op α) : Prop := readsOnly o = true ∨ Spec.Deque.panics l o = true

/-- a read returns the state it was given, whatever that state is -/
theorem applyOp_readsOnly (d : Deque α) (o : Op α) (h : readsOnly o = true) : (applyOp d o).1 = d := by
  cases o <;> simp only [readsOnly, Bool.false_eq_true] at h
  · simp only [applyOp, Model.Deque.frontOf]; split
    · rfl
    · split <;> rfl
  · simp only [applyOp, Model.Deque.backOf]; split <;> rfl
  · simp only [applyOp, Model.Deque.item]; split
    · rfl
    · split
      · rfl
      · split <;> rfl
  · rfl
  · rfl

theorem Rep.applyOp_quiet {d : Deque α} {l : List α} (h : Rep d l) (hc : ClearFacts) {o : Op α}
    (hq : Quiet l o) : (Model.Deque.applyOp d o).1 = d := by
  rcases hq with hq | hq
  · exact applyOp_readsOnly d o hq
  · exact (Rep.applyOp h o hc).2.2.2 hq

/-- number of `Next` events -/
def nextCount : List (Ev α) → Nat
  | [] => 0
  | .next :: es => nextCount es + 1
  | .op _ :: es => nextCount es

/-- while every interleaved call leaves the state as it is, the iterator sees what back-to-back `Next`s see -/
theorem runEv_untouched (d : Deque α) : ∀ (es : List (Ev α)) (it : Iter),
    (∀ o, Ev.op o ∈ es → (applyOp d o).1 = d) → runEv d it es = (nexts d it (nextCount es)).2 := by
  intro es
  induction es with
  | nil => intro it _; rfl
  | cons e es ih =>
    intro it hq
    cases e with
    | op o =>
      simp only [Model.Deque.runEv, nextCount, hq o (by simp)]
      exact ih it (fun o' ho' => hq o' (by simp [ho']))
    | next =>
      simp only [Model.Deque.runEv, nextCount, Model.Deque.nexts]
      rw [ih _ (fun o' ho' => hq o' (by simp [ho']))]

end Juniper.Proofs.Deque
