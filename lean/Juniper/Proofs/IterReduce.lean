import Juniper.Proofs.IterComb
import Juniper.Proofs.IterGuards
/-!
# Reducers of `iterator.go` (C07): Reduce, Collect, One, Equal
-/
namespace Juniper.Proofs.IterDen
open Juniper.Model.Iter Juniper.Spec Juniper.Gen.Comb
universe u v w
variable {σ : Type u} {α β : Type v}

theorem reduce_succ (m : IM σ α) (f : β → α → β) (fuel : Nat) (acc : β) (s : σ) :
    reduce m f (fuel + 1) acc s = match m.step s with
      | (.item a, s') => reduce m f fuel (f acc a) s'
      | (.skip, s') => reduce m f fuel acc s'
      | (.done, s') => (some acc, s') := rfl

/-- `Reduce` folds the denoted list (for every sufficiently large fuel) and leaves an ended iterator. -/
theorem reduce_den {m : IM σ α} {cost : σ → Nat} {s : σ} {L : List (α × Nat)} {e : Nat} (f : β → α → β)
    (h : Den m cost s L e) :
    ∃ F, ∀ fuel, F ≤ fuel → ∀ acc, (reduce m f fuel acc s).1 = some ((L.map Prod.fst).foldl f acc) ∧
      Ended m (reduce m f fuel acc s).2 := by
  have _tie := Skeleton.Tie.itReduce
  induction h with
  | skip hs _ ih =>
    obtain ⟨F, hF⟩ := ih
    refine ⟨F + 1, fun fuel hf acc => ?_⟩
    obtain ⟨g, rfl⟩ : ∃ g, fuel = g + 1 := ⟨fuel - 1, by omega⟩
    rw [reduce_succ, hs]
    exact hF g (by omega) acc
  | item hs _ ih =>
    obtain ⟨F, hF⟩ := ih
    refine ⟨F + 1, fun fuel hf acc => ?_⟩
    obtain ⟨g, rfl⟩ : ∃ g, fuel = g + 1 := ⟨fuel - 1, by omega⟩
    rw [reduce_succ, hs]
    simpa using hF g (by omega) _
  | done hs he _ =>
    refine ⟨1, fun fuel hf acc => ?_⟩
    obtain ⟨g, rfl⟩ : ∃ g, fuel = g + 1 := ⟨fuel - 1, by omega⟩
    rw [reduce_succ, hs]
    exact ⟨rfl, he⟩

theorem foldl_snoc (l : List α) (acc : List α) : l.foldl (fun (acc : List α) a => acc ++ [a]) acc = acc ++ l := by
  induction l generalizing acc with
  | nil => simp
  | cons a l ih => simp [ih]

/-- `Collect` returns the denoted list. -/
theorem collect_den {m : IM σ α} {cost : σ → Nat} {s : σ} {L : List (α × Nat)} {e : Nat}
    (h : Den m cost s L e) :
    ∃ F, ∀ fuel, F ≤ fuel → (collect m fuel s).1 = some (L.map Prod.fst) := by
  have _tie := Skeleton.Tie.itCollect
  obtain ⟨F, hF⟩ := reduce_den (fun (acc : List α) a => acc ++ [a]) h
  refine ⟨F, fun fuel hf => ?_⟩
  have := (hF fuel hf []).1
  rw [foldl_snoc, List.nil_append] at this
  exact this

/-- consumer-level `Next` on a denoting state: either the end (and the list is empty) or the head,
leaving a state that denotes the tail; the cost afterwards is the annotation -/
theorem drive_den {m : IM σ α} {cost : σ → Nat} {s : σ} {L : List (α × Nat)} {e : Nat}
    (h : Den m cost s L e) :
    ∃ F, ∀ fuel, F ≤ fuel →
      match L with
      | [] => (drive m fuel s).1 = some none ∧ Ended m (drive m fuel s).2 ∧ cost (drive m fuel s).2 = e
      | p :: L' => (drive m fuel s).1 = some (some p.1) ∧ Den m cost (drive m fuel s).2 L' e ∧
          cost (drive m fuel s).2 = p.2 := by
  induction h with
  | @skip s s' L e hs _ ih =>
    obtain ⟨F, hF⟩ := ih
    refine ⟨F + 1, fun fuel hf => ?_⟩
    obtain ⟨g, rfl⟩ : ∃ g, fuel = g + 1 := ⟨fuel - 1, by omega⟩
    rw [drive_succ, hs]
    exact hF g (by omega)
  | @item s s' a L e hs h' _ =>
    refine ⟨1, fun fuel hf => ?_⟩
    obtain ⟨g, rfl⟩ : ∃ g, fuel = g + 1 := ⟨fuel - 1, by omega⟩
    rw [drive_succ, hs]
    exact ⟨rfl, h', rfl⟩
  | done hs he _ =>
    refine ⟨1, fun fuel hf => ?_⟩
    obtain ⟨g, rfl⟩ : ∃ g, fuel = g + 1 := ⟨fuel - 1, by omega⟩
    rw [drive_succ, hs]
    exact ⟨rfl, he, rfl⟩

theorem drive_ended {m : IM σ α} {s : σ} (he : Ended m s) (fuel : Nat) (hf : 1 ≤ fuel) :
    (drive m fuel s).1 = some none ∧ Ended m (drive m fuel s).2 := by
  obtain ⟨g, rfl⟩ : ∃ g, fuel = g + 1 := ⟨fuel - 1, by omega⟩
  obtain ⟨s', hs, he'⟩ := Ended.step' he
  rw [drive_succ, hs]
  exact ⟨rfl, he'⟩

/-- `One`: the item iff the denoted list has exactly one. -/
theorem one_den {m : IM σ α} {cost : σ → Nat} {s : σ} {L : List (α × Nat)} {e : Nat}
    (h : Den m cost s L e) :
    ∃ F, ∀ fuel, F ≤ fuel → (one m fuel s).1 = some (match L.map Prod.fst with | [a] => some a | _ => none) := by
  have _tie := Skeleton.Tie.itOne
  obtain ⟨F1, h1⟩ := drive_den h
  cases L with
  | nil =>
    refine ⟨F1, fun fuel hf => ?_⟩
    have := h1 fuel hf
    simp only at this
    simp only [one_eq, List.map_nil]
    rcases hd : drive m fuel s with ⟨r, s1⟩
    rw [hd] at this
    simp only at this
    rw [this.1]
  | cons p L' =>
    -- the second Next depends on the state reached by the first; take the maximum of the fuels needed
    have key : ∀ fuel, F1 ≤ fuel → ∃ F2, ∀ fuel2, F2 ≤ fuel2 →
        match L' with
        | [] => (drive m fuel2 (drive m fuel s).2).1 = some none
        | q :: _ => (drive m fuel2 (drive m fuel s).2).1 = some (some q.1) := by
      intro fuel hf
      have := (h1 fuel hf)
      simp only at this
      obtain ⟨F2, h2⟩ := drive_den this.2.1
      refine ⟨F2, fun fuel2 hf2 => ?_⟩
      have := h2 fuel2 hf2
      cases L' with
      | nil => exact this.1
      | cons q L'' => exact this.1
    -- the state after the first Next does not depend on the fuel (monotonicity), so fix it at F1
    obtain ⟨F2, h2⟩ := key F1 (Nat.le_refl _)
    refine ⟨max F1 F2, fun fuel hf => ?_⟩
    have hF1 := h1 F1 (Nat.le_refl _)
    simp only at hF1
    have hmono : drive m fuel s = drive m F1 s := by
      have e1 : drive m F1 s = (some (some p.1), (drive m F1 s).2) := by rw [← hF1.1]
      rw [e1]
      exact drive_mono e1 fuel (by omega)
    have h3 := h2 fuel (by omega)
    simp only [one_eq, hmono]
    rcases hd : drive m F1 s with ⟨r, s1⟩
    rw [hd] at hF1 h3
    simp only at hF1 h3
    rw [hF1.1]
    simp only
    cases L' with
    | nil =>
      simp only at h3
      rcases hd2 : drive m fuel s1 with ⟨r2, s2⟩
      rw [hd2] at h3
      simp only at h3
      rw [h3]
      simp
    | cons q L'' =>
      simp only at h3
      rcases hd2 : drive m fuel s1 with ⟨r2, s2⟩
      rw [hd2] at h3
      simp only at h3
      rw [h3]
      simp

end Juniper.Proofs.IterDen
