import Juniper.Proofs.TreeSlotsOps
/-!
# Slot-level lemmas (C03 "no retained garbage"): the node-level operations

`NodeRep x kvs kids`: the three arrays of the node `x` represent (`Rep`) the entries `kvs` and the
children `kids`, `x.n` is the number of entries. Every node-level operation of
`Model/BTreeSlotsOps.lean` maps `NodeRep` to `NodeRep` of the list-level result, provided the zeroing /
clearing / shifting statements are present in the source (hypotheses = generated presence facts).
-/
namespace Juniper.Proofs.TreeSlotsOps
open Juniper.Model.BTreeSlotsOps Juniper.Gen
variable {K V C : Type}

/-- the node `x` holds exactly the entries `kvs` and the children `kids` in the live prefixes of its
three arrays, and every other slot is zero -/
structure NodeRep (x : SNode K V C) (kvs : List (K × V)) (kids : List C) : Prop where
  hn : x.n = (kvs.length : Int)
  hkeys : Rep x.keys keysCap (kvs.map (·.1))
  hvals : Rep x.vals valuesCap (kvs.map (·.2))
  hkids : Rep x.kids childrenCap kids
  hshape : kids = [] ∨ kids.length = kvs.length + 1

theorem caps : valuesCap = keysCap ∧ childrenCap = keysCap + 1 := by decide

theorem leafInsert_rep {x : SNode K V C} {kvs : List (K × V)} (h : NodeRep x kvs [])
    {idx : Nat} (hidx : idx ≤ kvs.length) (hroom : kvs.length < keysCap) (k : K) (v : V)
    (hb : TreeSlots.leafInsertBumpsN = true) :
    ∃ x', leafInsert x idx k v = some x' ∧ NodeRep x' (kvs.take idx ++ (k, v) :: kvs.drop idx) [] := by
  obtain ⟨hn, hk, hv, hc, hs⟩ := h
  have hcap := caps
  have e1 : toIdx (TreeSlots.leafInsertKeysHi x.n) = some (kvs.length + 1) :=
    toIdx_eq (by simp [TreeSlots.leafInsertKeysHi, hn])
  have e2 : toIdx (TreeSlots.leafInsertValuesHi x.n) = some (kvs.length + 1) :=
    toIdx_eq (by simp [TreeSlots.leafInsertValuesHi, hn])
  obtain ⟨a1, h1, r1⟩ := rep_insertOne hk (hi := kvs.length + 1) (idx := idx) (by simpa using hidx) (by simp) (by omega) k
  obtain ⟨a2, h2, r2⟩ := rep_insertOne hv (hi := kvs.length + 1) (idx := idx) (by simpa using hidx) (by simp) (by omega) v
  have hlk := hk.length
  have hlv := hv.length
  refine ⟨{ x with keys := a1, vals := a2, n := x.n + 1 }, ?_, ?_⟩
  · have c1 : kvs.length + 1 ≤ x.keys.length := by omega
    have c2 : kvs.length + 1 ≤ x.vals.length := by omega
    simp [leafInsert, e1, e2, h1, h2, hb, bumpIf, c1, c2]
  · refine ⟨by simp [hn]; omega, ?_, ?_, hc, Or.inl rfl⟩
    · simpa [List.map_take, List.map_drop] using r1
    · simpa [List.map_take, List.map_drop] using r2


theorem split_at {β : Type} (l : List β) {i : Nat} (h : i < l.length) :
    l = l.take i ++ l[i] :: l.drop (i + 1) := by
  rw [← List.drop_eq_getElem_cons h, List.take_append_drop]

theorem length_replace {β : Type} (l : List β) {i : Nat} (h : i < l.length) (x : β) :
    (l.take i ++ x :: l.drop (i + 1)).length = l.length := by
  simp; omega

theorem setValue_rep {x : SNode K V C} {kvs : List (K × V)} {kids : List C} (h : NodeRep x kvs kids)
    {idx : Nat} (hidx : idx < kvs.length) (v : V) :
    ∃ x', setValue x idx v = some x' ∧
      NodeRep x' (kvs.take idx ++ ((kvs[idx]).1, v) :: kvs.drop (idx + 1)) kids := by
  obtain ⟨hn, hk, hv, hc, hs⟩ := h
  obtain ⟨a2, h2, r2⟩ := rep_setSlot_replace hv (i := idx) (by simpa using hidx) v
  refine ⟨{ x with vals := a2 }, by simp [setValue, h2], ?_⟩
  refine ⟨by rw [length_replace _ hidx]; exact hn, ?_, ?_, hc, by rw [length_replace _ hidx]; exact hs⟩
  · have : (kvs.take idx ++ ((kvs[idx]).1, v) :: kvs.drop (idx + 1)).map (·.1) = kvs.map (·.1) := by
      have e := congrArg (List.map (·.1)) (split_at kvs hidx)
      rw [List.map_append, List.map_cons] at e ⊢
      exact e.symm
    rw [this]; exact hk
  · simpa [List.map_take, List.map_drop] using r2

theorem replaceEntry_rep {x : SNode K V C} {kvs : List (K × V)} {kids : List C} (h : NodeRep x kvs kids)
    {idx : Nat} (hidx : idx < kvs.length) (k : K) (v : V) :
    ∃ x', replaceEntry x idx (some k) (some v) = some x' ∧
      NodeRep x' (kvs.take idx ++ (k, v) :: kvs.drop (idx + 1)) kids := by
  obtain ⟨hn, hk, hv, hc, hs⟩ := h
  obtain ⟨a1, h1, r1⟩ := rep_setSlot_replace hk (i := idx) (by simpa using hidx) k
  obtain ⟨a2, h2, r2⟩ := rep_setSlot_replace hv (i := idx) (by simpa using hidx) v
  refine ⟨{ x with keys := a1, vals := a2 }, by simp [replaceEntry, h1, h2], ?_⟩
  refine ⟨by rw [length_replace _ hidx]; exact hn, ?_, ?_, hc, by rw [length_replace _ hidx]; exact hs⟩
  · simpa [List.map_take, List.map_drop] using r1
  · simpa [List.map_take, List.map_drop] using r2

theorem leafRemove_rep {x : SNode K V C} {kvs : List (K × V)} (h : NodeRep x kvs [])
    {idx : Nat} (hidx : idx < kvs.length)
    (hs : TreeSlots.removeOneShifts = true) (hz : TreeSlots.removeOneZeroesLast = true)
    (hrk : TreeSlots.leafRemoveShiftsKeys = true) (hrv : TreeSlots.leafRemoveShiftsValues = true)
    (hd : TreeSlots.leafRemoveDecN = true) :
    ∃ x', leafRemove x idx = some x' ∧ NodeRep x' (kvs.take idx ++ kvs.drop (idx + 1)) [] := by
  obtain ⟨hn, hk, hv, hc, _⟩ := h
  have hcap := caps
  have hkc := hk.2
  have hvc := hv.2
  simp only [List.length_map] at hkc hvc
  obtain ⟨a1, h1, r1⟩ := rep_removeOne hk (hi := kvs.length) (idx := idx) (by simpa using hidx) (by simp) hkc hs hz
  obtain ⟨a2, h2, r2⟩ := rep_removeOne hv (hi := kvs.length) (idx := idx) (by simpa using hidx) (by simp) hvc hs hz
  refine ⟨{ x with keys := a1, vals := a2, n := x.n + -1 }, ?_, ?_⟩
  · simp [leafRemove, hn, h1, h2, hrk, hrv, hd, bumpIf]
  · refine ⟨by simp [hn]; omega, ?_, ?_, hc, Or.inl rfl⟩
    · simpa [List.map_take, List.map_drop] using r1
    · simpa [List.map_take, List.map_drop] using r2

theorem removeRightmostAt_rep {x : SNode K V C} {kvs : List (K × V)} (h : NodeRep x kvs [])
    (hne : kvs ≠ [])
    (hzk : TreeSlots.removeRightmostZeroesKey = true) (hzv : TreeSlots.removeRightmostZeroesValue = true)
    (hd : TreeSlots.removeRightmostDecN = true) :
    ∃ x', removeRightmostAt x = some (some (kvs.getLast hne).1, some (kvs.getLast hne).2, x') ∧
      NodeRep x' kvs.dropLast [] := by
  obtain ⟨hn, hk, hv, hc, _⟩ := h
  have hpos : 0 < kvs.length := List.length_pos_iff.mpr hne
  have e1 : toIdx (TreeSlots.removeRightmostIdx x.n) = some (kvs.length - 1) :=
    toIdx_eq (by simp [TreeSlots.removeRightmostIdx, hn]; omega)
  have e2 : toIdx (x.n - 1) = some (kvs.length - 1) := toIdx_eq (by rw [hn]; omega)
  have g1 := hk.get_live (i := kvs.length - 1) (by simp; omega)
  have g2 := hv.get_live (i := kvs.length - 1) (by simp; omega)
  obtain ⟨a1, h1, r1⟩ := rep_setSlot_clearLast hk (by simpa using hpos)
  obtain ⟨a2, h2, r2⟩ := rep_setSlot_clearLast hv (by simpa using hpos)
  simp only [List.length_map] at h1 h2
  refine ⟨{ x with keys := a1, vals := a2, n := x.n + -1 }, ?_, ?_⟩
  · simp [removeRightmostAt, e1, e2, g1, g2, h1, h2, hzk, hzv, hd, bumpIf, List.getLast_eq_getElem]
  · refine ⟨by simp [hn]; omega, ?_, ?_, hc, Or.inl rfl⟩
    · simpa [List.map_dropLast] using r1
    · simpa [List.map_dropLast] using r2


theorem caps_pos : 0 < keysCap ∧ 0 < valuesCap ∧ 1 < childrenCap := by decide

theorem newRootNode_rep (k : K) (v : V) (l r : C) :
    ∃ x' : SNode K V C, newRootNode (some k) (some v) l r = some x' ∧ NodeRep x' [(k, v)] [l, r] := by
  obtain ⟨c1, c2, c3⟩ := caps_pos
  obtain ⟨a1, h1, r1⟩ := rep_setSlot_append (rep_nil (α := K) keysCap) (by simpa using c1) k
  obtain ⟨a2, h2, r2⟩ := rep_setSlot_append (rep_nil (α := V) valuesCap) (by simpa using c2) v
  obtain ⟨a3, h3, r3⟩ := rep_setSlot_append (rep_nil (α := C) childrenCap) (by simp; omega) l
  obtain ⟨a4, h4, r4⟩ := rep_setSlot_append r3 (by simp; omega) r
  simp only [List.length_nil, List.nil_append, List.length_cons] at h1 h2 h3 h4
  refine ⟨{ (SNode.fresh : SNode K V C) with n := 1, keys := a1, vals := a2, kids := a4 }, ?_, ?_⟩
  · simp [newRootNode, SNode.fresh, h1, h2, h3, h4]
  · exact ⟨by simp, by simpa using r1, by simpa using r2, by simpa using r4, Or.inr (by simp)⟩

theorem parentInsert_rep {p : SNode K V C} {kvs : List (K × V)} {kids : List C} (h : NodeRep p kvs kids)
    (hint : kids.length = kvs.length + 1) {idx : Nat} (hidx : idx ≤ kvs.length) (hroom : kvs.length < keysCap)
    (k : K) (v : V) (r : C) (hb : TreeSlots.parentInsertBumpsN = true) :
    ∃ p', parentInsert p idx (some k) (some v) r = some p' ∧
      NodeRep p' (kvs.take idx ++ (k, v) :: kvs.drop idx) (kids.take (idx + 1) ++ r :: kids.drop (idx + 1)) := by
  obtain ⟨hn, hk, hv, hc, hs⟩ := h
  obtain ⟨cv, cc⟩ := caps
  have e1 : toIdx (TreeSlots.parentInsertKeysHi p.n) = some (kvs.length + 1) :=
    toIdx_eq (by simp [TreeSlots.parentInsertKeysHi, hn])
  have e2 : toIdx (TreeSlots.parentInsertValuesHi p.n) = some (kvs.length + 1) :=
    toIdx_eq (by simp [TreeSlots.parentInsertValuesHi, hn])
  have e3 : toIdx (TreeSlots.parentInsertChildrenHi p.n) = some (kvs.length + 2) :=
    toIdx_eq (by simp [TreeSlots.parentInsertChildrenHi, hn])
  have i1 : TreeSlots.parentInsertSepIdx (idx : Int) = (idx : Int) := by simp [TreeSlots.parentInsertSepIdx]
  have i2 : TreeSlots.parentInsertValueIdx (idx : Int) = (idx : Int) := by simp [TreeSlots.parentInsertValueIdx]
  have i3 : TreeSlots.parentInsertChildIdx (idx : Int) = ((idx + 1 : Nat) : Int) := by simp [TreeSlots.parentInsertChildIdx]
  obtain ⟨a1, h1, r1⟩ := rep_insertOne hk (hi := kvs.length + 1) (idx := idx) (by simpa using hidx) (by simp) (by omega) k
  obtain ⟨a2, h2, r2⟩ := rep_insertOne hv (hi := kvs.length + 1) (idx := idx) (by simpa using hidx) (by simp) (by omega) v
  obtain ⟨a3, h3, r3⟩ := rep_insertOne hc (hi := kvs.length + 2) (idx := idx + 1) (by omega) (by omega) (by omega) r
  have l1 := hk.length
  have l2 := hv.length
  have l3 := hc.length
  push_cast at h3
  refine ⟨{ p with keys := a1, vals := a2, kids := a3, n := p.n + 1 }, ?_, ?_⟩
  · have c1 : kvs.length + 1 ≤ p.keys.length := by omega
    have c2 : kvs.length + 1 ≤ p.vals.length := by omega
    have c3 : kvs.length + 2 ≤ p.kids.length := by omega
    simp [parentInsert, e1, e2, e3, i1, i2, i3, h1, h2, h3, hb, bumpIf, c1, c2, c3]
  · refine ⟨by simp [hn]; omega, ?_, ?_, r3, Or.inr (by simp; omega)⟩
    · simpa [List.map_take, List.map_drop] using r1
    · simpa [List.map_take, List.map_drop] using r2


/-- two sibling nodes are of the same kind: both leaves or both internal -/
theorem kinds {lkvs rkvs : List (K × V)} {lkids rkids : List C}
    (hl : lkids = [] ∨ lkids.length = lkvs.length + 1) (hr : rkids = [] ∨ rkids.length = rkvs.length + 1)
    (hkind : lkids = [] ↔ rkids = []) :
    (lkids = [] ∧ rkids = []) ∨ (lkids.length = lkvs.length + 1 ∧ rkids.length = rkvs.length + 1) := by
  rcases hl with h | h
  · exact Or.inl ⟨h, hkind.mp h⟩
  · rcases hr with h' | h'
    · have := hkind.mpr h'; subst this; simp at h
    · exact Or.inr ⟨h, h'⟩

theorem mergeNodes_rep {p l r : SNode K V C} {pkvs lkvs rkvs : List (K × V)} {pkids lkids rkids : List C}
    (hp : NodeRep p pkvs pkids) (hl : NodeRep l lkvs lkids) (hr : NodeRep r rkvs rkids)
    (hpint : pkids.length = pkvs.length + 1) (hkind : lkids = [] ↔ rkids = [])
    {idx : Nat} (hidx : idx < pkvs.length) (hfit : lkvs.length + 1 + rkvs.length ≤ keysCap)
    (hs : TreeSlots.removeOneShifts = true) (hz : TreeSlots.removeOneZeroesLast = true)
    (hmk : TreeSlots.mergeRemovesSepKey = true) (hmv : TreeSlots.mergeRemovesSepValue = true)
    (hmc : TreeSlots.mergeRemovesRightChild = true) (hmd : TreeSlots.mergeParentDecN = true)
    (hmz : TreeSlots.mergeZeroesRight = true) :
    ∃ p' l' r', mergeNodes p l r idx = some (p', l', r') ∧
      NodeRep p' (pkvs.take idx ++ pkvs.drop (idx + 1)) (pkids.take (idx + 1) ++ pkids.drop (idx + 2)) ∧
      NodeRep l' (lkvs ++ pkvs[idx] :: rkvs) (lkids ++ rkids) ∧ r'.n = 0 := by
  obtain ⟨pn, pk, pv, pc, ps⟩ := hp
  obtain ⟨ln, lk, lv, lc, ls⟩ := hl
  obtain ⟨rn, rk, rv, rc, rs⟩ := hr
  obtain ⟨cv, cc⟩ := caps
  -- separator
  have g1 : p.keys[idx]? = some (some (pkvs[idx]).1) := by
    have := pk.get_live (i := idx) (by simpa using hidx); simpa using this
  have g2 : p.vals[idx]? = some (some (pkvs[idx]).2) := by
    have := pv.get_live (i := idx) (by simpa using hidx); simpa using this
  -- left keys / values
  have e1 : toIdx (TreeSlots.mergeSepKeyIdx l.n) = some lkvs.length := toIdx_eq (by simp [TreeSlots.mergeSepKeyIdx, ln])
  have e2 : toIdx (TreeSlots.mergeKeysDst l.n) = some (lkvs.length + 1) := toIdx_eq (by simp [TreeSlots.mergeKeysDst, ln])
  have e3 : toIdx (TreeSlots.mergeKeysSrcHi r.n) = some rkvs.length := toIdx_eq (by simp [TreeSlots.mergeKeysSrcHi, rn])
  have e4 : toIdx (TreeSlots.mergeSepValueIdx l.n) = some lkvs.length := toIdx_eq (by simp [TreeSlots.mergeSepValueIdx, ln])
  have e5 : toIdx (TreeSlots.mergeValuesDst l.n) = some (lkvs.length + 1) := toIdx_eq (by simp [TreeSlots.mergeValuesDst, ln])
  have e6 : toIdx (TreeSlots.mergeValuesSrcHi r.n) = some rkvs.length := toIdx_eq (by simp [TreeSlots.mergeValuesSrcHi, rn])
  have e7 : toIdx (TreeSlots.mergeChildrenDst l.n) = some (lkvs.length + 1) := toIdx_eq (by simp [TreeSlots.mergeChildrenDst, ln])
  have e8 : toIdx (TreeSlots.mergeChildrenSrcHi r.n) = some (rkvs.length + 1) := toIdx_eq (by simp [TreeSlots.mergeChildrenSrcHi, rn])
  have e9 : toIdx p.n = some pkvs.length := toIdx_eq pn
  obtain ⟨k1, hk1, rk1⟩ := rep_setSlot_append lk (by simp; omega) (pkvs[idx]).1
  obtain ⟨k2, hk2, rk2⟩ := rep_copy_append rk1 rk (by simp; omega)
  obtain ⟨v1, hv1, rv1⟩ := rep_setSlot_append lv (by simp; omega) (pkvs[idx]).2
  obtain ⟨v2, hv2, rv2⟩ := rep_copy_append rv1 rv (by simp; omega)
  simp only [List.length_append, List.length_map, List.length_cons, List.length_nil] at hk1 hk2 hv1 hv2
  -- left children
  have hkids : ∃ c2, copySlots l.kids (lkvs.length + 1) l.kids.length r.kids 0 (rkvs.length + 1) = some c2 ∧
      Rep c2 childrenCap (lkids ++ rkids) := by
    rcases kinds ls rs hkind with ⟨h1, h2⟩ | ⟨h1, h2⟩
    · subst h1; subst h2
      exact ⟨_, rep_copy_dead lc rc (by simp) (by omega) (by omega), by simpa using lc⟩
    · have := rep_copy_append lc rc (by omega)
      rw [h1, h2] at this
      exact this
  obtain ⟨c2, hc2, rc2⟩ := hkids
  -- parent
  have pkc := pk.2
  have pvc := pv.2
  simp only [List.length_map] at pkc pvc
  obtain ⟨pk1, hpk1, rpk1⟩ := rep_removeOne pk (hi := pkvs.length) (idx := idx) (by simpa using hidx) (by simp) pkc hs hz
  obtain ⟨pv1, hpv1, rpv1⟩ := rep_removeOne pv (hi := pkvs.length) (idx := idx) (by simpa using hidx) (by simp) pvc hs hz
  obtain ⟨pc1, hpc1, rpc1⟩ := rep_removeOne pc (hi := pkvs.length + 1) (idx := idx + 1) (by omega) (by omega) (by omega) hs hz
  refine ⟨{ p with keys := pk1, vals := pv1, kids := pc1, n := p.n + -1 },
          { l with keys := k2, vals := v2, kids := c2, n := l.n + TreeSlots.mergeAddN r.n },
          { r with n := 0 }, ?_, ?_, ?_, rfl⟩
  · simp [mergeNodes, g1, g2, e1, e2, e3, e4, e5, e6, e7, e8, e9, hk1, hk2, hv1, hv2, hc2, hpk1, hpv1, hpc1,
      hmk, hmv, hmc, hmd, hmz, bumpIf]
  · refine ⟨by simp [pn]; try omega, ?_, ?_, ?_, Or.inr (by simp; omega)⟩
    · simpa [List.map_take, List.map_drop] using rpk1
    · simpa [List.map_take, List.map_drop] using rpv1
    · simpa using rpc1
  · refine ⟨by simp [ln, rn, TreeSlots.mergeAddN]; try omega, ?_, ?_, rc2, ?_⟩
    · simpa using rk2
    · simpa using rv2
    · rcases kinds ls rs hkind with ⟨h1, h2⟩ | ⟨h1, h2⟩
      · left; simp [h1, h2]
      · right; simp [h1, h2]; omega


theorem rotateRightNodes_rep {p l r : SNode K V C} {pkvs lkvs rkvs : List (K × V)} {pkids lkids rkids : List C}
    (hp : NodeRep p pkvs pkids) (hl : NodeRep l lkvs lkids) (hr : NodeRep r rkvs rkids)
    (hkind : lkids = [] ↔ rkids = [])
    {idx : Nat} (hidx : idx < pkvs.length) (hlne : lkvs ≠ []) (hroom : rkvs.length < keysCap)
    (hzk : TreeSlots.rotateRightZeroesKey = true) (hzv : TreeSlots.rotateRightZeroesValue = true)
    (hzc : TreeSlots.rotateRightZeroesChild = true) (hd : TreeSlots.rotateRightDecLeft = true)
    (hik : TreeSlots.rotateRightInsertsKey = true) (hiv : TreeSlots.rotateRightInsertsValue = true)
    (hic : TreeSlots.rotateRightInsertsChild = true) (hir : TreeSlots.rotateRightIncRight = true) :
    ∃ p' l' r', rotateRightNodes p l r idx = some (p', l', r', lkids.getLast?) ∧
      NodeRep p' (pkvs.take idx ++ lkvs.getLast hlne :: pkvs.drop (idx + 1)) pkids ∧
      NodeRep l' lkvs.dropLast lkids.dropLast ∧
      NodeRep r' (pkvs[idx] :: rkvs) (lkids.getLast?.toList ++ rkids) := by
  obtain ⟨pn, pk, pv, pc, ps⟩ := hp
  obtain ⟨ln, lk, lv, lc, ls⟩ := hl
  obtain ⟨rn, rk, rv, rc, rs⟩ := hr
  obtain ⟨cv, cc⟩ := caps
  have hpos : 0 < lkvs.length := List.length_pos_iff.mpr hlne
  have lkc := lk.2
  simp only [List.length_map] at lkc
  have g1 : p.keys[idx]? = some (some (pkvs[idx]).1) := by
    have := pk.get_live (i := idx) (by simpa using hidx); simpa using this
  have g2 : p.vals[idx]? = some (some (pkvs[idx]).2) := by
    have := pv.get_live (i := idx) (by simpa using hidx); simpa using this
  have e1 : toIdx (TreeSlots.rotateRightChildIdx l.n) = some lkvs.length := toIdx_eq (by simp [TreeSlots.rotateRightChildIdx, ln])
  have e2 : toIdx (TreeSlots.rotateRightMaxIdx l.n) = some (lkvs.length - 1) :=
    toIdx_eq (by simp [TreeSlots.rotateRightMaxIdx, ln]; omega)
  have e3 : toIdx (l.n - 1) = some (lkvs.length - 1) := toIdx_eq (by rw [ln]; omega)
  have e4 : toIdx l.n = some lkvs.length := toIdx_eq ln
  have g3 : l.keys[lkvs.length - 1]? = some (some (lkvs.getLast hlne).1) := by
    have := lk.get_live (i := lkvs.length - 1) (by simp; omega)
    simpa [List.getLast_eq_getElem] using this
  have g4 : l.vals[lkvs.length - 1]? = some (some (lkvs.getLast hlne).2) := by
    have := lv.get_live (i := lkvs.length - 1) (by simp; omega)
    simpa [List.getLast_eq_getElem] using this
  obtain ⟨pk1, hpk1, rpk1⟩ := rep_setSlot_replace pk (i := idx) (by simpa using hidx) (lkvs.getLast hlne).1
  obtain ⟨pv1, hpv1, rpv1⟩ := rep_setSlot_replace pv (i := idx) (by simpa using hidx) (lkvs.getLast hlne).2
  obtain ⟨lk1, hlk1, rlk1⟩ := rep_setSlot_clearLast lk (by simpa using hpos)
  obtain ⟨lv1, hlv1, rlv1⟩ := rep_setSlot_clearLast lv (by simpa using hpos)
  simp only [List.length_map] at hlk1 hlv1
  obtain ⟨rk1, hrk1, rrk1⟩ := rep_insertOne rk (hi := r.keys.length) (idx := 0) (by simp) (by rw [rk.length]; simpa using hroom) (by rw [rk.length]; omega) (pkvs[idx]).1
  obtain ⟨rv1, hrv1, rrv1⟩ := rep_insertOne rv (hi := r.vals.length) (idx := 0) (by simp) (by rw [rv.length]; simp; omega) (by rw [rv.length]; omega) (pkvs[idx]).2
  -- the child that changes sides
  have hkids : ∃ lc1 rc1, l.kids[lkvs.length]? = some lkids.getLast? ∧
      setSlot l.kids lkvs.length none = some lc1 ∧ Rep lc1 childrenCap lkids.dropLast ∧
      insertOne r.kids r.kids.length ((0 : Nat) : Int) lkids.getLast? = some rc1 ∧
      Rep rc1 childrenCap (lkids.getLast?.toList ++ rkids) := by
    rcases kinds ls rs hkind with ⟨h1, h2⟩ | ⟨h1, h2⟩
    · subst h1; subst h2
      refine ⟨l.kids, r.kids, ?_, rep_setSlot_dead lc (by simp) (by omega), by simpa using lc, ?_, by simpa using rc⟩
      · simpa using lc.get_tail (i := lkvs.length) (by simp) (by omega)
      · simpa using rep_insertOne_none rc (hi := r.kids.length) (by rw [rc.length]; omega) (by rw [rc.length]; omega)
    · have hne : lkids ≠ [] := by intro h; simp [h] at h1
      have hlast : lkids.getLast? = some (lkids.getLast hne) := List.getLast?_eq_some_getLast hne
      obtain ⟨lc1, hlc1, rlc1⟩ := rep_setSlot_clearLast lc (by omega)
      obtain ⟨rc1, hrc1, rrc1⟩ := rep_insertOne rc (hi := r.kids.length) (idx := 0) (by simp) (by rw [rc.length]; omega) (by rw [rc.length]; omega) (lkids.getLast hne)
      have e : lkids.length - 1 = lkvs.length := by omega
      rw [e] at hlc1
      refine ⟨lc1, rc1, ?_, hlc1, rlc1, by rw [hlast]; exact hrc1, by rw [hlast]; simpa using rrc1⟩
      have := lc.get_live (i := lkvs.length) (by omega)
      rw [this, hlast]
      simp [List.getLast_eq_getElem, e]
  obtain ⟨lc1, rc1, g5, hlc1, rlc1, hrc1, rrc1⟩ := hkids
  refine ⟨{ p with keys := pk1, vals := pv1 },
          { l with keys := lk1, vals := lv1, kids := lc1, n := l.n + -1 },
          { r with keys := rk1, vals := rv1, kids := rc1, n := r.n + 1 }, ?_, ?_, ?_, ?_⟩
  · simp only [Int.natCast_zero] at hrk1 hrv1 hrc1
    simp [rotateRightNodes, g1, g2, g3, g4, g5, e1, e2, e3, e4, hpk1, hpv1, hlk1, hlv1, hlc1, hrk1, hrv1, hrc1,
      hzk, hzv, hzc, hd, hik, hiv, hic, hir, bumpIf]
  · refine ⟨by rw [length_replace _ hidx]; exact pn, ?_, ?_, pc, by rw [length_replace _ hidx]; exact ps⟩
    · simpa [List.map_take, List.map_drop] using rpk1
    · simpa [List.map_take, List.map_drop] using rpv1
  · refine ⟨by simp [ln]; omega, ?_, ?_, rlc1, ?_⟩
    · simpa [List.map_dropLast] using rlk1
    · simpa [List.map_dropLast] using rlv1
    · rcases kinds ls rs hkind with ⟨h1, h2⟩ | ⟨h1, h2⟩
      · left; simp [h1]
      · right; simp [h1]; omega
  · refine ⟨by simp [rn], ?_, ?_, rrc1, ?_⟩
    · simpa using rrk1
    · simpa using rrv1
    · rcases kinds ls rs hkind with ⟨h1, h2⟩ | ⟨h1, h2⟩
      · left; simp [h1, h2]
      · right
        have hne : lkids ≠ [] := by intro h; simp [h] at h1
        simp [List.getLast?_eq_some_getLast hne, h2]


theorem rotateLeftNodes_rep {p l r : SNode K V C} {pkvs lkvs rkvs : List (K × V)} {pkids lkids rkids : List C}
    (hp : NodeRep p pkvs pkids) (hl : NodeRep l lkvs lkids) (hr : NodeRep r rkvs rkids)
    (hkind : lkids = [] ↔ rkids = [])
    {idx : Nat} (hidx0 : 0 < idx) (hidx : idx ≤ pkvs.length) (hrne : rkvs ≠ []) (hroom : lkvs.length < keysCap)
    (hs : TreeSlots.removeOneShifts = true) (hz : TreeSlots.removeOneZeroesLast = true)
    (hsk : TreeSlots.rotateLeftShiftsKeys = true) (hsv : TreeSlots.rotateLeftShiftsValues = true)
    (hsc : TreeSlots.rotateLeftShiftsChildren = true)
    (hdr : TreeSlots.rotateLeftDecRight = true) (hil : TreeSlots.rotateLeftIncLeft = true) :
    ∃ p' l' r', rotateLeftNodes p l r idx = some (p', l', r', rkids.head?) ∧
      NodeRep p' (pkvs.take (idx - 1) ++ rkvs.head hrne :: pkvs.drop idx) pkids ∧
      NodeRep l' (lkvs ++ [pkvs[idx - 1]]) (lkids ++ rkids.take 1) ∧
      NodeRep r' (rkvs.drop 1) (rkids.drop 1) := by
  obtain ⟨pn, pk, pv, pc, ps⟩ := hp
  obtain ⟨ln, lk, lv, lc, ls⟩ := hl
  obtain ⟨rn, rk, rv, rc, rs⟩ := hr
  obtain ⟨cv, cc⟩ := caps
  have hpos : 0 < rkvs.length := List.length_pos_iff.mpr hrne
  have rkc := rk.2
  simp only [List.length_map] at rkc
  have hi1 : idx - 1 < pkvs.length := by omega
  have e0 : toIdx (TreeSlots.rotateLeftSepIdx (idx : Int)) = some (idx - 1) :=
    toIdx_eq (by simp [TreeSlots.rotateLeftSepIdx]; omega)
  have g1 : p.keys[idx - 1]? = some (some (pkvs[idx - 1]).1) := by
    have := pk.get_live (i := idx - 1) (by simpa using hi1); simpa using this
  have g2 : p.vals[idx - 1]? = some (some (pkvs[idx - 1]).2) := by
    have := pv.get_live (i := idx - 1) (by simpa using hi1); simpa using this
  have g3 : r.keys[0]? = some (some (rkvs.head hrne).1) := by
    have := rk.get_live (i := 0) (by simpa using hpos)
    simpa [List.head_eq_getElem] using this
  have g4 : r.vals[0]? = some (some (rkvs.head hrne).2) := by
    have := rv.get_live (i := 0) (by simpa using hpos)
    simpa [List.head_eq_getElem] using this
  have e1 : toIdx (TreeSlots.rotateLeftKeyIdx l.n) = some lkvs.length := toIdx_eq (by simp [TreeSlots.rotateLeftKeyIdx, ln])
  have e2 : toIdx (TreeSlots.rotateLeftValueIdx l.n) = some lkvs.length := toIdx_eq (by simp [TreeSlots.rotateLeftValueIdx, ln])
  have e3 : toIdx (TreeSlots.rotateLeftChildIdx l.n) = some (lkvs.length + 1) := toIdx_eq (by simp [TreeSlots.rotateLeftChildIdx, ln])
  obtain ⟨pk1, hpk1, rpk1⟩ := rep_setSlot_replace pk (i := idx - 1) (by simpa using hi1) (rkvs.head hrne).1
  obtain ⟨pv1, hpv1, rpv1⟩ := rep_setSlot_replace pv (i := idx - 1) (by simpa using hi1) (rkvs.head hrne).2
  obtain ⟨rk1, hrk1, rrk1⟩ := rep_removeOne rk (hi := r.keys.length) (idx := 0) (by simpa using hpos) (by rw [rk.length]; simpa using rkc) (by rw [rk.length]; omega) hs hz
  obtain ⟨rv1, hrv1, rrv1⟩ := rep_removeOne rv (hi := r.vals.length) (idx := 0) (by simpa using hpos) (by rw [rv.length]; simp; omega) (by rw [rv.length]; omega) hs hz
  obtain ⟨lk1, hlk1, rlk1⟩ := rep_setSlot_append lk (by simpa using hroom) (pkvs[idx - 1]).1
  obtain ⟨lv1, hlv1, rlv1⟩ := rep_setSlot_append lv (by simp; omega) (pkvs[idx - 1]).2
  simp only [List.length_map] at hlk1 hlv1
  have hkids : ∃ lc1 rc1, r.kids[0]? = some rkids.head? ∧
      removeOne r.kids r.kids.length 0 = some rc1 ∧ Rep rc1 childrenCap (rkids.drop 1) ∧
      setSlot l.kids (lkvs.length + 1) rkids.head? = some lc1 ∧ Rep lc1 childrenCap (lkids ++ rkids.take 1) := by
    rcases kinds ls rs hkind with ⟨h1, h2⟩ | ⟨h1, h2⟩
    · subst h1; subst h2
      refine ⟨l.kids, r.kids, ?_, ?_, by simpa using rc, ?_, by simpa using lc⟩
      · simpa using rc.get_tail (i := 0) (by simp) (by omega)
      · exact rep_removeOne_none rc (by rw [rc.length]; omega) (by rw [rc.length]; omega) hs hz
      · simpa using rep_setSlot_dead lc (i := lkvs.length + 1) (by simp) (by omega)
    · have hne : rkids ≠ [] := by intro h; simp [h] at h2
      obtain ⟨c, cs, hcs⟩ := List.exists_cons_of_ne_nil hne
      subst hcs
      obtain ⟨rc1, hrc1, rrc1⟩ := rep_removeOne rc (hi := r.kids.length) (idx := 0) (by simp) (by rw [rc.length]; exact rc.2) (by rw [rc.length]; omega) hs hz
      obtain ⟨lc1, hlc1, rlc1⟩ := rep_setSlot_append lc (by omega) c
      rw [h1] at hlc1
      refine ⟨lc1, rc1, ?_, hrc1, by simpa using rrc1, by simpa using hlc1, by simpa using rlc1⟩
      have := rc.get_live (i := 0) (by simp)
      rw [this]; simp
  obtain ⟨lc1, rc1, g5, hrc1, rrc1, hlc1, rlc1⟩ := hkids
  refine ⟨{ p with keys := pk1, vals := pv1 },
          { l with keys := lk1, vals := lv1, kids := lc1, n := l.n + 1 },
          { r with keys := rk1, vals := rv1, kids := rc1, n := r.n - 1 }, ?_, ?_, ?_, ?_⟩
  · simp [rotateLeftNodes, e0, g1, g2, g3, g4, g5, e1, e2, e3, hpk1, hpv1, hlk1, hlv1, hlc1, hrk1, hrv1, hrc1,
      hsk, hsv, hsc, hdr, hil, bumpIf, Int.sub_eq_add_neg]
  · have hlen : (pkvs.take (idx - 1) ++ rkvs.head hrne :: pkvs.drop idx).length = pkvs.length := by simp; omega
    have hi : idx - 1 + 1 = idx := by omega
    rw [hi] at rpk1 rpv1
    refine ⟨by rw [hlen]; exact pn, ?_, ?_, pc, by rw [hlen]; exact ps⟩
    · simpa [List.map_take, List.map_drop] using rpk1
    · simpa [List.map_take, List.map_drop] using rpv1
  · refine ⟨by simp [ln], ?_, ?_, rlc1, ?_⟩
    · simpa using rlk1
    · simpa using rlv1
    · rcases kinds ls rs hkind with ⟨h1, h2⟩ | ⟨h1, h2⟩
      · left; simp [h1, h2]
      · right; simp [h1]; omega
  · refine ⟨by simp [rn]; omega, ?_, ?_, rrc1, ?_⟩
    · simpa [List.map_drop] using rrk1
    · simpa [List.map_drop] using rrv1
    · rcases kinds ls rs hkind with ⟨h1, h2⟩ | ⟨h1, h2⟩
      · left; simp [h2]
      · right; simp [h2]; omega

end Juniper.Proofs.TreeSlotsOps
