import Juniper.Proofs.TreeSpec
/-!
# Order facts used by the refinement proofs (C01): `searchNode`'s postcondition, `lowerIdx`, and how a
sorted in-order list constrains the entries around a search position.
-/
namespace Juniper.Proofs.Tree
open Juniper.Model.BTree Juniper.Gen.Tree

variable {K V : Type} {α : Type} {cmp : K → K → Int}

theorem searchNode_spec (cmp : K → K → Int) (k : K) (kvs : List (K × V)) :
    (∀ a ∈ kvs.take (searchNode cmp k kvs).1, 0 < cmp k a.1) ∧
    ((searchNode cmp k kvs).2 = true → ∃ kv, kvs[(searchNode cmp k kvs).1]? = some kv ∧ cmp k kv.1 = 0) ∧
    ((searchNode cmp k kvs).2 = false → ∀ kv, kvs[(searchNode cmp k kvs).1]? = some kv → cmp k kv.1 < 0) := by
  induction kvs with
  | nil => simp [searchNode]
  | cons x rest ih =>
    obtain ⟨k', v'⟩ := x
    simp only [searchNode]
    by_cases h1 : searchLess (cmp k k') = true
    · simp only [h1, if_true]
      simp only [searchLess, decide_eq_true_eq] at h1
      simp; exact h1
    · simp only [h1]
      by_cases h2 : searchEq (cmp k k') = true
      · simp only [h2, if_true]
        simp only [searchEq, decide_eq_true_eq] at h2
        simp; exact h2
      · simp only [h2]
        simp only [searchLess, decide_eq_true_eq] at h1
        simp only [searchEq, decide_eq_true_eq] at h2
        obtain ⟨i1, i2, i3⟩ := ih
        refine ⟨?_, ?_, ?_⟩
        · intro a ha
          simp only [Bool.false_eq_true, if_false, List.take_succ_cons, List.mem_cons] at ha
          rcases ha with rfl | ha
          · simp only; omega
          · exact i1 a ha
        · intro hf
          simpa using i2 hf
        · intro hf kv hkv
          simp only [Bool.false_eq_true, if_false, List.getElem?_cons_succ] at hkv
          exact i3 hf kv hkv

theorem lowerIdx_eq {p : Int → Bool} {k : K} {kvs : List (K × V)} {i : Nat} (hi : i ≤ kvs.length)
    (hlo : ∀ a ∈ kvs.take i, p (cmp k a.1) = false)
    (hhi : ∀ kv, kvs[i]? = some kv → p (cmp k kv.1) = true) : lowerIdx p cmp k kvs = i := by
  induction kvs generalizing i with
  | nil => simp at hi; subst hi; rfl
  | cons x rest ih =>
    obtain ⟨k', v'⟩ := x
    cases i with
    | zero =>
      have := hhi (k', v') (by simp)
      simp [lowerIdx, this]
    | succ i =>
      have h0 : p (cmp k k') = false := hlo (k', v') (by simp)
      simp only [lowerIdx, h0, Bool.false_eq_true, if_false, Nat.add_right_cancel_iff]
      apply ih (by simpa using hi)
      · intro a ha; exact hlo a (by simp [ha])
      · intro kv hkv; exact hhi kv (by simpa using hkv)

/-! ## interleavings and order -/

theorem rest_head (B : List (List α)) (kb : List α) : (rest B kb).head? = kb.head? := by
  cases B <;> cases kb <;> simp [rest]

/-- in a sorted prefix `c₀ ++ kv₀ :: c₁ ++ kv₁ :: …` every entry is at most the last separator, so a key
above all separators is above everything -/
theorem pre_below (hc : StrictWeak cmp) {k : K} {A : List (List (K × V))} {ka : List (K × V)}
    (hs : Sorted cmp (pre A ka)) (hlo : ∀ y ∈ ka, 0 < cmp k y.1) : ∀ a ∈ pre A ka, 0 < cmp k a.1 := by
  induction A generalizing ka with
  | nil => simp
  | cons c cs ih =>
    cases ka with
    | nil => simp
    | cons kv kvs =>
      simp only [pre] at hs ⊢
      have h1 := List.pairwise_append.mp hs
      have h2 := List.pairwise_cons.mp h1.2.1
      have hkv : 0 < cmp k kv.1 := hlo kv List.mem_cons_self
      intro a ha
      simp only [List.mem_append, List.mem_cons] at ha
      rcases ha with ha | rfl | ha
      · have : cmp a.1 kv.1 < 0 := h1.2.2 a ha kv List.mem_cons_self
        exact hc.gt_trans hkv (hc.gt_iff.mpr this)
      · exact hkv
      · exact ih h2.2 (fun y hy => hlo y (List.mem_cons_of_mem _ hy)) a ha

/-- `inorder` of a node cut at a separator: left part, separator, right part -/
theorem inorder_at_sep (A B : List (List α)) (ka kb : List α) (s : α)
    (h : (A = [] ∧ B = []) ∨ (A.length = ka.length + 1 ∧ B ≠ [])) :
    inorder (A ++ B) (ka ++ s :: kb) = inorder A ka ++ s :: inorder B kb := by
  rcases h with ⟨rfl, rfl⟩ | ⟨hl, hB⟩
  · simp [inorder]
  · cases A with
    | nil => simp at hl
    | cons a A' =>
      simp only [List.length_cons, Nat.add_right_cancel_iff] at hl
      cases B with
      | nil => exact absurd rfl hB
      | cons b B' =>
        simp only [List.cons_append, inorder]
        rw [rest_append A' (b :: B') ka (s :: kb) hl, rest_cons_cons]
        simp [inorder]

end Juniper.Proofs.Tree
