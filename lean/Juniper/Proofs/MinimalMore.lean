import Juniper.Proofs.Minimal
import Juniper.Proofs.IterRuns
/-!
# Laziness: minimality of the pull counts of `Chunk`, `Flatten`, `Join`, `Runs` (C07 `need_minimal_*`)

`Undetermined F l j k b`: the first `j` source items do **not** determine that the `k`-th output of
`F` is `b` — there is an input with the same first `j` items whose `k`-th output is something else
(or absent). Each theorem says: the `k`-th output, delivered at cost `c` (its annotation in the
combinator's denotation), is undetermined by `c - 1` items; so no implementation could deliver it
with fewer pulls.
-/
namespace Juniper.Proofs.IterDen
open Juniper.Model.Iter Juniper.Spec
universe u v
variable {α β : Type v}

/-- `j` source items do not force the `k`-th output of `F` to be `b` -/
def Undetermined (F : List α → List β) (l : List α) (j k : Nat) (b : β) : Prop :=
  ∃ l', l'.take j = l.take j ∧ (F l')[k]? ≠ some b

/-- the truncated input itself is a witness -/
theorem undetermined_of_take {F : List α → List β} {l : List α} {j k : Nat} {b : β}
    (h : (F (l.take j))[k]? ≠ some b) : Undetermined F l j k b :=
  ⟨l.take j, by rw [List.take_take, Nat.min_self], h⟩

/-! ## Chunk -/

theorem chunk_minimal_go (n : Nat) (l : List α) : ∀ (pend : List α) (p k : Nat) (ch : List α) (c : Nat),
    (chunkGoA n pend (annot p l) (p + l.length))[k]? = some (ch, c) →
      (c = p ∧ l = []) ∨ (p < c ∧ (Seq.chunkGo n pend (l.take (c - p - 1)))[k]? ≠ some ch) := by
  induction l with
  | nil =>
    intro pend p k ch c h
    left
    simp only [annot, chunkGoA, List.length_nil, Nat.add_zero] at h
    split at h
    · cases k with
      | zero => simp at h; exact ⟨h.2.symm, rfl⟩
      | succ k => simp at h
    · simp at h
  | cons a l ih =>
    intro pend p k ch c h
    right
    have he : p + (a :: l).length = (p + 1) + l.length := by simp; omega
    rw [he] at h
    simp only [annot, chunkGoA] at h
    split at h
    next hfull =>
      cases k with
      | zero =>
        simp only [List.getElem?_cons_zero, Option.some.injEq, Prod.mk.injEq] at h
        obtain ⟨rfl, rfl⟩ := h
        refine ⟨by omega, ?_⟩
        have : p + 1 - p - 1 = 0 := by omega
        rw [this, List.take_zero]
        simp only [Seq.chunkGo]
        split
        · intro hx
          simp only [List.getElem?_cons_zero, Option.some.injEq] at hx
          have := congrArg List.length hx
          simp at this
        · simp
      | succ k =>
        simp only [List.getElem?_cons_succ] at h
        rcases ih [] (p + 1) k ch c h with ⟨rfl, rfl⟩ | ⟨hc, hne⟩
        · simp [annot, chunkGoA] at h
        · refine ⟨by omega, ?_⟩
          obtain ⟨d, hd⟩ : ∃ d, c - p - 1 = d + 1 := ⟨c - p - 2, by omega⟩
          have hd' : c - (p + 1) - 1 = d := by omega
          rw [hd, List.take_succ_cons]
          simp only [Seq.chunkGo, hfull, if_true, List.getElem?_cons_succ]
          rw [← hd']
          exact hne
    next hfull =>
      rcases ih (pend ++ [a]) (p + 1) k ch c h with ⟨rfl, rfl⟩ | ⟨hc, hne⟩
      · refine ⟨by omega, ?_⟩
        have : p + 1 - p - 1 = 0 := by omega
        rw [this, List.take_zero]
        simp only [annot, chunkGoA] at h
        have hk : k = 0 ∧ ch = pend ++ [a] := by
          split at h
          · cases k with
            | zero => simp at h; exact ⟨rfl, h.symm⟩
            | succ k => simp at h
          · simp at h
        obtain ⟨rfl, rfl⟩ := hk
        simp only [Seq.chunkGo]
        split
        · intro hx
          simp only [List.getElem?_cons_zero, Option.some.injEq] at hx
          have := congrArg List.length hx
          simp at this
        · simp
      · refine ⟨by omega, ?_⟩
        obtain ⟨d, hd⟩ : ∃ d, c - p - 1 = d + 1 := ⟨c - p - 2, by omega⟩
        have hd' : c - (p + 1) - 1 = d := by omega
        rw [hd, List.take_succ_cons]
        simp only [Seq.chunkGo, hfull, if_false]
        rw [← hd']
        exact hne

/-- **`need_minimal_chunk`**: the `k`-th chunk is delivered at cost `c` (`chunk_pulls`) and `c - 1`
source items do not determine it. -/
theorem need_minimal_chunk' (n : Nat) (l : List α) (k : Nat) (ch : List α) (c : Nat)
    (h : (chunkGoA n [] (annot 0 l) l.length)[k]? = some (ch, c)) :
    (Seq.chunk n l)[k]? = some ch ∧ 0 < c ∧ Undetermined (Seq.chunk n) l (c - 1) k ch := by
  refine ⟨?_, ?_⟩
  · have := chunkGoA_fst n [] (annot 0 l) l.length
    rw [annot_fst] at this
    rw [Seq.chunk, ← this, List.getElem?_map, h]
    rfl
  · have h' : (chunkGoA n [] (annot 0 l) (0 + l.length))[k]? = some (ch, c) := by rwa [Nat.zero_add]
    rcases chunk_minimal_go n l [] 0 k ch c h' with ⟨rfl, rfl⟩ | ⟨hc, hne⟩
    · simp [annot, chunkGoA] at h
    · exact ⟨hc, undetermined_of_take (by simpa [Seq.chunk] using hne)⟩

/-! ## Flatten -/

theorem flatten_minimal_go (D : β → List α) (cs : List β) : ∀ (p k : Nat) (b : α) (c : Nat),
    ((annot p cs).flatMap fun q => (D q.1).map fun a => (a, q.2))[k]? = some (b, c) →
      p < c ∧ ((cs.take (c - p - 1)).flatMap D).length ≤ k := by
  induction cs with
  | nil => intro p k b c h; simp [annot] at h
  | cons x cs ih =>
    intro p k b c h
    simp only [annot, List.flatMap_cons] at h
    by_cases hk : k < (D x).length
    · rw [List.getElem?_append_left (by simpa using hk)] at h
      simp only [List.getElem?_map] at h
      have : c = p + 1 := by
        cases hx : (D x)[k]? with
        | none => simp [hx] at h
        | some y => simp [hx] at h; exact h.2.symm
      subst this
      refine ⟨by omega, ?_⟩
      have : p + 1 - p - 1 = 0 := by omega
      rw [this]; simp
    · rw [List.getElem?_append_right (by simpa using hk)] at h
      simp only [List.length_map] at h
      obtain ⟨hc, hl⟩ := ih (p + 1) (k - (D x).length) b c h
      refine ⟨by omega, ?_⟩
      obtain ⟨d, hd⟩ : ∃ d, c - p - 1 = d + 1 := ⟨c - p - 2, by omega⟩
      have hd' : c - (p + 1) - 1 = d := by omega
      rw [hd, List.take_succ_cons, List.flatMap_cons, List.length_append]
      rw [hd'] at hl
      omega

/-- **`need_minimal_flatten`**: an item of the `j`-th inner iterator is delivered when `j` inner
iterators have been pulled from the outer one (`flatten_pulls`); `j - 1` of them do not contain it. -/
theorem need_minimal_flatten' (D : β → List α) (cs : List β) (k : Nat) (b : α) (c : Nat)
    (h : ((annot 0 cs).flatMap fun q => (D q.1).map fun a => (a, q.2))[k]? = some (b, c)) :
    (cs.flatMap D)[k]? = some b ∧ 0 < c ∧ Undetermined (fun cs => cs.flatMap D) cs (c - 1) k b := by
  refine ⟨?_, ?_⟩
  · have e : ∀ (p : Nat) (cs : List β),
        ((annot p cs).flatMap fun q => (D q.1).map fun a => (a, q.2)).map Prod.fst = cs.flatMap D := by
      intro p cs
      induction cs generalizing p with
      | nil => rfl
      | cons x cs ih => simp [annot, ih, Function.comp_def]
    rw [← e 0 cs, List.getElem?_map, h]; rfl
  · obtain ⟨hc, hl⟩ := flatten_minimal_go D cs 0 k b c h
    refine ⟨hc, undetermined_of_take ?_⟩
    simp only [Nat.sub_zero] at hl
    rw [List.getElem?_eq_none (by simpa using hl)]
    simp

/-! ## Join (cost = items pulled from all argument iterators together) -/

/-- **`need_minimal_join`**: the `k`-th answer of `Join` costs `k` pulls (`join_pulls`), and `k - 1`
items leave it undetermined. -/
theorem need_minimal_join' (ls : List (List α)) (k : Nat) (b : α) (c : Nat)
    (h : (annot 0 ls.flatten)[k]? = some (b, c)) :
    ls.flatten[k]? = some b ∧ c = k + 1 ∧ ∀ ls' : List (List α), ls'.flatten = ls.flatten.take (c - 1) →
      ls'.flatten[k]? ≠ some b := by
  have hk : k < ls.flatten.length := by
    have := (List.getElem?_eq_some_iff.mp h).1
    rwa [← List.length_map (f := Prod.fst), annot_fst] at this
  have hc : c = k + 1 := by
    have := annot_get 0 ls.flatten k hk
    obtain ⟨hk', hx⟩ := List.getElem?_eq_some_iff.mp h
    rw [hx] at this
    simpa using this
  refine ⟨?_, hc, ?_⟩
  · rw [← annot_fst 0 ls.flatten, List.getElem?_map, h]; rfl
  · intro ls' hls'
    rw [hls', hc, List.getElem?_eq_none (by rw [List.length_take]; omega)]
    simp

/-! ## Runs -/

theorem runs_minimal_go (same : α → α → Bool) (hrefl : ∀ a, same a a = true) (l : List α) :
    ∀ (acc : List α) (prev : α) (p k : Nat) (run : List α) (c : Nat),
    (runsGoA same none (some acc) prev (annot p l) (p + l.length))[k]? = some (run, c) →
      (c = p ∧ l = [] ∧ k = 0 ∧ run = acc) ∨
      (p < c ∧ ∃ l', l'.take (c - p - 1) = l.take (c - p - 1) ∧ (Seq.runsGo same acc prev l')[k]? ≠ some run) := by
  induction l with
  | nil =>
    intro acc prev p k run c h
    left
    simp only [annot, runsGoA, List.length_nil, Nat.add_zero] at h
    cases k with
    | zero => simp at h; exact ⟨h.2.symm, rfl, rfl, h.1.symm⟩
    | succ k => simp at h
  | cons b l ih =>
    intro acc prev p k run c h
    right
    have he : p + (b :: l).length = (p + 1) + l.length := by simp; omega
    rw [he] at h
    simp only [annot] at h
    by_cases hb : same prev b = true
    · rw [runsGoA_cons_same same none acc prev b _ _ _ hb] at h
      simp only [reached, takeReached, Bool.false_eq_true, if_false] at h
      rcases ih (acc ++ [b]) b (p + 1) k run c h with ⟨rfl, rfl, rfl, rfl⟩ | ⟨hc, l', hl', hne⟩
      · refine ⟨by omega, [], by simp, ?_⟩
        simp only [Seq.runsGo, List.getElem?_cons_zero, ne_eq, Option.some.injEq]
        intro hx
        have := congrArg List.length hx
        simp at this
      · refine ⟨by omega, b :: l', ?_, ?_⟩
        · obtain ⟨d, hd⟩ : ∃ d, c - p - 1 = d + 1 := ⟨c - p - 2, by omega⟩
          have hd' : c - (p + 1) - 1 = d := by omega
          rw [hd, List.take_succ_cons, List.take_succ_cons, ← hd', hl']
        · simpa [Seq.runsGo, hb] using hne
    · have hb' : same prev b = false := by simpa using hb
      rw [runsGoA_cons_diff same none acc prev b _ _ _ hb'] at h
      simp only [runsNewA, reached, takeReached, Bool.false_eq_true, if_false] at h
      cases k with
      | zero =>
        simp only [List.getElem?_cons_zero, Option.some.injEq, Prod.mk.injEq] at h
        obtain ⟨rfl, rfl⟩ := h
        refine ⟨by omega, [prev], ?_, ?_⟩
        · have : p + 1 - p - 1 = 0 := by omega
          rw [this]; simp
        · simp only [Seq.runsGo, hrefl prev, if_true, List.getElem?_cons_zero, ne_eq, Option.some.injEq]
          intro hx
          have := congrArg List.length hx
          simp at this
      | succ k =>
        simp only [List.getElem?_cons_succ] at h
        rcases ih [b] b (p + 1) k run c h with ⟨rfl, rfl, rfl, rfl⟩ | ⟨hc, l', hl', hne⟩
        · refine ⟨by omega, [], by simp, ?_⟩
          simp [Seq.runsGo]
        · refine ⟨by omega, b :: l', ?_, ?_⟩
          · obtain ⟨d, hd⟩ : ∃ d, c - p - 1 = d + 1 := ⟨c - p - 2, by omega⟩
            have hd' : c - (p + 1) - 1 = d := by omega
            rw [hd, List.take_succ_cons, List.take_succ_cons, ← hd', hl']
          · simpa [Seq.runsGo, hb'] using hne

/-- **`need_minimal_runs`** (reflexive `same`, inner iterators read to their end): the `k`-th run is
delivered once the item after it has been pulled (or the source's end seen), at cost `c`
(`runs_pulls`), and `c - 1` source items do not determine it: the run could still grow. -/
theorem need_minimal_runs' (same : α → α → Bool) (hrefl : ∀ a, same a a = true) (l : List α)
    (k : Nat) (run : List α) (c : Nat)
    (h : (runsStartA same none (annot 0 l) l.length)[k]? = some (run, c)) :
    (Seq.runs same l)[k]? = some run ∧ 0 < c ∧ Undetermined (Seq.runs same) l (c - 1) k run := by
  refine ⟨?_, ?_⟩
  · have := runsStartA_all_fst same (annot 0 l) l.length
    rw [annot_fst] at this
    rw [← this, List.getElem?_map, h]; rfl
  · cases l with
    | nil => simp [annot, runsStartA] at h
    | cons a l =>
      have h' : (runsGoA same none (some [a]) a (annot 1 l) (1 + l.length))[k]? = some (run, c) := by
        have e : (a :: l).length = 1 + l.length := by simp; omega
        rw [e] at h
        simpa [annot, runsStartA, reached, takeReached] using h
      rcases runs_minimal_go same hrefl l [a] a 1 k run c h' with ⟨rfl, rfl, rfl, rfl⟩ | ⟨hc, l', hl', hne⟩
      · exact ⟨by omega, [], by simp, by simp [Seq.runs]⟩
      · refine ⟨by omega, a :: l', ?_, by simpa [Seq.runs] using hne⟩
        obtain ⟨d, hd⟩ : ∃ d, c - 1 = d + 1 := ⟨c - 2, by omega⟩
        have hd' : c - 1 - 1 = d := by omega
        rw [hd, List.take_succ_cons, List.take_succ_cons, ← hd', hl']

end Juniper.Proofs.IterDen
