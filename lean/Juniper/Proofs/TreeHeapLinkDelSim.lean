import Juniper.Proofs.TreeHeapLinkDel
/-!
# Linking the two B-tree models (C03): `Delete`, the induction over `del`
-/
namespace Juniper.Proofs.TreeHeapLink
open Juniper Juniper.Model.BTree Juniper.Model.BTreeSlotsOps Juniper.Proofs.Tree Juniper.Proofs.TreeSlotsOps

variable {K V : Type}

/-- removal + tail, as `Heap.delete` runs it once the descent has found the key at `curr` / `idx` -/
def delAt (fuelR fuelM : Nat) (h : Heap K V) (curr idx : Nat) (xs : SNode K V Nat) : Option (Heap K V) :=
  (if xs.isLeaf then Heap.deleteLeaf h curr idx else Heap.deleteInner h curr idx xs fuelR).bind (delPost fuelM)

/-- the state after the repairs below / at the node `x` (height `ht`): the new subtree is in the store,
nothing else changed, and either everything is done (`u = false`) or `repair` continues at `x` -/
def AfterSim (hb0 : Heap K V) (p : Option Nat) (ht : Nat) (x : Node K V) (h2 : Heap K V) (lf : Nat) (n : Int) :
    DelRes K V → Prop
  | .done x' u => ∃ h3, Sub h3.get p x' ∧ (∀ j, cnt j x = 0 → h3.get j = hb0.get j) ∧
      h3.nodes.length = hb0.nodes.length ∧ h3.size = hb0.size ∧ h3.gen = hb0.gen ∧
      h3.root = (if x.id = hb0.root then x'.id else hb0.root) ∧ (x.id ≠ hb0.root → x'.id = x.id) ∧
      (if u then ∀ fuel, tail (fuel + ht) h2 lf n = repair fuel h3 x.id
       else ∀ fuel, ht ≤ fuel → tail fuel h2 lf n = some h3)
  | _ => False

theorem after_child {rootId ht' id i : Nat} {isRoot : Bool} {kvs kvs1 : List (K × V)} {kids : List (Node K V)}
    {c c' : Node K V} {under_c : Bool} {hb0 h3c h2 : Heap K V} {p : Option Nat} {sxb : SNode K V Nat} {lf : Nat} {n : Int}
    (hp : DelPre rootId (ht' + 1) isRoot (.mk id kvs kids)) (hlen1 : kvs1.length = kvs.length)
    (hc : kids[i]? = some c) (hcnt : ∀ j, cnt j (Node.mk id kvs kids) ≤ 1)
    (hroot : hb0.root = rootId) (hrootp : isRoot = true → p = none)
    (hxb : hb0.get id = some sxb) (hparb : sxb.parent = p) (hrb : NodeRep sxb kvs1 (kids.map Node.id))
    (hsibs : ∀ d, (d ∈ kids.take i ∨ d ∈ kids.drop (i + 1)) → Sub hb0.get (some id) d)
    (hsub3 : Sub h3c.get (some id) c') (hcid : c'.id = c.id)
    (hfr3 : ∀ j, cnt j c = 0 → h3c.get j = hb0.get j) (hsame3 : Same hb0 h3c)
    (hso : SubOK ht' c' under_c) (hcle : ∀ j, cnt j c' ≤ cnt j c)
    (htl : if under_c then ∀ fuel, tail (fuel + ht') h2 lf n = repair fuel h3c c.id
           else ∀ fuel, ht' ≤ fuel → tail fuel h2 lf n = some h3c) :
    AfterSim hb0 p (ht' + 1) (.mk id kvs kids) h2 lf n
      (if under_c then finish rootId id kvs1 (replaceAt kids i c') i else .done (.mk id kvs1 (replaceAt kids i c')) false) := by
  obtain ⟨c1, c2, c3, c4, c5, c6, c7, c8, c9, c10⟩ := consts
  have hcm := List.mem_of_getElem? hc
  have hil : i < kids.length := (List.getElem?_eq_some_iff.mp hc).1
  have hck := cntK_le_one hcnt
  have hidc : cnt id c = 0 := cnt_id_child hcnt hcm
  have hsubP : Sub h3c.get p (.mk id kvs1 (replaceAt kids i c')) := by
    refine sub_mk.mpr ⟨sxb, by rw [hfr3 id hidc]; exact hxb, hparb, by rw [map_id_replaceAt hc hcid]; exact hrb, ?_⟩
    intro d hd
    rcases mem_replaceAt' hd with rfl | hd
    · exact hsub3
    · refine Sub.congr d (fun j hj => hfr3 j ?_) (hsibs d hd)
      have := sibling_cnt hc hd j; have := hck j; omega
  have hcleP : ∀ j, cnt j (Node.mk id kvs1 (replaceAt kids i c')) ≤ cnt j (Node.mk id kvs kids) := by
    intro j
    have := hcle j
    rw [cnt_mk, cnt_mk, cntK_replaceAt, cntK_at hc j]; omega
  have hfrP : ∀ j, cnt j (Node.mk id kvs kids) = 0 → h3c.get j = hb0.get j := by
    intro j hj
    exact hfr3 j (by have := cnt_child_le (id := id) (kvs := kvs) hcm j; omega)
  obtain ⟨hb', hmx, hmn, hmu⟩ := hso
  cases under_c with
  | false =>
    simp only [Bool.false_eq_true, if_false, AfterSim] at htl ⊢
    refine ⟨h3c, hsubP, hfrP, hsame3.len, hsame3.size, hsame3.gen, by rw [hsame3.root]; exact root_if, fun _ => rfl, ?_⟩
    intro fuel hf
    exact htl fuel (by omega)
  | true =>
    simp only [if_true] at htl ⊢
    have hb1 : Bal (ht' + 1) (.mk id kvs1 kids) := by
      have := bal_succ.mp hp.bal
      exact bal_succ.mpr ⟨by rw [hlen1]; exact this.1, this.2⟩
    have h3root : h3c.root = rootId := by rw [hsame3.root, hroot]
    have hhi := hp.hi
    simp only [node_n] at hhi
    have hkv1 : 1 ≤ kvs1.length := by
      rw [hlen1]
      cases isRoot with
      | true => have := (hp.rootCase rfl).2 (by omega); simp only [node_n] at this; omega
      | false => have := (hp.subCase rfl).2; simp only [node_n] at this; omega
    have hfs := finish_sim (h := h3c) (p := p) (ht := ht') (id := id) (j := i) hsubP
      (fun j => by have := hcleP j; have := hcnt j; omega)
      (needsFix_replace hb1 hc hb' (hmu rfl)) (replaceAt_getElem? c' hil) (hmu rfl) hkv1
      (by
        intro e
        cases isRoot with
        | true => exact hrootp rfl
        | false => exact absurd (e.trans h3root) (hp.subCase rfl).1)
      (by
        intro d hd
        rw [h3root]
        rcases mem_replaceAt hd with rfl | hd
        · have := hcle rootId
          have := noId_cnt (hp.kidsNoId c hcm); omega
        · exact noId_cnt (hp.kidsNoId d hd))
    rw [h3root] at hfs
    cases hfin : finish rootId id kvs1 (replaceAt kids i c') i with
    | absent => rw [hfin] at hfs; exact hfs.elim
    | crash => rw [hfin] at hfs; exact hfs.elim
    | done x' u =>
      rw [hfin] at hfs
      cases u with
      | false =>
        simp only [FinSim] at hfs
        obtain ⟨h', hrep, hsub', hfr', hl', hs', hg', hr', hid'⟩ := hfs
        simp only [AfterSim, Bool.false_eq_true, if_false]
        refine ⟨h', hsub', ?_, by rw [hl', hsame3.len], by rw [hs', hsame3.size], by rw [hg', hsame3.gen], ?_, ?_, ?_⟩
        · intro j hj
          rw [hfr' j (by have := hcleP j; omega)]
          exact hfrP j hj
        · rw [hr', hsame3.root]; rfl
        · rw [← hsame3.root]; exact hid'
        · intro fuel hf
          have := htl (fuel - (ht' + 1) + 1)
          rw [show fuel - (ht' + 1) + 1 + ht' = fuel by omega] at this
          rw [this, ← hcid]
          exact hrep _
      | true =>
        simp only [FinSim] at hfs
        obtain ⟨h1, hrep, hsub', hid', hfr', hsame'⟩ := hfs
        simp only [AfterSim, if_true]
        refine ⟨h1, hsub', ?_, by rw [hsame'.len, hsame3.len], by rw [hsame'.size, hsame3.size],
          by rw [hsame'.gen, hsame3.gen], ?_, fun _ => hid', ?_⟩
        · intro j hj
          rw [hfr' j (by have := hcleP j; omega)]
          exact hfrP j hj
        · rw [hsame'.root, hsame3.root, hid']; exact root_if (id := id)
        · intro fuel
          have := htl (fuel + 1)
          rw [show fuel + 1 + ht' = fuel + (ht' + 1) by omega] at this
          rw [this, ← hcid]
          exact hrep fuel

theorem AfterSim.rebase {h hb : Heap K V} {p : Option Nat} {ht : Nat} {x : Node K V} {h2 : Heap K V} {lf : Nat} {n : Int}
    {r : DelRes K V} (ha : AfterSim hb p ht x h2 lf n r) (hsame : Same h hb)
    (hfr : ∀ j, cnt j x = 0 → hb.get j = h.get j) : AfterSim h p ht x h2 lf n r := by
  cases r with
  | absent => exact ha
  | crash => exact ha
  | done x' u =>
    obtain ⟨h3, h1, h2', h3', h4, h5, h6, h7, h8⟩ := ha
    exact ⟨h3, h1, fun j hj => (h2' j hj).trans (hfr j hj), by rw [h3', hsame.len], by rw [h4, hsame.size],
      by rw [h5, hsame.gen], by rw [h6, hsame.root], by rw [← hsame.root]; exact h7, h8⟩

/-- what the heap model's `Delete` does below the subtree `x` of height `ht`, by outcome of `del` -/
def DelSim (cmp : K → K → Int) (k : K) (h : Heap K V) (p : Option Nat) (ht : Nat) (x : Node K V) : DelRes K V → Prop
  | .crash => False
  | .absent => ∃ curr idx, ∀ fuel, ht + 1 ≤ fuel → Heap.descend cmp k h fuel x.id = some (curr, idx, false)
  | .done x' u => ∃ curr idx xs h2 lf n,
      (∀ fuel, ht + 1 ≤ fuel → Heap.descend cmp k h fuel x.id = some (curr, idx, true)) ∧ h.get curr = some xs ∧
      (∀ fuelR fuelM, ht + 1 ≤ fuelR → delAt fuelR fuelM h curr idx xs = tail fuelM h2 lf n) ∧
      AfterSim h p ht x h2 lf n (.done x' u)

theorem del_sim (cmp : K → K → Int) (k : K) (rootId : Nat) (x : Node K V) :
    ∀ (ht : Nat) (isRoot : Bool) (h : Heap K V) (p : Option Nat), DelPre rootId ht isRoot x → h.root = rootId →
      (∀ j, cnt j x ≤ 1) → Sub h.get p x → (isRoot = true → p = none) →
      DelSim cmp k h p ht x (del cmp k rootId x) := by
  obtain ⟨c1, c2, c3, c4, c5, c6, c7, c8, c9, c10⟩ := consts
  fun_induction del cmp k rootId x with
  | case1 id kvs kids i hs hleaf kvs' =>
    intro ht isRoot h p hp hroot hcnt hsub hrootp
    have hk : kids = [] := List.isEmpty_iff.mp hleaf
    subst hk
    have h0 := bal_leaf_iff.mp hp.bal
    subst h0
    obtain ⟨sx, hx, hpar, hr, _⟩ := sub_mk.mp hsub
    simp only [List.map_nil] at hr
    have hi : i < kvs.length := by
      have := searchNode_found_lt cmp k kvs (by rw [hs]); rw [hs] at this; exact this
    obtain ⟨h1, x1, hstep, hsame, hr1, hp1, hg1⟩ := step_leafRemove hx hr hi [id]
    have hx1 : h1.get id = some x1 := by rw [hg1]; simp
    have hkv' : kvs' = kvs.take i ++ kvs.drop (i + 1) := rfl
    have hn1 : x1.n = (kvs'.length : Int) := by rw [hkv']; exact hr1.hn
    simp only [DelSim]
    refine ⟨id, i, sx, h1, id, x1.n, ?_, hx, ?_, ?_⟩
    · intro fuel hf
      obtain ⟨f', rfl⟩ : ∃ f', fuel = f' + 1 := ⟨fuel - 1, by omega⟩
      simp only [Node.id]
      rw [descend_here hx hr, hs]; simp
    · intro fuelR fuelM _
      unfold delAt
      rw [if_pos (hr.isLeaf_iff.mpr rfl)]
      exact deleteLeaf_tail hstep hx1 fuelM
    · simp only [AfterSim]
      refine ⟨h1, sub_mk.mpr ⟨x1, hx1, hp1.trans hpar, by simpa [hkv'] using hr1, by simp⟩, ?_, hsame.len, hsame.size,
        hsame.gen, by rw [hsame.root]; exact root_if, fun _ => rfl, ?_⟩
      · intro j hj
        have : j ≠ id := by intro e; subst e; rw [cnt_mk] at hj; simp at hj
        rw [hg1, if_neg this]
      · by_cases hn : Gen.Tree.minKVs ≤ (kvs'.length : Int)
        · have hu : ((!(Gen.Tree.deleteLeafDone (kvs'.length : Int) false)) &&
              Gen.Tree.deleteMerges (id : Int) (rootId : Int)) = false := by
            simp [Gen.Tree.deleteLeafDone, hn]
          rw [hu]
          simp only [Bool.false_eq_true, if_false]
          intro fuel _
          unfold tail
          rw [hn1, if_pos hn]
        · cases isRoot with
          | true =>
            have hid : id = rootId := (hp.rootCase rfl).1
            have hu : ((!(Gen.Tree.deleteLeafDone (kvs'.length : Int) false)) &&
                Gen.Tree.deleteMerges (id : Int) (rootId : Int)) = false := by
              simp [Gen.Tree.deleteMerges, hid]
            rw [hu]
            simp only [Bool.false_eq_true, if_false]
            intro fuel _
            unfold tail
            rw [hn1, if_neg hn]
            have hr1' : h1.root = id := by rw [hsame.root, hroot, hid]
            have := repair_root (h := h1) (sx := x1) (by rw [hr1']; exact hx1)
              (by rw [hp1, hpar]; exact hrootp rfl) fuel
            rw [hr1'] at this
            exact this
          | false =>
            have hid : id ≠ rootId := (hp.subCase rfl).1
            have hu : ((!(Gen.Tree.deleteLeafDone (kvs'.length : Int) false)) &&
                Gen.Tree.deleteMerges (id : Int) (rootId : Int)) = true := by
              have h2' : ¬ ((id : Int) = (rootId : Int)) := by omega
              simp [Gen.Tree.deleteLeafDone, Gen.Tree.deleteMerges, hn, h2']
            rw [hu]
            simp only [if_true]
            intro fuel
            unfold tail
            rw [hn1, if_neg hn]
            rfl
  | case2 id kvs kids i hs hinner hnone =>
    intro ht isRoot h p hp hroot hcnt hsub hrootp
    have hne : kids ≠ [] := by simpa using hinner
    obtain ⟨h', rfl, hlen, hall, hpre⟩ := delPre_inner hne hp
    have hi : i < kvs.length := by
      have := searchNode_found_lt cmp k kvs (by rw [hs]); rw [hs] at this; exact this
    simp at hnone; omega
  | case3 id kvs kids i hs hinner c hc hnone =>
    intro ht isRoot h p hp hroot hcnt hsub hrootp
    have hne : kids ≠ [] := by simpa using hinner
    obtain ⟨h', rfl, hlen, hall, hpre⟩ := delPre_inner hne hp
    have hcm := List.mem_of_getElem? hc
    obtain ⟨kv, x', u, he, _⟩ := removeMax_bal rootId c h' (hall c hcm).1 (hall c hcm).2 (hpre c hcm).2
    rw [he] at hnone; cases hnone
  | case4 id kvs kids i hs hinner c hc kv c' under hres kvs1 kids1 hu =>
    intro ht isRoot h p hp hroot hcnt hsub hrootp
    have hne : kids ≠ [] := by simpa using hinner
    obtain ⟨ht', rfl, hlen', hall, hpre⟩ := delPre_inner hne hp
    have hnoid : ∀ d ∈ (Node.mk id kvs kids).kids, cnt h.root d = 0 := by
      intro d hd; rw [hroot]; exact noId_cnt (hp.kidsNoId d hd)
    obtain ⟨ht'', sx, hht, hlen, hx, hpar, hr, hkids, hbc, hnc, hcntc, hltc, hrootc, hidc, hcroot, hci, hck, hcm, hnd, hil⟩ :=
      inner_facts hne hp.bal hcnt hsub.lt hnoid hsub hc
    have hht' : ht'' = ht' := by omega
    subst hht'
    have hu' : under = false := by simpa using hu
    subst hu'
    have hi : i < kvs.length := by
      have := searchNode_found_lt cmp k kvs (by rw [hs]); rw [hs] at this; exact this
    obtain ⟨lf, xsl, lkvs, hne', hrl, hxl, hrl', hkv, hlfc, hcid, hcl⟩ :=
      removeMax_sim rootId c ht'' h (some id) hbc (hall c hcm).2 (hpre c hcm).2 hroot hcntc (hkids c hcm) kv c' false hres
    obtain ⟨kv3, x3, u3, he3, hso⟩ := removeMax_bal rootId c ht'' hbc (hall c hcm).2 (hpre c hcm).2
    rw [hres] at he3; cases he3
    have hcle := removeMax_cnt rootId c kv c' false hres
    have hidlf : id ≠ lf := by intro e; subst e; omega
    -- the removal on the heap
    obtain ⟨ha, xs', hrm, hsa, hsamea, hra, hpa, hga⟩ := step_removeRightmost hxl hrl' hne' [lf]
    have hxa : ha.get id = some sx := by rw [hga, if_neg hidlf]; exact hx
    have hla : ha.get lf = some xs' := by rw [hga, if_pos rfl]
    obtain ⟨hb, sx2, hsb, hsameb, hrb, hpb, hgb⟩ := step_replaceEntry hxa hr hi kv.1 kv.2 [id]
    have hlb : hb.get lf = some xs' := by rw [hgb, if_neg (fun e => hidlf e.symm)]; exact hla
    have hxb : hb.get id = some sx2 := by rw [hgb, if_pos rfl]
    have hbh : ∀ j, j ≠ id → j ≠ lf → hb.get j = h.get j := by
      intro j h1 h2; rw [hgb, if_neg h1, hga, if_neg h2]
    have hcslot : sx.kids[i]? = some (some c.id) := by
      have hil' : i < (kids.map Node.id).length := by simpa using hil
      have := hr.hkids.get_live hil'
      rw [this, (List.getElem?_eq_some_iff.mp hci).2]
    rw [← hkv] at hrm
    obtain ⟨h3c, hsub3, hfr3, hsame3, htl⟩ := hcl hb xs' hlb hra hpa
      (fun j hj hjl => hbh j (by intro e; subst e; omega) hjl) (by rw [hsameb.root, hsamea.root])
    have hk1 : kids1 = replaceAt kids i c' := rfl
    have hkv1 : kvs1 = replaceAt kvs i kv := rfl
    have haft := after_child (hb0 := hb) (h2 := hb) (lf := lf) (n := xs'.n) (kvs1 := kvs1) hp
      (by rw [hkv1]; exact length_replaceAt kvs i kv hi) hc hcnt
      (by rw [hsameb.root, hsamea.root, hroot]) hrootp hxb (hpb.trans hpar) (by rw [hkv1]; exact hrb)
      (fun d hd => by
        have hdk : d ∈ kids := by rcases hd with hd | hd; exact List.mem_of_mem_take hd; exact List.mem_of_mem_drop hd
        refine Sub.congr d (fun j hj => hbh j ?_ ?_) (hkids d hdk)
        · exact ne_of_cnt (hcnt j) hdk hj
        · intro e; subst e; have := sibling_cnt hc hd j; have := hck j; omega)
      hsub3 hcid hfr3 hsame3 hso hcle htl
    simp only [Bool.false_eq_true, if_false] at haft
    have hreb := AfterSim.rebase haft (hsamea.trans hsameb) (fun j hj => hbh j
      (by intro e; subst e; rw [cnt_mk] at hj; simp at hj)
      (by intro e; subst e; have := cnt_child_le (id := id) (kvs := kvs) hcm j; omega))
    have hgoal : ∀ r, AfterSim h p (ht'' + 1) (Node.mk id kvs kids) hb lf xs'.n r →
        DelSim cmp k h p (ht'' + 1) (Node.mk id kvs kids) r := by
      intro r hr'
      cases r with
      | absent => exact hr'.elim
      | crash => exact hr'.elim
      | done x' u =>
        simp only [DelSim]
        refine ⟨id, i, sx, hb, lf, xs'.n, ?_, hx, ?_, hr'⟩
        · intro fuel hf
          obtain ⟨f', rfl⟩ : ∃ f', fuel = f' + 1 := ⟨fuel - 1, by omega⟩
          simp only [Node.id]
          rw [descend_here hx hr, hs]; simp
        · intro fuelR fuelM hf
          unfold delAt
          have hnl : sx.isLeaf = false := isLeaf_of_rep_cons hr.hkids (by simpa using hne)
          rw [hnl]
          simp only [Bool.false_eq_true, if_false]
          exact deleteInner_tail hcslot (hrl fuelR (by omega)) hxl hrm hsa hla hsb fuelM
    exact hgoal _ hreb
  | case5 id kvs kids i hs hinner c hc kv c' under hres kvs1 kids1 hu =>
    intro ht isRoot h p hp hroot hcnt hsub hrootp
    have hne : kids ≠ [] := by simpa using hinner
    obtain ⟨ht', rfl, hlen', hall, hpre⟩ := delPre_inner hne hp
    have hnoid : ∀ d ∈ (Node.mk id kvs kids).kids, cnt h.root d = 0 := by
      intro d hd; rw [hroot]; exact noId_cnt (hp.kidsNoId d hd)
    obtain ⟨ht'', sx, hht, hlen, hx, hpar, hr, hkids, hbc, hnc, hcntc, hltc, hrootc, hidc, hcroot, hci, hck, hcm, hnd, hil⟩ :=
      inner_facts hne hp.bal hcnt hsub.lt hnoid hsub hc
    have hht' : ht'' = ht' := by omega
    subst hht'
    have hu' : under = true := by simpa using hu
    subst hu'
    have hi : i < kvs.length := by
      have := searchNode_found_lt cmp k kvs (by rw [hs]); rw [hs] at this; exact this
    obtain ⟨lf, xsl, lkvs, hne', hrl, hxl, hrl', hkv, hlfc, hcid, hcl⟩ :=
      removeMax_sim rootId c ht'' h (some id) hbc (hall c hcm).2 (hpre c hcm).2 hroot hcntc (hkids c hcm) kv c' true hres
    obtain ⟨kv3, x3, u3, he3, hso⟩ := removeMax_bal rootId c ht'' hbc (hall c hcm).2 (hpre c hcm).2
    rw [hres] at he3; cases he3
    have hcle := removeMax_cnt rootId c kv c' true hres
    have hidlf : id ≠ lf := by intro e; subst e; omega
    -- the removal on the heap
    obtain ⟨ha, xs', hrm, hsa, hsamea, hra, hpa, hga⟩ := step_removeRightmost hxl hrl' hne' [lf]
    have hxa : ha.get id = some sx := by rw [hga, if_neg hidlf]; exact hx
    have hla : ha.get lf = some xs' := by rw [hga, if_pos rfl]
    obtain ⟨hb, sx2, hsb, hsameb, hrb, hpb, hgb⟩ := step_replaceEntry hxa hr hi kv.1 kv.2 [id]
    have hlb : hb.get lf = some xs' := by rw [hgb, if_neg (fun e => hidlf e.symm)]; exact hla
    have hxb : hb.get id = some sx2 := by rw [hgb, if_pos rfl]
    have hbh : ∀ j, j ≠ id → j ≠ lf → hb.get j = h.get j := by
      intro j h1 h2; rw [hgb, if_neg h1, hga, if_neg h2]
    have hcslot : sx.kids[i]? = some (some c.id) := by
      have hil' : i < (kids.map Node.id).length := by simpa using hil
      have := hr.hkids.get_live hil'
      rw [this, (List.getElem?_eq_some_iff.mp hci).2]
    rw [← hkv] at hrm
    obtain ⟨h3c, hsub3, hfr3, hsame3, htl⟩ := hcl hb xs' hlb hra hpa
      (fun j hj hjl => hbh j (by intro e; subst e; omega) hjl) (by rw [hsameb.root, hsamea.root])
    have hk1 : kids1 = replaceAt kids i c' := rfl
    have hkv1 : kvs1 = replaceAt kvs i kv := rfl
    have haft := after_child (hb0 := hb) (h2 := hb) (lf := lf) (n := xs'.n) (kvs1 := kvs1) hp
      (by rw [hkv1]; exact length_replaceAt kvs i kv hi) hc hcnt
      (by rw [hsameb.root, hsamea.root, hroot]) hrootp hxb (hpb.trans hpar) (by rw [hkv1]; exact hrb)
      (fun d hd => by
        have hdk : d ∈ kids := by rcases hd with hd | hd; exact List.mem_of_mem_take hd; exact List.mem_of_mem_drop hd
        refine Sub.congr d (fun j hj => hbh j ?_ ?_) (hkids d hdk)
        · exact ne_of_cnt (hcnt j) hdk hj
        · intro e; subst e; have := sibling_cnt hc hd j; have := hck j; omega)
      hsub3 hcid hfr3 hsame3 hso hcle htl
    simp only [if_true] at haft
    have hreb := AfterSim.rebase haft (hsamea.trans hsameb) (fun j hj => hbh j
      (by intro e; subst e; rw [cnt_mk] at hj; simp at hj)
      (by intro e; subst e; have := cnt_child_le (id := id) (kvs := kvs) hcm j; omega))
    have hgoal : ∀ r, AfterSim h p (ht'' + 1) (Node.mk id kvs kids) hb lf xs'.n r →
        DelSim cmp k h p (ht'' + 1) (Node.mk id kvs kids) r := by
      intro r hr'
      cases r with
      | absent => exact hr'.elim
      | crash => exact hr'.elim
      | done x' u =>
        simp only [DelSim]
        refine ⟨id, i, sx, hb, lf, xs'.n, ?_, hx, ?_, hr'⟩
        · intro fuel hf
          obtain ⟨f', rfl⟩ : ∃ f', fuel = f' + 1 := ⟨fuel - 1, by omega⟩
          simp only [Node.id]
          rw [descend_here hx hr, hs]; simp
        · intro fuelR fuelM hf
          unfold delAt
          have hnl : sx.isLeaf = false := isLeaf_of_rep_cons hr.hkids (by simpa using hne)
          rw [hnl]
          simp only [Bool.false_eq_true, if_false]
          exact deleteInner_tail hcslot (hrl fuelR (by omega)) hxl hrm hsa hla hsb fuelM
    exact hgoal _ hreb
  | case6 id kvs kids i hs hleaf =>
    intro ht isRoot h p hp hroot hcnt hsub hrootp
    have hk : kids = [] := List.isEmpty_iff.mp hleaf
    subst hk
    obtain ⟨sx, hx, hpar, hr, _⟩ := sub_mk.mp hsub
    simp only [List.map_nil] at hr
    simp only [DelSim]
    refine ⟨id, i, ?_⟩
    intro fuel hf
    obtain ⟨f', rfl⟩ : ∃ f', fuel = f' + 1 := ⟨fuel - 1, by omega⟩
    simp only [Node.id]
    rw [descend_here hx hr, hs]; simp
  | case7 id kvs kids i hs hinner hnone =>
    intro ht isRoot h p hp hroot hcnt hsub hrootp
    have hne : kids ≠ [] := by simpa using hinner
    obtain ⟨h', rfl, hlen, hall, hpre⟩ := delPre_inner hne hp
    have := searchNode_le cmp k kvs
    rw [hs] at this
    simp at hnone this; omega
  | case8 id kvs kids i hs hinner c hc hres ih =>
    intro ht isRoot h p hp hroot hcnt hsub hrootp
    have hne : kids ≠ [] := by simpa using hinner
    obtain ⟨ht', rfl, hlen', hall, hpre⟩ := delPre_inner hne hp
    have hnoid : ∀ d ∈ (Node.mk id kvs kids).kids, cnt h.root d = 0 := by
      intro d hd; rw [hroot]; exact noId_cnt (hp.kidsNoId d hd)
    obtain ⟨ht'', sx, hht, hlen, hx, hpar, hr, hkids, hbc, hnc, hcntc, hltc, hrootc, hidc, hcroot, hci, hck, hcm, hnd, hil⟩ :=
      inner_facts hne hp.bal hcnt hsub.lt hnoid hsub hc
    have hht' : ht'' = ht' := by omega
    subst hht'
    have hih := ih ht'' false h (some id) (hpre c hcm).1 hroot hcntc (hkids c hcm) (by intro e; cases e)
    rw [hres] at hih
    simp only [DelSim] at hih ⊢
    obtain ⟨curr, idx, hdesc⟩ := hih
    refine ⟨curr, idx, ?_⟩
    intro fuel hf
    obtain ⟨f', rfl⟩ : ∃ f', fuel = f' + 1 := ⟨fuel - 1, by omega⟩
    simp only [Node.id]
    rw [descend_inner hx hr hs hne hci]
    exact hdesc f' (by omega)
  | case9 id kvs kids i hs hinner c hc hres ih =>
    intro ht isRoot h p hp hroot hcnt hsub hrootp
    have hne : kids ≠ [] := by simpa using hinner
    obtain ⟨ht', rfl, hlen', hall, hpre⟩ := delPre_inner hne hp
    have hnoid : ∀ d ∈ (Node.mk id kvs kids).kids, cnt h.root d = 0 := by
      intro d hd; rw [hroot]; exact noId_cnt (hp.kidsNoId d hd)
    obtain ⟨ht'', sx, hht, hlen, hx, hpar, hr, hkids, hbc, hnc, hcntc, hltc, hrootc, hidc, hcroot, hci, hck, hcm, hnd, hil⟩ :=
      inner_facts hne hp.bal hcnt hsub.lt hnoid hsub hc
    have hht' : ht'' = ht' := by omega
    subst hht'
    have hih := ih ht'' false h (some id) (hpre c hcm).1 hroot hcntc (hkids c hcm) (by intro e; cases e)
    rw [hres] at hih
    exact hih.elim
  | case10 id kvs kids i hs hinner c hc c' under hres kids1 hu ih =>
    intro ht isRoot h p hp hroot hcnt hsub hrootp
    have hne : kids ≠ [] := by simpa using hinner
    obtain ⟨ht', rfl, hlen', hall, hpre⟩ := delPre_inner hne hp
    have hnoid : ∀ d ∈ (Node.mk id kvs kids).kids, cnt h.root d = 0 := by
      intro d hd; rw [hroot]; exact noId_cnt (hp.kidsNoId d hd)
    obtain ⟨ht'', sx, hht, hlen, hx, hpar, hr, hkids, hbc, hnc, hcntc, hltc, hrootc, hidc, hcroot, hci, hck, hcm, hnd, hil⟩ :=
      inner_facts hne hp.bal hcnt hsub.lt hnoid hsub hc
    have hht' : ht'' = ht' := by omega
    subst hht'
    have hu' : under = false := by simpa using hu
    subst hu'
    have hih := ih ht'' false h (some id) (hpre c hcm).1 hroot hcntc (hkids c hcm) (by intro e; cases e)
    have hbal := del_bal cmp k rootId c ht'' false (hpre c hcm).1
    have hcle := del_cnt cmp k rootId c c' false hres
    rw [hres] at hih hbal
    simp only [DelSim] at hih
    simp only [DelOK, Bool.false_eq_true, if_false] at hbal
    obtain ⟨curr, idx, xs, h2, lf, n, hdesc, hxs, hdel, h3c, hsub3, hfr3, hl3, hs3, hg3, hr3, hid3, htl⟩ := hih
    have hcid : c'.id = c.id := hid3 hcroot
    have hsame3 : Same h h3c := ⟨by rw [hr3, if_neg hcroot], hs3, hg3, hl3⟩
    have hk1 : kids1 = replaceAt kids i c' := rfl
    have haft := after_child (hb0 := h) (h2 := h2) (lf := lf) (n := n) hp rfl hc hcnt hroot hrootp hx hpar hr
      (fun d hd => hkids d (by rcases hd with hd | hd; exact List.mem_of_mem_take hd; exact List.mem_of_mem_drop hd))
      hsub3 hcid hfr3 hsame3 hbal hcle htl
    simp only [Bool.false_eq_true, if_false] at haft
    have hgoal : ∀ r, AfterSim h p (ht'' + 1) (Node.mk id kvs kids) h2 lf n r → DelSim cmp k h p (ht'' + 1) (Node.mk id kvs kids) r := by
      intro r hr'
      cases r with
      | absent => exact hr'.elim
      | crash => exact hr'.elim
      | done x' u =>
        simp only [DelSim]
        refine ⟨curr, idx, xs, h2, lf, n, ?_, hxs, fun fuelR fuelM hf => hdel fuelR fuelM (by omega), hr'⟩
        intro fuel hf
        obtain ⟨f', rfl⟩ : ∃ f', fuel = f' + 1 := ⟨fuel - 1, by omega⟩
        simp only [Node.id]
        rw [descend_inner hx hr hs hne hci]
        exact hdesc f' (by omega)
    exact hgoal _ haft
  | case11 id kvs kids i hs hinner c hc c' under hres kids1 hu ih =>
    intro ht isRoot h p hp hroot hcnt hsub hrootp
    have hne : kids ≠ [] := by simpa using hinner
    obtain ⟨ht', rfl, hlen', hall, hpre⟩ := delPre_inner hne hp
    have hnoid : ∀ d ∈ (Node.mk id kvs kids).kids, cnt h.root d = 0 := by
      intro d hd; rw [hroot]; exact noId_cnt (hp.kidsNoId d hd)
    obtain ⟨ht'', sx, hht, hlen, hx, hpar, hr, hkids, hbc, hnc, hcntc, hltc, hrootc, hidc, hcroot, hci, hck, hcm, hnd, hil⟩ :=
      inner_facts hne hp.bal hcnt hsub.lt hnoid hsub hc
    have hht' : ht'' = ht' := by omega
    subst hht'
    have hu' : under = true := by simpa using hu
    subst hu'
    have hih := ih ht'' false h (some id) (hpre c hcm).1 hroot hcntc (hkids c hcm) (by intro e; cases e)
    have hbal := del_bal cmp k rootId c ht'' false (hpre c hcm).1
    have hcle := del_cnt cmp k rootId c c' true hres
    rw [hres] at hih hbal
    simp only [DelSim] at hih
    simp only [DelOK, Bool.false_eq_true, if_false] at hbal
    obtain ⟨curr, idx, xs, h2, lf, n, hdesc, hxs, hdel, h3c, hsub3, hfr3, hl3, hs3, hg3, hr3, hid3, htl⟩ := hih
    have hcid : c'.id = c.id := hid3 hcroot
    have hsame3 : Same h h3c := ⟨by rw [hr3, if_neg hcroot], hs3, hg3, hl3⟩
    have hk1 : kids1 = replaceAt kids i c' := rfl
    have haft := after_child (hb0 := h) (h2 := h2) (lf := lf) (n := n) hp rfl hc hcnt hroot hrootp hx hpar hr
      (fun d hd => hkids d (by rcases hd with hd | hd; exact List.mem_of_mem_take hd; exact List.mem_of_mem_drop hd))
      hsub3 hcid hfr3 hsame3 hbal hcle htl
    simp only [if_true] at haft
    have hgoal : ∀ r, AfterSim h p (ht'' + 1) (Node.mk id kvs kids) h2 lf n r → DelSim cmp k h p (ht'' + 1) (Node.mk id kvs kids) r := by
      intro r hr'
      cases r with
      | absent => exact hr'.elim
      | crash => exact hr'.elim
      | done x' u =>
        simp only [DelSim]
        refine ⟨curr, idx, xs, h2, lf, n, ?_, hxs, fun fuelR fuelM hf => hdel fuelR fuelM (by omega), hr'⟩
        intro fuel hf
        obtain ⟨f', rfl⟩ : ∃ f', fuel = f' + 1 := ⟨fuel - 1, by omega⟩
        simp only [Node.id]
        rw [descend_inner hx hr hs hne hci]
        exact hdesc f' (by omega)
    exact hgoal _ haft

end Juniper.Proofs.TreeHeapLink
