import Juniper.Proofs.TreeDel
/-!
# Lookups: `Get`/`Contains`/`First`/`Last` against the sorted list; cost and height bounds (C01, C03)
-/
namespace Juniper.Proofs.Tree
open Juniper.Model.BTree Juniper.Gen.Tree

variable {K V : Type} {α : Type} {cmp : K → K → Int}

theorem lookup_refines (hc : StrictWeak cmp) (k : K) (x : Node K V) :
    ∀ h, Bal h x → Sorted cmp (toList x) → lookup cmp k x = sget cmp k (toList x) := by
  fun_induction lookup cmp k x with
  | case1 id kvs kids i hs =>
    intro h hb hsort
    obtain ⟨_, _, h3⟩ := search_bounds cmp k kvs hs
    obtain ⟨kv, hkv, he⟩ := h3 rfl
    have hi : i < kvs.length := (List.getElem?_eq_some_iff.mp hkv).1
    have hkvs : kvs = kvs.take i ++ kv :: kvs.drop (i + 1) := (split_at_getElem? hkv).1
    have h0 : toList (.mk id kvs kids) = inorder ((kids.take (i + 1)).map toList) (kvs.take i) ++ kv ::
        inorder ((kids.drop (i + 1)).map toList) (kvs.drop (i + 1)) := by
      have := toList_at_sep hb hi kv
      rw [← hkvs] at this; exact this
    rw [h0] at hsort ⊢
    rw [sget_at_sep hc hsort he, hkv]
  | case2 id kvs kids i hs hnone =>
    intro h hb hsort
    rcases bal_cases.mp hb with ⟨rfl, rfl⟩ | ⟨h', rfl, hlen, hall⟩
    · simp only [toList_leaf]; exact (leaf_sget cmp k kvs hs).symm
    · have := searchNode_le cmp k kvs
      rw [hs] at this
      simp at hnone this; omega
  | case3 id kvs kids i hs c hcc ih =>
    intro h hb hsort
    have hne : kids ≠ [] := by intro h0; subst h0; simp at hcc
    obtain ⟨h', rfl, hlen, hall⟩ := bal_inner hne hb
    have hcm := List.mem_of_getElem? hcc
    obtain ⟨b1, b2, _⟩ := search_bounds cmp k kvs hs
    rw [toList_at_child_self hlen hcc] at hsort ⊢
    have hsc : Sorted cmp (toList c) := (List.pairwise_append.mp (List.pairwise_append.mp hsort).1).2.1
    rw [sget_at_child hc hsort b1 (b2 rfl), ih h' (hall c hcm).1 hsc]

/-- a balanced subtree of height `h` whose nodes hold at least `minKVs` entries (the subtree root at
least `lo`) holds at least `(lo + 1) * (minKVs + 1) ^ h - 1` entries -/
theorem length_toList_ge (x : Node K V) :
    ∀ h, Bal h x → ∀ lo : Nat, (lo : Int) ≤ x.n →
      (lo + 1) * (minKVs.toNat + 1) ^ h ≤ (toList x).length + 1 := by
  have hmin : (0 : Int) ≤ minKVs := by decide
  induction x using node_induct with
  | h id kvs kids ih =>
    intro h hb lo hlo
    simp only [node_n] at hlo
    rcases bal_cases.mp hb with ⟨rfl, rfl⟩ | ⟨h', rfl, hlen, hall⟩
    · simp only [toList_leaf, Nat.pow_zero, Nat.mul_one]; omega
    · -- every child contributes at least (minKVs+1)^(h'+1) - 1 entries, and there are n+1 ≥ lo+1 children
      have hchild : ∀ c ∈ kids, (minKVs.toNat + 1) ^ (h' + 1) ≤ (toList c).length + 1 := by
        intro c hc
        have := ih c hc h' (hall c hc).1 minKVs.toNat (by have := (hall c hc).2.1; omega)
        rw [Nat.pow_succ, Nat.mul_comm]; exact this
      -- length of the interleaving
      have hlenI : ∀ (cs : List (Node K V)) (ks : List (K × V)), cs.length = ks.length + 1 →
          (∀ c ∈ cs, (minKVs.toNat + 1) ^ (h' + 1) ≤ (toList c).length + 1) →
          (ks.length + 1) * (minKVs.toNat + 1) ^ (h' + 1) ≤ (inorder (cs.map toList) ks).length + 1 := by
        intro cs
        induction cs with
        | nil => intro ks hl; simp at hl
        | cons c cs ihc =>
          intro ks hl hall'
          cases ks with
          | nil =>
            have : cs = [] := by simpa using hl
            subst this
            simp only [List.map_cons, List.map_nil, inorder, rest_nil_left, List.append_nil, List.length_nil, Nat.zero_add,
              Nat.one_mul]
            exact hall' c List.mem_cons_self
          | cons kv ks =>
            simp only [List.length_cons, Nat.add_right_cancel_iff] at hl
            cases cs with
            | nil => simp at hl
            | cons d ds =>
              have ih' := ihc ks (by simpa using hl) (fun c hc => hall' c (List.mem_cons_of_mem _ hc))
              have hc0 := hall' c List.mem_cons_self
              simp only [List.map_cons, inorder, rest, List.length_append, List.length_cons] at ih' ⊢
              rw [Nat.add_mul, Nat.one_mul]
              omega
      have hI := hlenI kids kvs hlen hchild
      rw [toList_mk]
      have hmono : (lo + 1) * (minKVs.toNat + 1) ^ (h' + 1) ≤ (kvs.length + 1) * (minKVs.toNat + 1) ^ (h' + 1) :=
        Nat.mul_le_mul_right _ (by omega)
      omega

theorem head?_append_ne (a b : List α) (h : a ≠ []) : (a ++ b).head? = a.head? := by
  cases a with
  | nil => exact absurd rfl h
  | cons x xs => rfl

theorem getLast?_append_ne (a b : List α) (h : b ≠ []) : (a ++ b).getLast? = b.getLast? := by
  rw [List.getLast?_append]
  cases hb : b.getLast? with
  | none => exact absurd (List.getLast?_eq_none_iff.mp hb) h
  | some x => rfl

theorem height_of_bal (x : Node K V) : ∀ h, Bal h x → height x = h := by
  induction x using node_induct with
  | h id kvs kids ih =>
    intro h hb
    rcases bal_cases.mp hb with ⟨rfl, rfl⟩ | ⟨h', rfl, hlen, hall⟩
    · simp [height]
    · cases kids with
      | nil => simp at hlen
      | cons c cs =>
        simp only [height]
        rw [ih c List.mem_cons_self h' (hall c List.mem_cons_self).1]

theorem first_leaf (x : Node K V) : ∀ h, Bal h x → 1 ≤ x.n →
    (toList x).head? = (leftmostLeaf x).kvs.head? ∧ toList x ≠ [] := by
  have hmin : (1 : Int) ≤ minKVs := by decide
  fun_induction leftmostLeaf x with
  | case1 id kvs kids hnone =>
    intro h hb hn
    have : kids = [] := by
      cases kids with
      | nil => rfl
      | cons _ _ => simp at hnone
    subst this
    simp only [node_n] at hn
    simp only [toList_leaf, Node.kvs, true_and]
    intro h0; subst h0; simp at hn
  | case2 id kvs kids c hc ih =>
    intro h hb hn
    have hne : kids ≠ [] := by intro h0; subst h0; simp at hc
    obtain ⟨h', rfl, hlen, hall⟩ := bal_inner hne hb
    have hcm := List.mem_of_getElem? hc
    obtain ⟨i1, i2⟩ := ih h' (hall c hcm).1 (by have := (hall c hcm).2.1; omega)
    cases kids with
    | nil => exact absurd rfl hne
    | cons d ds =>
      simp at hc; subst hc
      rw [toList_mk]
      simp only [List.map_cons, inorder]
      constructor
      · rw [head?_append_ne _ _ i2]; exact i1
      · simp [i2]

theorem last_leaf (x : Node K V) : ∀ h, Bal h x → 1 ≤ x.n →
    (toList x).getLast? = (rightmostLeaf x).kvs.getLast? ∧ toList x ≠ [] := by
  have hmin : (1 : Int) ≤ minKVs := by decide
  fun_induction rightmostLeaf x with
  | case1 id kvs kids hnone =>
    intro h hb hn
    rcases bal_cases.mp hb with ⟨rfl, rfl⟩ | ⟨h', rfl, hlen, hall⟩
    · simp only [node_n] at hn
      simp only [toList_leaf, Node.kvs, true_and]
      intro h0; subst h0; simp at hn
    · simp at hnone; omega
  | case2 id kvs kids c hc ih =>
    intro h hb hn
    have hne : kids ≠ [] := by intro h0; subst h0; simp at hc
    obtain ⟨h', rfl, hlen, hall⟩ := bal_inner hne hb
    have hcm := List.mem_of_getElem? hc
    obtain ⟨i1, i2⟩ := ih h' (hall c hcm).1 (by have := (hall c hcm).2.1; omega)
    have hsp := toList_at_child_self (id := id) hlen hc
    have hd : kvs.drop kvs.length = [] := by simp
    rw [hd, rest_nil_right, List.append_nil] at hsp
    rw [hsp]
    constructor
    · rw [getLast?_append_ne _ _ i2]; exact i1
    · simp [i2]


theorem sget_of_mem (hc : StrictWeak cmp) {k : K} {l : List (K × V)} (hs : Sorted cmp l) {e : K × V}
    (he : e ∈ l) (hk : cmp k e.1 = 0) : sget cmp k l = some e := by
  obtain ⟨X, Y, rfl⟩ := List.append_of_mem he
  exact sget_at_sep hc hs hk

end Juniper.Proofs.Tree
