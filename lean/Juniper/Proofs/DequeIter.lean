import Juniper.Proofs.DequeOps
/-!
# The deque iterator and whole histories against the representation relation (C04, C15)
-/
namespace Juniper.Proofs.Deque
open Juniper.Gen.Deque Juniper.Model.Deque
open Juniper.Spec.Deque (Op Out Obs SnapshotOrPanic)
variable {α : Type}

/-! ## abstraction function -/

theorem filterMap_id_map_some (l : List α) : (l.map some).filterMap id = l := by
  induction l with
  | nil => rfl
  | cons x t ih => simp [ih]

theorem Rep.contents_eq {d : Deque α} {l : List α} (h : Rep d l) : contents d = l := by
  unfold contents; rw [h.window_eq]; exact filterMap_id_map_some l

/-! ## iterator -/

/-- Iterator `it` over `d` (representing `l`) is valid and has yielded the first `p` elements. -/
structure IterAt (d : Deque α) (l : List α) (it : Iter) (p : Nat) : Prop where
  gen_eq : it.gen = d.gen
  le : p ≤ l.length
  mid : p < l.length → it.done = false ∧ it.i = ridx d.front (cap d) p
  fin : p = l.length → 0 < l.length → it.done = true

theorem Rep.iterate_at {d : Deque α} {l : List α} (h : Rep d l) : IterAt d l (iterate d) 0 := by
  refine ⟨rfl, Nat.zero_le _, ?_, ?_⟩
  · intro hp
    have hle := h.len_le
    have hf1 := h.front_lt_cap (by omega)
    have := ridx_cases d.front (cap d) ((0 : Nat) : Int)
    refine ⟨rfl, ?_⟩
    show d.front = _
    omega
  · intro h0 hp; omega

/-- A stale iterator panics. -/
theorem iterNext_stale (d : Deque α) (it : Iter) (hg : it.gen ≠ d.gen) :
    iterNext d it = .panic it := by
  unfold iterNext iterModified; simp [hg]

theorem IterAt.next_item {d : Deque α} {l : List α} {it : Iter} {p : Nat} (h : Rep d l)
    (hi : IterAt d l it p) (hp : p < l.length) :
    ∃ it', iterNext d it = .ok it' (some (some l[p])) ∧ IterAt d l it' (p + 1) := by
  obtain ⟨hdone, hidx⟩ := hi.mid hp
  have hle := h.len_le
  have hc : 0 < cap d := by omega
  have hf0 := h.front_nonneg
  have hf1 := h.front_lt_cap hc
  have hl : l ≠ [] := by intro he; subst he; simp at hp
  have hb := h.back_nonempty hl
  have hrp := ridx_cases d.front (cap d) (p : Int)
  have hrb := ridx_cases d.front (cap d) ((l.length : Int) - 1)
  have hrn := ridx_cases d.front (cap d) ((p + 1 : Nat) : Int)
  have hcell : slot d.a it.i = some (some l[p]) := by
    rw [hidx, h.cells p (by omega), List.getElem?_eq_getElem hp]
  have hadv : iterAdvance it.i (cap d) = if p + 1 < l.length
      then ridx d.front (cap d) ((p + 1 : Nat) : Int) else iterAdvance it.i (cap d) := by
    split
    · unfold iterAdvance
      have := tmod_wrap_cases (x := it.i + 1) (c := cap d) (by omega) (by omega)
      omega
    · rfl
  have hne0 : ¬ ((l.length : Int) = 0) := by omega
  have hcap : ¬ cap d = 0 := by omega
  unfold iterNext iterModified iterEmpty iterAtBack
  simp only [hi.gen_eq, decide_true, Bool.not_true, Bool.false_eq_true, if_false, h.len_eq, hne0,
    decide_false, hdone, hcell, hcap]
  by_cases hlast : p + 1 = l.length
  · have : it.i = d.back := by omega
    simp only [this, decide_true, if_true]
    exact ⟨_, rfl, rfl, by omega, fun h => by omega, fun _ _ => rfl⟩
  · have : ¬ it.i = d.back := by omega
    simp only [this, decide_false, Bool.false_eq_true, if_false]
    refine ⟨_, rfl, hi.gen_eq, by omega, fun h => ⟨hdone, ?_⟩, fun h => by omega⟩
    show iterAdvance it.i (cap d) = _
    rw [hadv]; simp [h]

theorem IterAt.next_done {d : Deque α} {l : List α} {it : Iter} (h : Rep d l)
    (hi : IterAt d l it l.length) : iterNext d it = .ok it none := by
  unfold iterNext iterModified iterEmpty
  simp only [hi.gen_eq, decide_true, Bool.not_true, Bool.false_eq_true, if_false, h.len_eq]
  by_cases h0 : l.length = 0
  · simp [h0]
  · have hne0 : ¬ ((l.length : Int) = 0) := by omega
    simp [hi.fin rfl (by omega)]

theorem IterAt.nextObs_item {d : Deque α} {l : List α} {it : Iter} {p : Nat} (h : Rep d l)
    (hi : IterAt d l it p) (hp : p < l.length) :
    (nextObs d it).2 = .item (some l[p]) ∧ IterAt d l (nextObs d it).1 (p + 1) := by
  obtain ⟨it', he, hi'⟩ := hi.next_item h hp
  unfold nextObs; rw [he]; exact ⟨rfl, hi'⟩

theorem IterAt.nextObs_done {d : Deque α} {l : List α} {it : Iter} (h : Rep d l)
    (hi : IterAt d l it l.length) : nextObs d it = (it, .done) := by
  unfold nextObs; rw [hi.next_done h]

theorem nextObs_stale (d : Deque α) (it : Iter) (hg : it.gen ≠ d.gen) :
    nextObs d it = (it, .panic) := by
  unfold nextObs; rw [iterNext_stale d it hg]

/-- Draining from position `p` with enough fuel yields the rest of the sequence. -/
theorem IterAt.collectFrom {d : Deque α} {l : List α} (h : Rep d l) :
    ∀ (fuel : Nat) (it : Iter) (p : Nat), IterAt d l it p → l.length - p < fuel →
      collectFrom d fuel it = some ((l.drop p).map some) := by
  intro fuel
  induction fuel with
  | zero => intro it p _ hf; omega
  | succ n ih =>
    intro it p hi hf
    unfold Juniper.Model.Deque.collectFrom
    by_cases hp : p < l.length
    · obtain ⟨ho, hi'⟩ := hi.nextObs_item h hp
      have e : nextObs d it = ((nextObs d it).1, Obs.item (some l[p])) := by rw [← ho]
      rw [e]
      simp only [ih _ (p + 1) hi' (by omega), Option.map_some]
      rw [List.drop_eq_getElem_cons hp]; rfl
    · have hpe : p = l.length := by have := hi.le; omega
      subst hpe
      rw [hi.nextObs_done h]
      simp

theorem Rep.collect_eq {d : Deque α} {l : List α} (h : Rep d l) :
    collect d = some (l.map some) := by
  unfold collect
  have hle := h.len_le
  have := IterAt.collectFrom h (d.a.length + 1) (iterate d) 0 h.iterate_at
    (by unfold cap at hle; omega)
  simpa using this

/-! ## one call of the API -/

/-- How a call moves the modification counter: the state is untouched, or the counter does not
decrease and — given the generated presence facts — strictly increases. -/
def GenStep (d d' : Deque α) : Prop :=
  d' = d ∨ (d.gen ≤ d'.gen ∧ (GenFacts → d.gen < d'.gen))

theorem genStep_bump {d d' : Deque α} {b : Bool} (hg : d'.gen = bump b d.gen)
    (hb : GenFacts → b = true) : GenStep d d' := by
  refine Or.inr ⟨by rw [hg]; exact le_bump _ _, fun f => ?_⟩
  rw [hg]; exact lt_bump (hb f) _

theorem genStep_resize {d d' : Deque α}
    (hg : d' = d ∨ d'.gen = bump resizeBumpsGen d.gen) : GenStep d d' := by
  rcases hg with hg | hg
  · exact Or.inl hg
  · exact genStep_bump hg (fun f => f.2.2.2.2.2.2.1)

/-- One call on a state representing `l` behaves like the ideal sequence. -/
theorem Rep.applyOp {d : Deque α} {l : List α} (h : Rep d l) (o : Op α) (hc : ClearFacts) :
    Rep (applyOp d o).1 (Spec.Deque.step l o).1 ∧ (applyOp d o).2 = (Spec.Deque.step l o).2 ∧
      GenStep d (applyOp d o).1 ∧ (Spec.Deque.panics l o = true → (applyOp d o).1 = d) := by
  obtain ⟨hc1, hc2, hc3, hc4⟩ := hc
  have hne : l ≠ [] → l.isEmpty = false := fun hl => by
    cases l with | nil => exact absurd rfl hl | cons _ _ => rfl
  -- a call that the ideal sequence refuses: the model panics and leaves the state alone
  have refused : ∀ o : Op α, Spec.Deque.panics l o = true →
      Model.Deque.applyOp d o = (d, .panic) →
      Rep (Model.Deque.applyOp d o).1 (Spec.Deque.step l o).1 ∧
        (Model.Deque.applyOp d o).2 = (Spec.Deque.step l o).2 ∧
        GenStep d (Model.Deque.applyOp d o).1 ∧
        (Spec.Deque.panics l o = true → (Model.Deque.applyOp d o).1 = d) := by
    intro o hp he
    have e2 : Spec.Deque.step l o = (l, .panic) := by simp only [Spec.Deque.step, hp, if_true]
    rw [he, e2]; exact ⟨h, rfl, Or.inl rfl, fun _ => rfl⟩
  -- a call that the ideal sequence accepts
  have accepted : ∀ (o : Op α) (d' : Deque α) (l' : List α) (out : Out α),
      Spec.Deque.panics l o = false → Spec.Deque.step l o = (l', out) →
      Model.Deque.applyOp d o = (d', out) → Rep d' l' → GenStep d d' →
      Rep (Model.Deque.applyOp d o).1 (Spec.Deque.step l o).1 ∧
        (Model.Deque.applyOp d o).2 = (Spec.Deque.step l o).2 ∧
        GenStep d (Model.Deque.applyOp d o).1 ∧
        (Spec.Deque.panics l o = true → (Model.Deque.applyOp d o).1 = d) := by
    intro o d' l' out hp e2 he hr hg
    rw [he, e2]; exact ⟨hr, rfl, hg, fun hp' => by rw [hp] at hp'; cases hp'⟩
  cases o with
  | pushFront x =>
    obtain ⟨d', he, hr, hg⟩ := h.pushFront x
    exact accepted _ d' (x :: l) .unit rfl rfl (by simp only [Model.Deque.applyOp, he, outUnit]) hr
      (Or.inr ⟨hg.le, fun f => hg.lt f.1⟩)
  | pushBack x =>
    obtain ⟨d', he, hr, hg⟩ := h.pushBack x
    exact accepted _ d' (l ++ [x]) .unit rfl rfl (by simp only [Model.Deque.applyOp, he, outUnit]) hr
      (Or.inr ⟨hg.le, fun f => hg.lt f.2.1⟩)
  | popFront =>
    by_cases hl : l = []
    · subst hl
      exact refused _ rfl (by simp only [Model.Deque.applyOp, h.isEmpty_panics.1, outVal])
    · obtain ⟨d', he, hr, _, hg⟩ := h.popFront hl hc1 hc2
      have hp : Spec.Deque.panics l Op.popFront = false := hne hl
      refine accepted _ d' l.tail (.val l.head?) hp
        (by simp only [Spec.Deque.step, hp, Bool.false_eq_true, if_false])
        (by simp only [Model.Deque.applyOp, he, outVal]) hr (genStep_bump hg (fun f => ?_))
      split
      · exact f.2.2.1
      · exact f.2.2.2.1
  | popBack =>
    by_cases hl : l = []
    · subst hl
      exact refused _ rfl (by simp only [Model.Deque.applyOp, h.isEmpty_panics.2.1, outVal])
    · obtain ⟨d', he, hr, _, hg⟩ := h.popBack hl hc3 hc4
      have hp : Spec.Deque.panics l Op.popBack = false := hne hl
      refine accepted _ d' l.dropLast (.val l.getLast?) hp
        (by simp only [Spec.Deque.step, hp, Bool.false_eq_true, if_false])
        (by simp only [Model.Deque.applyOp, he, outVal]) hr (genStep_bump hg (fun f => ?_))
      split
      · exact f.2.2.2.2.1
      · exact f.2.2.2.2.2.1
  | front =>
    by_cases hl : l = []
    · subst hl
      exact refused _ rfl (by simp only [Model.Deque.applyOp, h.isEmpty_panics.2.2.1, outVal])
    · have hp : Spec.Deque.panics l Op.front = false := hne hl
      exact accepted _ d l (.val l.head?) hp
        (by simp only [Spec.Deque.step, hp, Bool.false_eq_true, if_false])
        (by simp only [Model.Deque.applyOp, h.frontOf hl, outVal]) h (Or.inl rfl)
  | back =>
    by_cases hl : l = []
    · subst hl
      exact refused _ rfl (by simp only [Model.Deque.applyOp, h.isEmpty_panics.2.2.2, outVal])
    · have hp : Spec.Deque.panics l Op.back = false := hne hl
      exact accepted _ d l (.val l.getLast?) hp
        (by simp only [Spec.Deque.step, hp, Bool.false_eq_true, if_false])
        (by simp only [Model.Deque.applyOp, h.backOf hl, outVal]) h (Or.inl rfl)
  | item i =>
    by_cases hi : i < 0 ∨ (l.length : Int) ≤ i
    · have hp : Spec.Deque.panics l (Op.item i) = true := by
        rcases hi with hi | hi <;> simp [Spec.Deque.panics, hi]
      exact refused _ hp (by simp only [Model.Deque.applyOp, item_out_of_range h hi, outVal])
    · have h0 : 0 ≤ i := by omega
      have h1 : i < l.length := by omega
      have hp : Spec.Deque.panics l (Op.item i) = false := by
        simp only [Spec.Deque.panics, Bool.or_eq_false_iff, decide_eq_false_iff_not]; omega
      exact accepted _ d l (.val l[i.toNat]?) hp
        (by simp only [Spec.Deque.step, hp, Bool.false_eq_true, if_false])
        (by simp only [Model.Deque.applyOp, h.item h0 h1, outVal]) h (Or.inl rfl)
  | set i x =>
    by_cases hi : i < 0 ∨ (l.length : Int) ≤ i
    · have hp : Spec.Deque.panics l (Op.set i x) = true := by
        rcases hi with hi | hi <;> simp [Spec.Deque.panics, hi]
      exact refused _ hp (by simp only [Model.Deque.applyOp, set_out_of_range h x hi, outUnit])
    · have h0 : 0 ≤ i := by omega
      have h1 : i < l.length := by omega
      have hp : Spec.Deque.panics l (Op.set i x) = false := by
        simp only [Spec.Deque.panics, Bool.or_eq_false_iff, decide_eq_false_iff_not]; omega
      obtain ⟨d', he, hr, hg⟩ := h.set h0 h1 x
      exact accepted _ d' (l.set i.toNat x) .unit hp
        (by simp only [Spec.Deque.step, hp, Bool.false_eq_true, if_false])
        (by simp only [Model.Deque.applyOp, he, outUnit]) hr
        (genStep_bump hg (fun f => f.2.2.2.2.2.2.2))
  | len =>
    exact accepted _ d l (.int l.length) rfl rfl
      (by simp only [Model.Deque.applyOp, h.len_eq]) h (Or.inl rfl)
  | grow n =>
    obtain ⟨d', he, hr, _, hg⟩ := h.grow n
    exact accepted _ d' l .unit rfl rfl (by simp only [Model.Deque.applyOp, he, outUnit]) hr
      (genStep_resize hg)
  | shrink n =>
    by_cases hn : n < 0
    · have hp : Spec.Deque.panics l (Op.shrink n) = true := by simp [Spec.Deque.panics, hn]
      exact refused _ hp (by simp only [Model.Deque.applyOp, shrink_neg d hn, outUnit])
    · have hp : Spec.Deque.panics l (Op.shrink n) = false := by simp [Spec.Deque.panics, hn]
      obtain ⟨d', he, hr, _, hg⟩ := h.shrink (n := n) (by omega)
      exact accepted _ d' l .unit hp
        (by simp only [Spec.Deque.step, hp, Bool.false_eq_true, if_false])
        (by simp only [Model.Deque.applyOp, he, outUnit]) hr (genStep_resize hg)
  | iterate =>
    exact accepted _ d l (.list (l.map some)) rfl rfl
      (by simp only [Model.Deque.applyOp, h.collect_eq]) h (Or.inl rfl)

/-! ## histories -/

theorem Rep.run (hc : ClearFacts) : ∀ (ops : List (Op α)) (d : Deque α) (l : List α), Rep d l →
    Rep (run d ops).1 (Spec.Deque.run l ops).1 ∧ (run d ops).2 = (Spec.Deque.run l ops).2 := by
  intro ops
  induction ops with
  | nil => intro d l h; exact ⟨h, rfl⟩
  | cons o os ih =>
    intro d l h
    obtain ⟨hr, ho, _, _⟩ := h.applyOp o hc
    obtain ⟨hr', ho'⟩ := ih _ _ hr
    simp only [Model.Deque.run, Spec.Deque.run]
    exact ⟨hr', by rw [ho, ho']⟩

/-! ## one iterator observed through a sequence of events -/

theorem snapshotOrPanic_of_all_panic (s : List α) (obs : List (Obs α))
    (h : ∀ o ∈ obs, o = .panic) : SnapshotOrPanic s obs := by
  cases obs with
  | nil => trivial
  | cons o r =>
    have ho := h o (by simp)
    subst ho
    intro o' ho'; exact h o' (by simp [ho'])

/-- Once the counter has moved past the iterator's, every further `Next` panics. -/
theorem stale_runEv (hc : ClearFacts) : ∀ (es : List (Ev α)) (d : Deque α) (l : List α) (it : Iter),
    Rep d l → it.gen < d.gen → ∀ o ∈ runEv d it es, o = .panic := by
  intro es
  induction es with
  | nil => intro d l it _ _ o ho; simp [runEv] at ho
  | cons e es ih =>
    intro d l it h hg
    cases e with
    | op o =>
      obtain ⟨hr, _, hs, _⟩ := h.applyOp o hc
      simp only [runEv]
      refine ih _ _ it hr ?_
      rcases hs with hs | hs
      · rw [hs]; exact hg
      · omega
    | next =>
      have hst := nextObs_stale d it (by omega)
      simp only [runEv, hst]
      intro o ho
      rcases List.mem_cons.mp ho with ho | ho
      · exact ho
      · exact ih d l it h hg o ho

/-- A valid iterator at position `p`, observed through any sequence of deque calls and `Next`
calls: snapshot or panic. -/
theorem IterAt.runEv (hc : ClearFacts) (hgf : GenFacts) :
    ∀ (es : List (Ev α)) (d : Deque α) (l : List α) (it : Iter) (p : Nat),
      Rep d l → IterAt d l it p → SnapshotOrPanic (l.drop p) (runEv d it es) := by
  intro es
  induction es with
  | nil => intro d l it p _ _; trivial
  | cons e es ih =>
    intro d l it p h hi
    cases e with
    | op o =>
      obtain ⟨hr, _, hs, _⟩ := h.applyOp o hc
      simp only [Model.Deque.runEv]
      rcases hs with hs | hs
      · rw [hs]; exact ih d l it p h hi
      · apply snapshotOrPanic_of_all_panic
        exact stale_runEv hc es _ _ it hr (by have := hs.2 hgf; have := hi.gen_eq; omega)
    | next =>
      simp only [Model.Deque.runEv]
      by_cases hp : p < l.length
      · obtain ⟨ho, hi'⟩ := hi.nextObs_item h hp
        rw [ho]
        exact ⟨l[p], l.drop (p + 1), List.drop_eq_getElem_cons hp, rfl, ih d l _ (p + 1) h hi'⟩
      · have hpe : p = l.length := by have := hi.le; omega
        subst hpe
        rw [hi.nextObs_done h]
        have := ih d l it l.length h hi
        rw [List.drop_length] at this ⊢
        exact ⟨rfl, this⟩

end Juniper.Proofs.Deque
