import Juniper.Proofs.HeapBasic
import Juniper.Spec.Heap
/-!
# Heap order is restored by `percolateUp` / `percolateDown` / heapify

`UpInv a i`: heap everywhere except between `i` and its parent (and `i`'s children already respect
`i`'s parent) — the loop invariant of `percolateUp`, which walks to the root without early exit.
`DownInv a lo i`: heap on all pairs whose parent is `≥ lo`, except between `i` and its children (and
`i`'s children respect `i`'s parent) — the loop invariant of `percolateDown`, also used with `lo > 0`
inside the bottom-up heapify of `New`.
-/
set_option linter.unusedSimpArgs false
set_option linter.unusedVariables false
namespace Juniper.Proofs.Heap
open Juniper.Gen.Heap Juniper.Model.Heap Juniper.Spec.Heap

variable {α : Type}

theorem _root_.Juniper.Spec.Heap.StrictWeak.asymm {less : α → α → Bool} (sw : StrictWeak less) {a b : α}
    (h : less a b = true) : less b a = false := by
  cases hb : less b a with
  | false => rfl
  | true => have := sw.trans a b a h hb; rw [sw.irrefl] at this; cases this

/-- "not less" is transitive (negative transitivity of a strict weak order) -/
theorem _root_.Juniper.Spec.Heap.StrictWeak.neg_trans {less : α → α → Bool} (sw : StrictWeak less) {a b c : α}
    (h1 : less a b = false) (h2 : less b c = false) : less a c = false := by
  cases hac : less a c with
  | false => rfl
  | true =>
    cases hba : less b a with
    | true => have := sw.trans b a c hba hac; rw [h2] at this; cases this
    | false =>
      cases hcb : less c b with
      | true => have := sw.trans a c b hac hcb; rw [h1] at this; cases this
      | false => have := sw.incomp_trans a b c h1 hba h2 hcb; rw [hac] at this; cases this

/-- heap order on every pair whose parent index is at least `lo` -/
def HeapFrom (less : α → α → Bool) (a : List α) (lo : Nat) : Prop :=
  ∀ j x y, 0 < j → lo ≤ (j - 1) / 2 → a[j]? = some x → a[(j - 1) / 2]? = some y → less x y = false

theorem heapInv_iff_heapFrom (less : α → α → Bool) (a : List α) : HeapInv less a ↔ HeapFrom less a 0 := by
  constructor
  · intro h j x y hj _ hx hy; exact h j x y hj hx hy
  · intro h j x y hj hx hy; exact h j x y hj (Nat.zero_le _) hx hy

def UpInv (less : α → α → Bool) (a : List α) (i : Nat) : Prop :=
  (∀ j x y, 0 < j → j ≠ i → a[j]? = some x → a[(j - 1) / 2]? = some y → less x y = false) ∧
  (∀ j x y, 0 < i → 0 < j → (j - 1) / 2 = i → a[j]? = some x → a[(i - 1) / 2]? = some y → less x y = false)

def DownInv (less : α → α → Bool) (a : List α) (lo i : Nat) : Prop :=
  (∀ j x y, 0 < j → lo ≤ (j - 1) / 2 → (j - 1) / 2 ≠ i → a[j]? = some x → a[(j - 1) / 2]? = some y →
    less x y = false) ∧
  (∀ j x y, 0 < i → lo ≤ (i - 1) / 2 → 0 < j → (j - 1) / 2 = i → a[j]? = some x → a[(i - 1) / 2]? = some y →
    less x y = false)

/-! ## percolateUp -/

theorem upInv_swap {less : α → α → Bool} (sw : StrictWeak less) {a : List α} {i : Nat} (hi : 0 < i)
    (hlen : i < a.length) (h : UpInv less a i) (hl : lessAt less a i ((i - 1) / 2) = true) :
    UpInv less (swapAt a i ((i - 1) / 2)) ((i - 1) / 2) := by
  have hp : (i - 1) / 2 < a.length := by omega
  obtain ⟨x, hx⟩ : ∃ x, a[i]? = some x := ⟨a[i], by simp [hlen]⟩
  obtain ⟨y, hy⟩ : ∃ y, a[(i - 1) / 2]? = some y := ⟨a[(i - 1) / 2], by simp [hp]⟩
  rw [lessAt_of_get hx hy] at hl
  obtain ⟨h1, h2⟩ := h
  have asym := sw.asymm hl
  constructor
  · intro j u v hj hne hu hv
    rw [getElem?_swapAt hlen hp] at hu hv
    have nt : ∀ u, less u y = false → less u x = false := fun u h => sw.neg_trans h asym
    grind
  · intro j u v hpi hj hpj hu hv
    rw [getElem?_swapAt hlen hp] at hu hv
    have nt2 : ∀ u v, less u y = false → less y v = false → less u v = false := fun u v => sw.neg_trans
    grind

theorem upInv_noswap {less : α → α → Bool} (sw : StrictWeak less) {a : List α} {i : Nat} (hi : 0 < i)
    (hlen : i < a.length) (h : UpInv less a i) (hl : lessAt less a i ((i - 1) / 2) = false) :
    UpInv less a ((i - 1) / 2) := by
  have hp : (i - 1) / 2 < a.length := by omega
  obtain ⟨x, hx⟩ : ∃ x, a[i]? = some x := ⟨a[i], by simp [hlen]⟩
  obtain ⟨y, hy⟩ : ∃ y, a[(i - 1) / 2]? = some y := ⟨a[(i - 1) / 2], by simp [hp]⟩
  rw [lessAt_of_get hx hy] at hl
  obtain ⟨h1, h2⟩ := h
  -- the whole array is a heap
  have full : ∀ j u v, 0 < j → a[j]? = some u → a[(j - 1) / 2]? = some v → less u v = false := by
    intro j u v hj hu hv
    by_cases hji : j = i
    · subst hji; rw [hx] at hu; rw [hy] at hv; cases hu; cases hv; exact hl
    · exact h1 j u v hj hji hu hv
  constructor
  · intro j u v hj _ hu hv; exact full j u v hj hu hv
  · intro j u v hpi hj hpj hu hv
    obtain ⟨w, hw⟩ : ∃ w, a[(j - 1) / 2]? = some w := by rw [hpj]; exact ⟨y, hy⟩
    have e1 := full j u w hj hu hw
    rw [hpj] at hw
    exact sw.neg_trans e1 (full _ w v hpi hw hv)

theorem upInv_zero {less : α → α → Bool} {a : List α} (h : UpInv less a 0) : HeapInv less a := by
  intro j x y hj hx hy
  exact h.1 j x y hj (by omega) hx hy

theorem length_upLoop (less : α → α → Bool) (f : Nat) (a : List α) (i : Nat) :
    (upLoop less f a i).1.length = a.length := by
  induction f generalizing a i with
  | zero => simp [upLoop_zero]
  | succ f ih =>
    rw [upLoop_succ]
    split
    · split
      · simp [ih]
      · simp [ih]
    · rfl

theorem upLoop_heapInv {less : α → α → Bool} (sw : StrictWeak less) (f : Nat) (a : List α) (i : Nat)
    (hf : i < f) (hlen : i < a.length) (h : UpInv less a i) : HeapInv less (upLoop less f a i).1 := by
  induction f generalizing a i with
  | zero => omega
  | succ f ih =>
    rw [upLoop_succ]
    by_cases hi : 0 < i
    · have hp : (i - 1) / 2 < f := by omega
      simp only [hi, if_true]
      cases hl : lessAt less a i ((i - 1) / 2) with
      | true =>
        simp only [if_true]
        exact ih _ _ hp (by simp; omega) (upInv_swap sw hi hlen h hl)
      | false =>
        simp only [Bool.false_eq_true, if_false]
        exact ih _ _ hp (by omega) (upInv_noswap sw hi hlen h hl)
    · have : i = 0 := by omega
      subst this
      simp only [Nat.lt_irrefl, if_false]
      exact upInv_zero h

/-- if every pair on the path from `i` to the root is in order, `percolateUp` changes nothing -/
theorem upLoop_noop {less : α → α → Bool} (f : Nat) (a : List α) (i : Nat) (hlen : i < a.length)
    (h : ∀ j x y, 0 < j → j ≤ i → a[j]? = some x → a[(j - 1) / 2]? = some y → less x y = false) :
    upLoop less f a i = (a, []) := by
  induction f generalizing i with
  | zero => rfl
  | succ f ih =>
    rw [upLoop_succ]
    by_cases hi : 0 < i
    · have hp : (i - 1) / 2 < a.length := by omega
      obtain ⟨x, hx⟩ : ∃ x, a[i]? = some x := ⟨a[i], by simp [hlen]⟩
      obtain ⟨y, hy⟩ : ∃ y, a[(i - 1) / 2]? = some y := ⟨a[(i - 1) / 2], by simp [hp]⟩
      have hl : lessAt less a i ((i - 1) / 2) = false := by
        rw [lessAt_of_get hx hy]; exact h i x y hi (Nat.le_refl _) hx hy
      simp only [hi, if_true, hl, Bool.false_eq_true, if_false]
      exact ih _ hp (fun j x y hj hji => h j x y hj (by omega))
    · simp [hi]

/-! ## percolateDown -/

theorem leastChild_spec {less : α → α → Bool} (sw : StrictWeak less) {a : List α} {i : Nat}
    (h : 2 * i + 1 < a.length) :
    leastChild less a i < a.length ∧ (leastChild less a i - 1) / 2 = i ∧ i < leastChild less a i ∧
    ∀ j u xc, 0 < j → (j - 1) / 2 = i → a[j]? = some u → a[leastChild less a i]? = some xc →
      less u xc = false := by
  unfold leastChild
  by_cases h2 : a.length ≤ 2 * i + 2
  · simp only [h2, if_true]
    refine ⟨h, by omega, by omega, ?_⟩
    intro j u xc hj hpj hu hc
    have : j = 2 * i + 1 ∨ j = 2 * i + 2 := by omega
    rcases this with rfl | rfl
    · rw [hu] at hc; cases hc; exact sw.irrefl _
    · rw [List.getElem?_eq_none (by omega)] at hu; cases hu
  · simp only [h2, if_false]
    have hr : 2 * i + 2 < a.length := by omega
    obtain ⟨xl, hxl⟩ : ∃ x, a[2 * i + 1]? = some x := ⟨a[2 * i + 1], by simp [h]⟩
    obtain ⟨xr, hxr⟩ : ∃ x, a[2 * i + 2]? = some x := ⟨a[2 * i + 2], by simp [hr]⟩
    rw [lessAt_of_get hxr hxl]
    cases hl : less xr xl with
    | true =>
      simp only [if_true]
      refine ⟨hr, by omega, by omega, ?_⟩
      intro j u xc hj hpj hu hc
      have : j = 2 * i + 1 ∨ j = 2 * i + 2 := by omega
      rcases this with rfl | rfl
      · rw [hxl] at hu; rw [hxr] at hc; cases hu; cases hc; exact sw.asymm hl
      · rw [hu] at hc; cases hc; exact sw.irrefl _
    | false =>
      simp only [Bool.false_eq_true, if_false]
      refine ⟨h, by omega, by omega, ?_⟩
      intro j u xc hj hpj hu hc
      have : j = 2 * i + 1 ∨ j = 2 * i + 2 := by omega
      rcases this with rfl | rfl
      · rw [hu] at hc; cases hc; exact sw.irrefl _
      · rw [hxr] at hu; rw [hxl] at hc; cases hu; cases hc; exact hl

theorem downInv_swap {less : α → α → Bool} (sw : StrictWeak less) {a : List α} {lo i c : Nat}
    (hlo : lo ≤ i) (hc : c < a.length) (hpc : (c - 1) / 2 = i) (hic : i < c)
    (hleast : ∀ j u xc, 0 < j → (j - 1) / 2 = i → a[j]? = some u → a[c]? = some xc → less u xc = false)
    (h : DownInv less a lo i) (hl : lessAt less a c i = true) :
    DownInv less (swapAt a c i) lo c := by
  have hi : i < a.length := by omega
  obtain ⟨x, hx⟩ : ∃ x, a[c]? = some x := ⟨a[c], by simp [hc]⟩
  obtain ⟨y, hy⟩ : ∃ y, a[i]? = some y := ⟨a[i], by simp [hi]⟩
  rw [lessAt_of_get hx hy] at hl
  obtain ⟨h1, h2⟩ := h
  have asym := sw.asymm hl
  have hleast' : ∀ j u, 0 < j → (j - 1) / 2 = i → a[j]? = some u → less u x = false :=
    fun j u hj hpj hu => hleast j u x hj hpj hu hx
  have h2' : ∀ v, 0 < i → lo ≤ (i - 1) / 2 → a[(i - 1) / 2]? = some v → less x v = false :=
    fun v h0 hlo' hv => h2 c x v h0 hlo' (by omega) hpc hx hv
  constructor
  · intro j u v hj hloj hne hu hv
    rw [getElem?_swapAt hc hi] at hu hv
    by_cases hjc : j = c
    · subst hjc
      have e1 : ¬ j = i := by omega
      simp only [e1, if_false, if_true, hpc] at hu hv
      rw [hy] at hu; rw [hx] at hv; cases hu; cases hv; exact asym
    · by_cases hji : j = i
      · subst hji
        have e1 : ¬ (j - 1) / 2 = j := by omega
        simp only [if_true, e1, hne, if_false] at hu hv
        rw [hx] at hu; cases hu
        exact h2' v hj hloj hv
      · by_cases hpi : (j - 1) / 2 = i
        · simp only [hji, hjc, hpi, if_true, if_false] at hu hv
          rw [hx] at hv; cases hv
          exact hleast' j u hj hpi hu
        · simp only [hji, hjc, hpi, hne, if_false] at hu hv
          exact h1 j u v hj hloj hpi hu hv
  · intro j u v h0 hloc hj hpj hu hv
    rw [getElem?_swapAt hc hi] at hu hv
    have e1 : ¬ j = i := by omega
    have e2 : ¬ j = c := by omega
    simp only [e1, e2, if_false, hpc, if_true] at hu hv
    rw [hx] at hv; cases hv
    exact h1 j u x hj (by omega) (by omega) hu (by rw [hpj]; exact hx)

theorem downInv_done {less : α → α → Bool} (sw : StrictWeak less) {a : List α} {lo i : Nat}
    (h : DownInv less a lo i)
    (hch : ∀ j u y, 0 < j → (j - 1) / 2 = i → a[j]? = some u → a[i]? = some y → less u y = false) :
    HeapFrom less a lo := by
  intro j u v hj hlo hu hv
  by_cases hp : (j - 1) / 2 = i
  · rw [hp] at hv; exact hch j u v hj hp hu hv
  · exact h.1 j u v hj hlo hp hu hv

theorem length_downLoop (less : α → α → Bool) (f : Nat) (a : List α) (i : Nat) :
    (downLoop less f a i).1.length = a.length := by
  induction f generalizing a i with
  | zero => simp [downLoop_zero]
  | succ f ih =>
    rw [downLoop_succ]
    split
    · rfl
    · split
      · simp [ih]
      · rfl

theorem downLoop_heapFrom {less : α → α → Bool} (sw : StrictWeak less) (f : Nat) (a : List α) (lo i : Nat)
    (hlo : lo ≤ i) (hf : a.length ≤ f + i) (h : DownInv less a lo i) :
    HeapFrom less (downLoop less f a i).1 lo := by
  induction f generalizing a i with
  | zero =>
    rw [downLoop_zero]
    show HeapFrom less a lo
    refine downInv_done sw h ?_
    intro j u y hj hpj hu hy
    rw [List.getElem?_eq_none (by omega)] at hu; cases hu
  | succ f ih =>
    rw [downLoop_succ]
    by_cases h1 : a.length ≤ 2 * i + 1
    · simp only [h1, if_true]
      refine downInv_done sw h ?_
      intro j u y hj hpj hu hy
      rw [List.getElem?_eq_none (by omega)] at hu; cases hu
    · simp only [h1, if_false]
      obtain ⟨hc, hpc, hic, hleast⟩ := leastChild_spec sw (a := a) (i := i) (by omega)
      cases hl : lessAt less a (leastChild less a i) i with
      | true =>
        simp only [if_true]
        exact ih _ _ (by omega) (by simp; omega) (downInv_swap sw hlo hc hpc hic hleast h hl)
      | false =>
        simp only [Bool.false_eq_true, if_false]
        refine downInv_done sw h ?_
        intro j u y hj hpj hu hy
        obtain ⟨xc, hxc⟩ : ∃ x, a[leastChild less a i]? = some x := ⟨a[leastChild less a i], by simp [hc]⟩
        rw [lessAt_of_get hxc hy] at hl
        exact sw.neg_trans (hleast j u xc hj hpj hu hxc) hl

theorem length_percolateDown (less : α → α → Bool) (a : List α) (i : Nat) :
    (percolateDown less a i).1.length = a.length := length_downLoop _ _ _ _

theorem length_percolateUp (less : α → α → Bool) (a : List α) (i : Nat) :
    (percolateUp less a i).1.length = a.length := length_upLoop _ _ _ _

theorem percolateDown_heapFrom {less : α → α → Bool} (sw : StrictWeak less) (a : List α) (lo i : Nat)
    (hlo : lo ≤ i) (h : DownInv less a lo i) : HeapFrom less (percolateDown less a i).1 lo :=
  downLoop_heapFrom sw _ _ _ _ hlo (by omega) h

theorem percolateUp_heapInv {less : α → α → Bool} (sw : StrictWeak less) (a : List α) (i : Nat)
    (hlen : i < a.length) (h : UpInv less a i) : HeapInv less (percolateUp less a i).1 :=
  upLoop_heapInv sw _ _ _ (by omega) hlen h

/-- a full heap satisfies the sift-down invariant at any index -/
theorem downInv_of_heapInv {less : α → α → Bool} (sw : StrictWeak less) {a : List α} (i : Nat)
    (h : HeapInv less a) : DownInv less a 0 i := by
  constructor
  · intro j x y hj _ _ hx hy; exact h j x y hj hx hy
  · intro j x y hi _ hj hpj hx hy
    have hjl : j < a.length := by
      rcases Nat.lt_or_ge j a.length with h | h
      · exact h
      · rw [List.getElem?_eq_none h] at hx; cases hx
    obtain ⟨w, hw⟩ : ∃ w, a[(j - 1) / 2]? = some w := ⟨a[(j - 1) / 2]'(by omega), by simp⟩
    have e1 := h j x w hj hx hw
    rw [hpj] at hw
    exact sw.neg_trans e1 (h i w y hi hw hy)

end Juniper.Proofs.Heap
