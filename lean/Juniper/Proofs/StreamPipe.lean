import Juniper.Proofs.StreamComb
import Juniper.Proofs.StreamClose
/-!
# Stream pipelines of arbitrary depth (C08 fault sequences, C09 call log)

`SPipe α` is a pipeline of caller's-goroutine stream combinators over *any* base stream machine:
`Filter`, `Map`, `First`, `While`, `CompactFunc`, `WithPeek`, and `Chunk n` followed by `FlattenSlices`
(a composite that changes the element type in between). `spipe_sden`: it denotes the composition of the
stages' spec functions, for every termination of the base stream (end, failure) and whatever soft
failures / expired contexts happen in between. `spipe_forwards`: it forwards `Next`/`Close` to the base
stream. Callbacks fail with `Err.cb n` (`liftCb`).
-/
namespace Juniper.Proofs.StreamDen
open Juniper.Model Juniper.Model.Stream Juniper.Spec Juniper.Gen.Comb
variable {α β : Type}

/-- a user callback that may fail with its own error number `n` -/
def liftCb {γ : Type} (f : α → Except Nat γ) : α → Except Err γ := fun a =>
  match f a with
  | .ok b => .ok b
  | .error n => .error (.cb n)

theorem liftCb_hard' {soft : Err → Bool} (hcb : ∀ n, soft (.cb n) = false) {γ : Type} (f : α → Except Nat γ) :
    ∀ a e, liftCb f a = .error e → soft e = false := by
  intro a e h
  unfold liftCb at h
  split at h
  · cases h
  · cases h; exact hcb _

theorem liftCb_hard {γ : Type} (f : α → Except Nat γ) : ∀ a e, liftCb f a = .error e → Err.soft e = false :=
  liftCb_hard' (fun _ => rfl) f

inductive SPipe (α : Type) where
  | src
  | filter (keep : α → Except Nat Bool) (p : SPipe α)
  | map (f : α → Except Nat α) (p : SPipe α)
  | first (n : Int) (p : SPipe α)
  | while_ (f : α → Except Nat Bool) (p : SPipe α)
  | compact (eq : α → α → Bool) (p : SPipe α)
  | peek (p : SPipe α)
  | chunkFlat (n : Nat) (p : SPipe α)

/-- a machine over the base state type `σ0`: how to wrap a base state, and where the base state sits -/
structure SPacked (σ0 : Type) (α : Type) where
  σ : Type
  m : SM σ α
  wrap : σ0 → σ
  proj : σ → σ0

def SPipe.machine {σ0 : Type} (base : SM σ0 α) : SPipe α → SPacked σ0 α
  | .src => ⟨σ0, base, id, id⟩
  | .filter keep p =>
    let q := p.machine base
    ⟨Wrap q.σ, Stream.filter (liftCb keep) q.m, fun s => ⟨q.wrap s⟩, fun st => q.proj st.inner⟩
  | .map f p =>
    let q := p.machine base
    ⟨Wrap q.σ, Stream.map (liftCb f) q.m, fun s => ⟨q.wrap s⟩, fun st => q.proj st.inner⟩
  | .first n p =>
    let q := p.machine base
    ⟨FirstSt q.σ, Stream.first q.m, fun s => ⟨q.wrap s, n⟩, fun st => q.proj st.inner⟩
  | .while_ f p =>
    let q := p.machine base
    ⟨WhileSt q.σ α, Stream.while_ (liftCb f) q.m, fun s => ⟨q.wrap s, none, false⟩, fun st => q.proj st.inner⟩
  | .compact eq p =>
    let q := p.machine base
    ⟨CompactSt q.σ α, Stream.compact eq q.m, fun s => ⟨q.wrap s, true, none⟩, fun st => q.proj st.inner⟩
  | .peek p =>
    let q := p.machine base
    ⟨PeekSt q.σ α, Stream.withPeek q.m, fun s => ⟨q.wrap s, none⟩, fun st => q.proj st.inner⟩
  | .chunkFlat n p =>
    let q := p.machine base
    ⟨FlattenSlicesSt (ChunkSt q.σ α) α, Stream.flattenSlices (Stream.chunk (n : Int) q.m),
      fun s => ⟨⟨q.wrap s, []⟩, []⟩, fun st => q.proj st.inner.inner⟩

/-- the documented function of the pipeline on (items so far, termination of the base stream);
`c0` = items pulled before the pipeline was built -/
def SPipe.spec : SPipe α → Nat → List (α × Nat) → Term → List (α × Nat) × Term
  | .src, _, L, t => (L, t)
  | .filter keep p, c0, L, t => filterS (liftCb keep) (p.spec c0 L t).1 (p.spec c0 L t).2
  | .map f p, c0, L, t => mapS (liftCb f) (p.spec c0 L t).1 (p.spec c0 L t).2
  | .first n p, c0, L, t => ((p.spec c0 L t).1.take n.toNat, firstTermS c0 n.toNat (p.spec c0 L t).1 (p.spec c0 L t).2)
  | .while_ f p, c0, L, t => whileS (liftCb f) (p.spec c0 L t).1 (p.spec c0 L t).2
  | .compact eq p, c0, L, t => (Seq.compactGo (fun x y => eq x.1 y.1) none (p.spec c0 L t).1, (p.spec c0 L t).2)
  | .peek p, c0, L, t => p.spec c0 L t
  | .chunkFlat n p, c0, L, t =>
    ((chunkGoS n [] (p.spec c0 L t).1 (p.spec c0 L t).2).flatMap fun x => x.1.map fun a => (a, x.2), (p.spec c0 L t).2)

theorem SPipe.proj_wrap {σ0 : Type} (base : SM σ0 α) (p : SPipe α) (s : σ0) :
    (p.machine base).proj ((p.machine base).wrap s) = s := by
  induction p with
  | src => rfl
  | filter keep p ih => exact ih
  | map f p ih => exact ih
  | first n p ih => exact ih
  | while_ f p ih => exact ih
  | compact eq p ih => exact ih
  | peek p ih => exact ih
  | chunkFlat n p ih => exact ih

/-- **A stream pipeline of any depth denotes the composition of its stages' functions**, for every
termination of the base stream and any soft failures on the way (whatever counts as soft, as long as
callback failures do not). -/
theorem spipe_sden' {soft : Err → Bool} (hcb : ∀ n, soft (.cb n) = false) {σ0 : Type} {base : SM σ0 α} {c : σ0 → Nat}
    (p : SPipe α) {s : σ0} {L : List (α × Nat)} {t : Term} (h : SDen soft base c s L t) :
    SDen soft (p.machine base).m (fun st => c ((p.machine base).proj st)) ((p.machine base).wrap s)
      (p.spec (c s) L t).1 (p.spec (c s) L t).2 := by
  induction p with
  | src => exact h
  | filter keep p ih => exact filter_sden (liftCb keep) (liftCb_hard' hcb keep) ih
  | map f p ih => exact map_sden (liftCb f) (liftCb_hard' hcb f) ih
  | first n p ih =>
    have := first_sden ih n
    simp only [SPipe.proj_wrap] at this
    exact this
  | while_ f p ih => exact while_sden (liftCb f) (liftCb_hard' hcb f) ih
  | compact eq p ih => exact compact_sden eq ih none
  | peek p ih => exact peek_sden ih
  | chunkFlat n p ih => exact flattenSlices_sden (chunk_sden n ih [])

theorem spipe_sden {σ0 : Type} {base : SM σ0 α} {c : σ0 → Nat} (p : SPipe α) {s : σ0} {L : List (α × Nat)} {t : Term}
    (h : SDen Err.soft base c s L t) :
    SDen Err.soft (p.machine base).m (fun st => c ((p.machine base).proj st)) ((p.machine base).wrap s)
      (p.spec (c s) L t).1 (p.spec (c s) L t).2 := spipe_sden' (fun _ => rfl) p h

/-- **A stream pipeline of any depth forwards `Next` and `Close` to its base stream**: every step makes
at most one base step (under the same context), `Close` is exactly one base `Close` (the regenerated
`s.inner.Close()` facts, `Proofs/StreamFacts.lean`, are used by the `*_forwards` lemmas). -/
theorem spipe_forwards {σ0 : Type} (base : SM σ0 α) (p : SPipe α) :
    Forwards base (p.machine base).m (p.machine base).proj := by
  have _ties := And.intro Skeleton.Tie.stFilter (And.intro Skeleton.Tie.stMap (And.intro Skeleton.Tie.stFirst
    (And.intro Skeleton.Tie.stWhile (And.intro Skeleton.Tie.stCompact (And.intro Skeleton.Tie.stPeek
    (And.intro Skeleton.Tie.stChunk Skeleton.Tie.stFlattenSlices))))))
  induction p with
  | src => exact Forwards.refl base
  | filter keep p ih => exact ih.comp (filter_forwards (liftCb keep) _)
  | map f p ih => exact ih.comp (map_forwards (liftCb f) _)
  | first n p ih => exact ih.comp (first_forwards _)
  | while_ f p ih => exact ih.comp (while_forwards (liftCb f) _)
  | compact eq p ih => exact ih.comp (compact_forwards eq _)
  | peek p ih => exact ih.comp (withPeek_forwards _)
  | chunkFlat n p ih => exact (ih.comp (chunk_forwards (n : Int) _)).comp (flattenSlices_forwards _)

/-! ## what a failure of the base stream can turn into -/

/-- the only things a pipeline can make of a base stream that fails with `E`: `E` itself; its own
normal end, when a `First`/`While` stage had already ended; a callback's own failure that came first -/
def TermOk (E : Err) (t : Term) : Prop := t = .fail E ∨ (∃ e, t = .end_ e) ∨ ∃ n, t = .fail (.cb n)

theorem filterS_termOk {E : Err} (keep : α → Except Nat Bool) (L : List (α × Nat)) (t : Term) (h : TermOk E t) :
    TermOk E (filterS (liftCb keep) L t).2 := by
  induction L with
  | nil => exact h
  | cons x L ih =>
    obtain ⟨a, c⟩ := x
    simp only [filterS, liftCb]
    cases keep a with
    | error n => exact Or.inr (Or.inr ⟨n, rfl⟩)
    | ok b => cases b <;> exact ih

theorem mapS_termOk {E : Err} (f : α → Except Nat α) (L : List (α × Nat)) (t : Term) (h : TermOk E t) :
    TermOk E (mapS (liftCb f) L t).2 := by
  induction L with
  | nil => exact h
  | cons x L ih =>
    obtain ⟨a, c⟩ := x
    simp only [mapS, liftCb]
    cases f a with
    | error n => exact Or.inr (Or.inr ⟨n, rfl⟩)
    | ok b => exact ih

theorem whileS_termOk {E : Err} (f : α → Except Nat Bool) (L : List (α × Nat)) (t : Term) (h : TermOk E t) :
    TermOk E (whileS (liftCb f) L t).2 := by
  induction L with
  | nil => exact h
  | cons x L ih =>
    obtain ⟨a, c⟩ := x
    simp only [whileS, liftCb]
    cases f a with
    | error n => exact Or.inr (Or.inr ⟨n, rfl⟩)
    | ok b =>
      cases b
      · exact Or.inr (Or.inl ⟨c, rfl⟩)
      · exact ih

theorem firstTermS_termOk {E : Err} (c0 k : Nat) (L : List (α × Nat)) (t : Term) (h : TermOk E t) :
    TermOk E (firstTermS c0 k L t) := by
  induction k generalizing c0 L with
  | zero => exact Or.inr (Or.inl ⟨c0, rfl⟩)
  | succ k ih =>
    cases L with
    | nil => exact h
    | cons x L => obtain ⟨a, c⟩ := x; exact ih c L

/-- **`E` surfaces itself**: whatever the pipeline, a base stream failing with `E` makes the pipeline
terminate with `E` — or with its own end / its own callback failure if that came first; never with
another error, never silently. -/
theorem spipe_termOk (p : SPipe α) (c0 : Nat) (L : List (α × Nat)) (E : Err) :
    TermOk E (p.spec c0 L (.fail E)).2 := by
  induction p with
  | src => exact Or.inl rfl
  | filter keep p ih => exact filterS_termOk keep _ _ ih
  | map f p ih => exact mapS_termOk f _ _ ih
  | first n p ih => exact firstTermS_termOk _ _ _ _ ih
  | while_ f p ih => exact whileS_termOk f _ _ ih
  | compact eq p ih => exact ih
  | peek p ih => exact ih
  | chunkFlat n p ih => exact ih

/-! ## scripts with several faults -/

theorem scriptItems_append_items (er : Bool) (p : Nat) (l : List α) (rest : List (Ev α)) :
    scriptItems er p (l.map Ev.item ++ rest) =
      scriptItems er p (l.map Ev.item) ++ scriptItems er (p + l.length) rest := by
  induction l generalizing p with
  | nil => rfl
  | cons a l ih =>
    simp only [List.map_cons, List.cons_append, scriptItems, List.length_cons, ih]
    congr 3
    omega

theorem scriptTerm_append_items (er : Bool) (p : Nat) (l : List α) (rest : List (Ev α)) :
    scriptTerm er p (l.map Ev.item ++ rest) = scriptTerm er (p + l.length) rest := by
  induction l generalizing p with
  | nil => rfl
  | cons a l ih =>
    simp only [List.map_cons, List.cons_append, scriptTerm, List.length_cons, ih]
    congr 1
    omega

/-- two transient failures, anywhere: the same items (at the same pull counts) and the same end as the
fault-free script -/
theorem script_two_transients (l1 l2 l3 : List α) (n1 n2 : Nat) :
    scriptItems true 0 (l1.map Ev.item ++ .transient n1 :: (l2.map Ev.item ++ .transient n2 :: l3.map Ev.item)) =
      scriptItems true 0 ((l1 ++ l2 ++ l3).map Ev.item) ∧
    scriptTerm true 0 (l1.map Ev.item ++ .transient n1 :: (l2.map Ev.item ++ .transient n2 :: l3.map Ev.item)) =
      scriptTerm true 0 ((l1 ++ l2 ++ l3).map Ev.item) := by
  constructor
  · simp only [List.map_append, scriptItems_append_items, scriptItems, if_true, List.append_assoc, Nat.zero_add]
  · simp only [List.map_append, scriptTerm_append_items, scriptTerm, if_true, List.append_assoc, Nat.zero_add]

/-- a transient failure and later a fatal one: the items before the fatal failure, then that failure -/
theorem script_transient_then_fatal (l1 l2 : List α) (n E : Nat) (rest : List (Ev α)) :
    scriptItems true 0 (l1.map Ev.item ++ .transient n :: (l2.map Ev.item ++ .fatal E :: rest)) =
      scriptItems true 0 ((l1 ++ l2).map Ev.item) ∧
    scriptTerm true 0 (l1.map Ev.item ++ .transient n :: (l2.map Ev.item ++ .fatal E :: rest)) = .fail (.fatal E) := by
  constructor
  · simp only [List.map_append, scriptItems_append_items, scriptItems, if_true, List.append_nil, Nat.zero_add]
  · simp only [scriptTerm_append_items, scriptTerm, if_true]

/-- a fatal failure after `l`: the items of `l`, then the failure -/
theorem script_fatal (l : List α) (E : Nat) (rest : List (Ev α)) :
    scriptItems true 0 (l.map Ev.item ++ .fatal E :: rest) = scriptItems true 0 (l.map Ev.item) ∧
    scriptTerm true 0 (l.map Ev.item ++ .fatal E :: rest) = .fail (.fatal E) := by
  constructor
  · simp only [scriptItems_append_items, scriptItems, List.append_nil]
  · simp only [scriptTerm_append_items, scriptTerm]

end Juniper.Proofs.StreamDen
