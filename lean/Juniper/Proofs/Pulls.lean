import Juniper.Proofs.IterReduce
import Juniper.Proofs.IterLast
import Juniper.Proofs.IterEqual
/-!
# Closed-form pull counts (C07 laziness) for the iterator combinators and reducers that lacked them:
`Join`, `peekable` under arbitrary `Peek`/`Next` interleavings, `Reduce`/`Collect`, `Last`, `One`, `Equal`.
(`Flatten`, `Runs` are direct instances of their denotation lemmas over a slice source and are stated
in `Props/C07.lean`.)
-/
namespace Juniper.Proofs.IterDen
open Juniper.Model.Iter Juniper.Spec Juniper.Gen.Comb
universe u v w
variable {σ : Type u} {α β : Type v}

theorem src_step_cons (a : α) (r : List α) (c p : Nat) :
    (src (α := α)).step ⟨a :: r, c, p⟩ = (.item a, ⟨r, c + 1, p + 1⟩) := by
  simp [src, srcStep, itSliceDone]; omega

theorem src_step_nil (c p : Nat) : (src (α := α)).step ⟨[], c, p⟩ = (.done, ⟨[], c + 1, p⟩) := by
  simp [src, srcStep, itSliceDone]

/-! ## Join over slice sources: cost = items pulled from all arguments together -/

/-- items still unread in the remaining argument iterators -/
def joinRemaining (st : List (Src α)) : Nat := (st.map fun s => s.rest.length).sum

/-- items pulled so far, `N` being the total number of items of all arguments -/
def joinCost (N : Nat) (st : List (Src α)) : Nat := N - joinRemaining st

theorem join_src_nil (N : Nat) : Den (join (src (α := α))) (joinCost N) [] [] N := by
  have hw := ended_fixed (m := join (src (α := α))) (s := []) rfl
  have := den_of_ended (cost := joinCost N) hw.1 (fun n => by rw [hw.2 n])
  simpa [joinCost, joinRemaining] using this

theorem join_src_den (N : Nat) (r : List (Src α)) : ∀ (l : List α) (c p : Nat),
    l.length + joinRemaining r ≤ N →
    Den (join src) (joinCost N) (⟨l, c, p⟩ :: r)
      (annot (N - (l.length + joinRemaining r)) (l ++ r.flatMap fun s => s.rest)) N := by
  have _tie := Skeleton.Tie.itJoin
  induction r with
  | nil =>
    intro l
    induction l with
    | nil =>
      intro c p _
      have hs : (join (src (α := α))).step [⟨[], c, p⟩] = (.skip, []) := by
        simp [join, src, srcStep, itSliceDone, itJoinAdvances]
      simpa [annot] using Den.skip (cost := joinCost N) hs (join_src_nil N)
    | cons a l ih =>
      intro c p hN
      have hs : (join (src (α := α))).step [⟨a :: l, c, p⟩] = (.item a, [⟨l, c + 1, p + 1⟩]) := by
        simp [join, src, srcStep, itSliceDone]
      have h1 := ih (c + 1) (p + 1) (by simp [joinRemaining] at hN ⊢; omega)
      have := Den.item (cost := joinCost N) hs h1
      simp only [List.flatMap_nil, List.append_nil, annot] at this ⊢
      have e1 : joinCost N [⟨l, c + 1, p + 1⟩] = N - ((a :: l).length + joinRemaining ([] : List (Src α))) + 1 := by
        simp [joinCost, joinRemaining] at hN ⊢; omega
      have e2 : N - (l.length + joinRemaining ([] : List (Src α))) =
          N - ((a :: l).length + joinRemaining ([] : List (Src α))) + 1 := by
        simp [joinRemaining] at hN ⊢; omega
      rw [e1, e2] at this
      exact this
  | cons s r ihr =>
    intro l
    induction l with
    | nil =>
      intro c p hN
      obtain ⟨l2, c2, p2⟩ := s
      have hs : (join (src (α := α))).step (⟨[], c, p⟩ :: ⟨l2, c2, p2⟩ :: r) = (.skip, ⟨l2, c2, p2⟩ :: r) := by
        simp [join, src, srcStep, itSliceDone, itJoinAdvances]
      have h1 := ihr l2 c2 p2 (by simp [joinRemaining] at hN ⊢; omega)
      have := Den.skip (cost := joinCost N) hs h1
      simpa [joinRemaining] using this
    | cons a l ih =>
      intro c p hN
      have hs : (join (src (α := α))).step (⟨a :: l, c, p⟩ :: s :: r) = (.item a, ⟨l, c + 1, p + 1⟩ :: s :: r) := by
        simp [join, src, srcStep, itSliceDone]
      have h1 := ih (c + 1) (p + 1) (by simp at hN ⊢; omega)
      have := Den.item (cost := joinCost N) hs h1
      simp only [List.cons_append, annot]
      have e1 : joinCost N (⟨l, c + 1, p + 1⟩ :: s :: r) = N - ((a :: l).length + joinRemaining (s :: r)) + 1 := by
        simp [joinCost, joinRemaining] at hN ⊢; omega
      have e2 : N - (l.length + joinRemaining (s :: r)) = N - ((a :: l).length + joinRemaining (s :: r)) + 1 := by
        simp at hN ⊢; omega
      rw [e1, e2] at this
      exact this

theorem joinRemaining_of (ls : List (List α)) : joinRemaining (ls.map Src.of) = ls.flatten.length := by
  induction ls with
  | nil => rfl
  | cons l ls ih =>
    simp only [joinRemaining, List.map_cons, List.sum_cons, List.flatten_cons, List.length_append] at ih ⊢
    rw [ih]; rfl

theorem flatMap_rest_of (ls : List (List α)) : ((ls.map Src.of).flatMap fun s => s.rest) = ls.flatten := by
  induction ls with
  | nil => rfl
  | cons l ls ih => simp [Src.of, ih]

/-- **`Join` in closed form**: the `k`-th answer costs `k` pulls in total, whichever argument it comes
from; ended arguments are skipped without a pull of an item. -/
theorem join_pulls' (ls : List (List α)) :
    Den (join src) (joinCost ls.flatten.length) (ls.map Src.of) (annot 0 ls.flatten) ls.flatten.length := by
  cases ls with
  | nil => exact join_src_nil 0
  | cons l ls =>
    have h := join_src_den (l ++ ls.flatten).length (ls.map Src.of) l 0 0
      (by rw [joinRemaining_of]; simp)
    rw [joinRemaining_of, flatMap_rest_of] at h
    simpa [Src.of] using h

/-! ## `peekable`: any interleaving of `Peek` and `Next` over a slice source -/

inductive PeekOp where
  | next
  | peek
  deriving DecidableEq, Repr

def peekOp (m : IM σ α) : PeekOp → PeekSt σ α → Step α × PeekSt σ α
  | .next, p => peekNext m p
  | .peek, p => peekPeek m p

/-- run a script of `Next` / `Peek` calls, collecting the answers -/
def peekRun (m : IM σ α) : List PeekOp → PeekSt σ α → List (Step α) × PeekSt σ α
  | [], p => ([], p)
  | o :: ops, p =>
    let (r, p') := peekOp m o p
    let (rs, p'') := peekRun m ops p'
    (r :: rs, p'')

def toStep : Option α → Step α
  | some a => .item a
  | none => .done

/-- abstract state of a peekable over the list `l`: `j` items consumed by `Next`, `has` = an item is buffered -/
def peekTrack (len : Nat) : List PeekOp → Nat × Bool → Nat × Bool
  | [], x => x
  | .next :: ops, (j, _) => peekTrack len ops (if j < len then j + 1 else j, false)
  | .peek :: ops, (j, _) => peekTrack len ops (j, decide (j < len))

/-- the answers: every call answers the item after those consumed by the `Next` calls before it -/
def peekAnswers (l : List α) : List PeekOp → Nat → List (Step α)
  | [], _ => []
  | .next :: ops, j => toStep l[j]? :: peekAnswers l ops (j + 1)
  | .peek :: ops, j => toStep l[j]? :: peekAnswers l ops j

/-- the concrete state that corresponds to `(j, has)` -/
def PeekRel (l : List α) (j : Nat) (has : Bool) (st : PeekSt (Src α) α) : Prop :=
  j ≤ l.length ∧ (has = true → j < l.length) ∧
  st.inner.rest = l.drop (j + has.toNat) ∧ st.inner.pulled = j + has.toNat ∧
  st.curr = if has then l[j]? else none

theorem peekAnswers_ge (l : List α) (ops : List PeekOp) (j j' : Nat) (h : l.length ≤ j) (h' : l.length ≤ j') :
    peekAnswers l ops j = peekAnswers l ops j' := by
  induction ops generalizing j j' with
  | nil => rfl
  | cons o ops ih =>
    cases o <;> simp only [peekAnswers]
    · rw [List.getElem?_eq_none h, List.getElem?_eq_none h', ih (j + 1) (j' + 1) (by omega) (by omega)]
    · rw [List.getElem?_eq_none h, List.getElem?_eq_none h', ih j j' h h']

theorem peekRun_src (l : List α) (ops : List PeekOp) : ∀ (j : Nat) (has : Bool) (st : PeekSt (Src α) α),
    PeekRel l j has st →
    (peekRun src ops st).1 = peekAnswers l ops j ∧
      PeekRel l (peekTrack l.length ops (j, has)).1 (peekTrack l.length ops (j, has)).2 (peekRun src ops st).2 := by
  have _tie := Skeleton.Tie.itPeek
  induction ops with
  | nil => intro j has st h; exact ⟨rfl, h⟩
  | cons o ops ih =>
    intro j has st h
    obtain ⟨⟨rest, calls, pulled⟩, curr⟩ := st
    obtain ⟨hj, hh, hrest, hp, hc⟩ := h
    simp only at hrest hp hc
    cases has with
    | true =>
      have hjl : j < l.length := hh rfl
      have hcur : curr = some l[j] := by rw [hc]; simp [hjl]
      subst hcur
      cases o with
      | next =>
        have hstep : peekOp src .next (⟨⟨rest, calls, pulled⟩, some l[j]⟩ : PeekSt (Src α) α) =
            (.item l[j], ⟨⟨rest, calls, pulled⟩, none⟩) := by
          simp [peekOp, peekNext, itPeekNextHas, itPeekNextClearsHas]
        have := ih (j + 1) false ⟨⟨rest, calls, pulled⟩, none⟩
          ⟨by omega, by simp, by simpa using hrest, by simpa using hp, by simp⟩
        simp only [peekRun, hstep, peekAnswers, peekTrack, hjl, if_true]
        refine ⟨?_, this.2⟩
        rw [this.1]; simp [toStep, hjl]
      | peek =>
        have hstep : peekOp src .peek (⟨⟨rest, calls, pulled⟩, some l[j]⟩ : PeekSt (Src α) α) =
            (.item l[j], ⟨⟨rest, calls, pulled⟩, some l[j]⟩) := by
          simp [peekOp, peekPeek, itPeekPulls]
        have := ih j true ⟨⟨rest, calls, pulled⟩, some l[j]⟩
          ⟨hj, fun _ => hjl, hrest, hp, by simp [hjl]⟩
        simp only [peekRun, hstep, peekAnswers, peekTrack, hjl, decide_true]
        refine ⟨?_, this.2⟩
        rw [this.1]; simp [toStep, hjl]
    | false =>
      simp only [Bool.toNat_false, Nat.add_zero, Bool.false_eq_true, if_false] at hrest hp hc
      subst hc
      have hp' := hp.symm
      subst hp'
      by_cases hjl : j < l.length
      · have hr : rest = l[j] :: l.drop (j + 1) := by rw [hrest]; exact List.drop_eq_getElem_cons hjl
        subst hr
        cases o with
        | next =>
          have hstep : peekOp src .next (⟨⟨l[j] :: l.drop (j + 1), calls, j⟩, none⟩ : PeekSt (Src α) α) =
              (.item l[j], ⟨⟨l.drop (j + 1), calls + 1, j + 1⟩, none⟩) := by
            simp only [peekOp, peekNext, itPeekNextHas, src_step_cons]; rfl
          have := ih (j + 1) false ⟨⟨l.drop (j + 1), calls + 1, j + 1⟩, none⟩
            ⟨by omega, by simp, by simp, by simp, by simp⟩
          simp only [peekRun, hstep, peekAnswers, peekTrack, hjl, if_true]
          refine ⟨?_, this.2⟩
          rw [this.1]; simp [toStep, hjl]
        | peek =>
          have hstep : peekOp src .peek (⟨⟨l[j] :: l.drop (j + 1), calls, j⟩, none⟩ : PeekSt (Src α) α) =
              (.item l[j], ⟨⟨l.drop (j + 1), calls + 1, j + 1⟩, some l[j]⟩) := by
            simp only [peekOp, peekPeek, itPeekPulls, src_step_cons]; rfl
          have := ih j true ⟨⟨l.drop (j + 1), calls + 1, j + 1⟩, some l[j]⟩
            ⟨hj, fun _ => hjl, by simp, by simp, by simp [hjl]⟩
          simp only [peekRun, hstep, peekAnswers, peekTrack, hjl, decide_true]
          refine ⟨?_, this.2⟩
          rw [this.1]; simp [toStep, hjl]
      · have hr : rest = [] := by rw [hrest]; exact List.drop_of_length_le (by omega)
        subst hr
        have hn : l[j]? = none := List.getElem?_eq_none (by omega)
        cases o with
        | next =>
          have hstep : peekOp src .next (⟨⟨[], calls, j⟩, none⟩ : PeekSt (Src α) α) =
              (.done, ⟨⟨[], calls + 1, j⟩, none⟩) := by
            simp [peekOp, peekNext, itPeekNextHas, src, srcStep, itSliceDone]
          have := ih j false ⟨⟨[], calls + 1, j⟩, none⟩
            ⟨hj, by simp, by simpa using hrest, by simp, by simp⟩
          simp only [peekRun, hstep, peekAnswers, peekTrack, hjl, if_false]
          refine ⟨?_, this.2⟩
          rw [this.1, hn, peekAnswers_ge l ops (j + 1) j (by omega) (by omega)]; rfl
        | peek =>
          have hstep : peekOp src .peek (⟨⟨[], calls, j⟩, none⟩ : PeekSt (Src α) α) =
              (.done, ⟨⟨[], calls + 1, j⟩, none⟩) := by
            simp [peekOp, peekPeek, itPeekPulls, src, srcStep, itSliceDone]
          have := ih j false ⟨⟨[], calls + 1, j⟩, none⟩
            ⟨hj, by simp, by simpa using hrest, by simp, by simp⟩
          simp only [peekRun, hstep, peekAnswers, peekTrack, hjl, decide_false]
          refine ⟨?_, this.2⟩
          rw [this.1, hn]; rfl

def peekNexts (ops : List PeekOp) : Nat := ops.count .next

/-- closed form of the tracker -/
theorem peekTrack_closed (len : Nat) (ops : List PeekOp) : ∀ (j : Nat) (h : Bool), j ≤ len →
    peekTrack len ops (j, h) =
      (min (j + peekNexts ops) len,
        if ops = [] then h else decide (ops.getLast? = some .peek ∧ j + peekNexts ops < len)) := by
  induction ops with
  | nil => intro j h hj; simp [peekTrack, peekNexts]; omega
  | cons o ops ih =>
    intro j h hj
    cases o with
    | next =>
      simp only [peekTrack]
      by_cases hjl : j < len
      · rw [if_pos hjl, ih (j + 1) false (by omega)]
        have e : peekNexts (PeekOp.next :: ops) = peekNexts ops + 1 := by simp [peekNexts]
        rw [e]
        cases ops with
        | nil => simp [peekNexts] <;> omega
        | cons o' ops' =>
          simp only [reduceCtorEq, if_false, List.getLast?_cons_cons]
          congr 1
          · omega
          · have : j + 1 + peekNexts (o' :: ops') = j + (peekNexts (o' :: ops') + 1) := by omega
            rw [this]
      · rw [if_neg hjl, ih j false hj]
        have e : peekNexts (PeekOp.next :: ops) = peekNexts ops + 1 := by simp [peekNexts]
        rw [e]
        have hjl' : j = len := by omega
        cases ops with
        | nil => simp [peekNexts] <;> omega
        | cons o' ops' =>
          simp only [reduceCtorEq, if_false, List.getLast?_cons_cons]
          congr 1
          · omega
          · have h1 : ¬ (j + peekNexts (o' :: ops') < len) := by omega
            have h2 : ¬ (j + (peekNexts (o' :: ops') + 1) < len) := by omega
            simp [h1, h2]
    | peek =>
      simp only [peekTrack]
      rw [ih j _ hj]
      have e : peekNexts (PeekOp.peek :: ops) = peekNexts ops := by simp [peekNexts]
      rw [e]
      cases ops with
      | nil => simp [peekNexts]
      | cons o' ops' => simp only [reduceCtorEq, if_false, List.getLast?_cons_cons]

/-- **`WithPeek` under any interleaving of `Peek` and `Next`** over a slice source: every call answers
the item after those consumed by the earlier `Next` calls (so a `Peek` announces exactly what the next
`Next` returns, however many `Peek`s come in between), and the number of source items pulled is
`min len (#Next + [the last call was a Peek])`: a `Peek` costs at most one pull, repeated `Peek`s none. -/
theorem peek_interleave' (l : List α) (ops : List PeekOp) :
    (peekRun src ops ⟨Src.of l, none⟩).1 = peekAnswers l ops 0 ∧
    (peekRun src ops ⟨Src.of l, none⟩).2.inner.pulled =
      min l.length (peekNexts ops + if ops.getLast? = some .peek then 1 else 0) := by
  have h := peekRun_src l ops 0 false ⟨Src.of l, none⟩ ⟨by omega, by simp, by simp [Src.of], by simp [Src.of], by simp⟩
  refine ⟨h.1, ?_⟩
  obtain ⟨_, hh, _, hp, _⟩ := h.2
  rw [hp, peekTrack_closed l.length ops 0 false (by omega)]
  simp only [Nat.zero_add]
  cases ops with
  | nil => simp [peekNexts]
  | cons o ops =>
    simp only [reduceCtorEq, if_false]
    by_cases hl : (o :: ops).getLast? = some PeekOp.peek
    · by_cases hn : peekNexts (o :: ops) < l.length
      · simp [hl, hn]; omega
      · simp [hl, hn]; omega
    · simp [hl]; exact Nat.min_comm _ _

/-! ## Reducers: how many source items they consume -/

/-- `Reduce` (hence `Collect`) reads the iterator to its end: the cost afterwards is the end cost. -/
theorem reduce_cost {m : IM σ α} {cost : σ → Nat} {s : σ} {L : List (α × Nat)} {e : Nat} (f : β → α → β)
    (h : Den m cost s L e) :
    ∃ F, ∀ fuel, F ≤ fuel → ∀ acc, cost (reduce m f fuel acc s).2 = e := by
  have _tie := Skeleton.Tie.itReduce
  induction h with
  | skip hs _ ih =>
    obtain ⟨F, hF⟩ := ih
    refine ⟨F + 1, fun fuel hf acc => ?_⟩
    obtain ⟨g, rfl⟩ : ∃ g, fuel = g + 1 := ⟨fuel - 1, by omega⟩
    rw [reduce_succ, hs]
    exact hF g (by omega) acc
  | item hs _ ih =>
    obtain ⟨F, hF⟩ := ih
    refine ⟨F + 1, fun fuel hf acc => ?_⟩
    obtain ⟨g, rfl⟩ : ∃ g, fuel = g + 1 := ⟨fuel - 1, by omega⟩
    rw [reduce_succ, hs]
    exact hF g (by omega) _
  | done hs _ _ =>
    refine ⟨1, fun fuel hf acc => ?_⟩
    obtain ⟨g, rfl⟩ : ∃ g, fuel = g + 1 := ⟨fuel - 1, by omega⟩
    rw [reduce_succ, hs]

/-- `Last` reads the iterator to its end, whatever `n` is. -/
theorem lastLoop_cost {m : IM σ α} {cost : σ → Nat} {s : σ} {L : List (α × Nat)} {e : Nat} (n : Nat)
    (h : Den m cost s L e) :
    ∃ F, ∀ fuel, F ≤ fuel → ∀ (buf : List (Option α)) (i : Nat),
      cost (lastLoop m (n : Int) fuel buf (i : Int) s).2 = e := by
  have _tie := Skeleton.Tie.itLast
  induction h with
  | skip hs _ ih =>
    obtain ⟨F, hF⟩ := ih
    refine ⟨F + 1, fun fuel hf buf i => ?_⟩
    obtain ⟨g, rfl⟩ : ∃ g, fuel = g + 1 := ⟨fuel - 1, by omega⟩
    rw [lastLoop_succ, hs]
    exact hF g (by omega) buf i
  | @item s s' a L e hs _ ih =>
    obtain ⟨F, hF⟩ := ih
    refine ⟨F + 1, fun fuel hf buf i => ?_⟩
    obtain ⟨g, rfl⟩ : ∃ g, fuel = g + 1 := ⟨fuel - 1, by omega⟩
    rw [lastLoop_succ, hs]
    simp only [it_lastStore, itLastCounts, if_true]
    have e1 : ((i : Int) + 1) = ((i + 1 : Nat) : Int) := by omega
    rw [e1]
    exact hF g (by omega) _ (i + 1)
  | done hs _ _ =>
    refine ⟨1, fun fuel hf buf i => ?_⟩
    obtain ⟨g, rfl⟩ : ∃ g, fuel = g + 1 := ⟨fuel - 1, by omega⟩
    rw [lastLoop_succ, hs]

theorem last_cost {m : IM σ α} {cost : σ → Nat} {s : σ} {L : List (α × Nat)} {e : Nat} (n : Nat)
    (h : Den m cost s L e) :
    ∃ F, ∀ fuel, F ≤ fuel → cost (last m (n : Int) fuel s).2 = e := by
  obtain ⟨F, hF⟩ := lastLoop_cost n h
  obtain ⟨F', hF'⟩ := lastLoop_den n h
  refine ⟨max F F', fun fuel hf => ?_⟩
  have h1 := hF fuel (by omega) (List.replicate n none) 0
  have h2 := hF' fuel (by omega) (List.replicate n none) 0
  have hn : ¬ ((n : Int) < 0) := by omega
  have e0 : ((0 : Nat) : Int) = 0 := rfl
  rw [e0] at h1 h2
  simp only [last, hn, if_false, Int.toNat_natCast]
  rcases hl : lastLoop m (n : Int) fuel (List.replicate n none) 0 s with ⟨r, s'⟩
  rw [hl] at h1 h2
  simp only at h1 h2
  subst h2
  exact h1

/-- what `One` costs: it stops after the second item -/
def oneCost : List (α × Nat) → Nat → Nat
  | [], e => e
  | [_], e => e
  | _ :: q :: _, _ => q.2

/-- `One` makes at most two `Next` calls: it reads an empty or one-item iterator to its end and stops
with the second item otherwise. -/
theorem one_cost {m : IM σ α} {cost : σ → Nat} {s : σ} {L : List (α × Nat)} {e : Nat}
    (h : Den m cost s L e) :
    ∃ F, ∀ fuel, F ≤ fuel → cost (one m fuel s).2 = oneCost L e := by
  have _tie := Skeleton.Tie.itOne
  obtain ⟨F1, h1⟩ := drive_den h
  cases L with
  | nil =>
    refine ⟨F1, fun fuel hf => ?_⟩
    have := h1 fuel hf
    simp only at this
    simp only [one, oneCost]
    rcases hd : drive m fuel s with ⟨r, s1⟩
    rw [hd] at this
    simp only at this
    rw [this.1]
    exact this.2.2
  | cons p L' =>
    have hF1 := h1 F1 (Nat.le_refl _)
    simp only at hF1
    obtain ⟨F2, h2⟩ := drive_den hF1.2.1
    refine ⟨max F1 F2, fun fuel hf => ?_⟩
    have hmono : drive m fuel s = drive m F1 s := by
      have e1 : drive m F1 s = (some (some p.1), (drive m F1 s).2) := by rw [← hF1.1]
      rw [e1]
      exact drive_mono e1 fuel (by omega)
    have h3 := h2 fuel (by omega)
    simp only [one, hmono]
    rcases hd : drive m F1 s with ⟨r, s1⟩
    rw [hd] at hF1 h3
    simp only at hF1 h3
    rw [hF1.1]
    simp only
    cases L' with
    | nil =>
      simp only at h3
      rcases hd2 : drive m fuel s1 with ⟨r2, s2⟩
      rw [hd2] at h3
      simp only at h3
      rw [h3.1]
      exact h3.2.2
    | cons q L'' =>
      simp only at h3
      rcases hd2 : drive m fuel s1 with ⟨r2, s2⟩
      rw [hd2] at h3
      simp only at h3
      rw [h3.1]
      exact h3.2.2

/-! ## Equal over slice sources: how far each iterator is read -/

section equal
variable [DecidableEq α]

/-- one round at the level of lists: the heads are compared with `x` in order; after the first
mismatch the later lists are left alone -/
def equalRoundL (x : Option α) : List (List α) → Bool × List (List α)
  | [] => (true, [])
  | l :: r =>
    if l.head? = x then ((equalRoundL x r).1, l.tail :: (equalRoundL x r).2) else (false, l.tail :: r)

/-- `Equal` at the level of lists: the verdict and what is left unread of every list -/
def equalL : List α → List (List α) → Bool × List (List α)
  | [], ls => ((equalRoundL none ls).1, [] :: (equalRoundL none ls).2)
  | a :: l0, ls =>
    if (equalRoundL (some a) ls).1 then equalL l0 (equalRoundL (some a) ls).2
    else (false, l0 :: (equalRoundL (some a) ls).2)

/-- items of a source, read or unread -/
def tot (s : Src α) : Nat := s.pulled + s.rest.length

omit [DecidableEq α] in
theorem drive_src (fuel : Nat) (s : Src α) :
    ∃ s', drive src (fuel + 1) s = (some s.rest.head?, s') ∧ s'.rest = s.rest.tail ∧ tot s' = tot s := by
  obtain ⟨rest, c, p⟩ := s
  cases rest with
  | nil => exact ⟨⟨[], c + 1, p⟩, by rw [drive_succ, src_step_nil]; rfl, rfl, rfl⟩
  | cons a r =>
    refine ⟨⟨r, c + 1, p + 1⟩, ?_, rfl, by simp [tot]; omega⟩
    rw [drive_succ, src_step_cons]; rfl

theorem equalRound_src (fuel : Nat) (x : Option α) (ss : List (Src α)) :
    ∃ ss', equalRound src (fuel + 1) x ss = (some (equalRoundL x (ss.map (·.rest))).1, ss') ∧
      ss'.map (·.rest) = (equalRoundL x (ss.map (·.rest))).2 ∧ ss'.map tot = ss.map tot := by
  induction ss with
  | nil => exact ⟨[], by simp [equalRound, equalRoundL], rfl, rfl⟩
  | cons s r ih =>
    obtain ⟨s', hd, hr, ht⟩ := drive_src fuel s
    obtain ⟨r', hr1, hr2, hr3⟩ := ih
    rw [equalRound_cons src (fuel + 1) x s r _ s' hd]
    simp only [List.map_cons, equalRoundL]
    by_cases hx : s.rest.head? = x
    · rw [if_pos hx, if_pos hx, hr1]
      exact ⟨s' :: r', rfl, by simp [hr, hr2], by simp [ht, hr3]⟩
    · rw [if_neg hx, if_neg hx]
      exact ⟨s' :: r, rfl, by simp [hr], by simp [ht]⟩

theorem equal_src (fuel : Nat) : ∀ (l0 : List α) (s0 : Src α) (r : List (Src α)) (rounds : Nat),
    s0.rest = l0 → l0.length + 1 ≤ rounds →
    ∃ ss', equal src (fuel + 1) rounds (s0 :: r) = (some (equalL l0 (r.map (·.rest))).1, ss') ∧
      ss'.map (·.rest) = (equalL l0 (r.map (·.rest))).2 ∧ ss'.map tot = (s0 :: r).map tot := by
  have _tie := Skeleton.Tie.itEqual
  intro l0
  induction l0 with
  | nil =>
    intro s0 r rounds h0 hr
    obtain ⟨k, rfl⟩ : ∃ k, rounds = k + 1 := ⟨rounds - 1, by omega⟩
    obtain ⟨s', hd, hr', ht⟩ := drive_src fuel s0
    obtain ⟨r', hr1, hr2, hr3⟩ := equalRound_src fuel (none : Option α) r
    rw [h0] at hd hr'
    rw [equal_succ, hd]
    simp only [List.head?_nil, hr1, equalL]
    cases hb : (equalRoundL (none : Option α) (r.map (·.rest))).1 with
    | true => exact ⟨s' :: r', by simp, by simp [hr', hr2], by simp [ht, hr3]⟩
    | false => exact ⟨s' :: r', by simp, by simp [hr', hr2], by simp [ht, hr3]⟩
  | cons a l0 ih =>
    intro s0 r rounds h0 hr
    obtain ⟨k, rfl⟩ : ∃ k, rounds = k + 1 := ⟨rounds - 1, by omega⟩
    obtain ⟨s', hd, hr', ht⟩ := drive_src fuel s0
    obtain ⟨r', hr1, hr2, hr3⟩ := equalRound_src fuel (some a) r
    rw [h0] at hd hr'
    rw [equal_succ, hd]
    simp only [List.head?_cons, hr1, equalL]
    cases hb : (equalRoundL (some a) (r.map (·.rest))).1 with
    | true =>
      simp only [Option.isNone_some, Bool.false_eq_true, if_false, if_true]
      obtain ⟨ss', h1, h2, h3⟩ := ih s' r' k (by simpa using hr') (by simp at hr; omega)
      rw [hr2] at h1 h2
      exact ⟨ss', h1, h2, by rw [h3]; simp [ht, hr3]⟩
    | false =>
      simp only [Bool.false_eq_true, if_false]
      exact ⟨s' :: r', rfl, by simp [hr', hr2], by simp [ht, hr3]⟩

/-- when all lists are equal, `Equal` reads every iterator to its end -/
theorem equalRoundL_all (x : Option α) (ls : List (List α)) (h : ∀ l ∈ ls, l.head? = x) :
    equalRoundL x ls = (true, ls.map List.tail) := by
  induction ls with
  | nil => rfl
  | cons l ls ih =>
    have := ih (fun l' hl' => h l' (by simp [hl']))
    simp [equalRoundL, h l (by simp), this]

theorem equalL_all (l0 : List α) (ls : List (List α)) (h : ∀ l ∈ ls, l = l0) :
    equalL l0 ls = (true, [] :: ls.map fun _ => []) := by
  induction l0 generalizing ls with
  | nil =>
    rw [equalL, equalRoundL_all none ls (fun l hl => by rw [h l hl]; rfl)]
    simp only [Prod.mk.injEq, List.cons.injEq, true_and]
    apply List.map_congr_left
    intro l hl
    rw [h l hl]; rfl
  | cons a l0 ih =>
    rw [equalL, equalRoundL_all (some a) ls (fun l hl => by rw [h l hl]; rfl)]
    simp only [if_true]
    rw [ih (ls.map List.tail) (by
      intro l hl
      obtain ⟨l', hl', rfl⟩ := List.mem_map.mp hl
      rw [h l' hl']; rfl)]
    simp

end equal

end Juniper.Proofs.IterDen
