import Juniper.Proofs.IterComb
/-! # Laziness: minimality of the pull counts (C07 `need_minimal_*`) -/
namespace Juniper.Proofs.IterDen
open Juniper.Model.Iter Juniper.Spec
universe u v
variable {α β : Type v}

/-- with fewer than `k` items the `k`-th answer is the end, with at least `k` it is an item -/
theorem ideal_ne_of_length (l1 l2 : List α) (k : Nat) (h1 : l1.length < k) (h2 : k ≤ l2.length) :
    ideal l1 k ≠ ideal l2 k := by
  induction k generalizing l1 l2 with
  | zero => omega
  | succ k ih =>
    cases l2 with
    | nil => simp at h2
    | cons b l2 =>
      cases l1 with
      | nil => simp [ideal]
      | cons a l1 =>
        simp only [ideal]
        intro h
        injection h with _ ht
        exact ih l1 l2 (by simp at h1; omega) (by simp at h2; omega) ht

/-- the annotation of the `k`-th item (1-based) of a slice source is `p + k` -/
theorem annot_get (p : Nat) (l : List α) (k : Nat) (hk : k < l.length) :
    ((annot p l)[k]'(by rw [← List.length_map (f := Prod.fst), annot_fst]; exact hk)).2 = p + k + 1 := by
  induction l generalizing p k with
  | nil => simp at hk
  | cons a l ih =>
    cases k with
    | zero => simp [annot]
    | succ k =>
      simp only [annot, List.getElem_cons_succ]
      rw [ih (p + 1) k (by simp at hk; omega)]
      omega

/-- **`need_minimal_map`**: the `k`-th answer of `Map` costs `k` pulls (`map_pulls`), and `k - 1` items
leave it undetermined: on the shorter input the `k`-th answer is the end. -/
theorem need_minimal_map' (f : α → β) (l : List α) (k : Nat) (hk1 : 1 ≤ k) (hk : k ≤ l.length) :
    ideal ((l.take (k - 1)).map f) k ≠ ideal (l.map f) k :=
  ideal_ne_of_length _ _ k (by simp; omega) (by simp; exact hk)

/-- every annotated item of a slice source is the item at the position its annotation names -/
theorem annot_mem (p : Nat) (l : List α) (q : α × Nat) (hq : q ∈ annot p l) :
    p < q.2 ∧ l[q.2 - p - 1]? = some q.1 := by
  induction l generalizing p with
  | nil => simp [annot] at hq
  | cons a l ih =>
    simp only [annot, List.mem_cons] at hq
    rcases hq with rfl | hq
    · simp
    · obtain ⟨h1, h2⟩ := ih (p + 1) hq
      refine ⟨by omega, ?_⟩
      obtain ⟨d, hd⟩ : ∃ d, q.2 - p - 1 = d + 1 := ⟨q.2 - p - 2, by omega⟩
      rw [hd, List.getElem?_cons_succ]
      have : q.2 - (p + 1) - 1 = d := by omega
      rw [← this]; exact h2

/-- **`need_minimal_filter`**: the answer that `Filter` delivers at cost `c` *is* the `c`-th source
item: `c - 1` items cannot determine it. (The same holds for `First`, `While`, `CompactFunc`, `WithPeek`,
whose annotated outputs are sub-lists of the source's.) -/
theorem need_minimal_filter' (keep : α → Bool) (l : List α) (q : α × Nat)
    (hq : q ∈ (annot 0 l).filter fun r => keep r.1) : 0 < q.2 ∧ l[q.2 - 1]? = some q.1 := by
  have := annot_mem 0 l q (List.mem_filter.mp hq).1
  simpa using this

theorem need_minimal_first' (n : Nat) (l : List α) (q : α × Nat) (hq : q ∈ (annot 0 l).take n) :
    0 < q.2 ∧ l[q.2 - 1]? = some q.1 := by
  have := annot_mem 0 l q (List.mem_of_mem_take hq)
  simpa using this

theorem need_minimal_while' (f : α → Bool) (l : List α) (q : α × Nat)
    (hq : q ∈ (annot 0 l).takeWhile fun r => f r.1) : 0 < q.2 ∧ l[q.2 - 1]? = some q.1 := by
  have := annot_mem 0 l q ((List.takeWhile_sublist _).mem hq)
  simpa using this

end Juniper.Proofs.IterDen
