import Juniper.Proofs.GroupInv
/-! Helper lemmas for C17, progress part: the measure `dist` (how many steps a registration's own
goroutine is away from beginning a run of `f`), "every step decreases it or begins a run", and
"a step is enabled". -/
namespace Juniper.Proofs.GroupProgress
open Juniper.Facts Juniper.Gen.Group Juniper.Model.Group Juniper.Proofs.GroupLocal Juniper.Proofs.GroupInv

/-- steps of the registration's own goroutine until the next run of `f` begins (0 = not on its way) -/
def dist : Pc → Nat
  | .callF => 1 | .resetTimer => 2 | .potDrain => 3 | .potStop => 4 | .atSelect => 5 | .loopHead => 6
  | .init => 7 | .inF => 7 | .spawnUnlocked => 8 | .spawnAdded => 9
  | _ => 0

/-- decided over the finite table of thread steps: unless the step leaves the loop (`exiting`, only
possible when the context has ended), it begins a run or strictly decreases `dist` -/
theorem triples_dist : ∀ x ∈ triples, 0 < dist x.1 → x.2.1 = .exiting ∨ x.2.1 = .inF ∨
    (0 < dist x.2.1 ∧ dist x.2.1 < dist x.1) := by decide

/-- Every step of a goroutine that is on its way to a run, while the group's context is live, begins
the run or brings it strictly closer; a pending trigger (token in the channel, or already received)
stays pending until the run begins. -/
theorem step_decreases {v : View} {t t' : Thread} {c : Nat} {off : Int} {e : Eff}
    (h : threadStep v t c off = some (t', e)) (hctx : v.ctxDone = false) (hd : 0 < dist t.pc) :
    ((t'.pc = .inF ∧ t'.runs = t.runs + 1 ∧ t'.active = t.active + 1) ∨
     (0 < dist t'.pc ∧ dist t'.pc < dist t.pc ∧ t'.runs = t.runs ∧ t'.pc ≠ .inF)) ∧
    (t.token = true ∨ committed t.pc = true → t'.token = true ∨ committed t'.pc = true ∨ t'.pc = .inF) := by
  obtain ⟨Ftr, _, _, _, _, _, _, _, Fruns, _, _, Fexit, Fpend, _, Fact, _⟩ := threadStep_facts h
  refine ⟨?_, Fpend⟩
  rcases triples_dist _ Ftr hd with hx | hx | hx
  · have := Fexit hx; rw [hctx] at this; cases this
  · simp only at hx
    left; exact ⟨hx, by simp [Fruns, hx], by simp [Fact, hx]⟩
  · simp only at hx
    right
    have hne : t'.pc ≠ .inF := by
      intro hin
      have A := triples_acct _ Ftr
      have := A.2.2.2.2.2.2.2.1 hin
      simp only at this
      rw [this, hin] at hx
      simp [dist] at hx
    exact ⟨hx.1, hx.2, by simp [Fruns, hne], hne⟩

/-- what a goroutine parked at the `select` of its loop needs in order to move (context live) -/
def selectReady (t : Thread) : Prop :=
  t.pc = .atSelect →
    (t.kind = .trigger ∧ t.token = true) ∨ (t.kind = .periodic ∧ t.timer = .fired) ∨
    (t.kind = .pot ∧ (t.token = true ∨ t.timer = .fired))

/-- A goroutine on its way to a run always has an enabled step of its own, except while `f` runs
(then `f` returning is the next step) and while it is parked at the `select` with nothing ready. In
particular the drain `<-t.C` of PeriodicOrTrigger never blocks. -/
theorem step_enabled {v : View} {t : Thread} (hinv : ThreadInv t) (hd : 0 < dist t.pc) (hne : t.pc ≠ .inF)
    (hsel : selectReady t) : ∃ c, (threadStep v t c 0).isSome = true := by
  obtain ⟨_, _, htm, hkp⟩ := hinv
  have hoff : -(t.jitter.natAbs : Int) ≤ 0 ∧ (0 : Int) ≤ t.jitter.natAbs := by omega
  cases hpc : t.pc <;> rw [hpc] at hd <;> simp [dist] at hd
  case spawnAdded => exact ⟨0, by simp [threadStep, hpc]⟩
  case spawnUnlocked => exact ⟨0, by simp [threadStep, hpc]⟩
  case init =>
    cases hk : t.kind
    · exact ⟨0, by simp [threadStep, hpc, hk]⟩
    · exact ⟨0, by simp [threadStep, hpc, hk]⟩
    · exact ⟨0, by simp [threadStep, hpc, hk, armTimer, hoff]⟩
    · exact ⟨0, by simp [threadStep, hpc, hk, armTimer, hoff]⟩
  case loopHead =>
    refine ⟨0, ?_⟩
    unfold threadStep; rw [hpc]; dsimp only
    split <;> rfl
  case atSelect =>
    rcases hsel hpc with ⟨hk, htok⟩ | ⟨hk, hf⟩ | ⟨hk, htok | hf⟩
    · exact ⟨1, by simp [threadStep, hpc, hk, loopOf_trigger, armReady, htok]⟩
    · exact ⟨1, by simp [threadStep, hpc, hk, loopOf_periodic, armReady, hf]⟩
    · exact ⟨2, by simp [threadStep, hpc, hk, loopOf_pot, armReady, htok]⟩
    · exact ⟨1, by simp [threadStep, hpc, hk, loopOf_pot, armReady, hf]⟩
  case potStop =>
    refine ⟨0, ?_⟩
    unfold threadStep; rw [hpc]; dsimp only
    split
    · rfl
    · split <;> rfl
    · rfl
  case potDrain =>
    refine ⟨0, ?_⟩
    have hk := hkp (Or.inr hpc)
    have := htm (Or.inr hk)
    rw [hpc] at this
    simp only at this
    unfold threadStep; rw [hpc]; dsimp only
    rw [if_pos this]; rfl
  case resetTimer => exact ⟨0, by simp [threadStep, hpc, armTimer, hoff]⟩
  case callF => exact ⟨0, by simp [threadStep, hpc]⟩
  case inF => exact absurd hpc hne

/-! ### Lifting to the global LTS -/

theorem work_some {s : GState} {i c : Nat} {off : Int} {t : Thread} (hti : s.threads[i]? = some t)
    (h : (threadStep (view s) t c off).isSome = true) : (step s (.work i c off)).isSome = true := by
  simp only [step, hti]
  cases hts : threadStep (view s) t c off with
  | none => rw [hts] at h; cases h
  | some p => rfl

theorem work_inv {s s' : GState} {i c : Nat} {off : Int} (h : step s (.work i c off) = some s') :
    ∃ t t' e, s.threads[i]? = some t ∧ threadStep (view s) t c off = some (t', e) ∧ s'.threads[i]? = some t' ∧
      s'.ctxDone = s.ctxDone := by
  simp only [step] at h
  cases hti : s.threads[i]? with
  | none => simp [hti] at h
  | some t =>
    simp only [hti] at h
    cases hts : threadStep (view s) t c off with
    | none => simp [hts] at h
    | some p =>
      obtain ⟨t', e⟩ := p
      simp only [hts, Option.some.injEq] at h
      subst h
      obtain ⟨hi, _⟩ := getElem?_some hti
      refine ⟨t, t', e, rfl, hts, ?_, ?_⟩
      · cases e <;> simp [applyEff, hi] <;> split <;> simp [hi]
      · cases e <;> simp [applyEff] <;> split <;> rfl

theorem reach_trans {a b c : GState} (h1 : Reach a b) (h2 : Reach b c) : Reach a c := by
  induction h2 with
  | refl => exact h1
  | step l _ hs ih => exact .step l ih hs

theorem barrier_mono {s s' : GState} {l : GLabel} (h : step s l = some s') (hb : s.barrier = true) :
    s'.barrier = true := by
  cases l <;> simp only [step] at h
  case register => cases h; exact hb
  case work i c off =>
    split at h
    · cases h
    · split at h
      · cases h
      · cases h
        rename_i e _
        cases e <;> simp only [applyEff] <;> try exact hb
        split <;> exact hb
  case fEnd => split at h <;> (try split at h) <;> cases h; exact hb
  case trig => split at h <;> (try split at h) <;> cases h; exact hb
  case fireTimer =>
    split at h
    · cases h
    · split at h
      · split at h <;> cases h; exact hb
      · cases h
  case advance => split at h <;> cases h; exact hb
  case parentCancel => cases h; exact hb
  case stopCall => cases h; exact hb
  case stopStep =>
    split at h
    · cases h
    · split at h
      · cases h
      · split at h <;> cases h; exact hb
      · cases h; exact hb
      · split at h <;> cases h <;> exact hb
      · split at h <;> cases h; simp [hb]
      · cases h; exact hb

theorem barrier_reach {s s' : GState} (hr : Reach s s') (hb : s.barrier = true) : s'.barrier = true := by
  induction hr with
  | refl => exact hb
  | step l _ hs ih => exact barrier_mono hs ih

/-- the pcs a thread can be at once the wait group is empty and no spawn is past its check -/
theorem pc_after_barrier {p : Pc} (h1 : wgOf p = 0) (h2 : p ≠ .spawnChecked) (h3 : p ≠ .spawnLate) :
    p = .spawnStart ∨ p = .spawnLocked ∨ p = .spawnBail ∨ p = .notSpawned ∨ p = .exited := by
  cases p <;> simp_all [wgOf]

/-! ### Building reachability witnesses (for the non-vacuity examples) -/

def runG (s : GState) : List GLabel → Option GState
  | [] => some s
  | l :: ls => (step s l).bind (fun s' => runG s' ls)

theorem reach_of_runG : ∀ (ls : List GLabel) (s0 s s' : GState), Reach s0 s → runG s ls = some s' → Reach s0 s'
  | [], s0, s, s', hr, h => by simp [runG] at h; subst h; exact hr
  | l :: ls, s0, s, s', hr, h => by
    simp only [runG] at h
    cases hs : step s l with
    | none => simp [hs] at h
    | some s1 =>
      simp [hs] at h
      exact reach_of_runG ls s0 s1 s' (.step l hr hs) h

end Juniper.Proofs.GroupProgress
