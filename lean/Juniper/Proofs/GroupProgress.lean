import Juniper.Proofs.GroupInv
/-! Helper lemmas for C17, progress part: the measure `dist` (how many steps a registration's own
goroutine is away from beginning a run of `f`), "every step decreases it or begins a run", and
"a step is enabled". -/
namespace Juniper.Proofs.GroupProgress
open Juniper.Facts Juniper.Gen.Group Juniper.Model.Group Juniper.Proofs.GroupLocal Juniper.Proofs.GroupInv

/-- steps of the registration's own goroutine until the next run of `f` begins (0 = not on its way) -/
def dist : Pc → Nat
  | .callF => 1 | .resetTimer => 2 | .potDrain => 3 | .potStop => 4 | .atSelect => 5 | .loopHead => 6
  | .init => 7 | .inF => 7 | .spawnUnlocked => 8 | .spawnAdded => 9
  | _ => 0

/-- decided over the finite table of thread steps: unless the step leaves the loop (`exiting`, only
possible when the context has ended), it begins a run or strictly decreases `dist` -/
theorem triples_dist : ∀ x ∈ triples, 0 < dist x.1 → x.2.1 = .exiting ∨ x.2.1 = .inF ∨
    (0 < dist x.2.1 ∧ dist x.2.1 < dist x.1) := by decide

/-- Every step of a goroutine that is on its way to a run, while the group's context is live, begins
the run or brings it strictly closer; a pending trigger (token in the channel, or already received)
stays pending until the run begins. -/
theorem step_decreases {v : View} {t t' : Thread} {c : Nat} {off : Int} {e : Eff}
    (h : threadStep v t c off = some (t', e)) (hctx : v.ctxDone = false) (hd : 0 < dist t.pc) :
    ((t'.pc = .inF ∧ t'.runs = t.runs + 1 ∧ t'.active = t.active + 1) ∨
     (0 < dist t'.pc ∧ dist t'.pc < dist t.pc ∧ t'.runs = t.runs ∧ t'.pc ≠ .inF)) ∧
    (t.token = true ∨ committed t.pc = true → t'.token = true ∨ committed t'.pc = true ∨ t'.pc = .inF) := by
  obtain ⟨Ftr, _, _, _, _, _, _, _, Fruns, _, _, Fexit, Fpend, _, Fact, _⟩ := threadStep_facts h
  refine ⟨?_, Fpend⟩
  rcases triples_dist _ Ftr hd with hx | hx | hx
  · have := Fexit hx; rw [hctx] at this; cases this
  · simp only at hx
    left; exact ⟨hx, by simp [Fruns, hx], by simp [Fact, hx]⟩
  · simp only at hx
    right
    have hne : t'.pc ≠ .inF := by
      intro hin
      have A := triples_acct _ Ftr
      have := A.2.2.2.2.2.2.2.1 hin
      simp only at this
      rw [this, hin] at hx
      simp [dist] at hx
    exact ⟨hx.1, hx.2, by simp [Fruns, hne], hne⟩

/-- what a goroutine parked at the `select` of its loop needs in order to move (context live) -/
def selectReady (t : Thread) : Prop :=
  t.pc = .atSelect →
    (t.kind = .trigger ∧ t.token = true) ∨ (t.kind = .periodic ∧ t.timer = .fired) ∨
    (t.kind = .pot ∧ (t.token = true ∨ t.timer = .fired))

/-- A goroutine on its way to a run always has an enabled step of its own, except while `f` runs
(then `f` returning is the next step) and while it is parked at the `select` with nothing ready. In
particular the drain `<-t.C` of PeriodicOrTrigger never blocks. -/
theorem step_enabled {v : View} {t : Thread} (hinv : ThreadInv t) (hd : 0 < dist t.pc) (hne : t.pc ≠ .inF)
    (hsel : selectReady t) : ∃ c, (threadStep v t c 0).isSome = true := by
  obtain ⟨_, _, htm, hkp⟩ := hinv
  have hoff : -(t.jitter.natAbs : Int) ≤ 0 ∧ (0 : Int) ≤ t.jitter.natAbs := by omega
  cases hpc : t.pc <;> rw [hpc] at hd <;> simp [dist] at hd
  case spawnAdded => exact ⟨0, by simp [threadStep, hpc]⟩
  case spawnUnlocked => exact ⟨0, by simp [threadStep, hpc]⟩
  case init =>
    cases hk : t.kind
    · exact ⟨0, by simp [threadStep, hpc, hk]⟩
    · exact ⟨0, by simp [threadStep, hpc, hk]⟩
    · exact ⟨0, by simp [threadStep, hpc, hk, armTimer, hoff]⟩
    · exact ⟨0, by simp [threadStep, hpc, hk, armTimer, hoff]⟩
  case loopHead =>
    refine ⟨0, ?_⟩
    unfold threadStep; rw [hpc]; dsimp only
    split <;> rfl
  case atSelect =>
    rcases hsel hpc with ⟨hk, htok⟩ | ⟨hk, hf⟩ | ⟨hk, htok | hf⟩
    · exact ⟨1, by simp [threadStep, hpc, hk, loopOf_trigger, armReady, htok]⟩
    · exact ⟨1, by simp [threadStep, hpc, hk, loopOf_periodic, armReady, hf]⟩
    · exact ⟨2, by simp [threadStep, hpc, hk, loopOf_pot, armReady, htok]⟩
    · exact ⟨1, by simp [threadStep, hpc, hk, loopOf_pot, armReady, hf]⟩
  case potStop =>
    refine ⟨0, ?_⟩
    unfold threadStep; rw [hpc]; dsimp only
    split
    · rfl
    · split <;> rfl
    · rfl
  case potDrain =>
    refine ⟨0, ?_⟩
    have hk := hkp (Or.inr hpc)
    have := htm (Or.inr hk)
    rw [hpc] at this
    simp only at this
    unfold threadStep; rw [hpc]; dsimp only
    rw [if_pos this]; rfl
  case resetTimer => exact ⟨0, by simp [threadStep, hpc, armTimer, hoff]⟩
  case callF => exact ⟨0, by simp [threadStep, hpc]⟩
  case inF => exact absurd hpc hne

/-! ### Lifting to the global LTS -/

theorem work_some {s : GState} {i c : Nat} {off : Int} {t : Thread} (hti : s.threads[i]? = some t)
    (h : (threadStep (view s) t c off).isSome = true) : (step s (.work i c off)).isSome = true := by
  simp only [step, hti]
  cases hts : threadStep (view s) t c off with
  | none => rw [hts] at h; cases h
  | some p => rfl

theorem work_inv {s s' : GState} {i c : Nat} {off : Int} (h : step s (.work i c off) = some s') :
    ∃ t t' e, s.threads[i]? = some t ∧ threadStep (view s) t c off = some (t', e) ∧ s'.threads[i]? = some t' ∧
      s'.ctxDone = s.ctxDone := by
  simp only [step] at h
  cases hti : s.threads[i]? with
  | none => simp [hti] at h
  | some t =>
    simp only [hti] at h
    cases hts : threadStep (view s) t c off with
    | none => simp [hts] at h
    | some p =>
      obtain ⟨t', e⟩ := p
      simp only [hts, Option.some.injEq] at h
      subst h
      obtain ⟨hi, _⟩ := getElem?_some hti
      refine ⟨t, t', e, rfl, hts, ?_, ?_⟩
      · cases e <;> simp [applyEff, hi] <;> split <;> simp [hi]
      · cases e <;> simp [applyEff] <;> split <;> rfl

theorem reach_trans {a b c : GState} (h1 : Reach a b) (h2 : Reach b c) : Reach a c := by
  induction h2 with
  | refl => exact h1
  | step l _ hs ih => exact .step l ih hs

theorem barrier_mono {s s' : GState} {l : GLabel} (h : step s l = some s') (hb : s.barrier = true) :
    s'.barrier = true := by
  cases l <;> simp only [step] at h
  case register => cases h; exact hb
  case work i c off =>
    split at h
    · cases h
    · split at h
      · cases h
      · cases h
        rename_i e _
        cases e <;> simp only [applyEff] <;> try exact hb
        split <;> exact hb
  case fEnd => split at h <;> (try split at h) <;> cases h; exact hb
  case trig => split at h <;> (try split at h) <;> cases h; exact hb
  case fireTimer =>
    split at h
    · cases h
    · split at h
      · split at h <;> cases h; exact hb
      · cases h
  case advance => split at h <;> cases h; exact hb
  case parentCancel => cases h; exact hb
  case stopCall => cases h; exact hb
  case stopStep =>
    split at h
    · cases h
    · split at h
      · cases h
      · split at h <;> cases h; exact hb
      · cases h; exact hb
      · split at h <;> cases h <;> exact hb
      · split at h <;> cases h; simp [hb]
      · cases h; exact hb

theorem barrier_reach {s s' : GState} (hr : Reach s s') (hb : s.barrier = true) : s'.barrier = true := by
  induction hr with
  | refl => exact hb
  | step l _ hs ih => exact barrier_mono hs ih

/-- the pcs a thread can be at once the wait group is empty and no spawn is past its check -/
theorem pc_after_barrier {p : Pc} (h1 : wgOf p = 0) (h2 : p ≠ .spawnChecked) (h3 : p ≠ .spawnLate) :
    p = .spawnStart ∨ p = .spawnLocked ∨ p = .spawnBail ∨ p = .notSpawned ∨ p = .exited := by
  cases p <;> simp_all [wgOf]

/-! ### Stability under the other labels, and "live context ⇒ on its way" (audit C17 F4)

`step_decreases` / `step_enabled` speak about the steps of a registration's own goroutine. What makes them a
progress argument is that *nothing else* moves that goroutine, takes its token away, clears `owed` or
un-fires its timer (`env_stable`), and that a registration whose context is live cannot have left its loop
(`live_on_its_way`). Together: `own_steps_bounded`. -/

/-- `l` is a step of registration `i`'s own goroutine, or its `f` returning -/
def isOwn (i : Nat) : GLabel → Bool
  | .work j _ _ => j == i
  | .fEnd j => j == i
  | _ => false

theorem applyEff_threads (s : GState) (e : Eff) : (applyEff s e).threads = s.threads := by
  cases e <;> simp only [applyEff] <;> (try split) <;> rfl

theorem applyEff_ctx (s : GState) (e : Eff) : (applyEff s e).ctxDone = s.ctxDone := by
  cases e <;> simp only [applyEff] <;> (try split) <;> rfl

/-- **Every label other than the registration's own steps leaves its goroutine where it is**: same pc,
kind, `runs`, `active`; a pending token stays, `owed` stays, a fired timer stays fired, a non-idle timer
stays non-idle (the only changes possible are: a trigger call adds the token and `owed`, the runtime fires
the armed timer). -/
theorem env_stable {s s' : GState} {l : GLabel} {i : Nat} {t : Thread}
    (h : step s l = some s') (hti : s.threads[i]? = some t) (hl : isOwn i l = false) :
    ∃ t', s'.threads[i]? = some t' ∧ t'.pc = t.pc ∧ t'.kind = t.kind ∧ t'.runs = t.runs ∧ t'.active = t.active ∧
      (t.owed = true → t'.owed = true) ∧ (t.token = true → t'.token = true) ∧
      (t.timer = .fired → t'.timer = .fired) ∧ (t.timer ≠ .idle → t'.timer ≠ .idle) := by
  have same : s'.threads[i]? = some t → ∃ t', s'.threads[i]? = some t' ∧ t'.pc = t.pc ∧ t'.kind = t.kind ∧
      t'.runs = t.runs ∧ t'.active = t.active ∧ (t.owed = true → t'.owed = true) ∧ (t.token = true → t'.token = true) ∧
      (t.timer = .fired → t'.timer = .fired) ∧ (t.timer ≠ .idle → t'.timer ≠ .idle) :=
    fun h => ⟨t, h, rfl, rfl, rfl, rfl, id, id, id, id⟩
  obtain ⟨hlt, _⟩ := getElem?_some hti
  cases l with
  | register k iv j =>
    simp only [step, Option.some.injEq] at h
    subst h
    exact same (by simp [List.getElem?_append_left hlt, hti])
  | work j c off =>
    have hji : j ≠ i := by simpa [isOwn] using hl
    simp only [step] at h
    split at h
    · cases h
    · split at h
      · cases h
      · simp only [Option.some.injEq] at h
        subst h
        exact same (by rw [applyEff_threads]; simp [List.getElem?_set_ne hji, hti])
  | fEnd j =>
    have hji : j ≠ i := by simpa [isOwn] using hl
    simp only [step] at h
    split at h
    · cases h
    · split at h
      · simp only [Option.some.injEq] at h
        subst h
        exact same (by simp [List.getElem?_set_ne hji, hti])
      · cases h
  | trig j =>
    simp only [step] at h
    split at h
    · cases h
    · rename_i tj htj
      split at h
      · cases h
      · rename_i tj' hsend
        simp only [Option.some.injEq] at h
        subst h
        by_cases hji : j = i
        · subst hji
          rw [hti] at htj; cases htj
          obtain ⟨_, rfl⟩ := trigSend_spec hsend
          exact ⟨{ t with token := true, owed := true }, by simp [hlt], rfl, rfl, rfl, rfl, fun _ => rfl, fun _ => rfl, id, id⟩
        · exact same (by simp [List.getElem?_set_ne hji, hti])
  | fireTimer j =>
    simp only [step] at h
    split at h
    · cases h
    · rename_i tj htj
      split at h
      · split at h
        · simp only [Option.some.injEq] at h
          subst h
          by_cases hji : j = i
          · subst hji
            rw [hti] at htj; cases htj
            exact ⟨{ t with timer := .fired }, by simp [hlt], rfl, rfl, rfl, rfl, id, id, fun _ => rfl, fun _ => by simp⟩
          · exact same (by simp [List.getElem?_set_ne hji, hti])
        · cases h
      · cases h
  | advance dt =>
    simp only [step] at h
    split at h
    · cases h; exact same hti
    · cases h
  | parentCancel => simp only [step, Option.some.injEq] at h; subst h; exact same hti
  | stopCall w => simp only [step, Option.some.injEq] at h; subst h; exact same hti
  | stopStep j =>
    simp only [step] at h
    split at h
    · cases h
    · split at h
      · cases h
      · split at h <;> cases h; exact same hti
      · cases h; exact same hti
      · split at h <;> cases h <;> exact same hti
      · split at h <;> cases h; exact same hti
      · cases h; exact same hti

/-- the context, once cancelled, stays cancelled -/
theorem ctx_mono {s s' : GState} {l : GLabel} (h : step s l = some s') (hc : s.ctxDone = true) : s'.ctxDone = true := by
  cases l <;> simp only [step] at h
  case register => cases h; exact hc
  case work i c off =>
    split at h
    · cases h
    · split at h
      · cases h
      · cases h; rw [applyEff_ctx]; exact hc
  case fEnd => split at h <;> (try split at h) <;> cases h; exact hc
  case trig => split at h <;> (try split at h) <;> cases h; exact hc
  case fireTimer =>
    split at h
    · cases h
    · split at h
      · split at h <;> cases h; exact hc
      · cases h
  case advance => split at h <;> cases h; exact hc
  case parentCancel => cases h; rfl
  case stopCall => cases h; exact hc
  case stopStep =>
    split at h
    · cases h
    · split at h
      · cases h
      · split at h <;> cases h; exact hc
      · cases h; rfl
      · split at h <;> cases h <;> exact hc
      · split at h <;> cases h; exact hc
      · cases h; exact hc

/-- pcs from which a registration's goroutine never runs `f` again -/
def gone : Pc → Bool
  | .exiting | .exited | .spawnBail | .notSpawned => true
  | _ => false

theorem triples_gone : ∀ x ∈ triples, gone x.2.1 = true → gone x.1 = true ∨ x.2.1 = .exiting ∨ x.2.1 = .spawnBail := by
  decide

/-- only a cancelled context (or, for `Do`, the end of its single run) takes a registration out of its loop -/
def LiveInv (s : GState) : Prop := ∀ t ∈ s.threads, gone t.pc = true → s.ctxDone = true ∨ t.kind = .doOnce

theorem liveinv_step {s s' : GState} {l : GLabel} (hi : LiveInv s) (h : step s l = some s') : LiveInv s' := by
  have keep : s'.threads = s.threads → LiveInv s' := by
    intro ht t hm hg
    rw [ht] at hm
    rcases hi t hm hg with hc | hk
    · exact Or.inl (ctx_mono h hc)
    · exact Or.inr hk
  cases l with
  | register k iv j =>
    have h' := h
    simp only [step, Option.some.injEq] at h'
    subst h'
    intro t hm hg
    simp only [List.mem_append, List.mem_singleton] at hm
    rcases hm with hm | rfl
    · exact hi t hm hg
    · simp [newThread, gone] at hg
  | work i c off =>
    obtain ⟨t0, t1, e, h0, hts, h1, hctx⟩ := work_inv h
    have h' := h
    simp only [step, h0, hts, Option.some.injEq] at h'
    intro t hm hg
    rw [← h', applyEff_threads] at hm
    rcases mem_set hm with hm | rfl
    · rcases hi t hm hg with hc | hk
      · exact Or.inl (ctx_mono h hc)
      · exact Or.inr hk
    · obtain ⟨Ftr, Fk, _, _, _, _, Fbail, _, _, _, _, Fexit, _⟩ := threadStep_facts hts
      rcases triples_gone _ Ftr hg with hx | hx | hx
      · rcases hi t0 (List.mem_of_getElem? h0) hx with hc | hk
        · exact Or.inl (by rw [hctx]; exact hc)
        · exact Or.inr (by rw [Fk]; exact hk)
      · exact Or.inl (by rw [hctx]; simpa [view] using Fexit hx)
      · exact Or.inl (by rw [hctx]; simpa [view] using Fbail hx)
  | fEnd i =>
    have h' := h
    simp only [step] at h'
    split at h'
    · cases h'
    · rename_i t0 h0
      split at h'
      · simp only [Option.some.injEq] at h'
        subst h'
        intro t hm hg
        rcases mem_set hm with hm | rfl
        · exact hi t hm hg
        · by_cases hk : t0.kind = .doOnce
          · exact Or.inr hk
          · simp [hk, gone] at hg
      · cases h'
  | trig i =>
    have h' := h
    simp only [step] at h'
    split at h'
    · cases h'
    · rename_i t0 h0
      split at h'
      · cases h'
      · rename_i t1 hsend
        simp only [Option.some.injEq] at h'
        subst h'
        obtain ⟨_, rfl⟩ := trigSend_spec hsend
        intro t hm hg
        rcases mem_set hm with hm | rfl
        · exact hi t hm hg
        · exact hi t0 (List.mem_of_getElem? h0) hg
  | fireTimer i =>
    have h' := h
    simp only [step] at h'
    split at h'
    · cases h'
    · rename_i t0 h0
      split at h'
      · split at h'
        · simp only [Option.some.injEq] at h'
          subst h'
          intro t hm hg
          rcases mem_set hm with hm | rfl
          · exact hi t hm hg
          · exact hi t0 (List.mem_of_getElem? h0) hg
        · cases h'
      · cases h'
  | advance dt =>
    have h' := h
    simp only [step] at h'
    split at h'
    · cases h'; exact keep rfl
    · cases h'
  | parentCancel => have h' := h; simp only [step, Option.some.injEq] at h'; subst h'; exact keep rfl
  | stopCall w => have h' := h; simp only [step, Option.some.injEq] at h'; subst h'; exact keep rfl
  | stopStep j =>
    have h' := h
    simp only [step] at h'
    split at h'
    · cases h'
    · split at h'
      · cases h'
      · split at h' <;> cases h'; exact keep rfl
      · cases h'; exact keep rfl
      · split at h' <;> cases h' <;> exact keep rfl
      · split at h' <;> cases h'; exact keep rfl
      · cases h'; exact keep rfl

theorem liveinv_reach {now : Int} {async : Bool} {s : GState} (hr : Reach (gInit now async) s) : LiveInv s := by
  induction hr with
  | refl => intro t hm; simp [gInit] at hm
  | step l _ hs ih => exact liveinv_step ih hs

/-- **Live context ⇒ on its way.** A `Trigger` / `Periodic` / `PeriodicOrTrigger` registration whose
group context is live is still inside `spawn` before the `wg.Add` (its registration call has not returned
yet, so no trigger function exists), or `0 < dist`: its goroutine is in the loop, on its way to the next
run or inside `f`. This discharges the hypothesis `0 < dist t.pc` of the progress statements. -/
theorem live_on_its_way {now : Int} {async : Bool} {s : GState} (hr : Reach (gInit now async) s) {t : Thread}
    (hm : t ∈ s.threads) (hctx : s.ctxDone = false) (hk : t.kind ≠ .doOnce) :
    0 < dist t.pc ∨ t.pc = .spawnStart ∨ t.pc = .spawnLocked ∨ t.pc = .spawnChecked := by
  have hl := liveinv_reach hr t hm
  have hnl := (ginv_reach hr).noLate t hm
  cases hp : t.pc <;> simp_all [dist, gone]

/-! ### Building reachability witnesses (for the non-vacuity examples) -/

def runG (s : GState) : List GLabel → Option GState
  | [] => some s
  | l :: ls => (step s l).bind (fun s' => runG s' ls)

theorem reach_of_runG : ∀ (ls : List GLabel) (s0 s s' : GState), Reach s0 s → runG s ls = some s' → Reach s0 s'
  | [], s0, s, s', hr, h => by simp [runG] at h; subst h; exact hr
  | l :: ls, s0, s, s', hr, h => by
    simp only [runG] at h
    cases hs : step s l with
    | none => simp [hs] at h
    | some s1 =>
      simp [hs] at h
      exact reach_of_runG ls s0 s1 s' (.step l hr hs) h

/-! ### The measure along arbitrary runs -/

/-- a trigger request is pending: the value is in the channel, or the loop has received it and is committed to `f` -/
def pend (t : Thread) : Prop := t.token = true ∨ committed t.pc = true

/-- number of own steps (the goroutine's steps and the returns of its `f`) of registration `i` in a run -/
def nOwn (i : Nat) (ls : List GLabel) : Nat := ls.countP (isOwn i)

theorem dist_le (p : Pc) : dist p ≤ 9 := by cases p <;> simp [dist]

/-- One step of the whole system, seen from registration `i` (not a `Do`) whose context stays live and which is
on its way: a run begins, or `runs` is unchanged, it is still on its way, `dist` has not grown — and has strictly
decreased if the step was its own — and a pending request is still pending. -/
theorem live_step {s s' : GState} {l : GLabel} {i : Nat} {t : Thread}
    (h : step s l = some s') (hctx : s'.ctxDone = false) (hti : s.threads[i]? = some t)
    (hk : t.kind ≠ .doOnce) (hd : 0 < dist t.pc) :
    ∃ t', s'.threads[i]? = some t' ∧ t'.kind = t.kind ∧
      ((t'.pc = .inF ∧ t'.runs = t.runs + 1) ∨
       (t'.runs = t.runs ∧ 0 < dist t'.pc ∧ dist t'.pc + (if isOwn i l = true then 1 else 0) ≤ dist t.pc ∧
         (pend t → pend t'))) := by
  have hctx0 : s.ctxDone = false := by
    cases hc : s.ctxDone
    · rfl
    · rw [ctx_mono h hc] at hctx; cases hctx
  by_cases hown : isOwn i l = true
  · rw [if_pos hown]
    cases l with
    | work j c off =>
      have hji : j = i := by simpa [isOwn] using hown
      subst hji
      obtain ⟨t0, t1, e, h0, hts, h1, _⟩ := work_inv h
      rw [hti] at h0; cases h0
      obtain ⟨hA, hB⟩ := step_decreases hts (by simpa [view] using hctx0) hd
      refine ⟨t1, h1, (threadStep_facts hts).2.1, ?_⟩
      rcases hA with ⟨a, b, _⟩ | ⟨a, b, c', d⟩
      · exact Or.inl ⟨a, b⟩
      · refine Or.inr ⟨c', a, by omega, ?_⟩
        intro hp
        rcases hB hp with x | x | x
        · exact Or.inl x
        · exact Or.inr x
        · exact absurd x d
    | fEnd j =>
      have hji : j = i := by simpa [isOwn] using hown
      subst hji
      obtain ⟨hlt, _⟩ := getElem?_some hti
      simp only [step, hti] at h
      split at h
      · rename_i hpc
        simp only [Option.some.injEq] at h
        subst h
        refine ⟨{ t with pc := .loopHead, active := t.active - 1 }, by simp [hlt, hk], rfl, Or.inr ⟨rfl, ?_, ?_, ?_⟩⟩
        · simp [dist]
        · rw [hpc]; simp [dist]
        · intro hp
          rcases hp with x | x
          · exact Or.inl x
          · rw [hpc] at x; simp [committed] at x
      · cases h
    | _ => simp [isOwn] at hown
  · have hown' : isOwn i l = false := by simpa using hown
    rw [if_neg hown]
    obtain ⟨t', ht', hpc, hkind, hruns, _, _, htok, _, _⟩ := env_stable h hti hown'
    refine ⟨t', ht', hkind, Or.inr ⟨hruns, by rw [hpc]; exact hd, by rw [hpc]; omega, ?_⟩⟩
    intro hp
    rcases hp with x | x
    · exact Or.inl (htok x)
    · exact Or.inr (by rw [hpc]; exact x)

/-- `runs` never decreases -/
theorem runs_mono_step {s s' : GState} {l : GLabel} {i : Nat} {t : Thread}
    (h : step s l = some s') (hti : s.threads[i]? = some t) :
    ∃ t', s'.threads[i]? = some t' ∧ t.runs ≤ t'.runs := by
  by_cases hown : isOwn i l = true
  · cases l with
    | work j c off =>
      have hji : j = i := by simpa [isOwn] using hown
      subst hji
      obtain ⟨t0, t1, e, h0, hts, h1, _⟩ := work_inv h
      rw [hti] at h0; cases h0
      obtain ⟨_, _, _, _, _, _, _, _, Fruns, _⟩ := threadStep_facts hts
      exact ⟨t1, h1, by omega⟩
    | fEnd j =>
      have hji : j = i := by simpa [isOwn] using hown
      subst hji
      obtain ⟨hlt, _⟩ := getElem?_some hti
      simp only [step, hti] at h
      split at h
      · simp only [Option.some.injEq] at h
        subst h
        exact ⟨{ t with pc := if t.kind = .doOnce then .exiting else .loopHead, active := t.active - 1 }, by simp [hlt], Nat.le_refl _⟩
      · cases h
    | _ => simp [isOwn] at hown
  · obtain ⟨t', ht', _, _, hruns, _⟩ := env_stable h hti (by simpa using hown)
    exact ⟨t', ht', by omega⟩

theorem runs_mono_run : ∀ (ls : List GLabel) {s s' : GState} {i : Nat} {t : Thread},
    runG s ls = some s' → s.threads[i]? = some t → ∃ t', s'.threads[i]? = some t' ∧ t.runs ≤ t'.runs
  | [], s, s', i, t, h, hti => by simp [runG] at h; subst h; exact ⟨t, hti, Nat.le_refl _⟩
  | l :: ls, s, s', i, t, h, hti => by
    simp only [runG] at h
    cases hs : step s l with
    | none => simp [hs] at h
    | some s1 =>
      simp [hs] at h
      obtain ⟨t1, h1, hle⟩ := runs_mono_step hs hti
      obtain ⟨t', ht', hle'⟩ := runs_mono_run ls h h1
      exact ⟨t', ht', by omega⟩

theorem ctx_live_back : ∀ (ls : List GLabel) {s s' : GState}, runG s ls = some s' → s'.ctxDone = false → s.ctxDone = false
  | [], s, s', h, hc => by simp [runG] at h; subst h; exact hc
  | l :: ls, s, s', h, hc => by
    simp only [runG] at h
    cases hs : step s l with
    | none => simp [hs] at h
    | some s1 =>
      simp [hs] at h
      have := ctx_live_back ls h hc
      cases hc0 : s.ctxDone
      · rfl
      · rw [ctx_mono hs hc0] at this; cases this

/-- **The measure along any run.** Registration `i` (not a `Do`) is on its way (`0 < dist`); take *any* run of
the whole system — any interleaving of every other goroutine, trigger calls, timers, the clock, registrations,
`Stop` calls that have not cancelled yet — at whose end the context is still live. Then `runs` has not
decreased, and as long as no new run has begun, the registration is still on its way, `dist` has dropped by at
least the number of own steps taken (so a new run begins within `dist ≤ 9` own steps), and a pending trigger
request is still pending. -/
theorem own_steps_bounded : ∀ (ls : List GLabel) {s s' : GState} {i : Nat} {t : Thread},
    runG s ls = some s' → s'.ctxDone = false → s.threads[i]? = some t → t.kind ≠ .doOnce → 0 < dist t.pc →
    ∃ t', s'.threads[i]? = some t' ∧ t'.kind = t.kind ∧ t.runs ≤ t'.runs ∧
      (t'.runs = t.runs → 0 < dist t'.pc ∧ dist t'.pc + nOwn i ls ≤ dist t.pc ∧ (pend t → pend t'))
  | [], s, s', i, t, h, _, hti, _, hd => by
    simp [runG] at h; subst h
    exact ⟨t, hti, rfl, Nat.le_refl _, fun _ => ⟨hd, by simp [nOwn], id⟩⟩
  | l :: ls, s, s', i, t, h, hctx, hti, hk, hd => by
    simp only [runG] at h
    cases hs : step s l with
    | none => simp [hs] at h
    | some s1 =>
      simp [hs] at h
      have hctx1 := ctx_live_back ls h hctx
      obtain ⟨t1, h1, hk1, hcase⟩ := live_step hs hctx1 hti hk hd
      rcases hcase with ⟨_, hr⟩ | ⟨hr, hd1, hle, hp⟩
      · obtain ⟨t', ht', hle'⟩ := runs_mono_run ls h h1
        obtain ⟨t'', ht'', hk'', _⟩ := own_steps_bounded ls h hctx h1 (by rw [hk1]; exact hk) (by
          -- after the run began the goroutine is inside `f`
          rename_i hin; rw [hin]; simp [dist])
        rw [ht'] at ht''; cases ht''
        exact ⟨t', ht', by rw [hk'', hk1], by omega, fun he => by omega⟩
      · obtain ⟨t', ht', hk', hle', himp⟩ := own_steps_bounded ls h hctx h1 (by rw [hk1]; exact hk) hd1
        refine ⟨t', ht', by rw [hk', hk1], by omega, ?_⟩
        intro he
        obtain ⟨a, b, c⟩ := himp (by omega)
        refine ⟨a, ?_, fun x => c (hp x)⟩
        simp only [nOwn, List.countP_cons] at b ⊢
        omega

end Juniper.Proofs.GroupProgress
