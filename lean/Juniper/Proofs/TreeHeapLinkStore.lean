import Juniper.Proofs.TreeHeapLinkBase
/-!
# Linking the two B-tree models (C03): what one `Heap.step` does to the store

For every node-level operation `Heap.step` is described as an update of the store function
`h.get : Nat → Option (SNode K V Nat)`: which objects change, what the changed objects represent
(`NodeRep`, from `Proofs/TreeSlotsOpsNode.lean` / `…Split.lean`) and that parent pointers are kept.
The generated presence facts of the zeroing / shifting statements are discharged by `decide` here.
-/
namespace Juniper.Proofs.TreeHeapLink
open Juniper Juniper.Model.BTree Juniper.Model.BTreeSlotsOps Juniper.Proofs.Tree Juniper.Proofs.TreeSlotsOps

variable {K V C : Type}

/-! ## `List.set` / append on the family of node objects -/

theorem getNode_lt {fam : Fam K V C} {i : Nat} {x : SNode K V C} (h : getNode fam i = some x) : i < fam.length := by
  unfold getNode at h
  cases hi : fam[i]? with
  | none => simp [hi] at h
  | some o => exact (List.getElem?_eq_some_iff.mp hi).1

theorem getNode_ge {fam : Fam K V C} {i : Nat} (h : fam.length ≤ i) : getNode fam i = none := by
  unfold getNode
  rw [List.getElem?_eq_none h]; rfl

theorem getNode_set {fam : Fam K V C} {i : Nat} (hi : i < fam.length) (o : Option (SNode K V C)) (j : Nat) :
    getNode (fam.set i o) j = if j = i then o else getNode fam j := by
  unfold getNode
  rw [List.getElem?_set]
  by_cases hji : j = i
  · subst hji; simp [hi]
  · have : ¬ i = j := fun h => hji h.symm
    simp [hji, this]

theorem getNode_snoc (fam : Fam K V C) (o : Option (SNode K V C)) (j : Nat) :
    getNode (fam ++ [o]) j = if j = fam.length then o else getNode fam j := by
  unfold getNode
  by_cases hj : j < fam.length
  · rw [List.getElem?_append_left hj]
    have : ¬ j = fam.length := by omega
    simp [this]
  · by_cases hje : j = fam.length
    · subst hje; simp
    · have h1 : fam.length + 1 ≤ j := by omega
      rw [List.getElem?_eq_none (by simpa using h1), List.getElem?_eq_none (by omega)]
      simp [hje]

/-! ## the node-level operations keep the parent pointer -/

theorem map_bind' {α β γ : Type} (o : Option α) (g : α → Option β) (f : β → γ) :
    (o.bind g).map f = o.bind (fun a => (g a).map f) := by cases o <;> rfl

theorem leafInsert_parent {x x' : SNode K V C} {idx : Nat} {k : K} {v : V} (h : leafInsert x idx k v = some x') :
    x'.parent = x.parent := by
  have key : (leafInsert x idx k v).map (·.parent) = (leafInsert x idx k v).map (fun _ => x.parent) := by
    simp only [leafInsert, bind, pure, map_bind', apply_ite (Option.map _), Option.map_some]
  rw [h] at key
  simpa using key

theorem setValue_parent {x x' : SNode K V C} {idx : Nat} {v : V} (h : setValue x idx v = some x') :
    x'.parent = x.parent := by
  have key : (setValue x idx v).map (·.parent) = (setValue x idx v).map (fun _ => x.parent) := by
    simp only [setValue, bind, pure, map_bind', Option.map_some]
  rw [h] at key
  simpa using key

theorem leafRemove_parent {x x' : SNode K V C} {idx : Nat} (h : leafRemove x idx = some x') :
    x'.parent = x.parent := by
  have key : (leafRemove x idx).map (·.parent) = (leafRemove x idx).map (fun _ => x.parent) := by
    simp only [leafRemove, bind, pure, map_bind', apply_ite (Option.map _), Option.map_some]
  rw [h] at key
  simpa using key

theorem removeRightmostAt_parent {x x' : SNode K V C} {k : Option K} {v : Option V}
    (h : removeRightmostAt x = some (k, v, x')) : x'.parent = x.parent := by
  have key : (removeRightmostAt x).map (·.2.2.parent) = (removeRightmostAt x).map (fun _ => x.parent) := by
    simp only [removeRightmostAt, bind, pure, map_bind', apply_ite (Option.map _), Option.map_some]
  rw [h] at key
  simpa using key

theorem replaceEntry_parent {x x' : SNode K V C} {idx : Nat} {k : Option K} {v : Option V}
    (h : replaceEntry x idx k v = some x') : x'.parent = x.parent := by
  have key : (replaceEntry x idx k v).map (·.parent) = (replaceEntry x idx k v).map (fun _ => x.parent) := by
    simp only [replaceEntry, bind, pure, map_bind', Option.map_some]
  rw [h] at key
  simpa using key

theorem splitNode_parent {x l r : SNode K V C} {e : Nat} {k : Option K} {v : Option V} {a : Option C}
    {sk : Option K} {sv : Option V}
    (h : splitNode x e k v a = some (l, sk, sv, r)) : l.parent = x.parent ∧ r.parent = none := by
  have key : (splitNode x e k v a).map (fun r => (r.1.parent, r.2.2.2.parent)) =
      (splitNode x e k v a).map (fun _ => (x.parent, none)) := by
    simp only [splitNode, bind, pure, map_bind', apply_ite (Option.map _), Option.map_some, SNode.fresh]
  rw [h] at key
  simpa using key

theorem newRootNode_parent {x' : SNode K V C} {k : Option K} {v : Option V} {l r : C}
    (h : newRootNode k v l r = some x') : x'.parent = none := by
  have key : (newRootNode k v l r).map (·.parent) = (newRootNode k v l r).map (fun _ => (none : Option C)) := by
    simp only [newRootNode, bind, pure, map_bind', Option.map_some, SNode.fresh]
  rw [h] at key
  simpa using key

theorem parentInsert_parent {x x' : SNode K V C} {idx : Nat} {k : Option K} {v : Option V} {r : C}
    (h : parentInsert x idx k v r = some x') : x'.parent = x.parent := by
  have key : (parentInsert x idx k v r).map (·.parent) = (parentInsert x idx k v r).map (fun _ => x.parent) := by
    simp only [parentInsert, bind, pure, map_bind', apply_ite (Option.map _), Option.map_some]
  rw [h] at key
  simpa using key

theorem mergeNodes_parent {p l r p' l' r' : SNode K V C} {idx : Nat}
    (h : mergeNodes p l r idx = some (p', l', r')) : p'.parent = p.parent ∧ l'.parent = l.parent := by
  have key : (mergeNodes p l r idx).map (fun r => (r.1.parent, r.2.1.parent)) =
      (mergeNodes p l r idx).map (fun _ => (p.parent, l.parent)) := by
    simp only [mergeNodes, bind, pure, map_bind', apply_ite (Option.map _), Option.map_some]
  rw [h] at key
  simpa using key

theorem rotateRightNodes_parent {p l r p' l' r' : SNode K V C} {idx : Nat} {c : Option C}
    (h : rotateRightNodes p l r idx = some (p', l', r', c)) :
    p'.parent = p.parent ∧ l'.parent = l.parent ∧ r'.parent = r.parent := by
  have key : (rotateRightNodes p l r idx).map (fun r => (r.1.parent, r.2.1.parent, r.2.2.1.parent)) =
      (rotateRightNodes p l r idx).map (fun _ => (p.parent, l.parent, r.parent)) := by
    simp only [rotateRightNodes, bind, pure, map_bind', apply_ite (Option.map _), Option.map_some]
  rw [h] at key
  simpa using key

theorem rotateLeftNodes_parent {p l r p' l' r' : SNode K V C} {idx : Nat} {c : Option C}
    (h : rotateLeftNodes p l r idx = some (p', l', r', c)) :
    p'.parent = p.parent ∧ l'.parent = l.parent ∧ r'.parent = r.parent := by
  have key : (rotateLeftNodes p l r idx).map (fun r => (r.1.parent, r.2.1.parent, r.2.2.1.parent)) =
      (rotateLeftNodes p l r idx).map (fun _ => (p.parent, l.parent, r.parent)) := by
    simp only [rotateLeftNodes, bind, pure, map_bind', apply_ite (Option.map _), Option.map_some]
  rw [h] at key
  simpa using key

/-! ## heaps -/

/-- `h'` differs from `h` only in the store (and the logs) -/
structure Same (h h' : Heap K V) : Prop where
  root : h'.root = h.root
  size : h'.size = h.size
  gen : h'.gen = h.gen
  len : h'.nodes.length = h.nodes.length

theorem Same.refl (h : Heap K V) : Same h h := ⟨rfl, rfl, rfl, rfl⟩

theorem Same.trans {h1 h2 h3 : Heap K V} (a : Same h1 h2) (b : Same h2 h3) : Same h1 h3 :=
  ⟨b.root.trans a.root, b.size.trans a.size, b.gen.trans a.gen, b.len.trans a.len⟩

theorem get_lt {h : Heap K V} {i : Nat} {x : SNode K V Nat} (hx : h.get i = some x) : i < h.nodes.length :=
  getNode_lt hx

theorem get_ge {h : Heap K V} {i : Nat} (hi : h.nodes.length ≤ i) : h.get i = none := getNode_ge hi

theorem step_some {h : Heap K V} {op : NodeOp K V Nat} {w : List Nat} {fam : Fam K V Nat}
    (ha : applyOp h.nodes op = some fam) :
    h.step op w = some { h with nodes := fam, dirty := w ++ h.dirty } := by
  simp [Heap.step, ha]

@[simp] theorem event_get (h : Heap K V) (e : String) : (h.event e).get = h.get := rfl
@[simp] theorem event_root (h : Heap K V) (e : String) : (h.event e).root = h.root := rfl
@[simp] theorem event_size (h : Heap K V) (e : String) : (h.event e).size = h.size := rfl
@[simp] theorem event_gen (h : Heap K V) (e : String) : (h.event e).gen = h.gen := rfl

theorem same_event (h : Heap K V) (e : String) : Same h (h.event e) := ⟨rfl, rfl, rfl, rfl⟩

/-- one object is replaced -/
theorem step_set1 {h : Heap K V} {op : NodeOp K V Nat} {w : List Nat} {i : Nat} {x x' : SNode K V Nat}
    (hx : h.get i = some x) (ha : applyOp h.nodes op = some (h.nodes.set i (some x'))) :
    ∃ h', h.step op w = some h' ∧ Same h h' ∧ ∀ j, h'.get j = if j = i then some x' else h.get j := by
  refine ⟨_, step_some ha, ⟨rfl, rfl, rfl, by simp⟩, ?_⟩
  intro j
  exact getNode_set (get_lt hx) _ j

theorem step_leafInsert {h : Heap K V} {i idx : Nat} {x : SNode K V Nat} {kvs : List (K × V)}
    (hx : h.get i = some x) (hr : NodeRep x kvs []) (hidx : idx ≤ kvs.length) (hroom : kvs.length < keysCap)
    (k : K) (v : V) (w : List Nat) :
    ∃ h' x', h.step (.leafInsert i idx k v) w = some h' ∧ Same h h' ∧
      NodeRep x' (kvs.take idx ++ (k, v) :: kvs.drop idx) [] ∧ x'.parent = x.parent ∧
      ∀ j, h'.get j = if j = i then some x' else h.get j := by
  obtain ⟨x', hx', hr'⟩ := leafInsert_rep hr hidx hroom k v (by decide)
  have hl : x.isLeaf = true := hr.isLeaf_iff.mpr rfl
  have g2 : (idx : Int) ≤ x.n := by rw [hr.hn]; omega
  have g3 : x.n < keysCap := by rw [hr.hn]; omega
  have ha : applyOp h.nodes (.leafInsert i idx k v) = some (h.nodes.set i (some x')) := by
    have hx0 : getNode h.nodes i = some x := hx
    simp [applyOp, hx0, hl, g2, g3, hx']
  obtain ⟨h', h1, h2, h3⟩ := step_set1 (w := w) hx ha
  exact ⟨h', x', h1, h2, hr', leafInsert_parent hx', h3⟩

theorem step_setValue {h : Heap K V} {i idx : Nat} {x : SNode K V Nat} {kvs : List (K × V)} {kids : List Nat}
    (hx : h.get i = some x) (hr : NodeRep x kvs kids) (hidx : idx < kvs.length) (v : V) (w : List Nat) :
    ∃ h' x', h.step (.setValue i idx v) w = some h' ∧ Same h h' ∧
      NodeRep x' (kvs.take idx ++ ((kvs[idx]).1, v) :: kvs.drop (idx + 1)) kids ∧ x'.parent = x.parent ∧
      ∀ j, h'.get j = if j = i then some x' else h.get j := by
  obtain ⟨x', hx', hr'⟩ := setValue_rep hr hidx v
  have g2 : (idx : Int) < x.n := by rw [hr.hn]; omega
  have ha : applyOp h.nodes (.setValue i idx v) = some (h.nodes.set i (some x')) := by
    have hx0 : getNode h.nodes i = some x := hx
    simp [applyOp, hx0, g2, hx']
  obtain ⟨h', h1, h2, h3⟩ := step_set1 (w := w) hx ha
  exact ⟨h', x', h1, h2, hr', setValue_parent hx', h3⟩

theorem step_leafRemove {h : Heap K V} {i idx : Nat} {x : SNode K V Nat} {kvs : List (K × V)}
    (hx : h.get i = some x) (hr : NodeRep x kvs []) (hidx : idx < kvs.length) (w : List Nat) :
    ∃ h' x', h.step (.leafRemove i idx) w = some h' ∧ Same h h' ∧
      NodeRep x' (kvs.take idx ++ kvs.drop (idx + 1)) [] ∧ x'.parent = x.parent ∧
      ∀ j, h'.get j = if j = i then some x' else h.get j := by
  obtain ⟨x', hx', hr'⟩ := leafRemove_rep hr hidx (by decide) (by decide) (by decide) (by decide) (by decide)
  have hl : x.isLeaf = true := hr.isLeaf_iff.mpr rfl
  have g2 : (idx : Int) < x.n := by rw [hr.hn]; omega
  have ha : applyOp h.nodes (.leafRemove i idx) = some (h.nodes.set i (some x')) := by
    have hx0 : getNode h.nodes i = some x := hx
    simp [applyOp, hx0, hl, g2, hx']
  obtain ⟨h', h1, h2, h3⟩ := step_set1 (w := w) hx ha
  exact ⟨h', x', h1, h2, hr', leafRemove_parent hx', h3⟩

theorem step_removeRightmost {h : Heap K V} {i : Nat} {x : SNode K V Nat} {kvs : List (K × V)}
    (hx : h.get i = some x) (hr : NodeRep x kvs []) (hne : kvs ≠ []) (w : List Nat) :
    ∃ h' x', removeRightmostAt x = some (some (kvs.getLast hne).1, some (kvs.getLast hne).2, x') ∧
      h.step (.removeRightmost i) w = some h' ∧ Same h h' ∧
      NodeRep x' kvs.dropLast [] ∧ x'.parent = x.parent ∧
      ∀ j, h'.get j = if j = i then some x' else h.get j := by
  obtain ⟨x', hx', hr'⟩ := removeRightmostAt_rep hr hne (by decide) (by decide) (by decide)
  have hl : x.isLeaf = true := hr.isLeaf_iff.mpr rfl
  have hpos : 0 < kvs.length := List.length_pos_iff.mpr hne
  have g2 : 0 < x.n := by rw [hr.hn]; omega
  have ha : applyOp h.nodes (.removeRightmost i) = some (h.nodes.set i (some x')) := by
    have hx0 : getNode h.nodes i = some x := hx
    simp [applyOp, hx0, hl, g2, hx']
  obtain ⟨h', h1, h2, h3⟩ := step_set1 (w := w) hx ha
  exact ⟨h', x', hx', h1, h2, hr', removeRightmostAt_parent hx', h3⟩

theorem step_replaceEntry {h : Heap K V} {i idx : Nat} {x : SNode K V Nat} {kvs : List (K × V)} {kids : List Nat}
    (hx : h.get i = some x) (hr : NodeRep x kvs kids) (hidx : idx < kvs.length) (k : K) (v : V) (w : List Nat) :
    ∃ h' x', h.step (.replaceEntry i idx k v) w = some h' ∧ Same h h' ∧
      NodeRep x' (kvs.take idx ++ (k, v) :: kvs.drop (idx + 1)) kids ∧ x'.parent = x.parent ∧
      ∀ j, h'.get j = if j = i then some x' else h.get j := by
  obtain ⟨x', hx', hr'⟩ := replaceEntry_rep hr hidx k v
  have g2 : (idx : Int) < x.n := by rw [hr.hn]; omega
  have ha : applyOp h.nodes (.replaceEntry i idx k v) = some (h.nodes.set i (some x')) := by
    have hx0 : getNode h.nodes i = some x := hx
    simp [applyOp, hx0, g2, hx']
  obtain ⟨h', h1, h2, h3⟩ := step_set1 (w := w) hx ha
  exact ⟨h', x', h1, h2, hr', replaceEntry_parent hx', h3⟩

theorem step_parentInsert {h : Heap K V} {i idx : Nat} {x : SNode K V Nat} {kvs : List (K × V)} {kids : List Nat}
    (hx : h.get i = some x) (hr : NodeRep x kvs kids) (hint : kids.length = kvs.length + 1)
    (hidx : idx ≤ kvs.length) (hroom : kvs.length < keysCap) (k : K) (v : V) (r : Nat) (w : List Nat) :
    ∃ h' x', h.step (.parentInsert i idx k v r) w = some h' ∧ Same h h' ∧
      NodeRep x' (kvs.take idx ++ (k, v) :: kvs.drop idx) (kids.take (idx + 1) ++ r :: kids.drop (idx + 1)) ∧
      x'.parent = x.parent ∧ ∀ j, h'.get j = if j = i then some x' else h.get j := by
  obtain ⟨x', hx', hr'⟩ := parentInsert_rep hr hint hidx hroom k v r (by decide)
  have hl : x.isLeaf = false := by
    have hne : kids ≠ [] := by intro h0; subst h0; simp at hint
    exact isLeaf_of_rep_cons hr.hkids hne
  have g2 : (idx : Int) ≤ x.n := by rw [hr.hn]; omega
  have g3 : x.n < keysCap := by rw [hr.hn]; omega
  have ha : applyOp h.nodes (.parentInsert i idx k v r) = some (h.nodes.set i (some x')) := by
    have hx0 : getNode h.nodes i = some x := hx
    simp [applyOp, hx0, hl, g2, g3, hx']
  obtain ⟨h', h1, h2, h3⟩ := step_set1 (w := w) hx ha
  exact ⟨h', x', h1, h2, hr', parentInsert_parent hx', h3⟩

theorem step_setParent {h : Heap K V} {i : Nat} {x : SNode K V Nat} (hx : h.get i = some x) (p : Option Nat) (w : List Nat) :
    ∃ h', h.step (.setParent i p) w = some h' ∧ Same h h' ∧
      ∀ j, h'.get j = if j = i then some (withParent p x) else h.get j := by
  have ha : applyOp h.nodes (.setParent i p) = some (h.nodes.set i (some (withParent p x))) := by
    have hx0 : getNode h.nodes i = some x := hx
    simp [applyOp, hx0, withParent]
  exact step_set1 (w := w) hx ha

theorem step_drop (h : Heap K V) {i : Nat} {x : SNode K V Nat} (hx : h.get i = some x) (w : List Nat) :
    ∃ h', h.step (.drop i) w = some h' ∧ Same h h' ∧ ∀ j, h'.get j = if j = i then none else h.get j := by
  have ha : applyOp h.nodes (.drop i) = some (h.nodes.set i none) := by simp [applyOp]
  refine ⟨_, step_some ha, ⟨rfl, rfl, rfl, by simp⟩, ?_⟩
  intro j
  exact getNode_set (get_lt hx) _ j

theorem step_newRoot (h : Heap K V) (k : K) (v : V) (l r : Nat) (w : List Nat) :
    ∃ h' x', h.step (.newRoot k v l r) w = some h' ∧ h'.root = h.root ∧ h'.size = h.size ∧ h'.gen = h.gen ∧
      h'.nodes.length = h.nodes.length + 1 ∧ NodeRep x' [(k, v)] [l, r] ∧ x'.parent = none ∧
      ∀ j, h'.get j = if j = h.nodes.length then some x' else h.get j := by
  obtain ⟨x', hx', hr'⟩ := newRootNode_rep (K := K) (V := V) k v l r
  have ha : applyOp h.nodes (.newRoot k v l r) = some (h.nodes ++ [some x']) := by
    simp [applyOp, hx']
  refine ⟨_, x', step_some ha, rfl, rfl, rfl, by simp, hr', newRootNode_parent hx', ?_⟩
  intro j
  exact getNode_snoc _ _ j

/-! ## `setParents` -/

theorem setParents_spec (p : Option Nat) : ∀ (cs : List Nat) (h : Heap K V), (∀ c ∈ cs, (h.get c).isSome) →
    ∃ h', h.setParents (cs.map some) p = some h' ∧ Same h h' ∧
      ∀ j, h'.get j = if j ∈ cs then (h.get j).map (withParent p) else h.get j
  | [], h, _ => ⟨h, by simp [Heap.setParents], Same.refl h, by simp⟩
  | c :: cs, h, hall => by
    obtain ⟨x, hx⟩ := Option.isSome_iff_exists.mp (hall c List.mem_cons_self)
    obtain ⟨h1, hs1, hsame1, hg1⟩ := step_setParent hx p [c]
    have hall1 : ∀ d ∈ cs, (h1.get d).isSome := by
      intro d hd
      rw [hg1]
      split
      · simp
      · exact hall d (List.mem_cons_of_mem _ hd)
    obtain ⟨h', hs', hsame', hg'⟩ := setParents_spec p cs h1 hall1
    refine ⟨h', ?_, hsame1.trans hsame', ?_⟩
    · simp only [Heap.setParents, List.map_cons, List.foldlM_cons, Option.bind_some, bind] at hs' ⊢
      rw [hs1]
      exact hs'
    · intro j
      rw [hg', hg1]
      by_cases hjc : j = c
      · subst hjc
        simp [hx]
      · simp [hjc]

end Juniper.Proofs.TreeHeapLink
