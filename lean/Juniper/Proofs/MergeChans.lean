import Juniper.Model.Merge
/-! Helper lemmas for C12: the LTS of `chans.Merge` — facts about the generated tables, the inductive
invariant and the progress measure. -/
set_option linter.unusedSectionVars false
set_option linter.unusedSimpArgs false
namespace Juniper.Proofs.MergeChans
open Juniper.Model.Merge Juniper.Facts

variable {V : Type} [HasNil V]

def usesN (n : Nat) : Bool := pathOf n == .m2 || pathOf n == .m3

/-- What the proofs need to know about the generated facts for arity `n`. -/
structure Good (V : Type) [HasNil V] (n : Nat) : Prop where
  arm : ∀ i, i < n → ∃ a, armInfo (pathOf n) n i = some a ∧ a.forwards = true ∧ a.nils = true ∧
      a.incs = usesN n ∧
      ∀ d l : Nat, (usesN n = true → d + l = n) → l < n →
        (retAfterClose (pathOf n) a d = true ↔ (l = 0 ∧ pathOf n ≠ .reflect))
  top : ∀ l : Nat, retAtTop (pathOf n) l = true ↔ (l = 0 ∧ pathOf n = .reflect)
  nopanic : ∀ v : V, panicsOn (pathOf n) v = false
  live0 : (List.range n).filter (fun i => (armInfo (pathOf n) n i).isSome) = List.range n
  small : n = 0 → pathOf n = .reflect

theorem pathOf_eq (n : Nat) :
    pathOf n = (if n = 1 then .range else if n = 2 then .m2 else if n = 3 then .m3 else .reflect) := by
  unfold pathOf Juniper.Gen.Merge.dispatch1 Juniper.Gen.Merge.dispatch2 Juniper.Gen.Merge.dispatch3
  have e1 : ((n:Int) = 1) ↔ n = 1 := by omega
  have e2 : ((n:Int) = 2) ↔ n = 2 := by omega
  have e3 : ((n:Int) = 3) ↔ n = 3 := by omega
  simp only [e1, e2, e3, decide_eq_true_eq]

theorem good_1 : Good V 1 := by
  refine ⟨?_, ?_, ?_, by decide, by decide⟩
  · intro i hi
    have : i = 0 := by omega
    subst this
    refine ⟨⟨true, true, false, -1⟩, by decide, rfl, rfl, by decide, ?_⟩
    intro d l _ hl
    have : l = 0 := by omega
    subst this
    simp [pathOf_eq, retAfterClose, Juniper.Gen.Merge.rangeReturns]
  · intro l; simp [pathOf_eq, retAtTop]
  · intro v; simp [pathOf_eq, panicsOn]

theorem good_2 : Good V 2 := by
  refine ⟨?_, ?_, ?_, by decide, by decide⟩
  · intro i hi
    have hh : armInfo (pathOf 2) 2 i = some ⟨true, true, true, 2⟩ := by
      have : ∀ i, i < 2 → armInfo (pathOf 2) 2 i = some ⟨true, true, true, 2⟩ := by decide
      exact this i hi
    refine ⟨_, hh, rfl, rfl, by decide, ?_⟩
    intro d l h hl
    have h := h (by decide)
    simp [pathOf_eq, retAfterClose]
    omega
  · intro l; simp [pathOf_eq, retAtTop]
  · intro v; simp [pathOf_eq, panicsOn]

theorem good_3 : Good V 3 := by
  refine ⟨?_, ?_, ?_, by decide, by decide⟩
  · intro i hi
    have hh : armInfo (pathOf 3) 3 i = some ⟨true, true, true, 3⟩ := by
      have : ∀ i, i < 3 → armInfo (pathOf 3) 3 i = some ⟨true, true, true, 3⟩ := by decide
      exact this i hi
    refine ⟨_, hh, rfl, rfl, by decide, ?_⟩
    intro d l h hl
    have h := h (by decide)
    simp [pathOf_eq, retAfterClose]
    omega
  · intro l; simp [pathOf_eq, retAtTop]
  · intro v; simp [pathOf_eq, panicsOn]

theorem pathOf_reflect {n : Nat} (h : n = 0 ∨ 4 ≤ n) : pathOf n = .reflect := by
  rw [pathOf_eq]
  have h1 : n ≠ 1 := by omega
  have h2 : n ≠ 2 := by omega
  have h3 : n ≠ 3 := by omega
  simp [h1, h2, h3]

theorem armInfo_reflect (n i : Nat) (hi : i < n) :
    armInfo .reflect n i = some ⟨true, true, false, -1⟩ := by
  have h1 : (Juniper.Gen.Merge.reflectCasesOver == "in") = true := by decide
  simp [armInfo, hi, h1, Juniper.Gen.Merge.reflectSelects, Juniper.Gen.Merge.reflectSendsOut,
    Juniper.Gen.Merge.reflectRemoves]

theorem good_reflect {n : Nat} (h : n = 0 ∨ 4 ≤ n) : Good V n := by
  have hp := pathOf_reflect h
  refine ⟨?_, ?_, ?_, ?_, fun _ => hp⟩
  · intro i hi
    refine ⟨_, by rw [hp]; exact armInfo_reflect n i hi, rfl, rfl, ?_, ?_⟩
    · simp [usesN, hp]
    · intro d l _ _
      simp [hp, retAfterClose]
  · intro l
    simp [hp, retAtTop, Juniper.Gen.Merge.reflectRet, Juniper.Gen.Merge.reflectRetReturns]
  · intro v
    have : (Juniper.Gen.Merge.reflectAssert != "commaok") = false := by decide
    simp [hp, panicsOn, this]
  · simp only [hp]
    apply List.filter_eq_self.mpr
    intro i hi
    rw [armInfo_reflect n i (List.mem_range.mp hi)]
    rfl

/-- The generated facts are as the proofs need them, for every arity. -/
theorem good (n : Nat) : Good V n := by
  by_cases h1 : n = 1
  · subst h1; exact good_1
  by_cases h2 : n = 2
  · subst h2; exact good_2
  by_cases h3 : n = 3
  · subst h3; exact good_3
  exact good_reflect (by omega)


/-- Facts of the dispatch that the model does not interpret (argument order of the `merge2`/`merge3`
calls, the `ok` test of the reflect path): a change makes this obligation fail. -/
theorem dispatch_facts :
    Juniper.Gen.Merge.dispatch2Body = ["merge2(out, in[0], in[1])", "return"] ∧
    Juniper.Gen.Merge.dispatch3Body = ["merge3(out, in[0], in[1], in[2])", "return"] ∧
    Juniper.Gen.Merge.reflectOkCond = "ok" ∧
    Juniper.Gen.Merge.merge2Params = ["out", "in0", "in1"] ∧
    Juniper.Gen.Merge.merge3Params = ["out", "in0", "in1", "in2"] ∧
    sameArms Juniper.Gen.Merge.merge2Arms [.recv "in0", .recv "in1"] = true ∧
    sameArms Juniper.Gen.Merge.merge3Arms [.recv "in0", .recv "in1", .recv "in2"] = true := by decide

/-! ### inversion of `step` -/

theorem step_envSend {s s' : St V} {i : Nat} {v : V} (h : step s (.envSend i v) = some s') :
    ∃ c, s.ins[i]? = some c ∧ c.closed = false ∧
      s' = { s with ins := s.ins.set i { c with avail := c.avail ++ [v], sent := c.sent ++ [v] } } := by
  simp only [step] at h
  split at h
  · rename_i c hc
    split at h
    · simp at h
    · rename_i hcl
      refine ⟨c, hc, by simpa using hcl, ?_⟩
      simp at h; exact h.symm
  · simp at h

theorem step_envClose {s s' : St V} {i : Nat} (h : step s (.envClose i) = some s') :
    ∃ c, s.ins[i]? = some c ∧ c.closed = false ∧
      s' = { s with ins := s.ins.set i { c with closed := true } } := by
  simp only [step] at h
  split at h
  · rename_i c hc
    split at h
    · simp at h
    · rename_i hcl
      refine ⟨c, hc, by simpa using hcl, ?_⟩
      simp at h; exact h.symm
  · simp at h

theorem step_deliver {s s' : St V} (h : step s .deliver = some s') :
    ∃ i v, s.pc = .hold i v ∧ s' = { s with out := s.out ++ [(i, v)], pc := .top } := by
  simp only [step] at h
  split at h
  · rename_i i v hp
    simp at h; exact ⟨i, v, hp, h.symm⟩
  · simp at h

theorem step_exit {s s' : St V} (h : step s .exit = some s') :
    s.pc = .top ∧ retAtTop (pathOf s.n) s.live.length = true ∧ s' = { s with pc := .done } := by
  simp only [step] at h
  split at h
  · rename_i hp
    split at h
    · rename_i hr
      simp at h; exact ⟨hp, hr, h.symm⟩
    · simp at h
  · simp at h

/-- The two outcomes of Merge's receive on input `i`. -/
theorem step_recv {s s' : St V} {i : Nat} (h : step s (.recv i) = some s') :
    s.pc = .top ∧ i ∈ s.live ∧ retAtTop (pathOf s.n) s.live.length = false ∧
    ∃ a c, armInfo (pathOf s.n) s.n i = some a ∧ s.ins[i]? = some c ∧
      ((∃ v rest, c.avail = v :: rest ∧
          s' = (if a.forwards then
                  (if panicsOn (pathOf s.n) v then
                    { s with ins := s.ins.set i { c with avail := rest }, pc := .panicked }
                   else { s with ins := s.ins.set i { c with avail := rest }, pc := .hold i v })
                else { s with ins := s.ins.set i { c with avail := rest } })) ∨
       (c.avail = [] ∧ c.closed = true ∧
          s' = { s with live := if a.nils then s.live.erase i else s.live,
                        nDone := if a.incs then s.nDone + 1 else s.nDone,
                        pc := if retAfterClose (pathOf s.n) a (if a.incs then s.nDone + 1 else s.nDone)
                              then .done else .top })) := by
  simp only [step] at h
  split at h
  · rename_i hp
    split at h
    · rename_i hg
      simp only [Bool.and_eq_true, List.contains_eq_mem, decide_eq_true_eq, Bool.not_eq_true',
        List.elem_eq_mem] at hg
      refine ⟨hp, hg.1, hg.2, ?_⟩
      split at h
      · rename_i a c ha hc
        refine ⟨a, c, ha, hc, ?_⟩
        split at h
        · rename_i v rest hav
          left
          refine ⟨v, rest, hav, ?_⟩
          split at h
          · rename_i hf
            split at h
            · rename_i hpn
              simp at h; simp [hf, hpn, ← h]
            · rename_i hpn
              simp at h; simp [hf, hpn, ← h]
          · rename_i hf
            simp at h; simp [hf, ← h]
        · rename_i hav
          split at h
          · rename_i hcl
            right
            simp at h
            exact ⟨hav, hcl, h.symm⟩
          · simp at h
      · simp at h
    · simp at h
  · simp at h

/-! ### the invariant -/

/-- Inductive invariant of the `chans.Merge` LTS for `n` inputs. -/
structure Inv (n : Nat) (s : St V) : Prop where
  hn : s.n = n
  len : s.ins.length = n
  conserve : ∀ i c, s.ins[i]? = some c → proj i s.out ++ held i s.pc ++ c.avail = c.sent
  nodup : s.live.Nodup
  liveLt : ∀ i, i ∈ s.live → i < n
  dead : ∀ i, i < n → i ∉ s.live → ∃ c, s.ins[i]? = some c ∧ c.closed = true ∧ c.avail = []
  count : usesN n = true → s.nDone + s.live.length = n
  lenLe : s.live.length ≤ n
  doneLive : s.pc = .done → s.live = []
  emptyLive : s.pc ≠ .done → s.live = [] → pathOf n = .reflect
  noPanic : s.pc ≠ .panicked
  holdLt : ∀ i v, s.pc = .hold i v → i < n
  tags : ∀ p, p ∈ s.out → p.1 < n

theorem proj_append_same (i : Nat) (out : List (Nat × V)) (v : V) :
    proj i (out ++ [(i, v)]) = proj i out ++ [v] := by
  simp [proj, List.filter_append]

theorem proj_append_ne {i j : Nat} (h : j ≠ i) (out : List (Nat × V)) (v : V) :
    proj i (out ++ [(j, v)]) = proj i out := by
  simp [proj, List.filter_append, h]

theorem inv_init (n : Nat) (g : Good V n) : Inv n (init V n) := by
  have hl : (init V n).live = List.range n := g.live0
  refine ⟨rfl, by simp [init], ?_, ?_, ?_, ?_, ?_, by rw [hl]; simp, ?_, ?_, ?_, ?_, ?_⟩
  · intro i c hc
    simp [init, List.getElem?_replicate] at hc
    obtain ⟨_, rfl⟩ := hc
    simp [init, proj, held]
  · rw [hl]; exact List.nodup_range
  · intro i hi; rw [hl] at hi; exact List.mem_range.mp hi
  · intro i hi hni; rw [hl] at hni; exact absurd (List.mem_range.mpr hi) hni
  · intro hu
    rw [hl]
    simp [init]
  · intro h; simp [init] at h
  · intro _ h
    rw [hl] at h
    have : n = 0 := by simpa using h
    exact g.small this
  · simp [init]
  · intro i v h; simp [init] at h
  · intro p hp; simp [init] at hp

theorem inv_step {n : Nat} (g : Good V n) {s s' : St V} {l : Label V} (hi : Inv n s)
    (h : step s l = some s') : Inv n s' := by
  have hn := hi.hn
  subst hn
  cases l with
  | envSend i v =>
    obtain ⟨c, hc, hcl, rfl⟩ := step_envSend h
    refine ⟨hi.hn, by simpa using hi.len, ?_, hi.nodup, hi.liveLt, ?_, hi.count, hi.lenLe, hi.doneLive,
      hi.emptyLive, hi.noPanic, hi.holdLt, hi.tags⟩
    · intro j c' hc'
      simp only [List.getElem?_set] at hc'
      split at hc'
      · rename_i hij
        subst hij
        split at hc'
        · simp at hc'; subst hc'
          have := hi.conserve i c hc
          simp [← this]
        · simp at hc'
      · exact hi.conserve j c' hc'
    · intro j hj hnj
      obtain ⟨c', hc', h1, h2⟩ := hi.dead j hj hnj
      have hne : i ≠ j := by
        intro e; subst e
        rw [hc] at hc'; cases hc'; rw [hcl] at h1; cases h1
      exact ⟨c', by simp [List.getElem?_set, hne, hc'], h1, h2⟩
  | envClose i =>
    obtain ⟨c, hc, hcl, rfl⟩ := step_envClose h
    refine ⟨hi.hn, by simpa using hi.len, ?_, hi.nodup, hi.liveLt, ?_, hi.count, hi.lenLe, hi.doneLive,
      hi.emptyLive, hi.noPanic, hi.holdLt, hi.tags⟩
    · intro j c' hc'
      simp only [List.getElem?_set] at hc'
      split at hc'
      · rename_i hij
        subst hij
        split at hc'
        · simp at hc'; subst hc'
          exact hi.conserve i c hc
        · simp at hc'
      · exact hi.conserve j c' hc'
    · intro j hj hnj
      obtain ⟨c', hc', h1, h2⟩ := hi.dead j hj hnj
      have hne : i ≠ j := by
        intro e; subst e
        rw [hc] at hc'; cases hc'; rw [hcl] at h1; cases h1
      exact ⟨c', by simp [List.getElem?_set, hne, hc'], h1, h2⟩
  | deliver =>
    obtain ⟨i, v, hp, rfl⟩ := step_deliver h
    refine ⟨hi.hn, hi.len, ?_, hi.nodup, hi.liveLt, hi.dead, hi.count, hi.lenLe, by simp, ?_, by simp,
      by simp, ?_⟩
    · intro j c hc
      have := hi.conserve j c hc
      rw [hp] at this
      by_cases hij : i = j
      · subst hij
        simp [held] at this
        simp [proj_append_same, held, ← this]
      · simp [held, hij] at this
        simp [proj_append_ne hij, held, ← this]
    · intro _ hl
      exact hi.emptyLive (by rw [hp]; simp) hl
    · intro p hp'
      simp at hp'
      rcases hp' with hp' | rfl
      · exact hi.tags p hp'
      · exact hi.holdLt i v hp
  | exit =>
    obtain ⟨hp, hr, rfl⟩ := step_exit h
    have := (g.top _).mp hr
    refine ⟨hi.hn, hi.len, ?_, hi.nodup, hi.liveLt, hi.dead, hi.count, hi.lenLe, ?_, by simp, by simp,
      by simp, hi.tags⟩
    · intro j c hc
      have := hi.conserve j c hc
      rw [hp] at this
      simpa [held] using this
    · intro _
      exact List.length_eq_zero_iff.mp this.1
  | recv i =>
    obtain ⟨hp, hil, hrt, a, c, ha, hc, hcase⟩ := step_recv h
    have hin : i < s.n := hi.liveLt i hil
    obtain ⟨a', ha', hf, hz, hincs, hret⟩ := g.arm i hin
    rw [ha] at ha'; cases ha'
    rcases hcase with ⟨v, rest, hav, rfl⟩ | ⟨hav, hcl, rfl⟩
    · simp only [hf, g.nopanic v, if_true, Bool.false_eq_true, if_false]
      refine ⟨hi.hn, by simpa using hi.len, ?_, hi.nodup, hi.liveLt, ?_, hi.count, hi.lenLe, by simp, ?_,
        by simp, ?_, hi.tags⟩
      · intro j c' hc'
        simp only [List.getElem?_set] at hc'
        split at hc'
        · rename_i hij
          subst hij
          split at hc'
          · simp at hc'; subst hc'
            have := hi.conserve i c hc
            rw [hp, hav] at this
            simp [held] at this
            simp [held, ← this]
          · simp at hc'
        · rename_i hij
          have := hi.conserve j c' hc'
          rw [hp] at this
          simp [held] at this
          have hji : ¬ i = j := hij
          simp [held, hji, ← this]
      · intro j hj hnj
        obtain ⟨c', hc', h1, h2⟩ := hi.dead j hj hnj
        have hne : i ≠ j := by
          intro e; subst e; exact hnj hil
        exact ⟨c', by simp [List.getElem?_set, hne, hc'], h1, h2⟩
      · intro _ hl
        exact hi.emptyLive (by rw [hp]; simp) hl
      · intro j w hjw
        simp at hjw
        rw [← hjw.1]; exact hin
    · simp only [hz, if_true]
      have hlen : (s.live.erase i).length = s.live.length - 1 := List.length_erase_of_mem hil
      have hpos : 0 < s.live.length := List.length_pos_of_mem hil
      have hle := hi.lenLe
      have hcount : usesN s.n = true →
          (if a.incs = true then s.nDone + 1 else s.nDone) + (s.live.erase i).length = s.n := by
        intro hu
        have := hi.count hu
        rw [hincs, hu]; simp; omega
      have hr := hret (if a.incs = true then s.nDone + 1 else s.nDone) (s.live.erase i).length hcount
        (by omega)
      have hmem : ∀ j, j ∈ s.live.erase i ↔ j ≠ i ∧ j ∈ s.live := fun j => hi.nodup.mem_erase_iff
      generalize (if a.incs = true then s.nDone + 1 else s.nDone) = d at *
      have hlive' : (s.live.erase i).length ≤ s.n := by omega
      cases hrb : retAfterClose (pathOf s.n) a d
      · -- keeps looping
        have hnr : ¬ ((s.live.erase i).length = 0 ∧ pathOf s.n ≠ .reflect) := fun hh => by
          have := hr.mpr hh; rw [hrb] at this; cases this
        simp only [Bool.false_eq_true, if_false]
        refine ⟨rfl, hi.len, ?_, hi.nodup.erase i, ?_, ?_, hcount, hlive', by simp, ?_, by simp, by simp,
          hi.tags⟩
        · intro j c' hc'
          have := hi.conserve j c' hc'
          rw [hp] at this
          simpa [held] using this
        · intro j hj; exact hi.liveLt j ((hmem j).mp hj).2
        · intro j hj hnj
          by_cases hji : j = i
          · subst hji; exact ⟨c, hc, hcl, hav⟩
          · exact hi.dead j hj (fun hjl => hnj ((hmem j).mpr ⟨hji, hjl⟩))
        · intro _ hl
          have hl' : s.live.erase i = [] := hl
          have h0 : (s.live.erase i).length = 0 := by rw [hl']; rfl
          by_cases hpr : pathOf s.n = .reflect
          · exact hpr
          · exact absurd ⟨h0, hpr⟩ hnr
      · -- returns
        have h0 := (hr.mp hrb).1
        simp only [if_true]
        refine ⟨rfl, hi.len, ?_, hi.nodup.erase i, ?_, ?_, hcount, hlive', ?_, by simp, by simp, by simp,
          hi.tags⟩
        · intro j c' hc'
          have := hi.conserve j c' hc'
          rw [hp] at this
          simpa [held] using this
        · intro j hj; exact hi.liveLt j ((hmem j).mp hj).2
        · intro j hj hnj
          by_cases hji : j = i
          · subst hji; exact ⟨c, hc, hcl, hav⟩
          · exact hi.dead j hj (fun hjl => hnj ((hmem j).mpr ⟨hji, hjl⟩))
        · intro _
          exact List.length_eq_zero_iff.mp h0


theorem reach_inv {n : Nat} {s : St V} (h : Reach (init V n) s) : Inv n s := by
  induction h with
  | refl => exact inv_init n (good n)
  | step l _ hs ih => exact inv_step (good n) ih hs

/-! ### progress -/

/-- Every input is closed and everything ever offered on it has been delivered on `out`. -/
def AllDone (s : St V) : Prop :=
  ∀ i c, s.ins[i]? = some c → c.closed = true ∧ proj i s.out = c.sent

/-- Termination measure of the internal steps once `AllDone` holds. -/
def mu (s : St V) : Nat := s.live.length + (match s.pc with | .done => 0 | _ => 1)

theorem allDone_top {n : Nat} {s : St V} (hi : Inv n s) (ha : AllDone s) (hnd : s.pc ≠ .done) :
    s.pc = .top ∧ ∀ (i : Nat) (c : Chan V), s.ins[i]? = some c → c.avail = [] := by
  have havail : ∀ (i : Nat) (c : Chan V), s.ins[i]? = some c → held i s.pc = [] ∧ c.avail = [] := by
    intro i c hc
    have h1 := hi.conserve i c hc
    have h2 := (ha i c hc).2
    rw [h2] at h1
    have : held i s.pc ++ c.avail = [] := by
      have := congrArg List.length h1
      simp at this
      apply List.eq_nil_of_length_eq_zero
      simp; omega
    exact List.append_eq_nil_iff.mp this
  refine ⟨?_, fun i c hc => (havail i c hc).2⟩
  cases hp : s.pc with
  | top => rfl
  | done => exact absurd hp hnd
  | panicked => exact absurd hp hi.noPanic
  | hold i v =>
    have hlt := hi.holdLt i v hp
    have : i < s.ins.length := by rw [hi.len]; exact hlt
    have hc : s.ins[i]? = some s.ins[i] := List.getElem?_eq_getElem this
    have := (havail i _ hc).1
    rw [hp] at this
    simp [held] at this

theorem progress {n : Nat} {s : St V} (hi : Inv n s) (ha : AllDone s) (hnd : s.pc ≠ .done) :
    (∃ l, l ∈ internalLabels s ∧ ∃ s', step s l = some s') ∧
    (∀ l, l ∈ internalLabels s → ∀ s', step s l = some s' → AllDone s' ∧ mu s' < mu s) := by
  have g : Good V n := good n
  obtain ⟨hp, hav⟩ := allDone_top hi ha hnd
  have hn := hi.hn
  subst hn
  constructor
  · cases hl : s.live with
    | nil =>
      have hr := hi.emptyLive hnd hl
      refine ⟨.exit, by simp [internalLabels], ?_⟩
      have : retAtTop (pathOf s.n) s.live.length = true := (g.top _).mpr ⟨by rw [hl]; rfl, hr⟩
      simp [step, hp, this]
    | cons i rest =>
      have hil : i ∈ s.live := by rw [hl]; simp
      have hin := hi.liveLt i hil
      obtain ⟨a, harm, _, _, _, _⟩ := g.arm i hin
      have hlen : i < s.ins.length := by rw [hi.len]; exact hin
      have hc : s.ins[i]? = some s.ins[i] := List.getElem?_eq_getElem hlen
      have hcl := (ha i _ hc).1
      have have' := hav i _ hc
      have hrt : retAtTop (pathOf s.n) s.live.length = false := by
        cases hh : retAtTop (pathOf s.n) s.live.length
        · rfl
        · have := ((g.top _).mp hh).1
          rw [hl] at this; simp at this
      refine ⟨.recv i, by simp [internalLabels, hin], ?_⟩
      simp [step, hp, hil, hrt, harm, hc, have', hcl]
  · intro l _ s' hs
    cases l with
    | envSend i v => obtain ⟨c, hc, hcl, _⟩ := step_envSend hs; have := (ha i c hc).1; rw [hcl] at this; cases this
    | envClose i => obtain ⟨c, hc, hcl, _⟩ := step_envClose hs; have := (ha i c hc).1; rw [hcl] at this; cases this
    | deliver => obtain ⟨i, v, hh, _⟩ := step_deliver hs; rw [hp] at hh; cases hh
    | exit =>
      obtain ⟨_, _, rfl⟩ := step_exit hs
      refine ⟨ha, ?_⟩
      simp [mu, hp]
    | recv i =>
      obtain ⟨_, hil, _, a, c, harm, hc, hcase⟩ := step_recv hs
      rcases hcase with ⟨v, rest, hav', _⟩ | ⟨_, _, rfl⟩
      · rw [hav i c hc] at hav'; cases hav'
      · obtain ⟨a', ha', _, hz, _, _⟩ := g.arm i (hi.liveLt i hil)
        rw [harm] at ha'; cases ha'
        refine ⟨ha, ?_⟩
        have hlen : (s.live.erase i).length = s.live.length - 1 := List.length_erase_of_mem hil
        have hpos : 0 < s.live.length := List.length_pos_of_mem hil
        simp only [mu, hz, if_true, hp]
        split <;> omega

/-- Labels of the list are all internal steps of `Merge` in the states they are taken from. -/
def InternalRun : St V → List (Label V) → Prop
  | _, [] => True
  | s, l :: ls => l ∈ internalLabels s ∧ ∀ s', step s l = some s' → InternalRun s' ls

theorem eventually_done {n : Nat} : ∀ (k : Nat) (s : St V), Inv n s → AllDone s → mu s ≤ k →
    ∃ ls s', run s ls = some s' ∧ InternalRun s ls ∧ s'.pc = .done := by
  intro k
  induction k with
  | zero =>
    intro s hi ha hk
    by_cases hd : s.pc = .done
    · exact ⟨[], s, rfl, trivial, hd⟩
    · exfalso
      have : 0 < mu s := by
        unfold mu; split
        · rename_i h; exact absurd h hd
        · omega
      omega
  | succ k ih =>
    intro s hi ha hk
    by_cases hd : s.pc = .done
    · exact ⟨[], s, rfl, trivial, hd⟩
    · obtain ⟨⟨l, hl, s1, hs1⟩, hdec⟩ := progress hi ha hd
      obtain ⟨ha1, hmu⟩ := hdec l hl s1 hs1
      obtain ⟨ls, s', hrun, hint, hdone⟩ := ih s1 (inv_step (good n) hi hs1) ha1 (by omega)
      refine ⟨l :: ls, s', by simp [run, hs1, hrun], ⟨hl, ?_⟩, hdone⟩
      intro s2 hs2
      rw [hs1] at hs2; cases hs2
      exact hint

theorem reach_of_run {s0 s : St V} : ∀ (ls : List (Label V)) {s1 : St V}, Reach s0 s1 → run s1 ls = some s →
    Reach s0 s
  | [], _, h, hr => by simp [run] at hr; exact hr ▸ h
  | l :: ls, s1, h, hr => by
    simp only [run] at hr
    split at hr
    · rename_i s2 hs; exact reach_of_run ls (.step l h hs) hr
    · cases hr

end Juniper.Proofs.MergeChans
