import Juniper.Proofs.TreePut
/-!
# `Delete` refines the sorted-list `serase` (C01)

First: rotations and merges do not change the in-order list of the parent node.
-/
namespace Juniper.Proofs.Tree
open Juniper.Model.BTree Juniper.Gen.Tree

variable {K V : Type} {α : Type} {cmp : K → K → Int}

/-- a node's list when children `a`, `a+1` and separator `a` are singled out -/
theorem toList_at_pair {id : Nat} {kvs : List (K × V)} {kids : List (Node K V)} {a : Nat} {L R : Node K V}
    (hlen : kids.length = kvs.length + 1) (hL : kids[a]? = some L) (hR : kids[a + 1]? = some R) :
    toList (.mk id kvs kids) =
      pre ((kids.take a).map toList) (kvs.take a) ++ (toList L ++ kvs[a]'(by
        have := (List.getElem?_eq_some_iff.mp hR).1; omega) :: toList R) ++
        rest ((kids.drop (a + 2)).map toList) (kvs.drop (a + 1)) := by
  have ha : a + 1 < kids.length := (List.getElem?_eq_some_iff.mp hR).1
  have hsl : a < kvs.length := by omega
  have hk : kids = kids.take a ++ L :: R :: kids.drop (a + 2) := by
    conv => lhs; rw [← List.take_append_drop a kids, drop_two hL hR]
  have hv : kvs = kvs.take a ++ kvs[a] :: kvs.drop (a + 1) := by
    conv => lhs; rw [← List.take_append_drop a kvs, List.drop_eq_getElem_cons hsl]
  conv => lhs; rw [toList_mk, hk, hv, List.map_append, List.map_cons, List.map_cons]
  rw [inorder_split _ _ _ _ _ _ _ (by simp; omega)]
  simp

/-- the list of a node whose children `a`, `a+1` and separator were replaced -/
theorem toList_pair_replaced {id : Nat} {kvs : List (K × V)} {kids : List (Node K V)} {a : Nat}
    (hlen : kids.length = kvs.length + 1) (ha : a + 1 < kids.length) (L' R' : Node K V) (s' : K × V) :
    toList (.mk id (kvs.take a ++ s' :: kvs.drop (a + 1)) (kids.take a ++ L' :: R' :: kids.drop (a + 2))) =
      pre ((kids.take a).map toList) (kvs.take a) ++ (toList L' ++ s' :: toList R') ++
        rest ((kids.drop (a + 2)).map toList) (kvs.drop (a + 1)) := by
  rw [toList_mk, List.map_append, List.map_cons, List.map_cons]
  rw [inorder_split _ _ _ _ _ _ _ (by simp; omega)]
  simp

theorem toList_pair_merged {id : Nat} {kvs : List (K × V)} {kids : List (Node K V)} {a : Nat}
    (hlen : kids.length = kvs.length + 1) (ha : a + 1 < kids.length) (Lm : Node K V) :
    toList (.mk id (kvs.take a ++ kvs.drop (a + 1)) (kids.take a ++ Lm :: kids.drop (a + 2))) =
      pre ((kids.take a).map toList) (kvs.take a) ++ toList Lm ++
        rest ((kids.drop (a + 2)).map toList) (kvs.drop (a + 1)) := by
  rw [toList_mk, List.map_append, List.map_cons]
  rw [inorder_mid _ _ _ _ _ (by simp; omega)]

/-- the list of a node built from two halves of children/entries around a separator -/
theorem toList_join {h : Nat} (id : Nat) {lid rid : Nat} {lkvs rkvs : List (K × V)} {lkids rkids : List (Node K V)}
    (hbL : Bal h (.mk lid lkvs lkids)) (hbR : Bal h (.mk rid rkvs rkids)) (s : K × V) :
    toList (.mk id (lkvs ++ s :: rkvs) (lkids ++ rkids)) =
      toList (.mk lid lkvs lkids) ++ s :: toList (.mk rid rkvs rkids) := by
  rw [toList_mk, toList_mk, toList_mk, List.map_append]
  apply inorder_at_sep
  rcases bal_cases.mp hbL with ⟨rfl, rfl⟩ | ⟨h', rfl, hl, _⟩
  · have := bal_zero.mp hbR; subst this; left; simp
  · obtain ⟨hrl, _⟩ := bal_succ.mp hbR
    right
    refine ⟨by simp; omega, ?_⟩
    intro h0
    have : rkids = [] := by simpa using h0
    subst this; simp at hrl

theorem rotateLeftAt_toList {h : Nat} {kvs : List (K × V)} {kids : List (Node K V)} {a : Nat}
    {L R : Node K V} (hlen : kids.length = kvs.length + 1)
    (hL : kids[a]? = some L) (hR : kids[a + 1]? = some R) (hbL : Bal h L) (hbR : Bal h R)
    {kvs' : List (K × V)} {kids' : List (Node K V)} (he : rotateLeftAt kvs kids a = some (kvs', kids')) (id : Nat) :
    toList (.mk id kvs' kids') = toList (.mk id kvs kids) := by
  have ha : a + 1 < kids.length := (List.getElem?_eq_some_iff.mp hR).1
  have hs : (rotateLeftSepIdx ((a : Int) + 1)).toNat = a := by simp [rotateLeftSepIdx]
  have hsl : a < kvs.length := by omega
  obtain ⟨li, lkvs, lkids⟩ := L
  obtain ⟨ri, rkvs, rkids⟩ := R
  have hsep : kvs.drop a = kvs[a] :: kvs.drop (a + 1) := List.drop_eq_getElem_cons hsl
  cases rkvs with
  | nil => simp only [rotateLeftAt, hs, drop_two hL hR, hsep] at he <;> cases he
  | cons rk rkvs =>
    simp only [rotateLeftAt, hs, drop_two hL hR, hsep, Option.some.injEq, Prod.mk.injEq] at he
    obtain ⟨rfl, rfl⟩ := he
    rw [toList_pair_replaced hlen ha, toList_at_pair hlen hL hR]
    congr 2
    -- L' ++ rk :: R' = L ++ sep :: R
    rcases bal_cases.mp hbL with ⟨rfl, rfl⟩ | ⟨h', rfl, hl, _⟩
    · have := bal_zero.mp hbR; subst this; simp
    · obtain ⟨hrl, hrc⟩ := bal_succ.mp hbR
      cases rkids with
      | nil => simp at hrl
      | cons rc rkids' =>
        have hbrc : Bal h' rc := (hrc rc List.mem_cons_self).1
        have h1 : toList (Node.mk li (lkvs ++ [kvs[a]]) (lkids ++ List.take 1 (rc :: rkids'))) =
            toList (Node.mk li lkvs lkids) ++ kvs[a] :: toList rc := by
          have hb0 : Bal (h' + 1) (Node.mk 0 ([] : List (K × V)) [rc]) :=
            bal_succ.mpr ⟨rfl, by intro c hc; simp at hc; subst hc; exact hrc _ List.mem_cons_self⟩
          have := toList_join li hbL hb0 kvs[a]
          simpa [toList_mk, inorder] using this
        have h2 : toList (Node.mk ri (rk :: rkvs) (rc :: rkids')) =
            toList rc ++ rk :: toList (Node.mk ri rkvs rkids') := by
          rw [toList_mk, toList_mk]
          cases rkids' with
          | nil => simp at hrl
          | cons d ds => simp [inorder, rest]
        rw [h1, h2]; simp

theorem rotateRightAt_toList {h : Nat} {kvs : List (K × V)} {kids : List (Node K V)} {a : Nat}
    {L R : Node K V} (hlen : kids.length = kvs.length + 1)
    (hL : kids[a]? = some L) (hR : kids[a + 1]? = some R) (hbL : Bal h L) (hbR : Bal h R)
    {kvs' : List (K × V)} {kids' : List (Node K V)} (he : rotateRightAt kvs kids a = some (kvs', kids')) (id : Nat) :
    toList (.mk id kvs' kids') = toList (.mk id kvs kids) := by
  have ha : a + 1 < kids.length := (List.getElem?_eq_some_iff.mp hR).1
  have hs : (rotateRightSepIdx (a : Int)).toNat = a := by simp [rotateRightSepIdx]
  have hsl : a < kvs.length := by omega
  obtain ⟨li, lkvs, lkids⟩ := L
  obtain ⟨ri, rkvs, rkids⟩ := R
  have hsep : kvs.drop a = kvs[a] :: kvs.drop (a + 1) := List.drop_eq_getElem_cons hsl
  cases hlk : lkvs.getLast? with
  | none => simp only [rotateRightAt, hs, drop_two hL hR, hsep, hlk] at he <;> cases he
  | some lk =>
    simp only [rotateRightAt, hs, drop_two hL hR, hsep, hlk, Option.some.injEq, Prod.mk.injEq] at he
    obtain ⟨rfl, rfl⟩ := he
    rw [toList_pair_replaced hlen ha, toList_at_pair hlen hL hR]
    congr 2
    have hne : lkvs ≠ [] := by intro h0; subst h0; simp at hlk
    have hdl : lkvs = lkvs.dropLast ++ [lk] := by
      have h1 := List.getLast?_eq_some_getLast hne
      rw [hlk] at h1
      have h2 := List.dropLast_concat_getLast hne
      rw [← Option.some.inj h1] at h2
      exact h2.symm
    have hm : lkvs.length - 1 + 1 = lkvs.length := by
      have := List.length_pos_iff.mpr hne; omega
    rw [hm]
    rcases bal_cases.mp hbL with ⟨rfl, rfl⟩ | ⟨h', rfl, hl, hlc⟩
    · have := bal_zero.mp hbR; subst this
      simp only [List.take_nil, List.drop_nil, List.append_nil, toList_leaf]
      conv => rhs; rw [hdl]
      simp
    · obtain ⟨hrl, hrc⟩ := bal_succ.mp hbR
      -- the last child of the left node
      have hlast : lkvs.length < lkids.length := by omega
      have hkd : lkids = lkids.take lkvs.length ++ [lkids[lkvs.length]] := by
        conv => lhs; rw [← List.take_append_drop lkvs.length lkids, List.drop_eq_getElem_cons hlast]
        have : lkids.drop (lkvs.length + 1) = [] := by simp; omega
        rw [this]
      have hd1 : (lkids.drop lkvs.length).take 1 = [lkids[lkvs.length]] := by
        rw [List.drop_eq_getElem_cons hlast]; rfl
      have hblc : Bal h' lkids[lkvs.length] := (hlc _ (List.getElem_mem hlast)).1
      rw [hd1]
      have h1 : toList (Node.mk li lkvs lkids) =
          toList (Node.mk li lkvs.dropLast (lkids.take lkvs.length)) ++ lk :: toList lkids[lkvs.length] := by
        have hbl' : Bal (h' + 1) (Node.mk li lkvs.dropLast (lkids.take lkvs.length)) := by
          refine bal_succ.mpr ⟨by simp; omega, fun c hc => hlc c (List.mem_of_mem_take hc)⟩
        have hb0 : Bal (h' + 1) (Node.mk 0 ([] : List (K × V)) [lkids[lkvs.length]]) :=
          bal_succ.mpr ⟨rfl, by intro c hc; simp at hc; subst hc; exact hlc _ (List.getElem_mem hlast)⟩
        have := toList_join li hbl' hb0 lk
        rw [← hdl, ← hkd] at this
        simpa [toList_mk, inorder] using this
      have h2 : toList (Node.mk ri (kvs[a] :: rkvs) ([lkids[lkvs.length]] ++ rkids)) =
          toList lkids[lkvs.length] ++ kvs[a] :: toList (Node.mk ri rkvs rkids) := by
        rw [toList_mk, toList_mk]
        cases rkids with
        | nil => simp at hrl
        | cons d ds => simp [inorder, rest]
      rw [h1, h2]; simp

theorem mergeAt_toList {h : Nat} {kvs : List (K × V)} {kids : List (Node K V)} {a : Nat}
    {L R : Node K V} (hlen : kids.length = kvs.length + 1)
    (hL : kids[a]? = some L) (hR : kids[a + 1]? = some R) (hbL : Bal h L) (hbR : Bal h R)
    {kvs' : List (K × V)} {kids' : List (Node K V)} (he : mergeAt kvs kids a = some (kvs', kids')) (id : Nat) :
    toList (.mk id kvs' kids') = toList (.mk id kvs kids) := by
  have ha : a + 1 < kids.length := (List.getElem?_eq_some_iff.mp hR).1
  have hsl : a < kvs.length := by omega
  obtain ⟨li, lkvs, lkids⟩ := L
  obtain ⟨ri, rkvs, rkids⟩ := R
  have hsep : kvs.drop a = kvs[a] :: kvs.drop (a + 1) := List.drop_eq_getElem_cons hsl
  simp only [mergeAt, drop_two hL hR, hsep, Option.some.injEq, Prod.mk.injEq] at he
  obtain ⟨rfl, rfl⟩ := he
  rw [toList_pair_merged hlen ha, toList_at_pair hlen hL hR, toList_join li hbL hbR]

theorem pair_exists {h : Nat} {kids : List (Node K V)} {a : Nat} (hbal : ∀ c ∈ kids, Bal h c)
    (ha : a + 1 < kids.length) :
    ∃ L R, kids[a]? = some L ∧ kids[a + 1]? = some R ∧ Bal h L ∧ Bal h R :=
  ⟨kids[a], kids[a + 1], List.getElem?_eq_getElem (by omega), List.getElem?_eq_getElem ha,
    hbal _ (List.getElem_mem _), hbal _ (List.getElem_mem _)⟩

theorem fixChild_toList {h : Nat} {kvs : List (K × V)} {kids : List (Node K V)} {j : Nat}
    (hlen : kids.length = kvs.length + 1) (hbal : ∀ c ∈ kids, Bal h c) (hj : j < kids.length)
    {kvs' : List (K × V)} {kids' : List (Node K V)} {m : Option Nat}
    (he : fixChild kvs kids j = some (kvs', kids', m)) (id : Nat) :
    toList (.mk id kvs' kids') = toList (.mk id kvs kids) := by
  rw [fixChild_eq] at he
  have fin : ∀ {a : Nat} {op : Option (List (K × V) × List (Node K V))} {mm : Option Nat}, a + 1 < kids.length →
      (∀ r, op = some r → ∀ id, toList (.mk id r.1 r.2) = toList (.mk id kvs kids)) →
      (op.map fun r => (r.1, r.2, mm)) = some (kvs', kids', m) →
      toList (.mk id kvs' kids') = toList (.mk id kvs kids) := by
    intro a op mm _ hop hmap
    obtain ⟨r, hr, hrr⟩ := Option.map_eq_some_iff.mp hmap
    simp only [Prod.mk.injEq] at hrr
    obtain ⟨rfl, rfl, _⟩ := hrr
    exact hop r hr id
  have rotl : j + 1 < kids.length → ∀ r, rotateLeftAt kvs kids j = some r → ∀ id, toList (.mk id r.1 r.2) = toList (.mk id kvs kids) := by
    intro ha r hr id
    obtain ⟨L, R, hL, hR, hbL, hbR⟩ := pair_exists hbal ha
    exact rotateLeftAt_toList hlen hL hR hbL hbR (by rw [hr]) id
  have rotr : 0 < j → ∀ r, rotateRightAt kvs kids (j - 1) = some r → ∀ id, toList (.mk id r.1 r.2) = toList (.mk id kvs kids) := by
    intro hj0 r hr id
    obtain ⟨L, R, hL, hR, hbL, hbR⟩ := pair_exists (a := j - 1) hbal (by omega)
    exact rotateRightAt_toList hlen hL hR hbL hbR (by rw [hr]) id
  have mrg : ∀ a, a + 1 < kids.length → ∀ r, mergeAt kvs kids a = some r → ∀ id, toList (.mk id r.1 r.2) = toList (.mk id kvs kids) := by
    intro a ha r hr id
    obtain ⟨L, R, hL, hR, hbL, hbR⟩ := pair_exists hbal ha
    exact mergeAt_toList hlen hL hR hbL hbR (by rw [hr]) id
  by_cases hr : j < kvs.length
  · have hR : kids[j + 1]? = some kids[j + 1] := List.getElem?_eq_getElem (by omega)
    by_cases hrn : kids[j + 1].n > minKVs
    · simp only [hr, hR, if_true, Option.isSome_some, hrn, and_self] at he
      exact fin (a := j) (by omega) (rotl (by omega)) he
    · by_cases hl : 0 < j
      · have hL : kids[j - 1]? = some kids[j - 1] := List.getElem?_eq_getElem (by omega)
        by_cases hln : kids[j - 1].n > minKVs
        · simp only [hr, hR, if_true, Option.isSome_some, hrn, and_false, if_false, hl, hL, hln, and_self] at he
          exact fin (a := j - 1) (by omega) (rotr hl) he
        · have hln' : kids[j - 1].n ≤ minKVs := by omega
          simp only [hr, hR, if_true, Option.isSome_some, hrn, and_false, if_false, hl, hL, hln, hln', and_self] at he
          exact fin (a := j - 1) (by omega) (mrg (j - 1) (by omega)) he
      · simp only [hr, hR, if_true, Option.isSome_some, hrn, and_false, if_false, hl, Option.isSome_none,
          Bool.false_eq_true, false_and] at he
        exact fin (a := j) (by omega) (mrg j (by omega)) he
  · by_cases hl : 0 < j
    · have hL : kids[j - 1]? = some kids[j - 1] := List.getElem?_eq_getElem (by omega)
      by_cases hln : kids[j - 1].n > minKVs
      · simp only [hr, if_false, Option.isSome_none, Bool.false_eq_true, false_and, hl, if_true, hL,
          Option.isSome_some, hln, and_self] at he
        exact fin (a := j - 1) (by omega) (rotr hl) he
      · have hln' : kids[j - 1].n ≤ minKVs := by omega
        simp only [hr, if_false, Option.isSome_none, Bool.false_eq_true, false_and, hl, if_true, hL,
          Option.isSome_some, hln, hln', and_self, and_false] at he
        exact fin (a := j - 1) (by omega) (mrg (j - 1) (by omega)) he
    · simp [hr, hl] at he

/-- `finish` keeps the in-order list (a collapsed root has no entries of its own and a single child) -/
theorem finish_toList {h rootId id : Nat} {kvs : List (K × V)} {kids : List (Node K V)} {j : Nat}
    (hf : NeedsFix h kvs kids j) (hkv : 1 ≤ kvs.length) {x' : Node K V} {u : Bool}
    (he : finish rootId id kvs kids j = .done x' u) : toList x' = toList (.mk id kvs kids) := by
  obtain ⟨X, hX, hXn⟩ := hf.under
  have hj : j < kids.length := (List.getElem?_eq_some_iff.mp hX).1
  obtain ⟨kvs', kids', m, hfc, hok⟩ := fixChild_bal hf.len hX hf.bal hf.pre hf.post hXn hkv
  have hl := fixChild_toList hf.len hf.bal hj hfc
  cases m with
  | none =>
    simp only [finish, hfc] at he
    cases he
    exact hl id
  | some a =>
    obtain ⟨hlen', Lm, hLm⟩ := hok.merged a rfl
    simp only [finish, hfc] at he
    split at he
    · split at he
      · rename_i hempty
        simp only [hLm] at he
        cases he
        -- the root had one entry left; after the merge it has none and exactly one child
        have h0 : kvs'.length = 0 := by simpa [mergeRootEmpty] using hempty
        have hk1 : kids'.length = 1 := by rw [hok.len, h0]
        have ha0 : a = 0 := by
          have := (List.getElem?_eq_some_iff.mp hLm).1; omega
        subst ha0
        have hkv0 : kvs' = [] := List.length_eq_zero_iff.mp h0
        obtain ⟨c, hc⟩ := List.length_eq_one_iff.mp hk1
        subst hkv0; subst hc
        simp at hLm; subst hLm
        rw [← hl id, toList_mk]; simp [inorder]
      · cases he; exact hl id
    · cases he; exact hl id

theorem toList_at_sep' {id : Nat} {kvs : List (K × V)} {kids : List (Node K V)} {i : Nat}
    (hk : kids = [] ∨ kids.length = kvs.length + 1) (hi : i < kvs.length) (s : K × V) :
    toList (.mk id (kvs.take i ++ s :: kvs.drop (i + 1)) kids) =
      inorder ((kids.take (i + 1)).map toList) (kvs.take i) ++ s ::
        inorder ((kids.drop (i + 1)).map toList) (kvs.drop (i + 1)) := by
  rw [toList_mk]
  conv => lhs; rw [← List.take_append_drop (i + 1) kids, List.map_append]
  apply inorder_at_sep
  rcases hk with rfl | hlen
  · left; simp
  · right
    constructor
    · simp; omega
    · intro h0
      have : List.drop (i + 1) kids = [] := by simpa using h0
      have := congrArg List.length this
      simp at this; omega

theorem serase_at_sep (hc : StrictWeak cmp) {k : K} {X Y : List (K × V)} {s : K × V}
    (hs : Sorted cmp (X ++ s :: Y)) (he : cmp k s.1 = 0) : serase cmp k (X ++ s :: Y) = X ++ Y := by
  have h1 := (List.pairwise_append.mp hs).2.2
  rw [serase_append_left]
  · obtain ⟨sk, sv⟩ := s
    simp only [serase]
    simp only at he
    rw [if_neg (by omega), if_pos he]
  · intro a ha
    have : cmp a.1 s.1 < 0 := h1 a ha s List.mem_cons_self
    exact hc.gt_of_eq_of_gt he (hc.gt_iff.mpr this)

theorem serase_at_child (hc : StrictWeak cmp) {k : K} {A B : List (List (K × V))} {ka kb M : List (K × V)}
    (hs : Sorted cmp (pre A ka ++ M ++ rest B kb))
    (hlo : ∀ y ∈ ka, 0 < cmp k y.1) (hhi : ∀ b ∈ kb.head?, cmp k b.1 < 0) :
    serase cmp k (pre A ka ++ M ++ rest B kb) = pre A ka ++ serase cmp k M ++ rest B kb := by
  have hp : Sorted cmp (pre A ka) := (List.pairwise_append.mp (List.pairwise_append.mp hs).1).1
  rw [List.append_assoc, serase_append_left (pre_below hc hp hlo), serase_append_right (startsAbove_rest hhi),
    List.append_assoc]

theorem serase_of_sget_none {k : K} {l : List (K × V)} (h : sget cmp k l = none) : serase cmp k l = l := by
  induction l with
  | nil => rfl
  | cons x l ih =>
    obtain ⟨k', v'⟩ := x
    simp only [sget] at h
    simp only [serase]
    split
    · rfl
    · rename_i h1
      rw [if_neg h1] at h
      split
      · rename_i h2; rw [if_pos h2] at h; cases h
      · rename_i h2; rw [if_neg h2] at h; rw [ih h]

theorem removeMax_toList (rootId : Nat) (x : Node K V) :
    ∀ h, Bal h x → Occ x → NoId rootId x →
      ∀ kv x' u, removeMax rootId x = some (kv, x', u) → toList x = toList x' ++ [kv] := by
  obtain ⟨c1, c2, c3, c4, c5, c6, c7, c8, c9, c10⟩ := consts
  fun_induction removeMax rootId x with
  | case1 id kvs kids hleaf hnone => intro h hb ho hni kv x' u he; cases he
  | case2 id kvs kids hleaf kv hkv kvs' =>
    intro h hb ho hni kv2 x' u he
    have hk : kids = [] := List.isEmpty_iff.mp hleaf
    subst hk
    simp only [Option.some.injEq, Prod.mk.injEq] at he
    obtain ⟨rfl, rfl, _⟩ := he
    have hne : kvs ≠ [] := by intro h0; subst h0; simp at hkv
    have h1 := List.getLast?_eq_some_getLast hne
    rw [hkv] at h1
    have h2 := List.dropLast_concat_getLast hne
    rw [← Option.some.inj h1] at h2
    simp only [toList_leaf]
    exact h2.symm
  | case3 id kvs kids hinner hnone => intro h hb ho hni kv x' u he; cases he
  | case4 id kvs kids hinner c hc hres ih => intro h hb ho hni kv x' u he; cases he
  | case5 id kvs kids hinner c hc kv c' under hres kids1 hu ih =>
    intro h hb ho hni kv2 x' u he
    have hne : kids ≠ [] := by simpa using hinner
    obtain ⟨h', rfl, hlen, hall⟩ := bal_inner hne hb
    have hcm := List.mem_of_getElem? hc
    simp only [Option.some.injEq, Prod.mk.injEq] at he
    obtain ⟨rfl, rfl, _⟩ := he
    have := ih h' (hall c hcm).1 (hall c hcm).2 ((noId_mk.mp hni).2 c hcm) kv c' under hres
    rw [toList_at_child hlen hc, toList_at_child_self hlen hc, this]
    simp
  | case6 id kvs kids hinner c hc kv c' under hres kids1 hu x' u hfin ih =>
    intro h hb ho hni kv2 x2 u2 he
    have hne : kids ≠ [] := by simpa using hinner
    obtain ⟨h', rfl, hlen, hall⟩ := bal_inner hne hb
    have hcm := List.mem_of_getElem? hc
    simp only [Option.some.injEq, Prod.mk.injEq] at he
    obtain ⟨rfl, rfl, _⟩ := he
    have hl := ih h' (hall c hcm).1 (hall c hcm).2 ((noId_mk.mp hni).2 c hcm) kv c' under hres
    obtain ⟨kv3, x3, u3, he3, hs3⟩ := removeMax_bal rootId c h' (hall c hcm).1 (hall c hcm).2 ((noId_mk.mp hni).2 c hcm)
    rw [hres] at he3
    simp only [Option.some.injEq, Prod.mk.injEq] at he3
    obtain ⟨rfl, rfl, rfl⟩ := he3
    have hu' : under = true := by simpa using hu
    subst hu'
    simp only [Occ, node_n] at ho
    have hnf := needsFix_replace hb hc hs3.1 (hs3.2.2.2 rfl)
    have hk1 : kids1 = replaceAt kids kvs.length c' := rfl
    rw [hk1] at hfin
    rw [finish_toList hnf (by omega) hfin, toList_at_child hlen hc, toList_at_child_self hlen hc, hl]
    simp
  | case7 id kvs kids hinner c hc kv c' under hres kids1 hu hfin ih => intro h hb ho hni kv x' u he; cases he


def DelSpec (cmp : K → K → Int) (k : K) (x : Node K V) : DelRes K V → Prop
  | .absent => sget cmp k (toList x) = none
  | .crash => True
  | .done x' _ => toList x' = serase cmp k (toList x) ∧ (sget cmp k (toList x)).isSome = true

/-- common ending of the inner cases: child `i` came back as `c'` with `toList` of the whole node already
known to be the erased list when `c'` is simply put in place -/
theorem del_finish_toList {rootId h id : Nat} {isRoot : Bool} {kvs kvs1 : List (K × V)} {kids : List (Node K V)} {i : Nat}
    {c c' : Node K V} {under : Bool} {target : List (K × V)}
    (hp : DelPre rootId (h + 1) isRoot (.mk id kvs kids)) (hlen1 : kvs1.length = kvs.length)
    (hc : kids[i]? = some c) (hs : SubOK h c' under)
    (ht : toList (.mk id kvs1 (replaceAt kids i c')) = target) :
    (under = false → toList (.mk id kvs1 (replaceAt kids i c')) = target) ∧
    (under = true → ∀ x' u, finish rootId id kvs1 (replaceAt kids i c') i = .done x' u → toList x' = target) := by
  obtain ⟨c1, c2, c3, c4, c5, c6, c7, c8, c9, c10⟩ := consts
  refine ⟨fun _ => ht, ?_⟩
  intro hu x' u hf
  have hb1 : Bal (h + 1) (.mk id kvs1 kids) := by
    have := bal_succ.mp hp.bal
    exact bal_succ.mpr ⟨by rw [hlen1]; exact this.1, this.2⟩
  have hnf := needsFix_replace hb1 hc hs.1 (hs.2.2.2 hu)
  have hkv : 1 ≤ kvs1.length := by
    rw [hlen1]
    cases isRoot with
    | true => have := (hp.rootCase rfl).2 (by omega); simp only [node_n] at this; omega
    | false => have := (hp.subCase rfl).2; simp only [node_n] at this; omega
  rw [finish_toList hnf hkv hf, ht]


theorem finish_ne_absent (rootId id : Nat) (kvs : List (K × V)) (kids : List (Node K V)) (j : Nat) :
    finish rootId id kvs kids j ≠ .absent := by
  unfold finish
  repeat' split
  all_goals simp

theorem found_inner (hc : StrictWeak cmp) {k : K} {rootId id i h : Nat} {isRoot : Bool} {kvs : List (K × V)}
    {kids : List (Node K V)} {c c' : Node K V} {kvm : K × V} {under : Bool}
    (hs : searchNode cmp k kvs = (i, true)) (hne : kids ≠ []) (hcc : kids[i]? = some c)
    (hres : removeMax rootId c = some (kvm, c', under))
    (hp : DelPre rootId h isRoot (.mk id kvs kids)) (hsort : Sorted cmp (toList (.mk id kvs kids)))
    (hu : under = false ∨ under = true) :
    DelSpec cmp k (.mk id kvs kids)
      (if !under then .done (.mk id (replaceAt kvs i kvm) (replaceAt kids i c')) false
       else finish rootId id (replaceAt kvs i kvm) (replaceAt kids i c') i) := by
  obtain ⟨h', rfl, hlen, hall, hpre⟩ := delPre_inner hne hp
  have hcm := List.mem_of_getElem? hcc
  obtain ⟨_, _, h3⟩ := search_bounds cmp k kvs hs
  obtain ⟨kv, hkv, he⟩ := h3 rfl
  have hi : i < kvs.length := (List.getElem?_eq_some_iff.mp hkv).1
  have hil : i < kids.length := (List.getElem?_eq_some_iff.mp hcc).1
  have hkvs : kvs = kvs.take i ++ kv :: kvs.drop (i + 1) := (split_at_getElem? hkv).1
  obtain ⟨kv3, x3, u3, he3, hs3⟩ := removeMax_bal rootId c h' (hall c hcm).1 (hall c hcm).2 (hpre c hcm).2
  rw [hres] at he3
  simp only [Option.some.injEq, Prod.mk.injEq] at he3
  obtain ⟨rfl, rfl, rfl⟩ := he3
  have hlc := removeMax_toList rootId c h' (hall c hcm).1 (hall c hcm).2 (hpre c hcm).2 _ _ _ hres
  -- the node's list around separator `i`
  have h0 : toList (.mk id kvs kids) = inorder ((kids.take (i + 1)).map toList) (kvs.take i) ++ kv ::
      inorder ((kids.drop (i + 1)).map toList) (kvs.drop (i + 1)) := by
    have := toList_at_sep' (id := id) (Or.inr hlen) hi kv
    rw [← hkvs] at this; exact this
  have hA : inorder ((kids.take (i + 1)).map toList) (kvs.take i) =
      pre ((kids.take i).map toList) (kvs.take i) ++ toList c := by
    have : kids.take (i + 1) = kids.take i ++ [c] := by
      rw [List.take_add_one, hcc]; rfl
    rw [this, List.map_append]
    exact inorder_eq_pre_last _ _ _ (by simp; omega)
  have h1 : toList (.mk id (replaceAt kvs i kvm) (replaceAt kids i c')) =
      serase cmp k (toList (.mk id kvs kids)) := by
    rw [h0] at hsort ⊢
    rw [serase_at_sep hc hsort he, hA, hlc]
    have := toList_at_sep' (id := id) (kvs := kvs) (kids := replaceAt kids i c')
      (Or.inr (by rw [length_replaceAt _ _ _ hil]; exact hlen)) hi kvm
    rw [replaceAt, this]
    have e1 : (replaceAt kids i c').take (i + 1) = kids.take i ++ [c'] := by
      have h1 : (kids.take i).length = i := by simp; omega
      rw [replaceAt, List.take_append, h1]
      have : List.take (i + 1) (List.take i kids) = List.take i kids := by
        rw [List.take_take]; congr 1; omega
      have e3 : i + 1 - i = 1 := by omega
      simp [this, e3]
    rw [e1, replaceAt_drop c' hil, List.map_append, List.map_cons, List.map_nil,
      inorder_eq_pre_last _ _ _ (by simp; omega)]
    simp
  have hg : (sget cmp k (toList (.mk id kvs kids))).isSome = true := by
    rw [h0] at hsort ⊢; rw [sget_at_sep hc hsort he]; rfl
  obtain ⟨f1, f2⟩ := del_finish_toList hp (length_replaceAt kvs i kvm hi) hcc hs3 h1
  rcases hu with rfl | rfl
  · simp only [Bool.not_false, if_true, DelSpec]
    exact ⟨f1 rfl, hg⟩
  · simp only [Bool.not_true, Bool.false_eq_true, if_false]
    cases hf : finish rootId id (replaceAt kvs i kvm) (replaceAt kids i c') i with
    | absent => exact absurd hf (finish_ne_absent _ _ _ _ _)
    | crash => trivial
    | done x' u => exact ⟨f2 rfl x' u hf, hg⟩

theorem notfound_inner (hc : StrictWeak cmp) {k : K} {rootId id i h : Nat} {isRoot : Bool} {kvs : List (K × V)}
    {kids : List (Node K V)} {c c' : Node K V} {under : Bool}
    (hs : searchNode cmp k kvs = (i, false)) (hne : kids ≠ []) (hcc : kids[i]? = some c)
    (hres : del cmp k rootId c = .done c' under)
    (ih : ∀ h isRoot, DelPre rootId h isRoot c → Sorted cmp (toList c) → DelSpec cmp k c (del cmp k rootId c))
    (hp : DelPre rootId h isRoot (.mk id kvs kids)) (hsort : Sorted cmp (toList (.mk id kvs kids)))
    (hu : under = false ∨ under = true) :
    DelSpec cmp k (.mk id kvs kids)
      (if !under then .done (.mk id kvs (replaceAt kids i c')) false
       else finish rootId id kvs (replaceAt kids i c') i) := by
  obtain ⟨h', rfl, hlen, hall, hpre⟩ := delPre_inner hne hp
  have hcm := List.mem_of_getElem? hcc
  obtain ⟨b1, b2, _⟩ := search_bounds cmp k kvs hs
  have hsort0 := hsort
  rw [toList_at_child_self hlen hcc] at hsort
  have hsc : Sorted cmp (toList c) := (List.pairwise_append.mp (List.pairwise_append.mp hsort).1).2.1
  have hsp := ih h' false (hpre c hcm).1 hsc
  have hbl := del_bal cmp k rootId c h' false (hpre c hcm).1
  rw [hres] at hsp hbl
  simp only [DelSpec] at hsp
  have hs3 : SubOK h' c' under := by simpa [DelOK] using hbl
  have h1 : toList (.mk id kvs (replaceAt kids i c')) = serase cmp k (toList (.mk id kvs kids)) := by
    rw [toList_at_child hlen hcc, toList_at_child_self hlen hcc, serase_at_child hc hsort b1 (b2 rfl), hsp.1]
  have hg : (sget cmp k (toList (.mk id kvs kids))).isSome = true := by
    rw [toList_at_child_self hlen hcc, sget_at_child hc hsort b1 (b2 rfl)]; exact hsp.2
  obtain ⟨f1, f2⟩ := del_finish_toList hp rfl hcc hs3 h1
  rcases hu with rfl | rfl
  · simp only [Bool.not_false, if_true, DelSpec]
    exact ⟨f1 rfl, hg⟩
  · simp only [Bool.not_true, Bool.false_eq_true, if_false]
    cases hf : finish rootId id kvs (replaceAt kids i c') i with
    | absent => exact absurd hf (finish_ne_absent _ _ _ _ _)
    | crash => trivial
    | done x' u => exact ⟨f2 rfl x' u hf, hg⟩

theorem del_refines_node (hc : StrictWeak cmp) (k : K) (rootId : Nat) (x : Node K V) :
    ∀ h isRoot, DelPre rootId h isRoot x → Sorted cmp (toList x) → DelSpec cmp k x (del cmp k rootId x) := by
  fun_induction del cmp k rootId x with
  | case1 id kvs kids i hs hleaf kvs' =>
    intro h isRoot hp hsort
    have hk : kids = [] := List.isEmpty_iff.mp hleaf
    subst hk
    obtain ⟨_, _, h3⟩ := search_bounds cmp k kvs hs
    obtain ⟨kv, hkv, he⟩ := h3 rfl
    have hkvs : kvs = kvs.take i ++ kv :: kvs.drop (i + 1) := (split_at_getElem? hkv).1
    simp only [DelSpec, toList_leaf] at hsort ⊢
    rw [hkvs] at hsort
    have hk' : kvs' = kvs.take i ++ kvs.drop (i + 1) := rfl
    constructor
    · rw [hk']; conv => rhs; rw [hkvs]
      rw [serase_at_sep hc hsort he]
    · rw [hkvs, sget_at_sep hc hsort he]; rfl
  | case2 id kvs kids i hs hinner hnone => intro h isRoot hp hsort; trivial
  | case3 id kvs kids i hs hinner c hcc hnone => intro h isRoot hp hsort; trivial
  | case4 id kvs kids i hs hinner c hcc kvm c' under hres kvs1 kids1 hu =>
    intro h isRoot hp hsort
    have hu' : under = false := by simpa using hu
    subst hu'
    have := found_inner hc hs (by simpa using hinner) hcc hres hp hsort (Or.inl rfl)
    simpa using this
  | case5 id kvs kids i hs hinner c hcc kvm c' under hres kvs1 kids1 hu =>
    intro h isRoot hp hsort
    have hu' : under = true := by simpa using hu
    subst hu'
    have := found_inner hc hs (by simpa using hinner) hcc hres hp hsort (Or.inr rfl)
    simpa using this
  | case6 id kvs kids i hs hleaf =>
    intro h isRoot hp hsort
    have hk : kids = [] := List.isEmpty_iff.mp hleaf
    subst hk
    simp only [DelSpec, toList_leaf]
    exact leaf_sget cmp k kvs hs
  | case7 id kvs kids i hs hinner hnone => intro h isRoot hp hsort; trivial
  | case8 id kvs kids i hs hinner c hcc hres ih =>
    intro h isRoot hp hsort
    have hne : kids ≠ [] := by simpa using hinner
    obtain ⟨h', rfl, hlen, hall, hpre⟩ := delPre_inner hne hp
    obtain ⟨b1, b2, _⟩ := search_bounds cmp k kvs hs
    rw [toList_at_child_self hlen hcc] at hsort
    have hsc : Sorted cmp (toList c) := (List.pairwise_append.mp (List.pairwise_append.mp hsort).1).2.1
    have := ih h' false (hpre c (List.mem_of_getElem? hcc)).1 hsc
    rw [hres] at this
    simp only [DelSpec] at this ⊢
    rw [toList_at_child_self hlen hcc, sget_at_child hc hsort b1 (b2 rfl), this]
  | case9 id kvs kids i hs hinner c hcc hres ih => intro h isRoot hp hsort; trivial
  | case10 id kvs kids i hs hinner c hcc c' under hres kids1 hu ih =>
    intro h isRoot hp hsort
    have hu' : under = false := by simpa using hu
    subst hu'
    have := notfound_inner hc hs (by simpa using hinner) hcc hres ih hp hsort (Or.inl rfl)
    simpa using this
  | case11 id kvs kids i hs hinner c hcc c' under hres kids1 hu ih =>
    intro h isRoot hp hsort
    have hu' : under = true := by simpa using hu
    subst hu'
    have := notfound_inner hc hs (by simpa using hinner) hcc hres ih hp hsort (Or.inr rfl)
    simpa using this


theorem length_serase (cmp : K → K → Int) (k : K) (l : List (K × V)) :
    (serase cmp k l).length = if (sget cmp k l).isSome then l.length - 1 else l.length := by
  induction l with
  | nil => simp [serase, sget]
  | cons x l ih =>
    obtain ⟨k', v'⟩ := x
    simp only [serase, sget]
    split
    · simp
    · split
      · simp
      · simp only [List.length_cons, ih]
        split
        · rename_i hsome
          have : 0 < l.length := by
            cases l with
            | nil => simp [sget] at hsome
            | cons _ _ => simp
          omega
        · rfl

/-- `Delete` on a well-formed tree with distinct node identities -/
theorem delete_refines_wf (hc : StrictWeak cmp) (t : Tree K V) (k : K) (hw : WF cmp t) (hid : (ids t.root).Nodup) :
    ∃ t', delete cmp t k = some t' ∧ WF cmp t' ∧ toList t'.root = serase cmp k (toList t.root) := by
  obtain ⟨h, hbal, hmax, hroot⟩ := hw.bal
  have hpre : DelPre t.root.id h true t.root := by
    refine ⟨hbal, hmax, ?_, fun _ => ⟨rfl, hroot⟩, (by intro h; cases h)⟩
    obtain ⟨⟨id, kvs, kids⟩, size, gen, nextId⟩ := t
    intro c hc
    simp only [ids, List.nodup_cons] at hid
    simp only [Node.id, NoId]
    intro hm
    exact hid.1 (List.mem_flatten.mpr ⟨ids c, List.mem_map.mpr ⟨c, hc, rfl⟩, hm⟩)
  have hb := del_bal cmp k t.root.id t.root h true hpre
  have hr := del_refines_node hc k t.root.id t.root h true hpre hw.sorted
  have hds : deleteDecSize = true := by decide
  have hlen := length_serase cmp k (toList t.root)
  unfold delete
  cases hres : del cmp k t.root.id t.root with
  | absent =>
    rw [hres] at hr
    simp only [DelSpec] at hr
    exact ⟨t, rfl, hw, (serase_of_sget_none hr).symm⟩
  | crash => rw [hres] at hb; exact hb.elim
  | done r u =>
    rw [hres] at hb hr
    obtain ⟨he, hg⟩ := hr
    refine ⟨_, rfl, ⟨hb, ?_, ?_⟩, he⟩
    · simp only; rw [he]; exact sorted_serase hw.sorted
    · simp only [hds, if_true]; rw [he, hlen, hg]
      have hpos : 0 < (toList t.root).length := by
        cases hl : toList t.root with
        | nil => rw [hl] at hg; simp [sget] at hg
        | cons _ _ => simp
      simp only [if_true]
      rw [hw.size]; omega

end Juniper.Proofs.Tree
