import Juniper.Proofs.StreamMergeOnce
/-! Helper lemmas for C12 (stream.Merge LTS), part 5: what the consumer is told — the normal end only
when every input ended and everything was delivered, an error only if it is the CAS winner's. -/
set_option linter.unusedSectionVars false
set_option linter.unusedSimpArgs false
set_option linter.unusedVariables false
namespace Juniper.Proofs.StreamMerge
open Juniper.Model.StreamMerge
variable {V : Type}

/-- `Close` of the merged stream has not been called. -/
def notClosing (s : St V) : Prop := ∀ rest, s.cpc ≠ .closing rest

def isCtxPc : GPc V → Prop
  | .gotErr e => e = .ctx
  | .won e _ => e = .ctx
  | _ => False

def DropOK (g : G V) : Prop := g.why ≠ some .sendFailed → g.dropped = []

/-- the goroutine has been through the CAS with error `x`, or is about to -/
def Logged (x : Nat) (g : G V) : Prop := isErrPc x g.pc ∨ g.why = some .lostCas ∨ g.why = some .wonCas

structure InvF (k : Nat) (s : St V) : Prop where
  j3 : notClosing s → s.streamDone = false ∧ (s.cancelled = true → s.closeOnce = true)
  f4 : s.closeOnce = false → notClosing s → ∀ g, g ∈ s.gs → g.why ≠ some .sendFailed
  drop : ∀ g, g ∈ s.gs → DropOK g
  r1 : ∀ e, Res.err e ∈ s.results → ∃ i x, e = .inj x ∧ s.winner = some (i, .inj x)
  r2 : ∀ i, s.winner = some (i, .ctx) → ¬ notClosing s
  r3 : ∀ g, g ∈ s.gs → isCtxPc g.pc → s.cancelled = true
  r4 : Res.endd ∈ s.results → s.closeOnce = false ∧ ∀ g, g ∈ s.gs → g.why = some .ended
  r5 : ∀ p, p ∈ s.errLog → ∃ g, s.gs[p.1]? = some g ∧ Logged p.2 g

theorem invF_init (k : Nat) : InvF k (init V k) := by
  refine ⟨fun _ => ⟨rfl, by simp [init]⟩, ?_, ?_, by simp [init], by simp [init], ?_, by simp [init], by simp [init]⟩
  · intro _ _ g hg; simp [init] at hg; rw [hg.2]; simp
  · intro g hg; simp [init] at hg; rw [hg.2]; intro _; rfl
  · intro g hg hc; simp [init] at hg; rw [hg.2] at hc; simp [isCtxPc] at hc

/-- a goroutine outside its loop keeps its ghost fields -/
theorem trans_after_loop {g g' : G V} (t : Trans g g') (h : LocalOK g) (hw : g.why ≠ none) :
    g'.why = g.why ∧ g'.dropped = g.dropped ∧ g'.items = g.items ∧ inLoop g'.pc = false := by
  have hl : inLoop g.pc = false := by
    cases hh : inLoop g.pc
    · rfl
    · exact absurd (h.why.mpr hh) hw
  cases t with
  | item v hp => simp [hp, inLoop] at hl
  | ended hp => simp [hp, inLoop] at hl
  | err e hp => simp [hp, inLoop] at hl
  | casWin e hp => simp [hp, inLoop] at hl
  | casLose e hp => simp [hp, inLoop] at hl
  | winStep e x rest hp => simp [hp, inLoop] at hl
  | winDone e hp => simp [hp, inLoop] at hl
  | sendOk v hp => simp [hp, inLoop] at hl
  | sendFail v hp => simp [hp, inLoop] at hl
  | mark d rest hp => simp [inLoop]
  | check d rest hp => simp [inLoop]
  | closeIn rest hp => simp [inLoop]
  | wgDone rest hp => simp [inLoop]
  | fin hp => simp [inLoop]

theorem trans_dropOK {g g' : G V} (t : Trans g g') (hl : LocalOK g) (h : DropOK g) : DropOK g' := by
  have hd := hl.dropped
  cases t with
  | item v hp => exact h
  | ended hp => intro _; exact hd (by simp [hp, inLoop])
  | err e hp => exact h
  | casWin e hp => exact h
  | casLose e hp => intro _; exact hd (by simp [hp, inLoop])
  | winStep e y rest hp => exact h
  | winDone e hp => intro _; exact hd (by simp [hp, inLoop])
  | sendOk v hp => simpa [DropOK, again] using h
  | sendFail v hp => intro hh; simp at hh
  | mark d rest hp => exact h
  | check d rest hp => exact h
  | closeIn rest hp => exact h
  | wgDone rest hp => exact h
  | fin hp => exact h

theorem trans_logged {g g' : G V} (t : Trans g g') (hl : LocalOK g) (x : Nat) (h : Logged x g) : Logged x g' := by
  by_cases hw : g.why = none
  · have hnw : ¬ (g.why = some .lostCas ∨ g.why = some .wonCas) := by rw [hw]; simp
    have he : isErrPc x g.pc := by rcases h with h | h; exact h; exact absurd h hnw
    cases t with
    | item v hp => simp [hp, isErrPc] at he
    | ended hp => simp [hp, isErrPc] at he
    | err e hp => simp [hp, isErrPc] at he
    | casWin e hp => left; simpa [hp, isErrPc] using he
    | casLose e hp => right; left; rfl
    | winStep e y rest hp => left; simpa [hp, isErrPc] using he
    | winDone e hp => right; right; rfl
    | sendOk v hp => simp [hp, isErrPc] at he
    | sendFail v hp => simp [hp, isErrPc] at he
    | mark d rest hp => simp [hp, isErrPc] at he
    | check d rest hp => simp [hp, isErrPc] at he
    | closeIn rest hp => simp [hp, isErrPc] at he
    | wgDone rest hp => simp [hp, isErrPc] at he
    | fin hp => simp [hp, isErrPc] at he
  · obtain ⟨h1, _, _, h4⟩ := trans_after_loop t hl hw
    have hnl : inLoop g.pc = false := by
      cases hh : inLoop g.pc
      · rfl
      · exact absurd (hl.why.mpr hh) hw
    rcases h with h | h
    · exfalso
      cases hp : g.pc <;> simp [hp, isErrPc, inLoop] at h hnl
    · right; rw [h1]; exact h

theorem trans_ctx {g g' : G V} (t : Trans g g') (h : isCtxPc g'.pc) : isCtxPc g.pc ∨ g.pc = .next := by
  cases t with
  | item v hp => simp [isCtxPc] at h
  | ended hp => simp [isCtxPc] at h
  | err e hp => right; exact hp
  | casWin e hp => left; simpa [hp, isCtxPc] using h
  | casLose e hp => simp [isCtxPc] at h
  | winStep e y rest hp => left; simpa [hp, isCtxPc] using h
  | winDone e hp => simp [isCtxPc] at h
  | sendOk v hp => simp [isCtxPc, again] at h
  | sendFail v hp => simp [isCtxPc] at h
  | mark d rest hp => simp [isCtxPc] at h
  | check d rest hp => simp [isCtxPc] at h
  | closeIn rest hp => simp [isCtxPc] at h
  | wgDone rest hp => simp [isCtxPc] at h
  | fin hp => simp [isCtxPc] at h

theorem trans_sendFailed {g g' : G V} (t : Trans g g') (h : g'.why = some .sendFailed) :
    g.why = some .sendFailed ∨ ∃ v, g.pc = .send v := by
  cases t with
  | sendFail v hp => right; exact ⟨v, hp⟩
  | sendOk v hp => left; simpa [again] using h
  | ended hp => simp at h
  | casLose e hp => simp at h
  | winDone e hp => simp at h
  | item v hp => left; exact h
  | err e hp => left; exact h
  | casWin e hp => left; exact h
  | winStep e y rest hp => left; exact h
  | mark d rest hp => left; exact h
  | check d rest hp => left; exact h
  | closeIn rest hp => left; exact h
  | wgDone rest hp => left; exact h
  | fin hp => left; exact h

/-- All goroutine steps. -/
theorem invF_gor {k : Nat} {s s' : St V} (ha : InvA k s) (hc : InvC k s) (hi : InvF k s) {i : Nat} {g g' : G V}
    (hg : s.gs[i]? = some g) (t : Trans g g') (hgs : s'.gs = s.gs.set i g')
    (hsd : s'.streamDone = s.streamDone)
    (hcpc : s'.cpc = s.cpc ∨ (∃ live, s.cpc = .inNext live ∧ s'.cpc = .idle))
    (hcan : s'.cancelled = s.cancelled ∨ (s'.cancelled = true ∧ s.closeOnce = true))
    (hco : (s'.closeOnce = s.closeOnce ∧ s'.winner = s.winner) ∨
           (s.closeOnce = false ∧ s'.closeOnce = true ∧ ∃ e, g.pc = .gotErr e ∧ s'.winner = some (i, e)))
    (hel : ∀ p, p ∈ s'.errLog → p ∈ s.errLog ∨ (p.1 = i ∧ isErrPc p.2 g'.pc))
    (hres : ∀ r, r ∈ s'.results → r ∈ s.results ∨ ∃ j v, r = .item j v)
    (hsf : (∃ v, g.pc = .send v) → g'.why = some .sendFailed → s.cancelled = true ∨ s.streamDone = true ∨ 0 < s.senderCloses)
    (hctx : g.pc = .next → isCtxPc g'.pc → s.cancelled = true) : InvF k s' := by
  have hgm : g ∈ s.gs := List.mem_of_getElem? hg
  have hloc := ha.loc g hgm
  have hk : 0 < k := by
    have := (List.getElem?_eq_some_iff.mp hg).1
    rw [ha.len] at this; omega
  obtain ⟨hmem, hget⟩ := set_facts (g' := g') hg
  have hnc : notClosing s' → notClosing s := by
    intro h rest hr
    rcases hcpc with h1 | ⟨live, h1, _⟩
    · exact h rest (by rw [h1]; exact hr)
    · rw [h1] at hr; cases hr
  have hcan' : s.cancelled = true → s'.cancelled = true := by
    intro h; rcases hcan with h1 | ⟨h1, _⟩
    · rw [h1]; exact h
    · exact h1
  refine ⟨?_, ?_, ?_, ?_, ?_, ?_, ?_, ?_⟩
  · intro hn
    obtain ⟨j1, j2⟩ := hi.j3 (hnc hn)
    refine ⟨by rw [hsd]; exact j1, ?_⟩
    intro hcc
    rcases hco with ⟨h1, _⟩ | ⟨_, h1, _⟩
    · rw [h1]
      rcases hcan with h2 | ⟨_, h2⟩
      · exact j2 (by rw [← h2]; exact hcc)
      · exact h2
    · exact h1
  · intro hcf hn a haa
    rcases hco with ⟨h1, _⟩ | ⟨_, h1, _⟩
    · rw [h1] at hcf
      rw [hgs] at haa
      rcases hmem a haa with haa | rfl
      · exact hi.f4 hcf (hnc hn) a haa
      · intro hsf'
        rcases trans_sendFailed t hsf' with h | hv
        · exact hi.f4 hcf (hnc hn) g hgm h
        · obtain ⟨j1, j2⟩ := hi.j3 (hnc hn)
          rcases hsf hv hsf' with h | h | h
          · have := j2 h; rw [hcf] at this; cases this
          · rw [j1] at h; cases h
          · have hsc := hc.sc hk
            obtain ⟨v, hv⟩ := hv
            have hmay : 1 ≤ sumBy (mayNilInd k) s.gs := by
              have := sumBy_ge_mem (mayNilInd k) s.gs g hgm
              simp [mayNilInd, hv, marked] at this; exact this
            have hpos : 0 < sumBy (mayNilInd k) s.gs := by omega
            simp only [hcf, hpos, and_self, if_true] at hsc
            omega
    · rw [h1] at hcf; cases hcf
  · intro a haa
    rw [hgs] at haa
    rcases hmem a haa with haa | rfl
    · exact hi.drop a haa
    · exact trans_dropOK t hloc (hi.drop g hgm)
  · intro e he
    rcases hres _ he with he | ⟨j, v, he⟩
    · obtain ⟨j, x, h1, h2⟩ := hi.r1 e he
      rcases hco with ⟨_, h3⟩ | ⟨h3, _, _⟩
      · exact ⟨j, x, h1, by rw [h3]; exact h2⟩
      · rw [(hc.w1 h3).2.1] at h2; cases h2
    · cases he
  · intro j hw hn
    rcases hco with ⟨_, h3⟩ | ⟨h3, _, e, hp, h4⟩
    · exact hi.r2 j (by rw [← h3]; exact hw) (hnc hn)
    · rw [h4] at hw; simp at hw
      obtain ⟨_, rfl⟩ := hw
      have hcn := hi.r3 g hgm (by simp [hp, isCtxPc])
      have := (hi.j3 (hnc hn)).2 hcn
      rw [h3] at this; cases this
  · intro a haa hx
    rw [hgs] at haa
    rcases hmem a haa with haa | rfl
    · exact hcan' (hi.r3 a haa hx)
    · rcases trans_ctx t hx with h | h
      · exact hcan' (hi.r3 g hgm h)
      · exact hcan' (hctx h hx)
  · intro he
    have he' : Res.endd ∈ s.results := by
      rcases hres _ he with he | ⟨j, v, he⟩
      · exact he
      · cases he
    obtain ⟨h1, h2⟩ := hi.r4 he'
    have hgw := h2 g hgm
    have hst := trans_after_loop t hloc (by rw [hgw]; simp)
    rcases hco with ⟨h3, _⟩ | ⟨_, _, e, hp, _⟩
    · refine ⟨by rw [h3]; exact h1, ?_⟩
      intro a haa
      rw [hgs] at haa
      rcases hmem a haa with haa | rfl
      · exact h2 a haa
      · rw [hst.1]; exact hgw
    · have := hloc.why.mpr (by simp [hp, inLoop])
      rw [hgw] at this; cases this
  · intro p hp
    rcases hel p hp with hp | ⟨h1, h2⟩
    · obtain ⟨a, ha1, ha2⟩ := hi.r5 p hp
      by_cases hpi : p.1 = i
      · rw [hpi] at ha1
        rw [hg] at ha1; cases ha1
        refine ⟨g', ?_, trans_logged t hloc p.2 ha2⟩
        rw [hgs, hpi]
        simp [List.getElem?_set, (List.getElem?_eq_some_iff.mp hg).1]
      · refine ⟨a, ?_, ha2⟩
        rw [hgs]
        have hne : ¬ i = p.1 := fun h => hpi h.symm
        simp [List.getElem?_set, hne, ha1]
    · refine ⟨g', ?_, .inl h2⟩
      rw [hgs, h1]
      simp [List.getElem?_set, (List.getElem?_eq_some_iff.mp hg).1]


/-- Consumer steps that keep `cpc` outside `closing` and change only `cpc` / `results`. -/
theorem invF_consumer {k : Nat} {s s' : St V} (hi : InvF k s)
    (hgs : s'.gs = s.gs) (hsd : s'.streamDone = s.streamDone) (hcan : s'.cancelled = s.cancelled)
    (hco : s'.closeOnce = s.closeOnce) (hw : s'.winner = s.winner) (hel : s'.errLog = s.errLog)
    (hnc : notClosing s' → notClosing s)
    (hr1 : ∀ e, Res.err e ∈ s'.results → Res.err e ∈ s.results ∨ ∃ i x, e = .inj x ∧ s.winner = some (i, .inj x))
    (hr4 : Res.endd ∈ s'.results → Res.endd ∈ s.results ∨ (s.closeOnce = false ∧ ∀ g, g ∈ s.gs → g.why = some .ended)) :
    InvF k s' := by
  refine ⟨?_, ?_, ?_, ?_, ?_, ?_, ?_, ?_⟩
  · intro hn; rw [hsd, hcan, hco]; exact hi.j3 (hnc hn)
  · intro hcf hn; rw [hgs]; rw [hco] at hcf; exact hi.f4 hcf (hnc hn)
  · rw [hgs]; exact hi.drop
  · intro e he
    rw [hw]
    rcases hr1 e he with he | he
    · exact hi.r1 e he
    · exact he
  · intro j hj hn; rw [hw] at hj; exact hi.r2 j hj (hnc hn)
  · rw [hgs, hcan]; exact hi.r3
  · intro he
    rw [hco, hgs]
    rcases hr4 he with he | he
    · exact hi.r4 he
    · exact he
  · rw [hel, hgs]; exact hi.r5

/-- `ho`: the context handed to the inputs ends only through `cancel()` (the environment label `ctxEnds` is
dead) — this is what makes "`cancelled` before `Close` implies the CAS was won" (`j3`) and "a context error
reaches the CAS only after `cancel()`" (`r3`) invariants. -/
theorem invF_step {k : Nat} {s s' : St V} {l : Label V} (ho : ctxOrigin = .plainCancel) (ha : InvA k s)
    (hc : InvC k s) (hi : InvF k s) (h : step s l = some s') : InvF k s' := by
  cases l with
  | ctxEnds => exact (no_ctxEnds (ha.org.trans ho) h).elim
  | inItem i v =>
    obtain ⟨g, hg, hp, rfl⟩ := step_inItem h
    exact invF_gor ha hc hi hg (.item g v hp) rfl rfl (.inl rfl) (.inl rfl) (.inl ⟨rfl, rfl⟩) (fun _ h => .inl h)
      (fun _ h => .inl h) (fun ⟨w, hw⟩ => by rw [hp] at hw; cases hw) (fun _ hx => by simp [isCtxPc] at hx)
  | inEnd i =>
    obtain ⟨g, hg, hp, rfl⟩ := step_inEnd h
    exact invF_gor ha hc hi hg (.ended g hp) rfl rfl (.inl rfl) (.inl rfl) (.inl ⟨rfl, rfl⟩) (fun _ h => .inl h)
      (fun _ h => .inl h) (fun ⟨w, hw⟩ => by rw [hp] at hw; cases hw) (fun _ hx => by simp [isCtxPc] at hx)
  | inErr i e =>
    obtain ⟨g, hg, hp, rfl⟩ := step_inErr h
    refine invF_gor ha hc hi hg (.err g (.inj e) hp) rfl rfl (.inl rfl) (.inl rfl) (.inl ⟨rfl, rfl⟩) ?_
      (fun _ h => .inl h) (fun ⟨w, hw⟩ => by rw [hp] at hw; cases hw) (fun _ hx => by simp [isCtxPc] at hx)
    intro p hp'
    simp at hp'
    rcases hp' with hp' | rfl
    · exact .inl hp'
    · exact .inr ⟨rfl, by simp [isErrPc]⟩
  | inCtx i =>
    obtain ⟨g, hg, hp, hcn, rfl⟩ := step_inCtx h
    exact invF_gor ha hc hi hg (.err g .ctx hp) rfl rfl (.inl rfl) (.inl rfl) (.inl ⟨rfl, rfl⟩) (fun _ h => .inl h)
      (fun _ h => .inl h) (fun ⟨w, hw⟩ => by rw [hp] at hw; cases hw) (fun _ _ => hcn)
  | cas i =>
    obtain ⟨g, e, hg, hp, hcc⟩ := step_cas h
    rcases hcc with ⟨hco, rfl⟩ | ⟨hco, rfl⟩
    · exact invF_gor ha hc hi hg (.casWin g e hp) rfl rfl (.inl rfl) (.inl rfl) (.inr ⟨hco, rfl, e, hp, rfl⟩)
        (fun _ h => .inl h) (fun _ h => .inl h) (fun ⟨w, hw⟩ => by rw [hp] at hw; cases hw)
        (fun hn => by rw [hp] at hn; cases hn)
    · exact invF_gor ha hc hi hg (.casLose g e hp) rfl rfl (.inl rfl) (.inl rfl) (.inl ⟨rfl, rfl⟩)
        (fun _ h => .inl h) (fun _ h => .inl h) (fun ⟨w, hw⟩ => by rw [hp] at hw; cases hw)
        (fun hn => by rw [hp] at hn; cases hn)
  | win i =>
    obtain ⟨g, e, hg, hcc⟩ := step_win h
    have hgm : g ∈ s.gs := List.mem_of_getElem? hg
    rcases hcc with ⟨rest, hp, rfl⟩ | ⟨rest, hp, rfl⟩ | ⟨hp, rfl⟩
    · have hco : s.closeOnce = true := by
        cases hcc : s.closeOnce
        · exact absurd hp (((hc.w1 hcc).1 g hgm).1 e _)
        · rfl
      exact invF_gor ha hc hi hg (.winStep g e _ rest hp) rfl rfl (.inl rfl) (.inr ⟨rfl, hco⟩) (.inl ⟨rfl, rfl⟩)
        (fun _ h => .inl h) (fun _ h => .inl h) (fun ⟨w, hw⟩ => by rw [hp] at hw; cases hw)
        (fun hn => by rw [hp] at hn; cases hn)
    · exact invF_gor ha hc hi hg (.winStep g e _ rest hp) rfl rfl (.inl rfl) (.inl rfl) (.inl ⟨rfl, rfl⟩)
        (fun _ h => .inl h) (fun _ h => .inl h) (fun ⟨w, hw⟩ => by rw [hp] at hw; cases hw)
        (fun hn => by rw [hp] at hn; cases hn)
    · exact invF_gor ha hc hi hg (.winDone g e hp) rfl rfl (.inl rfl) (.inl rfl) (.inl ⟨rfl, rfl⟩)
        (fun _ h => .inl h) (fun _ h => .inl h) (fun ⟨w, hw⟩ => by rw [hp] at hw; cases hw)
        (fun hn => by rw [hp] at hn; cases hn)
  | sendOk i =>
    obtain ⟨g, v, live, hg, hp, hcp, rfl⟩ := step_sendOk h
    refine invF_gor ha hc hi hg (.sendOk g v hp) rfl rfl (.inr ⟨live, hcp, rfl⟩) (.inl rfl) (.inl ⟨rfl, rfl⟩)
      (fun _ h => .inl h) ?_ ?_ (fun hn => by rw [hp] at hn; cases hn)
    · intro r hr
      simp at hr
      rcases hr with hr | rfl
      · exact .inl hr
      · exact .inr ⟨i, v, rfl⟩
    · intro _ hw
      have hl := (ha.loc g (List.mem_of_getElem? hg)).why
      have : g.why = none := hl.mpr (by simp [hp, inLoop])
      simp [again, this] at hw
  | sendFail i =>
    obtain ⟨g, v, hg, hp, hcond, rfl⟩ := step_sendFail h
    exact invF_gor ha hc hi hg (.sendFail g v hp) rfl rfl (.inl rfl) (.inl rfl) (.inl ⟨rfl, rfl⟩)
      (fun _ h => .inl h) (fun _ h => .inl h) (fun _ _ => hcond) (fun hn => by rw [hp] at hn; cases hn)
  | exitStep i =>
    obtain ⟨g, hg, hcc⟩ := step_exitStep h
    rcases hcc with ⟨rest, hp, rfl⟩ | ⟨d, rest, hp, _, _, rfl⟩ | ⟨d, rest, hp, _, rfl⟩ | ⟨rest, hp, rfl⟩ |
      ⟨rest, hp, rfl⟩ | ⟨hp, rfl⟩
    · exact invF_gor ha hc hi hg (.mark g (s.nDone + 1) rest hp) rfl rfl (.inl rfl) (.inl rfl) (.inl ⟨rfl, rfl⟩)
        (fun _ h => .inl h) (fun _ h => .inl h) (fun ⟨w, hw⟩ => by rw [hp] at hw; cases hw)
        (fun hn => by rw [hp] at hn; cases hn)
    · exact invF_gor ha hc hi hg (.check g d rest hp) rfl rfl (.inl rfl) (.inl rfl) (.inl ⟨rfl, rfl⟩)
        (fun _ h => .inl h) (fun _ h => .inl h) (fun ⟨w, hw⟩ => by rw [hp] at hw; cases hw)
        (fun hn => by rw [hp] at hn; cases hn)
    · exact invF_gor ha hc hi hg (.check g d rest hp) rfl rfl (.inl rfl) (.inl rfl) (.inl ⟨rfl, rfl⟩)
        (fun _ h => .inl h) (fun _ h => .inl h) (fun ⟨w, hw⟩ => by rw [hp] at hw; cases hw)
        (fun hn => by rw [hp] at hn; cases hn)
    · exact invF_gor ha hc hi hg (.closeIn g rest hp) rfl rfl (.inl rfl) (.inl rfl) (.inl ⟨rfl, rfl⟩)
        (fun _ h => .inl h) (fun _ h => .inl h) (fun ⟨w, hw⟩ => by rw [hp] at hw; cases hw)
        (fun hn => by rw [hp] at hn; cases hn)
    · exact invF_gor ha hc hi hg (.wgDone g rest hp) rfl rfl (.inl rfl) (.inl rfl) (.inl ⟨rfl, rfl⟩)
        (fun _ h => .inl h) (fun _ h => .inl h) (fun ⟨w, hw⟩ => by rw [hp] at hw; cases hw)
        (fun hn => by rw [hp] at hn; cases hn)
    · exact invF_gor ha hc hi hg (.fin g hp) rfl rfl (.inl rfl) (.inl rfl) (.inl ⟨rfl, rfl⟩)
        (fun _ h => .inl h) (fun _ h => .inl h) (fun ⟨w, hw⟩ => by rw [hp] at hw; cases hw)
        (fun hn => by rw [hp] at hn; cases hn)
  | cCall live =>
    obtain ⟨hp, rfl⟩ := step_cCall h
    exact invF_consumer hi rfl rfl rfl rfl rfl rfl (fun _ rest hr => by rw [hp] at hr; cases hr)
      (fun _ he => .inl he) (fun he => .inl he)
  | cCtx =>
    obtain ⟨hp, rfl⟩ := step_cCtx h
    exact invF_consumer hi rfl rfl rfl rfl rfl rfl (fun _ rest hr => by rw [hp] at hr; cases hr)
      (fun _ he => by simp at he; exact .inl he) (fun he => by simp at he; exact .inl he)
  | cExpire =>
    obtain ⟨hp, rfl⟩ := step_cExpire h
    exact invF_consumer hi rfl rfl rfl rfl rfl rfl (fun _ rest hr => by rw [hp] at hr; cases hr)
      (fun _ he => .inl he) (fun he => .inl he)
  | cEnd =>
    obtain ⟨live, hp, hpos, rfl⟩ := step_cEnd h
    have hn : notClosing s := fun rest hr => by rw [hp] at hr; cases hr
    refine invF_consumer hi rfl rfl rfl rfl rfl rfl (fun _ => hn) ?_ ?_
    · intro e he
      simp at he
      rcases he with he | he
      · exact .inl he
      · right
        cases hse : s.senderErr with
        | none => rw [hse] at he; cases he
        | some e' =>
          rw [hse] at he
          simp at he; subst he
          obtain ⟨j, hj⟩ := hc.f1 _ hse
          cases e with
          | inj x => exact ⟨j, x, rfl, hj⟩
          | ctx => exact absurd hn (hi.r2 j hj)
    · intro he
      simp at he
      rcases he with he | he
      · exact .inl he
      · right
        cases hse : s.senderErr with
        | some e' => rw [hse] at he; cases he
        | none =>
          have hco : s.closeOnce = false := by
            cases hcc : s.closeOnce
            · rfl
            · exact absurd hse (hc.f2 hcc hpos)
          refine ⟨hco, ?_⟩
          intro g hg
          obtain ⟨i, hi', hgi⟩ := List.getElem_of_mem hg
          have hk : 0 < k := by rw [ha.len] at hi'; omega
          have hsc := hc.sc hk
          have hz : sumBy (mayNilInd k) s.gs = 0 := by
            rcases Nat.eq_zero_or_pos (sumBy (mayNilInd k) s.gs) with h0 | h0
            · exact h0
            · simp only [hco, h0, and_self, if_true] at hsc; omega
          have hgz := sumBy_zero (mayNilInd k) s.gs hz g hg
          have hmk : marked g.pc = true := by
            unfold mayNilInd at hgz
            split at hgz
            · cases hgz
            · rename_i hh
              cases hm : marked g.pc
              · exact absurd (.inl hm) hh
              · rfl
          have hloc := ha.loc g hg
          have hnl : inLoop g.pc = false := by
            cases hpc : g.pc <;> simp [hpc, marked, inLoop] at hmk ⊢
          have hwn : g.why ≠ none := fun hw => by
            have := hloc.why.mp hw; rw [hnl] at this; cases this
          obtain ⟨_, h2, h3⟩ := (hc.w1 hco).1 g hg
          have h4 := hi.f4 hco hn g hg
          cases hw : g.why with
          | none => exact absurd hw hwn
          | some w =>
            cases w with
            | ended => rfl
            | lostCas => exact absurd hw h3
            | wonCas => exact absurd hw h2
            | sendFailed => exact absurd hw h4
  | cClose =>
    obtain ⟨hp, rfl⟩ := step_cClose h
    have hnn : ¬ notClosing ({ s with cpc := .closing [.closeInner, .cancel, .wait] } : St V) := fun hn => hn _ rfl
    exact ⟨fun hn => absurd hn hnn, fun _ hn => absurd hn hnn, hi.drop, hi.r1, fun _ _ => hnn, hi.r3, hi.r4, hi.r5⟩
  | cCloseStep =>
    rcases step_cCloseStep h with ⟨rest, hp, rfl⟩ | ⟨rest, hp, rfl⟩ | ⟨rest, hp, _, rfl⟩
    · have hnn : ¬ notClosing ({ s with cpc := .closing rest, streamDone := true } : St V) := fun hn => hn _ rfl
      exact ⟨fun hn => absurd hn hnn, fun _ hn => absurd hn hnn, hi.drop, hi.r1, fun _ _ => hnn, hi.r3, hi.r4, hi.r5⟩
    · have hnn : ¬ notClosing ({ s with cpc := .closing rest, cancelled := true } : St V) := fun hn => hn _ rfl
      exact ⟨fun hn => absurd hn hnn, fun _ hn => absurd hn hnn, hi.drop, hi.r1, fun _ _ => hnn, fun _ _ _ => rfl, hi.r4, hi.r5⟩
    · have hnn : ¬ notClosing ({ s with cpc := .closing rest } : St V) := fun hn => hn _ rfl
      exact ⟨fun hn => absurd hn hnn, fun _ hn => absurd hn hnn, hi.drop, hi.r1, fun _ _ => hnn, hi.r3, hi.r4, hi.r5⟩

theorem cEnd_enabled {s : St V} {live : Bool} (hc : s.cpc = .inNext live) (hpos : 0 < s.senderCloses) :
    ∃ s', step s .cEnd = some s' ∧ s'.cpc = .idle ∧ s'.gs = s.gs ∧
      s'.results = s.results ++ [(match s.senderErr with | none => Res.endd | some e => Res.err e)] := by
  have : (step s .cEnd).isSome = true := by
    simp [step, hc, hpos, nextArmSenderDone_eq, consumerNextIsPipeNext_eq]
  obtain ⟨s', hs'⟩ := Option.isSome_iff_exists.mp this
  obtain ⟨_, _, _, rfl⟩ := step_cEnd hs'
  exact ⟨_, hs', rfl, rfl, rfl⟩

theorem reach_invF {k : Nat} {s : St V} (ho : ctxOrigin = .plainCancel) (h : Reach (init V k) s) : InvF k s := by
  induction h with
  | refl => exact invF_init k
  | step l hr hs ih => exact invF_step ho (reach_invA hr) (reach_invC hr) ih hs

end Juniper.Proofs.StreamMerge
