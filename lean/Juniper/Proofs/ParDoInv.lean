import Juniper.Proofs.ParDoBasic
/-! Inductive invariants of the `parallel.Do` / `DoContext` LTS (`Model/ParDo.lean`), part 1: the
counting backbone — every index handed out by the counter is in exactly one place (held by a worker
that has not called `f` yet, begun, or skipped because of a cancelled context), every begun call is
either running or ended. -/
set_option linter.unusedSimpArgs false
set_option linter.unusedVariables false

namespace Juniper.Proofs.ParDo
open Juniper.Gen Juniper.Model.ParDo

theorem countP_set_eq {α} (p : α → Bool) (l : List α) (w : Nat) (a b : α) (h : l[w]? = some b) :
    (l.set w a).countP p + (if p b then 1 else 0) = l.countP p + (if p a then 1 else 0) := by
  induction l generalizing w with
  | nil => simp at h
  | cons x xs ih =>
    cases w with
    | zero =>
      simp at h; subst h
      simp [List.countP_cons]; omega
    | succ w =>
      simp at h
      have := ih w h
      simp [List.countP_cons]; omega

def isPend (i : Nat) : Pc → Bool
  | .check j => j == i
  | .call j => j == i
  | _ => false

def isRun (i : Nat) : Pc → Bool
  | .inF j => j == i
  | _ => false

def pendC (s : St) (i : Nat) : Nat := s.ws.countP (isPend i)
def runC (s : St) (i : Nat) : Nat := s.ws.countP (isRun i)

/-- number of goroutines that call `f` (the caller itself in the sequential path) -/
def nW (cfg : Cfg) : Nat := if cfg.code.isSeq (effPar cfg) then 1 else numWorkers cfg

structure Inv1 (cfg : Cfg) (s : St) : Prop where
  len : s.ws.length = nW cfg
  seq : s.seq = cfg.code.isSeq (effPar cfg)
  xlo : -1 ≤ s.x
  A : ∀ i, pendC s i + begunCount s i + skippedCount s i = if (i : Int) ≤ s.x ∧ i < cfg.n then 1 else 0
  B : ∀ i, runC s i + endedCount s i = begunCount s i

syntax "step_cases " ident : tactic
macro_rules
  | `(tactic| step_cases $h:ident) =>
    `(tactic| (simp only [step] at $h:ident; repeat' split at $h:ident))

theorem inv1_init (cfg : Cfg) (hs : cfg.code.Sound) : Inv1 cfg (init cfg) := by
  unfold init
  split
  · refine ⟨?_, ?_, ?_, ?_, ?_⟩ <;> simp [pendC, runC, begunCount, endedCount, skippedCount, hs.seqLoop, hs.seqInit, hs.seqPost, effN_eq hs, nW, *]
    · intro i
      by_cases h0 : 0 < cfg.n <;> by_cases hi : i = 0 <;> simp [isPend, h0, hi] <;> omega
    · intro i; split <;> simp [isRun]
  · refine ⟨?_, ?_, ?_, ?_, ?_⟩ <;> simp [pendC, runC, begunCount, endedCount, skippedCount, hs.counterInit, isRun, nW, *]
    intro i
    have : ¬ ((i : Int) ≤ -1) := by omega
    simp [this, List.countP_replicate, isPend]




theorem countP_ge_of {α} (p : α → Bool) {l : List α} {w : Nat} {b : α} (h : l[w]? = some b) :
    (if p b then 1 else 0) ≤ l.countP p := by
  split
  · apply List.countP_pos_iff.2
    exact ⟨b, List.mem_of_getElem? h, by assumption⟩
  · omega

theorem countP_set_sub {α} {p : α → Bool} {l : List α} {w : Nat} {a b : α} (h : l[w]? = some b) :
    (l.set w a).countP p = l.countP p - (if p b then 1 else 0) + (if p a then 1 else 0) := by
  have h1 := countP_set_eq p l w a b h
  have h2 := countP_ge_of p h
  omega

syntax "inv1_close " ident ident ident : tactic
macro_rules
  | `(tactic| inv1_close $hi:ident $hs:ident $hw:ident) =>
    `(tactic| (
      have hx := ($hi).xlo
      refine ⟨?_, ?_, ?_, ?_, ?_⟩
      · simp only [List.length_set]; exact ($hi).len
      · exact ($hi).seq
      · simp only [($hs).counterDelta, ($hs).seqPost]; omega
      · intro i
        have hp := countP_ge_of (isPend i) $hw
        have h2 := ($hi).A i
        simp [countP_set_sub $hw, ($hs).workerDone, ($hs).fetch, ($hs).counterDelta, ($hs).seqLoop, ($hs).seqInit, ($hs).seqPost, effN_eq $hs, isPend, pendC, begunCount, skippedCount, List.countP_append] at * <;> grind
      · intro i
        have hp := countP_ge_of (isRun i) $hw
        have h2 := ($hi).B i
        simp [countP_set_sub $hw, isRun, runC, begunCount, endedCount, List.countP_append] at * <;> grind))

theorem inv1_step {cfg : Cfg} (hs : cfg.code.Sound) {s s' : St} {l : Label} (hi : Inv1 cfg s)
    (h : step cfg s l = some s') : Inv1 cfg s' := by
  cases l with
  | fetch w =>
    step_cases h <;> try (simp at h; done)
    all_goals (simp only [Option.some.injEq] at h; subst h)
    all_goals have hw := ‹s.ws[w]? = some Pc.fetch›
    all_goals inv1_close hi hs hw
  | check w =>
    step_cases h <;> try (simp at h; done)
    all_goals (simp only [Option.some.injEq] at h; subst h)
    all_goals have hw := ‹s.ws[w]? = some (Pc.check _)›
    all_goals inv1_close hi hs hw
  | begin w =>
    step_cases h <;> try (simp at h; done)
    all_goals (simp only [Option.some.injEq] at h; subst h)
    all_goals have hw := ‹s.ws[w]? = some (Pc.call _)›
    all_goals inv1_close hi hs hw
  | fEnd w r =>
    step_cases h <;> try (simp at h; done)
    all_goals (simp only [Option.some.injEq] at h; subst h)
    all_goals have hw := ‹s.ws[w]? = some (Pc.inF _)›
    all_goals inv1_close hi hs hw
  | egDone w =>
    step_cases h <;> try (simp at h; done)
    all_goals (simp only [Option.some.injEq] at h; subst h)
    all_goals have hw := ‹s.ws[w]? = some (Pc.retErr _)›
    all_goals inv1_close hi hs hw
  | callerCancel =>
    step_cases h <;> try (simp at h; done)
    all_goals (simp only [Option.some.injEq] at h; subst h)
    all_goals exact ⟨hi.len, hi.seq, hi.xlo, hi.A, hi.B⟩
  | ret =>
    step_cases h <;> try (simp at h; done)
    all_goals (simp only [Option.some.injEq] at h; subst h)
    · exact ⟨hi.len, hi.seq, hi.xlo, hi.A, hi.B⟩
    · rename_i e hws
      have h1 := hi.len; have h2 := hi.A; have h3 := hi.B
      refine ⟨?_, hi.seq, hi.xlo, ?_, ?_⟩
      · simp [hws] at h1 ⊢; exact h1
      · intro i; have := h2 i; simp [pendC, hws, isPend, begunCount, skippedCount] at this ⊢; exact this
      · intro i; have := h3 i; simp [runC, hws, isRun, begunCount, endedCount] at this ⊢; exact this
    · exact ⟨hi.len, hi.seq, hi.xlo, hi.A, hi.B⟩

theorem inv1 {cfg : Cfg} (hs : cfg.code.Sound) {s : St} (h : Reach cfg s) : Inv1 cfg s := by
  induction h with
  | init => exact inv1_init cfg hs
  | step _ hstep ih => exact inv1_step hs ih hstep

end Juniper.Proofs.ParDo
