import Juniper.Spec.Seq
/-!
# The ring buffer of `Last` (pure part, shared by the iterator and the stream version)
-/
namespace Juniper.Proofs.Ring
open Juniper.Spec
universe u
variable {α : Type u}

/-- store the `i`-th item (0-based) -/
def store (n : Nat) (buf : List (Option α)) (i : Nat) (a : α) : List (Option α) :=
  if n > 0 then buf.set (i % n) (some a) else buf

/-- read the buffer out after `i` items -/
def finish (n : Nat) (buf : List (Option α)) (i : Nat) : List (Option α) :=
  if i < n then buf.take i else if n > 0 then buf.drop (i % n) ++ buf.take (i % n) else []

/-- the buffer after feeding `l` to an empty ring of size `n` -/
def run (n : Nat) : List (Option α) → Nat → List α → List (Option α)
  | buf, _, [] => buf
  | buf, i, a :: l => run n (store n buf i a) (i + 1) l

theorem succ_mod (i n : Nat) (h : 0 < n) : (i + 1) % n = if i % n + 1 = n then 0 else i % n + 1 := by
  have hr := Nat.mod_lt i h
  rw [Nat.add_mod]
  by_cases h1 : n = 1
  · subst h1; simp [Nat.mod_one]
  · have : 1 % n = 1 := Nat.mod_eq_of_lt (by omega)
    rw [this]
    by_cases h2 : i % n + 1 = n
    · rw [if_pos h2, h2, Nat.mod_self]
    · rw [if_neg h2, Nat.mod_eq_of_lt (by omega)]

theorem lastN_snoc (n : Nat) (l : List α) (a : α) (hn : 0 < n) (hl : n ≤ l.length) :
    Seq.lastN n (l ++ [a]) = (Seq.lastN n l).tail ++ [a] := by
  simp only [Seq.lastN, List.length_append, List.length_cons, List.length_nil]
  rw [List.tail_drop, List.drop_append_of_le_length (by omega)]
  congr 2
  omega

/-- filling phase: fewer than `n` items so far -/
theorem store_fill (n : Nat) (l : List α) (a : α) (hl : l.length < n) :
    store n (l.map some ++ List.replicate (n - l.length) none) l.length a =
      (l ++ [a]).map some ++ List.replicate (n - (l.length + 1)) none := by
  have hn : n > 0 := by omega
  simp only [store, hn, if_true, Nat.mod_eq_of_lt hl]
  obtain ⟨k, hk⟩ : ∃ k, n - l.length = k + 1 := ⟨n - l.length - 1, by omega⟩
  rw [hk, List.replicate_succ]
  have : n - (l.length + 1) = k := by omega
  rw [this, List.set_append_right _ _ (by simp)]
  simp

/-- rotating phase: the invariant `drop r ++ take r = window` is preserved -/
theorem store_rotate (n : Nat) (buf : List (Option α)) (i : Nat) (a : α) (W : List α) (hn : 0 < n)
    (hb : buf.length = n) (hW : W.length = n)
    (hinv : buf.drop (i % n) ++ buf.take (i % n) = W.map some) :
    (store n buf i a).drop ((i + 1) % n) ++ (store n buf i a).take ((i + 1) % n) = (W.tail ++ [a]).map some := by
  have hr := Nat.mod_lt i hn
  generalize hrd : i % n = r at hinv hr
  have hset : store n buf i a = (buf.take r ++ [some a]) ++ buf.drop (r + 1) := by
    simp only [store, hn, if_true, hrd]
    rw [List.set_eq_take_append_cons_drop, if_pos (by omega)]
    simp
  have hlen : (buf.take r ++ [some a]).length = r + 1 := by simp; omega
  have hdrop : buf.drop r = buf[r]'(by omega) :: buf.drop (r + 1) := List.drop_eq_getElem_cons (by omega)
  rw [hdrop] at hinv
  have htail : (W.map some).tail = buf.drop (r + 1) ++ buf.take r := by rw [← hinv]; rfl
  have hmt : (W.tail ++ [a]).map some = (W.map some).tail ++ [some a] := by simp [List.map_tail]
  rw [hmt, htail, hset, succ_mod i n hn, hrd]
  by_cases h2 : r + 1 = n
  · rw [if_pos h2]
    have hnil : buf.drop (r + 1) = [] := List.drop_eq_nil_of_le (by omega)
    simp [hnil]
  · rw [if_neg h2, List.drop_left' hlen, List.take_left' hlen]
    simp

/-- the ring after the items `l` -/
structure RInv (n : Nat) (l : List α) (buf : List (Option α)) : Prop where
  len : buf.length = n
  fill : l.length ≤ n → buf = l.map some ++ List.replicate (n - l.length) none
  rot : 0 < n → n ≤ l.length →
    buf.drop (l.length % n) ++ buf.take (l.length % n) = (Seq.lastN n l).map some

theorem rinv_nil (n : Nat) : RInv n ([] : List α) (List.replicate n none) where
  len := by simp
  fill := by intro _; simp
  rot := by intro h1 h2; simp at h2; omega

theorem store_length (n : Nat) (buf : List (Option α)) (i : Nat) (a : α) : (store n buf i a).length = buf.length := by
  unfold store; split <;> simp

theorem rinv_step (n : Nat) (l : List α) (buf : List (Option α)) (a : α) (h : RInv n l buf) :
    RInv n (l ++ [a]) (store n buf l.length a) where
  len := by rw [store_length, h.len]
  fill := by
    intro hl
    simp only [List.length_append, List.length_cons, List.length_nil] at hl ⊢
    rw [h.fill (by omega)]
    exact store_fill n l a (by omega)
  rot := by
    intro hn hl
    simp only [List.length_append, List.length_cons, List.length_nil] at hl ⊢
    by_cases hlt : l.length < n
    · -- the ring has just become full: l.length + 1 = n
      have hfull : l.length + 1 = n := by omega
      rw [h.fill (by omega), store_fill n l a hlt, hfull, Nat.mod_self]
      have : n - n = 0 := by omega
      simp only [this, List.replicate_zero, List.append_nil, List.drop_zero, List.take_zero]
      have : Seq.lastN n (l ++ [a]) = l ++ [a] := by
        simp [Seq.lastN, hfull]
      rw [this]
    · have hge : n ≤ l.length := by omega
      have hW : (Seq.lastN n l).length = n := by simp [Seq.lastN]; omega
      rw [lastN_snoc n l a hn hge]
      exact store_rotate n buf l.length a (Seq.lastN n l) hn h.len hW (h.rot hn hge)

theorem rinv_run (n : Nat) (l l' : List α) (buf : List (Option α)) (h : RInv n l buf) :
    RInv n (l ++ l') (run n buf l.length l') := by
  induction l' generalizing l buf with
  | nil => simpa [run] using h
  | cons a l' ih =>
    have := ih (l ++ [a]) (store n buf l.length a) (rinv_step n l buf a h)
    simpa [run] using this

theorem rinv_finish (n : Nat) (l : List α) (buf : List (Option α)) (h : RInv n l buf) :
    finish n buf l.length = (Seq.lastN n l).map some := by
  unfold finish
  by_cases hlt : l.length < n
  · rw [if_pos hlt, h.fill (by omega)]
    have : l.length - n = 0 := by omega
    simp [Seq.lastN, this]
  · rw [if_neg hlt]
    by_cases hn : n > 0
    · rw [if_pos hn]; exact h.rot hn (by omega)
    · have : n = 0 := by omega
      subst this
      simp [Seq.lastN]

/-- **The ring buffer of `Last` returns the last `n` items**, for every `n` (0 included) and every input. -/
theorem run_finish (n : Nat) (l : List α) :
    finish n (run n (List.replicate n none) 0 l) l.length = (Seq.lastN n l).map some := by
  have := rinv_run n [] l (List.replicate n none) (rinv_nil n)
  simp only [List.nil_append, List.length_nil] at this
  exact rinv_finish n l _ this

end Juniper.Proofs.Ring
