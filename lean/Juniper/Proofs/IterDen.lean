import Juniper.Model.Iter
import Juniper.Spec.Seq
import Juniper.Proofs.Skeleton
/-!
# Denotation of iterator machines (framework for C07)

`Den m cost s L e`: from state `s` the machine `m` yields, after finitely many `skip`s each, the items
of `L` in order — each annotated with the value of `cost` (think: source items pulled so far) at the
moment it is delivered — and then reports the end (at cost `e`) on every further step, forever.
-/
namespace Juniper.Proofs.IterDen
open Juniper.Model.Iter
universe u v w
variable {σ : Type u} {α : Type v}

/-- state after `n` steps -/
def after (m : IM σ α) : Nat → σ → σ
  | 0, s => s
  | n + 1, s => after m n (m.step s).2

/-- every further step answers `done` -/
def Ended (m : IM σ α) (s : σ) : Prop := ∀ n, (m.step (after m n s)).1 = .done

theorem Ended.step {m : IM σ α} {s : σ} (h : Ended m s) : (m.step s).1 = .done ∧ Ended m (m.step s).2 :=
  ⟨h 0, fun n => h (n + 1)⟩

theorem Ended.step' {m : IM σ α} {s : σ} (h : Ended m s) : ∃ s', m.step s = (.done, s') ∧ Ended m s' := by
  have h1 := h.step
  rcases hx : m.step s with ⟨r, s'⟩
  rw [hx] at h1
  simp only at h1
  exact ⟨s', by rw [h1.1], h1.2⟩

/-- an invariant that forces `done` and is preserved by steps gives `Ended` -/
theorem ended_of_inv {m : IM σ α} (P : σ → Prop)
    (hstep : ∀ s, P s → (m.step s).1 = .done ∧ P (m.step s).2) {s : σ} (h0 : P s) : Ended m s := by
  intro n
  induction n generalizing s with
  | zero => exact (hstep s h0).1
  | succ n ih => exact ih (hstep s h0).2

theorem after_inv {m : IM σ α} (P : σ → Prop) (hstep : ∀ s, P s → P (m.step s).2) {s : σ} (h0 : P s) (n : Nat) :
    P (after m n s) := by
  induction n generalizing s with
  | zero => exact h0
  | succ n ih => exact ih (hstep s h0)

inductive Den (m : IM σ α) (cost : σ → Nat) : σ → List (α × Nat) → Nat → Prop
  | skip {s s' : σ} {L : List (α × Nat)} {e : Nat} :
      m.step s = (.skip, s') → Den m cost s' L e → Den m cost s L e
  | item {s s' : σ} {a : α} {L : List (α × Nat)} {e : Nat} :
      m.step s = (.item a, s') → Den m cost s' L e → Den m cost s ((a, cost s') :: L) e
  | done {s s' : σ} :
      m.step s = (.done, s') → Ended m s' → (∀ n, cost (after m n s') = cost s') → Den m cost s [] (cost s')

/-- an ended machine denotes the empty sequence -/
theorem den_of_ended {m : IM σ α} {cost : σ → Nat} {s : σ} (he : Ended m s)
    (hc : ∀ n, cost (after m n s) = cost s) : Den m cost s [] (cost s) := by
  obtain ⟨s', hs, he'⟩ := Ended.step' he
  have h1 : cost s' = cost s := by have := hc 1; simpa [after, hs] using this
  have hc' : ∀ n, cost (after m n s') = cost s' := by
    intro n
    have := hc (n + 1)
    simp only [after, hs] at this
    rw [this, h1]
  have := Den.done (cost := cost) hs he' hc'
  rwa [h1] at this

/-- the plain (un-annotated) denotation -/
def Denotes (m : IM σ α) (s : σ) (l : List α) : Prop := ∃ L e, Den m (fun _ => 0) s L e ∧ L.map Prod.fst = l

/-! ## consumer level: `Next` calls -/

/-- answers of `n` consecutive `Next()` calls -/
def nexts (m : IM σ α) (fuel : Nat) : Nat → σ → List (Option (Option α))
  | 0, _ => []
  | n + 1, s => (drive m fuel s).1 :: nexts m fuel n (drive m fuel s).2

/-- what a consumer of the sequence `l` sees: its items, then the end, again and again -/
def ideal : List α → Nat → List (Option (Option α))
  | _, 0 => []
  | [], n + 1 => some none :: ideal [] n
  | a :: l, n + 1 => some (some a) :: ideal l n

theorem drive_succ (m : IM σ α) (f : Nat) (s : σ) :
    drive m (f + 1) s = match m.step s with
      | (.item a, s') => (some (some a), s')
      | (.done, s') => (some none, s')
      | (.skip, s') => drive m f s' := rfl

theorem drive_mono {m : IM σ α} {f : Nat} {s : σ} {r : Option α} {s' : σ}
    (h : drive m f s = (some r, s')) : ∀ f', f ≤ f' → drive m f' s = (some r, s') := by
  induction f generalizing s with
  | zero => simp [drive] at h
  | succ f ih =>
    intro f' hf
    obtain ⟨g, rfl⟩ : ∃ g, f' = g + 1 := ⟨f' - 1, by omega⟩
    rw [drive_succ] at h ⊢
    rcases hs : m.step s with ⟨x, s0⟩
    rw [hs] at h
    cases x with
    | item a => simpa using h
    | done => simpa using h
    | skip => simp only at h ⊢; exact ih h g (by omega)

theorem ended_nexts {m : IM σ α} {s : σ} (h : Ended m s) (fuel : Nat) (hf : 1 ≤ fuel) (n : Nat) :
    nexts m fuel n s = ideal [] n := by
  induction n generalizing s with
  | zero => rfl
  | succ n ih =>
    obtain ⟨g, rfl⟩ : ∃ g, fuel = g + 1 := ⟨fuel - 1, by omega⟩
    have h1 := h.step
    have hd : drive m (g + 1) s = (some none, (m.step s).2) := by
      rw [drive_succ]
      rcases hx : m.step s with ⟨r, s'⟩
      rw [hx] at h1
      simp only at h1
      rw [h1.1]
    simp only [nexts, ideal, hd]
    rw [ih h1.2]

theorem den_nexts {m : IM σ α} {cost : σ → Nat} {s : σ} {L : List (α × Nat)} {e : Nat}
    (h : Den m cost s L e) : ∃ F, ∀ fuel, F ≤ fuel → ∀ n, nexts m fuel n s = ideal (L.map Prod.fst) n := by
  induction h with
  | @skip s s' L e hs _ ih =>
    obtain ⟨F, hF⟩ := ih
    refine ⟨F + 1, fun fuel hf n => ?_⟩
    cases n with
    | zero => rfl
    | succ n =>
      obtain ⟨g, rfl⟩ : ∃ g, fuel = g + 1 := ⟨fuel - 1, by omega⟩
      have h1 := hF g (by omega) (n + 1)
      have h2 := hF (g + 1) (by omega) (n + 1)
      have hd : drive m (g + 1) s = drive m g s' := by
        rw [drive_succ, hs]
      -- the first answer from s' is `some _`
      have hsome : ∃ r, (drive m g s').1 = some r := by
        cases hl : L.map Prod.fst with
        | nil => simp [nexts, ideal, hl] at h1; exact ⟨_, h1.1⟩
        | cons a l => simp [nexts, ideal, hl] at h1; exact ⟨_, h1.1⟩
      obtain ⟨r, hr⟩ := hsome
      have hd2 : drive m (g + 1) s' = drive m g s' := by
        have : drive m g s' = (some r, (drive m g s').2) := by rw [← hr]
        rw [this]
        exact drive_mono this _ (by omega)
      simp only [nexts, hd] at h2 ⊢
      rw [hd2] at h2
      exact h2
  | @item s s' a L e hs _ ih =>
    obtain ⟨F, hF⟩ := ih
    refine ⟨F + 1, fun fuel hf n => ?_⟩
    cases n with
    | zero => rfl
    | succ n =>
      obtain ⟨g, rfl⟩ : ∃ g, fuel = g + 1 := ⟨fuel - 1, by omega⟩
      have hd : drive m (g + 1) s = (some (some a), s') := by
        rw [drive_succ, hs]
      simp only [nexts, hd, List.map, ideal]
      rw [hF (g + 1) (by omega) n]
  | @done s s' hs he _ =>
    refine ⟨1, fun fuel hf n => ?_⟩
    have : Ended m s := by
      intro k
      cases k with
      | zero => simp [after, hs]
      | succ k => simpa [after, hs] using he k
    simpa using ended_nexts this fuel hf n

end Juniper.Proofs.IterDen
