import Lean.Elab.Tactic
import Juniper.Model.ParDo
/-! Basic facts for the `parallel.Do` / `DoContext` model: the regenerated guards mean what the
proofs assume (`Code.Sound`: the tactic `pardo_sound`), the clamping arithmetic, and the shape of reachable states. -/
set_option linter.unusedSimpArgs false
set_option linter.unusedVariables false

namespace Juniper.Proofs.ParDo
open Juniper.Gen Juniper.Model.ParDo

open Lean Elab Tactic in
/-- closes one tie (a field of `Code.Sound` / `Wrapper.Sound`, the control skeletons among them) by `decide` /
`rfl` on the regenerated definitions; otherwise fails naming the tie -/
elab "pardo_tie_field" : tactic => do
  try
    evalTactic (← `(tactic| first | decide | (intros; rfl)))
  catch _ =>
    let g ← getMainGoal
    let stmt := (← Lean.Meta.ppExpr (← g.getType)).pretty 100000
    throwError "tie broken: {stmt} -- a fact regenerated from the Go source (Juniper.Gen.Par / ParDoFacts / SkeletonPar) is not what the model and its proofs assume"

/-- `pardo_sound hc` proves `cfg.code.Sound` from `hc : cfg.code = doCode ∨ cfg.code = dcCode`: every field of
`Code.Sound` by evaluating the regenerated definitions (`rfl` / `decide`) — the guards, loop headers, clamp
bodies, the presence conjunct `structural`, and `skeleton`: the control skeletons of the body (top level,
sequential path, worker loop — the statement order `step` hard-wires).

There is deliberately **no closed lemma** `doCode.Sound` (nor a closed `pskel…_tie`) in `Proofs/`: `Code.Sound` is a
hypothesis of every lemma there, and every property theorem of `Props/C13*.lean` runs this tactic itself, so
that a changed fact or skeleton (an operator flipped, a loop header or a clamp assignment changed, a statement
added, dropped or moved in `parallel.go`) makes *the property theorems* fail to compile, by name, with
"tie broken: <statement>", rather than a lemma upstream of them. -/
syntax "pardo_sound " term : tactic
macro_rules
  | `(tactic| pardo_sound $hc:term) =>
    `(tactic| (
      have hcode := $hc
      rcases hcode with h | h <;> rw [h] <;> constructor <;> pardo_tie_field))

theorem loopCount_lt (cond : Int → Bool) (post : Int → Int) (p : Int) (hc : ∀ j, cond j = decide (j < p))
    (hp : ∀ j, post j = j + 1) :
    ∀ (fuel : Nat) (j : Int), 0 ≤ j → (p - j).toNat ≤ fuel → loopCount cond post fuel j = (p - j).toNat := by
  intro fuel
  induction fuel with
  | zero => intro j _ h; simp [loopCount]; omega
  | succ f ih =>
    intro j hj h
    simp only [loopCount, hc, hp]
    by_cases hlt : j < p
    · simp [hlt]
      rw [ih (j + 1) (by omega) (by omega)]
      omega
    · simp [hlt]; omega

/-- the spawn loop `for j := 0; j < parallelism; j++` (regenerated header) starts `parallelism` goroutines -/
theorem numWorkers_eq {cfg : Cfg} (hs : cfg.code.Sound) : numWorkers cfg = (effPar cfg).toNat := by
  unfold numWorkers
  rw [hs.spawnInit, loopCount_lt _ _ (effPar cfg) (fun j => hs.spawnLoop j _) hs.spawnPost _ 0 (by omega) (by omega)]
  simp

theorem afterLow_eq {cfg : Cfg} (hs : cfg.code.Sound) :
    afterLow cfg = (if cfg.P ≤ 0 then (cfg.gmp : Int) else cfg.P, (cfg.n : Int)) := by
  simp only [afterLow, hs.clampLow, hs.lowAssign]
  by_cases h : cfg.P ≤ 0 <;> simp [h]

/-- requested parallelism: `GOMAXPROCS` (the regenerated right-hand side of the first clamp) when `P ≤ 0` -/
theorem reqPar_eq {cfg : Cfg} (hs : cfg.code.Sound) :
    reqPar cfg = if cfg.P ≤ 0 then (cfg.gmp : Int) else cfg.P := by
  simp [reqPar, afterLow_eq hs]

theorem afterHigh_eq {cfg : Cfg} (hs : cfg.code.Sound) :
    afterHigh cfg = (if reqPar cfg > cfg.n then (cfg.n : Int) else reqPar cfg, (cfg.n : Int)) := by
  simp only [afterHigh, reqPar, hs.clampHigh, hs.highAssign, afterLow_eq hs]
  split <;> simp_all
  all_goals split <;> rfl

theorem effPar_eq {cfg : Cfg} (hs : cfg.code.Sound) :
    effPar cfg = if reqPar cfg > cfg.n then (cfg.n : Int) else reqPar cfg := by
  simp [effPar, afterHigh_eq hs]

/-- neither clamp statement assigns `n` (regenerated: both assign `parallelism`) -/
theorem effN_eq {cfg : Cfg} (hs : cfg.code.Sound) : effN cfg = (cfg.n : Int) := by
  simp [effN, afterHigh_eq hs]

theorem effPar_le_reqPar {cfg : Cfg} (hs : cfg.code.Sound) : effPar cfg ≤ reqPar cfg := by
  rw [effPar_eq hs]; split <;> omega

theorem reqPar_nonneg {cfg : Cfg} (hs : cfg.code.Sound) : 0 ≤ reqPar cfg := by
  rw [reqPar_eq hs]; split <;> omega

end Juniper.Proofs.ParDo
