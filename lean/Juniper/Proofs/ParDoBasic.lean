import Juniper.Model.ParDo
import Juniper.Proofs.SkeletonPar
/-! Basic facts for the `parallel.Do` / `DoContext` model: the regenerated guards mean what the
proofs assume (`Code.Sound`), the clamping arithmetic, and the shape of reachable states. -/
set_option linter.unusedSimpArgs false
set_option linter.unusedVariables false

namespace Juniper.Proofs.ParDo
open Juniper.Gen Juniper.Model.ParDo
open Juniper.Proofs.SkeletonPar (under pskelDo_ties pskelDoContext_ties pskelMap_tie pskelMapContext_tie)

/-- The guards regenerated from `parallel.Do` are the ones the proofs are about, for a body whose
control skeleton (top level, sequential path, worker loop) is the one `step` hard-wires. -/
theorem doCode_sound : doCode.Sound :=
  under pskelDo_ties (by constructor <;> first | decide | (intros; rfl))

/-- The guards regenerated from `parallel.DoContext` are the ones the proofs are about, for a body
whose control skeleton (top level, sequential path, worker loop) is the one `step` hard-wires. -/
theorem dcCode_sound : dcCode.Sound :=
  under pskelDoContext_ties (by constructor <;> first | decide | (intros; rfl))

theorem map_wrappers_structural : mapStructural = true ∧ mapContextStructural = true :=
  under (And.intro pskelMap_tie pskelMapContext_tie) (by constructor <;> decide)

theorem loopCount_lt (cond : Int → Bool) (p : Int) (hc : ∀ j, cond j = decide (j < p)) :
    ∀ (fuel : Nat) (j : Int), 0 ≤ j → (p - j).toNat ≤ fuel → loopCount cond fuel j = (p - j).toNat := by
  intro fuel
  induction fuel with
  | zero => intro j _ h; simp [loopCount]; omega
  | succ f ih =>
    intro j hj h
    simp only [loopCount, hc]
    by_cases hlt : j < p
    · simp [hlt]
      rw [ih (j + 1) (by omega) (by omega)]
      omega
    · simp [hlt]; omega

theorem numWorkers_eq {cfg : Cfg} (hs : cfg.code.Sound) : numWorkers cfg = (effPar cfg).toNat := by
  unfold numWorkers
  rw [loopCount_lt _ (effPar cfg) (fun j => hs.spawnLoop j _) _ 0 (by omega) (by omega)]
  simp

theorem reqPar_eq {cfg : Cfg} (hs : cfg.code.Sound) :
    reqPar cfg = if cfg.P ≤ 0 then (cfg.gmp : Int) else cfg.P := by
  simp [reqPar, hs.clampLow]

theorem effPar_eq {cfg : Cfg} (hs : cfg.code.Sound) :
    effPar cfg = if reqPar cfg > cfg.n then (cfg.n : Int) else reqPar cfg := by
  simp [effPar, hs.clampHigh]

theorem effPar_le_reqPar {cfg : Cfg} (hs : cfg.code.Sound) : effPar cfg ≤ reqPar cfg := by
  rw [effPar_eq hs]; split <;> omega

theorem reqPar_nonneg {cfg : Cfg} (hs : cfg.code.Sound) : 0 ≤ reqPar cfg := by
  rw [reqPar_eq hs]; split <;> omega

end Juniper.Proofs.ParDo
