import Juniper.Model.CondFine
import Juniper.Proofs.Cond
/-!
# The lock discipline of `ContextCond` makes `Signal` / `Broadcast` atomic and panic-free (C16)

About the fine-grained LTS of `Model/CondFine.lean` (statement-by-statement `Signal` / `Broadcast`, `c.m`
explicit) under the standard configuration (`cfg_gen`): an inductive invariant `FInv` over all labels, from
which (1) no reachable state has panicked — no send on a closed channel, no double close, no unlock of a
mutex that is not held — and (2) every reachable state, seen through `absOf`, is a reachable state of the
atomic LTS of `Model/Cond.lean`: `Signal` takes effect at its send, `Broadcast` at its `close`, and what
happens between `close` and the installation of the fresh channel commutes with the installation.
-/
namespace Juniper.Proofs.CondFine
open Juniper.Model.Cond Juniper.Proofs.Cond
open Juniper.Gen.Cond (Op)

/-! ## frame facts about the atomic LTS -/

theorem step_ws_length {s s' : State} {l : Label} (h : step Cfg.std s l = some s') : s'.ws.length = s.ws.length := by
  cases l with
  | start j => obtain ⟨_, _, _, _, rfl⟩ := step_start h; simp
  | release j => obtain ⟨_, _, _, rfl⟩ := step_release h; simp
  | arrive j c =>
    obtain ⟨_, _, _, _, hcase⟩ := step_arrive h
    rcases hcase with ⟨_, _, rfl⟩ | ⟨_, _, rfl⟩ | ⟨_, _, _, _, rfl⟩
    · unfold recvState; split <;> simp
    · simp
    · simp
  | signal to =>
    cases to with
    | some j => obtain ⟨_, _, rfl⟩ := step_signal_some h; simp
    | none =>
      obtain ⟨_, _, hcase⟩ := step_signal_none h
      rcases hcase with ⟨_, rfl⟩ | ⟨_, rfl⟩ <;> rfl
  | broadcast => obtain ⟨_, rfl⟩ := step_broadcast h; simp [bcState, wakeAll]
  | cancel j => obtain ⟨_, _, _, rfl⟩ := step_cancel h; simp
  | relock j => obtain ⟨_, _, _, rfl⟩ := step_relock h; simp
  | hunlock => obtain ⟨_, _, _, rfl⟩ := step_hunlock h; rfl

/-- every label but `broadcast` leaves the current-channel pointer, the number of channels and every
`closed` flag as they are -/
theorem step_frame {s s' : State} {l : Label} (h : step Cfg.std s l = some s') (hl : l ≠ .broadcast) :
    s'.cur = s.cur ∧ s'.chans.length = s.chans.length ∧ ∀ c, (chanAt s' c).closed = (chanAt s c).closed := by
  have setCase : ∀ (d : Nat) (x : Chan), x.closed = (chanAt s d).closed →
      ({ s with chans := s.chans.set d x } : State).chans.length = s.chans.length ∧
      ∀ c, (chanAt { s with chans := s.chans.set d x } c).closed = (chanAt s c).closed := by
    intro d x hx
    refine ⟨by simp, fun c => ?_⟩
    by_cases hdc : d = c
    · subst hdc
      by_cases hd : d < s.chans.length
      · rw [chanAt_set_same s d x hd, hx]
      · simp [chanAt, hd]
    · rw [chanAt_set_other s d c x hdc]
  cases l with
  | start j => obtain ⟨_, _, _, _, rfl⟩ := step_start h; exact ⟨rfl, rfl, fun _ => rfl⟩
  | release j => obtain ⟨_, _, _, rfl⟩ := step_release h; exact ⟨rfl, rfl, fun _ => rfl⟩
  | arrive j ch =>
    obtain ⟨w0, ch0, _, _, hcase⟩ := step_arrive h
    rcases hcase with ⟨_, _, rfl⟩ | ⟨_, _, rfl⟩ | ⟨_, _, _, _, rfl⟩
    · unfold recvState
      split
      · exact ⟨rfl, rfl, fun _ => rfl⟩
      · obtain ⟨a, b⟩ := setCase (ch0.getD s.cur) { chanAt s (ch0.getD s.cur) with buf := (chanAt s (ch0.getD s.cur)).buf - 1 } rfl
        exact ⟨rfl, a, b⟩
    · exact ⟨rfl, rfl, fun _ => rfl⟩
    · exact ⟨rfl, rfl, fun _ => rfl⟩
  | signal to =>
    cases to with
    | some j => obtain ⟨_, _, rfl⟩ := step_signal_some h; exact ⟨rfl, rfl, fun _ => rfl⟩
    | none =>
      obtain ⟨_, _, hcase⟩ := step_signal_none h
      rcases hcase with ⟨_, rfl⟩ | ⟨_, rfl⟩
      · obtain ⟨a, b⟩ := setCase s.cur { chanAt s s.cur with buf := (chanAt s s.cur).buf + 1 } rfl
        exact ⟨rfl, a, b⟩
      · exact ⟨rfl, rfl, fun _ => rfl⟩
  | broadcast => exact absurd rfl hl
  | cancel j => obtain ⟨_, _, _, rfl⟩ := step_cancel h; exact ⟨rfl, rfl, fun _ => rfl⟩
  | relock j => obtain ⟨_, _, _, rfl⟩ := step_relock h; exact ⟨rfl, rfl, fun _ => rfl⟩
  | hunlock => obtain ⟨_, _, _, rfl⟩ := step_hunlock h; exact ⟨rfl, rfl, fun _ => rfl⟩

/-- backwards version of `step_trans`: every waiter of the successor state is a waiter of the state before -/
theorem step_trans_back {s s' : State} {l : Label} {i : Nat} {w' : Waiter}
    (h : step Cfg.std s l = some s') (hw' : s'.ws[i]? = some w') :
    ∃ w, s.ws[i]? = some w ∧ PcTrans s s' i w.pc w'.pc := by
  have hlt : i < s.ws.length := by
    rw [← step_ws_length h]; exact (List.getElem?_eq_some_iff.mp hw').1
  obtain ⟨w'', hw'', ht⟩ := step_trans h (List.getElem?_eq_getElem hlt)
  rw [hw'] at hw''; cases hw''
  exact ⟨_, List.getElem?_eq_getElem hlt, ht⟩

/-! ## the installation of the fresh channel commutes with what can happen before it -/

/-- the fresh channel installed (and made current) -/
def inst (b : State) : State :=
  { b with chans := b.chans ++ [{ cap := 1, buf := 0, closed := false }], cur := b.chans.length }

/-- the snapshot a waiter carries on its way to the `select` is an existing channel -/
def SnapOk (n : Nat) : Pc → Prop
  | .held ch => ∃ c, ch = some c ∧ c < n
  | .unlocked ch => ∃ c, ch = some c ∧ c < n
  | _ => True

theorem chanAt_inst_lt (b : State) (c : Nat) (hc : c < b.chans.length) : chanAt (inst b) c = chanAt b c := by
  simp [chanAt, inst, List.getElem?_append_left hc]

theorem inst_setPc (b : State) (i : Nat) (p : Pc) : inst (setPc b i p) = setPc (inst b) i p := rfl

/-- **What happens between `close` and the installation of the fresh channel commutes with the
installation**: a waiter releasing the lock, reaching the `select` (with a snapshot of an existing channel),
its context ending, re-locking, the holder unlocking. -/
theorem step_inst {b b' : State} {l : Label} (h : step Cfg.std b l = some b')
    (hl : match l with | .release _ | .arrive _ _ | .cancel _ | .relock _ | .hunlock => True | _ => False)
    (hs : ∀ (i : Nat) (w : Waiter), b.ws[i]? = some w → SnapOk b.chans.length w.pc) :
    step Cfg.std (inst b) l = some (inst b') := by
  cases l with
  | start j => cases hl
  | signal to => cases hl
  | broadcast => cases hl
  | release j =>
    obtain ⟨ch, hpc, hlk, rfl⟩ := step_release h
    have hpc' : pcOf (inst b) j = some (.held ch) := hpc
    have hlk' : (inst b).lock = some j := hlk
    simp only [step, hpc', hlk', if_true]
    rfl
  | relock j =>
    obtain ⟨e, hpc, hlk, rfl⟩ := step_relock h
    have hpc' : pcOf (inst b) j = some (.woken e) := hpc
    have hlk' : (inst b).lock = none := hlk
    simp only [step, hpc', hlk']
    rfl
  | hunlock =>
    obtain ⟨i, hlk, hpc, rfl⟩ := step_hunlock h
    have hlk' : (inst b).lock = some i := hlk
    rcases hpc with hpc | hpc
    · have hpc' : pcOf (inst b) i = some .doneNil := hpc
      simp only [step, hlk', hpc']; rfl
    · have hpc' : pcOf (inst b) i = some .doneErr := hpc
      simp only [step, hlk', hpc']; rfl
  | cancel j =>
    obtain ⟨w, hw, hc, rfl⟩ := step_cancel h
    have hw' : (inst b).ws[j]? = some w := hw
    simp only [step, hw', hc, Bool.false_eq_true, if_false]
    rfl
  | arrive j c =>
    obtain ⟨w, ch0, hw, hwpc, hcase⟩ := step_arrive h
    have hsn := hs j w hw
    rw [hwpc] at hsn
    obtain ⟨ch, rfl, hch⟩ := hsn
    simp only [Option.getD_some] at hcase
    have hw' : (inst b).ws[j]? = some w := hw
    have hchan : chanAt (inst b) ch = chanAt b ch := chanAt_inst_lt b ch hch
    rcases hcase with ⟨rfl, hready, rfl⟩ | ⟨rfl, hcan, rfl⟩ | ⟨rfl, hopen, hbuf, hcan, rfl⟩
    · simp only [step, hw', hwpc, Option.getD_some, hchan, Cfg.std, Bool.true_and, afterWake, if_true]
      have hr : ((chanAt b ch).closed || decide (0 < (chanAt b ch).buf)) = true := by
        rcases hready with h1 | h1 <;> simp [h1]
      rw [if_pos hr]
      unfold recvState
      cases hcl : (chanAt b ch).closed
      · simp only [Bool.false_eq_true, if_false]
        simp [inst, setPc, List.set_append_left _ _ hch, hcl]
      · simp only [if_true]; rfl
    · simp only [step, hw', hwpc, Cfg.std, Bool.true_and, afterCtx, hcan, if_true, Bool.false_eq_true, if_false]
      rfl
    · simp only [step, hw', hwpc, Option.getD_some, hchan, Cfg.std, Bool.true_and, hopen, hbuf, hcan]
      simp
      rfl

/-! ## the invariant of the fine-grained LTS -/

/-- where a `Signal` / `Broadcast` call can be, and what it then holds -/
def CallOk (b : State) (c : CallT) : Prop :=
  match c.todo with
  | [.mRLock, .sel, .mRUnlock] => c.holdsR = false ∧ c.holdsW = false ∧ c.snap = none
  | [.sel, .mRUnlock] => c.holdsR = true ∧ c.holdsW = false ∧ (c.snap = none ∨ c.snap = some b.cur)
  | [.mRUnlock] => c.holdsR = true ∧ c.holdsW = false ∧ c.snap = none
  | [.mLock, .closeCur, .install, .mUnlock] => c.holdsR = false ∧ c.holdsW = false ∧ c.snap = none
  | [.closeCur, .install, .mUnlock] => c.holdsR = false ∧ c.holdsW = true ∧ c.snap = none
  | [.install, .mUnlock] => c.holdsR = false ∧ c.holdsW = true ∧ c.snap = none
  | [.mUnlock] => c.holdsR = false ∧ c.holdsW = true ∧ c.snap = none
  | [] => c.holdsR = false ∧ c.holdsW = false ∧ c.snap = none
  | _ => False

def absS (fs : FState) : State := absOf Cfg.std fs

theorem absS_eq (fs : FState) : absS fs = if (chanAt fs.base fs.base.cur).closed then inst fs.base else fs.base := rfl

structure FInv (fs : FState) : Prop where
  alive : fs.panicked = false
  callsOk : ∀ (k : Nat) (c : CallT), fs.calls[k]? = some c → CallOk fs.base c
  rd : fs.readers = fs.calls.countP (·.holdsR)
  wr : ∃ wh : Option Nat, fs.writer = wh.isSome ∧ (∀ q, wh = some q → q < fs.calls.length) ∧
        ∀ (k : Nat) (c : CallT), fs.calls[k]? = some c → (c.holdsW = true ↔ wh = some k)
  excl : fs.writer = true → fs.readers = 0
  cur_lt : fs.base.cur < fs.base.chans.length
  closed_mid : (chanAt fs.base fs.base.cur).closed = true ↔
      ∃ (k : Nat) (c : CallT), fs.calls[k]? = some c ∧ c.todo = [.install, .mUnlock]
  snaps : ∀ (i : Nat) (w : Waiter), fs.base.ws[i]? = some w → SnapOk fs.base.chans.length w.pc
  abs : Reach Cfg.std (absS fs)

theorem finv_init (k : Nat) : FInv (finit Cfg.std k) := by
  refine ⟨rfl, ?_, rfl, ⟨none, rfl, (fun q (h : (none : Option Nat) = some q) => nomatch h), ?_⟩, fun _ => rfl, by simp [finit, init], ?_, ?_, ?_⟩
  · intro k c h; simp [finit] at h
  · intro k c h; simp [finit] at h
  · constructor
    · intro h; simp [finit, init, chanAt] at h
    · rintro ⟨k, c, h, _⟩; simp [finit] at h
  · intro i w hw
    simp only [finit, init, List.getElem?_replicate] at hw
    split at hw
    · cases hw; simp [SnapOk]
    · cases hw
  · have : absS (finit Cfg.std k) = init Cfg.std k := by simp [absS_eq, finit, init, chanAt]
    rw [this]; exact .init k

/-- a mid-`Broadcast` call holds the write lock -/
theorem mid_writer {fs : FState} (hi : FInv fs) (hcl : (chanAt fs.base fs.base.cur).closed = true) :
    fs.writer = true ∧ fs.readers = 0 := by
  obtain ⟨k, c, hk, htodo⟩ := hi.closed_mid.mp hcl
  have hok := hi.callsOk k c hk
  simp only [CallOk, htodo] at hok
  obtain ⟨wh, hw, _, hall⟩ := hi.wr
  have : wh = some k := (hall k c hk).mp hok.2.1
  have hwr : fs.writer = true := by rw [hw, this]; rfl
  exact ⟨hwr, hi.excl hwr⟩

/-- a call that holds `c.m` for reading excludes the writer -/
theorem reader_no_writer {fs : FState} (hi : FInv fs) {k : Nat} {c : CallT} (hk : fs.calls[k]? = some c)
    (hr : c.holdsR = true) : fs.writer = false ∧ (chanAt fs.base fs.base.cur).closed = false ∧ 0 < fs.readers := by
  have hpos : 0 < fs.readers := by
    rw [hi.rd, List.countP_pos_iff]
    exact ⟨c, List.mem_of_getElem? hk, hr⟩
  have hw : fs.writer = false := by
    cases h : fs.writer
    · rfl
    · have := hi.excl h; omega
  refine ⟨hw, ?_, hpos⟩
  cases hcl : (chanAt fs.base fs.base.cur).closed
  · rfl
  · have := (mid_writer hi hcl).1; rw [hw] at this; cases this

theorem fstep_env {fs fs' : FState} {l : Label} (h : fstep Cfg.std fs (.env l) = some fs') :
    fs.panicked = false ∧ isEnvLabel l = true ∧ (readsCur l = true → fs.writer = false) ∧
      ∃ b', step Cfg.std fs.base l = some b' ∧ fs' = { fs with base := b' } := by
  simp only [fstep] at h
  split at h
  · cases h
  · rename_i hc1
    split at h
    · cases h
    · rename_i hc2
      cases hs : step Cfg.std fs.base l with
      | none => simp [hs] at h
      | some b' =>
        simp only [hs, Option.map_some, Option.some.injEq] at h
        refine ⟨by simpa using (by simpa using hc1 : fs.panicked = false ∧ _).1, by simpa using (by simpa using hc1 : _ ∧ isEnvLabel l = true).2, ?_, b', rfl, h.symm⟩
        intro hr
        simpa [hr] using hc2

theorem callOk_cur {b b' : State} {c : CallT} (hcur : b'.cur = b.cur) (h : CallOk b c) : CallOk b' c := by
  unfold CallOk at h ⊢
  rw [hcur]; exact h

theorem finv_env {fs fs' : FState} {l : Label} (hi : FInv fs) (h : fstep Cfg.std fs (.env l) = some fs') : FInv fs' := by
  obtain ⟨_, hc1, hc2, b', hs, rfl⟩ := fstep_env h
  have hne : l ≠ .broadcast := by
    intro e; subst e; simp [isEnvLabel] at hc1
  obtain ⟨hcur, hlen, hclosed⟩ := step_frame hs hne
  have hcl : (chanAt b' b'.cur).closed = (chanAt fs.base fs.base.cur).closed := by rw [hcur, hclosed]
  refine ⟨hi.alive, ?_, hi.rd, hi.wr, hi.excl, by show b'.cur < b'.chans.length; rw [hcur, hlen]; exact hi.cur_lt, ?_, ?_, ?_⟩
  · intro k c hk
    exact callOk_cur hcur (hi.callsOk k c hk)
  · show (chanAt b' b'.cur).closed = true ↔ _
    rw [hcl]; exact hi.closed_mid
  · intro i w' hw'
    obtain ⟨w, hw, ht⟩ := step_trans_back hs hw'
    have h0 := hi.snaps i w hw
    show SnapOk b'.chans.length w'.pc
    rw [hlen]
    generalize hp : w.pc = p at ht h0
    generalize hp' : w'.pc = p' at ht
    cases ht <;> simp_all [SnapOk]
    exact hi.cur_lt
  · show Reach Cfg.std (absS { fs with base := b' })
    rw [absS_eq]
    simp only [hcl]
    cases hmid : (chanAt fs.base fs.base.cur).closed
    · simp only [Bool.false_eq_true, if_false]
      have : absS fs = fs.base := by rw [absS_eq, hmid]; rfl
      exact .step l (this ▸ hi.abs) hs
    · simp only [if_true]
      have : absS fs = inst fs.base := by rw [absS_eq, hmid]; rfl
      have hw := (mid_writer hi hmid).1
      refine .step l (this ▸ hi.abs) (step_inst hs ?_ hi.snaps)
      cases l <;> simp_all [isEnvLabel, readsCur]

/-! ### bookkeeping for `List.set` on the calls -/

theorem set_cases {l : List CallT} {j k : Nat} {a c : CallT} (h : (l.set j a)[k]? = some c) :
    (k = j ∧ c = a) ∨ (k ≠ j ∧ l[k]? = some c) := by
  by_cases hk : k = j
  · subst hk
    left
    have hlt : k < l.length := by
      have := (List.getElem?_eq_some_iff.mp h).1
      simpa using this
    rw [List.getElem?_set_self hlt] at h
    exact ⟨rfl, by cases h; rfl⟩
  · right
    rw [List.getElem?_set_ne (fun e => hk e.symm)] at h
    exact ⟨hk, h⟩

theorem set_self {l : List CallT} {j : Nat} {a c : CallT} (h : l[j]? = some c) : (l.set j a)[j]? = some a :=
  List.getElem?_set_self (List.getElem?_eq_some_iff.mp h).1

theorem countP_set_add {α} (p : α → Bool) : ∀ (l : List α) (i : Nat) (h : i < l.length) (a : α),
    (l.set i a).countP p + (if p l[i] = true then 1 else 0) = l.countP p + (if p a = true then 1 else 0)
  | x :: xs, 0, _, a => by
    simp only [List.set_cons_zero, List.countP_cons, List.getElem_cons_zero]; omega
  | x :: xs, i + 1, h, a => by
    have := countP_set_add p xs i (by simpa using h) a
    simp only [List.set_cons_succ, List.countP_cons, List.getElem_cons_succ]; omega

theorem rd_set {l : List CallT} {j : Nat} {c a : CallT} (h : l[j]? = some c) :
    (l.set j a).countP (·.holdsR) + (if c.holdsR = true then 1 else 0)
      = l.countP (·.holdsR) + (if a.holdsR = true then 1 else 0) := by
  obtain ⟨hj, rfl⟩ := List.getElem?_eq_some_iff.mp h
  exact countP_set_add (·.holdsR) l j hj a

theorem callsOk_set {l : List CallT} {j : Nat} {a : CallT} {b b' : State}
    (h : ∀ (k : Nat) (c : CallT), l[k]? = some c → CallOk b c) (hcur : b'.cur = b.cur) (ha : CallOk b' a) :
    ∀ (k : Nat) (c : CallT), (l.set j a)[k]? = some c → CallOk b' c := by
  intro k c hk
  rcases set_cases hk with ⟨_, rfl⟩ | ⟨_, hk'⟩
  · exact ha
  · exact callOk_cur hcur (h k c hk')

theorem wr_set_same {l : List CallT} {j : Nat} {c a : CallT} {wh : Option Nat} (hj : l[j]? = some c)
    (h : ∀ (k : Nat) (x : CallT), l[k]? = some x → (x.holdsW = true ↔ wh = some k)) (hsame : a.holdsW = c.holdsW) :
    ∀ (k : Nat) (x : CallT), (l.set j a)[k]? = some x → (x.holdsW = true ↔ wh = some k) := by
  intro k x hk
  rcases set_cases hk with ⟨rfl, rfl⟩ | ⟨_, hk'⟩
  · rw [hsame]; exact h k c hj
  · exact h k x hk'

theorem wr_set_acquire {l : List CallT} {j : Nat} {c a : CallT} (hj : l[j]? = some c)
    (h : ∀ (k : Nat) (x : CallT), l[k]? = some x → (x.holdsW = true ↔ (none : Option Nat) = some k)) (ha : a.holdsW = true) :
    ∀ (k : Nat) (x : CallT), (l.set j a)[k]? = some x → (x.holdsW = true ↔ some j = some k) := by
  intro k x hk
  rcases set_cases hk with ⟨rfl, rfl⟩ | ⟨hne, hk'⟩
  · simp [ha]
  · have := h k x hk'
    constructor
    · intro hx; exact absurd (this.mp hx) (by simp)
    · intro e; exact absurd (Option.some.inj e).symm hne

theorem wr_set_release {l : List CallT} {j : Nat} {a : CallT}
    (h : ∀ (k : Nat) (x : CallT), l[k]? = some x → (x.holdsW = true ↔ some j = some k)) (ha : a.holdsW = false) :
    ∀ (k : Nat) (x : CallT), (l.set j a)[k]? = some x → (x.holdsW = true ↔ (none : Option Nat) = some k) := by
  intro k x hk
  rcases set_cases hk with ⟨rfl, rfl⟩ | ⟨hne, hk'⟩
  · simp [ha]
  · have := h k x hk'
    constructor
    · intro hx; exact absurd (Option.some.inj (this.mp hx)).symm hne
    · intro e; cases e

theorem mid_set_neither {l : List CallT} {j : Nat} {c a : CallT} (hj : l[j]? = some c)
    (hc : c.todo ≠ [.install, .mUnlock]) (ha : a.todo ≠ [.install, .mUnlock]) :
    (∃ (k : Nat) (x : CallT), (l.set j a)[k]? = some x ∧ x.todo = [.install, .mUnlock]) ↔
    (∃ (k : Nat) (x : CallT), l[k]? = some x ∧ x.todo = [.install, .mUnlock]) := by
  constructor
  · rintro ⟨k, x, hk, hx⟩
    rcases set_cases hk with ⟨_, rfl⟩ | ⟨_, hk'⟩
    · exact absurd hx ha
    · exact ⟨k, x, hk', hx⟩
  · rintro ⟨k, x, hk, hx⟩
    by_cases hkj : k = j
    · subst hkj; rw [hj] at hk; cases hk; exact absurd hx hc
    · exact ⟨k, x, by rw [List.getElem?_set_ne (fun e => hkj e.symm)]; exact hk, hx⟩

theorem finv_call {fs fs' : FState} {sig : Bool} (hi : FInv fs) (h : fstep Cfg.std fs (.call sig) = some fs') : FInv fs' := by
  simp only [fstep] at h
  split at h
  · cases h
  · simp only [Option.some.injEq] at h
    subst h
    have hnew : ∀ b, CallOk b { todo := if sig = true then Cfg.std.sigOps else Cfg.std.bcOps, holdsR := false, holdsW := false, snap := none } := by
      intro b; cases sig <;> simp [CallOk, Cfg.std]
    have hget : ∀ (k : Nat) (c : CallT), (fs.calls ++ [{ todo := if sig = true then Cfg.std.sigOps else Cfg.std.bcOps, holdsR := false, holdsW := false, snap := none }])[k]? = some c →
        fs.calls[k]? = some c ∨ (k = fs.calls.length ∧ c = { todo := if sig = true then Cfg.std.sigOps else Cfg.std.bcOps, holdsR := false, holdsW := false, snap := none }) := by
      intro k c hk
      by_cases hlt : k < fs.calls.length
      · left; rwa [List.getElem?_append_left hlt] at hk
      · right
        rw [List.getElem?_append_right (by omega)] at hk
        have : k - fs.calls.length = 0 := by
          cases hq : k - fs.calls.length with
          | zero => rfl
          | succ n => rw [hq] at hk; simp at hk
        rw [this] at hk
        simp at hk
        exact ⟨by omega, hk.symm⟩
    refine ⟨hi.alive, ?_, ?_, ?_, hi.excl, hi.cur_lt, ?_, hi.snaps, hi.abs⟩
    · intro k c hk
      rcases hget k c hk with h1 | ⟨_, rfl⟩
      · exact hi.callsOk k c h1
      · exact hnew _
    · show fs.readers = (fs.calls ++ [_]).countP _
      rw [List.countP_append, hi.rd]; simp
    · obtain ⟨wh, hw, hlt, hall⟩ := hi.wr
      refine ⟨wh, hw, fun q hq => by have := hlt q hq; simp; omega, ?_⟩
      intro k c hk
      rcases hget k c hk with h1 | ⟨hk', rfl⟩
      · exact hall k c h1
      · constructor
        · intro hx; cases hx
        · intro e
          have := hlt k e
          omega
    · rw [hi.closed_mid]
      constructor
      · rintro ⟨k, x, hk, hx⟩
        exact ⟨k, x, by rw [List.getElem?_append_left (List.getElem?_eq_some_iff.mp hk).1]; exact hk, hx⟩
      · rintro ⟨k, x, hk, hx⟩
        rcases hget k x hk with h1 | ⟨_, rfl⟩
        · exact ⟨k, x, h1, hx⟩
        · cases sig <;> simp [Cfg.std] at hx

theorem fstep_callStep {fs fs' : FState} {j : Nat} {to : Option Nat}
    (h : fstep Cfg.std fs (.callStep j to) = some fs') :
    fs.panicked = false ∧ ∃ c op rest, fs.calls[j]? = some c ∧ c.todo = op :: rest ∧
      opStep Cfg.std fs j c to op rest = some fs' := by
  simp only [fstep] at h
  split at h
  · cases h
  · rename_i hp
    split at h
    · cases h
    · rename_i c hc
      split at h
      · cases h
      · rename_i op rest htodo
        exact ⟨by simpa using hp, c, op, rest, hc, htodo, h⟩

/-- a call record changes, the channels and waiters do not -/
theorem finv_update {fs : FState} (hi : FInv fs) {j : Nat} {c c' : CallT} {r : Nat} {w : Bool}
    (hc : fs.calls[j]? = some c) (hok : CallOk fs.base c')
    (hmid : c.todo ≠ [.install, .mUnlock]) (hmid' : c'.todo ≠ [.install, .mUnlock])
    (hrd : r + (if c.holdsR = true then 1 else 0) = fs.readers + (if c'.holdsR = true then 1 else 0))
    (hwr : (c'.holdsW = c.holdsW ∧ w = fs.writer) ∨ (c.holdsW = false ∧ c'.holdsW = true ∧ fs.writer = false ∧ w = true) ∨
           (c.holdsW = true ∧ c'.holdsW = false ∧ w = false))
    (hexcl : w = true → r = 0) :
    FInv { fs with calls := fs.calls.set j c', readers := r, writer := w } := by
  refine ⟨hi.alive, callsOk_set hi.callsOk rfl hok, ?_, ?_, hexcl, hi.cur_lt, ?_, hi.snaps, hi.abs⟩
  · show r = (fs.calls.set j c').countP _
    have := rd_set (a := c') hc
    have := hi.rd
    omega
  · obtain ⟨wh, hw, hlt, hall⟩ := hi.wr
    rcases hwr with ⟨h1, h2⟩ | ⟨h1, h2, h3, h4⟩ | ⟨h1, h2, h3⟩
    · exact ⟨wh, by rw [h2]; exact hw, fun q hq => by simpa using hlt q hq, wr_set_same hc hall h1⟩
    · have hwh : wh = none := by
        cases wh with
        | none => rfl
        | some q => rw [h3] at hw; cases hw
      subst hwh
      refine ⟨some j, by rw [h4]; rfl, fun q hq => ?_, wr_set_acquire hc hall h2⟩
      cases hq
      simpa using (List.getElem?_eq_some_iff.mp hc).1
    · have hwh : wh = some j := (hall j c hc).mp h1
      subst hwh
      exact ⟨none, by rw [h3]; rfl, (fun q (hq : (none : Option Nat) = some q) => nomatch hq), wr_set_release hall h2⟩
  · exact hi.closed_mid.trans (mid_set_neither hc hmid hmid').symm

/-- only a call that holds `c.m` for reading depends on which channel is current -/
theorem callOk_noR {b b' : State} {x : CallT} (h : CallOk b x) (hr : x.holdsR = false) : CallOk b' x := by
  unfold CallOk at h ⊢
  split <;> simp_all

theorem snapOk_mono {n m : Nat} {p : Pc} (h : SnapOk n p) (hnm : n ≤ m) : SnapOk m p := by
  cases p <;> simp_all [SnapOk]
  all_goals (obtain ⟨c, h1, h2⟩ := h; exact ⟨c, h1, by omega⟩)

theorem broadcast_eq {b : State} (hopen : (chanAt b b.cur).closed = false) :
    step Cfg.std b .broadcast = some (bcState b) := by
  simp [step, Cfg.std, bcRun, bcStep, hopen, bcState]

theorem finv_callStep {fs fs' : FState} {j : Nat} {to : Option Nat} (hi : FInv fs)
    (h : fstep Cfg.std fs (.callStep j to) = some fs') : FInv fs' := by
  obtain ⟨_, c, op, rest, hc, htodo, hstep⟩ := fstep_callStep h
  have hok := hi.callsOk j c hc
  unfold CallOk at hok
  rw [htodo] at hok
  split at hok
  all_goals rename_i heq
  all_goals (try (obtain ⟨rfl, rfl⟩ := List.cons.inj heq))
  · -- `c.m.RLock()` of Signal
    obtain ⟨h1, h2, h3⟩ := hok
    simp only [opStep, setCall] at hstep
    split at hstep
    · cases hstep
    · rename_i hnw
      simp only [Option.some.injEq] at hstep
      subst hstep
      exact finv_update hi hc (by simp [CallOk, h2, h3]) (by rw [htodo]; simp) (by simp)
        (by simp [h1]) (Or.inl ⟨h2.symm ▸ rfl, rfl⟩) (by intro e; change fs.writer = true at e; exact absurd e hnw)
  · -- the `select` of Signal
    obtain ⟨h1, h2, h3⟩ := hok
    obtain ⟨hnw, hopen, hpos⟩ := reader_no_writer hi hc h1
    have hss : Cfg.std.sigSend = true := rfl
    simp only [opStep, setCall, hss, Bool.not_true, Bool.false_eq_true, if_false] at hstep
    cases hsn : c.snap with
    | none =>
      simp only [hsn, Option.some.injEq] at hstep
      subst hstep
      exact finv_update hi hc (by simp [CallOk, htodo, h1, h2]) (by rw [htodo]; simp) (by rw [htodo]; simp)
        (by simp) (Or.inl ⟨rfl, rfl⟩) (by intro e; rw [hnw] at e; cases e)
    | some ch =>
      have hch : ch = fs.base.cur := by
        rcases h3 with h3 | h3
        · rw [hsn] at h3; cases h3
        · rw [hsn] at h3; exact Option.some.inj h3
      subst hch
      simp only [hsn, hopen, Bool.false_eq_true, if_false] at hstep
      cases hsend : sendOn Cfg.std fs.base fs.base.cur to with
      | none => simp [hsend] at hstep
      | some b' =>
        simp only [hsend, Option.map_some, Option.some.injEq] at hstep
        subst hstep
        have hs : step Cfg.std fs.base (.signal to) = some b' := by
          simp only [step, Cfg.std, Bool.not_true, Bool.false_eq_true, if_false]; exact hsend
        obtain ⟨hcur, hlen, hclosed⟩ := step_frame hs (by simp)
        have hcl : (chanAt b' b'.cur).closed = false := by rw [hcur, hclosed]; exact hopen
        refine ⟨hi.alive, callsOk_set hi.callsOk hcur (by simp [CallOk, h1, h2]), ?_, ?_, hi.excl,
          by show b'.cur < b'.chans.length; rw [hcur, hlen]; exact hi.cur_lt, ?_, ?_, ?_⟩
        · show fs.readers = (fs.calls.set j _).countP _
          have := rd_set (a := { c with todo := [.mRUnlock], snap := none }) hc
          have := hi.rd
          simp only [h1, if_true] at *
          omega
        · obtain ⟨wh, hw, hlt, hall⟩ := hi.wr
          exact ⟨wh, hw, fun q hq => by simpa using hlt q hq, wr_set_same hc hall rfl⟩
        · show (chanAt b' b'.cur).closed = true ↔ _
          rw [hcl]
          have := hi.closed_mid
          rw [hopen] at this
          exact this.trans (mid_set_neither hc (by rw [htodo]; simp) (by simp)).symm
        · intro i w' hw'
          obtain ⟨w, hw, ht⟩ := step_trans_back hs hw'
          have h0 := hi.snaps i w hw
          show SnapOk b'.chans.length w'.pc
          rw [hlen]
          generalize hp : w.pc = p at ht h0
          generalize hp' : w'.pc = p' at ht
          cases ht <;> simp_all [SnapOk]
          exact hi.cur_lt
        · show Reach Cfg.std (absS { fs with base := b', calls := _ })
          have e1 : absS fs = fs.base := by rw [absS_eq, hopen]; rfl
          have e2 : absS { fs with base := b', calls := fs.calls.set j { c with todo := [.mRUnlock], snap := none } } = b' := by
            rw [absS_eq]; simp only [hcl]; rfl
          rw [e2]
          exact .step (.signal to) (e1 ▸ hi.abs) hs
  · -- `c.m.RUnlock()` of Signal
    obtain ⟨h1, h2, h3⟩ := hok
    obtain ⟨hnw, _, hpos⟩ := reader_no_writer hi hc h1
    simp only [opStep, setCall, h1, if_true, Option.some.injEq] at hstep
    subst hstep
    exact finv_update hi hc (by simp [CallOk, h2, h3]) (by rw [htodo]; simp) (by simp)
      (by simp [h1]; omega) (Or.inl ⟨h2.symm ▸ rfl, rfl⟩) (by intro e; rw [hnw] at e; cases e)
  · -- `c.m.Lock()` of Broadcast
    obtain ⟨h1, h2, h3⟩ := hok
    simp only [opStep, setCall] at hstep
    split at hstep
    · cases hstep
    · rename_i hfree
      simp only [Bool.or_eq_true, bne_iff_ne, ne_eq, not_or, Bool.not_eq_true, Decidable.not_not] at hfree
      simp only [Option.some.injEq] at hstep
      subst hstep
      exact finv_update hi hc (by simp [CallOk, h1, h3]) (by rw [htodo]; simp) (by simp)
        (by simp [h1]) (Or.inr (Or.inl ⟨h2, rfl, hfree.1, rfl⟩)) (fun _ => hfree.2)
  · -- `close(c.ch)`
    obtain ⟨h1, h2, h3⟩ := hok
    obtain ⟨wh, hw, hwlt, hall⟩ := hi.wr
    have hwh : wh = some j := (hall j c hc).mp h2
    have hopen : (chanAt fs.base fs.base.cur).closed = false := by
      cases hcl : (chanAt fs.base fs.base.cur).closed
      · rfl
      · obtain ⟨k, x, hk, hx⟩ := hi.closed_mid.mp hcl
        have hxok := hi.callsOk k x hk
        simp only [CallOk, hx] at hxok
        have : wh = some k := (hall k x hk).mp hxok.2.1
        rw [hwh] at this
        cases this
        rw [hc] at hk; cases hk
        rw [htodo] at hx; simp at hx
    simp only [opStep, setCall, hopen, Bool.false_eq_true, if_false, bcStep, Option.map_some, Option.some.injEq, Cfg.std, if_true] at hstep
    subst hstep
    refine ⟨hi.alive, callsOk_set hi.callsOk rfl (by simp [CallOk, h1, h2, h3]), ?_, ?_, hi.excl,
      by show fs.base.cur < (fs.base.chans.set _ _).length; simpa using hi.cur_lt, ?_, ?_, ?_⟩
    · show fs.readers = (fs.calls.set j _).countP _
      have := rd_set (a := { c with todo := [.install, .mUnlock] }) hc
      have := hi.rd
      simp only [h1] at *
      omega
    · exact ⟨wh, hw, fun q hq => by simpa using hwlt q hq, wr_set_same hc hall rfl⟩
    · constructor
      · intro _
        exact ⟨j, _, set_self hc, rfl⟩
      · intro _
        show (chanAt { fs.base with chans := fs.base.chans.set fs.base.cur _, ws := _ } fs.base.cur).closed = true
        simp [chanAt, hi.cur_lt]
    · intro i w' hw'
      have hw'' : (wakeAll Cfg.std fs.base.cur fs.base.ws)[i]? = some w' := hw'
      rw [wakeAll_get] at hw''
      cases hs : fs.base.ws[i]? with
      | none => simp [hs] at hw''
      | some w0 =>
        have h0 := hi.snaps i w0 hs
        simp only [hs, Option.map_some, Option.some.injEq] at hw''
        subst hw''
        show SnapOk (fs.base.chans.set _ _).length _
        rw [List.length_set]
        split
        · simp [SnapOk]
        · exact h0
    · have e1 : absS fs = fs.base := by rw [absS_eq, hopen]; rfl
      have hb := broadcast_eq hopen
      have := Reach.step .broadcast (e1 ▸ hi.abs) hb
      refine cast ?_ this
      congr 1
      rw [absS_eq]
      simp [chanAt, hi.cur_lt, inst, bcState, Cfg.std]
  · -- the installation of the fresh channel
    obtain ⟨h1, h2, h3⟩ := hok
    have hcl : (chanAt fs.base fs.base.cur).closed = true := hi.closed_mid.mpr ⟨j, c, hc, htodo⟩
    obtain ⟨hwt, hr0⟩ := mid_writer hi hcl
    obtain ⟨wh, hw, hwlt, hall⟩ := hi.wr
    have hwh : wh = some j := (hall j c hc).mp h2
    have hnoR : ∀ (k : Nat) (x : CallT), fs.calls[k]? = some x → x.holdsR = false := by
      intro k x hk
      have h0 : fs.calls.countP (·.holdsR) = 0 := by rw [← hi.rd]; exact hr0
      have := (List.countP_eq_zero.mp h0) x (List.mem_of_getElem? hk)
      simpa using this
    simp only [opStep, setCall, bcStep, Option.map_some, Option.some.injEq, Cfg.std] at hstep
    subst hstep
    refine ⟨hi.alive, ?_, ?_, ?_, hi.excl, by show fs.base.chans.length < (fs.base.chans ++ [_]).length; simp, ?_, ?_, ?_⟩
    · intro k x hk
      rcases set_cases hk with ⟨_, rfl⟩ | ⟨_, hk'⟩
      · simp [CallOk, h1, h2, h3]
      · exact callOk_noR (hi.callsOk k x hk') (hnoR k x hk')
    · show fs.readers = (fs.calls.set j _).countP _
      have := rd_set (a := { c with todo := [.mUnlock] }) hc
      have := hi.rd
      simp only [h1] at *
      omega
    · exact ⟨wh, hw, fun q hq => by simpa using hwlt q hq, wr_set_same hc hall rfl⟩
    · constructor
      · intro hx
        exfalso
        have : (chanAt { fs.base with chans := fs.base.chans ++ [{ cap := 1, buf := 0, closed := false }], cur := fs.base.chans.length } fs.base.chans.length).closed = true := hx
        simp [chanAt] at this
      · rintro ⟨k, x, hk, hx⟩
        exfalso
        rcases set_cases hk with ⟨_, rfl⟩ | ⟨hne, hk'⟩
        · simp at hx
        · have hxok := hi.callsOk k x hk'
          simp only [CallOk, hx] at hxok
          have : wh = some k := (hall k x hk').mp hxok.2.1
          rw [hwh] at this
          exact hne (Option.some.inj this).symm
    · intro i w hw'
      have h0 := hi.snaps i w hw'
      show SnapOk (fs.base.chans ++ [_]).length w.pc
      exact snapOk_mono h0 (by simp)
    · have e1 : absS fs = inst fs.base := by rw [absS_eq, hcl]; rfl
      refine cast ?_ hi.abs
      congr 1
      rw [e1, absS_eq]
      simp [chanAt, inst]
  · -- `c.m.Unlock()` of Broadcast
    obtain ⟨h1, h2, h3⟩ := hok
    simp only [opStep, setCall, h2, if_true, Option.some.injEq] at hstep
    subst hstep
    exact finv_update hi hc (by simp [CallOk, h1, h3]) (by rw [htodo]; simp) (by simp)
      (by simp [h1]) (Or.inr (Or.inr ⟨h2, rfl, rfl⟩)) (by intro e; cases e)
  · cases heq
  · exact hok.elim

/-- The invariant is preserved by every label of the fine-grained LTS. -/
theorem finv_step {fs fs' : FState} {l : FLabel} (hi : FInv fs) (h : fstep Cfg.std fs l = some fs') : FInv fs' := by
  cases l with
  | env l => exact finv_env hi h
  | call sig => exact finv_call hi h
  | callStep j to => exact finv_callStep hi h

theorem finv_reach {fs : FState} (h : FReach Cfg.std fs) : FInv fs := by
  induction h with
  | init k => exact finv_init k
  | step l _ hs ih => exact finv_step ih hs

theorem freach_frun {cfg : Cfg} {ls : List FLabel} : ∀ {fs fs' : FState}, FReach cfg fs → frun cfg fs ls = some fs' → FReach cfg fs' := by
  induction ls with
  | nil => intro fs fs' hr h; simp only [frun, Option.some.injEq] at h; subst h; exact hr
  | cons l ls ih =>
    intro fs fs' hr h
    simp only [frun] at h
    split at h
    · rename_i s1 h1; exact ih (.step l hr h1) h
    · cases h

end Juniper.Proofs.CondFine
