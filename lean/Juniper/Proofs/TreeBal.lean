import Juniper.Proofs.TreeBasic
/-!
# Balance and occupancy of the B-tree model are preserved by `Put` (C03)

`Bal h x`: below `x` all leaves are at depth `h`, every inner node has `n+1` children and every node
other than `x` itself has `minKVs ≤ n ≤ maxKVs`. The occupancy of `x` itself is stated separately
(`Occ`) because it is what the operations violate transiently.
-/
namespace Juniper.Proofs.Tree
open Juniper.Model.BTree Juniper.Gen.Tree

variable {K V : Type}

/-- the arithmetic facts about the generated constants that the proofs rely on (re-proved by
`decide` against the constants as they are in the source now) -/
theorem consts :
    1 ≤ minKVs ∧ 2 * minKVs ≤ maxKVs ∧ keysLen = maxKVs ∧ amalgamLen = maxKVs + 1 ∧
    medianIdx = leftN ∧ minKVs ≤ leftN ∧ minKVs ≤ rightN ∧ leftN + 1 + rightN = maxKVs + 1 ∧
    rightFirstIdx 0 = leftN + 1 ∧ rightFirstChildIdx 0 = leftN + 1 := by decide

def Occ (x : Node K V) : Prop := minKVs ≤ x.n ∧ x.n ≤ maxKVs

def Bal : Nat → Node K V → Prop
  | 0, .mk _ _ kids => kids = []
  | h + 1, .mk _ kvs kids => kids.length = kvs.length + 1 ∧ ∀ c ∈ kids, Bal h c ∧ Occ c

theorem bal_zero {id : Nat} {kvs : List (K × V)} {kids : List (Node K V)} :
    Bal 0 (.mk id kvs kids) ↔ kids = [] := by simp [Bal]

theorem bal_succ {h id : Nat} {kvs : List (K × V)} {kids : List (Node K V)} :
    Bal (h + 1) (.mk id kvs kids) ↔ kids.length = kvs.length + 1 ∧ ∀ c ∈ kids, Bal h c ∧ Occ c := by
  simp [Bal]

theorem bal_leaf_iff {h id : Nat} {kvs : List (K × V)} : Bal h (.mk id kvs []) ↔ h = 0 := by
  cases h with
  | zero => simp [Bal]
  | succ h => simp [Bal]

theorem bal_inner {h id : Nat} {kvs : List (K × V)} {kids : List (Node K V)} (hne : kids ≠ [])
    (hb : Bal h (.mk id kvs kids)) :
    ∃ h', h = h' + 1 ∧ kids.length = kvs.length + 1 ∧ ∀ c ∈ kids, Bal h' c ∧ Occ c := by
  cases h with
  | zero => exact absurd (bal_zero.mp hb) hne
  | succ h => exact ⟨h, rfl, bal_succ.mp hb⟩

theorem node_n (id : Nat) (kvs : List (K × V)) (kids : List (Node K V)) :
    (Node.mk id kvs kids).n = kvs.length := rfl

/-- what `overfillNode` produces from a full node: two balanced halves within the occupancy bounds -/
theorem overfill_bal (cmp : K → K → Int) (id : Nat) (kvs : List (K × V)) (kids : List (Node K V))
    (kv : K × V) (afterK : Option (Node K V)) (fresh h : Nat)
    (hfull : (kvs.length : Int) = maxKVs)
    (hk : (afterK = none ∧ kids = [] ∧ h = 0) ∨
      (∃ r h', afterK = some r ∧ h = h' + 1 ∧ kids.length = kvs.length + 1 ∧
        (∀ c ∈ kids, Bal h' c ∧ Occ c) ∧ Bal h' r ∧ Occ r)) :
    Bal h (overfillNode cmp id kvs kids kv afterK fresh).1 ∧
    Bal h (overfillNode cmp id kvs kids kv afterK fresh).2.2 ∧
    Occ (overfillNode cmp id kvs kids kv afterK fresh).1 ∧
    Occ (overfillNode cmp id kvs kids kv afterK fresh).2.2 := by
  obtain ⟨c1, c2, c3, c4, c5, c6, c7, c8, c9, c10⟩ := consts
  have he := lowerIdx_le amalgamLess cmp kv.1 kvs
  have hall : (insertAt kvs (lowerIdx amalgamLess cmp kv.1 kvs) kv).length = kvs.length + 1 :=
    length_insertAt _ _ _
  rcases hk with ⟨ha, hkids, hh⟩ | ⟨r, h', ha, hh, hlen, hc, hr, hro⟩
  · subst ha hkids hh
    simp only [overfillNode, List.take_nil, List.drop_nil]
    refine ⟨bal_zero.mpr rfl, bal_zero.mpr rfl, ?_, ?_⟩
    · simp only [Occ, node_n, List.length_take, hall]; omega
    · simp only [Occ, node_n, List.length_take, List.length_drop, hall]; omega
  · subst ha hh
    simp only [overfillNode, extraChildPos_eq]
    have hak : (insertAt kids (lowerIdx amalgamLess cmp kv.1 kvs + 1) r).length = kids.length + 1 :=
      length_insertAt _ _ _
    have hmem : ∀ c ∈ insertAt kids (lowerIdx amalgamLess cmp kv.1 kvs + 1) r, Bal h' c ∧ Occ c := by
      intro c hcm
      rcases mem_insertAt hcm with rfl | hcm
      · exact ⟨hr, hro⟩
      · exact hc c hcm
    refine ⟨bal_succ.mpr ⟨?_, ?_⟩, bal_succ.mpr ⟨?_, ?_⟩, ?_, ?_⟩
    · simp only [List.length_take, hall, hak]; omega
    · intro c hcm; exact hmem c (List.mem_of_mem_take hcm)
    · simp only [List.length_take, List.length_drop, hall, hak]; omega
    · intro c hcm; exact hmem c (List.mem_of_mem_drop (List.mem_of_mem_take hcm))
    · simp only [Occ, node_n, List.length_take, hall]; omega
    · simp only [Occ, node_n, List.length_take, List.length_drop, hall]; omega

/-- the outcome of `ins` on a balanced node -/
def InsOK (h : Nat) (x : Node K V) : InsRes K V → Prop
  | .crash => False
  | .found x' => Bal h x' ∧ x'.n = x.n
  | .one x' => Bal h x' ∧ x.n ≤ x'.n ∧ x'.n ≤ x.n + 1 ∧ x'.n ≤ maxKVs
  | .split l _ r => Bal h l ∧ Bal h r ∧ Occ l ∧ Occ r

theorem length_setVal (kvs : List (K × V)) (i : Nat) (v : V) : (setVal kvs i v).length = kvs.length := by
  unfold setVal
  split
  · rename_i k _ rest heq
    have h1 : kvs.length = (kvs.take i).length + (kvs.drop i).length := by
      rw [← List.length_append, List.take_append_drop]
    rw [heq] at h1
    simp only [List.length_append, List.length_cons] at h1 ⊢
    omega
  · rfl

theorem bal_replace_child {h id : Nat} {kvs : List (K × V)} {kids : List (Node K V)} {i : Nat}
    {c c' : Node K V} (hb : Bal (h + 1) (.mk id kvs kids)) (hi : kids[i]? = some c)
    (hc : Bal h c') (ho : Occ c') : Bal (h + 1) (.mk id kvs (replaceAt kids i c')) := by
  obtain ⟨hlen, hall⟩ := bal_succ.mp hb
  have hil : i < kids.length := (List.getElem?_eq_some_iff.mp hi).1
  refine bal_succ.mpr ⟨by rw [length_replaceAt _ _ _ hil]; exact hlen, ?_⟩
  intro d hd
  rcases mem_replaceAt hd with rfl | hd
  · exact ⟨hc, ho⟩
  · exact hall d hd

theorem bal_ins (cmp : K → K → Int) (k : K) (v : V) (x : Node K V) (fresh : Nat) :
    ∀ h, Bal h x → x.n ≤ maxKVs → InsOK h x (ins cmp k v x fresh).1 := by
  obtain ⟨c1, c2, c3, c4, c5, c6, c7, c8, c9, c10⟩ := consts
  fun_induction ins cmp k v x fresh with
  | case1 id kvs kids i hs =>
    intro h hb hn
    simp only [InsOK, node_n, length_setVal, and_true]
    cases h with
    | zero => exact bal_zero.mpr (bal_zero.mp hb)
    | succ h => exact bal_succ.mpr (by simpa [length_setVal] using bal_succ.mp hb)
  | case2 id kvs kids i hs hleaf hroom =>
    intro h hb hn
    have hk : kids = [] := List.isEmpty_iff.mp hleaf
    subst hk
    have h0 := bal_leaf_iff.mp hb
    subst h0
    simp only [putInsertsDirect, full, c3, Bool.not_eq_eq_eq_not, Bool.not_true, decide_eq_false_iff_not] at hroom
    simp only [node_n] at hn
    simp only [InsOK, node_n, length_insertAt]
    exact ⟨bal_zero.mpr rfl, by omega, by omega, by omega⟩
  | case3 id kvs kids i hs hleaf hroom =>
    intro h hb hn
    have hk : kids = [] := List.isEmpty_iff.mp hleaf
    subst hk
    have h0 := bal_leaf_iff.mp hb
    subst h0
    simp only [putInsertsDirect, full, c3, Bool.not_eq_eq_eq_not, Bool.not_true, decide_eq_false_iff_not, Decidable.not_not] at hroom
    have := overfill_bal cmp id kvs [] (k, v) none fresh 0 hroom (Or.inl ⟨rfl, rfl, rfl⟩)
    simpa only [InsOK] using this
  | case4 id kvs kids i hs hinner hnone =>
    intro h hb hn
    have hne : kids ≠ [] := by simpa using hinner
    obtain ⟨h', rfl, hlen, hall⟩ := bal_inner hne hb
    have := searchNode_le cmp k kvs
    rw [hs] at this
    have : i < kids.length := by simp at this; omega
    simp at hnone
    omega
  | case5 id kvs kids i hs hinner c hc f hres ih =>
    intro h hb hn
    have hne : kids ≠ [] := by simpa using hinner
    obtain ⟨h', rfl, hlen, hall⟩ := bal_inner hne hb
    have hcm := List.mem_of_getElem? hc
    have := ih h' (hall c hcm).1 (hall c hcm).2.2
    rw [hres] at this
    exact this.elim
  | case6 id kvs kids i hs hinner c hc c' f hres ih =>
    intro h hb hn
    have hne : kids ≠ [] := by simpa using hinner
    obtain ⟨h', rfl, hlen, hall⟩ := bal_inner hne hb
    have hcm := List.mem_of_getElem? hc
    have := ih h' (hall c hcm).1 (hall c hcm).2.2
    rw [hres] at this
    obtain ⟨hb', hn'⟩ := this
    have ho : Occ c' := by
      have := (hall c hcm).2
      simp only [Occ] at this ⊢; omega
    exact ⟨bal_replace_child hb hc hb' ho, rfl⟩
  | case7 id kvs kids i hs hinner c hc c' f hres ih =>
    intro h hb hn
    have hne : kids ≠ [] := by simpa using hinner
    obtain ⟨h', rfl, hlen, hall⟩ := bal_inner hne hb
    have hcm := List.mem_of_getElem? hc
    have := ih h' (hall c hcm).1 (hall c hcm).2.2
    rw [hres] at this
    obtain ⟨hb', hn1, hn2, hmax⟩ := this
    have ho : Occ c' := by
      have := (hall c hcm).2
      simp only [Occ] at this ⊢; omega
    simp only [node_n] at hn
    exact ⟨bal_replace_child hb hc hb' ho, by simp [node_n], by simp only [node_n]; omega, by simpa [node_n] using hn⟩
  | case8 id kvs kids i hs hinner c hc l sep r f hres kids1 hroom ih =>
    intro h hb hn
    have hne : kids ≠ [] := by simpa using hinner
    obtain ⟨h', rfl, hlen, hall⟩ := bal_inner hne hb
    have hcm := List.mem_of_getElem? hc
    have := ih h' (hall c hcm).1 (hall c hcm).2.2
    rw [hres] at this
    obtain ⟨hbl, hbr, hol, hor⟩ := this
    have hil : i < kids.length := (List.getElem?_eq_some_iff.mp hc).1
    simp only [overfillParentHasRoom, full, c3, Bool.not_eq_eq_eq_not, Bool.not_true, decide_eq_false_iff_not] at hroom
    simp only [node_n] at hn
    have hk1 : kids1 = replaceAt kids i l := rfl
    simp only [InsOK, node_n, length_insertAt, hk1]
    refine ⟨bal_succ.mpr ⟨?_, ?_⟩, by omega, by omega, by omega⟩
    · simp only [length_insertAt, length_replaceAt _ _ _ hil]; omega
    · intro d hd
      rcases mem_insertAt hd with rfl | hd
      · exact ⟨hbr, hor⟩
      · rcases mem_replaceAt hd with rfl | hd
        · exact ⟨hbl, hol⟩
        · exact hall d hd
  | case9 id kvs kids i hs hinner c hc l sep r f hres kids1 hroom s ih =>
    intro h hb hn
    have hne : kids ≠ [] := by simpa using hinner
    obtain ⟨h', rfl, hlen, hall⟩ := bal_inner hne hb
    have hcm := List.mem_of_getElem? hc
    have := ih h' (hall c hcm).1 (hall c hcm).2.2
    rw [hres] at this
    obtain ⟨hbl, hbr, hol, hor⟩ := this
    have hil : i < kids.length := (List.getElem?_eq_some_iff.mp hc).1
    simp only [overfillParentHasRoom, full, c3, Bool.not_eq_eq_eq_not, Bool.not_true, decide_eq_false_iff_not, Decidable.not_not] at hroom
    have := overfill_bal cmp id kvs (replaceAt kids i l) sep (some r) f (h' + 1) hroom
      (Or.inr ⟨r, h', rfl, rfl, by rw [length_replaceAt _ _ _ hil]; exact hlen, ?_, hbr, hor⟩)
    · have hk1 : kids1 = replaceAt kids i l := rfl
      have hs1 : s = overfillNode cmp id kvs kids1 sep (some r) f := rfl
      simpa only [InsOK, hs1, hk1] using this
    · intro d hd
      rcases mem_replaceAt hd with rfl | hd
      · exact ⟨hbl, hol⟩
      · exact hall d hd

end Juniper.Proofs.Tree

namespace Juniper.Proofs.Tree
open Juniper.Model.BTree Juniper.Gen.Tree

variable {K V : Type}

/-- balance and occupancy of a whole tree: the root may hold fewer than `minKVs` entries, but at least
one unless it is a leaf (invariants 1–3 of `btree.go`) -/
def BalTree (t : Tree K V) : Prop :=
  ∃ h, Bal h t.root ∧ t.root.n ≤ maxKVs ∧ (0 < h → 1 ≤ t.root.n)

theorem balTree_empty : BalTree (Tree.empty : Tree K V) :=
  ⟨0, bal_zero.mpr rfl, by simp [Tree.empty, node_n]; decide, by intro h; omega⟩

theorem bal_put (cmp : K → K → Int) (t : Tree K V) (k : K) (v : V) (hb : BalTree t) :
    ∃ t', put cmp t k v = some t' ∧ BalTree t' := by
  obtain ⟨c1, c2, c3, c4, c5, c6, c7, c8, c9, c10⟩ := consts
  obtain ⟨h, hbal, hmax, hroot⟩ := hb
  have hi := bal_ins cmp k v t.root t.nextId h hbal hmax
  unfold put
  rcases hres : ins cmp k v t.root t.nextId with ⟨res, f⟩
  rw [hres] at hi
  cases res with
  | crash => exact hi.elim
  | found x' =>
    obtain ⟨hb', hn'⟩ := hi
    exact ⟨_, rfl, h, hb', by simp only; omega, by intro hh; have := hroot hh; simp only; omega⟩
  | one x' =>
    obtain ⟨hb', hn1, hn2, hm⟩ := hi
    exact ⟨_, rfl, h, hb', hm, by intro hh; have := hroot hh; simp only; omega⟩
  | split l sep r =>
    obtain ⟨hbl, hbr, hol, hor⟩ := hi
    refine ⟨_, rfl, h + 1, bal_succ.mpr ⟨by simp, ?_⟩, by simp only [node_n, List.length_singleton]; omega,
      by intro _; simp [node_n]⟩
    intro c hc
    simp only [List.mem_cons, List.not_mem_nil, or_false] at hc
    rcases hc with rfl | rfl
    · exact ⟨hbl, hol⟩
    · exact ⟨hbr, hor⟩

end Juniper.Proofs.Tree
