import Juniper.Proofs.TreeAccessConfig
import Juniper.Proofs.TreeIter
/-!
# Access-level model (C01, concurrent clause): the final memory is the sequential result

`reval g x`: the tree `x` with the value in slot `(id, j)` replaced by `g id j old`. A present-key `Put`
of the functional model is `reval (upd slot v)` (`ins_found_reval`, `put_reval`); any sequence of such
Puts is one `reval` (`putAll_reval`), which — the slots being pairwise distinct — does not depend on
the order (`Gof_hit` / `Gof_miss`). `final_rep`: the memory of a terminal configuration holds exactly
that tree.
-/
namespace Juniper.Proofs.TreeAccess
open Juniper.Gen.Tree Juniper.Model.BTree Juniper.Model.BTreeAccess Juniper.Proofs.Tree

variable {K V : Type} {cmp : K → K → Int}

/-- replace the value in slot `(id, j)` by `g id j old` -/
def reval (g : Nat → Nat → V → V) : Node K V → Node K V
  | .mk id kvs kids => .mk id (kvs.mapIdx fun j kv => (kv.1, g id j kv.2)) (kids.map (reval g))

theorem reval_mk (g : Nat → Nat → V → V) (id : Nat) (kvs : List (K × V)) (kids : List (Node K V)) :
    reval g (.mk id kvs kids) = .mk id (kvs.mapIdx fun j kv => (kv.1, g id j kv.2)) (kids.map (reval g)) :=
  reval.eq_1 g id kvs kids

theorem reval_id (g : Nat → Nat → V → V) (x : Node K V) : (reval g x).id = x.id := by
  obtain ⟨id, kvs, kids⟩ := x; rw [reval_mk]; rfl

/-- one slot overwritten -/
def upd (a i : Nat) (v : V) : Nat → Nat → V → V := fun b j old => if b = a ∧ j = i then v else old

theorem skel_reval (g : Nat → Nat → V → V) (x : Node K V) : skel (reval g x) = skel x := by
  induction x using node_induct with
  | h id kvs kids ih =>
    rw [reval_mk, skel_mk, skel_mk]
    congr 1
    · apply List.ext_getElem? ; intro j
      simp only [List.getElem?_map, List.getElem?_mapIdx, Option.map_map]
      cases kvs[j]? <;> rfl
    · rw [List.map_map]
      exact List.map_congr_left fun c hc => ih c hc

theorem reval_fix (g : Nat → Nat → V → V) (x : Node K V) (h : ∀ b ∈ ids x, ∀ j old, g b j old = old) :
    reval g x = x := by
  induction x using node_induct with
  | h id kvs kids ih =>
    rw [reval_mk]
    congr 1
    · apply List.ext_getElem?; intro j
      rw [List.getElem?_mapIdx]
      cases kvs[j]? with
      | none => rfl
      | some kv => simp [h id (by simp [ids])]
    · conv => rhs; rw [← List.map_id kids]
      apply List.map_congr_left
      intro c hc
      apply ih c hc
      intro b hb
      apply h b
      simp only [ids, List.mem_cons, List.mem_flatten, List.mem_map]
      exact Or.inr ⟨ids c, ⟨c, hc, rfl⟩, hb⟩

theorem reval_reval (g g' : Nat → Nat → V → V) (x : Node K V) :
    reval g' (reval g x) = reval (fun b j old => g' b j (g b j old)) x := by
  induction x using node_induct with
  | h id kvs kids ih =>
    rw [reval_mk, reval_mk, reval_mk]
    congr 1
    · apply List.ext_getElem?; intro j
      simp only [List.getElem?_mapIdx, Option.map_map]
      cases kvs[j]? <;> rfl
    · rw [List.map_map]
      exact List.map_congr_left fun c hc => ih c hc

theorem reval_eta (g : Nat → Nat → V → V) (x : Node K V) : reval (fun b j old => g b j old) x = reval g x := rfl

/-! ## the descent only looks at the skeleton -/

theorem searchNode_skel (cmp : K → K → Int) (k : K) (kvs : List (K × V)) :
    searchNode cmp k (kvs.map fun kv => (kv.1, ())) = searchNode cmp k kvs := by
  induction kvs with
  | nil => rfl
  | cons kv rest ih => obtain ⟨k', v'⟩ := kv; simp only [List.map_cons, searchNode, ih]

theorem slotOf_skel (cmp : K → K → Int) (k : K) (x : Node K V) : slotOf cmp k (skel x) = slotOf cmp k x := by
  fun_induction slotOf cmp k x with
  | case1 id kvs kids i hs =>
    rw [skel_mk]; exact slotOf_found (by rw [searchNode_skel]; exact hs)
  | case2 id kvs kids i hs hnone =>
    rw [skel_mk]; exact slotOf_nochild (by rw [searchNode_skel]; exact hs) (by simp [hnone])
  | case3 id kvs kids i hs c hcc ih =>
    rw [skel_mk, slotOf_child (by rw [searchNode_skel]; exact hs) (by simp [hcc] : (kids.map skel)[i]? = some (skel c))]
    exact ih

theorem slotOf_reval (cmp : K → K → Int) (k : K) (g : Nat → Nat → V → V) (x : Node K V) :
    slotOf cmp k (reval g x) = slotOf cmp k x := by
  rw [← slotOf_skel cmp k (reval g x), skel_reval, slotOf_skel]

theorem ids_reval (g : Nat → Nat → V → V) (x : Node K V) : ids (reval g x) = ids x := by
  induction x using node_induct with
  | h id kvs kids ih =>
    rw [reval_mk]
    simp only [ids, List.map_map]
    congr 2
    exact List.map_congr_left fun c hc => ih c hc

/-! ## a present-key `Put` is `reval` of one slot -/

theorem setVal_mapIdx {kvs : List (K × V)} {i : Nat} {kv : K × V} (h : kvs[i]? = some kv) (id : Nat) (v : V) :
    setVal kvs i v = kvs.mapIdx fun j e => (e.1, upd id i v id j e.2) := by
  rw [setVal_eq h]
  have hi : i < kvs.length := (List.getElem?_eq_some_iff.mp h).1
  apply List.ext_getElem?; intro j
  rw [List.getElem?_mapIdx]
  by_cases hj : j < i
  · rw [List.getElem?_append_left (by simp; omega), List.getElem?_take_of_lt hj]
    have hne : j ≠ i := by omega
    cases kvs[j]? with
    | none => rfl
    | some e => simp [upd, hne]
  · by_cases hji : j = i
    · subst hji
      rw [List.getElem?_append_right (by simp; omega)]
      simp [h, upd, Nat.min_eq_left (Nat.le_of_lt hi)]
    · rw [List.getElem?_append_right (by simp; omega)]
      have : j - (List.take i kvs).length = (j - i - 1) + 1 := by simp; omega
      rw [this, List.getElem?_cons_succ, List.getElem?_drop]
      have e2 : i + 1 + (j - i - 1) = j := by omega
      rw [e2]
      cases kvs[j]? with
      | none => rfl
      | some e => simp [upd, hji]

theorem slot_mem_ids {k : K} {x : Node K V} {a i : Nat} (h : slotOf cmp k x = some (a, i)) : a ∈ ids x := by
  obtain ⟨y, hs, hid, _⟩ := slotOf_spec cmp k x a i h
  rw [← hid]; exact hs.id_mem

theorem ins_found_reval (cmp : K → K → Int) (k : K) (v : V) (x : Node K V) (fresh : Nat) :
    ∀ a i, slotOf cmp k x = some (a, i) → (ids x).Nodup →
      ins cmp k v x fresh = (.found (reval (upd a i v) x), fresh) := by
  fun_induction ins cmp k v x fresh with
  | case1 id kvs kids i hs =>
    intro a j hsl hn
    rw [slotOf_found hs] at hsl
    simp only [Option.some.injEq, Prod.mk.injEq] at hsl
    obtain ⟨rfl, rfl⟩ := hsl
    obtain ⟨hi, _⟩ := searchNode_found_key hs
    rw [reval_mk, ← setVal_mapIdx (List.getElem?_eq_getElem hi) id v]
    simp only [ids, List.nodup_cons] at hn
    congr 3
    conv => lhs; rw [← List.map_id kids]
    apply List.map_congr_left
    intro c hc
    symm
    apply reval_fix
    intro b hb j old
    have : b ≠ id := by
      rintro rfl
      exact hn.1 (by simp only [List.mem_flatten, List.mem_map]; exact ⟨ids c, ⟨c, hc, rfl⟩, hb⟩)
    simp [upd, this]
  | case2 id kvs kids i hs hleaf _ =>
    intro a j hsl _
    have : kids = [] := by simpa using hleaf
    subst this
    rw [slotOf_nochild hs (by simp)] at hsl; cases hsl
  | case3 id kvs kids i hs hleaf _ =>
    intro a j hsl _
    have : kids = [] := by simpa using hleaf
    subst this
    rw [slotOf_nochild hs (by simp)] at hsl; cases hsl
  | case4 id kvs kids i hs _ hnone =>
    intro a j hsl _
    rw [slotOf_nochild hs hnone] at hsl; cases hsl
  | case5 id kvs kids i hs _ c hcc f hres ih =>
    intro a j hsl hn
    rw [slotOf_child hs hcc] at hsl
    have hnc : (ids c).Nodup := by
      simp only [ids, List.nodup_cons] at hn
      have := (split_at_getElem? hcc).1
      rw [this] at hn
      simp only [List.map_append, List.map_cons, List.flatten_append, List.flatten_cons, List.nodup_append] at hn
      exact hn.2.2.1.1
    have := ih a j hsl hnc
    rw [hres] at this; cases this
  | case6 id kvs kids i hs _ c hcc c' f hres ih =>
    intro a j hsl hn
    rw [slotOf_child hs hcc] at hsl
    have hsplit := (split_at_getElem? hcc).1
    simp only [ids, List.nodup_cons] at hn
    obtain ⟨hnot, hflat⟩ := hn
    have hflat' := hflat
    rw [hsplit] at hflat'
    simp only [List.map_append, List.map_cons, List.flatten_append, List.flatten_cons, List.nodup_append] at hflat'
    obtain ⟨_, ⟨hnc, _, hcB⟩, hA⟩ := hflat'
    have := ih a j hsl hnc
    rw [hres] at this
    simp only [Prod.mk.injEq, InsRes.found.injEq] at this
    obtain ⟨rfl, rfl⟩ := this
    have hac : a ∈ ids c := slot_mem_ids hsl
    have hne : id ≠ a := by
      rintro rfl
      exact hnot (by simp only [List.mem_flatten, List.mem_map]; exact ⟨ids c, ⟨c, List.mem_of_getElem? hcc, rfl⟩, hac⟩)
    rw [reval_mk]
    congr 3
    · apply List.ext_getElem?; intro m
      rw [List.getElem?_mapIdx]
      cases kvs[m]? with
      | none => rfl
      | some e => simp [upd, hne]
    · conv => rhs; rw [hsplit]
      simp only [replaceAt, List.map_append, List.map_cons]
      have fixA : ∀ d ∈ kids.take i, reval (upd a j v) d = d := by
        intro d hd
        apply reval_fix
        intro b hb m old
        have : b ≠ a := by
          rintro rfl
          exact hA b (by simp only [List.mem_flatten, List.mem_map]; exact ⟨ids d, ⟨d, hd, rfl⟩, hb⟩) b
            (by simp only [List.mem_append]; exact Or.inl hac) rfl
        simp [upd, this]
      have fixB : ∀ d ∈ kids.drop (i + 1), reval (upd a j v) d = d := by
        intro d hd
        apply reval_fix
        intro b hb m old
        have : b ≠ a := by
          rintro rfl
          exact hcB b hac b (by simp only [List.mem_flatten, List.mem_map]; exact ⟨ids d, ⟨d, hd, rfl⟩, hb⟩) rfl
        simp [upd, this]
      rw [List.map_congr_left fixA, List.map_congr_left fixB]; simp
  | case7 id kvs kids i hs _ c hcc c' f hres ih =>
    intro a j hsl hn
    rw [slotOf_child hs hcc] at hsl
    have hnc : (ids c).Nodup := by
      simp only [ids, List.nodup_cons] at hn
      have := (split_at_getElem? hcc).1
      rw [this] at hn
      simp only [List.map_append, List.map_cons, List.flatten_append, List.flatten_cons, List.nodup_append] at hn
      exact hn.2.2.1.1
    have := ih a j hsl hnc
    rw [hres] at this; cases this
  | case8 id kvs kids i hs _ c hcc l sep r f hres _ _ ih =>
    intro a j hsl hn
    rw [slotOf_child hs hcc] at hsl
    have hnc : (ids c).Nodup := by
      simp only [ids, List.nodup_cons] at hn
      have := (split_at_getElem? hcc).1
      rw [this] at hn
      simp only [List.map_append, List.map_cons, List.flatten_append, List.flatten_cons, List.nodup_append] at hn
      exact hn.2.2.1.1
    have := ih a j hsl hnc
    rw [hres] at this; cases this
  | case9 id kvs kids i hs _ c hcc l sep r f hres _ _ _ ih =>
    intro a j hsl hn
    rw [slotOf_child hs hcc] at hsl
    have hnc : (ids c).Nodup := by
      simp only [ids, List.nodup_cons] at hn
      have := (split_at_getElem? hcc).1
      rw [this] at hn
      simp only [List.map_append, List.map_cons, List.flatten_append, List.flatten_cons, List.nodup_append] at hn
      exact hn.2.2.1.1
    have := ih a j hsl hnc
    rw [hres] at this; cases this

theorem put_reval {t : Tree K V} {k : K} {a i : Nat} (v : V) (hsl : slotOf cmp k t.root = some (a, i))
    (hn : (ids t.root).Nodup) : put cmp t k v = some { t with root := reval (upd a i v) t.root } := by
  unfold put
  rw [ins_found_reval cmp k v t.root t.nextId a i hsl hn]

/-! ## any sequence of present-key Puts -/

/-- the Puts one after the other (the functional model's `put`) -/
def putAll (cmp : K → K → Int) (t : Tree K V) : List (K × V) → Option (Tree K V)
  | [] => some t
  | p :: ps => (put cmp t p.1 p.2).bind fun t' => putAll cmp t' ps

/-- what the Puts `ps`, in this order, leave in slot `(b, j)` that held `old` -/
def Gof (cmp : K → K → Int) (R : Node K V) : List (K × V) → Nat → Nat → V → V
  | [], _, _, old => old
  | p :: ps, b, j, old => Gof cmp R ps b j (if slotOf cmp p.1 R = some (b, j) then p.2 else old)

theorem putAll_reval (t : Tree K V) (hn : (ids t.root).Nodup) :
    ∀ (ps : List (K × V)) (g : Nat → Nat → V → V), (∀ p ∈ ps, (slotOf cmp p.1 t.root).isSome = true) →
      putAll cmp { t with root := reval g t.root } ps =
        some { t with root := reval (fun b j old => Gof cmp t.root ps b j (g b j old)) t.root } := by
  intro ps
  induction ps with
  | nil => intro g _; rfl
  | cons p ps ih =>
    intro g hp
    obtain ⟨⟨a, i⟩, hsl⟩ := Option.isSome_iff_exists.mp (hp p (by simp))
    have hsl' : slotOf cmp p.1 ({ t with root := reval g t.root } : Tree K V).root = some (a, i) := by
      simp only [slotOf_reval]; exact hsl
    have hn' : (ids ({ t with root := reval g t.root } : Tree K V).root).Nodup := by
      simp only [ids_reval]; exact hn
    simp only [putAll, put_reval p.2 hsl' hn', Option.bind_some, reval_reval]
    rw [ih _ (fun q hq => hp q (by simp [hq]))]
    congr 3
    funext b j old
    simp only [Gof, hsl, upd, Option.some.injEq, Prod.mk.injEq]
    by_cases h : b = a ∧ j = i
    · obtain ⟨rfl, rfl⟩ := h; simp
    · have : ¬ (a = b ∧ i = j) := fun h' => h ⟨h'.1.symm, h'.2.symm⟩
      simp [h, this]

/-- different Puts own different slots -/
def SlotsDistinct (cmp : K → K → Int) (R : Node K V) (ps : List (K × V)) : Prop :=
  ps.Pairwise fun p q => ∀ s, slotOf cmp p.1 R = some s → slotOf cmp q.1 R ≠ some s

theorem slotsDistinct_of_keys (hc : StrictWeak cmp) {R : Node K V} (hn : (ids R).Nodup) {ps : List (K × V)}
    (h : ps.Pairwise fun p q => cmp p.1 q.1 ≠ 0) : SlotsDistinct cmp R ps := by
  apply List.Pairwise.imp _ h
  intro p q hpq s hp hq
  obtain ⟨a, i⟩ := s
  exact hpq (valPos_inj hc hn (valPos_of_slot hp) (valPos_of_slot hq))

theorem Gof_miss (R : Node K V) (b j : Nat) :
    ∀ (ps : List (K × V)) (old : V), (∀ p ∈ ps, slotOf cmp p.1 R ≠ some (b, j)) → Gof cmp R ps b j old = old := by
  intro ps
  induction ps with
  | nil => intro old _; rfl
  | cons p ps ih =>
    intro old h
    simp only [Gof, h p (by simp), if_false]
    exact ih old fun q hq => h q (by simp [hq])

theorem Gof_hit (R : Node K V) (b j : Nat) :
    ∀ (ps : List (K × V)) (old : V), SlotsDistinct cmp R ps → ∀ p ∈ ps, slotOf cmp p.1 R = some (b, j) →
      Gof cmp R ps b j old = p.2 := by
  intro ps
  induction ps with
  | nil => intro old _ p hp; cases hp
  | cons q ps ih =>
    intro old hd p hp hsl
    obtain ⟨hq, hd'⟩ := List.pairwise_cons.mp hd
    rcases List.mem_cons.mp hp with rfl | hmem
    · simp only [Gof, hsl, if_true]
      exact Gof_miss R b j ps p.2 fun q' hq' => hq q' hq' _ hsl
    · have : slotOf cmp q.1 R ≠ some (b, j) := fun h => hq p hmem _ h hsl
      simp only [Gof, this, if_false]
      exact ih old hd' p hmem hsl

/-- the order of the Puts does not matter -/
theorem Gof_perm {R : Node K V} {ps ps' : List (K × V)} (hperm : ps'.Perm ps) (hd : SlotsDistinct cmp R ps) :
    Gof cmp R ps' = Gof cmp R ps := by
  have hd' : SlotsDistinct cmp R ps' := by
    unfold SlotsDistinct at hd ⊢
    refine (List.Perm.pairwise_iff ?_ hperm).mpr hd
    intro p q h s hq hp
    exact h s hp hq
  funext b j old
  by_cases h : ∃ p ∈ ps, slotOf cmp p.1 R = some (b, j)
  · obtain ⟨p, hp, hsl⟩ := h
    rw [Gof_hit R b j ps old hd p hp hsl, Gof_hit R b j ps' old hd' p (hperm.mem_iff.mpr hp) hsl]
  · have hm : ∀ p ∈ ps, slotOf cmp p.1 R ≠ some (b, j) := fun p hp hsl => h ⟨p, hp, hsl⟩
    rw [Gof_miss R b j ps old hm, Gof_miss R b j ps' old fun p hp => hm p (hperm.mem_iff.mp hp)]

/-- the sequential result of the Puts, in any order -/
theorem putAll_perm (hc : StrictWeak cmp) (t : Tree K V) (hn : (ids t.root).Nodup) {ps ps' : List (K × V)}
    (hperm : ps'.Perm ps) (hdist : ps.Pairwise fun p q => cmp p.1 q.1 ≠ 0)
    (hpres : ∀ p ∈ ps, (slotOf cmp p.1 t.root).isSome = true) :
    putAll cmp t ps' = some { t with root := reval (Gof cmp t.root ps) t.root } := by
  have h0 : ({ t with root := reval (fun _ _ old => old) t.root } : Tree K V) = t := by
    rw [reval_fix _ _ (fun _ _ _ _ => rfl)]
  have := putAll_reval (cmp := cmp) t hn ps' (fun _ _ old => old) (fun p hp => hpres p (hperm.mem_iff.mp hp))
  rw [h0] at this
  rw [this, Gof_perm hperm (slotsDistinct_of_keys hc hn hdist)]

/-! ## the memory of a terminal configuration -/

theorem sub_reval (g : Nat → Nat → V → V) (x : Node K V) :
    ∀ y', Sub (reval g x) y' → ∃ y, Sub x y ∧ y' = reval g y := by
  induction x using node_induct with
  | h id kvs kids ih =>
    intro y' h
    rw [reval_mk] at h
    rcases h.inv with rfl | ⟨c', hc', hs⟩
    · exact ⟨_, .refl _, (reval_mk g id kvs kids).symm⟩
    · obtain ⟨c, hc, rfl⟩ := List.mem_map.mp hc'
      obtain ⟨y, hy, rfl⟩ := ih c hc y' hs
      exact ⟨y, .kid hc hy, rfl⟩

/-- every `Put` goroutine has returned (the readers may still be under way) -/
def PutsDone (ops : List (Op K V)) (c : Config K V) : Prop :=
  ∀ (j : Nat) k v, ops[j]? = some (.put k v) → ∃ pc, c.pcs[j]? = some pc ∧ pc.isDone = true

theorem putsDone_of_terminal {t : Tree K V} {ops : List (Op K V)} {c : Config K V} (hi : CInv cmp t ops c)
    (ht : Terminal cmp ops c) : PutsDone ops c := by
  intro j k v hj
  exact ⟨_, terminal_results hi ht j _ hj rfl, rfl⟩

theorem final_rep {t : Tree K V} {ops : List (Op K V)} {puts : List (K × V)} (hs : Setup cmp t ops)
    (hput1 : ∀ (j : Nat) k v, ops[j]? = some (.put k v) → (k, v) ∈ puts)
    (hput2 : ∀ p ∈ puts, ∃ j : Nat, ops[j]? = some (.put p.1 p.2))
    (hdist : puts.Pairwise fun p q => cmp p.1 q.1 ≠ 0)
    {c : Config K V} (hi : CInv cmp t ops c) (ht : PutsDone ops c) :
    Rep c.mem { t with root := reval (Gof cmp t.root puts) t.root } := by
  have hsd := slotsDistinct_of_keys hs.sw hs.nodup hdist
  refine ⟨by simp only [reval_id]; exact hi.frozen.root, hi.size, hi.gen, ?_⟩
  intro y' hy'
  obtain ⟨y, hy, rfl⟩ := sub_reval _ _ y' hy'
  have hS := hi.frozen.struct y hy
  obtain ⟨id, kvs, kids⟩ := y
  rw [reval_mk]
  simp only [NodeS, NodeV, Node.id, Node.kvs, Node.kids, List.length_mapIdx, List.getElem_mapIdx] at hS ⊢
  refine ⟨⟨hS.1, hS.2.1, fun i hle => ?_⟩, fun i hlt => ?_⟩
  · rw [hS.2.2 i hle, List.getElem?_map]
    cases kids[i]? with
    | none => rfl
    | some c => simp [reval_id]
  · by_cases h : ∃ p ∈ puts, slotOf cmp p.1 t.root = some (id, i)
    · obtain ⟨p, hp, hsl⟩ := h
      obtain ⟨j, hj⟩ := hput2 p hp
      obtain ⟨pc, hpc, hdone⟩ := ht j _ _ hj
      rw [hi.written j p.1 p.2 pc hj hpc hdone id i hsl, Gof_hit t.root id i puts _ hsd p hp hsl]
    · have hm : ∀ p ∈ puts, slotOf cmp p.1 t.root ≠ some (id, i) := fun p hp hsl => h ⟨p, hp, hsl⟩
      rw [Gof_miss t.root id i puts _ hm]
      apply hi.untouched _ hy i hlt
      intro j k v pc ho _ hsl
      exact absurd hsl (hm (k, v) (hput1 j k v ho))

end Juniper.Proofs.TreeAccess
