import Juniper.Model.BTree
/-!
# Statement-level ties of the cursor / iterator code (C01, C02)

Each of these regenerated facts says that a particular statement list of `btree.go` is the expected one
(`mergeTwo` zeroes the unlinked node's `n`; a lost `cursor.Next`/`Prev` re-seeks `>`/`<` its key and
returns; the four `Seek*` step with `c.Next()` / `c.Prev()`; a lost iterator re-seeks `>=`/`<=`). The model
*branches* on them (`retiredN`, `cursorNext`, `cursorPrev`, `seekWith`, `iterReseek`), so with a flipped fact
the model follows the changed code and the lemmas below — used by every proof about cursors — fail.
-/
namespace Juniper.Proofs.Tree
open Juniper.Model.BTree Juniper.Gen.Tree

@[simp] theorem retiredN_zero (i : Nat) : retiredN i = 0 := by
  have h : mergeZeroesRight = true := by decide
  simp [retiredN, h]

@[simp] theorem cursorLostReseeks_true : cursorLostReseeks = true := by decide
@[simp] theorem seekStepCalls_true : seekStepCalls = true := by decide
@[simp] theorem iterReseeks_true : iterReseeks = true := by decide
@[simp] theorem iterReadsThenSteps_true : iterReadsThenSteps = true := by decide

end Juniper.Proofs.Tree
