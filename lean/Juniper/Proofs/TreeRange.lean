import Juniper.Proofs.TreeSeek
import Juniper.Proofs.TreeWhile
/-!
# `Range` on an unchanging tree yields exactly the entries inside the bounds, ascending (C01)
-/
namespace Juniper.Proofs.Tree
open Juniper.Model.BTree Juniper.Gen.Tree

variable {K V : Type} {α : Type} {cmp : K → K → Int}

/-- what an iterator yields for entry `e`: the key and the value read from the node -/
def outOf (e : K × V) : K × Option V := (e.1, some e.2)

/-- the `While` predicate of an iterator (`true` for the bare cursor iterator) -/
def keepOf (cmp : K → K → Int) (stop : Option (CmpOp × K)) (e : K × V) : Bool :=
  match stop with
  | none => true
  | some (op, key) => evalOp op (cmp e.1 key)

theorem drain_fwd {t : Tree K V} (hi : Inv cmp t) (stop : Option (CmpOp × K)) :
    ∀ (S : List (K × V)) (fuel : Nat) (c : Cursor K), Fwd t c S → S.length < fuel →
      drainW cmp t fuel { c := c, fwd := true, stop := stop, done := false } =
        (S.takeWhile (keepOf cmp stop)).map outOf := by
  intro S
  induction S with
  | nil =>
    intro fuel c hf hl
    cases fuel with
    | zero => simp at hl
    | succ fuel =>
      have := rawNext_fwd hi hf
      simp only at this
      cases stop with
      | none => simp [drainW, iterNextW, this]
      | some s => obtain ⟨op, key⟩ := s; simp [drainW, iterNextW, this, whileChecksDone]
  | cons e S ih =>
    intro fuel c hf hl
    cases fuel with
    | zero => simp at hl
    | succ fuel =>
      obtain ⟨c', hr, hf'⟩ := rawNext_fwd hi hf
      simp only [List.length_cons] at hl
      cases stop with
      | none =>
        simp only [drainW, iterNextW, hr, List.takeWhile_cons, keepOf, if_true, List.map_cons, outOf]
        rw [ih fuel c' hf' (by omega)]
      | some s =>
        obtain ⟨op, key⟩ := s
        by_cases hk : evalOp op (cmp e.1 key) = true
        · simp only [drainW, iterNextW, whileChecksDone, Bool.false_eq_true, if_false, hr, whileStops, hk, Bool.not_true,
            List.takeWhile_cons, keepOf, if_true, List.map_cons, outOf]
          rw [ih fuel c' hf' (by omega)]
        · have hk' : evalOp op (cmp e.1 key) = false := by simpa using hk
          simp [drainW, iterNextW, whileChecksDone, hr, whileStops, hk', keepOf]

/-! ## filtering a sorted list by an interval -/

theorem filter_of_all_lo {R : α → α → Prop} {lo hi : α → Bool} {L : List α} (hs : L.Pairwise R)
    (hall : ∀ b ∈ L, lo b = true) (hhi : ∀ a b, R a b → hi b = true → hi a = true) :
    L.filter (fun x => lo x && hi x) = L.takeWhile hi := by
  induction L with
  | nil => rfl
  | cons a L ih =>
    have hp := List.pairwise_cons.mp hs
    have hla := hall a List.mem_cons_self
    by_cases ha : hi a = true
    · simp only [List.filter_cons, hla, ha, Bool.and_self, if_true, List.takeWhile_cons]
      rw [ih hp.2 (fun b hb => hall b (List.mem_cons_of_mem _ hb))]
    · have ha' : hi a = false := by simpa using ha
      simp only [List.filter_cons, hla, ha', Bool.and_false, Bool.false_eq_true, if_false, List.takeWhile_cons]
      apply List.filter_eq_nil_iff.mpr
      intro b hb
      have : hi b = false := by
        cases hbb : hi b with
        | false => rfl
        | true => have := hhi a b (hp.1 b hb) hbb; rw [ha'] at this; cases this
      simp [this]

theorem filter_range_sorted {R : α → α → Prop} {lo hi : α → Bool} {L : List α} (hs : L.Pairwise R)
    (hlo : ∀ a b, R a b → lo a = true → lo b = true) (hhi : ∀ a b, R a b → hi b = true → hi a = true) :
    L.filter (fun x => lo x && hi x) = (L.dropWhile (fun x => !lo x)).takeWhile hi := by
  induction L with
  | nil => rfl
  | cons a L ih =>
    have hp := List.pairwise_cons.mp hs
    by_cases ha : lo a = true
    · have hall : ∀ b ∈ a :: L, lo b = true := by
        intro b hb
        simp only [List.mem_cons] at hb
        rcases hb with rfl | hb
        · exact ha
        · exact hlo a b (hp.1 b hb) ha
      rw [filter_of_all_lo hs hall hhi]
      simp [ha]
    · have ha' : lo a = false := by simpa using ha
      simp only [List.filter_cons, ha', Bool.false_and, Bool.false_eq_true, if_false, List.dropWhile_cons, Bool.not_false, if_true]
      exact ih hp.2

/-! ## the ideal range -/

def aboveLo (cmp : K → K → Int) (lo : Bound K) (x : K) : Bool :=
  match lo.kind with
  | some .incl => decide (0 ≤ cmp x lo.key)
  | some .excl => decide (0 < cmp x lo.key)
  | _ => true

def belowHi (cmp : K → K → Int) (hi : Bound K) (x : K) : Bool :=
  match hi.kind with
  | some .incl => decide (cmp x hi.key ≤ 0)
  | some .excl => decide (cmp x hi.key < 0)
  | _ => true

/-- the entries inside the bounds, in ascending order -/
def srange (cmp : K → K → Int) (lo hi : Bound K) (L : List (K × V)) : List (K × V) :=
  L.filter fun e => aboveLo cmp lo e.1 && belowHi cmp hi e.1

theorem aboveLo_mono (hc : StrictWeak cmp) (lo : Bound K) {a b : K} (h : cmp a b < 0) (ha : aboveLo cmp lo a = true) :
    aboveLo cmp lo b = true := by
  unfold aboveLo at ha ⊢
  split
  · rename_i hk; simp only [hk, decide_eq_true_eq] at ha ⊢
    by_cases hb : cmp b lo.key < 0
    · have := hc.lt_trans h hb; omega
    · omega
  · rename_i hk; simp only [hk, decide_eq_true_eq] at ha ⊢
    by_cases hb : 0 < cmp b lo.key
    · exact hb
    · rcases Int.lt_or_eq_of_le (Int.not_lt.mp hb) with h1 | h1
      · have := hc.lt_trans h h1; omega
      · have := hc.lt_of_lt_of_eq h h1; omega
  · rfl

theorem belowHi_mono (hc : StrictWeak cmp) (hi : Bound K) {a b : K} (h : cmp a b < 0) (hb : belowHi cmp hi b = true) :
    belowHi cmp hi a = true := by
  unfold belowHi at hb ⊢
  split
  · rename_i hk; simp only [hk, decide_eq_true_eq] at hb ⊢
    rcases Int.lt_or_eq_of_le hb with h1 | h1
    · have := hc.lt_trans h h1; omega
    · have := hc.lt_of_lt_of_eq h h1; omega
  · rename_i hk; simp only [hk, decide_eq_true_eq] at hb ⊢
    exact hc.lt_trans h hb
  · rfl


theorem length_dropWhile_le' (q : α → Bool) (L : List α) : (L.dropWhile q).length ≤ L.length := by
  induction L with
  | nil => simp
  | cons a L ih => simp only [List.dropWhile_cons]; split <;> simp <;> omega

theorem pickSide_lower (lo hi : Bound K) : pickSide Side.lower lo hi = lo := rfl
theorem pickSide_upper (lo hi : Bound K) : pickSide Side.upper lo hi = hi := rfl

/-- the key a seek of `Range`/`RangeReverse` is called with -/
def argKey (arg : Option Side) (lo hi : Bound K) : K :=
  match arg with
  | some s => (pickSide s lo hi).key
  | none => lo.key

/-- the cursor produced by the lower-bound switch of `Range` -/
theorem range_seek_fwd (hc : StrictWeak cmp) {t : Tree K V} (hi : Inv cmp t) (lo : Bound K) (lk : BoundKind)
    (hlk : lo.kind = some lk) :
    ∃ sk arg, rangeSeek.2.find? (fun r => r.1 == lk) = some (lk, sk, arg) ∧ rangeSeek.1 = Side.lower ∧
      (∀ hi' : Bound K, Fwd t (doSeek cmp t sk (argKey arg lo hi'))
        ((toList t.root).dropWhile (fun x => !aboveLo cmp lo x.1))) := by
  have hfun : ∀ (step : Int → Bool) (q : K × V → Bool), (∀ x, step (cmp lo.key x.1) = q x) →
      (toList t.root).dropWhile (fun x => step (cmp lo.key x.1)) = (toList t.root).dropWhile q := by
    intro step q h; congr 1; funext x; exact h x
  cases lk with
  | incl =>
    refine ⟨.ge, some Side.lower, by decide, rfl, fun hi' => ?_⟩
    have := seekFwd_spec hc hi seekFirstGreaterOrEqualStep (by intro c h; simp [seekFirstGreaterOrEqualStep, h])
      (by intro c h; simp [seekFirstGreaterOrEqualStep]; omega) { pos := none, gen := 0 } lo.key
    rw [hfun _ (fun x => !aboveLo cmp lo x.1)] at this
    · exact this
    · intro x
      have := hc.anti x.1 lo.key
      simp only [seekFirstGreaterOrEqualStep, aboveLo, hlk]
      by_cases h1 : 0 < cmp lo.key x.1 <;> simp [h1] <;> omega
  | excl =>
    refine ⟨.gt, some Side.lower, by decide, rfl, fun hi' => ?_⟩
    have := seekFwd_spec hc hi seekFirstGreaterStep (by intro c h; simp [seekFirstGreaterStep]; omega)
      (by intro c h; simp [seekFirstGreaterStep]; omega) { pos := none, gen := 0 } lo.key
    rw [hfun _ (fun x => !aboveLo cmp lo x.1)] at this
    · exact this
    · intro x
      have h2 := hc.anti lo.key x.1
      simp only [seekFirstGreaterStep, aboveLo, hlk]
      by_cases h1 : 0 ≤ cmp lo.key x.1 <;> simp [h1] <;> omega
  | unb =>
    refine ⟨.first, none, by decide, rfl, fun hi' => ?_⟩
    have := seekFirst_spec hi { pos := none, gen := 0 }
    have hd : (toList t.root).dropWhile (fun x => !aboveLo cmp lo x.1) = toList t.root := by
      apply dropWhile_of_head_false; intro a _; simp [aboveLo, hlk]
    rw [hd]; exact this

theorem range_refines_fwd (hc : StrictWeak cmp) {t : Tree K V} (hi : Inv cmp t) (lo hi' : Bound K)
    (hlk : lo.kind ≠ none) (hhk : hi'.kind ≠ none) :
    ∃ it, range cmp t lo hi' = some it ∧ ∀ fuel, (toList t.root).length < fuel →
      drain cmp t fuel it = (srange cmp lo hi' (toList t.root)).map outOf := by
  obtain ⟨lk, hlk'⟩ := Option.ne_none_iff_exists'.mp hlk
  obtain ⟨hk, hhk'⟩ := Option.ne_none_iff_exists'.mp hhk
  obtain ⟨sk, arg, hfind, hside, hfwd⟩ := range_seek_fwd hc hi lo lk hlk'
  obtain ⟨_, _, _, hsort⟩ := inv_facts hi
  have hrange : srange cmp lo hi' (toList t.root) =
      ((toList t.root).dropWhile (fun x => !aboveLo cmp lo x.1)).takeWhile (fun e => belowHi cmp hi' e.1) := by
    unfold srange
    exact filter_range_sorted (lo := fun e : K × V => aboveLo cmp lo e.1) (hi := fun e : K × V => belowHi cmp hi' e.1) hsort
      (fun a b h ha => aboveLo_mono hc lo h ha) (fun a b h hb => belowHi_mono hc hi' h hb)
  have hlen : ∀ fuel, (toList t.root).length < fuel →
      ((toList t.root).dropWhile (fun x => !aboveLo cmp lo x.1)).length < fuel := by
    intro fuel h
    have := length_dropWhile_le' (fun x : K × V => !aboveLo cmp lo x.1) (toList t.root)
    omega
  -- the upper-bound switch
  have hstop : ∃ stop, rangeStop.2.find? (fun r => r.1 == hk) = some (hk, match stop with
        | none => StopKind.all true
        | some (op, s) => StopKind.while true op s) ∧ rangeStop.1 = Side.upper ∧
      (∀ e : K × V, keepOf cmp (stop.map fun os => (os.1, (pickSide os.2 lo hi').key)) e = belowHi cmp hi' e.1) := by
    cases hk with
    | incl => exact ⟨some (.le, Side.upper), by decide, rfl, fun e => by simp [keepOf, evalOp, belowHi, hhk', pickSide_upper]⟩
    | excl => exact ⟨some (.lt, Side.upper), by decide, rfl, fun e => by simp [keepOf, evalOp, belowHi, hhk', pickSide_upper]⟩
    | unb => exact ⟨none, by decide, rfl, fun e => by simp [keepOf, belowHi, hhk']⟩
  obtain ⟨stop, hsf, hss, hkeep⟩ := hstop
  have htw : ∀ S : List (K × V), S.takeWhile (keepOf cmp (stop.map fun os => (os.1, (pickSide os.2 lo hi').key))) =
      S.takeWhile (fun e => belowHi cmp hi' e.1) := by
    intro S; congr 1; funext e; exact hkeep e
  cases stop with
  | none =>
    refine ⟨{ c := doSeek cmp t sk (argKey arg lo hi'), fwd := true, stop := none, done := false },
      by simp only [range, mkIter, hside, pickSide_lower, pickSide_upper, hlk', hfind, hss, hhk', hsf]; cases arg <;> rfl, ?_⟩
    intro fuel hf
    rw [← drain_eq_while cmp t fuel (IterEq.refl _ (fun _ => rfl)), drain_fwd hi none _ fuel _ (hfwd hi') (hlen fuel hf), hrange]
    have := htw ((toList t.root).dropWhile (fun x => !aboveLo cmp lo x.1))
    simp only [Option.map_none] at this
    rw [this]
  | some os =>
    obtain ⟨op, s⟩ := os
    refine ⟨{ c := doSeek cmp t sk (argKey arg lo hi'), fwd := true, stop := some (op, (pickSide s lo hi').key), done := false },
      by simp only [range, mkIter, hside, pickSide_lower, pickSide_upper, hlk', hfind, hss, hhk', hsf]; cases arg <;> rfl, ?_⟩
    intro fuel hf
    rw [← drain_eq_while cmp t fuel (IterEq.refl _ (fun _ => rfl)), drain_fwd hi (some (op, (pickSide s lo hi').key)) _ fuel _ (hfwd hi') (hlen fuel hf), hrange]
    have := htw ((toList t.root).dropWhile (fun x => !aboveLo cmp lo x.1))
    simp only [Option.map_some] at this
    rw [this]

end Juniper.Proofs.Tree
