import Juniper.Model.Heap
/-!
# Heap model: the generated index arithmetic / guards in closed form, clean unfolding equations of
the loops (all generated presence facts discharged here), and basic facts about `swapAt`.
Everything after this file reasons with these equations only and never unfolds a generated name.
-/
set_option linter.unusedSimpArgs false
namespace Juniper.Proofs.Heap
open Juniper.Gen.Heap Juniper.Model.Heap

variable {α : Type}

/-! ## generated index arithmetic in closed form -/

theorem parentN_eq (i : Nat) : parentN i = (i - 1) / 2 := by
  simp only [parentN, upParent, parent]
  rcases i with _ | i
  · decide
  · have h : ((i + 1 : Nat) : Int) - 1 = (i : Int) := by omega
    rw [h, Int.tdiv_eq_ediv_of_nonneg (by omega)]
    omega

theorem leftN_eq (i : Nat) : leftN i = 2 * i + 1 := by
  simp only [leftN, downChildren, children]; omega

theorem rightN_eq (i : Nat) : rightN i = 2 * i + 2 := by
  simp only [rightN, downChildren, children]; omega

theorem upGuard_eq (i : Nat) : upGuard (i : Int) = decide (0 < i) := by
  simp [upGuard]

theorem upNext_eq (p : Nat) : (upNext (p : Int)).toNat = p := by simp [upNext]

theorem downNoChild_eq (l n : Nat) : downNoChild (l : Int) (n : Int) = decide (n ≤ l) := by
  simp [downNoChild]

theorem downOnlyLeft_eq (r n : Nat) : downOnlyLeft (r : Int) (n : Int) = decide (n ≤ r) := by
  simp [downOnlyLeft]

theorem newStart_eq (n : Nat) : newStart (n : Int) = ((n / 2 : Nat) : Int) - 1 := by
  simp only [newStart]
  rw [Int.tdiv_eq_ediv_of_nonneg (by omega)]; omega

theorem newGuard_eq (i : Int) : newGuard i = decide (0 ≤ i) := by simp [newGuard]

/-! ## clean forms of the primitive steps -/

theorem lessAt_eq (less : α → α → Bool) (a : List α) (i j : Nat) :
    lessAt less a i j = (match a[i]?, a[j]? with
      | some x, some y => less x y
      | _, _ => false) := by
  simp only [lessAt, lessOrient]; rfl

theorem lessAt_of_get {less : α → α → Bool} {a : List α} {i j : Nat} {x y : α}
    (hi : a[i]? = some x) (hj : a[j]? = some y) : lessAt less a i j = less x y := by
  simp [lessAt_eq, hi, hj]

theorem swapAt_eq (a : List α) (i j : Nat) :
    swapAt a i j = (match a[i]?, a[j]? with
      | some x, some y => (a.set i y).set j x
      | _, _ => a) := by
  simp only [swapAt, swapExchanges, if_true]; rfl

theorem notifyAt_eq (a : List α) (i : Nat) :
    notifyAt a i = (match a[i]? with
      | some x => [(x, i)]
      | none => []) := by
  simp only [notifyAt, notifyReportsItemAndIndex, if_true]; rfl

theorem swapN_eq (a : List α) (i j : Nat) :
    swapN a i j = (swapAt a i j, notifyAt (swapAt a i j) i ++ notifyAt (swapAt a i j) j) := by
  simp only [swapN, swapNotifiesI, swapNotifiesJ, if_true]

theorem swapAt_of_get {a : List α} {i j : Nat} {x y : α} (hi : a[i]? = some x) (hj : a[j]? = some y) :
    swapAt a i j = (a.set i y).set j x := by
  simp [swapAt_eq, hi, hj]

@[simp] theorem length_swapAt (a : List α) (i j : Nat) : (swapAt a i j).length = a.length := by
  rw [swapAt_eq]; split <;> simp

theorem getElem?_swapAt {a : List α} {i j : Nat} (hi : i < a.length) (hj : j < a.length) (k : Nat) :
    (swapAt a i j)[k]? = if k = j then a[i]? else if k = i then a[j]? else a[k]? := by
  obtain ⟨x, hx⟩ : ∃ x, a[i]? = some x := ⟨a[i], by simp [hi]⟩
  obtain ⟨y, hy⟩ : ∃ y, a[j]? = some y := ⟨a[j], by simp [hj]⟩
  rw [swapAt_of_get hx hy, List.getElem?_set, List.getElem?_set]
  by_cases h1 : k = j
  · subst h1; simp [hj, hx]
  · by_cases h2 : k = i
    · subst h2; simp [hi, hy, Ne.symm h1, h1]
    · simp [h1, h2, Ne.symm h1, Ne.symm h2]

/-! ## clean unfolding equations of the loops -/

theorem upLoop_zero (less : α → α → Bool) (a : List α) (i : Nat) : upLoop less 0 a i = (a, []) := rfl

theorem upLoop_succ (less : α → α → Bool) (f : Nat) (a : List α) (i : Nat) :
    upLoop less (f + 1) a i =
      if 0 < i then
        if lessAt less a i ((i - 1) / 2) then
          ((upLoop less f (swapAt a i ((i - 1) / 2)) ((i - 1) / 2)).1,
            (swapN a i ((i - 1) / 2)).2 ++ (upLoop less f (swapAt a i ((i - 1) / 2)) ((i - 1) / 2)).2)
        else upLoop less f a ((i - 1) / 2)
      else (a, []) := by
  simp only [upLoop, upGuard_eq, parentN_eq, upNext_eq, upSwapCond, upSwaps, Bool.and_true, decide_eq_true_eq]
  by_cases h : 0 < i
  · by_cases hl : lessAt less a i ((i - 1) / 2) = true
    · simp [h, hl, swapN_eq]
    · simp [h, hl]
  · simp [h]

theorem downLoop_zero (less : α → α → Bool) (a : List α) (i : Nat) : downLoop less 0 a i = (a, []) := rfl

/-- the child `percolateDown` would exchange with -/
def leastChild (less : α → α → Bool) (a : List α) (i : Nat) : Nat :=
  if a.length ≤ 2 * i + 2 then 2 * i + 1
  else if lessAt less a (2 * i + 2) (2 * i + 1) then 2 * i + 2 else 2 * i + 1

private theorem cast1 (i : Nat) : (2 * (i : Int) + 1).toNat = 2 * i + 1 := by omega
private theorem cast2 (i : Nat) : (2 * (i : Int) + 2).toNat = 2 * i + 2 := by omega
private theorem cast3 (i : Nat) : (max (2 * (i : Int) + 2) 0).toNat = 2 * i + 2 := by omega
private theorem cast4 (i : Nat) : (max (2 * (i : Int) + 1) 0).toNat = 2 * i + 1 := by omega

theorem downLoop_succ (less : α → α → Bool) (f : Nat) (a : List α) (i : Nat) :
    downLoop less (f + 1) a i =
      if a.length ≤ 2 * i + 1 then (a, [])
      else
        if lessAt less a (leastChild less a i) i then
          ((downLoop less f (swapAt a (leastChild less a i) i) (leastChild less a i)).1,
            (swapN a (leastChild less a i) i).2 ++
              (downLoop less f (swapAt a (leastChild less a i) i) (leastChild less a i)).2)
        else (a, []) := by
  simp only [downLoop, leftN_eq, rightN_eq, downNoChild_eq, downOnlyLeft_eq, downLeftCond, downLeftSwaps,
    downPickRight, downLeastAlt, downLeastInit, downSwapCond, downSwaps, downLeftNext, downNext, if_true,
    decide_eq_true_eq, leastChild]
  by_cases h1 : a.length ≤ 2 * i + 1
  · simp [h1]
  · by_cases h2 : a.length ≤ 2 * i + 2
    · simp [h1, h2, swapN_eq, cast1, cast2, cast3, cast4]
    · by_cases h3 : lessAt less a (2 * i + 2) (2 * i + 1) = true
      · simp [h1, h2, h3, swapN_eq, cast1, cast2, cast3, cast4]
      · simp [h1, h2, h3, swapN_eq, cast1, cast2, cast3, cast4]

end Juniper.Proofs.Heap
