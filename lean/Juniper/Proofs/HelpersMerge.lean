import Juniper.Proofs.HelpersBasic
import Juniper.Model.HelpersSort
namespace Juniper.Proofs.Helpers
open Juniper.Model.Helpers Juniper.Spec.Helpers Juniper.Gen.Helpers
variable {α : Type}

/-! ### the initial heap -/

theorem mem_mergeInitial (ins : List (List α)) (i : Nat) (v : α) (t : Nat) :
    (v, t) ∈ mergeInitial i ins ↔ ∃ t' l, t = i + t' ∧ ins[t']? = some (v :: l) := by
  induction ins generalizing i with
  | nil => simp [mergeInitial]
  | cons a rest ih =>
    cases a with
    | nil =>
      simp only [mergeInitial, ite_self]
      rw [ih]
      constructor
      · rintro ⟨t', l, rfl, h⟩; exact ⟨t' + 1, l, by omega, by simpa using h⟩
      · rintro ⟨t', l, rfl, h⟩
        cases t' with
        | zero => simp at h
        | succ k => exact ⟨k, l, by omega, by simpa using h⟩
    | cons x xs =>
      simp only [mergeInitial, List.mem_cons, Prod.mk.injEq]
      rw [ih]
      constructor
      · rintro (⟨rfl, rfl⟩ | ⟨t', l, rfl, h⟩)
        · exact ⟨0, xs, by omega, by simp⟩
        · exact ⟨t' + 1, l, by omega, by simpa using h⟩
      · rintro ⟨t', l, rfl, h⟩
        cases t' with
        | zero => simp at h; left; exact ⟨h.1.symm, by omega⟩
        | succ k => right; exact ⟨k, l, by omega, by simpa using h⟩

theorem mergeInitial_perm (ins : List (List α)) (i : Nat) :
    ((mergeInitial i ins).map Prod.fst ++ (ins.map List.tail).flatten).Perm ins.flatten := by
  induction ins generalizing i with
  | nil => simp [mergeInitial]
  | cons a rest ih =>
    cases a with
    | nil => simpa [mergeInitial] using ih (i + 1)
    | cons x xs =>
      simp only [mergeInitial, List.map_cons, List.tail_cons, List.flatten_cons, List.cons_append]
      refine List.Perm.cons x ?_
      refine List.Perm.trans ?_ (List.Perm.append_left xs (ih (i + 1)))
      rw [← List.append_assoc, ← List.append_assoc]
      exact List.Perm.append_right _ List.perm_append_comm

theorem mergeInitial_len (ins : List (List α)) (i : Nat) :
    (mergeInitial i ins).length + totalLen (ins.map List.tail) = totalLen ins := by
  induction ins generalizing i with
  | nil => simp [mergeInitial, totalLen]
  | cons a rest ih =>
    have := ih (i + 1)
    cases a with
    | nil => simp [mergeInitial, totalLen] at this ⊢; omega
    | cons x xs => simp [mergeInitial, totalLen] at this ⊢; omega

/-! ### one step of the loop -/

theorem mergeLoop_none (less : α → α → Bool)
    (pop : ((α × Nat) → (α × Nat) → Bool) → List (α × Nat) → Option ((α × Nat) × List (α × Nat)))
    (fuel : Nat) (ins : List (List α)) (h : List (α × Nat)) (out : List α)
    (hn : pop (fun a b => less a.1 b.1) h = none) :
    mergeLoop less pop (fuel + 1) ins h out = out := by
  simp only [mergeLoop, hn, ite_self]

theorem mergeLoop_refill (less : α → α → Bool)
    (pop : ((α × Nat) → (α × Nat) → Bool) → List (α × Nat) → Option ((α × Nat) × List (α × Nat)))
    (hp : PopSpec pop) (fuel : Nat) (ins : List (List α)) (h : List (α × Nat)) (out : List α)
    (v : α) (src : Nat) (h' : List (α × Nat)) (y : α) (ys : List α)
    (hs : pop (fun a b => less a.1 b.1) h = some ((v, src), h')) (hi : ins[src]? = some (y :: ys)) :
    mergeLoop less pop (fuel + 1) ins h out =
      mergeLoop less pop fuel (ins.set src ys) ((y, src) :: h') (out ++ [v]) := by
  have hh : h ≠ [] := by
    intro h0; rw [(hp.none_iff _ h).mpr h0] at hs; cases hs
  have hl : ¬ ((h.length : Int) = 0) := by
    have : h.length ≠ 0 := by simpa using hh
    omega
  simp only [mergeLoop, mergeEmpty, mergeRefill, mergePushes, hl, decide_false, if_true, if_false,
    Bool.false_eq_true, hs, hi]

theorem mergeLoop_emit (less : α → α → Bool)
    (pop : ((α × Nat) → (α × Nat) → Bool) → List (α × Nat) → Option ((α × Nat) × List (α × Nat)))
    (hp : PopSpec pop) (fuel : Nat) (ins : List (List α)) (h : List (α × Nat)) (out : List α)
    (v : α) (src : Nat) (h' : List (α × Nat))
    (hs : pop (fun a b => less a.1 b.1) h = some ((v, src), h'))
    (hi : ∀ y ys, ins[src]? ≠ some (y :: ys)) :
    mergeLoop less pop (fuel + 1) ins h out = mergeLoop less pop fuel ins h' (out ++ [v]) := by
  have hh : h ≠ [] := by
    intro h0; rw [(hp.none_iff _ h).mpr h0] at hs; cases hs
  have hl : ¬ ((h.length : Int) = 0) := by
    have : h.length ≠ 0 := by simpa using hh
    omega
  simp only [mergeLoop, mergeEmpty, hl, decide_false, if_false, Bool.false_eq_true, hs]

theorem totalLen_set (ins : List (List α)) (src : Nat) (y : α) (ys : List α)
    (h : ins[src]? = some (y :: ys)) : totalLen (ins.set src ys) + 1 = totalLen ins := by
  induction ins generalizing src with
  | nil => simp at h
  | cons a rest ih =>
    cases src with
    | zero => simp at h; subst h; simp [totalLen]; omega
    | succ k =>
      have := ih k (by simpa using h)
      simp [totalLen] at this ⊢; omega

theorem flatten_set_perm (ins : List (List α)) (src : Nat) (y : α) (ys : List α)
    (h : ins[src]? = some (y :: ys)) : ins.flatten.Perm (y :: (ins.set src ys).flatten) := by
  induction ins generalizing src with
  | nil => simp at h
  | cons a rest ih =>
    cases src with
    | zero => simp at h; subst h; simp
    | succ k =>
      have := ih k (by simpa using h)
      simp only [List.set_cons_succ, List.flatten_cons]
      exact (List.Perm.append_left a this).trans List.perm_middle

/-! ### invariants -/

/-- every non-empty remaining input is represented in the heap -/
def Covered (ins : List (List α)) (h : List (α × Nat)) : Prop :=
  ∀ t y ys, ins[t]? = some (y :: ys) → ∃ v, (v, t) ∈ h

theorem covered_refill {ins : List (List α)} {h h' : List (α × Nat)} {v : α} {src : Nat} {y : α} {ys : List α}
    (hc : Covered ins h) (hperm : h.Perm ((v, src) :: h')) :
    Covered (ins.set src ys) ((y, src) :: h') := by
  intro t z zs ht
  by_cases hts : src = t
  · subst hts; exact ⟨y, by simp⟩
  · rw [List.getElem?_set_ne hts] at ht
    obtain ⟨w, hw⟩ := hc t z zs ht
    have := hperm.mem_iff.mp hw
    simp only [List.mem_cons, Prod.mk.injEq] at this
    rcases this with ⟨_, h2⟩ | h2
    · exact absurd h2.symm hts
    · exact ⟨w, List.mem_cons_of_mem _ h2⟩

theorem covered_emit {ins : List (List α)} {h h' : List (α × Nat)} {v : α} {src : Nat}
    (hc : Covered ins h) (hperm : h.Perm ((v, src) :: h'))
    (hi : ∀ y ys, ins[src]? ≠ some (y :: ys)) : Covered ins h' := by
  intro t z zs ht
  obtain ⟨w, hw⟩ := hc t z zs ht
  have := hperm.mem_iff.mp hw
  simp only [List.mem_cons, Prod.mk.injEq] at this
  rcases this with ⟨_, h2⟩ | h2
  · subst h2; exact absurd ht (hi z zs)
  · exact ⟨w, h2⟩

theorem covered_nil_flatten {ins : List (List α)} (hc : Covered ins []) : ins.flatten = [] := by
  rw [List.flatten_eq_nil_iff]
  intro l hl
  obtain ⟨t, ht⟩ := List.mem_iff_getElem?.mp hl
  cases l with
  | nil => rfl
  | cons y ys => obtain ⟨_, hv⟩ := hc t y ys ht; cases hv

theorem mergeLoop_perm (less : α → α → Bool)
    (pop : ((α × Nat) → (α × Nat) → Bool) → List (α × Nat) → Option ((α × Nat) × List (α × Nat)))
    (hp : PopSpec pop) : ∀ (fuel : Nat) (ins : List (List α)) (h : List (α × Nat)) (out : List α),
    h.length + totalLen ins < fuel → Covered ins h →
    (mergeLoop less pop fuel ins h out).Perm (out ++ (h.map Prod.fst ++ ins.flatten))
  | 0, _, _, _, hf, _ => by omega
  | fuel + 1, ins, h, out, hf, hc => by
    cases hpop : pop (fun a b => less a.1 b.1) h with
    | none =>
      rw [mergeLoop_none _ _ _ _ _ _ hpop]
      have h0 := (hp.none_iff _ _).mp hpop
      subst h0
      simp [covered_nil_flatten hc]
    | some p =>
      obtain ⟨⟨v, src⟩, h'⟩ := p
      have hperm := hp.perm _ _ _ _ hpop
      have hlen := hperm.length_eq
      have hmap : (h.map Prod.fst).Perm (v :: h'.map Prod.fst) := by
        simpa using hperm.map Prod.fst
      simp only [List.length_cons] at hlen
      by_cases hi : ∃ y ys, ins[src]? = some (y :: ys)
      · obtain ⟨y, ys, hi⟩ := hi
        rw [mergeLoop_refill less pop hp fuel ins h out v src h' y ys hpop hi]
        have htl := totalLen_set ins src y ys hi
        refine (mergeLoop_perm less pop hp fuel _ _ _ ?_ (covered_refill hc hperm)).trans ?_
        · simp only [List.length_cons]; omega
        · rw [List.append_assoc]
          refine List.Perm.append_left out ?_
          have h1 : (h.map Prod.fst ++ ins.flatten).Perm
              ((v :: h'.map Prod.fst) ++ (y :: (ins.set src ys).flatten)) :=
            List.Perm.append hmap (flatten_set_perm ins src y ys hi)
          refine List.Perm.trans ?_ h1.symm
          simp only [List.map_cons, List.cons_append, List.nil_append]
          exact List.Perm.cons v List.perm_middle.symm
      · have hi' : ∀ y ys, ins[src]? ≠ some (y :: ys) := fun y ys hh => hi ⟨y, ys, hh⟩
        rw [mergeLoop_emit less pop hp fuel ins h out v src h' hpop hi']
        refine (mergeLoop_perm less pop hp fuel _ _ _ ?_ (covered_emit hc hperm hi')).trans ?_
        · omega
        · rw [List.append_assoc]
          refine List.Perm.append_left out ?_
          simp only [List.cons_append, List.nil_append]
          exact (List.Perm.append_right _ hmap).symm

theorem lifted_strictWeak {less : α → α → Bool} (hw : StrictWeak less) :
    StrictWeak (fun (a b : α × Nat) => less a.1 b.1) :=
  ⟨fun a => hw.irrefl a.1, fun a b c => hw.trans a.1 b.1 c.1, fun a b c => hw.negTrans a.1 b.1 c.1⟩

theorem mergeLoop_sorted (less : α → α → Bool)
    (pop : ((α × Nat) → (α × Nat) → Bool) → List (α × Nat) → Option ((α × Nat) × List (α × Nat)))
    (hp : PopSpec pop) (hw : StrictWeak less) :
    ∀ (fuel : Nat) (ins : List (List α)) (h : List (α × Nat)) (out : List α),
    (∀ l ∈ ins, SortedBy less l) →
    (∀ v t l, (v, t) ∈ h → ins[t]? = some l → ∀ y ∈ l, less y v = false) →
    Covered ins h → SortedBy less out →
    (∀ x ∈ out, ∀ p ∈ h, less p.1 x = false) →
    SortedBy less (mergeLoop less pop fuel ins h out)
  | 0, _, _, _, _, _, _, ho, _ => by simpa [mergeLoop] using ho
  | fuel + 1, ins, h, out, hs, hlow, hc, ho, hout => by
    cases hpop : pop (fun a b => less a.1 b.1) h with
    | none => rw [mergeLoop_none _ _ _ _ _ _ hpop]; exact ho
    | some p =>
      obtain ⟨⟨v, src⟩, h'⟩ := p
      have hperm := hp.perm _ _ _ _ hpop
      have hmin := hp.min _ (lifted_strictWeak hw) _ _ _ hpop
      have hvmem : (v, src) ∈ h := hperm.mem_iff.mpr (by simp)
      have hsub : ∀ p ∈ h', p ∈ h := fun p hp' => hperm.mem_iff.mpr (List.mem_cons_of_mem _ hp')
      have ho' : SortedBy less (out ++ [v]) := by
        unfold SortedBy at ho ⊢
        rw [List.pairwise_append]
        refine ⟨ho, by simp, ?_⟩
        intro a ha b hb
        simp only [List.mem_singleton] at hb
        subst hb
        exact hout a ha _ hvmem
      by_cases hi : ∃ y ys, ins[src]? = some (y :: ys)
      · obtain ⟨y, ys, hi⟩ := hi
        rw [mergeLoop_refill less pop hp fuel ins h out v src h' y ys hpop hi]
        have hsrc : SortedBy less (y :: ys) := hs _ (List.mem_of_getElem? hi)
        unfold SortedBy at hsrc
        rw [List.pairwise_cons] at hsrc
        have hyv : less y v = false := hlow v src _ hvmem hi y (by simp)
        refine mergeLoop_sorted less pop hp hw fuel _ _ _ ?_ ?_ (covered_refill hc hperm) ho' ?_
        · intro l hl
          rcases List.mem_or_eq_of_mem_set hl with hl | hl
          · exact hs l hl
          · subst hl; exact hsrc.2
        · intro w t l hwt hl z hz
          by_cases hts : src = t
          · subst hts
            rw [List.getElem?_set_self (List.getElem?_eq_some_iff.mp hi).1] at hl
            cases hl
            simp only [List.mem_cons, Prod.mk.injEq] at hwt
            rcases hwt with ⟨rfl, _⟩ | hwt
            · exact hsrc.1 z hz
            · exact hlow w src _ (hsub _ hwt) hi z (List.mem_cons_of_mem _ hz)
          · rw [List.getElem?_set_ne hts] at hl
            simp only [List.mem_cons, Prod.mk.injEq] at hwt
            rcases hwt with ⟨_, h2⟩ | hwt
            · exact absurd h2.symm hts
            · exact hlow w t l (hsub _ hwt) hl z hz
        · intro x hx p hp'
          simp only [List.mem_append, List.mem_singleton] at hx
          simp only [List.mem_cons] at hp'
          rcases hx with hx | rfl
          · rcases hp' with rfl | hp'
            · exact hw.negTrans _ _ _ hyv (hout x hx _ hvmem)
            · exact hout x hx p (hsub p hp')
          · rcases hp' with rfl | hp'
            · exact hyv
            · exact hmin p hp'
      · have hi' : ∀ y ys, ins[src]? ≠ some (y :: ys) := fun y ys hh => hi ⟨y, ys, hh⟩
        rw [mergeLoop_emit less pop hp fuel ins h out v src h' hpop hi']
        refine mergeLoop_sorted less pop hp hw fuel _ _ _ hs ?_ (covered_emit hc hperm hi') ho' ?_
        · intro w t l hwt hl z hz
          exact hlow w t l (hsub _ hwt) hl z hz
        · intro x hx p hp'
          simp only [List.mem_append, List.mem_singleton] at hx
          rcases hx with hx | rfl
          · exact hout x hx p (hsub p hp')
          · exact hmin p hp'

/-- D -/
theorem merge_sorted_perm (less : α → α → Bool)
    (pop : ((α × Nat) → (α × Nat) → Bool) → List (α × Nat) → Option ((α × Nat) × List (α × Nat)))
    (hp : PopSpec pop) (ins : List (List α)) :
    (merge less pop ins).Perm ins.flatten ∧
    (StrictWeak less → (∀ l ∈ ins, SortedBy less l) → SortedBy less (merge less pop ins)) := by
  have hcov : Covered (ins.map List.tail) (mergeInitial 0 ins) := by
    intro t y ys ht
    rw [List.getElem?_map] at ht
    cases hit : ins[t]? with
    | none => simp [hit] at ht
    | some l =>
      simp only [hit, Option.map_some, Option.some.injEq] at ht
      cases l with
      | nil => simp at ht
      | cons x xs => exact ⟨x, (mem_mergeInitial ins 0 x t).mpr ⟨t, xs, by omega, hit⟩⟩
  constructor
  · unfold merge
    refine (mergeLoop_perm less pop hp _ _ _ _ ?_ hcov).trans ?_
    · have := mergeInitial_len ins 0; omega
    · simpa using mergeInitial_perm ins 0
  · intro hw hs
    unfold merge
    refine mergeLoop_sorted less pop hp hw _ _ _ _ ?_ ?_ hcov (by simp [SortedBy]) (by simp)
    · intro l hl
      simp only [List.mem_map] at hl
      obtain ⟨l0, hl0, rfl⟩ := hl
      have := hs l0 hl0
      unfold SortedBy at this ⊢
      exact this.tail
    · intro v t l hvt hl y hy
      obtain ⟨t', xs, ht, hit⟩ := (mem_mergeInitial ins 0 v t).mp hvt
      have ht' : t' = t := by omega
      subst ht'
      rw [List.getElem?_map, hit] at hl
      simp only [Option.map_some, List.tail_cons, Option.some.injEq] at hl
      subst hl
      have := hs _ (List.mem_of_getElem? hit)
      unfold SortedBy at this
      rw [List.pairwise_cons] at this
      exact this.1 y hy

/-! ## MergeSlices: re-use of the caller's buffer -/

theorem msSum_eq (ins : List (List α)) (n : Int) :
    ins.foldl (fun n l => if msSumBody = ["n += len(in[i])"] then n + (l.length : Int) else n) n =
      n + ((ins.map List.length).sum : Int) := by
  induction ins generalizing n with
  | nil => simp
  | cons l ls ih =>
    rw [List.foldl_cons, ih]
    have : msSumBody = ["n += len(in[i])"] := rfl
    simp only [this, ↓reduceIte, List.map_cons, List.sum_cons]
    omega

theorem mergeSlices_reuse (less : α → α → Bool)
    (pop : ((α × Nat) → (α × Nat) → Bool) → List (α × Nat) → Option ((α × Nat) × List (α × Nat)))
    (outCap : Int) (hc : 0 ≤ outCap) (ins : List (List α)) :
    (mergeSlices less pop outCap ins).2 = true ↔ ((ins.map List.length).sum : Int) ≤ outCap := by
  simp only [mergeSlices, msSum_eq, msN0, msGrowN, msGrowHi, Model.Stdlib.grow, Model.Stdlib.Sl.cap]
  have h0 : ¬ ((0 : Int) + ((ins.map List.length).sum : Int) < 0) := by omega
  simp only [h0, ↓reduceIte, List.length_replicate]
  by_cases h : (0 : Int).toNat + ((0 : Int) + ((ins.map List.length).sum : Int)).toNat ≤ outCap.toNat
  · rw [if_pos h]
    simp only [Bool.not_false, true_iff]
    omega
  · rw [if_neg h]
    have hne : ((ins.map List.length).sum : Int) ≤ outCap ↔ False := by
      constructor
      · intro hle; exact h (by omega)
      · exact False.elim
    simp only [Int.zero_add, gt_iff_lt]
    by_cases hal : Model.Stdlib.allocLimit < ((ins.map List.length).sum : Int)
    · simp [hal, hne]
    · simp [hal, hne]

end Juniper.Proofs.Helpers
