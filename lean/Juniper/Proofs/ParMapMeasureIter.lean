import Juniper.Proofs.ParMapIterB
/-! Progress measure of the MapIterator LTS (`Model/ParMap.lean`, namespace `Iter`).

`nu cfg s` is strictly decreased by every step except `nextCall` (the consumer starting a new `Next`):
by all internal steps — including the dispatcher parking in `cond.Wait()` and being woken by `Signal` —
and by the returns of `f` and of the source iterator. The dispatcher goes round its loop only by taking
a free slot (`inFlight < bufferSize`), and slots come back only when a `Next` yields. The only fact about
the generated code that the decrease uses is the guard `inFlight >= bufferSize`. In reachable states
`nu ≤ 6·bufferSize' + 3·workers + 15`. -/
set_option linter.unusedSimpArgs false
set_option linter.unusedVariables false

namespace Juniper.Proofs.ParMap.IM
open Juniper.Gen Juniper.Facts Juniper.Model.ParMap Juniper.Model.ParMap.Iter Juniper.Proofs.ParMap
open Juniper.Proofs.ParMap.I

def dRank : DPc → Nat
  | .sendIn _ => 7
  | .pull => 4
  | .inNext => 3
  | .acquire _ => 2
  | .checked _ => 1
  | .parked _ => 1
  | .done => 0

def wRank : WPc → Nat
  | .inF _ => 3
  | .sendCh _ _ => 2
  | .idle => 1
  | .done => 0

def cRank : CPc → Nat
  | .next => 8
  | .idle => 0

def wSum : List WPc → Nat
  | [] => 0
  | x :: xs => wRank x + wSum xs

/-- weight of one free slot: one round of the dispatcher plus one round of a worker -/
def slotWeight : Nat := 6

/-- free slots -/
def slots (cfg : Cfg) (s : St) : Nat := (buf cfg - s.inFlight).toNat

def nu (cfg : Cfg) (s : St) : Nat := slotWeight * slots cfg s + dRank s.disp + wSum s.ws + cRank s.cons

theorem dRank_eqs : (∀ v, dRank (.sendIn v) = 7) ∧ dRank .pull = 4 ∧ dRank .inNext = 3 ∧
    (∀ v, dRank (.acquire v) = 2) ∧ (∀ v, dRank (.checked v) = 1) ∧ (∀ v, dRank (.parked v) = 1) ∧
    dRank .done = 0 := by simp [dRank]
theorem wRank_eqs : (∀ k, wRank (.inF k) = 3) ∧ (∀ k v, wRank (.sendCh k v) = 2) ∧ wRank .idle = 1 ∧
    wRank .done = 0 := by simp [wRank]
theorem cRank_eqs : cRank .next = 8 ∧ cRank .idle = 0 := by simp [cRank]

theorem wSum_set {ws : List WPc} {w : Nat} {a b : WPc} (h : ws[w]? = some b) :
    wSum (ws.set w a) + wRank b = wSum ws + wRank a := by
  induction ws generalizing w with
  | nil => simp at h
  | cons x xs ih =>
    cases w with
    | zero => simp at h; subst h; simp [List.set, wSum]; omega
    | succ w =>
      simp at h
      have := ih h
      simp [List.set, wSum]; omega

theorem wSum_set' {ws : List WPc} {w : Nat} {b : WPc} (h : ws[w]? = some b) :
    wRank b ≤ wSum ws ∧ ∀ a, wSum (ws.set w a) = wSum ws - wRank b + wRank a := by
  refine ⟨?_, fun a => ?_⟩
  · have := wSum_set (a := WPc.done) h; simp only [wRank_eqs] at this; omega
  · have := wSum_set (a := a) h
    have := wSum_set (a := WPc.done) h; simp only [wRank_eqs] at this; omega

syntax "inu_w" : tactic
macro_rules
  | `(tactic| inu_w) =>
    `(tactic| (
       have hw := ‹_[_]? = some _›
       have ⟨h0, h1⟩ := wSum_set' hw
       simp only [wRank_eqs] at h0
       simp only [nu, slots, slotWeight, h1, dRank_eqs, cRank_eqs, wRank_eqs, *]
       omega))

/-- **Every step other than `nextCall` strictly decreases `nu`.** -/
theorem nu_decreases {cfg : Cfg} (hs : cfg.code.Sound) {s s' : St} {l : Label} (h : Iter.step cfg s l = some s')
    (hl : l ≠ .nextCall) : nu cfg s' < nu cfg s := by
  cases l with
  | nextCall => exact absurd rfl hl
  | dSend w => iter_cases h => inu_w
  | fRet w v => iter_cases h => inu_w
  | wHandOff w => iter_cases h => inu_w
  | wExitIdle w => iter_cases h => inu_w
  | dAcquire =>
    iter_cases h =>
      (simp only [hs.full, decide_eq_true_eq, ge_iff_le] at *
       simp only [nu, slots, slotWeight, dRank_eqs, cRank_eqs, *]
       omega)
  | cYield =>
    iter_cases h =>
      (simp only [nu, slots, slotWeight, dRank_eqs, cRank_eqs, *]
       omega)
  | _ =>
    iter_cases h =>
      (simp only [nu, slots, slotWeight, dRank_eqs, cRank_eqs, *]
       omega)

/-! ## runs -/

theorem run_nu {cfg : Cfg} (hs : cfg.code.Sound) {ls : List Label} : ∀ {s s' : St}, Iter.run cfg s ls = some s' →
    (∀ l ∈ ls, l ≠ .nextCall) → ls.length + nu cfg s' ≤ nu cfg s := by
  induction ls with
  | nil => intro s s' h _; simp [Iter.run] at h; subst h; simp
  | cons l ls ih =>
    intro s s' h hl
    simp only [Iter.run] at h
    split at h
    · next s1 hs1 =>
      have h1 := nu_decreases hs hs1 (hl l (by simp))
      have h2 := ih h (fun x hx => hl x (by simp [hx]))
      simp only [List.length_cons]; omega
    · simp at h

theorem ne_nextCall_of_not_env {l : Label} (h : l.isEnv = false) : l ≠ .nextCall := by
  cases l <;> simp_all [Label.isEnv]

/-! ## size of the measure in reachable states -/

theorem wSum_le (ws : List WPc) : wSum ws ≤ 3 * ws.length := by
  induction ws with
  | nil => simp [wSum]
  | cons x xs ih =>
    have : wRank x ≤ 3 := by cases x <;> simp [wRank]
    simp only [wSum, List.length_cons]; omega

theorem dRank_le (d : DPc) : dRank d ≤ 7 := by cases d <;> simp [dRank]
theorem cRank_le (c : CPc) : cRank c ≤ 8 := by cases c <;> simp [cRank]

def nuBound (cfg : Cfg) : Nat := 6 * (buf cfg).toNat + 3 * numWorkers cfg + 15

theorem nu_le {cfg : Cfg} (hs : cfg.code.Sound) (hg : 1 ≤ cfg.gmp) {s : St} (h : Reach cfg s) :
    nu cfg s ≤ nuBound cfg := by
  have hA := invA hs hg h
  have hlen := hA.len
  have hTb := hA.Tb
  have := wSum_le s.ws
  have := dRank_le s.disp
  have := cRank_le s.cons
  simp only [nu, nuBound, slots, slotWeight]; omega

/-! ## quiescence -/

/-- no internal step of the library is enabled -/
def Quiescent (cfg : Cfg) (s : St) : Prop := ∀ l, l.isEnv = false → Iter.step cfg s l = none

theorem exists_quiescent_run {cfg : Cfg} (hs : cfg.code.Sound) : ∀ (n : Nat) (s : St), nu cfg s ≤ n →
    ∃ ls s', (∀ l ∈ ls, l.isEnv = false) ∧ Iter.run cfg s ls = some s' ∧ Quiescent cfg s' := by
  intro n
  induction n with
  | zero =>
    intro s hn
    refine ⟨[], s, by simp, rfl, ?_⟩
    intro l hl
    cases hst : Iter.step cfg s l with
    | none => rfl
    | some s1 => have := nu_decreases hs hst (ne_nextCall_of_not_env hl); omega
  | succ n ih =>
    intro s hn
    by_cases hq : Quiescent cfg s
    · exact ⟨[], s, by simp, rfl, hq⟩
    · simp only [Quiescent, Classical.not_forall] at hq
      obtain ⟨l, hl, hne⟩ := hq
      cases hst : Iter.step cfg s l with
      | none => exact absurd hst hne
      | some s1 =>
        have hd := nu_decreases hs hst (ne_nextCall_of_not_env hl)
        obtain ⟨ls, s', h1, h2, h3⟩ := ih s1 (by omega)
        refine ⟨l :: ls, s', ?_, by simp [Iter.run, hst, h2], h3⟩
        intro x hx
        rcases List.mem_cons.1 hx with rfl | hx
        · exact hl
        · exact h1 x hx

/-! ## a pending `Next` -/

/-- what a pending `Next` call has done so far, relative to the state `s0` in which it was pending -/
def NextOutcome (s0 s : St) : Prop :=
  (s.cons = .next ∧ s.results = s0.results) ∨ (s.cons = .idle ∧ ∃ r, s.results = s0.results ++ [r])

theorem nextOutcome_step {cfg : Cfg} {s0 s s' : St} {l : Label} (hp : NextOutcome s0 s)
    (hl : l ≠ .nextCall) (h : Iter.step cfg s l = some s') : NextOutcome s0 s' := by
  rcases hp with ⟨hp, hr⟩ | ⟨hp, r, hr⟩
  · cases l
    all_goals
      iter_cases h => (simp_all [NextOutcome])
  · cases l
    all_goals
      iter_cases h => (simp_all [NextOutcome])

theorem nextOutcome_run {cfg : Cfg} {s0 : St} {ls : List Label} : ∀ {s s' : St}, NextOutcome s0 s →
    (∀ l ∈ ls, l ≠ .nextCall) → Iter.run cfg s ls = some s' → NextOutcome s0 s' := by
  induction ls with
  | nil => intro s s' hp _ h; simp [Iter.run] at h; subst h; exact hp
  | cons l ls ih =>
    intro s s' hp hl h
    simp only [Iter.run] at h
    split at h
    · next s1 hs1 =>
      exact ih (nextOutcome_step hp (hl l (by simp)) hs1) (fun x hx => hl x (by simp [hx])) h
    · simp at h

/-- the labels by which a call of `f` or of the source iterator returns -/
def isReturn : Label → Bool
  | .fRet _ _ => true
  | .srcRet _ => true
  | _ => false

theorem ne_nextCall_of_service {l : Label} (h : l.isEnv = false ∨ isReturn l = true) : l ≠ .nextCall := by
  cases l <;> simp_all [Label.isEnv, isReturn]

theorem exists_service_step {cfg : Cfg} (hs : cfg.code.Sound) (hg : 1 ≤ cfg.gmp) {s : St} (h : Reach cfg s)
    (hb : s.cons = .next) :
    ∃ l s', (l.isEnv = false ∨ isReturn l = true) ∧ Iter.step cfg s l = some s' := by
  rcases progress hs hg h hb with ⟨l, hl, hen⟩ | hf | hsrc
  · obtain ⟨s', hs'⟩ := Option.isSome_iff_exists.1 hen
    exact ⟨l, s', Or.inl hl, hs'⟩
  · have hf' : 0 < cnt (fun pc => match pc with | WPc.inF _ => true | _ => false) s.ws := hf
    obtain ⟨w, pc, hw, hpc⟩ := exists_index_of_cnt_pos hf'
    cases pc with
    | inF k =>
      obtain ⟨s', hs'⟩ := Option.isSome_iff_exists.1
        (show (Iter.step cfg s (.fRet w 0)).isSome = true by simp [Iter.step, hw])
      exact ⟨_, s', Or.inr rfl, hs'⟩
    | _ => simp at hpc
  · obtain ⟨s', hs'⟩ := Option.isSome_iff_exists.1
      (show (Iter.step cfg s (.srcRet none)).isSome = true by simp [Iter.step, hsrc, hs.srcEnded])
    exact ⟨_, s', Or.inr rfl, hs'⟩

/-- **`Next` completes.** From a reachable state inside `Next` there is a run made of internal steps and
returns of `f` / of the source only at the end of which `Next` has returned (one more result). -/
theorem exists_next_run {cfg : Cfg} (hs : cfg.code.Sound) (hg : 1 ≤ cfg.gmp) (s0 : St) : ∀ (n : Nat) (s : St),
    Reach cfg s → NextOutcome s0 s → nu cfg s ≤ n →
    ∃ ls s', (∀ l ∈ ls, l.isEnv = false ∨ isReturn l = true) ∧ Iter.run cfg s ls = some s' ∧
      s'.cons = .idle ∧ ∃ r, s'.results = s0.results ++ [r] := by
  intro n
  induction n with
  | zero =>
    intro s h hp hn
    rcases hp with ⟨hp, hr⟩ | ⟨hp, hr⟩
    · obtain ⟨l, s1, hl, hst⟩ := exists_service_step hs hg h hp
      have := nu_decreases hs hst (ne_nextCall_of_service hl); omega
    · exact ⟨[], s, by simp, rfl, hp, hr⟩
  | succ n ih =>
    intro s h hp hn
    rcases hp with ⟨hp, hr⟩ | ⟨hp, hr⟩
    · obtain ⟨l, s1, hl, hst⟩ := exists_service_step hs hg h hp
      have hd := nu_decreases hs hst (ne_nextCall_of_service hl)
      have hp1 := nextOutcome_step (Or.inl ⟨hp, hr⟩) (ne_nextCall_of_service hl) hst
      obtain ⟨ls, s', h1, h2, h3⟩ := ih s1 (Reach.step h hst) hp1 (by omega)
      refine ⟨l :: ls, s', ?_, by simp [Iter.run, hst, h2], h3⟩
      intro x hx
      rcases List.mem_cons.1 hx with rfl | hx
      · exact hl
      · exact h1 x hx
    · exact ⟨[], s, by simp, rfl, hp, hr⟩

/-! ## draining: once the source has ended, consuming to the end terminates -/

def wRankD : WPc → Nat
  | .inF _ => 5
  | .sendCh _ _ => 4
  | .idle => 1
  | .done => 0

def wSumD : List WPc → Nat
  | [] => 0
  | x :: xs => wRankD x + wSumD xs

def cRankD : CPc → Nat
  | .idle => 1
  | .next => 0

/-- work left after the source has ended: per worker its remaining steps, per buffered result one
`Next` call and its yield, and the consumer's next call -/
def delta (s : St) : Nat := wSumD s.ws + 2 * s.heap.length + cRankD s.cons

theorem wRankD_eqs : (∀ k, wRankD (.inF k) = 5) ∧ (∀ k v, wRankD (.sendCh k v) = 4) ∧ wRankD .idle = 1 ∧
    wRankD .done = 0 := by simp [wRankD]
theorem cRankD_eqs : cRankD .next = 0 ∧ cRankD .idle = 1 := by simp [cRankD]

theorem wSumD_set {ws : List WPc} {w : Nat} {a b : WPc} (h : ws[w]? = some b) :
    wSumD (ws.set w a) + wRankD b = wSumD ws + wRankD a := by
  induction ws generalizing w with
  | nil => simp at h
  | cons x xs ih =>
    cases w with
    | zero => simp at h; subst h; simp [List.set, wSumD]; omega
    | succ w =>
      simp at h
      have := ih h
      simp [List.set, wSumD]; omega

theorem wSumD_set' {ws : List WPc} {w : Nat} {b : WPc} (h : ws[w]? = some b) :
    wRankD b ≤ wSumD ws ∧ ∀ a, wSumD (ws.set w a) = wSumD ws - wRankD b + wRankD a := by
  refine ⟨?_, fun a => ?_⟩
  · have := wSumD_set (a := WPc.done) h; simp only [wRankD_eqs] at this; omega
  · have := wSumD_set (a := a) h
    have := wSumD_set (a := WPc.done) h; simp only [wRankD_eqs] at this; omega

/-- the dispatcher, once done, stays done -/
theorem done_step {cfg : Cfg} {s s' : St} {l : Label} (hd : s.disp = .done) (h : Iter.step cfg s l = some s') :
    s'.disp = .done := by
  cases l
  all_goals
    iter_cases h => (simp_all)

theorem done_run {cfg : Cfg} {ls : List Label} : ∀ {s s' : St}, s.disp = .done → Iter.run cfg s ls = some s' →
    s'.disp = .done := by
  induction ls with
  | nil => intro s s' hd h; simp [Iter.run] at h; subst h; exact hd
  | cons l ls ih =>
    intro s s' hd h
    simp only [Iter.run] at h
    split at h
    · next s1 hs1 => exact ih (done_step hd hs1) h
    · simp at h

/-- results only grow -/
theorem end_mono {cfg : Cfg} {s s' : St} {l : Label} (h : Iter.step cfg s l = some s')
    (he : NextRes.end ∈ s.results) : NextRes.end ∈ s'.results := by
  cases l
  all_goals
    iter_cases h => (simp_all)

theorem end_mono_run {cfg : Cfg} {ls : List Label} : ∀ {s s' : St}, Iter.run cfg s ls = some s' →
    NextRes.end ∈ s.results → NextRes.end ∈ s'.results := by
  induction ls with
  | nil => intro s s' h he; simp [Iter.run] at h; subst h; exact he
  | cons l ls ih =>
    intro s s' h he
    simp only [Iter.run] at h
    split at h
    · next s1 hs1 => exact ih h (end_mono hs1 he)
    · simp at h

theorem length_eraseP_key {h : List (Nat × Nat)} {k v : Nat} (hm : (k, v) ∈ h) :
    (h.eraseP (fun kv => kv.1 == k)).length = h.length - 1 :=
  List.length_eraseP_of_mem hm (by simp)

/-- **After the source has ended, every step that does not report the end strictly decreases `delta`** —
the consumer's new `Next` calls included. -/
theorem delta_decreases {cfg : Cfg} {s s' : St} {l : Label} (hd : s.disp = .done)
    (h : Iter.step cfg s l = some s') (he : NextRes.end ∉ s'.results) : delta s' < delta s := by
  cases l with
  | dPull => iter_cases h => (simp_all)
  | srcRet r => iter_cases h => (simp_all)
  | dAcquire => iter_cases h => (simp_all)
  | dPark => iter_cases h => (simp_all)
  | dSend w => iter_cases h => (simp_all)
  | fRet w v =>
    iter_cases h =>
      (have hw := ‹_[_]? = some _›
       have ⟨h0, h1⟩ := wSumD_set' hw
       simp only [wRankD_eqs] at h0
       simp only [delta, h1, wRankD_eqs, cRankD_eqs, *]
       omega)
  | wHandOff w =>
    iter_cases h =>
      (have hw := ‹_[_]? = some _›
       have ⟨h0, h1⟩ := wSumD_set' hw
       simp only [wRankD_eqs] at h0
       simp only [delta, h1, wRankD_eqs, cRankD_eqs, List.length_append, List.length_cons, List.length_nil, *]
       omega)
  | wExitIdle w =>
    iter_cases h =>
      (have hw := ‹_[_]? = some _›
       have ⟨h0, h1⟩ := wSumD_set' hw
       simp only [wRankD_eqs] at h0
       simp only [delta, h1, wRankD_eqs, cRankD_eqs, *]
       omega)
  | nextCall => iter_cases h => (simp only [delta, cRankD_eqs, *]; omega)
  | cYield =>
    iter_cases h =>
      first
        | (have hx := ‹s.disp = DPc.parked _›; rw [hd] at hx; cases hx)
        | (have hf := ‹List.find? _ s.heap = some _›
           have hmem := List.mem_of_find?_eq_some hf
           have hlen := length_eraseP_key hmem
           have hpos : 0 < s.heap.length := List.length_pos_of_mem hmem
           simp only [delta, cRankD_eqs, *]
           omega)
  | cRecvClosed => iter_cases h => (simp_all)

theorem run_delta {cfg : Cfg} {ls : List Label} : ∀ {s s' : St}, s.disp = .done → Iter.run cfg s ls = some s' →
    NextRes.end ∉ s'.results → ls.length + delta s' ≤ delta s := by
  induction ls with
  | nil => intro s s' _ h _; simp [Iter.run] at h; subst h; simp
  | cons l ls ih =>
    intro s s' hd h he
    simp only [Iter.run] at h
    split at h
    · next s1 hs1 =>
      have he1 : NextRes.end ∉ s1.results := fun hc => he (end_mono_run h hc)
      have h1 := delta_decreases hd hs1 he1
      have h2 := ih (done_step hd hs1) h he
      simp only [List.length_cons]; omega
    · simp at h

/-- **Consuming to the end terminates.** From a reachable state in which the source has ended there is a
run — the consumer calling `Next` whenever it is idle, internal steps, returns of `f` — at the end of
which `Next` has reported the end. -/
theorem exists_drain_run {cfg : Cfg} (hs : cfg.code.Sound) (hg : 1 ≤ cfg.gmp) : ∀ (n : Nat) (s : St),
    Reach cfg s → s.disp = .done → delta s ≤ n →
    ∃ ls s', Iter.run cfg s ls = some s' ∧ NextRes.end ∈ s'.results ∧ ls.length ≤ n + 1 := by
  intro n
  induction n with
  | zero =>
    intro s h hd hn
    by_cases he : NextRes.end ∈ s.results
    · exact ⟨[], s, rfl, he, by simp⟩
    · cases hc : s.cons with
      | idle => simp [delta, hc, cRankD] at hn
      | next =>
        obtain ⟨l, s1, _, hst⟩ := exists_service_step hs hg h hc
        by_cases he1 : NextRes.end ∈ s1.results
        · exact ⟨[l], s1, by simp [Iter.run, hst], he1, by simp⟩
        · have := delta_decreases hd hst he1; omega
  | succ n ih =>
    intro s h hd hn
    by_cases he : NextRes.end ∈ s.results
    · exact ⟨[], s, rfl, he, by simp⟩
    · have key : ∃ l s1, Iter.step cfg s l = some s1 := by
        cases hc : s.cons with
        | idle => exact ⟨.nextCall, { s with cons := .next }, by simp [Iter.step, hc]⟩
        | next =>
          obtain ⟨l, s1, _, hst⟩ := exists_service_step hs hg h hc
          exact ⟨l, s1, hst⟩
      obtain ⟨l, s1, hst⟩ := key
      by_cases he1 : NextRes.end ∈ s1.results
      · exact ⟨[l], s1, by simp [Iter.run, hst], he1, by simp⟩
      · have hdec := delta_decreases hd hst he1
        obtain ⟨ls, s', h1, h2, h3⟩ := ih s1 (Reach.step h hst) (done_step hd hst) (by omega)
        exact ⟨l :: ls, s', by simp [Iter.run, hst, h1], h2, by simp only [List.length_cons]; omega⟩

end Juniper.Proofs.ParMap.IM
