import Juniper.Model.Group
import Juniper.Proofs.SkeletonGroup
/-! Helper lemmas for C17, thread-local part: the worker loops in closed form (this is where the
regenerated `select` tables, arm bodies, loop-shape facts and channel capacities are consumed), what a
thread step does to the lock / wait-group accounting, and the per-thread invariant. -/
namespace Juniper.Proofs.GroupLocal
open Juniper.Facts Juniper.Gen.Group Juniper.Model.Group
open Juniper.Proofs.SkeletonGroup

/-! ## What the statement-level facts take for granted (audit C17 F1/F2/F3)

The facts of `Juniper.Gen.Group` pin the *texts* `g.m.RLock()`, `g.wg.Add(1)`, `g.cancel()`, …; the
model reads them as operations on a `sync.RWMutex`, a `sync.WaitGroup` and the cancel function of the
context the spawned functions receive. That reading is true only if `g.m` *is* the standard library's
`sync.RWMutex` (not a local no-op type), `g.wg` its `WaitGroup`, `NewGroup` stores the derived context
and *its* cancel function, and every method has a pointer receiver (a value receiver locks a copy).
`groupWiring_tie` pins exactly that; `threadStep_facts` (spawn) and `progs` (Stop / StopAndWait) are
stated `under` it, so every C17 property theorem depends on it, and `stopAndWait_barrier` checks it
once more in its own proof. -/
theorem groupWiring_tie :
    groupFields = [("ctx", "context.Context"), ("cancel", "context.CancelFunc"),
                   ("m", "sync.RWMutex"), ("wg", "sync.WaitGroup")] ∧
    groupImports = [("context", "context"), ("sync", "sync")] ∧
    groupLocalTypes = [] ∧
    groupReceivers = [("spawn", "*Group"), ("Do", "*Group"), ("Stop", "*Group"), ("StopAndWait", "*Group"),
                      ("Trigger", "*Group"), ("Periodic", "*Group"), ("PeriodicOrTrigger", "*Group")] ∧
    newGroupStmts = ["bgCtx, cancel := context.WithCancel(ctx)", "return &Group{ ctx: bgCtx, cancel: cancel, }"] := by
  decide

/-- `spawn`, statement by statement with identifiers (the skeleton `pskelGroupSpawn` has the kinds only):
the bail-out releases the read lock and returns, `wg.Add(1)` occurs once, the spawned goroutine is
`f(); g.wg.Done()` — `f` runs to its end *before* the wait group is released (a `go f()` inside, or
`Done` first, breaks the barrier with every other fact unchanged: audit C17 F2). -/
theorem spawnText_tie :
    spawnStmts = ["g.m.RLock()", "if g.ctx.Err() != nil {", "g.m.RUnlock()", "return", "}", "g.wg.Add(1)",
                  "g.m.RUnlock()", "go func() { f() g.wg.Done() }()"] ∧
    spawnBailStmts = ["g.m.RUnlock()", "return"] ∧
    spawnGoStmts = ["f()", "g.wg.Done()"] ∧
    spawnAdds = 1 := by decide

/-- the Trigger goroutine's body and `jitterDuration`, with identifiers. The model takes
`jitterDuration(d, j)` to be `d + off` with `|off| ≤ |j|` (`armTimer`); that is a reading of this one
expression (`rand.Float64()*2 - 1 ∈ [-1, 1)`), which is therefore pinned (audit C17 F3). -/
theorem loopText_tie :
    trigLoopStmts = ["for {", "if g.ctx.Err() != nil {", "return", "}", "select { case <-g.ctx.Done(): return case <-c: }",
                     "f(g.ctx)", "}"] ∧
    jitterDurationStmts = ["return d + time.Duration(float64(jitter)*((rand.Float64()*2)-1))"] := by decide

/-! The closed forms of the four registration kinds hold for bodies whose control skeleton is the one
`threadStep` hard-wires (`Proofs/SkeletonGroup.lean`): one `g.spawn(func …)` around one loop that runs
`f` itself, the trigger function returned. -/
theorem loopOf_doOnce : loopOf .doOnce = { arms := [], checksCtxFirst := false, resetAfterSelect := false, ok := true } :=
  under pskelGroupDo_tie (by decide)
theorem loopOf_trigger : loopOf .trigger =
    { arms := [(.recv "g.ctx.Done()", .exit), (.recv "c", .fall)], checksCtxFirst := true,
      resetAfterSelect := false, ok := true } := under (And.intro pskelGroupTrigger_tie loopText_tie) (by decide)
theorem loopOf_periodic : loopOf .periodic =
    { arms := [(.recv "g.ctx.Done()", .exit), (.recv "t.C", .fall)], checksCtxFirst := true,
      resetAfterSelect := true, ok := true } := under (And.intro pskelGroupPeriodic_tie loopText_tie) (by decide)
theorem loopOf_pot : loopOf .pot =
    { arms := [(.recv "g.ctx.Done()", .exit), (.recv "t.C", .reset), (.recv "c", .stopDrainReset)],
      checksCtxFirst := true, resetAfterSelect := false, ok := true } :=
  under (And.intro pskelGroupPeriodicOrTrigger_tie loopText_tie) (by decide)

theorem loopOf_ok (k : Kind) : (loopOf k).ok = true := by
  cases k
  · rw [loopOf_doOnce]
  · rw [loopOf_trigger]
  · rw [loopOf_periodic]
  · rw [loopOf_pot]

theorem loopOf_checks (k : Kind) (h : k ≠ .doOnce) : (loopOf k).checksCtxFirst = true := by
  cases k
  · exact absurd rfl h
  · rw [loopOf_trigger]
  · rw [loopOf_periodic]
  · rw [loopOf_pot]

/-- The `select` of a worker loop, arm by arm. -/
theorem atSelect_step {v : View} {t t' : Thread} {c : Nat} {off : Int} {e : Eff} (hpc : t.pc = .atSelect)
    (h : threadStep v t c off = some (t', e)) :
    e = .none ∧
    ((v.ctxDone = true ∧ t.kind ≠ .doOnce ∧ t' = { t with pc := .exiting }) ∨
     (t.kind = .trigger ∧ t.token = true ∧ t' = { t with token := false, pc := .callF }) ∨
     (t.kind = .periodic ∧ t.timer = .fired ∧ t' = { t with timer := .idle, pc := .resetTimer }) ∨
     (t.kind = .pot ∧ t.timer = .fired ∧ t' = { t with timer := .idle, pc := .resetTimer }) ∨
     (t.kind = .pot ∧ t.token = true ∧ t' = { t with token := false, pc := .potStop })) := by
  unfold threadStep at h
  rw [hpc] at h
  dsimp only at h
  have hkind : t.kind = .doOnce ∨ t.kind = .trigger ∨ t.kind = .periodic ∨ t.kind = .pot := by
    cases t.kind <;> simp
  rcases hkind with hk | hk | hk | hk
  · rw [hk, loopOf_doOnce] at h; simp at h
  · rw [hk, loopOf_trigger] at h
    match c with
    | 0 =>
      simp [armReady, consume] at h
      obtain ⟨h1, h2, h3⟩ := h
      exact ⟨h3.symm, Or.inl ⟨h1, by simp [hk], h2.symm⟩⟩
    | 1 =>
      simp [armReady, consume] at h
      obtain ⟨h1, h2, h3⟩ := h
      exact ⟨h3.symm, Or.inr (Or.inl ⟨hk, h1, h2.symm⟩)⟩
    | n + 2 => simp at h
  · rw [hk, loopOf_periodic] at h
    match c with
    | 0 =>
      simp [armReady, consume] at h
      obtain ⟨h1, h2, h3⟩ := h
      exact ⟨h3.symm, Or.inl ⟨h1, by simp [hk], h2.symm⟩⟩
    | 1 =>
      simp [armReady, consume] at h
      obtain ⟨h1, h2, h3⟩ := h
      exact ⟨h3.symm, Or.inr (Or.inr (Or.inl ⟨hk, h1, h2.symm⟩))⟩
    | n + 2 => simp at h
  · rw [hk, loopOf_pot] at h
    match c with
    | 0 =>
      simp [armReady, consume] at h
      obtain ⟨h1, h2, h3⟩ := h
      exact ⟨h3.symm, Or.inl ⟨h1, by simp [hk], h2.symm⟩⟩
    | 1 =>
      simp [armReady, consume] at h
      obtain ⟨h1, h2, h3⟩ := h
      exact ⟨h3.symm, Or.inr (Or.inr (Or.inr (Or.inl ⟨hk, h1, h2.symm⟩)))⟩
    | 2 =>
      simp [armReady, consume] at h
      obtain ⟨h1, h2, h3⟩ := h
      exact ⟨h3.symm, Or.inr (Or.inr (Or.inr (Or.inr ⟨hk, h1, h2.symm⟩)))⟩
    | n + 3 => simp at h

theorem fnSelOf_spec (k : Kind) :
    fnSelOf k = if k = .trigger ∨ k = .pot then ([.send "c", .dflt], 1) else ([], 0) := by
  cases k <;> decide

theorem containsFacts : ([Arm.send "c", .dflt] : List Arm).contains (.send "c") = true ∧
    ([Arm.send "c", .dflt] : List Arm).contains .dflt = true := by decide

/-- A trigger call always leaves a value in the one-slot channel (and is recorded as owed). -/
theorem trigSend_spec {t t' : Thread} (h : trigSend t = some t') :
    (t.kind = .trigger ∨ t.kind = .pot) ∧ t' = { t with token := true, owed := true } := by
  unfold trigSend at h
  rw [fnSelOf_spec] at h
  by_cases hk : t.kind = .trigger ∨ t.kind = .pot
  · rw [if_pos hk] at h
    dsimp only at h
    rw [containsFacts.1, containsFacts.2] at h
    refine ⟨hk, ?_⟩
    cases ht : t.token
    · simp [ht] at h; exact h.symm
    · simp [ht] at h; rw [← h, ← ht]
  · rw [if_neg hk] at h; simp at h

theorem trigSend_enabled (t : Thread) (hk : t.kind = .trigger ∨ t.kind = .pot) : ∃ t', trigSend t = some t' := by
  unfold trigSend
  rw [fnSelOf_spec, if_pos hk]
  dsimp only
  rw [containsFacts.1, containsFacts.2]
  cases t.token <;> simp

def holdsWg (t : Thread) : Bool :=
  match t.pc with
  | .spawnAdded | .spawnUnlocked | .init | .loopHead | .atSelect | .potStop | .potDrain | .resetTimer
  | .callF | .inF | .exiting => true
  | _ => false

def holdsR (t : Thread) : Bool :=
  match t.pc with
  | .spawnLocked | .spawnChecked | .spawnAdded | .spawnBail => true
  | _ => false


def committed : Pc → Bool
  | .potStop | .potDrain | .resetTimer | .callF => true
  | _ => false

/-- per-thread invariant -/
def ThreadInv (t : Thread) : Prop :=
  (t.active = if t.pc = .inF then 1 else 0) ∧
  (t.owed = true → t.token = true ∨ committed t.pc = true) ∧
  ((t.kind = .periodic ∨ t.kind = .pot) →
    match t.pc with
    | .loopHead | .atSelect | .potStop | .callF | .inF => t.timer ≠ .idle
    | .potDrain => t.timer = .fired
    | _ => True) ∧
  (t.pc = .potStop ∨ t.pc = .potDrain → t.kind = .pot)

/-- all (pc before, pc after, effect) triples of a thread step -/
def triples : List (Pc × Pc × Eff) :=
  [(.spawnStart, .spawnLocked, .rlock), (.spawnLocked, .spawnBail, .none), (.spawnLocked, .spawnChecked, .none),
   (.spawnChecked, .spawnAdded, .add), (.spawnAdded, .spawnUnlocked, .runlock), (.spawnLate, .spawnUnlocked, .add),
   (.spawnUnlocked, .init, .none), (.spawnBail, .notSpawned, .runlock),
   (.init, .callF, .none), (.init, .loopHead, .none), (.loopHead, .exiting, .none), (.loopHead, .atSelect, .none),
   (.atSelect, .exiting, .none), (.atSelect, .callF, .none), (.atSelect, .resetTimer, .none), (.atSelect, .potStop, .none),
   (.potStop, .resetTimer, .none), (.potStop, .potDrain, .none), (.potDrain, .resetTimer, .none),
   (.resetTimer, .callF, .none), (.callF, .inF, .none), (.exiting, .exited, .done)]

/-- everything the global proofs need to know about one thread step -/
def StepFacts (v : View) (t t' : Thread) (e : Eff) : Prop :=
  (t.pc, t'.pc, e) ∈ triples ∧
  t'.kind = t.kind ∧ t'.interval = t.interval ∧ t'.jitter = t.jitter ∧
  (e = .rlock → v.writer = false) ∧
  (t'.pc = .spawnChecked → v.ctxDone = false) ∧
  (t'.pc = .spawnBail → v.ctxDone = true) ∧
  (ThreadInv t → ThreadInv t') ∧
  t'.runs = t.runs + (if t'.pc = .inF then 1 else 0) ∧
  (t'.token = true → t.token = true) ∧ (t'.owed = true → t.owed = true) ∧
  (t'.pc = .exiting → v.ctxDone = true) ∧
  (t.token = true ∨ committed t.pc = true → t'.token = true ∨ committed t'.pc = true ∨ t'.pc = .inF) ∧
  (t'.timer = .idle → t.timer = .idle ∨ t'.pc = .resetTimer ∨ t'.pc = .exited) ∧
  t'.active = t.active + (if t'.pc = .inF then 1 else 0) ∧
  (t.owed = true → t'.owed = true ∨ t'.pc = .inF)

theorem threadStep_facts {v : View} {t t' : Thread} {c : Nat} {off : Int} {e : Eff}
    (h : threadStep v t c off = some (t', e)) : StepFacts v t t' e := by
  have hadd : spawnAddUnderRLock = true :=
    under (And.intro pskelGroupSpawn_tie (And.intro groupWiring_tie spawnText_tie)) (by decide)
  cases hpc : t.pc
  case atSelect =>
    obtain ⟨he, hc⟩ := atSelect_step hpc h
    subst he
    rcases hc with ⟨_, _, rfl⟩ | ⟨_, _, rfl⟩ | ⟨_, _, rfl⟩ | ⟨_, _, rfl⟩ | ⟨_, _, rfl⟩ <;> simp_all [StepFacts, triples, ThreadInv, committed]
  all_goals
    unfold threadStep at h
    rw [hpc] at h
    dsimp only at h
  case spawnStart => split at h <;> simp at h; obtain ⟨rfl, rfl⟩ := h; simp_all [StepFacts, triples, ThreadInv, committed]
  case spawnLocked => split at h <;> simp at h <;> (obtain ⟨rfl, rfl⟩ := h; simp_all [StepFacts, triples, ThreadInv, committed])
  case spawnChecked => rw [hadd] at h; simp at h; obtain ⟨rfl, rfl⟩ := h; simp_all [StepFacts, triples, ThreadInv, committed]
  case spawnAdded => simp at h; obtain ⟨rfl, rfl⟩ := h; simp_all [StepFacts, triples, ThreadInv, committed]
  case spawnLate => simp at h; obtain ⟨rfl, rfl⟩ := h; simp_all [StepFacts, triples, ThreadInv, committed]
  case spawnUnlocked => simp at h; obtain ⟨rfl, rfl⟩ := h; simp_all [StepFacts, triples, ThreadInv, committed]
  case spawnBail => simp at h; obtain ⟨rfl, rfl⟩ := h; simp_all [StepFacts, triples, ThreadInv, committed]
  case notSpawned => simp at h
  case init =>
    split at h
    · simp at h; obtain ⟨rfl, rfl⟩ := h; simp_all [StepFacts, triples, ThreadInv, committed]
    · simp at h; obtain ⟨rfl, rfl⟩ := h; simp_all [StepFacts, triples, ThreadInv, committed]
    · simp [armTimer] at h
      obtain ⟨_, rfl, rfl⟩ := h; simp_all [StepFacts, triples, ThreadInv, committed]
  case loopHead => split at h <;> simp at h <;> (obtain ⟨rfl, rfl⟩ := h; simp_all [StepFacts, triples, ThreadInv, committed])
  case potStop =>
    split at h
    · simp at h; obtain ⟨rfl, rfl⟩ := h; simp_all [StepFacts, triples, ThreadInv, committed]
    · split at h <;> simp at h <;> (obtain ⟨rfl, rfl⟩ := h; simp_all [StepFacts, triples, ThreadInv, committed])
    · simp at h; obtain ⟨rfl, rfl⟩ := h; simp_all [StepFacts, triples, ThreadInv, committed]
  case potDrain => split at h <;> simp at h; obtain ⟨rfl, rfl⟩ := h; simp_all [StepFacts, triples, ThreadInv, committed]
  case resetTimer =>
    simp [armTimer] at h
    obtain ⟨_, rfl, rfl⟩ := h; simp_all [StepFacts, triples, ThreadInv, committed]
  case callF => simp at h; obtain ⟨rfl, rfl⟩ := h; simp_all [StepFacts, triples, ThreadInv, committed]
  case inF => simp at h
  case exiting => simp at h; obtain ⟨rfl, rfl⟩ := h; simp_all [StepFacts, triples, ThreadInv, committed]
  case exited => simp at h


/-! ### Accounting, decided over the finite table of thread steps -/

def wgOf : Pc → Nat
  | .spawnAdded | .spawnUnlocked | .init | .loopHead | .atSelect | .potStop | .potDrain | .resetTimer
  | .callF | .inF | .exiting => 1
  | _ => 0

def rdOf : Pc → Nat
  | .spawnLocked | .spawnChecked | .spawnAdded | .spawnBail => 1
  | _ => 0

theorem holdsWg_eq (t : Thread) : holdsWg t = decide (wgOf t.pc = 1) := by
  unfold holdsWg wgOf; cases t.pc <;> rfl

theorem holdsR_eq (t : Thread) : holdsR t = decide (rdOf t.pc = 1) := by
  unfold holdsR rdOf; cases t.pc <;> rfl

/-- every thread step keeps `wg = #threads holding the wait group` and `readers = #threads holding
the read lock`; `wg.Add` happens only from `spawnChecked` (read lock held), `wg.Done` only from
`exiting`, the read lock is taken only at `spawnStart`; `f` begins only from `callF`. -/
theorem triples_acct : ∀ x ∈ triples,
    (wgOf x.2.1 + (if x.2.2 = .done then 1 else 0) = wgOf x.1 + (if x.2.2 = .add then 1 else 0)) ∧
    (rdOf x.2.1 + (if x.2.2 = .runlock then 1 else 0) = rdOf x.1 + (if x.2.2 = .rlock then 1 else 0)) ∧
    (x.2.2 = .add → x.1 = .spawnChecked ∨ x.1 = .spawnLate) ∧
    (x.2.2 = .done → wgOf x.1 = 1) ∧
    (x.2.2 = .runlock → rdOf x.1 = 1 ∨ x.1 = .spawnLate) ∧
    (x.2.1 = .spawnLate → False) ∧
    (x.2.1 = .spawnChecked → x.1 = .spawnLocked) ∧
    (x.2.1 = .inF → x.1 = .callF) ∧
    (wgOf x.2.1 = 1 → wgOf x.1 = 1 ∨ x.2.2 = .add) := by decide

end Juniper.Proofs.GroupLocal
