import Juniper.Proofs.TreeAccessParent
import Juniper.Proofs.TreeRangeRev
/-!
# Access-level model (C01, concurrent clause): the range reader follows the functional cursor

The machine `itNext` of a range reader (`Range` / `RangeReverse` / `Iterate` + any number of `Next` calls) reads
the tree through child and parent pointers; the functional model's cursor (`Model.BTree`: `find`, `leftmostLeaf`,
`rightmostLeaf`, `nextCore`, `prevCore` over `pathTo` frames) is what C01/C02 prove correct. This file shows that on a
memory that still holds the skeleton of `t` (`Frozen`, `AuxRep`) the machine, program point by program point, is in the
middle of computing exactly those functions: `Cont … ph tg` — "continuing from `ph` the cursor settles on `tg`" —
is preserved by every read, so that every position whose *value* the reader reads is a position of the functional
iteration, hence (C01's seek and successor theorems) inside **both** bounds.
-/
namespace Juniper.Proofs.TreeAccess
open Juniper.Gen.Tree Juniper.Model.BTree Juniper.Model.BTreeAccess Juniper.Proofs.Tree

variable {K V : Type} {cmp : K → K → Int}

/-- the cursor fields of the reader are the functional position `p` -/
def Is (st : ItSt K V) (p : Pos K) : Prop := st.curr = some p.id ∧ st.i = (p.i : Int) ∧ st.k = some p.k

/-- `y` is the node object `x` of the tree -/
def Real (t : Tree K V) (x : Nat) (y : Node K V) : Prop := Sub t.root y ∧ y.id = x

theorem real_unique {t : Tree K V} (hn : (ids t.root).Nodup) {x : Nat} {y y' : Node K V} (h : Real t x y) (h' : Real t x y') :
    y = y' := sub_id_inj hn h.1 h'.1 (h.2.trans h'.2.symm)

theorem real_of_zip {t : Tree K V} {y : Node K V} {up : List (Node K V × Nat)} (h : Zip t.root y up) : Real t y.id y := by
  refine ⟨?_, rfl⟩
  induction up generalizing y with
  | nil => simp only [Zip] at h; subst h; exact .refl _
  | cons f up ih =>
    obtain ⟨p, j⟩ := f
    exact (ih h.2).snoc (List.mem_of_getElem? h.1)

/-- where the cursor will settle if the reader continues from program point `ph` (`none`: off the edge).
`fwd`: direction of the move in progress; `k`: the key a `find` looks for. -/
def Cont (cmp : K → K → Int) (t : Tree K V) (fwd : Bool) (k : K) (st : ItSt K V) : Ph → Option (Pos K) → Prop
  -- `find`
  | .ftest x i, tg => ∃ y, Real t x y ∧ (findIn cmp k y).map (·.1) = tg ∧ i ≤ (searchNode cmp k y.kvs).1
  | .fkey x i, tg => ∃ y, Real t x y ∧ (findIn cmp k y).map (·.1) = tg ∧ i ≤ (searchNode cmp k y.kvs).1 ∧ i < y.kvs.length
  | .fretn x, tg => ∃ y, Real t x y ∧ (findIn cmp k y).map (·.1) = tg ∧ searchNode cmp k y.kvs = (y.kvs.length, false)
  | .fleaf x idx, tg => ∃ y, Real t x y ∧ (findIn cmp k y).map (·.1) = tg ∧ searchNode cmp k y.kvs = (idx, false)
  | .fn x idx, tg => ∃ y, Real t x y ∧ (findIn cmp k y).map (·.1) = tg ∧ searchNode cmp k y.kvs = (idx, false) ∧ y.kids = []
  | .fchild x idx, tg => ∃ y, Real t x y ∧ (findIn cmp k y).map (·.1) = tg ∧ searchNode cmp k y.kvs = (idx, false) ∧ y.kids ≠ []
  -- `c.k = c.curr.keys[c.i]`
  | .rdK x j, tg => ∃ y, Real t x y ∧ (0 ≤ j → j.toNat < y.kvs.length → posAt y j.toNat = tg)
  -- `leftmostLeaf` / `rightmostLeaf`
  | .dl x, tg => ∃ y, Real t x y ∧ posAt (leftmostLeaf y) 0 = tg
  | .dl2 x, tg => ∃ y, Real t x y ∧ posAt (leftmostLeaf y) 0 = tg
  | .dr x, tg => ∃ y, Real t x y ∧ posAt (rightmostLeaf y) (prevLeafLast (rightmostLeaf y).n).toNat = tg
  | .drn x, tg => ∃ y, Real t x y ∧ y.kids ≠ [] ∧ posAt (rightmostLeaf y) (prevLeafLast (rightmostLeaf y).n).toNat = tg
  | .drc x n, tg => ∃ y, Real t x y ∧ y.kids ≠ [] ∧ n = y.n ∧
      posAt (rightmostLeaf y) (prevLeafLast (rightmostLeaf y).n).toNat = tg
  | .lastN x, tg => ∃ y, Real t x y ∧ y.kids = [] ∧ posAt y (prevLeafLast y.n).toNat = tg
  -- `cursor.Next` / `cursor.Prev`
  | .mGen, tg => ∃ p y fr, Is st p ∧ pathTo p.id t.root = some (fr, y) ∧ p.i < y.kvs.length ∧
      (if fwd then nextCore t p else prevCore t p) = tg
  | .mLeaf x, tg => ∃ p y fr, Is st p ∧ p.id = x ∧ pathTo p.id t.root = some (fr, y) ∧ p.i < y.kvs.length ∧
      (if fwd then nextCore t p else prevCore t p) = tg
  | .mN x i', tg => fwd = true ∧ ∃ y fr, pathTo x t.root = some (fr, y) ∧ y.id = x ∧
      (if nextLeafStay i' y.n then posAt y i'.toNat else climbNext fr.reverse) = tg ∧ 0 ≤ i'
  | .mIN x, tg => fwd = true ∧ ∃ y fr, pathTo x t.root = some (fr, y) ∧ y.id = x ∧ 0 ≤ st.i ∧
      (if nextInnerDescend st.i y.n then
        (y.kids[(nextChildIdx st.i).toNat]?).bind (fun c => posAt (leftmostLeaf c) 0)
       else climbNext fr.reverse) = tg
  | .mCh x j, tg => ∃ y, Real t x y ∧ 0 ≤ j ∧ j.toNat ≤ y.kvs.length ∧
      (y.kids[j.toNat]?).bind (fun c => if fwd then posAt (leftmostLeaf c) 0
                    else posAt (rightmostLeaf c) (prevLeafLast (rightmostLeaf c).n).toNat) = tg
  | .cPar x, tg => ∃ y up, Zip t.root y up ∧ y.id = x ∧ (if fwd then climbNext up else climbPrev up) = tg
  | .cPar2 x, tg => ∃ y q idx up, Zip t.root y ((q, idx) :: up) ∧ y.id = x ∧
      (if fwd then climbNext ((q, idx) :: up) else climbPrev ((q, idx) :: up)) = tg
  | .cIdx x p j, tg => ∃ y q idx up, Zip t.root y ((q, idx) :: up) ∧ y.id = x ∧ q.id = p ∧ j ≤ idx ∧
      (if fwd then climbNext ((q, idx) :: up) else climbPrev ((q, idx) :: up)) = tg
  | .cPar3 x idxI, tg => ∃ y q idx up, Zip t.root y ((q, idx) :: up) ∧ y.id = x ∧ idxI = (idx : Int) ∧
      (if fwd then climbNext ((q, idx) :: up) else climbPrev ((q, idx) :: up)) = tg
  | .cN p i, tg => fwd = true ∧ ∃ q up, Zip t.root q up ∧ q.id = p ∧ 0 ≤ i ∧
      (if nextClimbStop i q.n then posAt q i.toNat else climbNext up) = tg
  | _, _ => True

/-! ## the memory facts a step uses -/

structure MemOK (m : Mem K V) (t : Tree K V) : Prop where
  root : m.root = some t.root.id
  gen : m.gen = t.gen
  struct : ∀ y, Sub t.root y → NodeS m y
  aux : AuxRep m t

theorem MemOK.n {m : Mem K V} {t : Tree K V} (h : MemOK m t) {x : Nat} {y : Node K V} (hr : Real t x y) :
    m.n x = y.kvs.length := by rw [← hr.2]; exact (h.struct y hr.1).1

theorem MemOK.key {m : Mem K V} {t : Tree K V} (h : MemOK m t) {x : Nat} {y : Node K V} (hr : Real t x y) (i : Nat) :
    m.key x i = (y.kvs[i]?).map (·.1) := by
  rw [← hr.2]
  by_cases hi : i < y.kvs.length
  · rw [(h.struct y hr.1).2.1 i hi, List.getElem?_eq_getElem hi]; rfl
  · rw [h.aux.2 y hr.1 i (by omega), List.getElem?_eq_none (by omega)]; rfl

theorem MemOK.child {m : Mem K V} {t : Tree K V} (h : MemOK m t) {x : Nat} {y : Node K V} (hr : Real t x y) {i : Nat}
    (hi : i ≤ y.kvs.length) : m.child x i = (y.kids[i]?).map Node.id := by
  rw [← hr.2]; exact (h.struct y hr.1).2.2 i hi

theorem real_kid {t : Tree K V} {x : Nat} {y c : Node K V} (hr : Real t x y) {i : Nat} (hc : y.kids[i]? = some c) :
    Real t c.id c := ⟨hr.1.snoc (List.mem_of_getElem? hc), rfl⟩

theorem isEmpty_iff_head {y : Node K V} : y.kids = [] ↔ y.kids[0]? = none := by
  cases y.kids <;> simp

/-! ## `find`, `c.k = c.curr.keys[c.i]`, `leftmostLeaf`, `rightmostLeaf` -/

theorem findIn_found {k : K} {y : Node K V} {i : Nat} (h : searchNode cmp k y.kvs = (i, true)) :
    findIn cmp k y = (posAt y i).map fun p => (p, true) := by
  obtain ⟨id, kvs, kids⟩ := y
  simp only [Node.kvs] at h
  rw [findIn]; simp only [h]

theorem findIn_leaf {k : K} {y : Node K V} {i : Nat} (h : searchNode cmp k y.kvs = (i, false)) (hl : y.kids = []) :
    findIn cmp k y =
      (posAt y ((if findBacksUp i y.kvs.length && findBackUpDec then (i : Int) - 1 else i) : Int).toNat).map fun p => (p, false) := by
  obtain ⟨id, kvs, kids⟩ := y
  simp only [Node.kvs, Node.kids] at h hl
  subst hl
  rw [findIn]; simp only [h, List.isEmpty_nil, if_true, Node.kvs]
  rfl

theorem findIn_child {k : K} {y c : Node K V} {i : Nat} (h : searchNode cmp k y.kvs = (i, false)) (hl : y.kids ≠ [])
    (hc : y.kids[i]? = some c) : findIn cmp k y = findIn cmp k c := by
  obtain ⟨id, kvs, kids⟩ := y
  simp only [Node.kvs, Node.kids] at h hl hc
  have he : kids.isEmpty = false := by cases kids <;> simp_all
  rw [findIn]; simp only [h, he, Bool.false_eq_true, if_false]
  split
  · rename_i h0; rw [hc] at h0; cases h0
  · rename_i c' h0; rw [hc] at h0; cases h0; rfl

/-- the reader's cursor fields are the functional position `tg` (`none`: off the edge) -/
def Settles (st' : ItSt K V) : Option (Pos K) → Prop
  | none => st'.curr = none
  | some p => Is st' p

/-- program points: 1 = inside `find`, 2 = a descent or the key read, 3 = inside `cursor.Next` / `Prev`, 0 = the others -/
def phClass : Ph → Nat
  | .ftest _ _ | .fkey _ _ | .fretn _ | .fleaf _ _ | .fn _ _ | .fchild _ _ => 1
  | .rdK _ _ | .dl _ | .dl2 _ | .dr _ | .drn _ | .drc _ _ | .lastN _ => 2
  | .mGen | .mLeaf _ | .mN _ _ | .mIN _ | .mCh _ _ | .cPar _ | .cPar2 _ | .cIdx _ _ _ | .cPar3 _ _ | .cN _ _ => 3
  | _ => 0

/-- what a read at a `Cont` program point leads to: another `Cont` point with the same target and fields; a crash /
`unmodelled`; or the cursor has settled on the target (the fields are the target's; everything else unchanged) and
the reader goes on to `c.gen = c.t.gen` (inside a seek) resp. to the top of its loop -/
def StepOK (cmp : K → K → Int) (t : Tree K V) (fwd : Bool) (k : K) (st : ItSt K V) (ph : Ph) (tg : Option (Pos K))
    (pc : PC K V) : Prop :=
  (∃ ph', pc = .it ph' st ∧ Cont cmp t fwd k st ph' tg ∧ (phClass ph' = phClass ph ∨ phClass ph' = 2)) ∨
  (∃ r, pc = .done r) ∨
  (∃ st', Settles st' tg ∧ (st.mode = .seek → tg ≠ none) ∧ st'.mode = st.mode ∧ st'.left = st.left ∧ st'.out = st.out ∧
    st'.cgen = st.cgen ∧ pc = (match st.mode with | .seek => .it .sgen st' | _ => iterTop st'))

theorem stepOK_cont {t : Tree K V} {fwd : Bool} {k : K} {st : ItSt K V} {ph ph' : Ph} {tg : Option (Pos K)}
    (h : Cont cmp t fwd k st ph' tg) (hc : phClass ph' = phClass ph ∨ phClass ph' = 2) :
    StepOK cmp t fwd k st ph tg (.it ph' st) := Or.inl ⟨ph', rfl, h, hc⟩

theorem stepOK_done {t : Tree K V} {fwd : Bool} {k : K} {st : ItSt K V} {ph : Ph} {tg : Option (Pos K)} (r : Res V) :
    StepOK cmp t fwd k st ph tg (.done r) := Or.inr (Or.inl ⟨r, rfl⟩)

/-- `find`: `searchNode`'s loop, `curr.leaf()`, `idx == int(curr.n)`, `curr = curr.children[idx]` -/
theorem cont_find {t : Tree K V} {m : Mem K V} (hm : MemOK m t) (op : Op K V) (fwd : Bool) {st : ItSt K V}
    {ph : Ph} {tg : Option (Pos K)} (hcl : phClass ph = 1) (hc : Cont cmp t fwd op.key st ph tg) :
    StepOK cmp t fwd op.key st ph tg (itNext cmp op m ph st) := by
  cases ph with
  | ftest x i =>
    obtain ⟨y, hr, hf, hi⟩ := hc
    simp only [itNext, hm.n hr]
    by_cases hlt : i < y.kvs.length
    · have : (i : Int) < (y.kvs.length : Int) := by omega
      simp only [this, if_true]
      exact stepOK_cont ⟨y, hr, hf, hi, hlt⟩ (Or.inl rfl)
    · have : ¬ (i : Int) < (y.kvs.length : Int) := by omega
      simp only [this, if_false]
      exact stepOK_cont ⟨y, hr, hf, (searchNode_at cmp op.key y.kvs i hi).2 (by omega)⟩ (Or.inl rfl)
  | fkey x i =>
    obtain ⟨y, hr, hf, hi, hlt⟩ := hc
    obtain ⟨a1, a2, a3⟩ := (searchNode_at cmp op.key y.kvs i hi).1 hlt
    simp only [itNext, hm.key hr, List.getElem?_eq_getElem hlt, Option.map_some]
    by_cases h1 : searchLess (cmp op.key y.kvs[i].1) = true
    · simp only [h1, if_true]
      exact stepOK_cont ⟨y, hr, hf, a1 h1⟩ (Or.inl rfl)
    · have h1' : searchLess (cmp op.key y.kvs[i].1) = false := by simpa using h1
      by_cases h2 : searchEq (cmp op.key y.kvs[i].1) = true
      · simp only [h1', h2, if_true, Bool.false_eq_true, if_false]
        refine stepOK_cont ⟨y, hr, fun _ _ => ?_⟩ (Or.inr rfl)
        rw [← hf, findIn_found (a2 h1' h2)]
        simp only [Int.toNat_natCast, posAt, List.getElem?_eq_getElem hlt, Option.map_some]
      · have h2' : searchEq (cmp op.key y.kvs[i].1) = false := by simpa using h2
        simp only [h1', h2', Bool.false_eq_true, if_false]
        exact stepOK_cont ⟨y, hr, hf, a3 h1' h2'⟩ (Or.inl rfl)
  | fretn x =>
    obtain ⟨y, hr, hf, hs⟩ := hc
    simp only [itNext, hm.n hr, Int.toNat_natCast]
    exact stepOK_cont ⟨y, hr, hf, hs⟩ (Or.inl rfl)
  | fleaf x idx =>
    obtain ⟨y, hr, hf, hs⟩ := hc
    simp only [itNext, hm.child hr (Nat.zero_le _)]
    cases hk : y.kids[0]? with
    | none => exact stepOK_cont ⟨y, hr, hf, hs, isEmpty_iff_head.mpr hk⟩ (Or.inl rfl)
    | some c =>
      refine stepOK_cont ⟨y, hr, hf, hs, fun h => ?_⟩ (Or.inl rfl)
      rw [isEmpty_iff_head.mp h] at hk; cases hk
  | fn x idx =>
    obtain ⟨y, hr, hf, hs, hl⟩ := hc
    simp only [itNext, hm.n hr]
    refine stepOK_cont ⟨y, hr, fun _ _ => ?_⟩ (Or.inr rfl)
    rw [← hf, findIn_leaf hs hl]
    cases posAt y (if (findBacksUp ↑idx ↑y.kvs.length && findBackUpDec) = true then (idx : Int) - 1 else ↑idx).toNat <;> rfl
  | fchild x idx =>
    obtain ⟨y, hr, hf, hs, hl⟩ := hc
    have hle : idx ≤ y.kvs.length := by
      have := searchNode_le cmp op.key y.kvs
      rw [hs] at this; exact this
    simp only [itNext, hm.child hr hle]
    cases hk : y.kids[idx]? with
    | none => exact stepOK_done _
    | some c =>
      simp only [Option.map_some]
      refine stepOK_cont ⟨c, real_kid hr hk, ?_, Nat.zero_le _⟩ (Or.inl rfl)
      rw [← hf, findIn_child hs hl hk]
  | _ => simp [phClass] at hcl

theorem leftmostLeaf_leaf {y : Node K V} (h : y.kids[0]? = none) : leftmostLeaf y = y := by
  obtain ⟨id, kvs, kids⟩ := y
  simp only [Node.kids] at h
  rw [leftmostLeaf]
  split
  · rfl
  · rename_i c h0; rw [h] at h0; cases h0

theorem leftmostLeaf_kid {y c : Node K V} (h : y.kids[0]? = some c) : leftmostLeaf y = leftmostLeaf c := by
  obtain ⟨id, kvs, kids⟩ := y
  simp only [Node.kids] at h
  rw [leftmostLeaf]
  split
  · rename_i h0; rw [h] at h0; cases h0
  · rename_i c' h0; rw [h] at h0; cases h0; rfl

theorem rightmostLeaf_leaf {y : Node K V} (h : y.kids[y.kvs.length]? = none) : rightmostLeaf y = y := by
  obtain ⟨id, kvs, kids⟩ := y
  simp only [Node.kids, Node.kvs] at h
  rw [rightmostLeaf]
  split
  · rfl
  · rename_i c h0; rw [h] at h0; cases h0

theorem rightmostLeaf_kid {y c : Node K V} (h : y.kids[y.kvs.length]? = some c) : rightmostLeaf y = rightmostLeaf c := by
  obtain ⟨id, kvs, kids⟩ := y
  simp only [Node.kids, Node.kvs] at h
  rw [rightmostLeaf]
  split
  · rename_i h0; rw [h] at h0; cases h0
  · rename_i c' h0; rw [h] at h0; cases h0; rfl

theorem seekLastIdx_eq (n : Int) : seekLastIdx n = prevLeafLast n := by simp [seekLastIdx, prevLeafLast]

/-- `leftmostLeaf`, `rightmostLeaf`, `c.i = int(c.curr.n) - 1`, and the key read that settles the cursor -/
theorem cont_desc {t : Tree K V} {m : Mem K V} (hm : MemOK m t) (op : Op K V) (fwd : Bool) (k : K) {st : ItSt K V}
    {ph : Ph} {tg : Option (Pos K)} (hcl : phClass ph = 2) (hc : Cont cmp t fwd k st ph tg) :
    StepOK cmp t fwd k st ph tg (itNext cmp op m ph st) := by
  cases ph with
  | rdK x j =>
    obtain ⟨y, hr, hp⟩ := hc
    simp only [itNext]
    by_cases hj : j < 0
    · simp only [hj, if_true]; exact stepOK_done _
    · simp only [hj, if_false, hm.key hr]
      cases hk : y.kvs[j.toNat]? with
      | none => exact stepOK_done _
      | some kv =>
        have hlt : j.toNat < y.kvs.length := (List.getElem?_eq_some_iff.mp hk).1
        have htg := hp (by omega) hlt
        rw [posAt_eq hk] at htg
        simp only [Option.map_some]
        refine Or.inr (Or.inr ⟨{ st with curr := some x, i := j, k := some kv.1 }, ?_, ?_, rfl, rfl, rfl, rfl, ?_⟩)
        · rw [← htg]
          exact ⟨by simp [hr.2], by simp; omega, rfl⟩
        · intro _ h; rw [← htg] at h; cases h
        · cases st.mode <;> rfl
  | dl x =>
    obtain ⟨y, hr, hp⟩ := hc
    simp only [itNext, hm.child hr (Nat.zero_le _)]
    cases hk : y.kids[0]? with
    | none =>
      refine stepOK_cont ⟨y, hr, fun _ _ => ?_⟩ (Or.inl rfl)
      rw [← hp, leftmostLeaf_leaf hk]; rfl
    | some c => exact stepOK_cont ⟨y, hr, hp⟩ (Or.inl rfl)
  | dl2 x =>
    obtain ⟨y, hr, hp⟩ := hc
    simp only [itNext, hm.child hr (Nat.zero_le _)]
    cases hk : y.kids[0]? with
    | none => exact stepOK_done _
    | some c =>
      simp only [Option.map_some]
      exact stepOK_cont ⟨c, real_kid hr hk, by rw [← hp, leftmostLeaf_kid hk]⟩ (Or.inl rfl)
  | dr x =>
    obtain ⟨y, hr, hp⟩ := hc
    simp only [itNext, hm.child hr (Nat.zero_le _)]
    cases hk : y.kids[0]? with
    | none =>
      have hnil := isEmpty_iff_head.mpr hk
      refine stepOK_cont ⟨y, hr, hnil, ?_⟩ (Or.inl rfl)
      rw [← hp, rightmostLeaf_leaf (by rw [hnil]; rfl)]
    | some c =>
      refine stepOK_cont ⟨y, hr, fun h => ?_, hp⟩ (Or.inl rfl)
      rw [isEmpty_iff_head.mp h] at hk; cases hk
  | drn x =>
    obtain ⟨y, hr, hne, hp⟩ := hc
    simp only [itNext, hm.n hr]
    exact stepOK_cont ⟨y, hr, hne, rfl, hp⟩ (Or.inl rfl)
  | drc x n =>
    obtain ⟨y, hr, hne, hn, hp⟩ := hc
    subst hn
    simp only [itNext, Node.n, Int.toNat_natCast, hm.child hr (Nat.le_refl _)]
    cases hk : y.kids[y.kvs.length]? with
    | none => exact stepOK_done _
    | some c =>
      simp only [Option.map_some]
      exact stepOK_cont ⟨c, real_kid hr hk, by rw [← hp, rightmostLeaf_kid hk]⟩ (Or.inl rfl)
  | lastN x =>
    obtain ⟨y, hr, hnil, hp⟩ := hc
    have key : ∀ j, j = prevLeafLast y.n → StepOK cmp t fwd k st (.lastN x) tg (.it (.rdK x j) st) := by
      intro j hj; subst hj; exact stepOK_cont ⟨y, hr, fun _ _ => hp⟩ (Or.inl rfl)
    cases hmode : st.mode <;> simp only [itNext, hm.n hr, hmode] <;> apply key <;> simp [seekLastIdx_eq, Node.n]
  | _ => simp [phClass] at hcl

/-! ## `cursor.Next` / `cursor.Prev` -/

/-- what the navigation proofs need of the tree: distinct node objects, every node on a path has `n+1` children and
at most `maxKVs` entries -/
structure TreeOK (t : Tree K V) : Prop where
  nodup : (ids t.root).Nodup
  bal : ∃ h, Bal h t.root
  rootMax : t.root.n ≤ maxKVs

theorem treeOK_of_inv {t : Tree K V} (hi : Inv cmp t) : TreeOK t := by
  obtain ⟨h, hb, hmax, _⟩ := hi.wf.bal
  exact ⟨hi.ids.1, ⟨h, hb⟩, hmax⟩

theorem TreeOK.hone {t : Tree K V} (h : TreeOK t) : ∀ i, cnt i t.root ≤ 1 := (nodup_iff_count_le_one _).mp h.nodup

/-- the parent frame of a path: it is a node of the tree with `n+1` children and at most 15 entries -/
theorem zip_parent {t : Tree K V} (ht : TreeOK t) {y q : Node K V} {idx : Nat} {up : List (Node K V × Nat)}
    (hz : Zip t.root y ((q, idx) :: up)) :
    Real t q.id q ∧ q.kids[idx]? = some y ∧ q.kids.length = q.kvs.length + 1 ∧ (q.kvs.length : Int) ≤ maxKVs := by
  obtain ⟨h, hb⟩ := ht.bal
  obtain ⟨hp, _⟩ := zip_bal _ y h hb hz
  refine ⟨real_of_zip hz.2, hz.1, hp.1, ?_⟩
  obtain ⟨_, h', _, hocc⟩ := zip_bal up q h hb hz.2
  cases up with
  | nil =>
    have : q = t.root := hz.2
    subst this
    exact ht.rootMax
  | cons f up' => exact (hocc (by simp)).2

/-- a node object sits at one place in the tree only -/
theorem zip_idx_unique {t : Tree K V} (ht : TreeOK t) {y q : Node K V} {i j : Nat} {up : List (Node K V × Nat)}
    (h1 : Zip t.root y ((q, i) :: up)) (h2 : q.kids[j]? = some y) : i = j := by
  have h2' : Zip t.root y ((q, j) :: up) := ⟨h2, h1.2⟩
  have e1 := pathTo_unique y.id t.root _ y h1 ht.hone rfl
  have e2 := pathTo_unique y.id t.root _ y h2' ht.hone rfl
  rw [e1] at e2
  simp only [Option.some.injEq, Prod.mk.injEq, and_true, List.reverse_cons, List.append_cancel_left_eq,
    List.cons.injEq] at e2
  exact e2.2

theorem real_of_pathTo {t : Tree K V} {x : Nat} {fr : List (Node K V × Nat)} {y : Node K V}
    (h : pathTo x t.root = some (fr, y)) : Zip t.root y fr.reverse ∧ y.id = x := pathTo_spec x t.root fr y h

theorem nextCore_unfold (t : Tree K V) (p : Pos K) {fr : List (Node K V × Nat)} {y : Node K V}
    (h : pathTo p.id t.root = some (fr, y)) :
    nextCore t p =
      (if y.isLeaf then
        (if nextLeafStay ((p.i : Int) + 1) y.n then posAt y ((p.i : Int) + 1).toNat else climbNext fr.reverse)
       else if nextInnerDescend p.i y.n then
        (y.kids[(nextChildIdx p.i).toNat]?).bind (fun c => posAt (leftmostLeaf c) 0)
       else climbNext fr.reverse) := by
  simp only [nextCore, h]
  cases y.kids[(nextChildIdx p.i).toNat]? <;> rfl

theorem prevCore_unfold (t : Tree K V) (p : Pos K) {fr : List (Node K V × Nat)} {y : Node K V}
    (h : pathTo p.id t.root = some (fr, y)) :
    prevCore t p =
      (if y.isLeaf then
        (if prevLeafStay ((p.i : Int) - 1) then posAt y ((p.i : Int) - 1).toNat else climbPrev fr.reverse)
       else if prevInnerDescend p.i then
        (y.kids[(prevChildIdx p.i).toNat]?).bind (fun c => posAt (rightmostLeaf c) (prevLeafLast (rightmostLeaf c).n).toNat)
       else climbPrev fr.reverse) := by
  simp only [prevCore, h]
  cases y.kids[(prevChildIdx p.i).toNat]? <;> rfl

theorem stepOK_settle_none {t : Tree K V} {fwd : Bool} {k : K} {st : ItSt K V} {ph : Ph} (hmode : st.mode ≠ .seek) :
    StepOK cmp t fwd k st ph none (iterTop { st with curr := none }) := by
  refine Or.inr (Or.inr ⟨{ st with curr := none }, rfl, fun h => absurd h hmode, rfl, rfl, rfl, rfl, ?_⟩)
  cases hm : st.mode with
  | seek => exact absurd hm hmode
  | step => rfl
  | iter => rfl

/-- `cursor.Next` / `cursor.Prev`: `lost()`, `leaf()`, the index tests, the descent into the next child, the climb through
the parent pointers with `xslices.Index` -/
theorem cont_move {t : Tree K V} (ht : TreeOK t) {m : Mem K V} (hm : MemOK m t) (op : Op K V) (fwd : Bool) (k : K)
    {st : ItSt K V} (hdir : moveFwd op st = fwd) (hmode : st.mode ≠ .seek)
    {ph : Ph} {tg : Option (Pos K)} (hcl : phClass ph = 3) (hc : Cont cmp t fwd k st ph tg) :
    StepOK cmp t fwd k st ph tg (itNext cmp op m ph st) := by
  cases ph with
  | mGen =>
    obtain ⟨p, y, fr, his, hpath, hlt, hp⟩ := hc
    simp only [itNext, his.1]
    split
    · exact stepOK_cont ⟨p, y, fr, his, rfl, hpath, hlt, hp⟩ (Or.inl rfl)
    · exact stepOK_done _
  | mLeaf x =>
    obtain ⟨p, y, fr, his, hx, hpath, hlt, hp⟩ := hc
    subst hx
    obtain ⟨hz, hid⟩ := real_of_pathTo hpath
    have hr : Real t p.id y := ⟨(real_of_zip hz).1, hid⟩
    have hleaf : y.isLeaf = true ↔ y.kids[0]? = none := by
      unfold Node.isLeaf; rw [List.isEmpty_iff]; exact isEmpty_iff_head
    simp only [itNext, hm.child hr (Nat.zero_le _), hdir, his.2.1]
    cases hk : y.kids[0]? with
    | none =>
      have hl : y.isLeaf = true := hleaf.mpr hk
      simp only [Option.map_none]
      cases fwd with
      | true =>
        simp only [if_true, nextCore_unfold t p hpath, hl] at hp ⊢
        exact stepOK_cont ⟨rfl, y, fr, hpath, hid, hp, by omega⟩ (Or.inl rfl)
      | false =>
        simp only [Bool.false_eq_true, if_false, prevCore_unfold t p hpath, hl, if_true] at hp ⊢
        by_cases hs : prevLeafStay ((p.i : Int) - 1) = true
        · simp only [hs, if_true] at hp ⊢
          exact stepOK_cont ⟨y, hr, fun _ _ => hp⟩ (Or.inr rfl)
        · simp only [hs, if_false] at hp ⊢
          exact stepOK_cont ⟨y, fr.reverse, hz, hid, by simpa using hp⟩ (Or.inl rfl)
    | some c =>
      have hl : y.isLeaf = false := by
        cases h : y.isLeaf with
        | false => rfl
        | true => rw [hleaf.mp h] at hk; cases hk
      simp only [Option.map_some]
      cases fwd with
      | true =>
        simp only [if_true, nextCore_unfold t p hpath, hl, Bool.false_eq_true, if_false] at hp ⊢
        exact stepOK_cont ⟨rfl, y, fr, hpath, hid, by rw [his.2.1]; omega, by rw [his.2.1]; exact hp⟩ (Or.inl rfl)
      | false =>
        simp only [Bool.false_eq_true, if_false, prevCore_unfold t p hpath, hl] at hp ⊢
        by_cases hs : prevInnerDescend (p.i : Int) = true
        · simp only [hs, if_true] at hp ⊢
          refine stepOK_cont ⟨y, hr, ?_, ?_, by simpa using hp⟩ (Or.inl rfl)
          · simp only [prevChildIdx]; omega
          · simp only [prevChildIdx, Int.toNat_natCast]; omega
        · simp only [hs, if_false] at hp ⊢
          exact stepOK_cont ⟨y, fr.reverse, hz, hid, by simpa using hp⟩ (Or.inl rfl)
  | mN x i' =>
    obtain ⟨rfl, y, fr, hpath, hid, hp, hi0⟩ := hc
    obtain ⟨hz, _⟩ := real_of_pathTo hpath
    have hr : Real t x y := ⟨(real_of_zip hz).1, hid⟩
    simp only [itNext, hm.n hr]
    by_cases hs : nextLeafStay i' (y.kvs.length : Int) = true
    · have hs' : nextLeafStay i' y.n = true := hs
      simp only [hs, if_true]
      rw [hs'] at hp
      exact stepOK_cont ⟨y, hr, fun _ _ => by simpa using hp⟩ (Or.inr rfl)
    · have hs' : nextLeafStay i' y.n = false := by simpa [Node.n] using hs
      simp only [hs, if_false]
      rw [hs'] at hp
      exact stepOK_cont ⟨y, fr.reverse, hz, hid, by simpa using hp⟩ (Or.inl rfl)
  | mIN x =>
    obtain ⟨rfl, y, fr, hpath, hid, hi0, hp⟩ := hc
    obtain ⟨hz, _⟩ := real_of_pathTo hpath
    have hr : Real t x y := ⟨(real_of_zip hz).1, hid⟩
    simp only [itNext, hm.n hr]
    by_cases hs : nextInnerDescend st.i (y.kvs.length : Int) = true
    · have hs' : nextInnerDescend st.i y.n = true := hs
      simp only [hs, if_true]
      rw [hs'] at hp
      have hlt : st.i < (y.kvs.length : Int) := by simpa [nextInnerDescend] using hs
      refine stepOK_cont ⟨y, hr, ?_, ?_, by simpa using hp⟩ (Or.inl rfl)
      · simp only [nextChildIdx]; omega
      · simp only [nextChildIdx]; omega
    · have hs' : nextInnerDescend st.i y.n = false := by simpa [Node.n] using hs
      simp only [hs, if_false]
      rw [hs'] at hp
      exact stepOK_cont ⟨y, fr.reverse, hz, hid, by simpa using hp⟩ (Or.inl rfl)
  | mCh x j =>
    obtain ⟨y, hr, hj0, hjle, hp⟩ := hc
    simp only [itNext, hm.child hr hjle, hdir]
    cases hk : y.kids[j.toNat]? with
    | none => exact stepOK_done _
    | some c =>
      rw [hk] at hp
      simp only [Option.map_some, Option.bind_some] at hp ⊢
      cases fwd with
      | true => exact stepOK_cont ⟨c, real_kid hr hk, by simpa using hp⟩ (Or.inr rfl)
      | false => exact stepOK_cont ⟨c, real_kid hr hk, by simpa using hp⟩ (Or.inr rfl)
  | cPar x =>
    obtain ⟨y, up, hz, hid, hp⟩ := hc
    simp only [itNext]
    cases up with
    | nil =>
      have hy : y = t.root := hz
      subst hy
      have hnone : m.parent x = none := by rw [← hid]; exact hm.aux.1.1
      have htg : tg = none := by cases fwd <;> simpa [climbNext, climbPrev] using hp.symm
      subst htg
      simp only [hnone]
      exact stepOK_settle_none hmode
    | cons f up' =>
      obtain ⟨q, idx⟩ := f
      obtain ⟨hq, hqy, _, _⟩ := zip_parent ht hz
      have hpar : m.parent x = some q.id := by
        rw [← hid]; exact hm.aux.1.2 q hq.1 y (List.mem_of_getElem? hqy)
      simp only [hpar]
      exact stepOK_cont ⟨y, q, idx, up', hz, hid, hp⟩ (Or.inl rfl)
  | cPar2 x =>
    obtain ⟨y, q, idx, up, hz, hid, hp⟩ := hc
    obtain ⟨hq, hqy, _, _⟩ := zip_parent ht hz
    have hpar : m.parent x = some q.id := by
      rw [← hid]; exact hm.aux.1.2 q hq.1 y (List.mem_of_getElem? hqy)
    simp only [itNext, hpar]
    exact stepOK_cont ⟨y, q, idx, up, hz, hid, rfl, Nat.zero_le _, hp⟩ (Or.inl rfl)
  | cIdx x p j =>
    obtain ⟨y, q, idx, up, hz, hid, hqp, hj, hp⟩ := hc
    obtain ⟨hq, hqy, hlen, hmax⟩ := zip_parent ht hz
    have hidx : idx < q.kids.length := (List.getElem?_eq_some_iff.mp hqy).1
    have hr : Real t p q := ⟨hq.1, hqp⟩
    simp only [itNext, hm.child hr (show j ≤ q.kvs.length by omega)]
    by_cases heq : (q.kids[j]?).map Node.id = some x
    · -- found: `j` is the index of `c.curr` among the parent's children
      simp only [heq, if_true]
      cases hk : q.kids[j]? with
      | none => rw [hk] at heq; cases heq
      | some c' =>
        rw [hk] at heq
        simp only [Option.map_some, Option.some.injEq] at heq
        have hc' : c' = y := sub_id_inj ht.nodup (real_kid hq hk).1 (real_of_zip hz).1 (by rw [heq, hid])
        subst hc'
        have := zip_idx_unique ht hz hk
        subst this
        exact stepOK_cont ⟨c', q, idx, up, hz, hid, rfl, hp⟩ (Or.inl rfl)
    · simp only [heq, if_false]
      have hlt : j < idx := by
        rcases Nat.lt_or_ge j idx with h | h
        · exact h
        · have : j = idx := by omega
          subst this
          rw [hqy] at heq
          simp [hid] at heq
      have hcl16 : ((j : Int) + 1 < childrenLen) := by
        have : childrenLen = 16 := by decide
        have h15 : maxKVs = 15 := by decide
        omega
      simp only [hcl16, if_true]
      exact stepOK_cont ⟨y, q, idx, up, hz, hid, hqp, by omega, hp⟩ (Or.inl rfl)
  | cPar3 x idxI =>
    obtain ⟨y, q, idx, up, hz, hid, hI, hp⟩ := hc
    subst hI
    obtain ⟨hq, hqy, _, _⟩ := zip_parent ht hz
    have hpar : m.parent x = some q.id := by
      rw [← hid]; exact hm.aux.1.2 q hq.1 y (List.mem_of_getElem? hqy)
    simp only [itNext, hpar, hdir]
    cases fwd with
    | true =>
      simp only [if_true, climbNext] at hp ⊢
      refine stepOK_cont ⟨rfl, q, up, hz.2, rfl, ?_, hp⟩ (Or.inl rfl)
      simp only [nextClimbIdx]; omega
    | false =>
      simp only [Bool.false_eq_true, if_false, climbPrev] at hp ⊢
      by_cases hs : prevClimbStop (prevClimbIdx (idx : Int)) = true
      · simp only [hs, if_true] at hp ⊢
        exact stepOK_cont ⟨q, hq, fun _ _ => hp⟩ (Or.inr rfl)
      · simp only [hs, if_false] at hp ⊢
        exact stepOK_cont ⟨q, up, hz.2, rfl, by simpa using hp⟩ (Or.inl rfl)
  | cN p i =>
    obtain ⟨rfl, q, up, hz, hqp, hi0, hp⟩ := hc
    have hr : Real t p q := ⟨(real_of_zip hz).1, hqp⟩
    simp only [itNext, hm.n hr]
    by_cases hs : nextClimbStop i (q.kvs.length : Int) = true
    · have hs' : nextClimbStop i q.n = true := hs
      simp only [hs, if_true]
      rw [hs'] at hp
      exact stepOK_cont ⟨q, hr, fun _ _ => by simpa using hp⟩ (Or.inr rfl)
    · have hs' : nextClimbStop i q.n = false := by simpa [Node.n] using hs
      simp only [hs, if_false]
      rw [hs'] at hp
      exact stepOK_cont ⟨q, up, hz, hqp, by simpa using hp⟩ (Or.inl rfl)
  | _ => simp [phClass] at hcl

/-! ## the functional cursor a range reader follows -/

/-- `Range` seeks forward (`SeekFirst`, `SeekFirstGreaterOrEqual`, `SeekFirstGreater`), `RangeReverse` backward -/
def skFwd : SeekKind → Bool
  | .first | .ge | .gt => true
  | _ => false

/-- the near bound as the seek sees it: the keys the seek does not step over -/
def nearOf (cmp : K → K → Int) (sk : SeekKind) (skey k : K) : Bool :=
  match sk with
  | .first => true
  | .last => true
  | .ge => !seekFirstGreaterOrEqualStep (cmp skey k)
  | .gt => !seekFirstGreaterStep (cmp skey k)
  | .le => !seekLastLessOrEqualStep (cmp skey k)
  | .lt => !seekLastLessStep (cmp skey k)

/-- iterating on from the functional cursor `c` yields exactly `S` -/
def Ahead (t : Tree K V) (fwd : Bool) (c : Cursor K) (S : List (K × V)) : Prop := if fwd then Fwd t c S else Bwd t c S

/-- where `find` / `SeekFirst` / `SeekLast` put the cursor (before the step a `Seek*` may end with) -/
def preSeek (cmp : K → K → Int) (t : Tree K V) (sk : SeekKind) (skey : K) : Option (Pos K) :=
  match sk with
  | .first => posAt (leftmostLeaf t.root) 0
  | .last => posAt (rightmostLeaf t.root) (prevLeafLast (rightmostLeaf t.root).n).toNat
  | _ => (findIn cmp skey t.root).map (·.1)

/-- the step test of the seek on the key it landed on -/
def seekSteps (cmp : K → K → Int) (sk : SeekKind) (skey k : K) : Bool :=
  match sk with
  | .ge => seekFirstGreaterOrEqualStep (cmp skey k)
  | .gt => seekFirstGreaterStep (cmp skey k)
  | .le => seekLastLessOrEqualStep (cmp skey k)
  | .lt => seekLastLessStep (cmp skey k)
  | _ => false

/-- the cursor after the whole `Seek*`, in terms of where `find` / `SeekFirst` / `SeekLast` put it -/
theorem doSeek_shape (cmp : K → K → Int) (t : Tree K V) (sk : SeekKind) (skey : K) (hne : findEmpty t.root.n = false)
    {pf : Pos K} (hpre : preSeek cmp t sk skey = some pf) :
    doSeek cmp t sk skey =
      (if seekSteps cmp sk skey pf.k then
        { pos := if skFwd sk then nextCore t pf else prevCore t pf, gen := t.gen }
       else { pos := some pf, gen := t.gen }) := by
  have g1 : seekSetsGen = true := by decide
  have g2 : seekFirstSetsGen = true := by decide
  have g3 : seekLastSetsGen = true := by decide
  have g4 : seekStepCalls = true := by decide
  have e1 : seekFirstEmpty t.root.n = false := hne
  have e2 : seekLastEmpty t.root.n = false := hne
  have hl : lostAt cmp t { pos := some pf, gen := t.gen } = false := lostAt_of_gen_eq cmp t _ rfl
  have hfind : ∀ (h : (findIn cmp skey t.root).map (·.1) = some pf), ∃ b, find cmp t skey = some (pf, b) := by
    intro h
    cases hf : findIn cmp skey t.root with
    | none => rw [hf] at h; cases h
    | some r =>
      obtain ⟨p, b⟩ := r
      rw [hf] at h
      simp only [Option.map_some, Option.some.injEq] at h
      subst h
      exact ⟨b, by simp [find, hne, hf]⟩
  cases sk with
  | first =>
    simp only [preSeek] at hpre
    simp [doSeek, seekFirst, e1, g2, hpre, seekSteps]
  | last =>
    simp only [preSeek] at hpre
    simp [doSeek, seekLast, e2, g3, seekLastIdx_eq, hpre, seekSteps]
  | ge =>
    obtain ⟨b, hf⟩ := hfind hpre
    simp only [doSeek, seekFirstGreaterOrEqual, seekWith, seek, hf, g1, g4, if_true, Bool.and_true, seekSteps, skFwd, stepFwd, hl,
      Bool.false_eq_true, if_false]
  | gt =>
    obtain ⟨b, hf⟩ := hfind hpre
    simp only [doSeek, seekFirstGreater, seekWith, seek, hf, g1, g4, if_true, Bool.and_true, seekSteps, skFwd, stepFwd, hl,
      Bool.false_eq_true, if_false]
  | le =>
    obtain ⟨b, hf⟩ := hfind hpre
    simp only [doSeek, seekLastLessOrEqual, seekWith, seek, hf, g1, g4, if_true, Bool.and_true, seekSteps, skFwd, stepBwd, hl,
      Bool.false_eq_true, if_false]
  | lt =>
    obtain ⟨b, hf⟩ := hfind hpre
    simp only [doSeek, seekLastLess, seekWith, seek, hf, g1, g4, if_true, Bool.and_true, seekSteps, skFwd, stepBwd, hl,
      Bool.false_eq_true, if_false]

theorem mem_dropWhile_false {α : Type} {R : α → α → Prop} {q : α → Bool} :
    ∀ {L : List α}, L.Pairwise R → (∀ a b, R a b → q a = false → q b = false) → ∀ e ∈ L.dropWhile q, q e = false := by
  intro L
  induction L with
  | nil => intro _ _ e he; cases he
  | cons a L ih =>
    intro hs hmono e he
    obtain ⟨ha, hL⟩ := List.pairwise_cons.mp hs
    by_cases hq : q a = true
    · rw [List.dropWhile_cons_of_pos hq] at he
      exact ih hL hmono e he
    · have hq' : q a = false := by simpa using hq
      rw [List.dropWhile_cons_of_neg hq] at he
      rcases List.mem_cons.mp he with rfl | hm
      · exact hq'
      · exact hmono a e (ha e hm) hq'

/-- **what lies ahead of the cursor after the seek, and that all of it is inside the near bound** -/
theorem doSeek_ahead (hc : StrictWeak cmp) {t : Tree K V} (hi : Inv cmp t) (sk : SeekKind) (skey : K) :
    ∃ S, Ahead t (skFwd sk) (doSeek cmp t sk skey) S ∧ ∀ e ∈ S, nearOf cmp sk skey e.1 = true := by
  obtain ⟨_, _, _, hsort⟩ := inv_facts hi
  have hrev : (toList t.root).reverse.Pairwise (fun a b => cmp b.1 a.1 < 0) := List.pairwise_reverse.mpr hsort
  cases sk with
  | first => exact ⟨_, seekFirst_spec hi _, fun _ _ => rfl⟩
  | last => exact ⟨_, seekLast_spec hi _, fun _ _ => rfl⟩
  | ge =>
    refine ⟨_, seekFwd_spec hc hi seekFirstGreaterOrEqualStep (by intro c h; simp [seekFirstGreaterOrEqualStep, h])
      (by intro c h; simp [seekFirstGreaterOrEqualStep]; omega) _ skey, fun e he => ?_⟩
    have := mem_dropWhile_false (q := fun x : K × V => seekFirstGreaterOrEqualStep (cmp skey x.1)) hsort (by
      intro a b hab ha
      simp only [seekFirstGreaterOrEqualStep, decide_eq_false_iff_not] at ha ⊢
      have := hc.le_trans skey a.1 b.1 (by omega) (by omega)
      omega) e he
    simp [nearOf, this]
  | gt =>
    refine ⟨_, seekFwd_spec hc hi seekFirstGreaterStep (by intro c h; simp [seekFirstGreaterStep]; omega)
      (by intro c h; simp [seekFirstGreaterStep]; omega) _ skey, fun e he => ?_⟩
    have := mem_dropWhile_false (q := fun x : K × V => seekFirstGreaterStep (cmp skey x.1)) hsort (by
      intro a b hab ha
      simp only [seekFirstGreaterStep, decide_eq_false_iff_not] at ha ⊢
      have := hc.lt_trans (a := skey) (b := a.1) (c := b.1) (by omega) hab
      omega) e he
    simp [nearOf, this]
  | le =>
    refine ⟨_, seekBwd_spec hc hi seekLastLessOrEqualStep (by intro c h; simp [seekLastLessOrEqualStep, h])
      (by intro c h; simp [seekLastLessOrEqualStep]; omega) _ skey, fun e he => ?_⟩
    have := mem_dropWhile_false (q := fun x : K × V => seekLastLessOrEqualStep (cmp skey x.1)) hrev (by
      intro a b hab ha
      simp only [seekLastLessOrEqualStep, decide_eq_false_iff_not] at ha ⊢
      intro hb
      have := hc.lt_trans hb hab
      omega) e he
    simp [nearOf, this]
  | lt =>
    refine ⟨_, seekBwd_spec hc hi seekLastLessStep (by intro c h; simp [seekLastLessStep]; omega)
      (by intro c h; simp [seekLastLessStep]; omega) _ skey, fun e he => ?_⟩
    have := mem_dropWhile_false (q := fun x : K × V => seekLastLessStep (cmp skey x.1)) hrev (by
      intro a b hab ha
      simp only [seekLastLessStep, decide_eq_false_iff_not] at ha ⊢
      have h1 : cmp a.1 skey < 0 := (hc.anti a.1 skey).mpr (by omega)
      have h2 := hc.lt_trans hab h1
      have h3 := (hc.anti b.1 skey).mp h2
      omega) e he
    simp [nearOf, this]

/-! ## the invariant of a range reader -/

/-- the program points at which the cursor is settled (between two moves) -/
def settledPh : Ph → Bool
  | .nGen | .nVal | .fin => true
  | _ => false

/-- **The invariant of a range reader** `scan fwd sk skey …` at program point `ph` with fields `st`.
Inside the seek (before `c.gen = c.t.gen`): the reader is on its way to where `find` / `SeekFirst` / `SeekLast` put the
functional cursor (`preSeek`). Afterwards there is a functional cursor `c` — the one `doSeek`, then `nextCore` /
`prevCore` produce — whose iteration yields a list `S` all inside the near bound, and the reader's fields are `c`'s
position, or the reader is inside the move that settles on it. -/
def ScanInv (cmp : K → K → Int) (t : Tree K V) (fwd : Bool) (sk : SeekKind) (skey : K) (ph : Ph) (st : ItSt K V) : Prop :=
  skFwd sk = fwd ∧
  (ph = .fin ∨
   (st.mode = .seek ∧
     (ph = .sRoot1 ∨ (∃ r, ph = .sRootN r ∧ r = t.root.id) ∨ (ph = .sRoot2 ∧ findEmpty t.root.n = false) ∨
      (ph = .sgen ∧ findEmpty t.root.n = false ∧ ∃ pf, preSeek cmp t sk skey = some pf ∧ Is st pf) ∨
      ((phClass ph = 1 ∨ phClass ph = 2) ∧ findEmpty t.root.n = false ∧ Cont cmp t fwd skey st ph (preSeek cmp t sk skey)))) ∨
   (st.mode ≠ .seek ∧ ∃ (c : Cursor K) (S : List (K × V)), c.gen = t.gen ∧ Ahead t fwd c S ∧
      (∀ e ∈ S, nearOf cmp sk skey e.1 = true) ∧
      ((settledPh ph = true ∧ Settles st c.pos) ∨
       ((phClass ph = 2 ∨ phClass ph = 3) ∧ Cont cmp t fwd skey st ph c.pos))))

def GoodScanPC (cmp : K → K → Int) (t : Tree K V) (fwd : Bool) (sk : SeekKind) (skey : K) : PC K V → Prop
  | .it ph st => ScanInv cmp t fwd sk skey ph st
  | .done _ => True
  | _ => False

theorem moveFwd_scan {fwd : Bool} {sk : SeekKind} {skey : K} {stop : Option (CmpOp × K)} {limit : Nat} (hd : skFwd sk = fwd)
    (st : ItSt K V) : moveFwd (.scan fwd sk skey stop limit : Op K V) st = fwd := by
  simp only [moveFwd]
  cases st.mode <;> cases sk <;> simp_all [skFwd]

/-- the top of the reader's loop with a settled cursor -/
theorem goodScan_iterTop {t : Tree K V} {fwd : Bool} {sk : SeekKind} {skey : K} (hd : skFwd sk = fwd) {st : ItSt K V}
    {c : Cursor K} {S : List (K × V)} (hg : c.gen = t.gen) (ha : Ahead t fwd c S)
    (hnear : ∀ e ∈ S, nearOf cmp sk skey e.1 = true) (hs : Settles st c.pos) :
    GoodScanPC cmp t fwd sk skey (iterTop st) := by
  unfold iterTop
  split
  · exact ⟨hd, Or.inl rfl⟩
  · exact ⟨hd, Or.inr (Or.inr ⟨by simp, c, S, hg, ha, hnear, Or.inl ⟨rfl, hs⟩⟩)⟩

/-- a step from a `Cont` state after the seek -/
theorem goodScan_of_stepOK {t : Tree K V} {fwd : Bool} {sk : SeekKind} {skey : K} (hd : skFwd sk = fwd) {st : ItSt K V}
    (hmode : st.mode ≠ .seek) {c : Cursor K} {S : List (K × V)} (hg : c.gen = t.gen) (ha : Ahead t fwd c S)
    (hnear : ∀ e ∈ S, nearOf cmp sk skey e.1 = true) {ph : Ph} (hcl : phClass ph = 2 ∨ phClass ph = 3) {pc : PC K V}
    (h : StepOK cmp t fwd skey st ph c.pos pc) : GoodScanPC cmp t fwd sk skey pc := by
  rcases h with ⟨ph', rfl, hc, hcl'⟩ | ⟨r, rfl⟩ | ⟨st', hs, _, hm', _, _, _, rfl⟩
  · refine ⟨hd, Or.inr (Or.inr ⟨hmode, c, S, hg, ha, hnear, Or.inr ⟨?_, hc⟩⟩)⟩
    rcases hcl' with h | h
    · rw [h]; exact hcl
    · exact Or.inl h
  · trivial
  · have : (match st.mode with | .seek => PC.it .sgen st' | _ => iterTop st') = iterTop st' := by
      cases hmd : st.mode with
      | seek => exact absurd hmd hmode
      | step => rfl
      | iter => rfl
    rw [this]
    exact goodScan_iterTop hd hg ha hnear hs

/-- a step from a `Cont` state inside the seek -/
theorem goodScan_of_stepOK_seek {t : Tree K V} {fwd : Bool} {sk : SeekKind} {skey : K} (hd : skFwd sk = fwd) {st : ItSt K V}
    (hmode : st.mode = .seek) (hne : findEmpty t.root.n = false) {ph : Ph} (hcl : phClass ph = 1 ∨ phClass ph = 2)
    {pc : PC K V} (h : StepOK cmp t fwd skey st ph (preSeek cmp t sk skey) pc) : GoodScanPC cmp t fwd sk skey pc := by
  rcases h with ⟨ph', rfl, hc, hcl'⟩ | ⟨r, rfl⟩ | ⟨st', hs, hsome, hm', _, _, _, rfl⟩
  · refine ⟨hd, Or.inr (Or.inl ⟨hmode, Or.inr (Or.inr (Or.inr (Or.inr ⟨?_, hne, hc⟩)))⟩)⟩
    rcases hcl' with h | h
    · rw [h]; exact hcl
    · exact Or.inr h
  · trivial
  · simp only [hmode]
    cases hp : preSeek cmp t sk skey with
    | none => exact absurd hp (hsome hmode)
    | some pf =>
      rw [hp] at hs
      exact ⟨hd, Or.inr (Or.inl ⟨by rw [hm']; exact hmode, Or.inr (Or.inr (Or.inr (Or.inl ⟨rfl, hne, pf, hp, hs⟩)))⟩)⟩

/-- where `find` puts the cursor is a position of the tree -/
theorem find_at (hc : StrictWeak cmp) {t : Tree K V} (hi : Inv cmp t) (hne : findEmpty t.root.n = false) (skey : K) {pf : Pos K}
    (h : (findIn cmp skey t.root).map (·.1) = some pf) : ∃ y up e, At t.root pf y up e := by
  obtain ⟨hh, hb, _, hsort⟩ := inv_facts hi
  have hn : 1 ≤ t.root.n := by
    have h0 : ¬ t.root.n = 0 := by simpa [findEmpty] using hne
    have : 0 ≤ t.root.n := by simp [Node.n]
    omega
  obtain ⟨p, f, hf, ⟨y, up, e, ha, _⟩⟩ :=
    findIn_spec hc skey t.root hh hb hn hsort t.root [] rfl trivial (by simp [ctxBefore]) (by intro b hb'; simp [ctxAfter] at hb')
  rw [hf] at h
  simp only [Option.map_some, Option.some.injEq] at h
  subst h
  exact ⟨y, up, e, ha⟩

theorem ahead_nil (t : Tree K V) (fwd : Bool) (g : Nat) : Ahead t fwd ({ pos := none, gen := g } : Cursor K) [] := by
  unfold Ahead; cases fwd
  · exact Or.inl ⟨rfl, rfl⟩
  · exact Or.inl ⟨rfl, rfl⟩

/-- a settled cursor that is not off the edge sits on the head of what lies ahead; moving on leaves the tail -/
theorem ahead_step {t : Tree K V} (hi : Inv cmp t) {fwd : Bool} {c : Cursor K} {S : List (K × V)} (ha : Ahead t fwd c S)
    {p : Pos K} (hp : c.pos = some p) :
    ∃ y up e S', At t.root p y up e ∧ p.k = e.1 ∧ S = e :: S' ∧ c.gen = t.gen ∧
      Ahead t fwd { c with pos := if fwd then nextCore t p else prevCore t p } S' := by
  unfold Ahead at ha ⊢
  cases fwd with
  | true =>
    simp only [if_true] at ha ⊢
    rcases ha with ⟨_, h⟩ | ⟨hg, p', y, up, e, hp', hat, hk, hS⟩
    · rw [hp] at h; cases h
    · rw [hp] at hp'; cases hp'
      exact ⟨y, up, e, _, hat, hk, hS, hg, advance hi hg hat⟩
  | false =>
    simp only [Bool.false_eq_true, if_false] at ha ⊢
    rcases ha with ⟨_, h⟩ | ⟨hg, p', y, up, e, hp', hat, hk, hS⟩
    · rw [hp] at h; cases h
    · rw [hp] at hp'; cases hp'
      exact ⟨y, up, e, _, hat, hk, hS, hg, retreat hi hg hat⟩

theorem at_path {t : Tree K V} (ht : TreeOK t) {p : Pos K} {y : Node K V} {up : List (Node K V × Nat)} {e : K × V}
    (ha : At t.root p y up e) : pathTo p.id t.root = some (up.reverse, y) ∧ p.i < y.kvs.length :=
  ⟨pathTo_unique p.id t.root up y ha.zip ht.hone ha.idEq, (List.getElem?_eq_some_iff.mp ha.entry).1⟩

/-- **Every read of a range reader preserves its invariant.** -/
theorem scanInv_next (hc : StrictWeak cmp) {t : Tree K V} (hi : Inv cmp t) {m : Mem K V} (hm : MemOK m t)
    (fwd : Bool) (sk : SeekKind) (skey : K) (stop : Option (CmpOp × K)) (limit : Nat) {ph : Ph} {st : ItSt K V}
    (h : ScanInv cmp t fwd sk skey ph st) :
    GoodScanPC cmp t fwd sk skey (itNext cmp (.scan fwd sk skey stop limit) m ph st) := by
  have ht : TreeOK t := treeOK_of_inv hi
  obtain ⟨hd, h⟩ := h
  have hrootR : Real t t.root.id t.root := ⟨.refl _, rfl⟩
  have hkey : (Op.scan fwd sk skey stop limit : Op K V).key = skey := rfl
  rcases h with rfl | ⟨hmode, h⟩ | ⟨hmode, c, S, hg, ha, hnear, h⟩
  · -- the reader is through
    exact ⟨hd, Or.inl rfl⟩
  · rcases h with rfl | ⟨r, rfl, rfl⟩ | ⟨rfl, hne⟩ | ⟨rfl, hne, pf, hpre, his⟩ | ⟨hcl, hne, hcont⟩
    · -- `c.t.root`
      simp only [itNext, hm.root]
      exact ⟨hd, Or.inr (Or.inl ⟨hmode, Or.inr (Or.inl ⟨_, rfl, rfl⟩)⟩)⟩
    · -- `c.t.root.n == 0`
      have hN := hm.n hrootR
      have hempty : GoodScanPC cmp t fwd sk skey (iterTop { st with curr := none }) :=
        goodScan_iterTop (c := { pos := none, gen := t.gen }) hd rfl (ahead_nil t fwd t.gen) (by intro e he; cases he) rfl
      have hfull : findEmpty t.root.n = false → GoodScanPC cmp t fwd sk skey (.it .sRoot2 st) := fun hne =>
        ⟨hd, Or.inr (Or.inl ⟨hmode, Or.inr (Or.inr (Or.inl ⟨rfl, hne⟩))⟩)⟩
      have hfe : findEmpty t.root.n = decide ((t.root.kvs.length : Int) = 0) := by simp [findEmpty, Node.n]
      cases sk <;> simp only [itNext, hN, seekFirstEmpty, seekLastEmpty, findEmpty] <;>
        (by_cases h0 : (t.root.kvs.length : Int) = 0
         · simp only [h0, decide_true, if_true]; exact hempty
         · simp only [h0, decide_false, Bool.false_eq_true, if_false]; exact hfull (by rw [hfe]; exact decide_eq_false h0))
    · -- `curr := c.t.root` / `leftmostLeaf(c.t.root)` / `rightmostLeaf(c.t.root)`
      have wrap : ∀ ph', (phClass ph' = 1 ∨ phClass ph' = 2) → Cont cmp t fwd skey st ph' (preSeek cmp t sk skey) →
          GoodScanPC cmp t fwd sk skey (.it ph' st) := fun ph' hcl hcont =>
        ⟨hd, Or.inr (Or.inl ⟨hmode, Or.inr (Or.inr (Or.inr (Or.inr ⟨hcl, hne, hcont⟩)))⟩)⟩
      cases sk <;> simp only [itNext, hm.root]
      · exact wrap _ (Or.inr rfl) ⟨t.root, hrootR, rfl⟩
      · exact wrap _ (Or.inr rfl) ⟨t.root, hrootR, rfl⟩
      · exact wrap _ (Or.inl rfl) ⟨t.root, hrootR, rfl, Nat.zero_le _⟩
      · exact wrap _ (Or.inl rfl) ⟨t.root, hrootR, rfl, Nat.zero_le _⟩
      · exact wrap _ (Or.inl rfl) ⟨t.root, hrootR, rfl, Nat.zero_le _⟩
      · exact wrap _ (Or.inl rfl) ⟨t.root, hrootR, rfl, Nat.zero_le _⟩
    · -- `c.gen = c.t.gen`, then the step test of the `Seek*`
      have g1 : seekSetsGen = true := by decide
      have g2 : seekFirstSetsGen = true := by decide
      have g3 : seekLastSetsGen = true := by decide
      have g4 : seekStepCalls = true := by decide
      obtain ⟨S, hahead, hnear⟩ := doSeek_ahead hc hi sk skey
      rw [hd] at hahead
      have hshape := doSeek_shape cmp t sk skey hne hpre
      have hk := his.2.2
      -- the seek does not step: the cursor stays where `find` / `SeekFirst` / `SeekLast` put it
      have stay : seekSteps cmp sk skey pf.k = false → ∀ st' : ItSt K V, Is st' pf →
          GoodScanPC cmp t fwd sk skey (iterTop st') := by
        intro hs st' his'
        rw [hs] at hshape
        simp only [Bool.false_eq_true, if_false] at hshape
        refine goodScan_iterTop (c := doSeek cmp t sk skey) hd (by rw [hshape]) hahead hnear ?_
        rw [hshape]; exact his'
      -- the seek steps once: `c.Next()` / `c.Prev()` from there
      have go : seekSteps cmp sk skey pf.k = true → (findIn cmp skey t.root).map (·.1) = some pf →
          ∀ st' : ItSt K V, Is st' pf → st'.mode = .step → GoodScanPC cmp t fwd sk skey (.it .mGen st') := by
        intro hs hfind st' his' hmd
        rw [hs] at hshape
        simp only [if_true] at hshape
        obtain ⟨y, up, e, hat⟩ := find_at hc hi hne skey hfind
        obtain ⟨hpath, hlt⟩ := at_path ht hat
        refine ⟨hd, Or.inr (Or.inr ⟨by rw [hmd]; simp, doSeek cmp t sk skey, S, by rw [hshape], hahead, hnear,
          Or.inr ⟨Or.inr rfl, ?_⟩⟩)⟩
        refine ⟨pf, y, up.reverse, his', hpath, hlt, ?_⟩
        rw [hshape, hd]
      cases sk with
      | first => simp only [itNext, hk, Bool.false_and, Bool.false_eq_true, if_false]; exact stay rfl _ ⟨his.1, his.2.1, rfl⟩
      | last => simp only [itNext, hk, Bool.false_and, Bool.false_eq_true, if_false]; exact stay rfl _ ⟨his.1, his.2.1, rfl⟩
      | ge =>
        simp only [itNext, hk, g4, Bool.and_true]
        cases hs : seekFirstGreaterOrEqualStep (cmp skey pf.k) with
        | true => simp only [if_true]; exact go hs hpre _ ⟨his.1, his.2.1, rfl⟩ rfl
        | false => simp only [Bool.false_eq_true, if_false]; exact stay hs _ ⟨his.1, his.2.1, rfl⟩
      | gt =>
        simp only [itNext, hk, g4, Bool.and_true]
        cases hs : seekFirstGreaterStep (cmp skey pf.k) with
        | true => simp only [if_true]; exact go hs hpre _ ⟨his.1, his.2.1, rfl⟩ rfl
        | false => simp only [Bool.false_eq_true, if_false]; exact stay hs _ ⟨his.1, his.2.1, rfl⟩
      | le =>
        simp only [itNext, hk, g4, Bool.and_true]
        cases hs : seekLastLessOrEqualStep (cmp skey pf.k) with
        | true => simp only [if_true]; exact go hs hpre _ ⟨his.1, his.2.1, rfl⟩ rfl
        | false => simp only [Bool.false_eq_true, if_false]; exact stay hs _ ⟨his.1, his.2.1, rfl⟩
      | lt =>
        simp only [itNext, hk, g4, Bool.and_true]
        cases hs : seekLastLessStep (cmp skey pf.k) with
        | true => simp only [if_true]; exact go hs hpre _ ⟨his.1, his.2.1, rfl⟩ rfl
        | false => simp only [Bool.false_eq_true, if_false]; exact stay hs _ ⟨his.1, his.2.1, rfl⟩
    · -- inside `find` / a descent / the key read
      rcases hcl with hcl | hcl
      · exact goodScan_of_stepOK_seek hd hmode hne (Or.inl hcl) (cont_find hm _ fwd hcl hcont)
      · exact goodScan_of_stepOK_seek hd hmode hne (Or.inr hcl) (cont_desc hm _ fwd skey hcl hcont)
  · rcases h with ⟨hsett, hs⟩ | ⟨hcl, hcont⟩
    · cases ph with
      | nGen =>
        -- iterator `Next`: `lost()`, `curr == nil`, the in-range test
        simp only [itNext]
        have same : ∀ ph', settledPh ph' = true → GoodScanPC cmp t fwd sk skey (.it ph' st) := fun ph' hp =>
          ⟨hd, Or.inr (Or.inr ⟨hmode, c, S, hg, ha, hnear, Or.inl ⟨hp, hs⟩⟩)⟩
        repeat' split
        all_goals first
          | trivial
          | exact same _ rfl
      | nVal =>
        -- `valueUnchecked()`, then `iter.c.Next()` / `Prev()`
        simp only [itNext]
        split
        · rename_i x k hx hk
          cases hp : c.pos with
          | none => rw [hp] at hs; simp only [Settles] at hs; rw [hs] at hx; cases hx
          | some p =>
            rw [hp] at hs
            obtain ⟨y, up, e, S', hat, hke, hS, hg', hahead'⟩ := ahead_step hi ha hp
            obtain ⟨hpath, hlt⟩ := at_path ht hat
            refine ⟨hd, Or.inr (Or.inr ⟨hmode, { c with pos := if fwd then nextCore t p else prevCore t p }, S', hg, hahead',
              fun e' he' => hnear e' (by rw [hS]; exact List.mem_cons_of_mem _ he'), Or.inr ⟨Or.inr rfl, ?_⟩⟩)⟩
            exact ⟨p, y, up.reverse, hs, hpath, hlt, rfl⟩
        · trivial
      | fin => exact ⟨hd, Or.inl rfl⟩
      | _ => simp [settledPh] at hsett
    · rcases hcl with hcl | hcl
      · exact goodScan_of_stepOK hd hmode hg ha hnear (Or.inl hcl) (cont_desc hm _ fwd skey hcl hcont)
      · exact goodScan_of_stepOK hd hmode hg ha hnear (Or.inr hcl)
          (cont_move ht hm _ fwd skey (moveFwd_scan hd st) hmode hcl hcont)

/-! ## packaged for the configuration invariant -/

/-- the near bound of a range reader as a predicate on keys (`true` for the other operations) -/
def nearOp (cmp : K → K → Int) : Op K V → K → Bool
  | .scan _ sk skey _ _, k => nearOf cmp sk skey k
  | _, _ => true

/-- a range reader is one of `Range`'s / `RangeReverse`'s: it seeks in its own direction -/
def ScanWF : Op K V → Prop
  | .scan fwd sk _ _ _ => skFwd sk = fwd
  | _ => True

/-- the range-reader invariant of an arbitrary goroutine state (nothing to say about the other operations) -/
def ScanGood (cmp : K → K → Int) (t : Tree K V) : Op K V → PC K V → Prop
  | .scan fwd sk skey _ _, .it ph st => ScanInv cmp t fwd sk skey ph st
  | _, _ => True

theorem scanGood_of_search {t : Tree K V} {op : Op K V}
    (h : ∀ fwd sk skey stop limit, op ≠ .scan fwd sk skey stop limit) (pc : PC K V) : ScanGood cmp t op pc := by
  cases op with
  | scan fwd sk skey stop limit => exact absurd rfl (h fwd sk skey stop limit)
  | get k => cases pc <;> trivial
  | contains k => cases pc <;> trivial
  | put k v => cases pc <;> trivial

theorem scanGood_start {t : Tree K V} (op : Op K V) (hw : ScanWF op) (pc : PC K V)
    (h : ∀ fwd sk skey stop limit, op = .scan fwd sk skey stop limit → pc = .it .sRoot1 (ItSt.init limit)) :
    ScanGood cmp t op pc := by
  cases op with
  | scan fwd sk skey stop limit =>
    rw [h fwd sk skey stop limit rfl]
    exact ⟨hw, Or.inr (Or.inl ⟨rfl, Or.inl rfl⟩)⟩
  | get k => cases pc <;> trivial
  | contains k => cases pc <;> trivial
  | put k v => cases pc <;> trivial

theorem scanGood_next (hc : StrictWeak cmp) {t : Tree K V} {m : Mem K V} (hm : MemOK m t) {op : Op K V}
    (hi : ∀ fwd sk skey stop limit, op = .scan fwd sk skey stop limit → Inv cmp t) {ph : Ph} {st : ItSt K V}
    (h : ScanGood cmp t op (.it ph st)) : ScanGood cmp t op (itNext cmp op m ph st) := by
  cases op with
  | scan fwd sk skey stop limit =>
    have hinv : Inv cmp t := hi _ _ _ _ _ rfl
    have := scanInv_next hc hinv hm fwd sk skey stop limit h
    generalize itNext cmp (.scan fwd sk skey stop limit) m ph st = pc at this ⊢
    cases pc <;> first | exact this | trivial
  | get k => generalize itNext cmp (.get k) m ph st = pc; cases pc <;> trivial
  | contains k => generalize itNext cmp (.contains k) m ph st = pc; cases pc <;> trivial
  | put k v => generalize itNext cmp (.put k v) m ph st = pc; cases pc <;> trivial

/-- **the value slot a range reader is about to read holds a key inside its near bound** -/
theorem scanGood_near {t : Tree K V} (hi : Inv cmp t) {op : Op K V} {st : ItSt K V} (h : ScanGood cmp t op (.it .nVal st))
    {x : Nat} (hx : st.curr = some x) {y : Node K V} (hr : Real t x y) (hlt : st.i.toNat < y.kvs.length) :
    nearOp cmp op y.kvs[st.i.toNat].1 = true := by
  cases op with
  | scan fwd sk skey stop limit =>
    obtain ⟨hd, h⟩ := h
    rcases h with h | ⟨_, h⟩ | ⟨_, c, S, hg, ha, hnear, h⟩
    · cases h
    · rcases h with h | ⟨r, h, _⟩ | ⟨h, _⟩ | ⟨h, _⟩ | ⟨hcl, _⟩
      · cases h
      · cases h
      · cases h
      · cases h
      · simp [phClass] at hcl
    · rcases h with ⟨_, hs⟩ | ⟨hcl, _⟩
      · cases hp : c.pos with
        | none => rw [hp] at hs; simp only [Settles] at hs; rw [hs] at hx; cases hx
        | some p =>
          rw [hp] at hs
          obtain ⟨y', up, e, S', hat, hke, hS, _, _⟩ := ahead_step hi ha hp
          have hid : p.id = x := by
            have := hs.1; rw [hx] at this; exact (Option.some.inj this).symm
          have hy : y = y' := real_unique hi.ids.1 hr ⟨(real_of_zip hat.zip).1, hat.idEq.trans hid⟩
          subst hy
          have hi' : st.i.toNat = p.i := by rw [hs.2.1]; simp
          have hent := hat.entry
          rw [← hi', List.getElem?_eq_getElem hlt] at hent
          simp only [Option.some.injEq] at hent
          rw [hent]
          exact hnear e (by rw [hS]; exact List.mem_cons_self)
      · simp [phClass] at hcl
  | get k => rfl
  | contains k => rfl
  | put k v => rfl

end Juniper.Proofs.TreeAccess
