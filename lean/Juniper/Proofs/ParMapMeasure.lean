import Juniper.Proofs.ParMapStreamG
/-! Progress measure of the MapStream LTS (`Model/ParMap.lean`, namespace `Stream`).

`nu s` is a natural number that **every** step of the system strictly decreases, except the two labels
by which the consumer starts a new call (`nextCall`, `closeCall`): all 19 internal labels of the
dispatcher, the workers and the consumer, and also the environment's returns (`srcRet`, `srcCloseRet`,
`fRet`), the expiry of the consumer's per-call context and the cancellation of the parent context.
Hence between two calls of the consumer the whole system — library *and* environment — makes at most
`nu s` steps; in reachable states `nu s ≤ 8·tokens + 6·workers + 21`.

The decrease needs no invariant and only one fact about the generated code, `ctxPlain` (the library's
context does not end by itself: the label `libCtxEnd` is disabled); otherwise it holds in every state, for
every `Code`: the only way a goroutine goes round a loop is by consuming a `ready` token, and tokens
come back only through `cRelease`, which ends a `Next` call. -/
set_option linter.unusedSimpArgs false
set_option linter.unusedVariables false

namespace Juniper.Proofs.ParMap.SM
open Juniper.Gen Juniper.Facts Juniper.Model.ParMap Juniper.Model.ParMap.Stream Juniper.Proofs.ParMap
open Juniper.Proofs.ParMap.S

/-- weight of one `ready` token: one full round of the dispatcher plus one round of a worker -/
def tokenWeight : Nat := 7

def dRank : DPc → Nat
  | .sendIn _ => 10
  | .pull => 6
  | .inNext => 5
  | .waitReady _ => 4
  | .exiting _ => 3
  | .srcClosing _ => 2
  | .egRet _ => 1
  | .done => 0

def wRank : WPc → Nat
  | .inF _ => 6
  | .sendC _ _ => 5
  | .idle => 3
  | .exiting _ => 2
  | .egRet _ => 1
  | .done => 0

def cBit (b : Bool) : Nat := if b then 1 else 0
def cRank : CPc → Nat
  | .next live => 9 + cBit live
  | .releasing _ _ => 8
  | .nextWait => 1
  | .closeWait => 1
  | .idle => 0
  | .closed => 0

def wSum : List WPc → Nat
  | [] => 0
  | x :: xs => wRank x + wSum xs
def nu (s : St) : Nat :=
  tokenWeight * s.ready + dRank s.disp + wSum s.ws + cRank s.cons + s.c.length
    + cBit (!s.parentCancelled)

theorem wSum_set {ws : List WPc} {w : Nat} {a b : WPc} (h : ws[w]? = some b) :
    wSum (ws.set w a) + wRank b = wSum ws + wRank a := by
  induction ws generalizing w with
  | nil => simp at h
  | cons x xs ih =>
    cases w with
    | zero => simp at h; subst h; simp [List.set, wSum]; omega
    | succ w =>
      simp at h
      have := ih h
      simp [List.set, wSum]; omega


def isCall : Label → Bool
  | .nextCall _ => true
  | .closeCall => true
  | _ => false



theorem dRank_eqs : (∀ v, dRank (.sendIn v) = 10) ∧ dRank .pull = 6 ∧ dRank .inNext = 5 ∧
    (∀ v, dRank (.waitReady v) = 4) ∧ (∀ r, dRank (.exiting r) = 3) ∧ (∀ r, dRank (.srcClosing r) = 2) ∧
    (∀ r, dRank (.egRet r) = 1) ∧ dRank .done = 0 := by simp [dRank]
theorem wRank_eqs : (∀ k, wRank (.inF k) = 6) ∧ (∀ k v, wRank (.sendC k v) = 5) ∧ wRank .idle = 3 ∧
    (∀ r, wRank (.exiting r) = 2) ∧ (∀ r, wRank (.egRet r) = 1) ∧ wRank .done = 0 := by simp [wRank]
theorem cRank_eqs : (∀ l, cRank (.next l) = 9 + cBit l) ∧ cBit true = 1 ∧ cBit false = 0 ∧ (∀ k v, cRank (.releasing k v) = 8) ∧
    cRank .nextWait = 1 ∧ cRank .closeWait = 1 ∧ cRank .idle = 0 ∧ cRank .closed = 0 := by simp [cRank, cBit]

theorem wSum_set' {ws : List WPc} {w : Nat} {b : WPc} (h : ws[w]? = some b) :
    wRank b ≤ wSum ws ∧ ∀ a, wSum (ws.set w a) = wSum ws - wRank b + wRank a := by
  have h0 := wSum_set (a := b) h
  refine ⟨?_, fun a => ?_⟩
  · have := wSum_set (a := WPc.done) h; simp only [wRank_eqs] at this; omega
  · have := wSum_set (a := a) h
    have := wSum_set (a := WPc.done) h; simp only [wRank_eqs] at this; omega

syntax "nu_w" : tactic
macro_rules
  | `(tactic| nu_w) =>
    `(tactic| (
       have hw := ‹_[_]? = some _›
       have ⟨h0, h1⟩ := wSum_set' hw
       simp only [wRank_eqs] at h0
       try simp only [Bool.and_eq_true, decide_eq_true_eq, gt_iff_lt, Bool.not_eq_true] at *
       simp only [nu, tokenWeight, h1, dRank_eqs, cRank_eqs, wRank_eqs, egRecord, List.length_append, List.length_cons, List.length_nil, *]
       omega))

theorem nu_decreases {cfg : Cfg} (hp : cfg.code.ctxPlain = true) {s s' : St} {l : Label}
    (h : Stream.step cfg s l = some s') (hl : isCall l = false) : nu s' < nu s := by
  cases l with
  | nextCall live => simp [isCall] at hl
  | closeCall => simp [isCall] at hl
  | libCtxEnd => simp [Stream.step, hp] at h
  | dSend w => stream_cases h => nu_w
  | fRet w r => stream_cases h => nu_w
  | wSendC w => stream_cases h => nu_w
  | wSendCtx w => stream_cases h => nu_w
  | wExitIdle w => stream_cases h => nu_w
  | wDefer w => stream_cases h => nu_w
  | wEgDone w => stream_cases h => nu_w
  | _ =>
    stream_cases h =>
      (try simp only [Bool.and_eq_true, decide_eq_true_eq, gt_iff_lt, Bool.not_eq_true] at *
       simp only [nu, tokenWeight, dRank_eqs, cRank_eqs, egRecord, List.length_append, List.length_cons, List.length_nil, Bool.not_true, Bool.not_false, *]
       omega)

theorem isCall_of_not_env {l : Label} (h : l.isEnv = false) : isCall l = false := by
  cases l <;> simp_all [Label.isEnv, isCall]

/-! ## runs -/

/-- a run without new consumer calls from `s` to `s'` is paid for by the measure -/
theorem run_nu {cfg : Cfg} (hp : cfg.code.ctxPlain = true) {ls : List Label} : ∀ {s s' : St}, Stream.run cfg s ls = some s' →
    (∀ l ∈ ls, isCall l = false) → ls.length + nu s' ≤ nu s := by
  induction ls with
  | nil => intro s s' h _; simp [Stream.run] at h; subst h; simp
  | cons l ls ih =>
    intro s s' h hl
    simp only [Stream.run] at h
    split at h
    · next s1 hs1 =>
      have h1 := nu_decreases hp hs1 (hl l (by simp))
      have h2 := ih h (fun x hx => hl x (by simp [hx]))
      simp only [List.length_cons]; omega
    · simp at h

theorem run_append {cfg : Cfg} {ls₁ ls₂ : List Label} {s s₁ s₂ : St} (h1 : Stream.run cfg s ls₁ = some s₁)
    (h2 : Stream.run cfg s₁ ls₂ = some s₂) : Stream.run cfg s (ls₁ ++ ls₂) = some s₂ := by
  induction ls₁ generalizing s with
  | nil => simp [Stream.run] at h1; subst h1; simpa using h2
  | cons l ls ih =>
    simp only [Stream.run] at h1
    split at h1
    · next s' hs' => simp only [List.cons_append, Stream.run, hs']; exact ih h1
    · simp at h1

/-! ## size of the measure in reachable states -/

structure InvCap (cfg : Cfg) (s : St) : Prop where
  R : s.ready ≤ readyCap cfg
  C : s.c.length ≤ cCap cfg

theorem invCap_init {cfg : Cfg} (hs : cfg.code.Sound) (hg : 1 ≤ cfg.gmp) : InvCap cfg (Stream.init cfg) := by
  have ⟨_, h2, _⟩ := caps hs hg
  exact ⟨by simp [Stream.init, h2], by simp [Stream.init]⟩

theorem invCap_step {cfg : Cfg} (hs : cfg.code.Sound) {s s' : St} {l : Label} (hi : InvCap cfg s)
    (h : Stream.step cfg s l = some s') : InvCap cfg s' := by
  have ⟨iR, iC⟩ := hi
  cases l
  all_goals
    stream_cases h =>
      (refine ⟨?_, ?_⟩ <;> simp_all [egRecord, hs.releases] <;> omega)

theorem invCap {cfg : Cfg} (hs : cfg.code.Sound) (hg : 1 ≤ cfg.gmp) {s : St} (h : Reach cfg s) : InvCap cfg s := by
  induction h with
  | init => exact invCap_init hs hg
  | step _ hstep ih => exact invCap_step hs ih hstep

theorem wSum_le (ws : List WPc) : wSum ws ≤ 6 * ws.length := by
  induction ws with
  | nil => simp [wSum]
  | cons x xs ih =>
    have : wRank x ≤ 6 := by cases x <;> simp [wRank]
    simp only [wSum, List.length_cons]; omega

theorem dRank_le (d : DPc) : dRank d ≤ 10 := by cases d <;> simp [dRank]
theorem cBit_le (b : Bool) : cBit b ≤ 1 := by cases b <;> simp [cBit]
theorem cRank_le (c : CPc) : cRank c ≤ 10 := by
  cases c with
  | next live => have := cBit_le live; simp [cRank]; omega
  | _ => simp [cRank]

/-- the bound of the measure: a function of the clamped buffer size and parallelism only -/
def nuBound (cfg : Cfg) : Nat := 8 * numTokens cfg + 6 * numWorkers cfg + 21

theorem nu_le {cfg : Cfg} (hs : cfg.code.Sound) (hg : 1 ≤ cfg.gmp) {s : St} (h : Reach cfg s) :
    nu s ≤ nuBound cfg := by
  have ⟨_, h2, h3⟩ := caps hs hg
  have ⟨hR, hC⟩ := invCap hs hg h
  have hlen := (invA hs h).len
  have := wSum_le s.ws
  have := dRank_le s.disp
  have := cRank_le s.cons
  have := cBit_le (!s.parentCancelled)
  simp only [nu, nuBound, tokenWeight]; omega

/-! ## quiescence -/

/-- no internal step of the library is enabled -/
def Quiescent (cfg : Cfg) (s : St) : Prop := ∀ l, l.isEnv = false → Stream.step cfg s l = none

/-- from every state some run of internal steps reaches a quiescent state -/
theorem exists_quiescent_run (cfg : Cfg) (hp : cfg.code.ctxPlain = true) : ∀ (n : Nat) (s : St), nu s ≤ n →
    ∃ ls s', (∀ l ∈ ls, l.isEnv = false) ∧ Stream.run cfg s ls = some s' ∧ Quiescent cfg s' := by
  intro n
  induction n with
  | zero =>
    intro s hn
    refine ⟨[], s, by simp, rfl, ?_⟩
    intro l hl
    cases hst : Stream.step cfg s l with
    | none => rfl
    | some s1 => have := nu_decreases hp hst (isCall_of_not_env hl); omega
  | succ n ih =>
    intro s hn
    by_cases hq : Quiescent cfg s
    · exact ⟨[], s, by simp, rfl, hq⟩
    · simp only [Quiescent, Classical.not_forall] at hq
      obtain ⟨l, hl, hne⟩ := hq
      cases hst : Stream.step cfg s l with
      | none => exact absurd hst hne
      | some s1 =>
        have hd := nu_decreases hp hst (isCall_of_not_env hl)
        obtain ⟨ls, s', h1, h2, h3⟩ := ih s1 (by omega)
        refine ⟨l :: ls, s', ?_, by simp [Stream.run, hst, h2], h3⟩
        intro x hx
        rcases List.mem_cons.1 hx with rfl | hx
        · exact hl
        · exact h1 x hx

/-! ## the phases of the consumer -/

/-- inside `Close` or after it -/
def closePhase : CPc → Bool
  | .closeWait => true
  | .closed => true
  | _ => false

/-- inside `Next` -/
def inNext : CPc → Bool
  | .next _ => true
  | .releasing _ _ => true
  | .nextWait => true
  | _ => false

/-- once `Close` has been called the consumer makes no further call: no `nextCall`/`closeCall` is
enabled, and the phase is kept -/
theorem closePhase_step {cfg : Cfg} {s s' : St} {l : Label} (hp : closePhase s.cons = true)
    (h : Stream.step cfg s l = some s') : isCall l = false ∧ closePhase s'.cons = true := by
  cases l
  all_goals
    stream_cases h => (simp_all [closePhase, isCall, egRecord])

theorem closePhase_run {cfg : Cfg} {ls : List Label} : ∀ {s s' : St}, closePhase s.cons = true →
    Stream.run cfg s ls = some s' → (∀ l ∈ ls, isCall l = false) ∧ closePhase s'.cons = true := by
  induction ls with
  | nil => intro s s' hp h; simp [Stream.run] at h; subst h; exact ⟨by simp, hp⟩
  | cons l ls ih =>
    intro s s' hp h
    simp only [Stream.run] at h
    split at h
    · next s1 hs1 =>
      have ⟨h1, h2⟩ := closePhase_step hp hs1
      have ⟨h3, h4⟩ := ih h2 h
      refine ⟨?_, h4⟩
      intro x hx
      rcases List.mem_cons.1 hx with rfl | hx
      · exact h1
      · exact h3 x hx
    · simp at h

/-- what a pending `Next` call has done so far, relative to the state `s0` in which it was pending:
still inside (nothing reported yet), or returned with exactly one more result -/
def NextOutcome (s0 s : St) : Prop :=
  (inNext s.cons = true ∧ s.results = s0.results) ∨ (s.cons = .idle ∧ ∃ r, s.results = s0.results ++ [r])

theorem nextOutcome_step {cfg : Cfg} {s0 s s' : St} {l : Label} (hp : NextOutcome s0 s)
    (hl : isCall l = false) (h : Stream.step cfg s l = some s') : NextOutcome s0 s' := by
  rcases hp with ⟨hp, hr⟩ | ⟨hp, r, hr⟩
  · cases l
    all_goals
      stream_cases h => (simp_all [NextOutcome, inNext, isCall, egRecord])
  · cases l
    all_goals
      stream_cases h => (simp_all [NextOutcome, inNext, isCall, egRecord])

theorem nextOutcome_run {cfg : Cfg} {s0 : St} {ls : List Label} : ∀ {s s' : St}, NextOutcome s0 s →
    (∀ l ∈ ls, isCall l = false) → Stream.run cfg s ls = some s' → NextOutcome s0 s' := by
  induction ls with
  | nil => intro s s' hp _ h; simp [Stream.run] at h; subst h; exact hp
  | cons l ls ih =>
    intro s s' hp hl h
    simp only [Stream.run] at h
    split at h
    · next s1 hs1 =>
      exact ih (nextOutcome_step hp (hl l (by simp)) hs1) (fun x hx => hl x (by simp [hx])) h
    · simp at h

/-! ## the environment's returns are always possible -/

/-- the labels by which a call of `f` or of the source returns -/
def isReturn : Label → Bool
  | .fRet _ _ => true
  | .srcRet _ => true
  | .srcCloseRet => true
  | _ => false

/-- in a reachable state with the consumer inside `Next` or `Close`, some step that is internal or a
return of `f` / of the source is enabled -/
theorem exists_service_step {cfg : Cfg} (hs : cfg.code.Sound) (hg : 1 ≤ cfg.gmp) {s : St} (h : Reach cfg s)
    (hb : consBusy s.cons = true) :
    ∃ l s', (l.isEnv = false ∨ isReturn l = true) ∧ Stream.step cfg s l = some s' := by
  rcases progress hs hg h hb with ⟨l, hl, hen⟩ | hf | hsrc
  · obtain ⟨s', hs'⟩ := Option.isSome_iff_exists.1 hen
    exact ⟨l, s', Or.inl hl, hs'⟩
  · have hf' : 0 < cnt (fun pc => match pc with | WPc.inF _ => true | _ => false) s.ws := hf
    obtain ⟨w, pc, hw, hpc⟩ := exists_index_of_cnt_pos hf'
    cases pc with
    | inF k =>
      obtain ⟨s', hs'⟩ := Option.isSome_iff_exists.1
        (show (Stream.step cfg s (.fRet w (.ok 0))).isSome = true by simp [Stream.step, hw, hs.workerFailed])
      exact ⟨_, s', Or.inr rfl, hs'⟩
    | _ => simp at hpc
  · cases hd : s.disp with
    | inNext =>
      obtain ⟨s', hs'⟩ := Option.isSome_iff_exists.1
        (show (Stream.step cfg s (.srcRet .end)).isSome = true by simp [Stream.step, hd, hs.dispEnd])
      exact ⟨_, s', Or.inr rfl, hs'⟩
    | srcClosing r =>
      obtain ⟨s', hs'⟩ := Option.isSome_iff_exists.1
        (show (Stream.step cfg s .srcCloseRet).isSome = true by simp [Stream.step, hd])
      exact ⟨_, s', Or.inr rfl, hs'⟩
    | _ => simp [srcBusy, hd] at hsrc

theorem isCall_of_service {l : Label} (h : l.isEnv = false ∨ isReturn l = true) : isCall l = false := by
  cases l <;> simp_all [Label.isEnv, isCall, isReturn]

/-- **`Close` completes.** From a reachable state inside `Close` there is a run made of internal steps
and returns of `f` / of the source only, no longer than the measure, at the end of which `Close` has
returned. -/
theorem exists_close_run {cfg : Cfg} (hs : cfg.code.Sound) (hg : 1 ≤ cfg.gmp) : ∀ (n : Nat) (s : St),
    Reach cfg s → closePhase s.cons = true → nu s ≤ n →
    ∃ ls s', (∀ l ∈ ls, l.isEnv = false ∨ isReturn l = true) ∧ Stream.run cfg s ls = some s' ∧
      s'.cons = .closed := by
  intro n
  induction n with
  | zero =>
    intro s h hp hn
    cases hc : s.cons with
    | closed => exact ⟨[], s, by simp, rfl, hc⟩
    | closeWait =>
      obtain ⟨l, s1, hl, hst⟩ := exists_service_step hs hg h (by simp [hc, consBusy])
      have := nu_decreases hs.ctxPlain hst (isCall_of_service hl); omega
    | _ => simp [hc, closePhase] at hp
  | succ n ih =>
    intro s h hp hn
    cases hc : s.cons with
    | closed => exact ⟨[], s, by simp, rfl, hc⟩
    | closeWait =>
      obtain ⟨l, s1, hl, hst⟩ := exists_service_step hs hg h (by simp [hc, consBusy])
      have hd := nu_decreases hs.ctxPlain hst (isCall_of_service hl)
      have ⟨_, hp1⟩ := closePhase_step hp hst
      obtain ⟨ls, s', h1, h2, h3⟩ := ih s1 (Reach.step h hst) hp1 (by omega)
      refine ⟨l :: ls, s', ?_, by simp [Stream.run, hst, h2], h3⟩
      intro x hx
      rcases List.mem_cons.1 hx with rfl | hx
      · exact hl
      · exact h1 x hx
    | _ => simp [hc, closePhase] at hp

/-- **`Next` completes.** From a reachable state inside `Next` there is a run made of internal steps and
returns of `f` / of the source only at the end of which `Next` has returned (one more result). -/
theorem exists_next_run {cfg : Cfg} (hs : cfg.code.Sound) (hg : 1 ≤ cfg.gmp) (s0 : St) : ∀ (n : Nat) (s : St),
    Reach cfg s → NextOutcome s0 s → nu s ≤ n →
    ∃ ls s', (∀ l ∈ ls, l.isEnv = false ∨ isReturn l = true) ∧ Stream.run cfg s ls = some s' ∧
      s'.cons = .idle ∧ ∃ r, s'.results = s0.results ++ [r] := by
  intro n
  induction n with
  | zero =>
    intro s h hp hn
    rcases hp with ⟨hp, hr⟩ | ⟨hp, hr⟩
    · obtain ⟨l, s1, hl, hst⟩ := exists_service_step hs hg h (by cases hc : s.cons <;> simp_all [inNext, consBusy])
      have := nu_decreases hs.ctxPlain hst (isCall_of_service hl); omega
    · exact ⟨[], s, by simp, rfl, hp, hr⟩
  | succ n ih =>
    intro s h hp hn
    rcases hp with ⟨hp, hr⟩ | ⟨hp, hr⟩
    · obtain ⟨l, s1, hl, hst⟩ := exists_service_step hs hg h (by cases hc : s.cons <;> simp_all [inNext, consBusy])
      have hd := nu_decreases hs.ctxPlain hst (isCall_of_service hl)
      have hp1 := nextOutcome_step (Or.inl ⟨hp, hr⟩) (isCall_of_service hl) hst
      obtain ⟨ls, s', h1, h2, h3⟩ := ih s1 (Reach.step h hst) hp1 (by omega)
      refine ⟨l :: ls, s', ?_, by simp [Stream.run, hst, h2], h3⟩
      intro x hx
      rcases List.mem_cons.1 hx with rfl | hx
      · exact hl
      · exact h1 x hx
    · exact ⟨[], s, by simp, rfl, hp, hr⟩

end Juniper.Proofs.ParMap.SM
